package main

import (
	"bufio"
	"fmt"
	"strings"
)

// c01tie: tie 1 of C01 (model translator = real translator on the proved fragment S1). Same op/answer format as c01; the
// queries are generated INSIDE the S1 grammar: MATCH (n[:K…]) [WHERE p] RETURN items [ORDER BY id(n) [DESC]] [SKIP k] [LIMIT k].
type c01TieSuite struct{ c01Suite }

func init() { register("c01tie", c01TieSuite{}) }

type s1Gen struct {
	rng  *Rng
	v    string // the variable the predicate is about ("" = n)
	edge bool   // v is a relationship: kind atoms are r:EdgeKind…, the interesting property is w
}

func (g s1Gen) name() string {
	if g.v == "" {
		return "n"
	}
	return g.v
}

func (g s1Gen) atom() string {
	n := g.name()
	props := []string{"name", "a", "`k-1`"}
	props2 := []string{"a", "b", "name"}
	props3 := []string{"a", "name", "zz"}
	if g.edge {
		props, props2, props3 = []string{"name", "w"}, []string{"w", "a"}, []string{"w", "zz"}
	}
	switch g.rng.Intn(8) {
	case 0:
		return n + "." + Pick(g.rng, props) + " = " + Pick(g.rng, []string{"'x'", "'y'", "''", "'it\\'s'", "'1'"})
	case 1, 2:
		return n + "." + Pick(g.rng, props2) + " " + Pick(g.rng, []string{"=", "<>"}) + " " + Pick(g.rng, []string{"0", "1", "2", "17"})
	case 3:
		return n + "." + Pick(g.rng, props3) + " is null"
	case 4:
		return n + "." + Pick(g.rng, props3) + " is not null"
	case 5, 6:
		return "id(" + n + ") " + Pick(g.rng, []string{"=", "<>", "<", "<=", ">", ">="}) + " " + Pick(g.rng, []string{"0", "1", "2", "3"})
	default:
		if g.edge {
			return n + ":" + Pick(g.rng, []string{"EdgeKind1", "EdgeKind2"})
		}
		return n + ":" + Pick(g.rng, []string{"NodeKind1", "NodeKind2", "NodeKind1:NodeKind2", "NodeKind2:NodeKind1"})
	}
}

// pred renders a predicate; prec: 0 = OR context allowed, 1 = AND operand, 2 = NOT operand (needs parentheses around and/or)
func (g s1Gen) pred(depth, prec int) string {
	if depth == 0 || g.rng.Chance(2, 5) {
		return g.atom()
	}
	switch g.rng.Intn(5) {
	case 0:
		n := 2 + g.rng.Intn(2)
		parts := make([]string, n)
		for i := range parts {
			parts[i] = g.pred(depth-1, 1)
		}
		s := strings.Join(parts, " and ")
		if prec >= 2 {
			return "(" + s + ")"
		}
		return s
	case 1:
		n := 2 + g.rng.Intn(2)
		parts := make([]string, n)
		for i := range parts {
			parts[i] = g.pred(depth-1, 1)
		}
		s := strings.Join(parts, " or ")
		if prec >= 1 {
			return "(" + s + ")"
		}
		return s
	case 2:
		return "not " + g.pred(depth-1, 2)
	case 3:
		return "(" + g.pred(depth-1, 0) + ")"
	default:
		return g.atom()
	}
}

func (g s1Gen) query() string {
	var b strings.Builder
	b.WriteString("match (n")
	switch g.rng.Intn(4) {
	case 1:
		b.WriteString(":NodeKind1")
	case 2:
		b.WriteString(":NodeKind2:NodeKind1")
	}
	b.WriteString(")")
	if g.rng.Chance(4, 5) {
		b.WriteString(" where " + g.pred(3, 0))
	}
	b.WriteString(" return ")
	n := 1 + g.rng.Intn(3)
	items := make([]string, n)
	for i := range items {
		it := Pick(g.rng, []string{"n", "n.name", "n.a", "id(n)"})
		if g.rng.Chance(1, 3) {
			it += fmt.Sprintf(" as c%d", i)
		}
		items[i] = it
	}
	b.WriteString(strings.Join(items, ", "))
	if g.rng.Chance(1, 2) {
		b.WriteString(" order by id(n)")
		if g.rng.Bool() {
			b.WriteString(descSpelling(b.Len()))
		} else {
			b.WriteString(ascSpelling(b.Len()))
		}
		if g.rng.Chance(1, 2) {
			b.WriteString(" skip " + Pick(g.rng, []string{"0", "0", "1", "1", "2", "2", "1000"}))
		}
		if g.rng.Chance(1, 2) {
			b.WriteString(" limit " + Pick(g.rng, []string{"0", "0", "1", "1", "2", "2", "5", "5", "2147483648", "9223372036854775807"}))
		}
	}
	return b.String()
}

// s2Query: stage S2b — one directed hop with WHERE conjuncts over single variables; the RETURN reads any non-empty selection of a, r, b.
func (g s1Gen) s2Query() string { return g.s2QueryX(false) }

// crossHopQuery: stage S2x — an S2b query whose WHERE has at least one conjunct comparing a property of a with a property of b (= / <>).
func (g s1Gen) crossHopQuery() string { return g.s2QueryX(true) }

func (g s1Gen) s2QueryX(cross bool) string {
	kinds := func(opts []string) string { return Pick(g.rng, opts) }
	a := "(a" + kinds([]string{"", "", ":NodeKind1", ":NodeKind2:NodeKind1"}) + ")"
	r := "[r" + kinds([]string{"", "", ":EdgeKind1", ":EdgeKind1|EdgeKind2"}) + "]"
	b := "(b" + kinds([]string{"", "", ":NodeKind2", ":NodeKind1:NodeKind2"}) + ")"
	mk := func(v string) string {
		switch g.rng.Intn(3) {
		case 0:
			return v
		case 1:
			return "id(" + v + ")"
		default:
			return v + "." + Pick(g.rng, []string{"name", "a", "w", "zz"})
		}
	}
	// any non-empty selection of the variables may be returned: the optimised translator prunes the frame to the bindings that are read
	items := []string{mk(Pick(g.rng, []string{"a", "r", "b"}))}
	for i := g.rng.Intn(4); i > 0; i-- {
		items = append(items, mk(Pick(g.rng, []string{"a", "r", "b"})))
	}
	for i := range items {
		j := g.rng.Intn(i + 1)
		items[i], items[j] = items[j], items[i]
	}
	for i := range items {
		if g.rng.Chance(1, 3) {
			items[i] += fmt.Sprintf(" as c%d", i)
		}
	}
	where := ""
	if cross || g.rng.Chance(3, 4) {
		// WHERE: 1..4 conjuncts, each an S1 predicate over ONE of a, r, b (a conjunct that is itself a conjunction is parenthesised)
		n := 1 + g.rng.Intn(4)
		cs := make([]string, n)
		must := -1
		if cross {
			must = g.rng.Intn(n)
		}
		for i := range cs {
			if i == must || (cross && g.rng.Chance(1, 3)) {
				// a two-variable conjunct: x.k (= | <>) y.k' with {x, y} = {a, b}
				x, y := "a", "b"
				if g.rng.Chance(1, 2) {
					x, y = y, x
				}
				keys := []string{"name", "a", "a", "zz", "f"}
				cs[i] = x + "." + Pick(g.rng, keys) + Pick(g.rng, []string{" = ", " = ", " <> "}) + y + "." + Pick(g.rng, keys)
				continue
			}
			v := Pick(g.rng, []string{"a", "r", "b", "a", "b"})
			cs[i] = s1Gen{rng: g.rng, v: v, edge: v == "r"}.pred(2, 2)
		}
		where = " where " + strings.Join(cs, " and ")
	}
	return "match " + a + "-" + r + "->" + b + where + " return " + strings.Join(items, ", ")
}

// limitHopQuery: stage S2L — an S2b query with LIMIT k and neither ORDER BY nor SKIP (the shape on which limit pushdown fires).
func (g s1Gen) limitHopQuery() string {
	return g.s2Query() + " limit " + Pick(g.rng, []string{"0", "0", "1", "1", "2", "3", "5", "50", "2147483648", "9223372036854775807"})
}

// withQuery: stage S3a — MATCH (n[:K…]) [WHERE p] WITH items RETURN items, plain items on both sides: the WITH exports the node under its own
// name or renamed and property values under fresh names; the RETURN reads exported names only.
func (g s1Gen) withQuery() string {
	var b strings.Builder
	b.WriteString("match (n" + Pick(g.rng, []string{"", "", ":NodeKind1", ":NodeKind2:NodeKind1", ":NodeKind2"}) + ")")
	if g.rng.Chance(1, 2) {
		b.WriteString(" where " + g.pred(2, 0))
	}
	type exp struct {
		name string
		node bool
	}
	var exps []exp
	var ws []string
	k := 1 + g.rng.Intn(4)
	usedSelf := false
	for i := 0; i < k; i++ {
		switch g.rng.Intn(3) {
		case 0:
			if !usedSelf {
				usedSelf = true
				ws = append(ws, Pick(g.rng, []string{"n", "n", "n as n"}))
				exps = append(exps, exp{"n", true})
				continue
			}
			fallthrough
		case 1:
			nm := fmt.Sprintf("m%d", i)
			ws = append(ws, "n as "+nm)
			exps = append(exps, exp{nm, true})
		default:
			nm := fmt.Sprintf("x%d", i)
			ws = append(ws, "n."+Pick(g.rng, []string{"name", "a", "zz"})+" as "+nm)
			exps = append(exps, exp{nm, false})
		}
	}
	b.WriteString(" with " + strings.Join(ws, ", ") + " return ")
	m := 1 + g.rng.Intn(4)
	rs := make([]string, m)
	for i := range rs {
		e := Pick(g.rng, exps)
		it := e.name
		if e.node {
			it = Pick(g.rng, []string{e.name, e.name + ".name", e.name + ".a", "id(" + e.name + ")"})
		}
		if g.rng.Chance(1, 3) {
			it += fmt.Sprintf(" as c%d", i)
		}
		rs[i] = it
	}
	b.WriteString(strings.Join(rs, ", "))
	return b.String()
}

// withHopQuery: stage S3b — MATCH (n[:K…]) [WHERE p] WITH n MATCH (n)-[r[:T]]->(b[:K]) RETURN items over n, r, b (each read).
func (g s1Gen) withHopQuery() string {
	var b strings.Builder
	b.WriteString("match (n" + Pick(g.rng, []string{"", "", ":NodeKind1", ":NodeKind2:NodeKind1", ":NodeKind2"}) + ")")
	if g.rng.Chance(1, 2) {
		b.WriteString(" where " + g.pred(2, 0))
	}
	b.WriteString(" with " + Pick(g.rng, []string{"n", "n", "n as n"}))
	b.WriteString(" match (n)-[r" + Pick(g.rng, []string{"", "", ":EdgeKind1", ":EdgeKind1|EdgeKind2"}) + "]->(b" + Pick(g.rng, []string{"", "", ":NodeKind2", ":NodeKind1:NodeKind2"}) + ")")
	mk := func(v string) string {
		switch g.rng.Intn(3) {
		case 0:
			return v
		case 1:
			return "id(" + v + ")"
		default:
			return v + "." + Pick(g.rng, []string{"name", "a", "w", "zz"})
		}
	}
	items := []string{mk("n"), mk("r"), mk("b")}
	for i := g.rng.Intn(3); i > 0; i-- {
		items = append(items, mk(Pick(g.rng, []string{"n", "r", "b"})))
	}
	for i := range items {
		j := g.rng.Intn(i + 1)
		items[i], items[j] = items[j], items[i]
	}
	for i := range items {
		if g.rng.Chance(1, 3) {
			items[i] += fmt.Sprintf(" as c%d", i)
		}
	}
	b.WriteString(" return " + strings.Join(items, ", "))
	return b.String()
}

// orderPropQuery: stage S1o — an S1 query without ORDER BY of its own, ordered by a property of the node (ASC / DESC in any spelling,
// optional SKIP / LIMIT).
func (g s1Gen) orderPropQuery() string {
	var b strings.Builder
	b.WriteString("match (n" + Pick(g.rng, []string{"", "", ":NodeKind1", ":NodeKind2:NodeKind1", ":NodeKind2"}) + ")")
	if g.rng.Chance(1, 2) {
		b.WriteString(" where " + g.pred(2, 0))
	}
	b.WriteString(" return ")
	n := 1 + g.rng.Intn(3)
	items := make([]string, n)
	for i := range items {
		it := Pick(g.rng, []string{"n", "n.name", "n.a", "id(n)"})
		if g.rng.Chance(1, 3) {
			it += fmt.Sprintf(" as c%d", i)
		}
		items[i] = it
	}
	b.WriteString(strings.Join(items, ", "))
	b.WriteString(" order by n." + Pick(g.rng, []string{"name", "a", "a", "zz", "f"}))
	if g.rng.Bool() {
		b.WriteString(descSpelling(b.Len()))
	} else {
		b.WriteString(ascSpelling(b.Len()))
	}
	if g.rng.Chance(1, 3) {
		b.WriteString(" skip " + Pick(g.rng, []string{"0", "0", "1", "1", "2", "2", "1000"}))
	}
	if g.rng.Chance(1, 3) {
		b.WriteString(" limit " + Pick(g.rng, []string{"0", "0", "1", "1", "2", "2", "5", "5", "2147483648", "9223372036854775807"}))
	}
	return b.String()
}

// distinctQuery: stage S1d — RETURN DISTINCT over a node match.
func (g s1Gen) distinctQuery() string {
	var b strings.Builder
	b.WriteString("match (n" + Pick(g.rng, []string{"", "", ":NodeKind1", ":NodeKind2:NodeKind1", ":NodeKind2"}) + ")")
	if g.rng.Chance(1, 2) {
		b.WriteString(" where " + g.pred(2, 0))
	}
	b.WriteString(" return distinct ")
	n := 1 + g.rng.Intn(3)
	items := make([]string, n)
	for i := range items {
		it := Pick(g.rng, []string{"n", "n.name", "n.a", "n.a", "n.f", "n.zz", "id(n)"})
		if g.rng.Chance(1, 3) {
			it += fmt.Sprintf(" as c%d", i)
		}
		items[i] = it
	}
	b.WriteString(strings.Join(items, ", "))
	return b.String()
}

// countQuery: stage S1c — MATCH (n[:K…]) [WHERE p] RETURN count(n) [AS c].
func (g s1Gen) countQuery() string {
	var b strings.Builder
	b.WriteString("match (n" + Pick(g.rng, []string{"", "", ":NodeKind1", ":NodeKind2:NodeKind1", ":NodeKind2"}) + ")")
	if g.rng.Chance(1, 2) {
		b.WriteString(" where " + g.pred(2, 0))
	}
	b.WriteString(" return count(n)")
	if g.rng.Chance(1, 3) {
		b.WriteString(" as c")
	}
	return b.String()
}

// countHopQuery: stage S2n — MATCH (a)-[r]->(b) [WHERE single-variable conjuncts] RETURN count(x) [AS c].
func (g s1Gen) countHopQuery() string {
	kinds := func(opts []string) string { return Pick(g.rng, opts) }
	a := "(a" + kinds([]string{"", "", ":NodeKind1", ":NodeKind2:NodeKind1"}) + ")"
	r := "[r" + kinds([]string{"", "", ":EdgeKind1", ":EdgeKind1|EdgeKind2"}) + "]"
	b := "(b" + kinds([]string{"", "", ":NodeKind2", ":NodeKind1:NodeKind2"}) + ")"
	where := ""
	if g.rng.Chance(1, 2) {
		n := 1 + g.rng.Intn(3)
		cs := make([]string, n)
		for i := range cs {
			v := Pick(g.rng, []string{"a", "r", "b", "a", "b"})
			cs[i] = s1Gen{rng: g.rng, v: v, edge: v == "r"}.pred(2, 2)
		}
		where = " where " + strings.Join(cs, " and ")
	}
	ret := " return count(" + Pick(g.rng, []string{"a", "r", "b"}) + ")"
	if g.rng.Chance(1, 3) {
		ret += " as c"
	}
	return "match " + a + "-" + r + "->" + b + where + ret
}

// chainQuery: stage S2c — a chain of two or three directed fixed hops, kinds optional, no WHERE, every variable read by the RETURN.
func (g s1Gen) chainQuery() string { return g.chainQueryW(false) }

// chainWhereQuery: stage S2c with WHERE — 1..4 conjuncts, each an S1 predicate of depth <= 2 over ONE pattern variable.
func (g s1Gen) chainWhereQuery() string { return g.chainQueryW(true) }

func (g s1Gen) chainQueryW(withWhere bool) string {
	k := 2 + g.rng.Intn(2)
	nodes := []string{"a", "b", "c", "d"}[:k+1]
	rels := []string{"r", "q", "s"}[:k]
	var b strings.Builder
	b.WriteString("match ")
	for i := 0; i <= k; i++ {
		b.WriteString("(" + nodes[i] + Pick(g.rng, []string{"", "", "", ":NodeKind1", ":NodeKind2", ":NodeKind2:NodeKind1"}) + ")")
		if i < k {
			b.WriteString("-[" + rels[i] + Pick(g.rng, []string{"", "", ":EdgeKind1", ":EdgeKind2", ":EdgeKind1|EdgeKind2"}) + "]->")
		}
	}
	if withWhere {
		n := 1 + g.rng.Intn(4)
		cs := make([]string, n)
		for i := range cs {
			if g.rng.Chance(2, 3) {
				v := Pick(g.rng, nodes)
				cs[i] = s1Gen{rng: g.rng, v: v}.pred(2, 2)
			} else {
				v := Pick(g.rng, rels)
				cs[i] = s1Gen{rng: g.rng, v: v, edge: true}.pred(2, 2)
			}
		}
		b.WriteString(" where " + strings.Join(cs, " and "))
	}
	mk := func(v string) string {
		switch g.rng.Intn(3) {
		case 0:
			return v
		case 1:
			return "id(" + v + ")"
		default:
			return v + "." + Pick(g.rng, []string{"name", "a", "w", "zz"})
		}
	}
	var items []string
	for _, v := range append(append([]string{}, nodes...), rels...) {
		items = append(items, mk(v))
	}
	for i := g.rng.Intn(3); i > 0; i-- {
		items = append(items, mk(Pick(g.rng, append(append([]string{}, nodes...), rels...))))
	}
	for i := range items {
		j := g.rng.Intn(i + 1)
		items[i], items[j] = items[j], items[i]
	}
	for i := range items {
		if g.rng.Chance(1, 3) {
			items[i] += fmt.Sprintf(" as c%d", i)
		}
	}
	b.WriteString(" return " + strings.Join(items, ", "))
	return b.String()
}

func (c01TieSuite) Gen(rng *Rng, tier string, w *bufio.Writer, stats *Stats) {
	n := 300
	if tier == "thorough" {
		n = 6000
	}
	g := s1Gen{rng: rng}
	for i := 0; i < n; i++ {
		fmt.Fprintf(w, "# case %d s1\nq %s %d 4 0 0\n", i+1, jsonQuote(g.query()), rng.Intn(1<<20))
		stats.Inc("s1_generated")
	}
	for i := 0; i < n/2; i++ {
		fmt.Fprintf(w, "# case %d s2b\nq %s %d 4 0 0\n", n+i+1, jsonQuote(g.s2Query()), rng.Intn(1<<20))
		stats.Inc("s2b_generated")
	}
	for i := 0; i < n/3; i++ {
		fmt.Fprintf(w, "# case %d s2c\nq %s %d 4 0 0\n", n+n/2+i+1, jsonQuote(g.chainQuery()), rng.Intn(1<<20))
		stats.Inc("s2c_generated")
	}
	for i := 0; i < n/6; i++ {
		fmt.Fprintf(w, "# case %d s1c\nq %s %d 4 0 0\n", n+n/2+n/3+i+1, jsonQuote(g.countQuery()), rng.Intn(1<<20))
		stats.Inc("s1c_generated")
	}
	for i := 0; i < n/6; i++ {
		fmt.Fprintf(w, "# case %d s2n\nq %s %d 4 0 0\n", 2*n+n/6+i+1, jsonQuote(g.countHopQuery()), rng.Intn(1<<20))
		stats.Inc("s2n_generated")
	}
	for i := 0; i < n/6; i++ {
		fmt.Fprintf(w, "# case %d s2l\nq %s %d 4 0 0\n", 2*n+n/3+i+1, jsonQuote(g.limitHopQuery()), rng.Intn(1<<20))
		stats.Inc("s2l_generated")
	}
	for i := 0; i < n/3; i++ {
		fmt.Fprintf(w, "# case %d s2cw\nq %s %d 4 0 0\n", 2*n+n/2+i+1, jsonQuote(g.chainWhereQuery()), rng.Intn(1<<20))
		stats.Inc("s2cw_generated")
	}
	for i := 0; i < n/3; i++ {
		fmt.Fprintf(w, "# case %d s3a\nq %s %d 4 0 0\n", 3*n+i+1, jsonQuote(g.withQuery()), rng.Intn(1<<20))
		stats.Inc("s3a_generated")
	}
	for i := 0; i < n/3; i++ {
		fmt.Fprintf(w, "# case %d s3b\nq %s %d 4 0 0\n", 3*n+n/3+i+1, jsonQuote(g.withHopQuery()), rng.Intn(1<<20))
		stats.Inc("s3b_generated")
	}
	for i := 0; i < n/3; i++ {
		fmt.Fprintf(w, "# case %d s1o\nq %s %d 4 0 0\n", 3*n+2*(n/3)+i+1, jsonQuote(g.orderPropQuery()), rng.Intn(1<<20))
		stats.Inc("s1o_generated")
	}
	for i := 0; i < n/3; i++ {
		fmt.Fprintf(w, "# case %d s1d\nq %s %d 4 0 0\n", 4*n+i+1, jsonQuote(g.distinctQuery()), rng.Intn(1<<20))
		stats.Inc("s1d_generated")
	}
	for i := 0; i < n/3; i++ {
		fmt.Fprintf(w, "# case %d s2x\nq %s %d 4 0 0\n", 4*n+n/3+i+1, jsonQuote(g.crossHopQuery()), rng.Intn(1<<20))
		stats.Inc("s2x_generated")
	}
}
