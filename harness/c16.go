package main

import (
	"bufio"
	"fmt"
	"sort"
	"strconv"
	"strings"

	"github.com/specterops/dawgs/cache"
)

// C16: caches (cache/sieve.go, cache/nemap.go) against the Lean model Dawgs.C16.

type c16Suite struct{}

func init() { register("c16", c16Suite{}) }

func (c16Suite) Gen(rng *Rng, tier string, w *bufio.Writer, stats *Stats) {
	caseNo := 0
	emitCase := func(kind string, capacity int, ops []string) {
		caseNo++
		fmt.Fprintf(w, "# case %d %s cap=%d\n", caseNo, kind, capacity)
		fmt.Fprintf(w, "new %s %d\n", kind, capacity)
		for _, o := range ops {
			fmt.Fprintln(w, o)
			fmt.Fprintln(w, "dump")
		}
		fmt.Fprintln(w, "stats")
	}
	// exhaustive small scope: all op sequences of length <= L over 2 keys
	L := 4
	if tier == "thorough" {
		L = 5
	}
	alphabet := []string{"put 1 1", "put 2 2", "put 3 3", "put 1 4", "get 1", "get 2", "get 3", "del 1", "del 2"}
	if tier != "thorough" {
		alphabet = []string{"put 1 1", "put 2 2", "put 3 3", "get 1", "get 2", "del 1", "del 2"}
	}
	for _, kind := range []string{"sieve", "nemap"} {
		for _, capacity := range []int{-1, 0, 1, 2, 3} {
			if tier != "thorough" && (capacity == -1 || capacity == 3) && kind == "sieve" {
				continue
			}
			var rec func(prefix []string)
			rec = func(prefix []string) {
				if len(prefix) == L {
					emitCase(kind, capacity, prefix)
					stats.Inc("exhaustive_cases")
					return
				}
				for _, a := range alphabet {
					rec(append(append([]string{}, prefix...), a))
				}
			}
			rec(nil)
		}
	}
	// Stats().Combined(...) readings interleaved with ordinary use: all sequences of length <= 4 over a small alphabet with `comb`
	combAlphabet := []string{"put 1 1", "put 2 2", "get 1", "del 1", "comb"}
	for _, kind := range []string{"sieve", "nemap"} {
		for _, capacity := range []int{1, 2, 4} {
			var rec func(prefix []string)
			rec = func(prefix []string) {
				if len(prefix) == 4 {
					hasComb := false
					for _, o := range prefix {
						hasComb = hasComb || o == "comb"
					}
					if hasComb {
						emitCase(kind, capacity, prefix)
						stats.Inc("comb_cases")
					}
					return
				}
				for _, a := range combAlphabet {
					rec(append(append([]string{}, prefix...), a))
				}
			}
			rec(nil)
		}
	}
	// random structured cases
	n := 300
	if tier == "thorough" {
		n = 20000
	}
	for i := 0; i < n; i++ {
		kind := "sieve"
		if rng.Chance(1, 4) {
			kind = "nemap"
		}
		capacity := Pick(rng, []int{-3, 0, 1, 2, 3, 4, 5, 8})
		nkeys := capacity + 1 + rng.Intn(3)
		if nkeys < 2 {
			nkeys = 2
		}
		length := 5 + rng.Intn(60)
		ops := make([]string, 0, length)
		for j := 0; j < length; j++ {
			k := rng.Intn(nkeys)
			switch x := rng.Intn(11); {
			case x == 10:
				ops = append(ops, "comb")
			case x < 5:
				ops = append(ops, fmt.Sprintf("put %d %d", k, rng.Intn(1000)))
			case x < 8:
				ops = append(ops, fmt.Sprintf("get %d", k))
			default:
				ops = append(ops, fmt.Sprintf("del %d", k))
			}
		}
		emitCase(kind, capacity, ops)
		stats.Inc("random_cases")
	}
}

type c16Runner struct {
	stats *Stats
	c     cache.Cache[int, int]
	peer  cache.Cache[int, int] // fixed second cache whose statistics are combined with c's (op comb)
	kind  string
	// branch detection from successive dumps
	lastHand string
}

func (c16Suite) NewRunner(stats *Stats) Runner { return &c16Runner{stats: stats} }

func (r *c16Runner) Step(t []string, raw string) string {
	switch {
	case len(t) == 3 && t[0] == "new":
		capacity, err := strconv.Atoi(t[2])
		if err != nil {
			return "bad-op"
		}
		switch t[1] {
		case "sieve":
			r.c = cache.NewSieve[int, int](capacity)
		case "nemap":
			r.c = cache.NewNonExpiringMapCache[int, int](capacity)
		default:
			return "bad-op"
		}
		r.kind = t[1]
		// peer: 2 entries, 1 hit, 1 miss, capacity 4
		r.peer = cache.NewNonExpiringMapCache[int, int](4)
		r.peer.Put(100, 1)
		r.peer.Put(101, 2)
		r.peer.Get(100)
		r.peer.Get(999)
		return "ok"
	case r.c == nil:
		return "bad-op"
	case len(t) == 3 && t[0] == "put":
		k, e1 := strconv.Atoi(t[1])
		v, e2 := strconv.Atoi(t[2])
		if e1 != nil || e2 != nil || k < 0 || v < 0 {
			return "bad-op"
		}
		if r.kind == "sieve" {
			_, present := peekSieve(r.c, k)
			if !present && r.c.Stats().Size() >= int64(r.c.Stats().Capacity) {
				r.stats.Inc("branch.sieve.put_evict")
			}
		}
		r.c.Put(k, v)
		return "ok"
	case len(t) == 2 && t[0] == "get":
		k, e1 := strconv.Atoi(t[1])
		if e1 != nil || k < 0 {
			return "bad-op"
		}
		v, ok := r.c.Get(k)
		if ok {
			r.stats.Inc("branch.get_hit")
			return fmt.Sprintf("hit %d", v)
		}
		r.stats.Inc("branch.get_miss")
		return "miss"
	case len(t) == 2 && t[0] == "del":
		k, e1 := strconv.Atoi(t[1])
		if e1 != nil || k < 0 {
			return "bad-op"
		}
		if s, ok := r.c.(*cache.Sieve[int, int]); ok {
			_, hand := s.VerifDump()
			if hand != nil && *hand == k {
				r.stats.Inc("branch.sieve.delete_at_hand")
			}
		}
		r.c.Delete(k)
		return "ok"
	case len(t) == 1 && t[0] == "comb":
		s := r.c.Stats().Combined(r.peer.Stats())
		r.stats.Inc("branch.stats_combined")
		return fmt.Sprintf("comb size=%d hits=%d misses=%d cap=%d", s.Size(), s.Hits(), s.Misses(), s.Capacity)
	case len(t) == 1 && t[0] == "stats":
		s := r.c.Stats()
		capacity := s.Capacity
		return fmt.Sprintf("size=%d hits=%d misses=%d cap=%d", s.Size(), s.Hits(), s.Misses(), capacity)
	case len(t) == 1 && t[0] == "dump":
		switch c := r.c.(type) {
		case *cache.Sieve[int, int]:
			ents, hand := c.VerifDump()
			parts := make([]string, len(ents))
			for i, e := range ents {
				vis := 0
				if e.Visited {
					vis = 1
				}
				parts[i] = fmt.Sprintf("%d:%d:%d", e.Key, e.Value, vis)
			}
			h := "nil"
			if hand != nil {
				h = strconv.Itoa(*hand)
				r.stats.Inc("branch.sieve.hand_nonnil")
			}
			if h != r.lastHand {
				r.stats.Inc("branch.sieve.hand_moved")
				r.lastHand = h
			}
			return fmt.Sprintf("queue=%s hand=%s", strings.Join(parts, ","), h)
		case *cache.NonExpiringMapCache[int, int]:
			m := c.VerifDump()
			keys := make([]int, 0, len(m))
			for k := range m {
				keys = append(keys, k)
			}
			sort.Ints(keys)
			parts := make([]string, len(keys))
			for i, k := range keys {
				parts[i] = fmt.Sprintf("%d:%d", k, m[k])
			}
			return "store=" + strings.Join(parts, ",")
		}
		return "bad-op"
	}
	return "bad-op"
}

func peekSieve(c cache.Cache[int, int], k int) (int, bool) {
	if s, ok := c.(*cache.Sieve[int, int]); ok {
		ents, _ := s.VerifDump()
		for _, e := range ents {
			if e.Key == k {
				return e.Value, true
			}
		}
	}
	return 0, false
}
