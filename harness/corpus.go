package main

import (
	"bufio"
	"encoding/json"
	"os"
	"path/filepath"
	"sort"
	"strings"
)

// repoRoot is the DAWGS tree the harness was built against (VERIF_REPO, default /repo).
func repoRoot() string {
	if r := os.Getenv("VERIF_REPO"); r != "" {
		return r
	}
	return "/repo"
}

// CorpusCase is one Cypher text of the repository's own corpora.
type CorpusCase struct {
	Query    string
	Source   string // file it came from
	Negative bool   // from negative_tests.json
	Params   map[string]any
}

// LoadCypherCorpus reads every `-- case:` of cypher/models/pgsql/test/translation_cases/*.sql and every
// query of cypher/test/cases/*.json, de-duplicated, in a deterministic order.
func LoadCypherCorpus() []CorpusCase {
	var out []CorpusCase
	seen := map[string]bool{}
	add := func(c CorpusCase) {
		c.Query = strings.TrimSpace(c.Query)
		if c.Query == "" || seen[c.Query] {
			return
		}
		seen[c.Query] = true
		out = append(out, c)
	}
	sqlFiles, _ := filepath.Glob(filepath.Join(repoRoot(), "cypher/models/pgsql/test/translation_cases/*.sql"))
	sort.Strings(sqlFiles)
	for _, f := range sqlFiles {
		fh, err := os.Open(f)
		if err != nil {
			continue
		}
		sc := bufio.NewScanner(fh)
		sc.Buffer(make([]byte, 1<<20), 1<<24)
		var last *CorpusCase
		flush := func() {
			if last != nil {
				add(*last)
				last = nil
			}
		}
		for sc.Scan() {
			line := sc.Text()
			switch {
			case strings.HasPrefix(line, "-- case:"):
				flush()
				last = &CorpusCase{Query: strings.TrimSpace(strings.TrimPrefix(line, "-- case:")), Source: filepath.Base(f)}
			case strings.HasPrefix(line, "-- cypher_params:") && last != nil:
				var m map[string]any
				if json.Unmarshal([]byte(strings.TrimSpace(strings.TrimPrefix(line, "-- cypher_params:"))), &m) == nil {
					last.Params = m
				}
			}
		}
		flush()
		fh.Close()
	}
	jsonFiles, _ := filepath.Glob(filepath.Join(repoRoot(), "cypher/test/cases/*.json"))
	sort.Strings(jsonFiles)
	for _, f := range jsonFiles {
		b, err := os.ReadFile(f)
		if err != nil {
			continue
		}
		var doc struct {
			TestCases []struct {
				Details map[string]any `json:"details"`
			} `json:"test_cases"`
		}
		if json.Unmarshal(b, &doc) != nil {
			continue
		}
		for _, tc := range doc.TestCases {
			for _, key := range []string{"query", "matcher", "expected"} {
				_ = key
			}
			if q, ok := tc.Details["query"].(string); ok {
				add(CorpusCase{Query: q, Source: filepath.Base(f), Negative: strings.Contains(f, "negative")})
			}
			if qs, ok := tc.Details["queries"].([]any); ok {
				for _, q := range qs {
					if s, ok := q.(string); ok {
						add(CorpusCase{Query: s, Source: filepath.Base(f), Negative: strings.Contains(f, "negative")})
					}
				}
			}
		}
	}
	return out
}

// jsonQuote renders s as one JSON string token (the line protocol's only string form).
func jsonQuote(s string) string {
	b, _ := json.Marshal(s)
	return string(b)
}

func jsonUnquote(tok string) (string, bool) {
	var s string
	if err := json.Unmarshal([]byte(tok), &s); err != nil {
		return "", false
	}
	return s, true
}
