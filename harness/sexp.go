package main

import (
	"fmt"
	"math"
	"reflect"
	"sort"
	"strconv"
	"strings"
)

// ToSexp renders any Go value graph (cypher model, pgsql AST, …) as one S-expression line, generically by
// reflection, so that new node types and fields appear without harness changes:
//
//	struct        -> (TypeName (field v) (field v) …)      exported AND unexported fields, declaration order
//	pointer/iface -> the pointee, or nil
//	slice/array   -> (list v …)    (nil slice -> nil, empty -> (list))
//	map           -> (map (k v) …) sorted by rendered key
//	string        -> "json quoted";  bool -> true/false;  ints -> decimal;  floats -> (f64 "<%v>");
//	named non-struct types keep their name: (TypeName v)   e.g. (Operator "=")
//
// Shared pointers are rendered structurally (no addresses); cycles are cut with (cycle TypeName).
func ToSexp(v any) string {
	var b strings.Builder
	writeSexp(&b, reflect.ValueOf(v), map[uintptr]bool{}, 0)
	return b.String()
}

func typeTag(t reflect.Type) string {
	n := t.Name()
	if i := strings.IndexByte(n, '['); i >= 0 { // generic instantiation: keep the base name
		n = n[:i]
	}
	pkg := t.PkgPath()
	if j := strings.LastIndexByte(pkg, '/'); j >= 0 {
		pkg = pkg[j+1:]
	}
	if pkg == "" {
		return n
	}
	return pkg + "." + n
}

func writeSexp(b *strings.Builder, v reflect.Value, onPath map[uintptr]bool, depth int) {
	if !v.IsValid() {
		b.WriteString("nil")
		return
	}
	if depth > 400 {
		b.WriteString("(too-deep)")
		return
	}
	t := v.Type()
	switch v.Kind() {
	case reflect.Pointer:
		if v.IsNil() {
			b.WriteString("nil")
			return
		}
		p := v.Pointer()
		if onPath[p] {
			fmt.Fprintf(b, "(cycle %s)", typeTag(t.Elem()))
			return
		}
		onPath[p] = true
		writeSexp(b, v.Elem(), onPath, depth+1)
		delete(onPath, p)
	case reflect.Interface:
		if v.IsNil() {
			b.WriteString("nil")
			return
		}
		writeSexp(b, v.Elem(), onPath, depth+1)
	case reflect.Struct:
		b.WriteString("(")
		b.WriteString(typeTag(t))
		for i := 0; i < v.NumField(); i++ {
			f := t.Field(i)
			if f.Type.Kind() == reflect.Func || f.Type.Kind() == reflect.Chan {
				continue
			}
			b.WriteString(" (")
			b.WriteString(f.Name)
			b.WriteString(" ")
			writeSexp(b, v.Field(i), onPath, depth+1)
			b.WriteString(")")
		}
		b.WriteString(")")
	case reflect.Slice, reflect.Array:
		if v.Kind() == reflect.Slice && v.IsNil() {
			b.WriteString("nil")
			return
		}
		if t.Elem().Kind() == reflect.Uint8 && v.Kind() == reflect.Slice {
			bs := make([]byte, v.Len())
			for i := range bs {
				bs[i] = byte(v.Index(i).Uint())
			}
			fmt.Fprintf(b, "(bytes %s)", jsonQuote(string(bs)))
			return
		}
		named := t.Name() != ""
		if named {
			fmt.Fprintf(b, "(%s ", typeTag(t))
		}
		b.WriteString("(list")
		for i := 0; i < v.Len(); i++ {
			b.WriteString(" ")
			writeSexp(b, v.Index(i), onPath, depth+1)
		}
		b.WriteString(")")
		if named {
			b.WriteString(")")
		}
	case reflect.Map:
		if v.IsNil() {
			b.WriteString("nil")
			return
		}
		type kv struct{ k, v string }
		var items []kv
		it := v.MapRange()
		for it.Next() {
			var kb, vb strings.Builder
			writeSexp(&kb, it.Key(), onPath, depth+1)
			writeSexp(&vb, it.Value(), onPath, depth+1)
			items = append(items, kv{kb.String(), vb.String()})
		}
		sort.Slice(items, func(i, j int) bool { return items[i].k < items[j].k })
		b.WriteString("(map")
		for _, it := range items {
			fmt.Fprintf(b, " (%s %s)", it.k, it.v)
		}
		b.WriteString(")")
	default:
		named := t.PkgPath() != ""
		if named {
			fmt.Fprintf(b, "(%s ", typeTag(t))
		}
		switch v.Kind() {
		case reflect.String:
			b.WriteString(jsonQuote(v.String()))
		case reflect.Bool:
			b.WriteString(strconv.FormatBool(v.Bool()))
		case reflect.Int, reflect.Int8, reflect.Int16, reflect.Int32, reflect.Int64:
			b.WriteString(strconv.FormatInt(v.Int(), 10))
		case reflect.Uint, reflect.Uint8, reflect.Uint16, reflect.Uint32, reflect.Uint64, reflect.Uintptr:
			b.WriteString(strconv.FormatUint(v.Uint(), 10))
		case reflect.Float32, reflect.Float64:
			f := v.Float()
			switch {
			case math.IsNaN(f):
				b.WriteString(`(f64 "NaN")`)
			default:
				fmt.Fprintf(b, "(f64 %s)", jsonQuote(strconv.FormatFloat(f, 'g', -1, 64)))
			}
		default:
			fmt.Fprintf(b, "(opaque %s)", jsonQuote(t.String()))
		}
		if named {
			b.WriteString(")")
		}
	}
}
