package main

import (
	"fmt"
	"strings"
)

// Focused query families: small queries that isolate ONE scoping / data-flow shape each, built systematically (no randomness), so that a
// regression on a shape shows up on a query with few other features (the random generator's queries carry many at once).
// Used by c03 (binder), c01 (semantics) and c02 (optimised vs unoptimised).

// focusedScopeShapes: how a binding made by one clause is read by a later one.
func focusedScopeShapes() []string {
	var out []string
	firsts := []string{
		"match (a:NodeKind1)-[:EdgeKind1]->(g:NodeKind2)",
		"match (a:NodeKind1)-[r:EdgeKind1]->(g:NodeKind2)",
		"match (a:NodeKind1), (g:NodeKind2)",
		"match (a)-[:EdgeKind1*1..2]->(g)",
		"match p = (a)-[:EdgeKind1]->(g)",
	}
	// the earlier binding g (or r) is read ONLY here:
	readers := []string{
		"match (c:NodeKind1 {name: g.name}) return a, c",             // inline property map of a later node pattern
		"match (c {name: g.name})-[:EdgeKind2]->(d) return a, c, d",  // inline map on the left node of a later traversal
		"match (c)-[:EdgeKind2]->(d {name: g.name}) return a, d",     // … on the right node
		"match (c)-[q:EdgeKind2 {w: g.a}]->(d) return a, q",          // … on a relationship
		"match (c) where c.name = g.name return a, c",                // WHERE of a later MATCH
		"match (c)-[:EdgeKind2]->(g) return a, c",                    // endpoint of a later traversal
		"match (g)-[:EdgeKind2]->(c) return a, c",
		"match (c) where (c)-[:EdgeKind2]->(g) return a, c",          // pattern predicate
		"optional match (c {name: g.name}) return a, c",
		"with a, g match (c {name: g.name}) return a, c",
		"with a match (c {name: a.name}) return c",
		"unwind [1, 2] as u match (c {a: u}) return a, c",
		"return a",
	}
	for _, f := range firsts {
		for _, r := range readers {
			out = append(out, f+" "+r)
		}
	}
	out = append(out,
		"match (a:NodeKind1)-[r:EdgeKind1]->(g:NodeKind2) match (c)-[q:EdgeKind2 {w: r.w}]->(d) return a, q",
		"match p = (a:NodeKind1)-[r:EdgeKind1]->(g:NodeKind2) match (c {name: g.name}) return p, c",
		"match (a)-[r]->(g) match (c {name: g.name}) match (d {name: c.name}) return a, d",
		"unwind [1, 2] as u match (a {a: u})-[:EdgeKind1]->(g) match (c {name: g.name}) return c",
	)
	return out
}

// focusedPathPredicateShapes: a NAMED PATH bound by a MATCH whose WHERE holds a PATTERN PREDICATE (translated against a snapshot of the scope
// that then becomes the live scope), the path or its parts observed afterwards — directly, through nodes(p) / relationships(p) / length(p),
// and through a WITH. The patterns include the shapes the optimiser reverses (only the terminal node selective, leading `*0..` expansion).
func focusedPathPredicateShapes() []string {
	var out []string
	paths := []string{
		"p = (a)-[r]->(b)",
		"p = (a)-[r:EdgeKind1]->(b:NodeKind2)",
		"p = (a)-[:EdgeKind1]->(b)-[:EdgeKind2]->(c)",
		"p = (a)-[:EdgeKind1*1..2]->(b)",
		"p = (a:NodeKind1)-[:EdgeKind1*0..]->(b:NodeKind2)-[:EdgeKind2]->(c:NodeKind2 {name: 'y'})",
		"p = (a:NodeKind1)-[:EdgeKind1*0..]->(:NodeKind2)-[:EdgeKind2]->(c:NodeKind2 {name: 'y'})",
		"p = (a)-[:EdgeKind1*1..]->(b)-[:EdgeKind2]->(c {name: 'y'})",
		"p = (a)<-[:EdgeKind1]-(b {name: 'x'})",
	}
	preds := []string{
		"(b)-[]->()",
		"not (b)-[:EdgeKind2]->(:NodeKind2)",
		"not (a)-[:EdgeKind2]->(:NodeKind2)",
		"(a)-[:EdgeKind1]->()",
		"not (a)<-[:EdgeKind1]-()",
	}
	tails := []string{
		"return p",
		"return nodes(p)",
		"return relationships(p)",
		"return length(p)",
		"return a, p",
		"with p return p",
		"with p, a return nodes(p), id(a)",
		"with p as pp return pp",
		"return id(a)",
	}
	for _, pa := range paths {
		for _, pr := range preds {
			if strings.Contains(pr, "(b)") && !strings.Contains(pa, "(b") {
				continue
			}
			for _, t := range tails {
				out = append(out, "match "+pa+" where "+pr+" "+t)
			}
		}
		// control: the same path without a pattern predicate
		out = append(out, "match "+pa+" return p", "match "+pa+" return nodes(p)", "match "+pa+" return relationships(p)")
	}
	out = append(out,
		"match p = (a)-[r]->(b) where (b)-[]->() and a.name = 'x' return p",
		"match p = (a)-[r]->(b) where a.name = 'x' and not (b)-[]->() return p, r",
		"match (x) match p = (a)-[r]->(b) where (b)-[]->(x) return p",
		"match p = (a)-[r]->(b), (x) where (b)-[]->(x) return p, x",
	)
	return out
}

// focusedStringLiteralShapes: string predicates and equalities whose literal contains the characters LIKE treats specially (backslash, %, _)
// and quotes; the emitted pattern must escape them so that the SQL matches exactly the raw string the Cypher predicate compares with.
func focusedStringLiteralShapes() []string {
	var out []string
	lits := []string{`'C:\\U'`, `'C:\\Users\\'`, `'\\'`, `'\\bob'`, `'s\\bob'`, `':\\U'`, `'a%b'`, `'%'`, `'a%'`, `'a_b'`, `'_'`, `'a_'`, `'it\'s'`, `'\''`, `'x'`, `''`}
	for _, l := range lits {
		for _, op := range []string{"starts with", "ends with", "contains", "="} {
			out = append(out, "match (n) where n.name "+op+" "+l+" return n")
			out = append(out, "match (n) where not n.name "+op+" "+l+" return id(n)")
		}
		out = append(out, "match (a)-[r]->(b) where r.name contains "+l+" return a, r, b")
	}
	return out
}

// focusedWithShapes: renamings inside one WITH — fresh names, identity, shadowing, swaps and rotations, with and without a following clause.
func focusedWithShapes() []string {
	var out []string
	heads := []string{
		"match (a:NodeKind1)-[:EdgeKind1]->(b:NodeKind2)",
		"match (a:NodeKind1), (b:NodeKind2)",
		"match (a)-[r]->(b)",
	}
	withs := []string{
		"with a as x, b as y return x, y",
		"with a as a, b as b return a, b",
		"with a as b, b as a return a, b",             // swap
		"with b as a, a as b return a, b",             // swap, other order
		"with a as b, b as c return b, c",             // shift onto a taken name that is carried afterwards
		"with a as b return b",                        // onto a taken name, old value dropped
		"with a as x, a as y return x, y",             // one binding under two names
		"with a as b, b as a match (a)-[:EdgeKind2]->(c) return a, b, c",
		"with a as b, b as a where a.name = b.name return a, b",
		"with a as b, b as a with a as b, b as a return a, b", // swap twice
		"with a, b as a2 with a2 as a, a as b return a, b",
		"with a.name as b, b as a return a, b",
		"with a as b, id(b) as a return a, b",
		"with a as b, b as a order by id(a) return a, b",
		"with distinct a as b, b as a return a, b",
		"with a as b, b as a, count(*) as c return a, b, c",
		"with a, a as c return a, c",                  // one binding under its own name and, after that, under a second name
		"with a as a, a as c return a, c",
		"with a, a as c, b return a, b, c",
		"with b, a, b as c, a as d return a, b, c, d",
		"with a as c, a return a, c",                  // … the renamed copy first (control)
		"with a, a.name as x, a as c return c, x",
	}
	for _, h := range heads {
		for _, w := range withs {
			out = append(out, h+" "+w)
		}
	}
	three := "match (a)-[r]->(b)-[q]->(c)"
	for _, w := range []string{
		"with a as b, b as c, c as a return a, b, c", // rotation
		"with c as a, a as b, b as c return a, b, c",
		"with a as b, b as a, c return a, b, c",
		"with r as q, q as r return r, q", // relationship swap
		"with r, r as q2, a return a, r, q2",
		"with a as c, c as a match (a)-[:EdgeKind1]->(d) return a, c, d",
	} {
		out = append(out, three+" "+w)
	}
	out = append(out, "unwind [1, 2] as u unwind [3, 4] as v with u as v, v as u return u, v")
	return out
}

// focusedSuffixShapes: a variable-length step followed by fixed hops, with every subset of the suffix nodes already bound by an earlier MATCH
// (expansion suffix pushdown / expand-into), in both directions.
func focusedSuffixShapes() []string {
	var out []string
	hops := []struct{ kinds [2]string }{{[2]string{"EdgeKind1", "EdgeKind2"}}, {[2]string{"EdgeKind1", "EdgeKind1"}}}
	for _, h := range hops {
		for _, rng := range []string{"*1..", "*1..2", "*0..1", "*2", "*2..2", "*2..3"} {
			for mask := 0; mask < 8; mask++ { // which of m, x, y are bound by an earlier clause
				var pre []string
				for i, v := range []string{"m", "x", "y"} {
					if mask&(1<<i) != 0 {
						pre = append(pre, fmt.Sprintf("(%s%s)", v, []string{"", ":NodeKind2", ":NodeKind1"}[i]))
					}
				}
				q := ""
				if len(pre) > 0 {
					q = "match " + strings.Join(pre, ", ") + " "
				}
				q += fmt.Sprintf("match (n:NodeKind1)-[%s]->(m)-[:%s]->(x)-[:%s]->(y) return n, y", rng, h.kinds[0], h.kinds[1])
				out = append(out, q)
			}
		}
	}
	out = append(out,
		"match (x:NodeKind2) match (n:NodeKind1)-[*1..]->(m)-[:EdgeKind1]->(x)-[:EdgeKind2]->(y:NodeKind1) return y",
		"match (x:NodeKind2) match (y:NodeKind1)<-[:EdgeKind2]-(x)<-[:EdgeKind1]-(m)<-[*1..]-(n:NodeKind1) return y",
		"match (x) match (n)-[*1..2]->(m)-[r1]->(x)-[r2]->(y)-[r3]->(z) return n, z",
		"match (x), (y) match (n)-[*1..2]->(m)-[r1]->(x)-[r2]->(y)-[r3]->(z) return n, z",
		"match (x) with x match (n)-[*1..2]->(m)-[:EdgeKind1]->(x)-[:EdgeKind2]->(y) return y",
		"match (x:NodeKind2) match p = (n)-[*1..2]->(m)-[:EdgeKind1]->(x)-[:EdgeKind2]->(y) return p",
	)
	return out
}

// focusedAggregateShapes: aggregate-only projections (one output row) with LIMIT / SKIP and no ORDER BY, over fixed and variable-length patterns.
func focusedAggregateShapes() []string {
	var out []string
	pats := []string{
		"match (n:NodeKind1)-[r:EdgeKind1]->(m)",
		"match (n)-[r]->(m)",
		"match (n)-[r*1..2]->(m)",
		"match (n:NodeKind1)",
		"match (n)-[r]->(m)-[q]->(o)",
	}
	aggs := []string{
		"collect(m) as ms", "collect(m.name) as ms", "size(collect(m)) as c", "count(m) as c", "count(*) as c", "collect(distinct m) as ms",
		"collect(m) as ms, count(m) as c", "sum(m.a) as s", "min(m.a) as lo, max(m.a) as hi", "collect(id(m)) as ids", "count(distinct m) as c",
	}
	for _, p := range pats {
		for _, a := range aggs {
			if strings.HasSuffix(p, "(n:NodeKind1)") {
				a = strings.ReplaceAll(a, "m", "n")
				if strings.Contains(a, "ns") { // collect(n) as ns
					a = strings.ReplaceAll(a, "ns", "xs")
				}
			}
			out = append(out, p+" return "+a+" limit 1", p+" return "+a+" limit 2", p+" return "+a+" skip 0 limit 1")
		}
		out = append(out, p+" with collect(n) as xs limit 1 return size(xs)", p+" with count(*) as c limit 1 return c")
	}
	return out
}

// focusedAggTraversalShapes: the aggregate-traversal-count shape (source MATCH, traversal MATCH, WITH source, count(terminal), ranked RETURN)
// with every range form, with and without kinds on the terminal (a source may then satisfy the terminal's constraint: zero-length matches).
func focusedAggTraversalShapes() []string {
	var out []string
	for _, src := range []string{"(u:NodeKind1)", "(u)", "(u:NodeKind1:NodeKind2)"} {
		for _, rng := range []string{"*0..", "*0..2", "*1..", "*1..2", "*2..3", "*", "*..2", "*2", "*2..2"} {
			for _, term := range []string{"(g)", "(g:NodeKind2)", "(g:NodeKind1)"} {
				for _, tail := range []string{
					"with u, count(g) as n return u, n order by n desc limit 5",
					"with u, count(g) as n return u order by n desc limit 2",
				} {
					out = append(out, fmt.Sprintf("match %s match (u)-[:EdgeKind1%s]->%s %s", src, rng, term, tail))
				}
			}
		}
	}
	out = append(out,
		"match (u:NodeKind1) where u.name = 'x' match (u)-[:EdgeKind1*0..]->(g) with u, count(g) as n return u, n order by n desc limit 5",
		"match (u:NodeKind1) match (u)-[:EdgeKind1|EdgeKind2*0..3]->(g) where g.name = 'x' with u, count(g) as n return u, n order by n desc limit 5",
		"match (u:NodeKind1) match (u)<-[:EdgeKind1*0..]-(g) with u, count(g) as n return u, n order by n desc limit 5",
	)
	// one query per guard of the planner's recognisers NEGATED (optimize.aggregateTraversalFinalProjection / SourceMatch / the traversal MATCH):
	// sort direction, sort key, number of keys, SKIP, DISTINCT, no LIMIT, extra / repeated RETURN items, inline property maps instead of
	// WHERE on source and target, WHERE on source and target, kinds absent, a second pattern, OPTIONAL — a dropped guard has a witness here
	base := "match (u:NodeKind1) match (u)-[:EdgeKind1*1..]->(g:NodeKind2) with u, count(g) as n "
	for _, tail := range []string{
		"return u, n order by n asc limit 1", "return u order by n asc limit 1", "return u, n order by n ascending limit 2", "return u, n order by n limit 1",
		"return u, n order by n desc limit 1", "return u order by n desc limit 1",
		"return u, n order by id(u) limit 1", "return u, n order by id(u) desc limit 1", "return u, n order by n desc, id(u) asc limit 1",
		"return u, n order by n desc skip 1 limit 1", "return distinct u, n order by n desc limit 1", "return u, n order by n desc",
		"return u, n, id(u) order by n desc limit 1", "return u, u order by n desc limit 1", "return n order by n desc limit 1",
		"return u as v, n as c order by c desc limit 1", "return u as v, n as c order by c asc limit 1",
	} {
		out = append(out, base+tail)
	}
	for _, head := range []string{
		"match (u:NodeKind1 {name: 'x'}) match (u)-[:EdgeKind1*1..]->(g:NodeKind2)",
		"match (u {a: 1}) match (u)-[:EdgeKind1*1..]->(g)",
		"match (u:NodeKind1) where u.name = 'x' match (u)-[:EdgeKind1*1..]->(g:NodeKind2)",
		"match (u:NodeKind1) match (u)-[:EdgeKind1*1..]->(g:NodeKind2 {name: 'y'})",
		"match (u:NodeKind1) match (u)-[:EdgeKind1*1..]->(g {a: 2})",
		"match (u:NodeKind1) match (u)-[:EdgeKind1*1..]->(g:NodeKind2) where g.name = 'y'",
		"match (u:NodeKind1) match (u {name: 'x'})-[:EdgeKind1*1..]->(g:NodeKind2)",
		"match (u) match (u)-[*1..]->(g)",
		"match (u:NodeKind1), (v) match (u)-[:EdgeKind1*1..]->(g:NodeKind2)",
		"optional match (u:NodeKind1) match (u)-[:EdgeKind1*1..]->(g:NodeKind2)",
		"match (u:NodeKind1) optional match (u)-[:EdgeKind1*1..]->(g:NodeKind2)",
		"match (u:NodeKind1) match (u)-[:EdgeKind1*1..{w: 1}]->(g:NodeKind2)",
		"match (u:NodeKind1) match (u)-[:EdgeKind1]->(g:NodeKind2)",
	} {
		out = append(out, head+" with u, count(g) as n return u, n order by n desc limit 2", head+" with u, count(g) as n return u order by n desc limit 1")
	}
	out = append(out,
		"match (u:NodeKind1) match (u)-[:EdgeKind1*1..]->(g:NodeKind2) with u, count(distinct g) as n return u, n order by n desc limit 2",
		"match (u:NodeKind1) match (u)-[:EdgeKind1*1..]->(g:NodeKind2) with u, count(g) as n, u.name as x return u, n order by n desc limit 2",
		"match (u:NodeKind1) match (u)-[:EdgeKind1*1..]->(g:NodeKind2) with distinct u, count(g) as n return u, n order by n desc limit 2",
		"match (u:NodeKind1) match (u)-[:EdgeKind1*1..]->(g:NodeKind2) with u, count(g) as n where n > 1 return u, n order by n desc limit 2",
	)
	return out
}

// focusedCollectMembershipShapes: collect(node) AS xs used as the right operand of IN, with every way of reading xs afterwards.
func focusedCollectMembershipShapes() []string {
	var out []string
	for _, neg := range []string{"", "not "} {
		for _, ret := range []string{
			"return c", "return c, xs as xs", "return c, xs", "return c, xs as ys", "return c, size(xs) as n",
			"with c, xs as xs return c, xs", "with c, xs return c, xs as xs", "return c, xs as xs order by id(c)", "return count(c) as n, xs as xs",
		} {
			out = append(out, fmt.Sprintf("match (s:NodeKind1) with collect(s) as xs match (c:NodeKind2) where %sc in xs %s", neg, ret))
			out = append(out, fmt.Sprintf("match (s)-[:EdgeKind1]->(t) with collect(t) as xs match (c) where %sc in xs %s", neg, ret))
		}
	}
	return out
}

// focusedOrderAliasShapes: ORDER BY on a RETURN / WITH alias whose declaration comes AFTER (or before) items without an alias that are
// not plain variables — the sort item must be one of the statement's output columns (or a FROM column) whatever the position of the
// alias in the list.
func focusedOrderAliasShapes() []string {
	var out []string
	unaliased := []string{"a.name", "id(a)", "a.a", "a"}
	aliased := [][2]string{{"a.name", "nm"}, {"id(a)", "i"}, {"a.a", "v"}}
	tails := []string{"", " desc", " limit 5", " descending skip 1 limit 2"}
	n := 0
	for _, u := range unaliased {
		for _, al := range aliased {
			// un-aliased item first, the sorted alias after it; and the other way round
			out = append(out, fmt.Sprintf("match (a) return %s, %s as %s order by %s%s", u, al[0], al[1], al[1], tails[n%len(tails)]))
			out = append(out, fmt.Sprintf("match (a) return %s as %s, %s order by %s%s", al[0], al[1], u, al[1], tails[(n+1)%len(tails)]))
			n++
		}
	}
	out = append(out,
		"match (a)-[]->(b) return a.name, count(b) as c order by c desc",
		"match (a)-[]->(b) return id(a), a.name, count(b) as c order by c desc limit 3",
		"match (a)-[]->(b) return count(b) as c, a.name order by c",
		"match (a)-[r]->(b) return id(r), a.name as x, b.name as y order by y, x",
		"match (a)-[r]->(b) return a.name, id(r) as i, b.name, id(b) as j order by j desc, i",
		"match (a)-[r]->(b) return a.name as x, id(r), b.name as y order by x, y desc",
		"match (a) return a.name, a.a as v, id(a) as i order by i desc, v",
		"match (a) return distinct a.name, id(a) as i order by i",
		"match (a) with a, id(a) as i, a.name as nm order by nm return a.name, i as j order by j",
		"match (a) with a.name as nm, id(a) as i order by i desc limit 2 return nm, i",
		"match (a)-[]->(b) with a, count(b) as c return a.name, c as k order by k desc",
	)
	return out
}

// focusedPathMembershipShapes: `x IN nodes(p)` / `r IN relationships(p)` on a bound path, in a WHERE (where the translator stages the path
// into a lateral sub-select) and as a projection item (where it does not), over fixed hops, chains and expansions, directly and through WITH.
func focusedPathMembershipShapes() []string {
	var out []string
	paths := []string{
		"match p = (a)-[r]->(b)",
		"match p = (a)-[]->(b)",
		"match p = (a)-[r]->(b)-[s]->(e)",
		"match p = (a)-[:EdgeKind1*1..2]->(b)",
	}
	uses := []string{
		"match (c)-[q]->(d) where q in relationships(p) return q",
		"match (c)-[q]->(d) where q in relationships(p) return c, d",
		"match (c) return c, c in nodes(p) as member",
		"match (c) where c in nodes(p) return c",
		"match (c) where not c in nodes(p) return c",
		"match (c)-[q]->(d) return q, q in relationships(p) as member",
		"match (c)-[q]->(d) where q in relationships(p) and c in nodes(p) return q",
		"match (c)-[q]->(d) where q in relationships(p) or d in nodes(p) return q",
		"return a in nodes(p) as m",
		"with p, a match (c) where c in nodes(p) return c, a",
		"with p match (c)-[q]->(d) return q in relationships(p) as m, q",
		"match (c) with c, c in nodes(p) as m return c, m",
	}
	for _, p := range paths {
		for _, u := range uses {
			out = append(out, p+" "+u)
		}
	}
	out = append(out,
		"match p = (a)-[r]->(b) return r in relationships(p) as m",
		"match p = (a)-[r]->(b) where r in relationships(p) return a",
		"match p = (a)-[r]->(b) where a in nodes(p) return b",
	)
	return out
}

// focusedSortKeywordShapes: every grammar spelling of the sort direction (ASC / ASCENDING / DESC / DESCENDING, any letter case, default), in
// RETURN and in WITH, alone and mixed over several keys, with SKIP / LIMIT so that a wrong direction selects different rows. Keys are ids
// (unique, integer): the expected order has no ties and does not touch the jsonb-ordering deviation.
func focusedSortKeywordShapes() []string {
	var out []string
	for _, d := range []string{"", " asc", " ASC", " ascending", " ASCENDING", " Ascending", " desc", " DESC", " descending", " DESCENDING", " Descending", " dEsCeNdInG"} {
		out = append(out,
			"match (n) return id(n) order by id(n)"+d,
			"match (n) return id(n) order by id(n)"+d+" skip 1 limit 2",
			"match (n) return n order by id(n)"+d+" limit 1",
			"match (n) with n order by id(n)"+d+" limit 2 return id(n)",
			"match (a)-[r]->(b) return id(r) order by id(r)"+d+" limit 1",
		)
	}
	out = append(out,
		"match (a)-[r]->(b) return id(a), id(r) order by id(a) ascending, id(r) descending skip 1 limit 2",
		"match (a)-[r]->(b) return id(a), id(r) order by id(a) descending, id(r) ascending limit 3",
		"match (a)-[r]->(b) return id(a), id(r) order by id(a) DESCENDING, id(r) DESCENDING limit 2",
		"match (a)-[r]->(b) with a, r order by id(r) DESCENDING limit 1 return id(a), id(r)",
		"match (a)-[r]->(b) with a, r order by id(a) ascending, id(r) descending skip 1 return id(a), id(r) order by id(r) descending limit 2",
		"match (n) with id(n) as i order by i descending limit 2 return i order by i ascending",
	)
	return out
}

type paramQuery struct {
	q      string
	params map[string]any
}

// focusedParamMapShapes: a pattern property map given as a parameter (`(a $p)`, `-[r $p]->`) at every element position of a hop, a chain and
// of several MATCH clauses, alone and next to a second parameter map or a literal map — every OTHER element of the query part must stay
// unconstrained.
func focusedParamMapShapes() []paramQuery {
	nodeP := []map[string]any{{"name": "x"}, {"a": int64(1)}, {"name": "y", "a": int64(2)}}
	relP := []map[string]any{{"w": int64(1)}, {"name": "x"}}
	var out []paramQuery
	add := func(q string, m map[string]any) { out = append(out, paramQuery{q, m}) }
	// a parameter map on a variable-length / exact-range relationship pattern
	for _, p := range relP {
		for _, r := range []string{"*1", "*2", "*2..2", "*1..3"} {
			add("match (a)-["+r+"$p]->(b) return id(a), id(b)", map[string]any{"p": p})
			add("match (a)<-[:EdgeKind1"+r+"$p]-(b) return id(a), id(b)", map[string]any{"p": p})
			add("match p = (a)-["+r+"$p]->(b) return p", map[string]any{"p": p})
		}
	}
	for _, p := range nodeP {
		add("match (a $p) return a", map[string]any{"p": p})
		add("match (a $p)-[r]->(b) return a, r, b", map[string]any{"p": p})
		add("match (a)-[r]->(b $p) return a, r, b", map[string]any{"p": p})
		add("match (a $p)<-[r]-(b) return a, b", map[string]any{"p": p})
		add("match (a:NodeKind1 $p)-[r:EdgeKind1]->(b:NodeKind2) return b", map[string]any{"p": p})
		add("match (a $p)-[r]->(b)-[q]->(c) return a, b, c", map[string]any{"p": p})
		add("match (a)-[r]->(b $p)-[q]->(c) return a, b, c", map[string]any{"p": p})
		add("match (a)-[r]->(b)-[q]->(c $p) return a, b, c", map[string]any{"p": p})
		add("match (a $p) match (b) return a, b", map[string]any{"p": p})
		add("match (a) match (b $p) return a, b", map[string]any{"p": p})
		add("match (a $p) match (b)-[r]->(c) return a, r", map[string]any{"p": p})
		add("match (a $p), (b) return a, b", map[string]any{"p": p})
		add("match (a $p) optional match (a)-[r]->(b) return a, b", map[string]any{"p": p})
		add("match (a $p) with a match (b) return a, b", map[string]any{"p": p})
		add("match (a $p)-[r]->(b {name: 'y'}) return a, b", map[string]any{"p": p})
		add("match (a $p)-[r*1..2]->(b) return a, b", map[string]any{"p": p})
	}
	for _, p := range relP {
		add("match (a)-[r $p]->(b) return a, r, b", map[string]any{"p": p})
		add("match (a)-[r $p]->(b)-[q]->(c) return a, q, c", map[string]any{"p": p})
		add("match (a)-[r]->(b)-[q $p]->(c) return a, r, c", map[string]any{"p": p})
		add("match (a)-[r $p]->(b) match (c)-[q]->(d) return r, q", map[string]any{"p": p})
		add("match (a)<-[r $p]-(b) return a, b", map[string]any{"p": p})
	}
	add("match (a $p)-[r $q]->(b) return a, r, b", map[string]any{"p": nodeP[0], "q": relP[0]})
	add("match (a $p)-[r]->(b $q) return a, r, b", map[string]any{"p": nodeP[0], "q": nodeP[1]})
	add("match (a $p)-[r]->(b) where b.a = 1 return a, b", map[string]any{"p": nodeP[0]})
	return out
}

// focusedExactRangeShapes: an expansion of exact length in each of its spellings (`*n`, `*n..n`) next to the nearest proper range (`*n..m`),
// alone, with either endpoint bound by an earlier clause, followed by a fixed hop into a bound or a fresh node, as a named path and with a
// relationship-list variable.
func focusedExactRangeShapes() []string {
	var out []string
	for _, r := range []string{"*1", "*1..1", "*2", "*2..2", "*2..3", "*3", "*3..3"} {
		out = append(out,
			"match (n)-["+r+"]->(m) return n, m",
			"match (n:NodeKind1)-[:EdgeKind1"+r+"]->(m) return n, m",
			"match (m) match (n)-["+r+"]->(m) return n, m",
			"match (n) match (n)-["+r+"]->(m) return n, m",
			"match (m) match (n)-["+r+"]->(m)-[:EdgeKind1]->(x) return n, x",
			"match (x) match (n)-["+r+"]->(m)-[:EdgeKind1]->(x) return n, m",
			"match (n)-["+r+"]->(m)-[:EdgeKind2]->(x) return n, x",
			"match p = (n)-["+r+"]->(m) return p",
			"match (n)-[r"+r+"]->(m) return r",
			"match (n)<-["+r+"]-(m) return n, m",
		)
	}
	// range bounds at and beyond the int64 boundary: 2^63-1 is a legal bound, 2^63 and 10^20 are not integers of the language's range
	for _, r := range []string{"*9223372036854775807", "*9223372036854775808", "*100000000000000000000", "*1..9223372036854775807", "*1..9223372036854775808",
		"*..100000000000000000000", "*9223372036854775808..", "*100000000000000000000..100000000000000000000"} {
		out = append(out,
			"match (n)-["+r+"]->(m) return id(n), id(m)",
			"match (n:NodeKind1)-[:EdgeKind1"+r+"]->(m) return n, m",
			"match p = (n)<-["+r+"]-(m) return p",
		)
	}
	// a PROPERTY MAP on the variable-length / exact-range relationship pattern (written directly after the range): every relationship of
	// the walk must carry it — on graphs where hop 1 and hop 2 differ on the key the lowered second hop must be constrained too
	for _, r := range []string{"*1", "*2", "*2..2", "*1..3", "*2..3"} {
		for _, m := range []string{"{w: 1}", "{name: 'x'}", "{w: 0, name: 'x'}"} {
			out = append(out,
				"match (a)-["+r+m+"]->(b) return id(a), id(b)",
				"match (a)-[:EdgeKind1"+r+m+"]->(b) return a, b",
				"match (a)<-["+r+m+"]-(b) return id(a), id(b)",
				"match (a:NodeKind1)<-[:EdgeKind1|EdgeKind2"+r+m+"]-(b) return id(a), id(b)",
				"match p = (a)-["+r+m+"]->(b) return p",
				"match (a) where (a)-["+r+m+"]->() return id(a)",
				"match (a)-["+r+m+"]->(b)-[q]->(c) return id(a), id(c)",
				"match (m) match (a)-["+r+m+"]->(m) return id(a), id(m)",
			)
		}
	}
	return out
}

// focusedDoubleLiteralShapes: double literals that need MORE than 32-bit precision (>= 8 significant digits, integral values above 2^24 and
// near 2^53, values one float32 step away from a stored 1.5) next to short ones, in every literal position: comparison operand (each
// operator), IN list element, arithmetic operand in WHERE / RETURN / WITH, bare RETURN / WITH item, against node, relationship and id() operands.
func focusedDoubleLiteralShapes() []string {
	lits := []string{"0.123456789", "16777217.0", "0.30000000000000004", "1.5000000001", "1.4999999999", "9007199254740993.0", "1700000000.5",
		"123456.789012", "-0.123456789", "1.5", "0.5", "100.0"}
	ops := []string{"=", "<>", "<", "<=", ">", ">="}
	var out []string
	for i, l := range lits {
		op := ops[i%len(ops)]
		op2 := ops[(i+3)%len(ops)]
		out = append(out,
			"match (n) where n.a "+op+" "+l+" return n",
			"match (n) where n.a "+op2+" "+l+" return id(n)",
			"match (n) where id(n) "+op+" "+l+" return id(n)",
			"match (n) where n.a in [0.1, "+l+"] return n",
			"match (n) where id(n) + "+l+" > 2 return id(n)",
			"match (n) return id(n) + "+l,
			"match (n) return "+l,
			"match (n) with n, "+l+" as x return id(n), x",
			"match (n) with id(n) * "+l+" as x where x > 1 return x",
			"match (a)-[r]->(b) where r.w "+op+" "+l+" return id(r)",
		)
	}
	out = append(out,
		"match (n) where n.a >= 1.5000000001 or n.a <= 1.4999999999 return n",
		"match (n) where n.a in [1.5000000001, 16777217.0, 0.30000000000000004] return n",
		"match (n) where n.a = 1.5 return n",
		"match (n) return 16777217.0, 16777216.0, 0.1 + 0.2",
	)
	return out
}

// focusedLimitBoundaryShapes: the boundary values of LIMIT / SKIP (LIMIT 0, LIMIT 1, a LIMIT beyond 2^31 and the largest int64, SKIP 0, a SKIP
// beyond every row count) on each shape that triggers a fast path or a lowering that handles the LIMIT itself — aggregate traversal count,
// count fast path, limit pushdown (fixed hop, named path, shortest path), ordered projections, WITH — so that a zero / huge value read as
// "unset" or wrapped shows as a row-count difference.
func focusedLimitBoundaryShapes() []string {
	limits := []string{"0", "1", "2147483648", "9223372036854775807"}
	var out []string
	for _, l := range limits {
		out = append(out,
			"match (u:NodeKind1) match (u)-[:EdgeKind1*1..]->(g) with u, count(g) as n return u, n order by n desc limit "+l,
			"match (u) match (u)-[:EdgeKind1*0..2]->(g:NodeKind2) with u, count(g) as n return u order by n desc limit "+l,
			"match (u:NodeKind1) match (u)-[:EdgeKind1*1..]->(g) with u, count(g) as n return u, n order by n desc skip 0 limit "+l,
			"match (n) return count(n) limit "+l,
			"match (a)-[r]->(b) return count(r) limit "+l,
			"match (a)-[r]->(b) return id(b) limit "+l,
			"match (a:NodeKind1)-[r:EdgeKind1]->(b) where a.name = 'x' return a, r, b limit "+l,
			"match p = (a)-[r]->(b) return p limit "+l,
			"match p = shortestPath((a:NodeKind1)-[*1..]->(b:NodeKind2)) return p limit "+l,
			"match (n) return id(n) order by id(n) limit "+l,
			"match (n) return id(n) order by id(n) skip 1 limit "+l,
			"match (n) with n order by id(n) limit "+l+" return id(n)",
			"match (a)-[*1..2]->(b) return id(a), id(b) limit "+l,
		)
	}
	for _, s := range []string{"0", "1000", "2147483648"} {
		out = append(out,
			"match (n) return id(n) order by id(n) skip "+s,
			"match (n) return id(n) order by id(n) skip "+s+" limit 1",
			"match (a)-[r]->(b) return id(r) order by id(r) skip "+s+" limit 2",
			"match (n) with n order by id(n) skip "+s+" return id(n)",
			"match (u:NodeKind1) match (u)-[:EdgeKind1*1..]->(g) with u, count(g) as n return u, n order by n desc skip "+s+" limit 5",
		)
	}
	return out
}

// focusedLimitTailFilterShapes: LIMIT (no ORDER BY) on a NON-shortest-path pattern bound to a path variable whose WHERE holds a predicate that
// stays in the tail SELECT — quantifiers over relationships(p) / nodes(p) — next to predicates that live inside the frame: the LIMIT must not
// be moved below a filter of the tail.
func focusedLimitTailFilterShapes() []string {
	var out []string
	for _, l := range []string{"1", "2"} {
		for _, pat := range []string{"(a)-[:EdgeKind1]->(b)", "(a)-[]->(b)", "(a:NodeKind1)-[]->(b)", "(a)-[]->(b)-[]->(c)"} {
			for _, q := range []string{
				"none(r in relationships(p) where r.w = 1)",
				"any(r in relationships(p) where r.w = 1)",
				"all(r in relationships(p) where r.w = 1)",
				"none(r in relationships(p) where r.name = 'x')",
				"none(x in nodes(p) where x.a = 1)",
				"any(x in nodes(p) where x.name = 'x')",
			} {
				out = append(out, "match p = "+pat+" where "+q+" return id(a) limit "+l)
			}
			out = append(out,
				"match p = "+pat+" where none(r in relationships(p) where r.w = 1) and a.name = 'x' return p limit "+l,
				"match p = "+pat+" where a.a = 1 return id(a) limit "+l,
			)
		}
	}
	return out
}

// focusedQuotedNameShapes: back-ticked aliases and variables whose names hold a double quote, a backslash, a back-tick or a blank, in the
// positions where the statement must name them again (ORDER BY an alias, a name carried through WITH, a variable read after its MATCH).
func focusedQuotedNameShapes() []string {
	var out []string
	for _, n := range []string{"`say \"hi\"`", "`a\\b`", "`x y`", "`q\"`", "`it``s`", "`\"`"} {
		out = append(out,
			"match (n) return n.name as "+n+" order by "+n,
			"match (n) return id(n) as "+n+" order by "+n+" desc limit 2",
			"match (n) with n.name as "+n+" return "+n,
			"match (n) with n as "+n+" return "+n,
			"match ("+n+") return "+n,
			"match ("+n+")-[r]->(b) where "+n+".name = 'x' return "+n+", b",
			"match (n) with n.name as "+n+", count(n) as c return "+n+", c order by "+n,
		)
	}
	return out
}
