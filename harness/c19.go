//go:build verif

package main

// C19: crash injection at every crash point of the real retriever.Dump (verif-tagged hook
// retriever.VerifCrashHook, hooks/C19.patch), resume (with further crashes), DB read faults, changed
// options / source / stray files.
//
// This file needs the crash hook in the retriever package, so it is only built with the extra tag
// `retrhook` (lib/props/c19.py builds the harness with `-tags "verif retrhook"` and, while the hook is
// not yet committed to /repo, with a `-overlay` that applies hooks/C19.patch without touching /repo).
//
// Two suites share generator and runner:
//
//	c19    directory summaries in the vocabulary of the Lean model (Driver/C19.lean);
//	obs19  the same plus sizes and sha256 of every file, for the Lean monitor (Driver/C19Mon.lean).
//
// The dump directory lives in memory between ops; every op materialises it in a fresh temp
// directory, runs the real code and removes the directory again.

import (
	"bufio"
	"bytes"
	"compress/gzip"
	"context"
	"encoding/json"
	"fmt"
	"os"
	"path"
	"path/filepath"
	"regexp"
	"sort"
	"strconv"
	"strings"

	"github.com/klauspost/compress/zstd"
	"github.com/specterops/dawgs/retriever"
)

type c19Suite struct{ obs bool }

func init() {
	register("c19", c19Suite{obs: false})
	register("obs19", c19Suite{obs: true})
}

// ---------------------------------------------------------------- generator

func (s c19Suite) Gen(rng *Rng, tier string, w *bufio.Writer, stats *Stats) {
	nDB := 10
	if tier == "thorough" {
		nDB = 40
	}
	caseNo := 0
	header := func(desc string, graphs []genGraph, codec string, batch, shard int) {
		caseNo++
		fmt.Fprintf(w, "# case %d %s codec=%s batch=%d shard=%d\n", caseNo, desc, codec, batch, shard)
		fmt.Fprintln(w, "reset")
		emitGraphs(w, graphs)
		fmt.Fprintf(w, "opts %s %d %d\n", codec, batch, shard)
		stats.Inc("cases")
	}
	for d := 0; d < nDB; d++ {
		graphs := genSmallGraphs(rng)
		nEnt := 0
		for _, g := range graphs {
			nEnt += len(g.nodes) + len(g.edges)
		}
		codec := Pick(rng, []string{"none", "none", "gzip", "zstd"})
		batch := Pick(rng, []int{1, 2, 3, 5})
		shard := Pick(rng, []int{1, 2, 3})
		// exact number of crash points of an uninterrupted dump: outdir + first checkpoint (2), per graph the
		// snapshot / phase switch / completion checkpoints (2 each), per fragment create+close+rename+checkpoint (5)
		// and one per record, manifest (2) and checkpoint removal
		ceil := func(a, b int) int { return (a + b - 1) / b }
		maxPoints := 1 + 2 + 3
		for _, g := range graphs {
			maxPoints += 6 + 5*(ceil(len(g.nodes), shard)+ceil(len(g.edges), shard)) + len(g.nodes) + len(g.edges)
		}
		maxPoints++ // one beyond the last point: the dump completes
		// (1) exhaustive first-level crash enumeration, each followed by an uncrashed resume
		header(fmt.Sprintf("db=%d exhaustive-crash", d), graphs, codec, batch, shard)
		fmt.Fprintln(w, "plan")
		for k := 0; k <= maxPoints; k++ {
			fmt.Fprintf(w, "crash %d\n", k)
			fmt.Fprintln(w, "resume 0")
			fmt.Fprintln(w, "final")
			stats.Inc("crash_points")
		}
		// (2) repeated crashes: crash, then resume crashing again (twice), then a clean resume
		header(fmt.Sprintf("db=%d repeated-crash", d), graphs, codec, batch, shard)
		for i := 0; i < 12; i++ {
			fmt.Fprintf(w, "crash %d\n", 1+rng.Intn(maxPoints))
			fmt.Fprintf(w, "resume %d\n", 1+rng.Intn(maxPoints))
			if rng.Bool() {
				fmt.Fprintln(w, "torn")
			}
			fmt.Fprintf(w, "resume %d\n", 1+rng.Intn(maxPoints))
			fmt.Fprintln(w, "resume 0")
			fmt.Fprintln(w, "final")
			fmt.Fprintln(w, "resume 0")
			stats.Inc("repeated_crash_rounds")
		}
		// (3) DB read errors at every fetch, immediate and after m records, then resume
		header(fmt.Sprintf("db=%d read-faults", d), graphs, codec, batch, shard)
		for f := 1; f <= nEnt+2; f++ {
			for _, m := range []int{-1, 0, 1, 2} {
				fmt.Fprintf(w, "readfault %d %d\n", f, m)
				if rng.Chance(1, 3) {
					fmt.Fprintf(w, "resumefault %d %d\n", 1+rng.Intn(3), Pick(rng, []int{-1, 1}))
				}
				fmt.Fprintln(w, "resume 0")
				fmt.Fprintln(w, "final")
				stats.Inc("read_faults")
			}
		}
		// (4) refusals: changed options, changed source, stray file, corrupted / missing committed fragment
		header(fmt.Sprintf("db=%d refusals", d), graphs, codec, batch, shard)
		for i := 0; i < 6; i++ {
			k := 3 + rng.Intn(maxPoints)
			fmt.Fprintf(w, "crash %d\n", k)
			switch i {
			case 0:
				fmt.Fprintf(w, "opts %s %d %d\n", codec, batch, shard+1)
				fmt.Fprintln(w, "resume 0")
				fmt.Fprintf(w, "opts %s %d %d\n", codec, batch+1, shard)
				fmt.Fprintln(w, "resume 0")
				fmt.Fprintf(w, "opts %s %d %d\n", map[string]string{"none": "gzip", "gzip": "zstd", "zstd": "none"}[codec], batch, shard)
				fmt.Fprintln(w, "resume 0")
				fmt.Fprintf(w, "opts %s %d %d\n", codec, batch, shard)
			case 1:
				fmt.Fprintf(w, "stray %s\n", Pick(rng, []string{"notes.txt", "graphs/x/nodes-000009.jsonl", "manifest.json.bak"}))
				fmt.Fprintln(w, "resume 0")
			case 2:
				fmt.Fprintf(w, "corrupt %d\n", rng.Intn(3))
				fmt.Fprintln(w, "resume 0")
			case 3:
				fmt.Fprintf(w, "rmfrag %d\n", rng.Intn(3))
				fmt.Fprintln(w, "resume 0")
			case 4:
				fmt.Fprintln(w, "torn")
			default:
			}
			fmt.Fprintln(w, "resume 0")
			fmt.Fprintln(w, "final")
		}
		// changed source last (it cannot be undone)
		fmt.Fprintf(w, "crash %d\n", 4+rng.Intn(maxPoints))
		g := graphs[rng.Intn(len(graphs))]
		fmt.Fprintf(w, "srcadd %s %d\n", g.name, 100000+d)
		fmt.Fprintln(w, "resume 0")
		fmt.Fprintln(w, "final")
		stats.Inc("refusal_rounds")
	}
}

// genSmallGraphs: 1-2 graphs with 0-5 nodes and 0-4 relationships, small properties.
func genSmallGraphs(rng *Rng) []genGraph {
	ng := Pick(rng, []int{1, 1, 2})
	names := []string{"default", "a/b", "g2"}
	var graphs []genGraph
	nextNode, nextEdge := uint64(rng.Intn(2)), uint64(rng.Intn(2))
	for gi := 0; gi < ng; gi++ {
		g := genGraph{name: names[(gi+rng.Intn(3))%3]}
		for _, o := range graphs {
			if o.name == g.name {
				g.name += strconv.Itoa(gi)
			}
		}
		nn := Pick(rng, []int{0, 1, 2, 3, 4, 5})
		for i := 0; i < nn; i++ {
			g.nodes = append(g.nodes, genNode{id: nextNode, kinds: genKinds(rng, []string{"A", "B"}), props: Pick(rng, []string{"-", "{}", `{"n":1}`, `{"s":"x"}`})})
			nextNode += uint64(1 + rng.Intn(3))
		}
		ne := 0
		if nn > 0 {
			ne = Pick(rng, []int{0, 1, 2, 3, 4})
		}
		for i := 0; i < ne; i++ {
			g.edges = append(g.edges, genEdge{id: nextEdge, s: g.nodes[rng.Intn(nn)].id, e: g.nodes[rng.Intn(nn)].id, kind: Pick(rng, []string{"R", "Q"}), props: "{}"})
			nextEdge += uint64(1 + rng.Intn(3))
		}
		for i := len(g.nodes) - 1; i > 0; i-- {
			j := rng.Intn(i + 1)
			g.nodes[i], g.nodes[j] = g.nodes[j], g.nodes[i]
		}
		graphs = append(graphs, g)
	}
	return graphs
}

// ---------------------------------------------------------------- runner

type c19Runner struct {
	obs          bool
	stats        *Stats
	src          *srcDB
	codec        retriever.CompressionCodec
	batch, shard int
	hasOpts      bool
	dir          map[string][]byte // the dump directory between ops
	dirCodec     retriever.CompressionCodec // codec of the fresh dump that created dir
	srcVersion   int                        // bumped by srcadd
	corrupted    map[string]bool            // fragments damaged by the `corrupt` op (described as stray)
	refKey       string                     // cache key of ref
	ref          map[string][]byte          // uninterrupted dump of the current source with the current options
}

func (s c19Suite) NewRunner(stats *Stats) Runner {
	return &c19Runner{obs: s.obs, stats: stats, src: newSrcDB(), dir: map[string][]byte{}}
}

type crashSentinel struct {
	k    int
	name string
}

// runDump runs the real Dump in `out` with a crash at hook point crashAt (0 = never). It returns the
// hook point names seen, the sentinel if the dump was aborted, and Dump's error otherwise.
func (r *c19Runner) runDump(out string, resume bool, crashAt int) (points []string, crashed *crashSentinel, err error) {
	opts := retriever.DefaultDumpOptions(out)
	opts.Compression, opts.BatchSize, opts.ShardSize, opts.Resume = r.codec, r.batch, r.shard, resume
	count := 0
	retriever.VerifCrashHook = func(name string) {
		count++
		points = append(points, name)
		if count == crashAt {
			panic(crashSentinel{k: count, name: name})
		}
	}
	defer func() {
		retriever.VerifCrashHook = nil
		if p := recover(); p != nil {
			cs, ok := p.(crashSentinel)
			if !ok {
				panic(p)
			}
			crashed = &cs
		}
	}()
	_, err = retriever.Dump(context.Background(), r.src.db, "fake", r.src.targets, opts)
	return points, nil, err
}

func (r *c19Runner) Step(_ []string, raw string) string {
	t := splitSpaces(raw)
	if len(t) == 0 {
		return "bad-op"
	}
	if t[0] == "reset" && len(t) == 1 {
		*r = c19Runner{obs: r.obs, stats: r.stats, src: newSrcDB(), dir: map[string][]byte{}}
		return "ok"
	}
	if ans, ok := r.src.step(t); ok {
		return ans
	}
	num := func(s string) (int, bool) { v, err := strconv.Atoi(s); return v, err == nil }
	switch {
	case len(t) == 4 && t[0] == "opts":
		codec, ok := codecOf(t[1])
		b, ok2 := num(t[2])
		sh, ok3 := num(t[3])
		if !ok || !ok2 || !ok3 || b < 1 || sh < 1 {
			return "bad-op"
		}
		r.codec, r.batch, r.shard, r.hasOpts = codec, b, sh, true
		return "ok"
	case !r.hasOpts || len(r.src.targets) == 0:
		return "bad-op"
	case !r.wellFormed() && (t[0] == "plan" || t[0] == "crash" || t[0] == "readfault" || t[0] == "resume" || t[0] == "resumefault" || t[0] == "final"):
		// a relationship whose endpoint is not a node of its graph (only shrinking produces this): outside the model
		return "bad-db"
	case len(t) == 1 && t[0] == "plan":
		return withTempDir(func(dir string) string {
			points, _, err := r.runDump(dir+"/out", false, 0)
			if err != nil {
				return "err " + retrErrClass(err)
			}
			return fmt.Sprintf("ok n=%d %s", len(points), strings.Join(points, ","))
		})
	case len(t) == 2 && t[0] == "crash":
		k, ok := num(t[1])
		if !ok || k < 0 {
			return "bad-op"
		}
		r.src.db.FailFetchAt = 0
		return r.dumpFresh(k)
	case len(t) == 3 && t[0] == "readfault":
		f, ok := num(t[1])
		m, ok2 := num(t[2])
		if !ok || !ok2 || f < 1 {
			return "bad-op"
		}
		r.src.db.Fetches, r.src.db.FailFetchAt, r.src.db.FailAfter = 0, f, m
		defer func() { r.src.db.FailFetchAt = 0 }()
		return r.dumpFresh(0)
	case len(t) == 2 && t[0] == "resume":
		k, ok := num(t[1])
		if !ok || k < 0 {
			return "bad-op"
		}
		r.src.db.FailFetchAt = 0
		return r.resume(k)
	case len(t) == 3 && t[0] == "resumefault":
		f, ok := num(t[1])
		m, ok2 := num(t[2])
		if !ok || !ok2 || f < 1 {
			return "bad-op"
		}
		r.src.db.Fetches, r.src.db.FailFetchAt, r.src.db.FailAfter = 0, f, m
		defer func() { r.src.db.FailFetchAt = 0 }()
		return r.resume(0)
	case len(t) == 2 && t[0] == "stray":
		r.dir[t[1]] = []byte("stray\n")
		return "ok"
	case len(t) == 1 && t[0] == "torn":
		n := 0
		for p, b := range r.dir {
			if strings.HasSuffix(p, ".tmp") {
				r.dir[p] = b[:len(b)/2]
				n++
			}
		}
		r.stats.Add("torn_temps", int64(n))
		return "ok"
	case len(t) == 2 && (t[0] == "corrupt" || t[0] == "rmfrag"):
		i, ok := num(t[1])
		if !ok {
			return "bad-op"
		}
		var frags []string
		for _, p := range sortedKeys(r.dir) {
			if strings.HasPrefix(p, "graphs/") && !strings.HasSuffix(p, ".tmp") {
				frags = append(frags, p)
			}
		}
		if i < 0 || i >= len(frags) {
			return "none"
		}
		if t[0] == "rmfrag" {
			delete(r.dir, frags[i])
		} else {
			// a subtle corruption: the fragment still decodes to the same records (one space added inside the
			// first record) but its bytes, size and SHA-256 differ from what the checkpoint recorded
			r.dir[frags[i]] = reencodeWithSpace(r.dir[frags[i]], r.dirCodec)
			if r.corrupted == nil {
				r.corrupted = map[string]bool{}
			}
			r.corrupted[frags[i]] = true
		}
		return "ok " + frags[i]
	case len(t) == 3 && t[0] == "srcadd":
		id, err := strconv.ParseUint(t[2], 10, 64)
		if err != nil || !r.src.db.HasGraph(t[1]) {
			return "bad-op"
		}
		r.src.db.AddNode(t[1], id, nil, nil)
		r.srcVersion++
		return "ok"
	case len(t) == 1 && t[0] == "final":
		return r.final()
	}
	return "bad-op"
}

func (r *c19Runner) wellFormed() bool {
	for _, name := range r.src.db.GraphNames() {
		g := r.src.db.Graph(name)
		for _, e := range g.Edges {
			if g.node(e.Start) == nil || g.node(e.End) == nil {
				return false
			}
		}
	}
	return true
}

func (r *c19Runner) dumpFresh(crashAt int) string {
	return withTempDir(func(dir string) string {
		out := dir + "/out"
		_, crashed, err := r.runDump(out, false, crashAt)
		r.dir, r.dirCodec, r.corrupted = readTree(out), r.codec, nil
		switch {
		case crashed != nil:
			r.stats.Inc("crashed." + crashed.name)
			return fmt.Sprintf("crashed %d %s | %s", crashed.k, crashed.name, r.summary())
		case err != nil:
			r.stats.Inc("dump.err." + retrErrClass(err))
			return fmt.Sprintf("err %s | %s", retrErrClass(err), r.summary())
		}
		r.stats.Inc("dump.completed")
		return "completed | " + r.summary()
	})
}

func refusalClass(err error) string {
	c := retrErrClass(err)
	if c == "byte-count" {
		return "checksum"
	}
	return c
}

func (r *c19Runner) resume(crashAt int) string {
	return withTempDir(func(dir string) string {
		out := dir + "/out"
		if err := os.MkdirAll(out, 0o755); err != nil {
			return "err tempdir"
		}
		if err := writeFileTree(out, r.dir); err != nil {
			return "err tempdir"
		}
		_, crashed, err := r.runDump(out, true, crashAt)
		r.dir = readTree(out)
		switch {
		case crashed != nil:
			r.stats.Inc("resume.crashed." + crashed.name)
			return fmt.Sprintf("crashed %d %s | %s", crashed.k, crashed.name, r.summary())
		case err != nil && retrErrClass(err) == "db-read":
			r.stats.Inc("resume.err.db-read")
			return fmt.Sprintf("err db-read | %s", r.summary())
		case err != nil:
			r.stats.Inc("resume.refused." + refusalClass(err))
			return fmt.Sprintf("refused %s | %s", refusalClass(err), r.summary())
		}
		r.stats.Inc("resume.ok")
		return "ok | " + r.summary()
	})
}

var generatedAt = regexp.MustCompile(`"generated_at": "[^"]*"`)

func normaliseManifest(b []byte) []byte {
	return generatedAt.ReplaceAll(b, []byte(`"generated_at": "T"`))
}

// final compares the current directory with an uninterrupted dump of the current source with the
// current options (manifest modulo generated_at).
func (r *c19Runner) final() string {
	return withTempDir(func(dir string) string {
		r.src.db.FailFetchAt = 0
		key := fmt.Sprintf("%s/%d/%d/%d", r.codec, r.batch, r.shard, r.srcVersion)
		if r.ref == nil || r.refKey != key {
			out := dir + "/ref"
			if _, _, err := r.runDump(out, false, 0); err != nil {
				return "err reference-dump " + retrErrClass(err)
			}
			r.ref, r.refKey = readTree(out), key
		}
		ref := r.ref
		var diffs []string
		for _, p := range sortedKeys(ref) {
			a, ok := r.dir[p]
			b := ref[p]
			if p == retriever.ManifestFileName {
				a, b = normaliseManifest(a), normaliseManifest(b)
			}
			if !ok {
				diffs = append(diffs, "missing:"+p)
			} else if !bytes.Equal(a, b) {
				diffs = append(diffs, "content:"+p)
			}
		}
		for _, p := range sortedKeys(r.dir) {
			if _, ok := ref[p]; !ok {
				diffs = append(diffs, "extra:"+p)
			}
		}
		if len(diffs) == 0 {
			r.stats.Inc("final.same")
			return "same"
		}
		r.stats.Inc("final.differ")
		if r.obs {
			return "differ " + strings.Join(diffs, ",")
		}
		return "differ"
	})
}

// ---------------------------------------------------------------- directory summaries

type ckFile struct {
	Phase           string `json:"phase"`
	Path            string `json:"path"`
	Count           int    `json:"count"`
	CompressedBytes int64  `json:"compressed_bytes"`
	SHA256          string `json:"sha256"`
}
type ckGraph struct {
	Name      string   `json:"name"`
	NodeCount int64    `json:"node_count"`
	EdgeCount int64    `json:"edge_count"`
	Files     []ckFile `json:"files"`
}
type ckManifest struct {
	Graphs []ckGraph `json:"graphs"`
}
type ckCurrent struct {
	Index    int    `json:"index"`
	Name     string `json:"name"`
	Snapshot struct {
		NodeCount int64 `json:"node_count"`
		EdgeCount int64 `json:"edge_count"`
	} `json:"snapshot"`
	HasSnapshot        bool     `json:"has_snapshot"`
	Phase              string   `json:"phase"`
	LastCommittedID    uint64   `json:"last_committed_id"`
	HasLastCommittedID bool     `json:"has_last_committed_id"`
	Files              []ckFile `json:"files"`
}
type ckFileFormat struct {
	Manifest ckManifest `json:"manifest"`
	Current  *ckCurrent `json:"current_graph"`
}

func doneSummary(gs []ckGraph) string {
	if len(gs) == 0 {
		return "-"
	}
	parts := make([]string, len(gs))
	for i, g := range gs {
		parts[i] = fmt.Sprintf("%s#%d#%d#%d", g.Name, g.NodeCount, g.EdgeCount, len(g.Files))
	}
	return strings.Join(parts, "+")
}

func filesSummary(fs []ckFile) string {
	if len(fs) == 0 {
		return "-"
	}
	parts := make([]string, len(fs))
	for i, f := range fs {
		parts[i] = fmt.Sprintf("%s#%d", path.Base(f.Path), f.Count)
	}
	return strings.Join(parts, "+")
}

func (r *c19Runner) describe(p string, b []byte) (string, []ckFile) {
	switch {
	case strings.HasSuffix(p, ".tmp"):
		return "tmp", nil
	case p == ".retriever-checkpoint.json":
		var ck ckFileFormat
		if json.Unmarshal(b, &ck) != nil {
			return "ckpt:?", nil
		}
		cur := "-"
		recorded := []ckFile{}
		for _, g := range ck.Manifest.Graphs {
			recorded = append(recorded, g.Files...)
		}
		if c := ck.Current; c != nil {
			snap, last := "-", "-"
			if c.HasSnapshot {
				snap = fmt.Sprintf("%d.%d", c.Snapshot.NodeCount, c.Snapshot.EdgeCount)
			}
			if c.HasLastCommittedID {
				last = strconv.FormatUint(c.LastCommittedID, 10)
			}
			cur = fmt.Sprintf("%d/%s/%s/%s/%s", c.Index, c.Phase, snap, last, filesSummary(c.Files))
			recorded = append(recorded, c.Files...)
		}
		return fmt.Sprintf("ckpt:%s:%s", doneSummary(ck.Manifest.Graphs), cur), recorded
	case p == retriever.ManifestFileName:
		var m ckManifest
		if json.Unmarshal(b, &m) != nil {
			return "manifest:?", nil
		}
		var recorded []ckFile
		for _, g := range m.Graphs {
			recorded = append(recorded, g.Files...)
		}
		return "manifest:" + doneSummary(m.Graphs), recorded
	case r.corrupted[p]:
		return "stray", nil
	case strings.HasPrefix(p, "graphs/") && strings.Contains(path.Base(p), ".jsonl"):
		phase := retriever.PhaseNodes
		if strings.HasPrefix(path.Base(p), "edges-") {
			phase = retriever.PhaseEdges
		}
		n, _, ids, err := fragmentIDs(b, r.dirCodec, phase)
		if err != nil {
			return "stray", nil
		}
		return fmt.Sprintf("frag:%d:%s", n, ids), nil
	}
	return "stray", nil
}

// summary lists the directory: `<path>=<description>` sorted by path (suite c19); suite obs19 adds
// `|<size>|<sha256>` per file (manifest hashed modulo generated_at, checkpoint not hashed) and, after
// `R`, what the checkpoint / manifest records about its fragments: `<path>#<count>#<bytes>#<sha>`.
func (r *c19Runner) summary() string {
	if len(r.dir) == 0 {
		return "-"
	}
	var parts, recorded []string
	for _, p := range sortedKeys(r.dir) {
		b := r.dir[p]
		desc, rec := r.describe(p, b)
		if !r.obs {
			parts = append(parts, p+"="+desc)
			continue
		}
		sha := sha256Hex(b)
		if p == retriever.ManifestFileName {
			sha = sha256Hex(normaliseManifest(b))
		} else if p == ".retriever-checkpoint.json" {
			sha = "-"
		}
		parts = append(parts, fmt.Sprintf("%s=%s|%d|%s", p, desc, len(b), sha))
		for _, f := range rec {
			recorded = append(recorded, fmt.Sprintf("%s#%d#%d#%s", f.Path, f.Count, f.CompressedBytes, f.SHA256))
		}
	}
	out := strings.Join(parts, " ")
	if r.obs {
		sort.Strings(recorded)
		out += " R"
		if len(recorded) > 0 {
			out += " " + strings.Join(recorded, " ")
		}
	}
	return out
}

var _ = filepath.Join

// reencodeWithSpace rewrites a fragment so that it decodes to the same records but has different bytes.
func reencodeWithSpace(b []byte, codec retriever.CompressionCodec) []byte {
	plain, err := decompress(b, codec)
	if err != nil || len(plain) == 0 {
		return []byte("corrupt\n")
	}
	plain = bytes.Replace(plain, []byte(`":`), []byte(`": `), 1)
	var out bytes.Buffer
	switch codec {
	case retriever.CompressionGzip:
		w := gzip.NewWriter(&out)
		_, _ = w.Write(plain)
		_ = w.Close()
	case retriever.CompressionZstd:
		w, err := zstd.NewWriter(&out)
		if err != nil {
			return []byte("corrupt\n")
		}
		_, _ = w.Write(plain)
		_ = w.Close()
	default:
		out.Write(plain)
	}
	return out.Bytes()
}
