//go:build verif

package main

// C19: crash injection at every crash point of the real retriever.Dump (verif-tagged hook
// retriever.VerifCrashHook, hooks/C19.patch), resume (with further crashes), DB read faults, changed
// options / source / stray files.
//
// Every field of the call that is meant to bind a resume is a setting of the runner (`opts`, `set`): driver
// name, targets and their order, compression, zstd level, shard size, batch size, scrub mode, scrub salt and
// every leaf of the scrub configuration; so are the exempt fields (progress interval, progress callback; the
// output directory differs on every op anyway because each op works in a fresh temp directory).
//
// Two suites share generator and runner:
//
//	c19    directory summaries in the vocabulary of the Lean model (Driver/C19.lean);
//	obs19  the same plus sizes and sha256 of every file, for the Lean monitor (Driver/C19Mon.lean).
//
// The dump directory lives in memory between ops; every op materialises it in a fresh temp
// directory, runs the real code and removes the directory again.

import (
	"bufio"
	"bytes"
	"compress/gzip"
	"context"
	"encoding/json"
	"fmt"
	"net/url"
	"os"
	"path"
	"path/filepath"
	"reflect"
	"regexp"
	"sort"
	"strconv"
	"strings"

	"github.com/klauspost/compress/zstd"
	"github.com/specterops/dawgs/retriever"
)

type c19Suite struct{ obs bool }

func init() {
	register("c19", c19Suite{obs: false})
	register("obs19", c19Suite{obs: true})
}

// ---------------------------------------------------------------- generator

func (s c19Suite) Gen(rng *Rng, tier string, w *bufio.Writer, stats *Stats) {
	nDB := 10
	if tier == "thorough" {
		nDB = 40
	}
	caseNo := 0
	header := func(desc string, graphs []genGraph, codec string, batch, shard int) {
		caseNo++
		fmt.Fprintf(w, "# case %d %s codec=%s batch=%d shard=%d\n", caseNo, desc, codec, batch, shard)
		fmt.Fprintln(w, "reset")
		emitGraphs(w, graphs)
		fmt.Fprintf(w, "opts %s %d %d\n", codec, batch, shard)
		stats.Inc("cases")
	}
	// the core cases run with scrubbing on for every other database (the other half of the cases of that database run
	// with scrubbing off), so that "resumed dump = uninterrupted dump" is exercised with Scrub=full in every mode
	scrubbed := func(on bool) {
		if on {
			fmt.Fprintln(w, "set salt s1")
			fmt.Fprintln(w, "set scrub full")
			stats.Inc("scrubbed_cases")
		}
	}
	for d := 0; d < nDB; d++ {
		graphs := genSmallGraphs(rng)
		nEnt := 0
		for _, g := range graphs {
			nEnt += len(g.nodes) + len(g.edges)
		}
		codec := Pick(rng, []string{"none", "none", "gzip", "zstd"})
		batch := Pick(rng, []int{1, 2, 3, 5})
		shard := Pick(rng, []int{1, 2, 3})
		// exact number of crash points of an uninterrupted dump: outdir + first checkpoint (2), per graph the
		// snapshot / phase switch / completion checkpoints (2 each), per fragment create+close+rename+checkpoint (5)
		// and one per record, manifest (2) and checkpoint removal
		ceil := func(a, b int) int { return (a + b - 1) / b }
		maxPoints := 1 + 2 + 3
		for _, g := range graphs {
			maxPoints += 6 + 5*(ceil(len(g.nodes), shard)+ceil(len(g.edges), shard)) + len(g.nodes) + len(g.edges)
		}
		maxPoints++ // one beyond the last point: the dump completes
		// (1) exhaustive first-level crash enumeration, each followed by an uncrashed resume
		header(fmt.Sprintf("db=%d exhaustive-crash scrub=%v", d, d%2 == 1), graphs, codec, batch, shard)
		scrubbed(d%2 == 1)
		fmt.Fprintln(w, "plan")
		for k := 0; k <= maxPoints; k++ {
			fmt.Fprintf(w, "crash %d\n", k)
			fmt.Fprintln(w, "resume 0")
			fmt.Fprintln(w, "final")
			stats.Inc("crash_points")
		}
		// (2) repeated crashes: crash, then resume crashing again (twice), then a clean resume
		header(fmt.Sprintf("db=%d repeated-crash scrub=%v", d, d%2 == 0), graphs, codec, batch, shard)
		scrubbed(d%2 == 0)
		for i := 0; i < 12; i++ {
			fmt.Fprintf(w, "crash %d\n", 1+rng.Intn(maxPoints))
			fmt.Fprintf(w, "resume %d\n", 1+rng.Intn(maxPoints))
			if rng.Bool() {
				fmt.Fprintln(w, "torn")
			}
			fmt.Fprintf(w, "resume %d\n", 1+rng.Intn(maxPoints))
			fmt.Fprintln(w, "resume 0")
			fmt.Fprintln(w, "final")
			fmt.Fprintln(w, "resume 0")
			stats.Inc("repeated_crash_rounds")
		}
		// (3) DB read errors at every fetch, immediate and after m records, then resume
		header(fmt.Sprintf("db=%d read-faults scrub=%v", d, d%2 == 1), graphs, codec, batch, shard)
		scrubbed(d%2 == 1)
		for f := 1; f <= nEnt+2; f++ {
			for _, m := range []int{-1, 0, 1, 2} {
				fmt.Fprintf(w, "readfault %d %d\n", f, m)
				if rng.Chance(1, 3) {
					fmt.Fprintf(w, "resumefault %d %d\n", 1+rng.Intn(3), Pick(rng, []int{-1, 1}))
				}
				fmt.Fprintln(w, "resume 0")
				fmt.Fprintln(w, "final")
				stats.Inc("read_faults")
			}
		}
		// (4) refusals: changed options, changed source, stray file, corrupted / missing committed fragment
		header(fmt.Sprintf("db=%d refusals scrub=%v", d, d%2 == 0), graphs, codec, batch, shard)
		scrubbed(d%2 == 0)
		for i := 0; i < 6; i++ {
			k := 3 + rng.Intn(maxPoints)
			fmt.Fprintf(w, "crash %d\n", k)
			switch i {
			case 0:
				fmt.Fprintf(w, "opts %s %d %d\n", codec, batch, shard+1)
				fmt.Fprintln(w, "resume 0")
				fmt.Fprintf(w, "opts %s %d %d\n", codec, batch+1, shard)
				fmt.Fprintln(w, "resume 0")
				fmt.Fprintf(w, "opts %s %d %d\n", map[string]string{"none": "gzip", "gzip": "zstd", "zstd": "none"}[codec], batch, shard)
				fmt.Fprintln(w, "resume 0")
				fmt.Fprintf(w, "opts %s %d %d\n", codec, batch, shard)
			case 1:
				fmt.Fprintf(w, "stray %s\n", Pick(rng, []string{"notes.txt", "graphs/x/nodes-000009.jsonl", "manifest.json.bak"}))
				fmt.Fprintln(w, "resume 0")
			case 2:
				fmt.Fprintf(w, "corrupt %d\n", rng.Intn(3))
				fmt.Fprintln(w, "resume 0")
			case 3:
				fmt.Fprintf(w, "rmfrag %d\n", rng.Intn(3))
				fmt.Fprintln(w, "resume 0")
			case 4:
				fmt.Fprintln(w, "torn")
			default:
			}
			fmt.Fprintln(w, "resume 0")
			fmt.Fprintln(w, "final")
		}
		// changed source last (it cannot be undone)
		fmt.Fprintf(w, "crash %d\n", 4+rng.Intn(maxPoints))
		g := graphs[rng.Intn(len(graphs))]
		fmt.Fprintf(w, "srcadd %s %d\n", g.name, 100000+d)
		fmt.Fprintln(w, "resume 0")
		fmt.Fprintln(w, "final")
		stats.Inc("refusal_rounds")
		// (7) foreign files: after an interruption one file (or directory) that the dump did not write appears somewhere
		// under the output directory; the name alphabet covers the known temporaries, other `*.tmp` names, fragment-like
		// names beyond the cursor, hidden files, names differing from the dump's own by case or suffix, at every level
		{
			header(fmt.Sprintf("db=%d foreign-files", d), graphs, codec, batch, shard)
			dir := "graphs/" + url.PathEscape(graphs[0].name)
			ext := map[string]string{"none": "", "gzip": ".gz", "zstd": ".zst"}[codec]
			names := []string{
				".retriever-checkpoint.json.tmp", "manifest.json.tmp",
				dir + "/nodes-000001.jsonl" + ext + ".tmp", dir + "/nodes-000002.jsonl" + ext + ".tmp", dir + "/nodes-000007.jsonl" + ext + ".tmp",
				dir + "/edges-000001.jsonl" + ext + ".tmp", dir + "/edges-000003.jsonl" + ext + ".tmp",
				"notes.tmp", "graphs/notes.tmp", dir + "/x.tmp", "graphs/other/nodes-000001.jsonl" + ext + ".tmp", ".tmp",
				dir + "/nodes-000007.jsonl" + ext, dir + "/edges-000009.jsonl" + ext, "graphs/other/nodes-000001.jsonl" + ext,
				".hidden", "graphs/.hidden", dir + "/.keep",
				"Manifest.json", "manifest.json.bak", ".retriever-checkpoint.json.bak", ".Retriever-checkpoint.json",
				dir + "/NODES-000001.jsonl" + ext, dir + "/nodes-000001.jsonl" + ext + ".bak", dir + "/nodes-1.jsonl" + ext, "notes.txt",
			}
			dirs := []string{"emptydir", "graphs/emptydir", dir + "/sub", "dir.tmp"}
			if tier != "thorough" { // a sample in the quick tier, always including one of each class
				keep := map[int]bool{0: true, 1: true, 4: true, 7: true, 12: true, 15: true, 19: true}
				var sample []string
				for i, n := range names {
					if keep[i] || rng.Chance(1, 3) {
						sample = append(sample, n)
					}
				}
				names, dirs = sample, dirs[:2+rng.Intn(2)]
			}
			for _, n := range names {
				fmt.Fprintf(w, "crash %d\n", 3+rng.Intn(maxPoints-6))
				fmt.Fprintf(w, "stray %s\n", n)
				fmt.Fprintln(w, "resume 0")
				fmt.Fprintln(w, "final")
				stats.Inc("foreign_files")
			}
			for _, n := range dirs {
				fmt.Fprintf(w, "crash %d\n", 3+rng.Intn(maxPoints-6))
				fmt.Fprintf(w, "straydir %s\n", n)
				fmt.Fprintln(w, "resume 0")
				fmt.Fprintln(w, "final")
				stats.Inc("foreign_dirs")
			}
		}
		// (5) identity: with scrubbing off and on, interrupt the dump, change exactly ONE field of the call, resume:
		// a bound field must be refused (and restoring it must complete to the uninterrupted result), an exempt or
		// inert field must not matter
		leaves := scrubConfigLeaves()
		nextCodec := map[string]string{"none": "gzip", "gzip": "zstd", "zstd": "none"}[codec]
		changedTargets := graphs[0].name + ",zz"
		if len(graphs) > 1 {
			names := []string{}
			for i := len(graphs) - 1; i >= 0; i-- {
				names = append(names, graphs[i].name)
			}
			changedTargets = strings.Join(names, ",") // same graphs, other order
		}
		for _, scrubOn := range []bool{false, true} {
			header(fmt.Sprintf("db=%d identity scrub=%v", d, scrubOn), graphs, codec, batch, shard)
			fmt.Fprintln(w, "set salt s1")
			if scrubOn {
				fmt.Fprintln(w, "set scrub full")
			}
			type change struct{ apply, restore string }
			optsLine := func(c string, b, s int) string { return fmt.Sprintf("opts %s %d %d", c, b, s) }
			base := optsLine(codec, batch, shard)
			otherScrub, thisScrub := "set scrub full", "set scrub none"
			if scrubOn {
				otherScrub, thisScrub = "set scrub none", "set scrub full"
			}
			bound := []change{
				{optsLine(codec, batch, shard+1), base},
				{optsLine(codec, batch+1, shard), base},
				{optsLine(nextCodec, batch, shard), base},
				{"set zstdlevel 5", "set zstdlevel 3"},
				{"set driver otherdriver", "set driver fake"},
				{"set targets " + changedTargets, "set targets -"},
				{otherScrub, thisScrub},
			}
			free := []change{{"set progress 7", "set progress 0"}, {"set progresscb 1", "set progresscb 0"}}
			if scrubOn {
				bound = append(bound, change{"set salt s2", "set salt s1"})
				for i, leaf := range leaves {
					if tier == "thorough" || d%3 == 0 || i == int(rng.Next()%uint64(len(leaves))) || leaf == "FakeDomain" {
						bound = append(bound, change{"set rules " + leaf, "set rules default"})
					}
				}
			} else {
				// without scrubbing neither the salt nor the scrub configuration reaches the output
				free = append(free, change{"set salt s2", "set salt s1"}, change{"set rules FakeDomain", "set rules default"})
			}
			pick := func() int { return 3 + rng.Intn(maxPoints-6) }
			for _, c := range bound {
				fmt.Fprintf(w, "crash %d\n", pick())
				fmt.Fprintln(w, c.apply)
				fmt.Fprintln(w, "resume 0")
				fmt.Fprintln(w, c.restore)
				fmt.Fprintln(w, "resume 0")
				fmt.Fprintln(w, "final")
				stats.Inc("identity_bound_changes")
			}
			for _, c := range free {
				fmt.Fprintf(w, "crash %d\n", pick())
				fmt.Fprintln(w, c.apply)
				fmt.Fprintln(w, "resume 0")
				fmt.Fprintln(w, "final")
				fmt.Fprintln(w, c.restore)
				stats.Inc("identity_free_changes")
			}
			// nothing changed at all
			fmt.Fprintf(w, "crash %d\n", pick())
			fmt.Fprintln(w, "resume 0")
			fmt.Fprintln(w, "final")
		}
		// (6) source changes between interruption and resume, ONE dimension at a time (a node added with the
		// relationships unchanged, or a relationship added with the nodes unchanged), to a graph that is already
		// completed, to the graph in progress, and to a graph not started yet: the first two must be refused, the
		// last is a legitimate dump of the current source; undoing the change must let the resume complete
		g3 := genSmallGraphsN(rng, 3, true)
		// the graph that is already completed at the interruption also comes EMPTY, with nodes but no relationships, and
		// with a single node / a single relationship (so that a deletion empties it)
		shape := d % 5
		switch shape {
		case 1:
			g3[0].nodes, g3[0].edges = nil, nil
		case 2:
			g3[0].edges = nil
		case 3:
			g3[0].nodes = g3[0].nodes[:1]
			// (plain content, so that deleting and re-adding the relationship restores the source exactly)
			g3[0].edges = []genEdge{{id: 7, s: g3[0].nodes[0].id, e: g3[0].nodes[0].id, kind: "R", props: "-"}}
		case 4:
			g3[0].nodes, g3[0].edges = []genNode{{id: g3[0].nodes[0].id, props: "-"}}, nil
		}
		header(fmt.Sprintf("db=%d source-change completed-shape=%d", d, shape), g3, codec, batch, shard)
		perGraph := func(g genGraph) int {
			return 6 + 5*(ceil(len(g.nodes), shard)+ceil(len(g.edges), shard)) + len(g.nodes) + len(g.edges)
		}
		start1 := 3 + perGraph(g3[0]) // crash points 1..start1 end with the completion checkpoint of graph 0
		type mutation struct{ apply, undo string }
		for gi, g := range g3 {
			id := 200000 + d*10 + gi
			muts := []mutation{{fmt.Sprintf("srcadd %s %d", g.name, id), fmt.Sprintf("srcdelnode %s %d", g.name, id)}}
			if len(g.nodes) > 0 {
				muts = append(muts, mutation{fmt.Sprintf("srcaddedge %s %d %d %d", g.name, id, g.nodes[0].id, g.nodes[0].id), fmt.Sprintf("srcdeledge %s %d", g.name, id)})
			}
			if gi == 0 && shape == 3 { // the graph loses its only relationship
				e := g.edges[0]
				muts = append(muts, mutation{fmt.Sprintf("srcdeledge %s %d", g.name, e.id), fmt.Sprintf("srcaddedge %s %d %d %d", g.name, e.id, e.s, e.e)})
			}
			if gi == 0 && shape == 4 { // the graph becomes empty
				muts = append(muts, mutation{fmt.Sprintf("srcdelnode %s %d", g.name, g.nodes[0].id), fmt.Sprintf("srcadd %s %d", g.name, g.nodes[0].id)})
			}
			for _, m := range muts {
				// inside graph 1, after its snapshot checkpoint (2 points) and before its completion
				k := start1 + 2 + rng.Intn(perGraph(g3[1])-3)
				fmt.Fprintf(w, "crash %d\n", k)
				fmt.Fprintln(w, m.apply)
				fmt.Fprintln(w, "resume 0")
				if gi == 2 {
					fmt.Fprintln(w, "final")
					fmt.Fprintln(w, m.undo)
				} else {
					fmt.Fprintln(w, m.undo)
					fmt.Fprintln(w, "resume 0")
					fmt.Fprintln(w, "final")
				}
				stats.Inc("source_change_rounds")
			}
		}
	}
}

// c19Props: small property objects whose keys come in several spellings that the scrubber normalises to the same
// key (case, `-`, `_`), free-text keys next to structured ones, so that with scrubbing on the treatment of a key on a
// later node could depend on what an earlier node looked like (it must not).
var c19Props = []string{
	"-", "{}", `{"n":1}`, `{"s":"x"}`,
	`{"description":"plain-text-one"}`, `{"Description":"plain-text-two"}`, `{"DESCRIPTION":"plain-text-three"}`, `{"De-scription":"plain-text-four"}`,
	`{"comment":"c-one"}`, `{"Comment":"c-two"}`, `{"note":"n-one"}`, `{"Note":"n-two","description":"both"}`, `{"info":"i"}`, `{"Info":"I"}`,
	`{"name":"alice"}`, `{"Name":"bob"}`, `{"display_name":"carol"}`, `{"DisplayName":"dave"}`,
	`{"objectid":"S-1-5-21-1-2-3-500"}`, `{"ObjectID":"S-1-5-21-1-2-3-501"}`, `{"object_id":"S-1-5-21-1-2-3-502"}`,
	`{"homedirectory":"/home/a"}`, `{"Home_Directory":"/home/b"}`, `{"logonscript":"a.bat"}`, `{"LogonScript":"b.bat"}`,
	`{"whencreated":1700000000}`, `{"WhenCreated":1700000500}`, `{"title":"Boss"}`, `{"Title":"Minion"}`,
	`{"password":"hunter2"}`, `{"Pass-Word":"hunter3"}`, `{"email":"a@b.example"}`, `{"EMail":"c@d.example"}`,
}

// c19KeyFamilies: spellings the scrubber normalises to one key (case, `-`, `_`, spaces), one family per way a key
// can be classified (free text, timestamp, path, script, sensitive, semantic, reference, preserved, plain)
var c19KeyFamilies = [][]string{
	{"description", "Description", "DESCRIPTION", "De-scription", "de_scription"},
	{"comment", "Comment", "COMMENT"}, {"note", "Note", "NOTE"}, {"info", "Info", "INFO"},
	{"whencreated", "WhenCreated", "when_created", "WHENCREATED"}, {"lastseenat", "LastSeenAt", "last-seen-at"},
	{"homedirectory", "HomeDirectory", "Home_Directory"}, {"logonscript", "LogonScript", "Logon-Script"},
	{"password", "Password", "Pass-Word"}, {"email", "EMail", "E_Mail"}, {"title", "Title", "TITLE"}, {"department", "Department"},
	{"objectid", "ObjectID", "object_id"}, {"domainsid", "DomainSID", "domain_sid"}, {"kind", "Kind"}, {"name", "Name", "NAME"},
	{"plainkey", "PlainKey", "plain_key"},
}

func c19FamilyValue(family string, i int) string {
	switch family {
	case "whencreated", "lastseenat":
		return strconv.Itoa(1700000000 + 1000*i)
	case "objectid":
		return fmt.Sprintf(`"S-1-5-21-1-2-3-%d"`, 500+i)
	case "domainsid":
		return `"S-1-5-21-1-2-3"`
	case "homedirectory":
		return fmt.Sprintf(`"/home/user%d"`, i)
	case "email":
		return fmt.Sprintf(`"user%d@corp.example"`, i)
	}
	return fmt.Sprintf(`"value-%d-of-%s"`, i, family)
}

// genSmallGraphs: 1-2 graphs with 0-5 nodes and 0-4 relationships, small properties.
func genSmallGraphs(rng *Rng) []genGraph { return genSmallGraphsN(rng, 0, false) }

// genSmallGraphsN: ng graphs (0 = 1-2 at random); nonEmpty forces at least one node per graph.
func genSmallGraphsN(rng *Rng, ng int, nonEmpty bool) []genGraph {
	if ng == 0 {
		ng = Pick(rng, []int{1, 1, 2})
	}
	names := []string{"default", "a/b", "g2"}
	var graphs []genGraph
	nextNode, nextEdge := uint64(rng.Intn(2)), uint64(rng.Intn(2))
	for gi := 0; gi < ng; gi++ {
		g := genGraph{name: names[(gi+rng.Intn(3))%3]}
		for _, o := range graphs {
			if o.name == g.name {
				g.name += strconv.Itoa(gi)
			}
		}
		nn := Pick(rng, []int{0, 1, 2, 3, 4, 5})
		if nonEmpty && nn == 0 {
			nn = 2
		}
		if rng.Chance(1, 3) {
			nextNode, nextEdge = uint64(rng.Intn(2)), uint64(rng.Intn(2)) // graphs may reuse ids (each numbering from the start)
		}
		for i := 0; i < nn; i++ {
			g.nodes = append(g.nodes, genNode{id: nextNode, kinds: genKinds(rng, []string{"A", "B"}), props: Pick(rng, c19Props)})
			nextNode += uint64(1 + rng.Intn(3))
		}
		ne := 0
		if nn > 0 {
			ne = Pick(rng, []int{0, 1, 2, 3, 4})
		}
		for i := 0; i < ne; i++ {
			g.edges = append(g.edges, genEdge{id: nextEdge, s: g.nodes[rng.Intn(nn)].id, e: g.nodes[rng.Intn(nn)].id, kind: Pick(rng, []string{"R", "Q"}), props: "{}"})
			nextEdge += uint64(1 + rng.Intn(3))
		}
		// key-spelling families: for every other graph the nodes (and relationships), in id order, carry the SAME key in
		// successive spellings, so that for every pair of spellings there is a crash point between their fragments
		if rng.Bool() {
			fam := Pick(rng, c19KeyFamilies)
			off := rng.Intn(len(fam))
			for i := range g.nodes {
				g.nodes[i].props = fmt.Sprintf(`{"%s":%s}`, fam[(i+off)%len(fam)], c19FamilyValue(fam[0], i))
			}
			efam := Pick(rng, c19KeyFamilies)
			for i := range g.edges {
				g.edges[i].props = fmt.Sprintf(`{"%s":%s}`, efam[(i+off)%len(efam)], c19FamilyValue(efam[0], i))
			}
		}
		for i := len(g.nodes) - 1; i > 0; i-- {
			j := rng.Intn(i + 1)
			g.nodes[i], g.nodes[j] = g.nodes[j], g.nodes[i]
		}
		graphs = append(graphs, g)
	}
	return graphs
}

// ---------------------------------------------------------------- runner

type c19Runner struct {
	obs          bool
	stats        *Stats
	src          *srcDB
	codec        retriever.CompressionCodec
	batch, shard int
	hasOpts      bool
	// further settings of the call (`set <field> <value>`)
	driver           string // "" = "fake"
	zstdLevel        int    // 0 = retriever.DefaultZstdLevel
	scrub            bool   // Scrub = full
	salt             string
	rules            string   // "" / "default" = no ScrubConfig reader; otherwise the name of a variant in scrubRuleVariants
	targetNames      []string // nil = every declared graph in declaration order
	progressInterval int64
	progressCb       bool
	force            bool
	dir              map[string][]byte          // the dump directory between ops
	dirs             []string                   // foreign (empty) directories placed by `straydir`
	dirCodec         retriever.CompressionCodec // codec of the fresh dump that created dir
	srcVersion       int                        // bumped by srcadd
	corrupted        map[string]bool            // fragments damaged by the `corrupt` op (described as stray)
	refKey           string                     // cache key of ref
	ref              map[string][]byte          // uninterrupted dump of the current source with the current options
}

func (s c19Suite) NewRunner(stats *Stats) Runner {
	return &c19Runner{obs: s.obs, stats: stats, src: newSrcDB(), dir: map[string][]byte{}}
}

type crashSentinel struct {
	k    int
	name string
}

// runDump runs the real Dump in `out` with a crash at hook point crashAt (0 = never). It returns the
// hook point names seen, the sentinel if the dump was aborted, and Dump's error otherwise.
func (r *c19Runner) runDump(out string, resume bool, crashAt int) (points []string, crashed *crashSentinel, err error) {
	opts := retriever.DefaultDumpOptions(out)
	opts.Compression, opts.BatchSize, opts.ShardSize, opts.Resume = r.codec, r.batch, r.shard, resume
	opts.Force = r.force
	if r.zstdLevel != 0 {
		opts.ZstdLevel = r.zstdLevel
	}
	if r.scrub {
		opts.Scrub, opts.Salt = retriever.ScrubFull, r.salt
		if toml, ok := scrubRuleVariants[r.rules]; ok {
			opts.ScrubConfig = strings.NewReader(toml)
		}
	} else {
		// inert without scrubbing, but passed all the same
		opts.Salt = r.salt
		if toml, ok := scrubRuleVariants[r.rules]; ok {
			opts.ScrubConfig = strings.NewReader(toml)
		}
	}
	if r.progressInterval != 0 {
		opts.ProgressInterval = r.progressInterval
	}
	if r.progressCb {
		opts.Progress = func(retriever.ProgressEvent) {}
	}
	driver := r.driver
	if driver == "" {
		driver = "fake"
	}
	targets := r.targets()
	count := 0
	retriever.VerifCrashHook = func(name string) {
		count++
		points = append(points, name)
		if count == crashAt {
			panic(crashSentinel{k: count, name: name})
		}
	}
	defer func() {
		retriever.VerifCrashHook = nil
		if p := recover(); p != nil {
			cs, ok := p.(crashSentinel)
			if !ok {
				panic(p)
			}
			crashed = &cs
		}
	}()
	_, err = retriever.Dump(context.Background(), r.src.db, driver, targets, opts)
	return points, nil, err
}

func (r *c19Runner) Step(_ []string, raw string) string {
	t := splitSpaces(raw)
	if len(t) == 0 {
		return "bad-op"
	}
	if t[0] == "reset" && len(t) == 1 {
		*r = c19Runner{obs: r.obs, stats: r.stats, src: newSrcDB(), dir: map[string][]byte{}}
		return "ok"
	}
	if ans, ok := r.src.step(t); ok {
		return ans
	}
	num := func(s string) (int, bool) { v, err := strconv.Atoi(s); return v, err == nil }
	switch {
	case len(t) == 4 && t[0] == "opts":
		codec, ok := codecOf(t[1])
		b, ok2 := num(t[2])
		sh, ok3 := num(t[3])
		if !ok || !ok2 || !ok3 || b < 1 || sh < 1 {
			return "bad-op"
		}
		r.codec, r.batch, r.shard, r.hasOpts = codec, b, sh, true
		return "ok"
	case len(t) == 3 && t[0] == "set":
		return r.set(t[1], t[2])
	case !r.hasOpts || len(r.src.targets) == 0:
		return "bad-op"
	case !r.wellFormed() && (t[0] == "plan" || t[0] == "crash" || t[0] == "readfault" || t[0] == "resume" || t[0] == "resumefault" || t[0] == "final"):
		// a relationship whose endpoint is not a node of its graph (only shrinking produces this): outside the model
		return "bad-db"
	case len(t) == 1 && t[0] == "plan":
		return withTempDir(func(dir string) string {
			points, _, err := r.runDump(dir+"/out", false, 0)
			if err != nil {
				return "err " + retrErrClass(err)
			}
			return fmt.Sprintf("ok n=%d %s", len(points), strings.Join(points, ","))
		})
	case len(t) == 2 && t[0] == "crash":
		k, ok := num(t[1])
		if !ok || k < 0 {
			return "bad-op"
		}
		r.src.db.FailFetchAt = 0
		return r.dumpFresh(k)
	case len(t) == 3 && t[0] == "readfault":
		f, ok := num(t[1])
		m, ok2 := num(t[2])
		if !ok || !ok2 || f < 1 {
			return "bad-op"
		}
		r.src.db.Fetches, r.src.db.FailFetchAt, r.src.db.FailAfter = 0, f, m
		defer func() { r.src.db.FailFetchAt = 0 }()
		return r.dumpFresh(0)
	case len(t) == 2 && t[0] == "resume":
		k, ok := num(t[1])
		if !ok || k < 0 {
			return "bad-op"
		}
		r.src.db.FailFetchAt = 0
		return r.resume(k)
	case len(t) == 3 && t[0] == "resumefault":
		f, ok := num(t[1])
		m, ok2 := num(t[2])
		if !ok || !ok2 || f < 1 {
			return "bad-op"
		}
		r.src.db.Fetches, r.src.db.FailFetchAt, r.src.db.FailAfter = 0, f, m
		defer func() { r.src.db.FailFetchAt = 0 }()
		return r.resume(0)
	case len(t) == 2 && t[0] == "stray":
		r.dir[t[1]] = []byte("stray\n")
		return "ok"
	case len(t) == 2 && t[0] == "straydir":
		r.dirs = append(r.dirs, t[1])
		return "ok"
	case len(t) == 1 && t[0] == "torn":
		n := 0
		for p, b := range r.dir {
			if strings.HasSuffix(p, ".tmp") {
				r.dir[p] = b[:len(b)/2]
				n++
			}
		}
		r.stats.Add("torn_temps", int64(n))
		return "ok"
	case len(t) == 2 && (t[0] == "corrupt" || t[0] == "rmfrag"):
		i, ok := num(t[1])
		if !ok {
			return "bad-op"
		}
		var frags []string
		for _, p := range sortedKeys(r.dir) {
			if strings.HasPrefix(p, "graphs/") && !strings.HasSuffix(p, ".tmp") {
				frags = append(frags, p)
			}
		}
		if i < 0 || i >= len(frags) {
			return "none"
		}
		if t[0] == "rmfrag" {
			delete(r.dir, frags[i])
		} else {
			// a subtle corruption: the fragment still decodes to the same records (one space added inside the
			// first record) but its bytes, size and SHA-256 differ from what the checkpoint recorded
			r.dir[frags[i]] = reencodeWithSpace(r.dir[frags[i]], r.dirCodec)
			if r.corrupted == nil {
				r.corrupted = map[string]bool{}
			}
			r.corrupted[frags[i]] = true
		}
		return "ok " + frags[i]
	case len(t) == 3 && t[0] == "srcadd":
		id, err := strconv.ParseUint(t[2], 10, 64)
		if err != nil || !r.src.db.HasGraph(t[1]) {
			return "bad-op"
		}
		r.src.db.AddNode(t[1], id, nil, nil)
		r.srcVersion++
		return "ok"
	case len(t) == 5 && t[0] == "srcaddedge":
		id, e1 := strconv.ParseUint(t[2], 10, 64)
		st, e2 := strconv.ParseUint(t[3], 10, 64)
		en, e3 := strconv.ParseUint(t[4], 10, 64)
		if e1 != nil || e2 != nil || e3 != nil || !r.src.db.HasGraph(t[1]) {
			return "bad-op"
		}
		r.src.db.AddEdge(t[1], id, st, en, "R", nil)
		r.srcVersion++
		return "ok"
	case len(t) == 3 && (t[0] == "srcdelnode" || t[0] == "srcdeledge"):
		id, err := strconv.ParseUint(t[2], 10, 64)
		if err != nil || !r.src.db.HasGraph(t[1]) {
			return "bad-op"
		}
		g := r.src.db.Graph(t[1])
		if t[0] == "srcdelnode" {
			for i, n := range g.Nodes {
				if n.ID == id {
					g.Nodes = append(g.Nodes[:i:i], g.Nodes[i+1:]...)
					r.srcVersion++
					return "ok"
				}
			}
		} else {
			for i, e := range g.Edges {
				if e.ID == id {
					g.Edges = append(g.Edges[:i:i], g.Edges[i+1:]...)
					r.srcVersion++
					return "ok"
				}
			}
		}
		return "none"
	case len(t) == 1 && t[0] == "final":
		return r.final()
	}
	return "bad-op"
}

// scrubRuleVariants: one scrub configuration per leaf field of retriever.ScrubberConfig (except Salt, which
// has its own option), each differing from the defaults in exactly that leaf after newScrubber's normalisation.
var scrubRuleVariants = map[string]string{
	"FakeDomain":                             "[scrub]\nfake_domain = \"other.invalid\"\n",
	"TimestampShiftDays":                     "[scrub]\ntimestamp_shift_days = 23\n",
	"RedactionMarker":                        "[scrub]\nredaction_marker = \"[GONE]\"\n",
	"GraphRules.DomainKind":                  "[scrub.graph_rules]\ndomain_kind = \"Realm\"\n",
	"GraphRules.ObjectIDKey":                 "[scrub.graph_rules]\nobjectid_key = \"oid\"\n",
	"GraphRules.DomainNameKey":               "[scrub.graph_rules]\ndomain_name_key = \"realm\"\n",
	"GraphRules.DomainSIDReferenceKeys":      "[scrub.graph_rules]\ndomain_sid_reference_keys = [\"domainsid\"]\n",
	"GraphRules.ObjectIDReferenceKeys":       "[scrub.graph_rules]\nobjectid_reference_keys = [\"objectid\"]\n",
	"GraphRules.SelfObjectIDAliasKeys":       "[scrub.graph_rules]\nself_objectid_alias_keys = [\"objectsid\", \"sid2\"]\n",
	"GraphRules.DomainNameReferenceKeys":     "[scrub.graph_rules]\ndomain_name_reference_keys = [\"domain\"]\n",
	"GraphRules.CaseInsensitiveDomainNames":  "[scrub.graph_rules]\ncase_insensitive_domain_names = false\n",
	"GraphRules.PreserveADSIDDomainPrefixes": "[scrub.graph_rules]\npreserve_ad_sid_domain_prefixes = false\n",
	"Classifier.LongTextThreshold":           "[classifier]\nlong_text_threshold = 99\n",
	"Classifier.PreserveKeys":                "[classifier]\npreserve_keys = [\"objectid\"]\n",
	"Classifier.SensitiveKeyMarks":           "[classifier]\nsensitive_key_markers = [\"password\"]\n",
	"Classifier.ValueShapePatterns.Name":     "[[classifier.value_shapes]]\nname = \"verif-shape\"\npattern = \"^verif$\"\n",
	"Classifier.ValueShapePatterns.Pattern":  "[[classifier.value_shapes]]\nname = \"verif-shape2\"\npattern = \"^verif[0-9]+$\"\n",
}

// scrubConfigLeaves enumerates the leaf fields of retriever.ScrubberConfig by reflection (Salt excluded).
func scrubConfigLeaves() []string {
	var out []string
	var walk func(t reflect.Type, prefix string)
	walk = func(t reflect.Type, prefix string) {
		for i := 0; i < t.NumField(); i++ {
			f := t.Field(i)
			ft := f.Type
			if ft.Kind() == reflect.Slice && ft.Elem().Kind() == reflect.Struct {
				ft = ft.Elem()
			}
			if ft.Kind() == reflect.Struct {
				walk(ft, prefix+f.Name+".")
				continue
			}
			if prefix+f.Name != "Salt" {
				out = append(out, prefix+f.Name)
			}
		}
	}
	walk(reflect.TypeOf(retriever.ScrubberConfig{}), "")
	return out
}

// rulesDiffer: the variant really yields a configuration different from the defaults.
func rulesDiffer(name string) bool {
	toml, ok := scrubRuleVariants[name]
	if !ok {
		return false
	}
	cfg, err := retriever.ReadScrubberConfig(strings.NewReader(toml), retriever.DefaultScrubberConfig())
	return err == nil && !reflect.DeepEqual(cfg, retriever.DefaultScrubberConfig())
}

func (r *c19Runner) targets() []retriever.GraphTarget {
	if r.targetNames == nil {
		return r.src.targets
	}
	out := make([]retriever.GraphTarget, len(r.targetNames))
	for i, n := range r.targetNames {
		out[i] = retriever.GraphTarget{Name: n}
	}
	return out
}

func (r *c19Runner) settingsKey() string {
	return fmt.Sprintf("%s|%d|%v|%s|%s|%s|%v", r.driver, r.zstdLevel, r.scrub, r.salt, r.rules, strings.Join(r.targetNames, ","), r.targetNames == nil)
}

func (r *c19Runner) set(field, value string) string {
	n, nerr := strconv.Atoi(value)
	switch field {
	case "driver":
		r.driver = value
	case "zstdlevel":
		if nerr != nil || n < 1 {
			return "bad-op"
		}
		r.zstdLevel = n
	case "scrub":
		if value != "none" && value != "full" {
			return "bad-op"
		}
		r.scrub = value == "full"
	case "salt":
		if value == "-" {
			value = ""
		}
		r.salt = value
	case "rules":
		if value != "default" && !rulesDiffer(value) {
			return "bad-op missing-or-ineffective-variant"
		}
		r.rules = value
	case "targets":
		if value == "-" {
			r.targetNames = nil
		} else {
			r.targetNames = strings.Split(value, ",")
		}
	case "progress":
		if nerr != nil || n < 0 {
			return "bad-op"
		}
		r.progressInterval = int64(n)
	case "progresscb":
		r.progressCb = value == "1"
	case "force":
		r.force = value == "1"
	default:
		return "bad-op"
	}
	r.stats.Inc("set." + field)
	return "ok"
}

func (r *c19Runner) wellFormed() bool {
	for _, name := range r.src.db.GraphNames() {
		g := r.src.db.Graph(name)
		for _, e := range g.Edges {
			if g.node(e.Start) == nil || g.node(e.End) == nil {
				return false
			}
		}
	}
	return true
}

func (r *c19Runner) dumpFresh(crashAt int) string {
	return withTempDir(func(dir string) string {
		out := dir + "/out"
		_, crashed, err := r.runDump(out, false, crashAt)
		r.dir, r.dirCodec, r.corrupted, r.dirs = readTree(out), r.codec, nil, nil
		switch {
		case crashed != nil:
			r.stats.Inc("crashed." + crashed.name)
			return fmt.Sprintf("crashed %d %s | %s", crashed.k, crashed.name, r.summary())
		case err != nil:
			r.stats.Inc("dump.err." + retrErrClass(err))
			return fmt.Sprintf("err %s | %s", retrErrClass(err), r.summary())
		}
		r.stats.Inc("dump.completed")
		return "completed | " + r.summary()
	})
}

func refusalClass(err error) string {
	c := retrErrClass(err)
	if c == "byte-count" {
		return "checksum"
	}
	return c
}

func (r *c19Runner) resume(crashAt int) string {
	return withTempDir(func(dir string) string {
		out := dir + "/out"
		if err := os.MkdirAll(out, 0o755); err != nil {
			return "err tempdir"
		}
		if err := writeFileTree(out, r.dir); err != nil {
			return "err tempdir"
		}
		for _, d := range r.dirs {
			_ = os.MkdirAll(filepath.Join(out, filepath.FromSlash(d)), 0o755)
		}
		_, crashed, err := r.runDump(out, true, crashAt)
		r.dir = readTree(out)
		switch {
		case crashed != nil:
			r.stats.Inc("resume.crashed." + crashed.name)
			return fmt.Sprintf("crashed %d %s | %s", crashed.k, crashed.name, r.summary())
		case err != nil && retrErrClass(err) == "db-read":
			r.stats.Inc("resume.err.db-read")
			return fmt.Sprintf("err db-read | %s", r.summary())
		case err != nil:
			r.stats.Inc("resume.refused." + refusalClass(err))
			return fmt.Sprintf("refused %s | %s", refusalClass(err), r.summary())
		}
		r.stats.Inc("resume.ok")
		return "ok | " + r.summary()
	})
}

var generatedAt = regexp.MustCompile(`"generated_at": "[^"]*"`)

func normaliseManifest(b []byte) []byte {
	return generatedAt.ReplaceAll(b, []byte(`"generated_at": "T"`))
}

// final compares the current directory with an uninterrupted dump of the current source with the
// current options (manifest modulo generated_at).
func (r *c19Runner) final() string {
	return withTempDir(func(dir string) string {
		r.src.db.FailFetchAt = 0
		key := fmt.Sprintf("%s/%d/%d/%d/%s", r.codec, r.batch, r.shard, r.srcVersion, r.settingsKey())
		if r.ref == nil || r.refKey != key {
			out := dir + "/ref"
			if _, _, err := r.runDump(out, false, 0); err != nil {
				return "err reference-dump " + retrErrClass(err)
			}
			r.ref, r.refKey = readTree(out), key
		}
		ref := r.ref
		var diffs []string
		for _, p := range sortedKeys(ref) {
			a, ok := r.dir[p]
			b := ref[p]
			if p == retriever.ManifestFileName {
				a, b = normaliseManifest(a), normaliseManifest(b)
			}
			if !ok {
				diffs = append(diffs, "missing:"+p)
			} else if !bytes.Equal(a, b) {
				diffs = append(diffs, "content:"+p)
			}
		}
		for _, p := range sortedKeys(r.dir) {
			if _, ok := ref[p]; !ok {
				diffs = append(diffs, "extra:"+p)
			}
		}
		if len(diffs) == 0 {
			r.stats.Inc("final.same")
			return "same"
		}
		r.stats.Inc("final.differ")
		if r.obs {
			return "differ " + strings.Join(diffs, ",")
		}
		return "differ"
	})
}

// ---------------------------------------------------------------- directory summaries

type ckFile struct {
	Phase           string `json:"phase"`
	Path            string `json:"path"`
	Count           int    `json:"count"`
	CompressedBytes int64  `json:"compressed_bytes"`
	SHA256          string `json:"sha256"`
}
type ckGraph struct {
	Name      string   `json:"name"`
	NodeCount int64    `json:"node_count"`
	EdgeCount int64    `json:"edge_count"`
	Files     []ckFile `json:"files"`
}
type ckManifest struct {
	Graphs []ckGraph `json:"graphs"`
}
type ckCurrent struct {
	Index    int    `json:"index"`
	Name     string `json:"name"`
	Snapshot struct {
		NodeCount int64 `json:"node_count"`
		EdgeCount int64 `json:"edge_count"`
	} `json:"snapshot"`
	HasSnapshot        bool     `json:"has_snapshot"`
	Phase              string   `json:"phase"`
	LastCommittedID    uint64   `json:"last_committed_id"`
	HasLastCommittedID bool     `json:"has_last_committed_id"`
	Files              []ckFile `json:"files"`
}
type ckFileFormat struct {
	Manifest ckManifest `json:"manifest"`
	Current  *ckCurrent `json:"current_graph"`
}

func doneSummary(gs []ckGraph) string {
	if len(gs) == 0 {
		return "-"
	}
	parts := make([]string, len(gs))
	for i, g := range gs {
		parts[i] = fmt.Sprintf("%s#%d#%d#%d", g.Name, g.NodeCount, g.EdgeCount, len(g.Files))
	}
	return strings.Join(parts, "+")
}

func filesSummary(fs []ckFile) string {
	if len(fs) == 0 {
		return "-"
	}
	parts := make([]string, len(fs))
	for i, f := range fs {
		parts[i] = fmt.Sprintf("%s#%d", path.Base(f.Path), f.Count)
	}
	return strings.Join(parts, "+")
}

func (r *c19Runner) describe(p string, b []byte) (string, []ckFile) {
	switch {
	case strings.HasSuffix(p, ".tmp"):
		return "tmp", nil
	case p == ".retriever-checkpoint.json":
		var ck ckFileFormat
		if json.Unmarshal(b, &ck) != nil {
			return "ckpt:?", nil
		}
		cur := "-"
		recorded := []ckFile{}
		for _, g := range ck.Manifest.Graphs {
			recorded = append(recorded, g.Files...)
		}
		if c := ck.Current; c != nil {
			snap, last := "-", "-"
			if c.HasSnapshot {
				snap = fmt.Sprintf("%d.%d", c.Snapshot.NodeCount, c.Snapshot.EdgeCount)
			}
			if c.HasLastCommittedID {
				last = strconv.FormatUint(c.LastCommittedID, 10)
			}
			cur = fmt.Sprintf("%d/%s/%s/%s/%s", c.Index, c.Phase, snap, last, filesSummary(c.Files))
			recorded = append(recorded, c.Files...)
		}
		return fmt.Sprintf("ckpt:%s:%s", doneSummary(ck.Manifest.Graphs), cur), recorded
	case p == retriever.ManifestFileName:
		var m ckManifest
		if json.Unmarshal(b, &m) != nil {
			return "manifest:?", nil
		}
		var recorded []ckFile
		for _, g := range m.Graphs {
			recorded = append(recorded, g.Files...)
		}
		return "manifest:" + doneSummary(m.Graphs), recorded
	case r.corrupted[p]:
		return "stray", nil
	case strings.HasPrefix(p, "graphs/") && strings.Contains(path.Base(p), ".jsonl"):
		phase := retriever.PhaseNodes
		if strings.HasPrefix(path.Base(p), "edges-") {
			phase = retriever.PhaseEdges
		}
		n, _, ids, err := fragmentIDs(b, r.dirCodec, phase)
		if err != nil {
			return "stray", nil
		}
		return fmt.Sprintf("frag:%d:%s", n, ids), nil
	}
	return "stray", nil
}

// summary lists the directory: `<path>=<description>` sorted by path (suite c19); suite obs19 adds
// `|<size>|<sha256>` per file (manifest hashed modulo generated_at, checkpoint not hashed) and, after
// `R`, what the checkpoint / manifest records about its fragments: `<path>#<count>#<bytes>#<sha>`.
func (r *c19Runner) summary() string {
	if len(r.dir) == 0 {
		return "-"
	}
	var parts, recorded []string
	for _, p := range sortedKeys(r.dir) {
		b := r.dir[p]
		desc, rec := r.describe(p, b)
		if !r.obs {
			parts = append(parts, p+"="+desc)
			continue
		}
		sha := sha256Hex(b)
		if p == retriever.ManifestFileName {
			sha = sha256Hex(normaliseManifest(b))
		} else if p == ".retriever-checkpoint.json" {
			sha = "-"
		}
		parts = append(parts, fmt.Sprintf("%s=%s|%d|%s", p, desc, len(b), sha))
		for _, f := range rec {
			recorded = append(recorded, fmt.Sprintf("%s#%d#%d#%s", f.Path, f.Count, f.CompressedBytes, f.SHA256))
		}
	}
	out := strings.Join(parts, " ")
	if r.obs {
		sort.Strings(recorded)
		out += " R"
		if len(recorded) > 0 {
			out += " " + strings.Join(recorded, " ")
		}
	}
	return out
}

var _ = filepath.Join

// reencodeWithSpace rewrites a fragment so that it decodes to the same records but has different bytes.
func reencodeWithSpace(b []byte, codec retriever.CompressionCodec) []byte {
	plain, err := decompress(b, codec)
	if err != nil || len(plain) == 0 {
		return []byte("corrupt\n")
	}
	plain = bytes.Replace(plain, []byte(`":`), []byte(`": `), 1)
	var out bytes.Buffer
	switch codec {
	case retriever.CompressionGzip:
		w := gzip.NewWriter(&out)
		_, _ = w.Write(plain)
		_ = w.Close()
	case retriever.CompressionZstd:
		w, err := zstd.NewWriter(&out)
		if err != nil {
			return []byte("corrupt\n")
		}
		_, _ = w.Write(plain)
		_ = w.Close()
	default:
		out.Write(plain)
	}
	return out.Bytes()
}
