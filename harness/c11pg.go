package main

import (
	"bufio"
	"errors"
	"fmt"
	"strings"

	"github.com/specterops/dawgs/cypher/frontend"
	"github.com/specterops/dawgs/cypher/models/pgsql"
	"github.com/specterops/dawgs/cypher/models/walk"
)

// C11 (third observation point): walk.PgSQL — the same walk.Generic driven by the hand-written pgsql cursor
// constructor — over the PostgreSQL AST the real translator produces for every corpus query.
//
// Op line:  p <scripts> <json cypher text>      scripts = pg:<k>:<act>,…  (k-th callback, act n|c|d|e; pg:0:n first)
// Answer:   ok | W pg:0:n <res> <log> | W … | tree=<T>      T ::= (N "<%T>" T…)
//           parse-error | xlate-error | walk0-<res>
// The branch tree T is decoded from the never-acting walk's Enter/Exit events (the pgsql cursor constructor is
// too irregular to tabulate: method calls, interleaved slices, futures); the Lean model then has to reproduce
// every log on T — including where the Visit callbacks fall, which T does not encode — for every scripted visitor.
type c11pgSuite struct{}

func init() { register("c11pg", c11pgSuite{}) }

type c11pgVisitor struct {
	walk.VisitorHandler
	script c11Script
	n      int
	log    []string
}

func (s *c11pgVisitor) event(kind string, node pgsql.SyntaxNode) {
	s.n++
	s.log = append(s.log, kind+":"+fmt.Sprintf("%T", node))
	if s.script.fires(s.n, kind[0], fmt.Sprintf("%T", node)) {
		s.script.c11Calls(s.VisitorHandler)
	}
}

func (s *c11pgVisitor) Enter(node pgsql.SyntaxNode) { s.event("E", node) }
func (s *c11pgVisitor) Visit(node pgsql.SyntaxNode) { s.event("V", node) }
func (s *c11pgVisitor) Exit(node pgsql.SyntaxNode)  { s.event("X", node) }

func c11pgWalk(root pgsql.SyntaxNode, script c11Script) (res string, log []string, errText string) {
	return c11pgWalkWith(walk.NewCancelableErrorHandler(), root, script)
}

func c11pgWalkWith(h walk.VisitorHandler, root pgsql.SyntaxNode, script c11Script) (res string, log []string, errText string) {
	vis := &c11pgVisitor{VisitorHandler: h, script: script}
	defer func() {
		if p := recover(); p != nil {
			res, log, errText = "panic", vis.log, fmt.Sprint(p)
		}
	}()
	err := walk.PgSQL(root, vis)
	switch {
	case err == nil:
		res = "ok"
	case errors.Is(err, c11ScriptedErr):
		res = "verr"
	default:
		res, errText = "cerr", err.Error()
	}
	return res, vis.log, errText
}

// c11pgTree decodes a complete never-acting log into the branch tree (Visit events carry no shape).
func c11pgTree(log []string) (string, bool) {
	var b strings.Builder
	depth := 0
	for _, e := range log {
		switch {
		case strings.HasPrefix(e, "E:"):
			if depth > 0 || b.Len() > 0 {
				b.WriteByte(' ')
			}
			b.WriteString("(N ")
			b.WriteString(jsonQuote(e[2:]))
			depth++
		case strings.HasPrefix(e, "X:"):
			if depth == 0 {
				return "", false
			}
			b.WriteByte(')')
			depth--
		}
	}
	return b.String(), depth == 0 && b.Len() > 0
}

func c11pgStatement(q string) (pgsql.SyntaxNode, string) {
	model, err := frontend.ParseCypher(frontend.NewContext(), q)
	if err != nil || model == nil {
		return nil, "parse-error"
	}
	res, terr, panicked := translateSafe(model, newHarnessKindMapper(), nil)
	if terr != nil || panicked != "" || res.Statement == nil {
		return nil, "xlate-error"
	}
	return res.Statement, ""
}

func (c11pgSuite) Gen(rng *Rng, tier string, w *bufio.Writer, stats *Stats) {
	extra := 6
	if tier == "thorough" {
		extra = 40
	}
	n := 0
	for _, c := range LoadCypherCorpus() {
		stmt, why := c11pgStatement(c.Query)
		scripts := []string{"pg:0:n"}
		if why == "" {
			_, log, _ := c11pgWalk(stmt, c11NeverScript("pg"))
			for i := 0; i < extra && len(log) > 0; i++ {
				scripts = append(scripts, fmt.Sprintf("pg:%d:%c", 1+rng.Intn(len(log)), "cde"[rng.Intn(3)]))
			}
			for _, sc := range c11ScheduleScripts(rng, "pg", len(log), 4, false) {
				scripts = append(scripts, sc.String())
			}
			for _, sc := range c11SeqScripts(rng, "pg", len(log)) {
				scripts = append(scripts, sc.String())
			}
			stats.Inc("translated")
		}
		n++
		fmt.Fprintf(w, "# case %d pg:%s\n", n, c.Source)
		fmt.Fprintf(w, "p %s %s\n", strings.Join(scripts, ","), jsonQuote(c.Query))
		stats.Add("scripts", int64(len(scripts)))
	}
}

type c11pgRunner struct{ stats *Stats }

func (c11pgSuite) NewRunner(stats *Stats) Runner { return &c11pgRunner{stats: stats} }

func (r *c11pgRunner) Step(t []string, raw string) string {
	if len(t) < 3 || t[0] != "p" {
		return "bad-op"
	}
	rest := strings.TrimSpace(strings.TrimPrefix(strings.TrimSpace(raw), "p"))
	rest = strings.TrimSpace(strings.TrimPrefix(rest, t[1]))
	q, ok := jsonUnquote(rest)
	if !ok {
		return "bad-op"
	}
	stmt, why := c11pgStatement(q)
	if why != "" {
		r.stats.Inc("pg." + why)
		return why
	}
	res0, log0, err0 := c11pgWalk(stmt, c11NeverScript("pg"))
	tree, balanced := c11pgTree(log0)
	if res0 != "ok" || !balanced {
		// the pgsql cursor constructor has no case for some node of this statement (e.g. DML statements): the walk
		// reports an error; there is no complete tree to replay. Counted, with the offending type, as information.
		r.stats.Inc("pg.walk0-" + res0)
		if i := strings.Index(err0, "sql type "); i >= 0 {
			r.stats.Inc("pg.unhandled." + strings.Fields(err0[i+9:])[0])
		}
		return "walk0-" + res0
	}
	var b strings.Builder
	b.WriteString("ok")
	scripts, ok := c11ParseScriptsFor(t[1], "pg")
	if !ok {
		return "bad-op"
	}
	for _, script := range scripts {
		sc := script.String()
		if script.next != nil {
			h := walk.NewCancelableErrorHandler()
			var rootA pgsql.SyntaxNode = stmt
			if script.leaf {
				rootA = pgsql.Identifier("a")
			}
			join := func(l []string) string {
				if len(l) == 0 {
					return "-"
				}
				return strings.Join(l, ",")
			}
			ra, la, _ := c11pgWalkWith(h, rootA, script)
			rb, lb, _ := c11pgWalkWith(h, stmt, *script.next)
			r.stats.Inc("pg.walk.seq")
			fmt.Fprintf(&b, " | W %s %s>%s %s>%s", sc, ra, rb, join(la), join(lb))
			continue
		}
		res, log, _ := c11pgWalk(stmt, script)
		r.stats.Inc("pg.walk." + res)
		txt := "-"
		if len(log) > 0 {
			txt = strings.Join(log, ",")
		}
		fmt.Fprintf(&b, " | W %s %s %s", sc, res, txt)
	}
	r.stats.Inc("pg.statements")
	r.stats.Add("pg.events", int64(len(log0)))
	fmt.Fprintf(&b, " | tree=%s", tree)
	return b.String()
}
