package main

import (
	"bufio"
	"context"
	"fmt"
	"sort"
	"strconv"
	"strings"
	"sync"
	"sync/atomic"
	"time"

	"github.com/specterops/dawgs/graph"
	"github.com/specterops/dawgs/ops"
	"github.com/specterops/dawgs/traversal"
)

// C17 round 2: traversal.FilteredSkipLimit and ops.ParallelNodeQuery against Dawgs.C17.Par.
//   fsl <skip> <limit> <workers> <pattern>   pattern: one letter per call, a=(collect,descend) b=(collect,stop)
//                                            c=(no,descend) d=(no,stop); workers=1: calls in order, answer
//                                            visited=[…] descend=<bits>; workers>1: concurrent, answer count=<n>
//   pnq <maxID> <workers> <failing floors csv|-> <seed>
//                                            real ops.ParallelNodeQuery over the DB fake; the query delegate fails on
//                                            the listed floors; answer ret=<ok|err:k|hang> floors=[sorted queried floors]

func init() {
	register("c17fsl", c17FSLSuite{})
	register("c17pnq", c17PNQSuite{})
}

type c17FSLSuite struct{}

func (c17FSLSuite) Gen(rng *Rng, tier string, w *bufio.Writer, stats *Stats) {
	n := 150
	if tier == "thorough" {
		n = 4000
	}
	for i := 0; i < n; i++ {
		length := rng.Intn(14)
		var sb strings.Builder
		for j := 0; j < length; j++ {
			sb.WriteByte("aaabcd"[rng.Intn(6)])
		}
		if length == 0 {
			sb.WriteByte('a')
		}
		workers := 1
		if rng.Chance(1, 3) {
			workers = 2 + rng.Intn(6)
		}
		fmt.Fprintf(w, "# case %d\nfsl %d %d %d %s\n", i+1, Pick(rng, []int{0, 0, 1, 2, 3, -1}), Pick(rng, []int{0, 0, 1, 2, 5, -1}), workers, sb.String())
	}
}

type c17FSLRunner struct{ stats *Stats }

func (c17FSLSuite) NewRunner(stats *Stats) Runner { return &c17FSLRunner{stats: stats} }

func (r *c17FSLRunner) Step(t []string, raw string) string {
	if len(t) != 5 || t[0] != "fsl" {
		return "bad-op"
	}
	skip, e1 := strconv.Atoi(t[1])
	limit, e2 := strconv.Atoi(t[2])
	workers, e3 := strconv.Atoi(t[3])
	if e1 != nil || e2 != nil || e3 != nil || workers < 1 {
		return "bad-op"
	}
	calls := t[4]
	for _, ch := range calls {
		if ch < 'a' || ch > 'd' {
			return "bad-op"
		}
	}
	kind := graph.StringKind("K")
	segs := make([]*graph.PathSegment, len(calls))
	for i := range segs {
		segs[i] = &graph.PathSegment{Node: graph.NewNode(graph.ID(i), graph.NewProperties(), kind)}
	}
	var (
		lock    sync.Mutex
		visited []int
	)
	filter := traversal.FilteredSkipLimit(func(next *graph.PathSegment) (bool, bool) {
		ch := calls[int(next.Node.ID)]
		return ch == 'a' || ch == 'b', ch == 'a' || ch == 'c'
	}, func(next *graph.PathSegment) {
		lock.Lock()
		visited = append(visited, int(next.Node.ID))
		lock.Unlock()
	}, skip, limit)
	r.stats.Inc("branch.fsl.runs")
	if skip > 0 && limit > 0 {
		r.stats.Inc("branch.fsl.skip_and_limit")
	}
	if workers == 1 {
		var sb strings.Builder
		for _, s := range segs {
			if filter(s) {
				sb.WriteByte('1')
			} else {
				sb.WriteByte('0')
			}
		}
		return fmt.Sprintf("visited=[%s] descend=%s", csvInts(visited), sb.String())
	}
	r.stats.Inc("branch.fsl.concurrent")
	var wg sync.WaitGroup
	var next atomic.Int64
	for g := 0; g < workers; g++ {
		wg.Add(1)
		go func() {
			defer wg.Done()
			for {
				i := int(next.Add(1)) - 1
				if i >= len(segs) {
					return
				}
				filter(segs[i])
			}
		}()
	}
	wg.Wait()
	return fmt.Sprintf("count=%d", len(visited))
}

type c17PNQSuite struct{}

func (c17PNQSuite) Gen(rng *Rng, tier string, w *bufio.Writer, stats *Stats) {
	n := 60
	if tier == "thorough" {
		n = 1500
	}
	caseNo := 0
	emit := func(mx, workers int, fails []int) {
		caseNo++
		fs := "-"
		if len(fails) > 0 {
			fs = csvInts(fails)
		}
		fmt.Fprintf(w, "# case %d\npnq %d %d %s %d\n", caseNo, mx, workers, fs, rng.Intn(1<<30))
	}
	for i := 0; i < n; i++ {
		nfloors := 1 + rng.Intn(12)
		mx := (nfloors-1)*20000 + rng.Intn(20000)
		workers := 1 + rng.Intn(5)
		var fails []int
		// fewer failing ranges than workers: a worker always survives, the call must return
		for f := 0; f < nfloors && len(fails) < workers-1; f++ {
			if rng.Chance(1, 4) {
				fails = append(fails, f*20000)
			}
		}
		emit(mx, workers, fails)
		stats.Inc("gen.pnq_survivor_cases")
	}
	// the last range is the n-th failure: every worker fails but nothing is left to hand out: returns with n errors
	emit(59999, 2, []int{20000, 40000})
	emit(19999, 1, []int{0})
}

type c17PNQRunner struct{ stats *Stats }

func (c17PNQSuite) NewRunner(stats *Stats) Runner { return &c17PNQRunner{stats: stats} }

func (r *c17PNQRunner) Step(t []string, raw string) string {
	if len(t) != 5 || t[0] != "pnq" {
		return "bad-op"
	}
	mx, e1 := strconv.Atoi(t[1])
	workers, e2 := strconv.Atoi(t[2])
	if e1 != nil || e2 != nil || mx < 0 || workers < 1 {
		return "bad-op"
	}
	fails := map[int]bool{}
	if t[3] != "-" {
		for _, p := range strings.Split(t[3], ",") {
			v, err := strconv.Atoi(p)
			if err != nil {
				return "bad-op"
			}
			fails[v] = true
		}
	}
	db := &c17MemDB{nodes: map[graph.ID]*graph.Node{}, maxID: graph.ID(mx)}
	var (
		lock       sync.Mutex
		floors     []int
		inflight   atomic.Int64
		lastActive atomic.Int64
	)
	lastActive.Store(time.Now().UnixNano())
	ctx, cancel := context.WithCancel(context.Background())
	defer cancel()
	done := make(chan error, 1)
	go func() {
		done <- ops.ParallelNodeQuery(ctx, db, nil, workers, func(q graph.NodeQuery) error {
			inflight.Add(1)
			defer func() { lastActive.Store(time.Now().UnixNano()); inflight.Add(-1) }()
			nq, ok := q.(*c17NodeQuery)
			if !ok || len(nq.criteria) != 1 {
				return fmt.Errorf("unmodelled query")
			}
			lo, hi, ok := c17Floor(nq.criteria[0])
			if !ok || hi != lo+20000 {
				return fmt.Errorf("unmodelled range")
			}
			lock.Lock()
			floors = append(floors, int(lo))
			lock.Unlock()
			if fails[int(lo)] {
				return fmt.Errorf("range %d: %w", lo, errC17Boom)
			}
			return nil
		})
	}()
	var (
		err        error
		hang       bool
		quietSince int64
		quietTicks int
		tick       = time.NewTicker(50 * time.Millisecond)
		deadline   = time.After(c17HangTimeout)
	)
	defer tick.Stop()
wait:
	for {
		select {
		case err = <-done:
			break wait
		case <-deadline:
			hang = true
		case <-tick.C:
			if la := lastActive.Load(); inflight.Load() == 0 && la == quietSince {
				quietTicks++
			} else {
				quietSince, quietTicks = la, 0
			}
			if needTicks, needQuiet := c17QuietWindow(); quietTicks >= needTicks && time.Since(time.Unix(0, quietSince)) > needQuiet {
				hang = true
			}
		}
		if hang {
			c17Hangs.Add(1)
			r.stats.Inc("branch.pnq.hang_detected")
			cancel()
			select {
			case err = <-done:
			case <-time.After(c17HangTimeout):
				return "ret=hang-uncancellable"
			}
			break wait
		}
	}
	lock.Lock()
	got := append([]int{}, floors...)
	lock.Unlock()
	sort.Ints(got)
	ret := "ok"
	switch {
	case hang:
		ret = "hang"
	case err != nil:
		n := 1
		if j, ok := err.(interface{ Unwrap() []error }); ok {
			n = len(j.Unwrap())
		}
		ret = fmt.Sprintf("err:%d", n)
		r.stats.Inc("branch.pnq.errors_returned")
	}
	r.stats.Inc("branch.pnq.runs")
	return fmt.Sprintf("ret=%s floors=[%s]", ret, csvInts(got))
}
