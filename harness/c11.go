package main

// C11: cypher.Copy produces an equal, fully independent deep copy of every node of the cypher query
// model, and the two walkers (walk.Cypher = "semantic", walk.CypherStructural = "structural") visit a
// value in a documented order, honouring Consume / SetDone / SetError.
//
// This suite drives the REAL cypher.Copy and the REAL walkers and prints canonical one-line answers that
// a Lean model is compared against. Nothing in here re-implements Copy or the walkers: every observation
// is made from the outside, by reflection over the values before/after the real calls.
//
// Op lines (one `# case` line + ONE op line per case):
//
//	types
//	v <scripts> <TypeName> <seed> <depth> <nilish>
//	q <scripts> <json-quoted cypher text>
//	qd <scripts> <json-quoted cypher text>     like q, then every expression list is drained through its own Remove
//
// <scripts> = comma separated <mode>:<k>:<act>; mode st|se, k = 1-based index of the visitor callback
// (Enter/Visit/Exit counted together) in which the action fires (0 = never), act n|c|d|e.
//
// Answers:
//
//	types <name>,<name>,…
//	parse-error
//	ok equal=<1|0|panic|-> shared=[…] indep=<1|0|-> culprit=<text|-> opaque=[…] dag=<0|1> nodes=<n> nilish=<0|1> | W <script> <res> <log> | … | sexp=<V>
//
// The V grammar is documented at c11Render. Deviations from the written spec, all deliberate:
//   - the AddError mutation uses the texts "~mut-a" / "~mut-b" in phase a / b (with one shared text the
//     append-aliasing overwrite of phase b would write the same text and be invisible);
//   - phase a compares render(B) against render(B) taken just before the mutation (identical to S0 when
//     equal=1, more meaningful when equal=0);
//   - spaces inside %T names of the informational opaque=[…] list are removed ([]interface{});
//   - a typed nil map/slice inside an interface position renders as (t "<%T>") like a typed nil pointer
//     (the generator never produces one; the walkers treat it as a NON-nil node, so it must stay visible);
//   - when depth <= 0 the generator makes node slices nil or empty only (guarantees termination).

import (
	"bufio"
	"errors"
	"fmt"
	"reflect"
	"sort"
	"strconv"
	"strings"
	"unsafe"

	"github.com/specterops/dawgs/cypher/frontend"
	"github.com/specterops/dawgs/cypher/models/cypher"
	"github.com/specterops/dawgs/cypher/models/walk"
	"github.com/specterops/dawgs/graph"
)

type c11Suite struct{}

func init() { register("c11", c11Suite{}) }

// ---------------------------------------------------------------------------------------------------
// Registry of node types
// ---------------------------------------------------------------------------------------------------

// c11Registry is the hand-written list of zero values of every node type of the cypher query model:
// a pointer to every struct of model.go that has a copy() method, plus the three non-struct node types.
// The model side prints the same list from the extracted schema; a type missing on either side shows up
// as a disagreement of the `types` answer.
var c11Registry = []any{
	&cypher.RegularQuery{}, &cypher.SingleQuery{}, &cypher.Unwind{}, &cypher.ReadingClause{},
	&cypher.MultiPartQueryPart{}, &cypher.MultiPartQuery{}, &cypher.With{}, &cypher.SinglePartQuery{},
	&cypher.PartialArithmeticExpression{}, &cypher.ArithmeticExpression{}, &cypher.UnaryAddOrSubtractExpression{},
	&cypher.Match{}, &cypher.UpdatingClause{}, &cypher.MergeAction{}, &cypher.Merge{}, &cypher.Delete{},
	&cypher.Remove{}, &cypher.RemoveItem{}, &cypher.Set{}, &cypher.SetItem{}, &cypher.Create{},
	&cypher.IDInCollection{}, &cypher.FilterExpression{}, &cypher.Quantifier{}, &cypher.RangeQuantifier{},
	&cypher.KindMatcher{}, &cypher.Literal{}, &cypher.Parameter{}, &cypher.MapItem{}, &cypher.PatternRange{},
	&cypher.Negation{}, &cypher.Parenthetical{}, &cypher.ExclusiveDisjunction{}, &cypher.Disjunction{},
	&cypher.Conjunction{}, &cypher.FunctionInvocation{}, &cypher.Comparison{}, &cypher.PartialComparison{},
	&cypher.Variable{}, &cypher.ProjectionItem{}, &cypher.PropertyLookup{}, &cypher.PatternElement{},
	&cypher.Properties{}, &cypher.NodePattern{}, &cypher.RelationshipPattern{}, &cypher.Where{},
	&cypher.SortItem{}, &cypher.Order{}, &cypher.Projection{}, &cypher.Return{}, &cypher.PatternPart{},
	&cypher.Limit{}, &cypher.Skip{}, &cypher.PatternPredicate{},
	cypher.MapLiteral{}, &cypher.ListLiteral{}, graph.Kinds{},
}

// c11LeafRegistry: the only types generated into interface positions once the depth budget is used up.
var c11LeafRegistry = []any{
	&cypher.Variable{}, &cypher.Literal{}, &cypher.Parameter{}, &cypher.RangeQuantifier{}, graph.Kinds{}, cypher.MapLiteral{},
}

var (
	c11ErrorType   = reflect.TypeOf((*error)(nil)).Elem()
	c11KindType    = reflect.TypeOf((*graph.Kind)(nil)).Elem()
	c11KindsType   = reflect.TypeOf(graph.Kinds(nil))
	c11MapLitType  = reflect.TypeOf(cypher.MapLiteral(nil))
	c11ListPtrType = reflect.TypeOf((*cypher.ListLiteral)(nil))
	c11CypherPkg   = reflect.TypeOf(cypher.Variable{}).PkgPath()

	c11RegTypes     []reflect.Type              // registry, declaration order
	c11RegPtrTypes  []reflect.Type              // registry types of Kind Pointer (for typed nils)
	c11LeafTypes    []reflect.Type              // leaf-ish registry types
	c11RegByName    = map[string]reflect.Type{} // %T name -> type
	c11ScriptedErr  = errors.New("scripted")    // the sentinel the `e` action hands to SetError
	c11OperatorPool = []cypher.Operator{
		cypher.OperatorAdd, cypher.OperatorSubtract, cypher.OperatorMultiply, cypher.OperatorEquals, cypher.OperatorNotEquals,
		cypher.OperatorIn, cypher.OperatorIs, cypher.OperatorAnd, cypher.OperatorStartsWith, cypher.OperatorInvalid, "??", "x y",
	}
)

func init() {
	for _, z := range c11Registry {
		t := reflect.TypeOf(z)
		c11RegTypes = append(c11RegTypes, t)
		c11RegByName[t.String()] = t
		if t.Kind() == reflect.Pointer {
			c11RegPtrTypes = append(c11RegPtrTypes, t)
		}
	}
	for _, z := range c11LeafRegistry {
		c11LeafTypes = append(c11LeafTypes, reflect.TypeOf(z))
	}
}

// Interface-typed positions fall into three classes.
const (
	c11IfOpaque = iota // the unnamed empty interface `any` (Literal.Value, Parameter.Value): never looked into
	c11IfNode          // named interfaces of package cypher (Expression, SyntaxNode): hold nodes
	c11IfScalar        // everything else (graph.Kind, error): immutable scalar with a text
)

func c11IfaceClass(t reflect.Type) int {
	switch {
	case t.Name() == "" && t.NumMethod() == 0:
		return c11IfOpaque
	case t.PkgPath() == c11CypherPkg:
		return c11IfNode
	default:
		return c11IfScalar
	}
}

// c11Field is one field of a struct with embedded structs flattened in place.
type c11Field struct {
	name string
	v    reflect.Value
}

// c11Fields lists the fields of struct value sv in declaration order, embedded structs FLATTENED in place
// (promoted names). With readable=true unexported fields are made readable through reflect.NewAt (sv must
// be addressable); with readable=false the values keep reflect's own CanSet semantics: exported fields of
// the embedded unexported expressionList are settable, the unexported `errors` is not.
func c11Fields(sv reflect.Value, readable bool, out []c11Field) []c11Field {
	t := sv.Type()
	for i := 0; i < t.NumField(); i++ {
		sf, fv := t.Field(i), sv.Field(i)
		if sf.Anonymous && sf.Type.Kind() == reflect.Struct {
			out = c11Fields(fv, readable, out)
			continue
		}
		if readable && !fv.CanInterface() && fv.CanAddr() {
			fv = reflect.NewAt(fv.Type(), unsafe.Pointer(fv.UnsafeAddr())).Elem()
		}
		out = append(out, c11Field{sf.Name, fv})
	}
	return out
}

// c11Addressable returns an addressable copy of a struct value that was not reached through a pointer.
func c11Addressable(v reflect.Value) reflect.Value {
	if v.CanAddr() {
		return v
	}
	tmp := reflect.New(v.Type()).Elem()
	tmp.Set(v)
	return tmp
}

// ---------------------------------------------------------------------------------------------------
// V rendering
// ---------------------------------------------------------------------------------------------------

// c11Render renders a value canonically (no addresses):
//
//	V ::= nil                            nil pointer / nil interface / nil slice / nil map
//	    | (t "<%T>")                     typed nil pointer (or nil map/slice) INSIDE an interface-typed position
//	    | (s "<%T>" "<text>")            scalar; graph.Kind (text=.String()); error (text=.Error()); opaque any (text=%v)
//	    | (o "<%T>" (<Field> V) …)       non-nil pointer to struct, embedded structs flattened; pointer to a
//	                                     non-struct has exactly one pseudo field `*`
//	    | (l "<%T>" V …)                 non-nil slice
//	    | (m "<%T>" ("<key>" V) …)       non-nil map, entries sorted by key
//
// With track=true it also records the byte span of every struct field's value so that a difference between
// two renderings can be attributed to a `Type.field` label (c11Culprit).
type c11Render struct {
	b      strings.Builder
	track  bool
	caps   bool // mark empty slices that own spare capacity: (l "<%T>" +cap) — only for the model's input, never for comparisons
	spans  []c11Span
	onPath map[uintptr]bool
}

type c11Span struct {
	start, end int
	label      string
}

func c11RenderOf(x any, track bool) *c11Render { return c11RenderOfValue(reflect.ValueOf(x), track) }

func c11RenderOfValue(v reflect.Value, track bool) *c11Render {
	r := &c11Render{track: track, onPath: map[uintptr]bool{}}
	r.value(v, false)
	return r
}

func c11RenderString(x any) string { return c11RenderOf(x, false).b.String() }

// c11RenderForModel is the rendering sent to the Lean model: like c11RenderString, plus the `+cap` marker on
// empty-but-allocated slices (len 0, cap > 0), whose backing array is an identity the copy must not share.
func c11RenderForModel(x any) string {
	r := &c11Render{caps: true, onPath: map[uintptr]bool{}}
	r.value(reflect.ValueOf(x), false)
	return r.b.String()
}

func (r *c11Render) scalar(typ, text string) {
	r.b.WriteString(`(s `)
	r.b.WriteString(jsonQuote(typ))
	r.b.WriteString(" ")
	r.b.WriteString(jsonQuote(text))
	r.b.WriteString(")")
}

func (r *c11Render) field(owner, name string, v reflect.Value) {
	r.b.WriteString(" (")
	r.b.WriteString(name)
	r.b.WriteString(" ")
	start := r.b.Len()
	r.value(v, false)
	if r.track {
		r.spans = append(r.spans, c11Span{start, r.b.Len(), owner + "." + name})
	}
	r.b.WriteString(")")
}

// value renders v; inIface says that v is the dynamic value of an interface-typed position.
func (r *c11Render) value(v reflect.Value, inIface bool) {
	if !v.IsValid() {
		r.b.WriteString("nil")
		return
	}
	t := v.Type()
	typedNil := func() {
		if inIface {
			r.b.WriteString("(t " + jsonQuote(t.String()) + ")")
		} else {
			r.b.WriteString("nil")
		}
	}
	switch v.Kind() {
	case reflect.Interface:
		if v.IsNil() {
			r.b.WriteString("nil")
			return
		}
		switch c11IfaceClass(t) {
		case c11IfOpaque:
			r.scalar(v.Elem().Type().String(), fmt.Sprintf("%v", v.Interface()))
		case c11IfScalar:
			dyn := v.Interface()
			text := ""
			switch x := dyn.(type) {
			case error:
				text = x.Error()
			case fmt.Stringer:
				text = x.String()
			default:
				text = fmt.Sprintf("%v", dyn)
			}
			r.scalar(v.Elem().Type().String(), text)
		default:
			r.value(v.Elem(), true)
		}
	case reflect.Pointer:
		if v.IsNil() {
			typedNil()
			return
		}
		p := v.Pointer()
		if r.onPath[p] && t.Elem().Kind() == reflect.Struct {
			r.b.WriteString("(cycle " + jsonQuote(t.String()) + ")")
			return
		}
		r.onPath[p] = true
		r.b.WriteString("(o " + jsonQuote(t.String()))
		if t.Elem().Kind() == reflect.Struct {
			for _, f := range c11Fields(v.Elem(), true, nil) {
				r.field(t.String(), f.name, f.v)
			}
		} else {
			r.field(t.String(), "*", v.Elem())
		}
		r.b.WriteString(")")
		delete(r.onPath, p)
	case reflect.Struct:
		sv := c11Addressable(v)
		r.b.WriteString("(o " + jsonQuote(t.String()))
		for _, f := range c11Fields(sv, true, nil) {
			r.field(t.String(), f.name, f.v)
		}
		r.b.WriteString(")")
	case reflect.Slice, reflect.Array:
		if v.Kind() == reflect.Slice && v.IsNil() {
			typedNil()
			return
		}
		r.b.WriteString("(l " + jsonQuote(t.String()))
		if r.caps && v.Kind() == reflect.Slice && v.Len() == 0 && v.Cap() > 0 {
			r.b.WriteString(" +cap")
		}
		for i := 0; i < v.Len(); i++ {
			r.b.WriteString(" ")
			r.value(v.Index(i), false)
		}
		r.b.WriteString(")")
	case reflect.Map:
		if v.IsNil() {
			typedNil()
			return
		}
		r.b.WriteString("(m " + jsonQuote(t.String()))
		for _, k := range c11SortedKeys(v) {
			r.b.WriteString(" (" + jsonQuote(c11KeyText(k)) + " ")
			r.value(v.MapIndex(k), false)
			r.b.WriteString(")")
		}
		r.b.WriteString(")")
	case reflect.Bool:
		r.scalar(t.String(), strconv.FormatBool(v.Bool()))
	case reflect.Int, reflect.Int8, reflect.Int16, reflect.Int32, reflect.Int64:
		r.scalar(t.String(), strconv.FormatInt(v.Int(), 10))
	case reflect.Uint, reflect.Uint8, reflect.Uint16, reflect.Uint32, reflect.Uint64, reflect.Uintptr:
		r.scalar(t.String(), strconv.FormatUint(v.Uint(), 10))
	case reflect.Float32, reflect.Float64:
		r.scalar(t.String(), strconv.FormatFloat(v.Float(), 'g', -1, 64))
	case reflect.String:
		r.scalar(t.String(), v.String())
	default:
		r.scalar(t.String(), "?")
	}
}

func c11KeyText(k reflect.Value) string {
	if k.Kind() == reflect.String {
		return k.String()
	}
	return fmt.Sprint(k.Interface())
}

func c11SortedKeys(m reflect.Value) []reflect.Value {
	keys := m.MapKeys()
	sort.Slice(keys, func(i, j int) bool { return c11KeyText(keys[i]) < c11KeyText(keys[j]) })
	return keys
}

// c11Culprit names the struct field (innermost recorded span of the EXPECTED rendering) that contains the
// first byte at which the actual rendering differs; `root` when no field encloses it.
func c11Culprit(exp *c11Render, actual string) string {
	expected := exp.b.String()
	p := 0
	for p < len(expected) && p < len(actual) && expected[p] == actual[p] {
		p++
	}
	best, label := -1, "root"
	for _, s := range exp.spans {
		if s.start <= p && p < s.end && s.start > best {
			best, label = s.start, s.label
		}
	}
	return label
}

// ---------------------------------------------------------------------------------------------------
// Read-only scan: nodes / dag / opaque payload types / has-errors
// ---------------------------------------------------------------------------------------------------

type c11Scan struct {
	ill    bool // not well-typed against the schema: a typed nil, or a dynamic type outside the registry, in a node-interface position
	nodes  int
	dag    bool
	errs   bool
	seen   map[uintptr]bool // pointer-to-struct addresses met so far
	onPath map[uintptr]bool // cycle cut
	opaque map[string]bool
}

func c11ScanOf(root any) *c11Scan {
	s := &c11Scan{seen: map[uintptr]bool{}, onPath: map[uintptr]bool{}, opaque: map[string]bool{}}
	s.value(reflect.ValueOf(root))
	return s
}

func (s *c11Scan) value(v reflect.Value) {
	if !v.IsValid() {
		return
	}
	t := v.Type()
	switch v.Kind() {
	case reflect.Interface:
		if v.IsNil() {
			return
		}
		switch c11IfaceClass(t) {
		case c11IfOpaque:
			switch v.Elem().Kind() {
			case reflect.Slice, reflect.Map, reflect.Pointer:
				s.opaque[strings.ReplaceAll(v.Elem().Type().String(), " ", "")] = true
			}
		case c11IfNode:
			e := v.Elem()
			if _, ok := c11RegByName[e.Type().String()]; !ok {
				s.ill = true
			}
			switch e.Kind() {
			case reflect.Pointer, reflect.Map, reflect.Slice:
				if e.IsNil() {
					s.ill = true
				}
			}
			s.value(e)
		}
	case reflect.Pointer:
		if v.IsNil() {
			return
		}
		if t.Elem().Kind() == reflect.Struct {
			p := v.Pointer()
			if s.seen[p] {
				s.dag = true
			}
			s.seen[p] = true
			if s.onPath[p] {
				return
			}
			s.onPath[p] = true
			if t.Elem().PkgPath() == c11CypherPkg {
				s.nodes++
			}
			for _, f := range c11Fields(v.Elem(), true, nil) {
				s.value(f.v)
			}
			delete(s.onPath, p)
			return
		}
		if t == c11ListPtrType {
			s.nodes++
		}
		s.value(v.Elem())
	case reflect.Struct:
		for _, f := range c11Fields(c11Addressable(v), true, nil) {
			s.value(f.v)
		}
	case reflect.Slice, reflect.Array:
		if v.Kind() == reflect.Slice && v.IsNil() {
			return
		}
		if t == c11KindsType {
			s.nodes++
			return
		}
		if t.Elem() == c11ErrorType {
			if v.Len() > 0 {
				s.errs = true
			}
			return
		}
		for i := 0; i < v.Len(); i++ {
			s.value(v.Index(i))
		}
	case reflect.Map:
		if v.IsNil() {
			return
		}
		if t == c11MapLitType {
			s.nodes += 1 + v.Len() // the literal + one synthesised *MapItem per entry
		}
		for _, k := range c11SortedKeys(v) {
			s.value(v.MapIndex(k))
		}
	}
}

// ---------------------------------------------------------------------------------------------------
// shared: lockstep walk of original and copy looking for aliased pointers / slices / maps
// ---------------------------------------------------------------------------------------------------

type c11Shared struct {
	labels map[string]bool
	onPath map[uintptr]bool
}

func c11SharedOf(a, b any) []string {
	s := &c11Shared{labels: map[string]bool{}, onPath: map[uintptr]bool{}}
	s.walk(reflect.ValueOf(a), reflect.ValueOf(b), "root")
	out := make([]string, 0, len(s.labels))
	for l := range s.labels {
		out = append(out, l)
	}
	sort.Strings(out)
	return out
}

// walk compares position a (original) with position b (copy). label names the position: Type.field for a
// struct field, <slice %T>[] for a slice element, <map %T>[] for a map value, <ptr %T>.* for the pointee of
// a pointer to a non-struct. It stops silently at shape mismatches.
func (s *c11Shared) walk(a, b reflect.Value, label string) {
	if !a.IsValid() || !b.IsValid() || a.Type() != b.Type() {
		return
	}
	t := a.Type()
	switch a.Kind() {
	case reflect.Interface:
		if c11IfaceClass(t) != c11IfNode || a.IsNil() || b.IsNil() {
			return // opaque payloads and scalar interfaces (graph.Kind, error) are never looked into
		}
		s.walk(a.Elem(), b.Elem(), label)
	case reflect.Pointer:
		if a.IsNil() || b.IsNil() {
			return
		}
		if a.Pointer() == b.Pointer() {
			s.labels[label] = true
			return
		}
		if s.onPath[a.Pointer()] {
			return
		}
		s.onPath[a.Pointer()] = true
		if t.Elem().Kind() == reflect.Struct {
			fa, fb := c11Fields(a.Elem(), true, nil), c11Fields(b.Elem(), true, nil)
			for i := range fa {
				s.walk(fa[i].v, fb[i].v, t.String()+"."+fa[i].name)
			}
		} else {
			s.walk(a.Elem(), b.Elem(), t.String()+".*")
		}
		delete(s.onPath, a.Pointer())
	case reflect.Struct:
		fa, fb := c11Fields(c11Addressable(a), true, nil), c11Fields(c11Addressable(b), true, nil)
		for i := range fa {
			s.walk(fa[i].v, fb[i].v, t.String()+"."+fa[i].name)
		}
	case reflect.Slice:
		// same backing array: compared for EVERY slice that owns capacity, also when it is empty (len 0, cap > 0):
		// an append on either side then writes into the other's array
		if !a.IsNil() && !b.IsNil() && a.Cap() > 0 && b.Cap() > 0 && a.Pointer() == b.Pointer() {
			s.labels[label] = true
			return
		}
		for i := 0; i < a.Len() && i < b.Len(); i++ {
			s.walk(a.Index(i), b.Index(i), t.String()+"[]")
		}
	case reflect.Map:
		if a.IsNil() || b.IsNil() {
			return
		}
		if a.Pointer() == b.Pointer() {
			s.labels[label] = true
			return
		}
		for _, k := range c11SortedKeys(a) {
			if vb := b.MapIndex(k); vb.IsValid() {
				s.walk(a.MapIndex(k), vb, t.String()+"[]")
			}
		}
	}
}

// ---------------------------------------------------------------------------------------------------
// mutateAll
// ---------------------------------------------------------------------------------------------------

// c11Mutator changes everything reachable from a value that can be changed through reflect's ordinary
// (non-unsafe) API, post-order: contents first, then the slot itself.
//
//	bool -> negated; string kinds -> +"~"; ints/uints/floats -> +1;
//	slice -> (after its elements) element 0 := zero value, and one zero element appended if the slot is settable;
//	map -> (after its values) key "~mut" := zero value;  pointer -> pointee mutated, pointer left alone;
//	struct pointer implementing AddError(error) -> AddError(errors.New("~mut-<phase>")) exactly once;
//	opaque `any` payloads, graph.Kind values and error values are left untouched (graph.Kind values are
//	pointers into a process-global cache and must never be written).
//
// Every pointer / map is mutated once (negating a bool twice would cancel out on DAG-shaped values).
//
// Overwriting element 0 cuts the old element's subtree off the mutated value. The cut-off (already mutated)
// elements are returned as `detached` so that the caller can keep watching them: an aliasing that only shows
// when the OTHER side is mutated later (append into spare capacity) would otherwise go unnoticed for nodes
// that happen to live below an element 0.
type c11Mutator struct {
	phase    string
	seen     map[uintptr]bool
	detached []reflect.Value
}

func c11MutateAll(x any, phase string) (detached []reflect.Value) {
	m := &c11Mutator{phase: phase, seen: map[uintptr]bool{}}
	m.value(reflect.ValueOf(x))
	return m.detached
}

// appended is the element a slice is grown by. It differs between the two phases (and from the zero value in
// phase a): when original and copy share a backing array with spare capacity, the second append overwrites the
// first one's element, which only shows if the two elements render differently.
func (m *c11Mutator) appended(et reflect.Type) reflect.Value {
	out := reflect.New(et).Elem()
	switch et.Kind() {
	case reflect.String:
		out.SetString("~mut-" + m.phase)
	case reflect.Pointer:
		if m.phase == "a" && et.Elem().Kind() == reflect.Struct {
			out.Set(reflect.New(et.Elem())) // phase a: pointer to a zero struct; phase b: nil
		}
	case reflect.Interface:
		switch {
		case c11IfaceClass(et) == c11IfNode:
			out.Set(reflect.ValueOf(&cypher.Variable{Symbol: "~mut-" + m.phase}))
		case et == c11ErrorType:
			out.Set(reflect.ValueOf(errors.New("~mut-" + m.phase)))
		case et == reflect.TypeOf((*graph.Kind)(nil)).Elem():
			out.Set(reflect.ValueOf(graph.StringKind("~mut-" + m.phase)))
		}
	}
	return out
}

func (m *c11Mutator) value(v reflect.Value) {
	if !v.IsValid() {
		return
	}
	t := v.Type()
	switch v.Kind() {
	case reflect.Interface:
		if c11IfaceClass(t) != c11IfNode || v.IsNil() {
			return
		}
		m.value(v.Elem()) // dynamic value: not settable itself, its pointee / elements / entries are
	case reflect.Pointer:
		if v.IsNil() || m.seen[v.Pointer()] {
			return
		}
		m.seen[v.Pointer()] = true
		if t.Elem().Kind() == reflect.Struct {
			for _, f := range c11Fields(v.Elem(), false, nil) {
				m.value(f.v)
			}
			if v.CanInterface() {
				if f, ok := v.Interface().(interface{ AddError(error) }); ok {
					f.AddError(errors.New("~mut-" + m.phase))
				}
			}
			return
		}
		m.value(v.Elem())
	case reflect.Struct:
		for _, f := range c11Fields(v, false, nil) {
			m.value(f.v)
		}
	case reflect.Slice:
		if !v.IsNil() && !v.CanSet() && v.Len() > 0 && !v.Index(0).CanSet() {
			return // unexported slice (`errors`): handled through AddError
		}
		for i := 0; i < v.Len(); i++ {
			m.value(v.Index(i))
		}
		if v.Len() > 0 && v.Index(0).CanSet() {
			switch old := v.Index(0); old.Kind() {
			case reflect.Interface, reflect.Pointer, reflect.Map, reflect.Slice:
				if !old.IsNil() {
					keep := reflect.New(t.Elem()).Elem()
					keep.Set(old)
					m.detached = append(m.detached, keep)
				}
			}
			v.Index(0).Set(reflect.Zero(t.Elem()))
		}
		if v.CanSet() {
			v.Set(reflect.Append(v, m.appended(t.Elem())))
		}
	case reflect.Map:
		if v.IsNil() || m.seen[v.Pointer()] {
			return
		}
		m.seen[v.Pointer()] = true
		for _, k := range c11SortedKeys(v) {
			m.value(v.MapIndex(k))
		}
		if t.Key().Kind() == reflect.String && v.CanInterface() {
			v.SetMapIndex(reflect.ValueOf("~mut").Convert(t.Key()), reflect.Zero(t.Elem()))
		}
	case reflect.Bool:
		if v.CanSet() {
			v.SetBool(!v.Bool())
		}
	case reflect.String:
		if v.CanSet() {
			v.SetString(v.String() + "~")
		}
	case reflect.Int, reflect.Int8, reflect.Int16, reflect.Int32, reflect.Int64:
		if v.CanSet() {
			v.SetInt(v.Int() + 1)
		}
	case reflect.Uint, reflect.Uint8, reflect.Uint16, reflect.Uint32, reflect.Uint64:
		if v.CanSet() {
			v.SetUint(v.Uint() + 1)
		}
	case reflect.Float32, reflect.Float64:
		if v.CanSet() {
			v.SetFloat(v.Float() + 1)
		}
	}
}

// ---------------------------------------------------------------------------------------------------
// Copy part
// ---------------------------------------------------------------------------------------------------

type c11CopyResult struct {
	equal   string
	shared  []string
	indep   string
	culprit string
}

// c11RealCopy is the implementation under test. Copy switches on any(value).(type), so instantiating it at
// the static type SyntaxNode dispatches on the dynamic type exactly like a call at the concrete type.
func c11RealCopy(root any) any { return cypher.Copy[cypher.SyntaxNode](root) }

// c11CopyPart calls copier (always c11RealCopy outside of the harness's own self-tests) on root and observes
// equality, aliasing and independence. root IS MUTATED by this function; everything else about the case
// must have been computed before.
func c11CopyPart(root any, copier func(any) any) (res c11CopyResult) {
	defer func() {
		if p := recover(); p != nil {
			msg := strings.ReplaceAll(strings.ReplaceAll(fmt.Sprint(p), "\n", "_"), " ", "_")
			if len(msg) > 80 {
				msg = msg[:80]
			}
			res = c11CopyResult{equal: "panic", indep: "-", culprit: msg}
		}
	}()
	s0 := c11RenderString(root)
	b := copier(root)
	expB := c11RenderOf(b, true)
	sB := expB.b.String()
	res.equal = "0"
	if sB == s0 && reflect.DeepEqual(root, b) {
		res.equal = "1"
	}
	res.shared = c11SharedOf(root, b)
	res.indep, res.culprit = "1", "-"
	if res.equal == "0" {
		// name the first field whose rendering differs; the mutation phases assume equal shapes
		res.indep, res.culprit = "-", "e:"+c11Culprit(c11RenderOf(root, true), sB)
		return
	}
	// phase a: mutating the original must not show through the copy
	detached := c11MutateAll(root, "a")
	if after := c11RenderString(b); after != sB {
		res.indep, res.culprit = "0", "a:"+c11Culprit(expB, after)
		return
	}
	// phase b: mutating the copy must not show through the (already mutated) original, nor through the
	// subtrees phase a cut off the original
	watch := append([]reflect.Value{reflect.ValueOf(root)}, detached...)
	exp := make([]*c11Render, len(watch))
	for i, w := range watch {
		exp[i] = c11RenderOfValue(w, true)
	}
	c11MutateAll(b, "b")
	for i, w := range watch {
		if after := c11RenderOfValue(w, false).b.String(); after != exp[i].b.String() {
			res.indep, res.culprit = "0", "b:"+c11Culprit(exp[i], after)
			return
		}
	}
	return
}

// ---------------------------------------------------------------------------------------------------
// Walk part
// ---------------------------------------------------------------------------------------------------

// c11Script is one scripted visitor: in WHICH callbacks (the schedule `sel`) it performs WHICH action.
//
//	<mode>:<sel>:<act>     mode st|se|pg, act n|c|d|e
//	sel ::= <k>[+<k>…]     the listed callbacks (1-based, Enter/Visit/Exit counted together; 0 = never), e.g. 7+8 =
//	                       Consume in Enter(X) and again in the Exit(X) that follows
//	      | *<kinds>       every callback of the listed kinds (E, V, X), e.g. *X = every Exit, *EX
//	      | #<m>.<r><kinds> every callback of the listed kinds whose node's %T name has byte sum ≡ r (mod m):
//	                       a label-determined set of nodes, acted on in Enter AND Exit (AND Visit)
type c11Script struct {
	mode  string
	sel   string
	ks    []int
	kinds string // subset of "EVX" for the * and # forms
	m, r  int    // # form: m > 0
	leaf  bool       // `L` prefix: this walk runs over a bare leaf root (a *cypher.Variable / pgsql.Identifier), not the case's value
	next  *c11Script // `A>B`: after this walk, walk B runs with the SAME visitor object (same handler); callbacks are counted per walk
	acts  string     // the handler calls made in a selected callback, in order: c Consume(), d SetDone(), e SetError(non-nil),
	//              z SetError(nil); "n" = none. E.g. "zc", "ee", "de" (SetError after SetDone), "dz"
}

func (s c11Script) String() string {
	t := fmt.Sprintf("%s:%s:%s", s.mode, s.sel, s.acts)
	if s.leaf {
		t = "L" + t
	}
	if s.next != nil {
		t += ">" + s.next.String()
	}
	return t
}

// c11Calls performs the script's handler calls on the real handler, in order.
func (s c11Script) c11Calls(h walk.VisitorHandler) {
	for i := 0; i < len(s.acts); i++ {
		switch s.acts[i] {
		case 'c':
			h.Consume()
		case 'd':
			h.SetDone()
		case 'e':
			h.SetError(c11ScriptedErr)
		case 'z':
			h.SetError(nil) // a visitor forwarding a passing check: must be a no-op
		}
	}
}

func c11ActsOK(a string) bool {
	if a == "n" {
		return true
	}
	for i := 0; i < len(a); i++ {
		if strings.IndexByte("cdez", a[i]) < 0 {
			return false
		}
	}
	return a != ""
}

func c11NameHash(name string) int {
	h := 0
	for i := 0; i < len(name); i++ {
		h += int(name[i])
	}
	return h
}

// fires: does the schedule select the n-th callback, of the given kind, on a node of the given %T name?
func (s c11Script) fires(n int, kind byte, name string) bool {
	if s.kinds == "" {
		for _, k := range s.ks {
			if k == n {
				return true
			}
		}
		return false
	}
	if strings.IndexByte(s.kinds, kind) < 0 {
		return false
	}
	return s.m == 0 || c11NameHash(name)%s.m == s.r
}

func c11MkScript(mode, sel string, act byte) (c11Script, bool) {
	return c11MkScriptS(mode, sel, string(act))
}

func c11MkScriptS(mode, sel, acts string) (c11Script, bool) {
	sc := c11Script{mode: mode, sel: sel, acts: acts}
	if !c11ActsOK(acts) {
		return sc, false
	}
	kindsOK := func(k string) bool {
		if k == "" {
			return false
		}
		for i := 0; i < len(k); i++ {
			if strings.IndexByte("EVX", k[i]) < 0 {
				return false
			}
		}
		return true
	}
	switch {
	case strings.HasPrefix(sel, "*"):
		sc.kinds = sel[1:]
		return sc, kindsOK(sc.kinds)
	case strings.HasPrefix(sel, "#"):
		i := strings.IndexByte(sel, '.')
		if i < 0 {
			return sc, false
		}
		j := i + 1
		for j < len(sel) && sel[j] >= '0' && sel[j] <= '9' {
			j++
		}
		m, err1 := strconv.Atoi(sel[1:i])
		r, err2 := strconv.Atoi(sel[i+1 : j])
		sc.m, sc.r, sc.kinds = m, r, sel[j:]
		return sc, err1 == nil && err2 == nil && m > 0 && r >= 0 && r < m && kindsOK(sc.kinds)
	default:
		for _, f := range strings.Split(sel, "+") {
			k, err := strconv.Atoi(f)
			if err != nil || k < 0 {
				return sc, false
			}
			sc.ks = append(sc.ks, k)
		}
		return sc, true
	}
}

func c11ParseScriptsFor(tok string, modes ...string) ([]c11Script, bool) {
	var out []c11Script
	one := func(part string) (c11Script, bool) {
		leaf := strings.HasPrefix(part, "L")
		f := strings.Split(strings.TrimPrefix(part, "L"), ":")
		if len(f) != 3 {
			return c11Script{}, false
		}
		okMode := false
		for _, m := range modes {
			okMode = okMode || m == f[0]
		}
		sc, ok := c11MkScriptS(f[0], f[1], f[2])
		sc.leaf = leaf
		return sc, ok && okMode
	}
	for _, part := range strings.Split(tok, ",") {
		ab := strings.Split(part, ">")
		if len(ab) > 2 {
			return nil, false
		}
		sc, ok := one(ab[0])
		if !ok {
			return nil, false
		}
		if len(ab) == 2 {
			b, okb := one(ab[1])
			if !okb || b.leaf {
				return nil, false
			}
			sc.next = &b
		}
		out = append(out, sc)
	}
	return out, true
}

// c11SeqScripts: sequences of two walks with ONE visitor object for one walker: walk A leaves the handler behind, walk B
// (over the case's value) must then behave exactly like a walk with a fresh visitor unless A was cancelled / failed, in
// which case B must make no callback. A: a bare leaf root consumed in Enter / in Exit / in both; the case's value with
// Consume in every Exit (so also in the ROOT's Exit) / in a random callback / cancelled / failed / nil-error.
func c11SeqScripts(rng *Rng, mode string, n int) []c11Script {
	var out []c11Script
	add := func(a string, b string) {
		if scs, ok := c11ParseScriptsFor(a+">"+b, mode); ok {
			out = append(out, scs...)
		}
	}
	never := mode + ":0:n"
	k := func() string { return strconv.Itoa(1 + rng.Intn(n)) }
	if n == 0 {
		return nil
	}
	add("L"+mode+":1:c", never)
	add("L"+mode+":2:c", never)
	add("L"+mode+":1+2:c", never)
	add("L"+mode+":1:c", mode+":"+k()+":c")
	add(mode+":*X:c", never)
	add(mode+":*EVX:c", never)
	add(mode+":"+strconv.Itoa(n)+":c", never) // the last callback of a complete walk is the root's Exit
	add(mode+":"+k()+":c", never)
	add(mode+":"+k()+":d", never)
	add(mode+":"+k()+":e", never)
	add(mode+":"+k()+":cd", never)
	add(mode+":*EVX:z", mode+":"+k()+":c")
	return out
}

func c11ParseScripts(tok string) ([]c11Script, bool) { return c11ParseScriptsFor(tok, "st", "se") }

func c11NeverScript(mode string) c11Script { sc, _ := c11MkScript(mode, "0", 'n'); return sc }

// c11ScheduleScripts: the schedules added to every case for one walker with n callbacks — Consume in Exit, in
// Visit, in Enter+Exit(+Visit) of label-determined node sets, and in Enter(X)+Exit(X) of random positions.
func c11ScheduleScripts(rng *Rng, mode string, n int, pairs int, all bool) []c11Script {
	var out []c11Script
	add := func(sel string, act byte) {
		if sc, ok := c11MkScript(mode, sel, act); ok {
			out = append(out, sc)
		}
	}
	if n == 0 {
		return nil
	}
	adds := func(sel, acts string) {
		if sc, ok := c11MkScriptS(mode, sel, acts); ok {
			out = append(out, sc)
		}
	}
	// handler-call sequences: SetError(nil) in EVERY callback must change nothing; nil error together with Consume;
	// SetError twice; SetError after SetDone; SetDone followed by a nil error; at label-determined and random positions
	adds("*EVX", "z")
	adds("#2.0EX", "zc")
	adds(fmt.Sprintf("#3.%dEVX", rng.Intn(3)), "cz")
	for _, acts := range []string{"z", "zc", "ee", "de", "dz", "ze", "cd", "ce"} {
		adds(strconv.Itoa(1+rng.Intn(n)), acts)
	}
	add("*X", 'c')
	add("*V", 'c')
	add("#2.0EX", 'c')
	add("#2.1EX", 'c')
	add(fmt.Sprintf("#3.%dEVX", rng.Intn(3)), 'c')
	add(fmt.Sprintf("#5.%dVX", rng.Intn(5)), 'c')
	if all {
		for k := 1; k < n; k++ {
			add(fmt.Sprintf("%d+%d", k, k+1), 'c')
		}
	} else {
		for i := 0; i < pairs && n > 1; i++ {
			k := 1 + rng.Intn(n-1)
			add(fmt.Sprintf("%d+%d", k, k+1), 'c')
		}
	}
	return out
}

// c11Visitor records every callback and performs the scripted action inside the k-th one.
type c11Visitor struct {
	walk.VisitorHandler
	script c11Script
	record bool
	n      int
	fired  bool
	log    []string
}

func (s *c11Visitor) event(kind string, node cypher.SyntaxNode) {
	s.n++
	if s.record {
		s.log = append(s.log, kind+":"+fmt.Sprintf("%T", node))
	}
	if s.script.fires(s.n, kind[0], fmt.Sprintf("%T", node)) {
		s.fired = true
		s.script.c11Calls(s.VisitorHandler)
	}
}

func (s *c11Visitor) Enter(node cypher.SyntaxNode) { s.event("E", node) }
func (s *c11Visitor) Visit(node cypher.SyntaxNode) { s.event("V", node) }
func (s *c11Visitor) Exit(node cypher.SyntaxNode)  { s.event("X", node) }

// c11RunWalk runs the real walker selected by the script over root with a fresh visitor.
// c11RunSeq runs script A and then script.next (B) with one shared handler; returns "resA>resB", "logA>logB".
func c11RunSeq(root any, script c11Script) (res, log string, fired bool) {
	h := walk.NewCancelableErrorHandler()
	part := func(sc c11Script, r any) (string, string, bool) {
		res, vis := c11RunWalkWith(h, r, sc, true)
		l := "-"
		if len(vis.log) > 0 {
			l = strings.Join(vis.log, ",")
		}
		return res, l, vis.fired
	}
	rootA := root
	if script.leaf {
		rootA = &cypher.Variable{Symbol: "a"}
	}
	ra, la, fa := part(script, rootA)
	rb, lb, fb := part(*script.next, root)
	return ra + ">" + rb, la + ">" + lb, fa || fb
}

func c11RunWalk(root any, script c11Script, record bool) (res string, vis *c11Visitor) {
	return c11RunWalkWith(walk.NewCancelableErrorHandler(), root, script, record)
}

func c11RunWalkWith(h walk.VisitorHandler, root any, script c11Script, record bool) (res string, vis *c11Visitor) {
	vis = &c11Visitor{VisitorHandler: h, script: script, record: record}
	defer func() {
		if p := recover(); p != nil {
			res = "panic"
		}
	}()
	var err error
	if script.mode == "st" {
		err = walk.CypherStructural(root, vis)
	} else {
		err = walk.Cypher(root, vis)
	}
	switch {
	case err == nil:
		res = "ok"
	case errors.Is(err, c11ScriptedErr):
		res = "verr"
	default:
		res = "cerr"
	}
	return
}

// ---------------------------------------------------------------------------------------------------
// Random value generator
// ---------------------------------------------------------------------------------------------------

// c11Generator builds values by reflection over the STATIC field types, so new fields / node types are
// covered without touching the harness. All randomness comes from rng.
type c11Generator struct {
	rng    *Rng
	nilish bool
}

func c11BuildValue(t reflect.Type, seed uint64, depth int, nilish bool) any {
	g := &c11Generator{rng: NewRng(seed), nilish: nilish}
	return g.node(t, depth).Interface()
}

// node returns a NON-nil value of registry type t whose contents use recursion budget depth.
func (g *c11Generator) node(t reflect.Type, depth int) reflect.Value {
	switch {
	case t == c11MapLitType:
		return g.mapLit(depth, false)
	case t == c11KindsType:
		return g.kinds(false)
	case t.Kind() == reflect.Pointer && t.Elem().Kind() == reflect.Struct:
		p := reflect.New(t.Elem())
		g.fillStruct(p.Elem(), depth)
		g.addThenRemove(p)
		// 0 errors with prob 1/2, else 1..4 (3 errors leave len 3 cap 4: spare capacity)
		if f, ok := p.Interface().(interface{ AddError(error) }); ok && g.rng.Chance(1, 2) {
			n := 1 + g.rng.Intn(4)
			for i := 0; i < n; i++ {
				f.AddError(errors.New("e" + strconv.Itoa(i)))
			}
		}
		return p
	case t.Kind() == reflect.Pointer: // *cypher.ListLiteral
		p := reflect.New(t.Elem())
		g.fill(p.Elem(), depth)
		return p
	default:
		v := reflect.New(t).Elem()
		g.fill(v, depth)
		return v
	}
}

// addThenRemove drains a list the way the model's own API does: when the node has Add/Remove/Len methods (the
// embedders of expressionList: Where, Conjunction, Disjunction, ExclusiveDisjunction) and its list is empty, one time
// out of two an expression is added and removed again, which leaves an empty list that still owns its backing array
// (len 0, cap 1).
func (g *c11Generator) addThenRemove(p reflect.Value) {
	l, ok := p.Interface().(interface {
		Add(cypher.Expression)
		Remove(cypher.Expression) bool
		Len() int
	})
	if !ok || l.Len() != 0 || !g.rng.Chance(1, 2) {
		return
	}
	x := &cypher.Variable{Symbol: "drained"}
	l.Add(x)
	l.Remove(x)
}

func (g *c11Generator) fillStruct(sv reflect.Value, depth int) {
	for _, f := range c11Fields(sv, false, nil) {
		if f.v.CanSet() { // skips the unexported `errors` (filled through AddError)
			g.fill(f.v, depth)
		}
	}
}

// iface returns the dynamic value for an interface-typed node position (invalid Value = nil interface).
func (g *c11Generator) iface(depth int, allowNil bool) reflect.Value {
	if allowNil && g.rng.Chance(1, 6) {
		return reflect.Value{}
	}
	if g.nilish && g.rng.Chance(1, 10) {
		return reflect.Zero(Pick(g.rng, c11RegPtrTypes)) // typed nil pointer inside the interface
	}
	pool := c11RegTypes
	if depth <= 0 {
		pool = c11LeafTypes
	}
	return g.node(Pick(g.rng, pool), depth-1)
}

func (g *c11Generator) kinds(allowNil bool) reflect.Value {
	out := graph.Kinds{}
	switch c := g.rng.Intn(4); {
	case c == 0 && allowNil:
		out = nil
	case c <= 1:
	default:
		n := 1 + g.rng.Intn(2)
		for i := 0; i < n; i++ {
			out = append(out, graph.StringKind(Pick(g.rng, []string{"K1", "K2"})))
		}
		out = out[:len(out):len(out)]
	}
	return reflect.ValueOf(out)
}

func (g *c11Generator) mapLit(depth int, allowNil bool) reflect.Value {
	c := g.rng.Intn(5)
	if c == 0 && allowNil {
		return reflect.Zero(c11MapLitType)
	}
	m := reflect.MakeMap(c11MapLitType)
	if c <= 1 || depth <= 0 {
		return m
	}
	n := 1 + g.rng.Intn(3)
	for i := 0; i < n; i++ {
		key := Pick(g.rng, []string{"a", "b", "name", "k~"})
		val := g.iface(depth-1, true)
		if !val.IsValid() {
			val = reflect.Zero(c11MapLitType.Elem())
		}
		m.SetMapIndex(reflect.ValueOf(key), val)
	}
	return m
}

// fill sets the settable slot v (static type decides what goes in).
func (g *c11Generator) fill(v reflect.Value, depth int) {
	t := v.Type()
	switch {
	case t == c11KindsType:
		v.Set(g.kinds(true))
		return
	case t == c11MapLitType:
		v.Set(g.mapLit(depth, true))
		return
	}
	switch v.Kind() {
	case reflect.Pointer:
		switch t.Elem().Kind() {
		case reflect.Int, reflect.Int8, reflect.Int16, reflect.Int32, reflect.Int64:
			if !g.rng.Chance(1, 3) {
				p := reflect.New(t.Elem())
				p.Elem().SetInt(int64(g.rng.Intn(6)))
				v.Set(p)
			}
		default: // pointer to struct (or other node pointer): nil 1/4, always nil once the budget is used up
			if depth > 0 && !g.rng.Chance(1, 4) {
				v.Set(g.node(t, depth-1))
			}
		}
	case reflect.Interface:
		switch c11IfaceClass(t) {
		case c11IfOpaque:
			switch g.rng.Intn(8) {
			case 1:
				v.Set(reflect.ValueOf(int64(g.rng.Intn(5))))
			case 2:
				v.Set(reflect.ValueOf(Pick(g.rng, []string{"'s'", "", "x"})))
			case 3:
				v.Set(reflect.ValueOf(g.rng.Bool()))
			case 4:
				v.Set(reflect.ValueOf(float64(1.5)))
			case 5:
				v.Set(reflect.ValueOf([]any{int64(1)}))
			case 6:
				v.Set(reflect.ValueOf(map[string]any{"x": int64(1)}))
			case 7:
				v.Set(reflect.ValueOf([]string{"a"}))
			}
		case c11IfNode:
			if dyn := g.iface(depth, true); dyn.IsValid() {
				v.Set(dyn)
			}
		}
	case reflect.Slice:
		et := t.Elem()
		switch {
		case et.Kind() == reflect.String:
			switch g.rng.Intn(4) {
			case 0:
			case 1:
				v.Set(reflect.MakeSlice(t, 0, g.rng.Intn(3))) // empty; two times out of three with spare capacity
			default:
				n := 1 + g.rng.Intn(2)
				s := reflect.MakeSlice(t, n, n)
				for i := 0; i < n; i++ {
					s.Index(i).SetString(Pick(g.rng, []string{"ns", "apoc", "x"}))
				}
				v.Set(s)
			}
		case et.Kind() == reflect.Pointer || (et.Kind() == reflect.Interface && c11IfaceClass(et) == c11IfNode):
			c := g.rng.Intn(5)
			if depth <= 0 {
				c %= 2
			}
			switch c {
			case 0:
			case 1:
				v.Set(reflect.MakeSlice(t, 0, g.rng.Intn(3))) // empty; two times out of three with spare capacity
			default:
				n := 1 + g.rng.Intn(3)
				s := reflect.MakeSlice(t, n, n)
				for i := 0; i < n; i++ {
					if g.nilish && g.rng.Chance(1, 8) {
						continue // nil element
					}
					if et.Kind() == reflect.Pointer {
						s.Index(i).Set(g.node(et, depth-1))
					} else {
						s.Index(i).Set(g.iface(depth-1, false))
					}
				}
				v.Set(s)
			}
		}
	case reflect.Struct:
		g.fillStruct(v, depth)
	case reflect.Bool:
		v.SetBool(g.rng.Bool())
	case reflect.String:
		switch t.PkgPath() + "." + t.Name() {
		case c11CypherPkg + ".Operator":
			v.SetString(string(Pick(g.rng, c11OperatorPool)))
		case c11CypherPkg + ".AssignmentOperator":
			v.SetString(Pick(g.rng, []string{"=", "+=", ""}))
		case c11CypherPkg + ".QuantifierType":
			v.SetString(Pick(g.rng, []string{"all", "any", "none", "single", ""}))
		default:
			v.SetString(Pick(g.rng, []string{"", "a", "n", "name", "a b", "k~"}))
		}
	case reflect.Int, reflect.Int8, reflect.Int16, reflect.Int32, reflect.Int64:
		v.SetInt(int64(g.rng.Intn(3)))
	case reflect.Uint, reflect.Uint8, reflect.Uint16, reflect.Uint32, reflect.Uint64:
		v.SetUint(uint64(g.rng.Intn(3)))
	case reflect.Float32, reflect.Float64:
		v.SetFloat(float64(g.rng.Intn(3)) + 0.5)
	}
}

// ---------------------------------------------------------------------------------------------------
// Gen
// ---------------------------------------------------------------------------------------------------

// c11CountCallbacks runs the real walker with a never-acting visitor and returns the number of callbacks.
func c11CountCallbacks(root any, mode string) int {
	_, vis := c11RunWalk(root, c11NeverScript(mode), false)
	return vis.n
}

// c11PickScripts chooses the scripts of one case knowing the callback counts of both walkers.
func c11PickScripts(rng *Rng, root any, extra int, thorough bool, stats *Stats) string {
	scripts := []c11Script{c11NeverScript("st"), c11NeverScript("se")}
	counts := map[string]int{"st": c11CountCallbacks(root, "st"), "se": c11CountCallbacks(root, "se")}
	for i := 0; i < extra; i++ {
		mode := Pick(rng, []string{"st", "se"})
		act := Pick(rng, []byte{'c', 'd', 'e'})
		if n := counts[mode]; n > 0 {
			sc, _ := c11MkScript(mode, strconv.Itoa(1+rng.Intn(n)), act)
			scripts = append(scripts, sc)
		}
	}
	// consume schedules: Consume in Exit / Visit / Enter+Exit of the same node, at every kind of node position
	for _, mode := range []string{"st", "se"} {
		n := counts[mode]
		scripts = append(scripts, c11ScheduleScripts(rng, mode, n, 3, n <= 40 && (thorough || n <= 16))...)
		scripts = append(scripts, c11SeqScripts(rng, mode, n)...)
	}
	if thorough {
		exhaustive := false
		for _, mode := range []string{"st", "se"} {
			if n := counts[mode]; n > 0 && n <= 24 {
				exhaustive = true
				for k := 1; k <= n; k++ {
					for _, act := range []byte{'c', 'd', 'e'} {
						sc, _ := c11MkScript(mode, strconv.Itoa(k), act)
						scripts = append(scripts, sc)
					}
				}
			}
		}
		if exhaustive {
			stats.Inc("exhaustive_cases")
		}
	}
	parts := make([]string, len(scripts))
	for i, s := range scripts {
		parts[i] = s.String()
	}
	stats.Add("scripts", int64(len(scripts)))
	return strings.Join(parts, ",")
}

func (c11Suite) Gen(rng *Rng, tier string, w *bufio.Writer, stats *Stats) {
	per, extra, thorough := 4, 4, tier == "thorough"
	if thorough {
		per, extra = 40, 16
	}
	n := 0
	emit := func(tag, line string) {
		n++
		fmt.Fprintf(w, "# case %d %s\n%s\n", n, tag, line)
	}
	emit("types", "types")
	idx := 0
	for _, t := range c11RegTypes {
		for s := 0; s < per; s++ {
			// depth cycles 1..4; one case in every block of four is nilish, at a depth that rotates per block
			depth := 1 + idx%4
			nilish := (idx/4+idx)%4 == 3
			idx++
			seed := rng.Next() & 0xFFFFFFFF
			root := c11BuildValue(t, seed, depth, nilish)
			scripts := c11PickScripts(rng, root, extra, thorough, stats)
			nl := 0
			if nilish {
				nl = 1
			}
			emit("v:"+t.String(), fmt.Sprintf("v %s %s %d %d %d", scripts, t.String(), seed, depth, nl))
			stats.Inc("values")
		}
	}
	nq := 0
	for _, c := range LoadCypherCorpus() {
		scripts := "st:0:n,se:0:n"
		if model, err := frontend.ParseCypher(frontend.NewContext(), c.Query); err == nil && model != nil {
			scripts = c11PickScripts(rng, model, extra, thorough, stats)
		} else {
			stats.Add("scripts", 2)
		}
		emit("q:"+c.Source, fmt.Sprintf("q %s %s", scripts, jsonQuote(c.Query)))
		stats.Inc("queries")
		nq++
		if nq%3 == 0 || thorough {
			// the same query with every expression list drained through the model's own Remove
			dscripts := "st:0:n,se:0:n"
			if model, err := frontend.ParseCypher(frontend.NewContext(), c.Query); err == nil && model != nil {
				if c11Drain(model) == 0 {
					continue
				}
				dscripts = c11PickScripts(rng, model, extra, thorough, stats)
			} else {
				continue
			}
			emit("qd:"+c.Source, fmt.Sprintf("qd %s %s", dscripts, jsonQuote(c.Query)))
			stats.Inc("queries_drained")
		}
	}
}

// c11Drain empties every list of the model that offers Len/Get/Remove (the expressionList embedders) through that
// API, as a rewriter hoisting predicates would: the lists end up empty but still own their backing arrays.
func c11Drain(root any) (drained int) {
	seen := map[uintptr]bool{}
	var walkv func(v reflect.Value)
	walkv = func(v reflect.Value) {
		if !v.IsValid() {
			return
		}
		switch v.Kind() {
		case reflect.Interface:
			if !v.IsNil() && c11IfaceClass(v.Type()) == c11IfNode {
				walkv(v.Elem())
			}
		case reflect.Pointer:
			if v.IsNil() || seen[v.Pointer()] {
				return
			}
			seen[v.Pointer()] = true
			if v.Type().Elem().Kind() == reflect.Struct {
				for _, f := range c11Fields(v.Elem(), true, nil) {
					walkv(f.v)
				}
				if l, ok := v.Interface().(interface {
					Len() int
					Get(int) cypher.Expression
					Remove(cypher.Expression) bool
				}); ok && l.Len() > 0 {
					func() {
						defer func() { _ = recover() }() // Remove compares with ==: uncomparable dynamic types panic
						for l.Len() > 0 && l.Remove(l.Get(0)) {
						}
					}()
					if l.Len() == 0 {
						drained++
					}
				}
				return
			}
			walkv(v.Elem())
		case reflect.Slice:
			for i := 0; i < v.Len(); i++ {
				walkv(v.Index(i))
			}
		case reflect.Map:
			for _, k := range c11SortedKeys(v) {
				walkv(v.MapIndex(k))
			}
		}
	}
	walkv(reflect.ValueOf(root))
	return drained
}

// ---------------------------------------------------------------------------------------------------
// Runner
// ---------------------------------------------------------------------------------------------------

type c11Runner struct{ stats *Stats }

func (c11Suite) NewRunner(stats *Stats) Runner { return &c11Runner{stats: stats} }

func (r *c11Runner) Step(t []string, raw string) string {
	switch {
	case len(t) == 1 && t[0] == "types":
		names := make([]string, 0, len(c11RegTypes))
		for _, rt := range c11RegTypes {
			names = append(names, rt.String())
		}
		sort.Strings(names)
		return "types " + strings.Join(names, ",")

	case len(t) == 6 && t[0] == "v":
		scripts, ok := c11ParseScripts(t[1])
		rt, known := c11RegByName[t[2]]
		seed, err1 := strconv.ParseUint(t[3], 10, 64)
		depth, err2 := strconv.Atoi(t[4])
		if !ok || !known || err1 != nil || err2 != nil || (t[5] != "0" && t[5] != "1") {
			return "bad-op"
		}
		nilish := t[5] == "1"
		return r.answer(c11BuildValue(rt, seed, depth, nilish), scripts, nilish)

	case len(t) >= 3 && (t[0] == "q" || t[0] == "qd"):
		scripts, ok := c11ParseScripts(t[1])
		rest := strings.TrimSpace(strings.TrimPrefix(strings.TrimSpace(raw), t[0]))
		rest = strings.TrimSpace(strings.TrimPrefix(rest, t[1]))
		text, okq := jsonUnquote(rest)
		if !ok || !okq {
			return "bad-op"
		}
		model, err := frontend.ParseCypher(frontend.NewContext(), text)
		if err != nil || model == nil {
			r.stats.Inc("parse.error")
			return "parse-error"
		}
		if t[0] == "qd" {
			r.stats.Add("values.drained_lists", int64(c11Drain(model)))
		}
		return r.answer(model, scripts, false)
	}
	return "bad-op"
}

// answer: render, scan, walks (all read-only, on the original), then the copy part (which mutates).
func (r *c11Runner) answer(root any, scripts []c11Script, nilish bool) string {
	st := r.stats
	st.Inc("type." + fmt.Sprintf("%T", root))
	sexp := c11RenderForModel(root)
	scan := c11ScanOf(root)
	var b strings.Builder

	var walks strings.Builder
	for _, sc := range scripts {
		if sc.next != nil {
			res, log, _ := c11RunSeq(root, sc)
			st.Inc("walk.seq")
			fmt.Fprintf(&walks, " | W %s %s %s", sc.String(), res, log)
			continue
		}
		res, vis := c11RunWalk(root, sc, true)
		st.Inc("walk." + res)
		if vis.fired {
			for _, c := range []struct {
				b byte
				n string
			}{{'c', "walk.consume_fired"}, {'d', "walk.done_fired"}, {'e', "walk.error_fired"}, {'z', "walk.nil_error_fired"}} {
				if strings.IndexByte(sc.acts, c.b) >= 0 {
					st.Inc(c.n)
				}
			}
		}
		log := "-"
		if len(vis.log) > 0 {
			log = strings.Join(vis.log, ",")
		}
		fmt.Fprintf(&walks, " | W %s %s %s", sc.String(), res, log)
	}

	cp := c11CopyResult{equal: "-", indep: "-", culprit: "-"}
	if nilish {
		st.Inc("values.nilish") // several copy() methods dereference nil receivers: Copy is out of scope here
	} else {
		cp = c11CopyPart(root, c11RealCopy)
		switch cp.equal {
		case "1":
			st.Inc("copy.equal")
		case "0":
			st.Inc("copy.not_equal")
		default:
			st.Inc("copy.panic")
		}
		switch cp.indep {
		case "1":
			st.Inc("copy.indep_ok")
		case "0":
			st.Inc("copy.indep_broken")
		}
		if len(cp.shared) > 0 {
			st.Inc("copy.shared_nonempty")
		}
	}
	opaque := make([]string, 0, len(scan.opaque))
	for o := range scan.opaque {
		opaque = append(opaque, o)
	}
	sort.Strings(opaque)
	if len(opaque) > 0 {
		st.Inc("copy.opaque_ref_payload")
	}
	dag, nl := 0, 0
	if scan.dag {
		dag = 1
		st.Inc("values.dag")
	}
	if scan.errs {
		st.Inc("values.with_errors")
	}
	if nilish {
		nl = 1
	}
	wt := 1
	if scan.ill {
		wt = 0
		st.Inc("values.not_welltyped")
	} else {
		st.Inc("values.welltyped")
	}
	fmt.Fprintf(&b, "ok equal=%s shared=[%s] indep=%s culprit=%s opaque=[%s] dag=%d nodes=%d nilish=%d welltyped=%d",
		cp.equal, strings.Join(cp.shared, ","), cp.indep, cp.culprit, strings.Join(opaque, ","), dag, scan.nodes, nl, wt)
	b.WriteString(walks.String())
	b.WriteString(" | sexp=")
	b.WriteString(sexp)
	return b.String()
}
