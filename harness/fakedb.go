package main

// fakedb.go — an in-memory fake of graph.Database for the retriever suites (C18, C19, C20).
//
// It implements exactly the calls retriever.Dump / Load / Verify make:
//
//	ReadTransaction → tx.WithGraph(g) → tx.Nodes()/Relationships() → OrderBy(id) / Filter(id > $p) / Limit(n) → Fetch | Count
//	BatchOperation  → batch.WithGraph(g) → (graph.NodeBatchCreator).CreateNodes | CreateRelationshipByIDs
//	AssertSchema
//
// The keyset criteria are interpreted by walking the cypher model AST the query builders produce
// (query.NodeID(), query.GreaterThan(...)). Anything outside that small vocabulary yields an explicit
// "fakedb: unsupported ..." error, never a silent default.
//
// Properties of the fake that the checks rely on:
//   - ids assigned on create are deterministic and DIFFERENT from any source id (base + k*stride), so the
//     loader's sourceId ↦ newId map is exercised;
//   - a query without OrderBy returns entities in REVERSE id order (a real database promises no order),
//     so a dropped OrderBy is visible;
//   - every write is recorded in order in Log (mutation log);
//   - the k-th Fetch can be made to fail, either before delivering anything or after m records
//     (cursor error);
//   - several named graphs; node ids are global, relationship endpoints must exist in the same graph.

import (
	"context"
	"errors"
	"fmt"
	"sort"
	"strings"

	"github.com/specterops/dawgs/cypher/models/cypher"
	"github.com/specterops/dawgs/graph"
	"github.com/specterops/dawgs/util/size"
)

type FakeNode struct {
	ID    uint64
	Kinds []string
	Props map[string]any // nil = node without a property object
}

type FakeEdge struct {
	ID, Start, End uint64
	Kind           string
	NilKind        bool // relationship.Kind == nil
	Props          map[string]any
}

type FakeGraph struct {
	Name  string
	Nodes []*FakeNode // insertion order
	Edges []*FakeEdge
}

var errFakeInjected = errors.New("fakedb: injected read failure")

type FakeDB struct {
	graphs map[string]*FakeGraph
	order  []string

	NodeIDBase, NodeIDStride   uint64
	EdgeIDBase, EdgeIDStride   uint64
	createdNodes, createdEdges uint64

	// mutation log: every write in order
	Log []string

	// read-fault injection: the FailFetchAt-th Fetch (1-based, counted over node and relationship
	// fetches) fails; FailAfter < 0 → Fetch itself returns the error, otherwise FailAfter records are
	// delivered and the cursor then reports the error.
	Fetches     int
	FailFetchAt int
	FailAfter   int
	// OnFetch, if set, is called at the start of every Fetch with the running fetch number (used to
	// mutate the source in the middle of a dump).
	OnFetch func(n int)
	// Counts of reads, for coverage
	CountCalls int
	Schemas    []string
}

func NewFakeDB() *FakeDB {
	return &FakeDB{graphs: map[string]*FakeGraph{}, NodeIDBase: 1000, NodeIDStride: 3, EdgeIDBase: 5000, EdgeIDStride: 2, FailAfter: -1}
}

func (s *FakeDB) Graph(name string) *FakeGraph {
	g, ok := s.graphs[name]
	if !ok {
		g = &FakeGraph{Name: name}
		s.graphs[name] = g
		s.order = append(s.order, name)
	}
	return g
}

func (s *FakeDB) GraphNames() []string { return append([]string(nil), s.order...) }

func (s *FakeDB) HasGraph(name string) bool { _, ok := s.graphs[name]; return ok }

// AddNode / AddEdge populate a source database directly with explicit ids (not logged).
func (s *FakeDB) AddNode(g string, id uint64, kinds []string, props map[string]any) {
	gr := s.Graph(g)
	gr.Nodes = append(gr.Nodes, &FakeNode{ID: id, Kinds: append([]string(nil), kinds...), Props: props})
}

func (s *FakeDB) AddEdge(g string, id, start, end uint64, kind string, props map[string]any) {
	gr := s.Graph(g)
	gr.Edges = append(gr.Edges, &FakeEdge{ID: id, Start: start, End: end, Kind: kind, Props: props})
}

func (g *FakeGraph) node(id uint64) *FakeNode {
	for _, n := range g.Nodes {
		if n.ID == id {
			return n
		}
	}
	return nil
}

func (s *FakeDB) logf(format string, a ...any) { s.Log = append(s.Log, fmt.Sprintf(format, a...)) }

// ---------------------------------------------------------------- graph.Database

func (s *FakeDB) SetWriteFlushSize(int) {}
func (s *FakeDB) SetBatchWriteSize(int) {}

func (s *FakeDB) ReadTransaction(ctx context.Context, d graph.TransactionDelegate, _ ...graph.TransactionOption) error {
	if err := ctx.Err(); err != nil {
		return err
	}
	return d(&fakeTx{db: s, ctx: ctx})
}

func (s *FakeDB) WriteTransaction(ctx context.Context, d graph.TransactionDelegate, _ ...graph.TransactionOption) error {
	return errors.New("fakedb: unsupported WriteTransaction")
}

func (s *FakeDB) BatchOperation(ctx context.Context, d graph.BatchDelegate, opts ...graph.BatchOption) error {
	if err := ctx.Err(); err != nil {
		return err
	}
	cfg := graph.BatchConfig{}
	for _, o := range opts {
		o(&cfg)
	}
	s.logf("batch-begin size=%d", cfg.BatchSize)
	err := d(&fakeBatch{db: s})
	if err != nil {
		s.logf("batch-abort")
		return err
	}
	s.logf("batch-commit")
	return nil
}

func (s *FakeDB) AssertSchema(_ context.Context, schema graph.Schema) error {
	for _, g := range schema.Graphs {
		nk := g.Nodes.Strings()
		ek := g.Edges.Strings()
		s.Graph(g.Name)
		line := fmt.Sprintf("%s nodes=%s edges=%s", g.Name, strings.Join(nk, ","), strings.Join(ek, ","))
		s.Schemas = append(s.Schemas, line)
		s.logf("assert-schema %s", line)
	}
	return nil
}

func (s *FakeDB) SetDefaultGraph(context.Context, graph.Graph) error {
	return errors.New("fakedb: unsupported SetDefaultGraph")
}
func (s *FakeDB) Run(context.Context, string, map[string]any) error {
	return errors.New("fakedb: unsupported Run")
}
func (s *FakeDB) Close(context.Context) error { return nil }
func (s *FakeDB) FetchKinds(context.Context) (graph.Kinds, error) {
	set := map[string]struct{}{}
	for _, g := range s.graphs {
		for _, n := range g.Nodes {
			for _, k := range n.Kinds {
				set[k] = struct{}{}
			}
		}
		for _, e := range g.Edges {
			if !e.NilKind {
				set[e.Kind] = struct{}{}
			}
		}
	}
	names := make([]string, 0, len(set))
	for k := range set {
		names = append(names, k)
	}
	sort.Strings(names)
	return graph.StringsToKinds(names), nil
}
func (s *FakeDB) RefreshKinds(context.Context) error    { return nil }
func (s *FakeDB) OptimizeStorage(context.Context) error { return nil }

// ---------------------------------------------------------------- transaction

type fakeTx struct {
	db    *FakeDB
	ctx   context.Context
	graph string
	has   bool
}

func (t *fakeTx) target() (*FakeGraph, error) {
	if !t.has {
		return nil, errors.New("fakedb: unsupported read without WithGraph scope")
	}
	if g, ok := t.db.graphs[t.graph]; ok {
		return g, nil
	}
	return &FakeGraph{Name: t.graph}, nil
}

func (t *fakeTx) WithGraph(g graph.Graph) graph.Transaction {
	return &fakeTx{db: t.db, ctx: t.ctx, graph: g.Name, has: true}
}
func (t *fakeTx) CreateNode(*graph.Properties, ...graph.Kind) (*graph.Node, error) {
	return nil, errors.New("fakedb: unsupported tx.CreateNode")
}
func (t *fakeTx) UpdateNode(*graph.Node) error {
	return errors.New("fakedb: unsupported tx.UpdateNode")
}
func (t *fakeTx) Nodes() graph.NodeQuery { return &fakeNodeQuery{q: fakeQuery{tx: t, sym: "n"}} }
func (t *fakeTx) CreateRelationshipByIDs(graph.ID, graph.ID, graph.Kind, *graph.Properties) (*graph.Relationship, error) {
	return nil, errors.New("fakedb: unsupported tx.CreateRelationshipByIDs")
}
func (t *fakeTx) UpdateRelationship(*graph.Relationship) error {
	return errors.New("fakedb: unsupported tx.UpdateRelationship")
}
func (t *fakeTx) Relationships() graph.RelationshipQuery {
	return &fakeRelQuery{q: fakeQuery{tx: t, sym: "r"}}
}
func (t *fakeTx) Raw(string, map[string]any) graph.Result {
	return graph.NewErrorResult(errors.New("fakedb: unsupported tx.Raw"))
}
func (t *fakeTx) Query(string, map[string]any) graph.Result {
	return graph.NewErrorResult(errors.New("fakedb: unsupported tx.Query"))
}
func (t *fakeTx) Commit() error                    { return nil }
func (t *fakeTx) GraphQueryMemoryLimit() size.Size { return 0 }

// ---------------------------------------------------------------- criteria interpretation

type idCond struct {
	op  cypher.Operator
	val uint64
}

// fakeQuery is the shared state of node and relationship queries: id conditions (conjunction), order
// and limit. The first unsupported construct is remembered and reported by the terminal call.
type fakeQuery struct {
	tx      *fakeTx
	sym     string // "n" for nodes, "r" for relationships
	conds   []idCond
	ordered bool
	desc    bool
	limit   int
	hasLim  bool
	err     error
}

func (q *fakeQuery) fail(err error) {
	if q.err == nil {
		q.err = err
	}
}

func isIDOf(e any, sym string) bool {
	fn, ok := e.(*cypher.FunctionInvocation)
	if !ok || fn == nil || fn.Name != "id" || len(fn.Arguments) != 1 || fn.Distinct || len(fn.Namespace) != 0 {
		return false
	}
	v, ok := fn.Arguments[0].(*cypher.Variable)
	return ok && v != nil && v.Symbol == sym
}

func asUint64(v any) (uint64, bool) {
	switch x := v.(type) {
	case graph.ID:
		return uint64(x), true
	case uint64:
		return x, true
	case uint32:
		return uint64(x), true
	case int64:
		return uint64(x), x >= 0
	case int:
		return uint64(x), x >= 0
	case *cypher.Parameter:
		if x == nil {
			return 0, false
		}
		return asUint64(x.Value)
	case *cypher.Literal:
		if x == nil {
			return 0, false
		}
		return asUint64(x.Value)
	}
	return 0, false
}

func (q *fakeQuery) addFilter(c graph.Criteria) {
	cmp, ok := c.(*cypher.Comparison)
	if !ok || cmp == nil {
		q.fail(fmt.Errorf("fakedb: unsupported criteria %T", c))
		return
	}
	if !isIDOf(cmp.Left, q.sym) {
		q.fail(fmt.Errorf("fakedb: unsupported criteria: comparison left operand %T is not id(%s)", cmp.Left, q.sym))
		return
	}
	for _, p := range cmp.Partials {
		switch p.Operator {
		case cypher.OperatorGreaterThan, cypher.OperatorGreaterThanOrEqualTo, cypher.OperatorLessThan, cypher.OperatorLessThanOrEqualTo, cypher.OperatorEquals:
		default:
			q.fail(fmt.Errorf("fakedb: unsupported criteria: operator %q", p.Operator))
			return
		}
		v, ok := asUint64(p.Right)
		if !ok {
			q.fail(fmt.Errorf("fakedb: unsupported criteria: right operand %T", p.Right))
			return
		}
		q.conds = append(q.conds, idCond{op: p.Operator, val: v})
	}
}

func (q *fakeQuery) addOrder(cs []graph.Criteria) {
	if len(cs) != 1 {
		q.fail(fmt.Errorf("fakedb: unsupported order by with %d items", len(cs)))
		return
	}
	switch o := cs[0].(type) {
	case *cypher.FunctionInvocation:
		if !isIDOf(o, q.sym) {
			q.fail(fmt.Errorf("fakedb: unsupported order by expression"))
			return
		}
		q.ordered, q.desc = true, false
	case *cypher.SortItem:
		if o == nil || !isIDOf(o.Expression, q.sym) {
			q.fail(fmt.Errorf("fakedb: unsupported order by expression"))
			return
		}
		q.ordered, q.desc = true, !o.Ascending
	default:
		q.fail(fmt.Errorf("fakedb: unsupported order by criteria %T", cs[0]))
	}
}

func (q *fakeQuery) match(id uint64) bool {
	for _, c := range q.conds {
		switch c.op {
		case cypher.OperatorGreaterThan:
			if !(id > c.val) {
				return false
			}
		case cypher.OperatorGreaterThanOrEqualTo:
			if !(id >= c.val) {
				return false
			}
		case cypher.OperatorLessThan:
			if !(id < c.val) {
				return false
			}
		case cypher.OperatorLessThanOrEqualTo:
			if !(id <= c.val) {
				return false
			}
		case cypher.OperatorEquals:
			if id != c.val {
				return false
			}
		}
	}
	return true
}

// selectIDs returns the positions (into ids) selected by the query, in result order.
func (q *fakeQuery) selectIdx(ids []uint64) []int {
	idx := make([]int, 0, len(ids))
	for i, id := range ids {
		if q.match(id) {
			idx = append(idx, i)
		}
	}
	if q.ordered && !q.desc {
		sort.SliceStable(idx, func(a, b int) bool { return ids[idx[a]] < ids[idx[b]] })
	} else {
		// explicit descending order, or no ORDER BY at all: a database promises nothing without
		// ORDER BY, the fake deliberately answers in reverse id order
		sort.SliceStable(idx, func(a, b int) bool { return ids[idx[a]] > ids[idx[b]] })
	}
	if q.hasLim && len(idx) > q.limit {
		idx = idx[:q.limit]
	}
	return idx
}

// beginFetch counts the fetch and reports the injected fault mode: (failNow, failAfter≥0 or -1).
func (q *fakeQuery) beginFetch() (bool, int) {
	db := q.tx.db
	db.Fetches++
	if db.OnFetch != nil {
		db.OnFetch(db.Fetches)
	}
	if db.FailFetchAt != 0 && db.Fetches == db.FailFetchAt {
		if db.FailAfter < 0 {
			return true, -1
		}
		return false, db.FailAfter
	}
	return false, -1
}

type fakeCursor[T any] struct {
	c   chan T
	err error
}

func newFakeCursor[T any](values []T, err error) *fakeCursor[T] {
	c := make(chan T, len(values))
	for _, v := range values {
		c <- v
	}
	close(c)
	return &fakeCursor[T]{c: c, err: err}
}
func (s *fakeCursor[T]) Error() error { return s.err }
func (s *fakeCursor[T]) Close()       {}
func (s *fakeCursor[T]) Chan() chan T { return s.c }

func copyProps(m map[string]any) *graph.Properties {
	if m == nil {
		return nil
	}
	return graph.AsProperties(m)
}

// ---------------------------------------------------------------- node query

type fakeNodeQuery struct{ q fakeQuery }

func (s *fakeNodeQuery) Filter(c graph.Criteria) graph.NodeQuery { s.q.addFilter(c); return s }
func (s *fakeNodeQuery) Filterf(d graph.CriteriaProvider) graph.NodeQuery {
	s.q.addFilter(d())
	return s
}
func (s *fakeNodeQuery) Query(func(graph.Result) error, ...graph.Criteria) error {
	return errors.New("fakedb: unsupported NodeQuery.Query")
}
func (s *fakeNodeQuery) Delete() error { return errors.New("fakedb: unsupported NodeQuery.Delete") }
func (s *fakeNodeQuery) Update(*graph.Properties) error {
	return errors.New("fakedb: unsupported NodeQuery.Update")
}
func (s *fakeNodeQuery) OrderBy(c ...graph.Criteria) graph.NodeQuery { s.q.addOrder(c); return s }
func (s *fakeNodeQuery) Offset(int) graph.NodeQuery {
	s.q.fail(errors.New("fakedb: unsupported Offset"))
	return s
}
func (s *fakeNodeQuery) Limit(n int) graph.NodeQuery { s.q.limit, s.q.hasLim = n, true; return s }
func (s *fakeNodeQuery) Count() (int64, error) {
	if s.q.err != nil {
		return 0, s.q.err
	}
	g, err := s.q.tx.target()
	if err != nil {
		return 0, err
	}
	s.q.tx.db.CountCalls++
	var n int64
	for _, node := range g.Nodes {
		if s.q.match(node.ID) {
			n++
		}
	}
	return n, nil
}
func (s *fakeNodeQuery) First() (*graph.Node, error) {
	return nil, errors.New("fakedb: unsupported NodeQuery.First")
}
func (s *fakeNodeQuery) Fetch(d func(graph.Cursor[*graph.Node]) error, final ...graph.Criteria) error {
	if len(final) != 0 {
		return errors.New("fakedb: unsupported final criteria")
	}
	if s.q.err != nil {
		return s.q.err
	}
	g, err := s.q.tx.target()
	if err != nil {
		return err
	}
	failNow, failAfter := s.q.beginFetch()
	if failNow {
		return errFakeInjected
	}
	ids := make([]uint64, len(g.Nodes))
	for i, n := range g.Nodes {
		ids[i] = n.ID
	}
	var out []*graph.Node
	var cerr error
	for k, i := range s.q.selectIdx(ids) {
		if failAfter >= 0 && k >= failAfter {
			break
		}
		n := g.Nodes[i]
		out = append(out, graph.NewNode(graph.ID(n.ID), copyProps(n.Props), graph.StringsToKinds(n.Kinds)...))
	}
	if failAfter >= 0 {
		cerr = errFakeInjected
	}
	return d(newFakeCursor(out, cerr))
}
func (s *fakeNodeQuery) FetchIDs(func(graph.Cursor[graph.ID]) error) error {
	return errors.New("fakedb: unsupported NodeQuery.FetchIDs")
}
func (s *fakeNodeQuery) FetchKinds(func(graph.Cursor[graph.KindsResult]) error) error {
	return errors.New("fakedb: unsupported NodeQuery.FetchKinds")
}

// ---------------------------------------------------------------- relationship query

type fakeRelQuery struct{ q fakeQuery }

func (s *fakeRelQuery) Filter(c graph.Criteria) graph.RelationshipQuery { s.q.addFilter(c); return s }
func (s *fakeRelQuery) Filterf(d graph.CriteriaProvider) graph.RelationshipQuery {
	s.q.addFilter(d())
	return s
}
func (s *fakeRelQuery) Update(*graph.Properties) error {
	return errors.New("fakedb: unsupported RelationshipQuery.Update")
}
func (s *fakeRelQuery) Delete() error {
	return errors.New("fakedb: unsupported RelationshipQuery.Delete")
}
func (s *fakeRelQuery) OrderBy(c ...graph.Criteria) graph.RelationshipQuery {
	s.q.addOrder(c)
	return s
}
func (s *fakeRelQuery) Offset(int) graph.RelationshipQuery {
	s.q.fail(errors.New("fakedb: unsupported Offset"))
	return s
}
func (s *fakeRelQuery) Limit(n int) graph.RelationshipQuery {
	s.q.limit, s.q.hasLim = n, true
	return s
}
func (s *fakeRelQuery) Count() (int64, error) {
	if s.q.err != nil {
		return 0, s.q.err
	}
	g, err := s.q.tx.target()
	if err != nil {
		return 0, err
	}
	s.q.tx.db.CountCalls++
	var n int64
	for _, e := range g.Edges {
		if s.q.match(e.ID) {
			n++
		}
	}
	return n, nil
}
func (s *fakeRelQuery) First() (*graph.Relationship, error) {
	return nil, errors.New("fakedb: unsupported RelationshipQuery.First")
}
func (s *fakeRelQuery) Query(func(graph.Result) error, ...graph.Criteria) error {
	return errors.New("fakedb: unsupported RelationshipQuery.Query")
}
func (s *fakeRelQuery) Fetch(d func(graph.Cursor[*graph.Relationship]) error) error {
	if s.q.err != nil {
		return s.q.err
	}
	g, err := s.q.tx.target()
	if err != nil {
		return err
	}
	failNow, failAfter := s.q.beginFetch()
	if failNow {
		return errFakeInjected
	}
	ids := make([]uint64, len(g.Edges))
	for i, e := range g.Edges {
		ids[i] = e.ID
	}
	var out []*graph.Relationship
	var cerr error
	for k, i := range s.q.selectIdx(ids) {
		if failAfter >= 0 && k >= failAfter {
			break
		}
		e := g.Edges[i]
		var kind graph.Kind
		if !e.NilKind {
			kind = graph.StringKind(e.Kind)
		}
		out = append(out, graph.NewRelationship(graph.ID(e.ID), graph.ID(e.Start), graph.ID(e.End), copyProps(e.Props), kind))
	}
	if failAfter >= 0 {
		cerr = errFakeInjected
	}
	return d(newFakeCursor(out, cerr))
}
func (s *fakeRelQuery) FetchDirection(graph.Direction, func(graph.Cursor[graph.DirectionalResult]) error) error {
	return errors.New("fakedb: unsupported RelationshipQuery.FetchDirection")
}
func (s *fakeRelQuery) FetchIDs(func(graph.Cursor[graph.ID]) error) error {
	return errors.New("fakedb: unsupported RelationshipQuery.FetchIDs")
}
func (s *fakeRelQuery) FetchTriples(func(graph.Cursor[graph.RelationshipTripleResult]) error) error {
	return errors.New("fakedb: unsupported RelationshipQuery.FetchTriples")
}
func (s *fakeRelQuery) FetchAllShortestPaths(func(graph.Cursor[graph.Path]) error) error {
	return errors.New("fakedb: unsupported RelationshipQuery.FetchAllShortestPaths")
}
func (s *fakeRelQuery) FetchKinds(func(graph.Cursor[graph.RelationshipKindsResult]) error) error {
	return errors.New("fakedb: unsupported RelationshipQuery.FetchKinds")
}

// ---------------------------------------------------------------- batch

type fakeBatch struct {
	db    *FakeDB
	graph string
	has   bool
}

func (b *fakeBatch) target() (*FakeGraph, error) {
	if !b.has {
		return nil, errors.New("fakedb: unsupported write without WithGraph scope")
	}
	return b.db.Graph(b.graph), nil
}

func (b *fakeBatch) WithGraph(g graph.Graph) graph.Batch {
	return &fakeBatch{db: b.db, graph: g.Name, has: true}
}
func (b *fakeBatch) CreateNode(*graph.Node) error {
	return errors.New("fakedb: unsupported batch.CreateNode")
}
func (b *fakeBatch) DeleteNode(graph.ID) error {
	return errors.New("fakedb: unsupported batch.DeleteNode")
}
func (b *fakeBatch) Nodes() graph.NodeQuery {
	q := &fakeNodeQuery{}
	q.q.fail(errors.New("fakedb: unsupported batch.Nodes"))
	return q
}
func (b *fakeBatch) Relationships() graph.RelationshipQuery {
	q := &fakeRelQuery{}
	q.q.fail(errors.New("fakedb: unsupported batch.Relationships"))
	return q
}
func (b *fakeBatch) UpdateNodeBy(graph.NodeUpdate) error {
	return errors.New("fakedb: unsupported batch.UpdateNodeBy")
}
func (b *fakeBatch) UpdateNodes([]*graph.Node) error {
	return errors.New("fakedb: unsupported batch.UpdateNodes")
}
func (b *fakeBatch) CreateRelationship(*graph.Relationship) error {
	return errors.New("fakedb: unsupported batch.CreateRelationship")
}
func (b *fakeBatch) DeleteRelationship(graph.ID) error {
	return errors.New("fakedb: unsupported batch.DeleteRelationship")
}
func (b *fakeBatch) UpdateRelationshipBy(graph.RelationshipUpdate) error {
	return errors.New("fakedb: unsupported batch.UpdateRelationshipBy")
}
func (b *fakeBatch) Commit() error { return nil }

// CreateNodes implements graph.NodeBatchCreator: ids are returned in input order.
func (b *fakeBatch) CreateNodes(nodes []*graph.Node) ([]graph.ID, error) {
	g, err := b.target()
	if err != nil {
		return nil, err
	}
	ids := make([]graph.ID, len(nodes))
	for i, n := range nodes {
		id := b.db.NodeIDBase + b.db.createdNodes*b.db.NodeIDStride
		b.db.createdNodes++
		var props map[string]any
		if n.Properties != nil {
			props = n.Properties.Map
		}
		g.Nodes = append(g.Nodes, &FakeNode{ID: id, Kinds: n.Kinds.Strings(), Props: props})
		ids[i] = graph.ID(id)
		b.db.logf("create-node graph=%s id=%d", g.Name, id)
	}
	return ids, nil
}

func (b *fakeBatch) CreateRelationshipByIDs(start, end graph.ID, kind graph.Kind, props *graph.Properties) error {
	g, err := b.target()
	if err != nil {
		return err
	}
	if g.node(uint64(start)) == nil {
		return fmt.Errorf("fakedb: start node %d does not exist in graph %q", start, g.Name)
	}
	if g.node(uint64(end)) == nil {
		return fmt.Errorf("fakedb: end node %d does not exist in graph %q", end, g.Name)
	}
	id := b.db.EdgeIDBase + b.db.createdEdges*b.db.EdgeIDStride
	b.db.createdEdges++
	e := &FakeEdge{ID: id, Start: uint64(start), End: uint64(end)}
	if kind == nil {
		e.NilKind = true
	} else {
		e.Kind = kind.String()
	}
	if props != nil {
		e.Props = props.Map
	}
	g.Edges = append(g.Edges, e)
	b.db.logf("create-edge graph=%s id=%d %d->%d", g.Name, id, start, end)
	return nil
}

var (
	_ graph.Database          = (*FakeDB)(nil)
	_ graph.Transaction       = (*fakeTx)(nil)
	_ graph.Batch             = (*fakeBatch)(nil)
	_ graph.NodeBatchCreator  = (*fakeBatch)(nil)
	_ graph.NodeQuery         = (*fakeNodeQuery)(nil)
	_ graph.RelationshipQuery = (*fakeRelQuery)(nil)
)
