package main

// Suite `c20path`: differential tie of retriever.sanitizeArchivePath (reached through the exported
// ArchivePathsFromManifest) with the Lean transcription Dawgs.C20.sanitize (Go path.Clean included).
//
//	path <hex of the UTF-8 name>   ->   ok <hex of the cleaned path> | err <empty|backslash|absolute|traversal|invalid>
//	canon <hex>                    ->   canonical | respelled | rejected    (is the name its own sanitised form: raw lookup key = sanitised key)
//	clean <hex>                    ->   <hex of Go's path.Clean>            (the model's pathClean, rooted / `..` cases included)
//	join <hex out> <hex rel>       ->   <hex of filepath.Join(out, filepath.FromSlash(rel))>   (the model's joinOut; out non-empty)

import (
	"bufio"
	"encoding/hex"
	"fmt"
	"path"
	"path/filepath"
	"strings"
	"unicode/utf8"

	"github.com/specterops/dawgs/retriever"
)

type c20PathSuite struct{}

func init() { register("c20path", c20PathSuite{}) }

func c20Sanitize(name string) string {
	paths, err := retriever.ArchivePathsFromManifest(retriever.Manifest{Graphs: []retriever.GraphManifest{{Files: []retriever.FileManifest{{Path: name}}}}})
	if err != nil {
		m := err.Error()
		switch {
		case strings.Contains(m, "duplicate path"): // cleaned name collides with the implicit manifest.json entry
			return "ok " + hex.EncodeToString([]byte(retriever.ManifestFileName))
		case strings.Contains(m, "is empty"):
			return "err empty"
		case strings.Contains(m, "slash separators"):
			return "err backslash"
		case strings.Contains(m, "must be relative"):
			return "err absolute"
		case strings.Contains(m, "path traversal"):
			return "err traversal"
		case strings.Contains(m, "is invalid"):
			return "err invalid"
		}
		return "err other"
	}
	for _, p := range paths {
		if p != retriever.ManifestFileName {
			return "ok " + hex.EncodeToString([]byte(p))
		}
	}
	return "err other"
}

type c20PathRunner struct{ stats *Stats }

func (c20PathSuite) NewRunner(stats *Stats) Runner { return &c20PathRunner{stats: stats} }

func (r *c20PathRunner) Step(t []string, raw string) string {
	switch {
	case t[0] == "clean" && len(t) <= 2:
		arg := ""
		if len(t) == 2 {
			arg = t[1]
		}
		b, err := hex.DecodeString(arg)
		if err != nil {
			return "bad-op"
		}
		r.stats.Inc("branch.clean")
		return "= " + hex.EncodeToString([]byte(path.Clean(string(b))))
	case t[0] == "canon" && len(t) <= 2:
		// lookup-key agreement: is the name already in the form the sanitiser returns (raw key = sanitised key)?
		arg := ""
		if len(t) == 2 {
			arg = t[1]
		}
		b, err := hex.DecodeString(arg)
		if err != nil {
			return "bad-op"
		}
		ans := c20Sanitize(string(b))
		r.stats.Inc("branch.canon")
		switch {
		case strings.HasPrefix(ans, "err"):
			return "rejected"
		case ans == "ok "+hex.EncodeToString(b):
			return "canonical"
		}
		return "respelled"
	case t[0] == "join" && (len(t) == 2 || len(t) == 3):
		out, err1 := hex.DecodeString(t[1])
		rel := []byte{}
		var err2 error
		if len(t) == 3 {
			rel, err2 = hex.DecodeString(t[2])
		}
		if err1 != nil || err2 != nil || len(out) == 0 {
			return "bad-op"
		}
		r.stats.Inc("branch.join")
		return "= " + hex.EncodeToString([]byte(filepath.Join(string(out), filepath.FromSlash(string(rel)))))
	}
	if len(t) == 1 && t[0] == "path" {
		t = append(t, "")
	}
	if len(t) != 2 || t[0] != "path" {
		return "bad-op"
	}
	b, err := hex.DecodeString(t[1])
	if err != nil {
		return "bad-op"
	}
	ans := c20Sanitize(string(b))
	r.stats.Inc("branch.path." + strings.ReplaceAll(strings.Join(strings.Fields(ans)[:map[bool]int{true: 1, false: 2}[strings.HasPrefix(ans, "ok")]], "."), " ", ""))
	return ans
}

func (c20PathSuite) Gen(rng *Rng, tier string, w *bufio.Writer, stats *Stats) {
	thorough := tier == "thorough"
	emit := func(desc string, names []string) {
		for i := 0; len(names) > 0; i++ {
			n := len(names)
			if n > 500 {
				n = 500
			}
			fmt.Fprintf(w, "# case %s-%d\n# names\n", desc, i)
			for _, name := range names[:n] {
				if !utf8.ValidString(name) {
					stats.Inc("gen.skipped_invalid_utf8")
					continue
				}
				h := hex.EncodeToString([]byte(strings.ReplaceAll(name, "{ROOT}", "/tmp/root")))
				fmt.Fprintf(w, "path %s\n", h)
				fmt.Fprintf(w, "clean %s\n", h)
				fmt.Fprintf(w, "canon %s\n", h)
				if ans := c20Sanitize(strings.ReplaceAll(name, "{ROOT}", "/tmp/root")); strings.HasPrefix(ans, "ok ") {
					// second application: the sanitiser on its own output (it is NOT idempotent: `./ a` -> ` a` -> `a`)
					fmt.Fprintf(w, "path %s\ncanon %s\n", ans[3:], ans[3:])
				}
				fmt.Fprintf(w, "join %s %s\n", hex.EncodeToString([]byte(Pick(rng, []string{"/out", "/", "/tmp/x/../dest/", "rel/out", ".", "..", "//a//b/./"}))), h)
				stats.Inc("gen.path")
			}
			names = names[n:]
		}
	}
	emit("hostile", c20HostileNames(rng, map[bool]int{false: 1500, true: 40000}[thorough]))
	// exhaustive: every string over a small alphabet up to length L (closed formula: sum_{k<=L} |alphabet|^k)
	alphabet := []string{".", "/", "a", " ", "\\", ":", "C"}
	L := 4
	if thorough {
		L = 6
	}
	all := []string{""}
	level := []string{""}
	for k := 1; k <= L; k++ {
		next := make([]string, 0, len(level)*len(alphabet))
		for _, s := range level {
			for _, a := range alphabet {
				next = append(next, s+a)
			}
		}
		all = append(all, next...)
		level = next
	}
	stats.Add("gen.exhaustive_paths", int64(len(all)))
	emit("exhaustive", all)
	// NUL, control and unicode-space bytes in every position of a short template
	var special []string
	for _, c := range []string{"\x00", "\x01", "\x7f", "\t", "\n", "\v", "\f", "\r", "\u0085", "\u00a0", "\u1680", "\u2000", "\u200a", "\u200b", "\u2028", "\u2029", "\u202f", "\u205f", "\u3000", "\ufeff", "\u180e", "\u001c", "\u001f"} {
		for _, tpl := range []string{"%s", "%sa", "a%s", "%s../x", "../x%s", "%s/x", "a/%s/b", "a%sb", "%s..%s", "..%s/x", "%s.", ".%s"} {
			special = append(special, strings.ReplaceAll(tpl, "%s", c))
		}
	}
	emit("special", special)
}
