package main

import (
	"bufio"
	"fmt"
	"reflect"
	"sort"
	"strings"

	"github.com/specterops/dawgs/cypher/frontend"
	"github.com/specterops/dawgs/cypher/models/cypher"
	"github.com/specterops/dawgs/graph"
	"github.com/specterops/dawgs/query"
	qn "github.com/specterops/dawgs/query/neo4j"
)

// suite pmc10 — the parameter map on its way to the server.
//
// A query with pattern-property parameters (`match (n:K $props)…`) and ordinary criteria is assembled through the public
// API (cypher model pattern + query/neo4j.NewQueryBuilder + Apply + Prepare + Render), which yields the text and
// QueryBuilder.Parameters. neo4jTransaction.Query then passes both through rewriteQuery (drivers/neo4j/query_rewrite.go)
// before sending them; that step is unexported and reached through the verif-tagged hook drivers/neo4j/verif_c10.go
// (hooks/C10-hook.patch), looked up by name so that this file builds with and without it (answer `hook-missing`).
//
// op line: pm <term>    term = (PM (pat (el var|none "Kind"|none props) …) (where <criteria term>|none))
//
//	props = absent | nil | empty | (kv "k" <value> …)        the Go value handed to query.Parameter for `$props`
//
// answer (TAB separated): text/params before, text2/params2 after, the `$` symbols of text2, unbound symbols, changed values,
//
//	pats / plains / map as terms for the Lean model of the rewrite.
type c10pmSuite struct{}

func init() { register("pmc10", c10pmSuite{}) }

type rewriteFn = func(string, map[string]any) (string, map[string]any, error)

func c10RewriteHook() rewriteFn {
	f, _ := c12Hook("dawgs.verif.c10.neo4jRewriteQuery").(rewriteFn)
	return f
}

func (c10pmSuite) Gen(rng *Rng, tier string, w *bufio.Writer, stats *Stats) {
	n := 0
	emit := func(tag string, t *sx) {
		n++
		fmt.Fprintf(w, "# case %d %s\npm %s\n", n, tag, t.String())
	}
	props := []*sx{
		a("absent"), a("nil"), a("empty"),
		call("kv", sxStr("name"), call("s", sxStr("beta"))),
		call("kv", sxStr("name"), call("s", sxStr("it's")), sxStr("score"), call("i", a("2")), sxStr("odd key"), call("b", a("true"))),
	}
	wheres := []*sx{
		a("none"),
		call("Cmp", a("Equals"), call("NodeProp", sxStr("name")), call("s", sxStr("x"))),
		call("And", call("Cmp", a("Equals"), call("NodeProp", sxStr("name")), call("s", sxStr("x"))),
			call("Not", call("In", call("NodeProp", sxStr("objectid")), call("strs", sxStr("a"), sxStr("b"))))),
		call("Str", a("StringContains"), call("NodeProp", sxStr("name")), sxStr("adm")),
	}
	// systematic: props of the first node × props of a second element × other parameters present/absent
	for i, p1 := range props {
		for j, p2 := range props {
			for k, wh := range wheres {
				pat := call("pat", call("el", sxStr("n"), sxStr("User"), p1))
				tag := fmt.Sprintf("sys-%d-%d-%d", i, j, k)
				if j > 0 {
					pat = call("pat", call("el", sxStr("n"), sxStr("User"), p1), call("rel", sxStr("r"), sxStr("MemberOf"), a("absent")), call("el", sxStr("m"), a("none"), p2))
				}
				emit(tag, call("PM", pat, call("where", wh)))
				stats.Inc("pm_systematic")
			}
		}
	}
	// relationship properties
	for _, p := range props {
		emit("rel", call("PM", call("pat", call("el", sxStr("n"), a("none"), a("absent")), call("rel", sxStr("r"), sxStr("MemberOf"), p), call("el", sxStr("m"), a("none"), a("absent"))),
			call("where", wheres[1])))
	}
	count := 150
	if tier == "thorough" {
		count = 3000
	}
	g := &c10Gen{rng: rng, stats: stats}
	for i := 0; i < count; i++ {
		g.rel, g.safe, g.kindHeavy = false, false, false
		var kvs []*sx
		switch rng.Intn(5) {
		case 0:
			kvs = nil
		default:
			for k := rng.Intn(4); k >= 0; k-- {
				kvs = append(kvs, sxStr(fmt.Sprintf("%s%d", Pick(rng, c10PropNames), k)), g.value())
			}
		}
		var p *sx
		switch {
		case kvs == nil && rng.Bool():
			p = a("empty")
		case kvs == nil:
			p = a("nil")
		default:
			p = l(append([]*sx{a("kv")}, kvs...)...)
		}
		wh := a("none")
		if rng.Intn(4) > 0 {
			wh = g.criteria(1 + rng.Intn(3))
		}
		emit("rnd", call("PM", call("pat", call("el", sxStr("n"), sxStr(Pick(rng, c10KindNames)), p)), call("where", wh)))
		stats.Inc("pm_random")
	}
}

type c10pmRunner struct{ stats *Stats }

func (c10pmSuite) NewRunner(stats *Stats) Runner { return &c10pmRunner{stats: stats} }

func (r *c10pmRunner) propsValue(b *c10Builder, t *sx) (*cypher.Parameter, string) {
	switch {
	case t.atom == "absent":
		return nil, "absent"
	case t.atom == "nil":
		var m map[string]any
		return query.Parameter(m), "empty" // a nil map is an empty map to the rewriter
	case t.atom == "empty":
		return query.Parameter(map[string]any{}), "empty"
	case t.head() == "kv":
		m := map[string]any{}
		for i := 1; i+1 < len(t.list); i += 2 {
			m[t.list[i].str] = b.value(t.list[i+1])
		}
		return query.Parameter(m), "props"
	}
	panic("harness: bad props " + t.String())
}

func (r *c10pmRunner) Step(t []string, raw string) string {
	if len(t) < 2 || t[0] != "pm" {
		return "bad-op"
	}
	term, err := parseSx(strings.TrimSpace(strings.TrimPrefix(strings.TrimSpace(raw), "pm")))
	if err != nil || term.head() != "PM" {
		return "bad-op"
	}
	b := &c10Builder{}
	part := &cypher.PatternPart{}
	for _, el := range term.list[1].args() {
		v := cypher.NewVariableWithSymbol(el.list[1].str)
		var kinds graph.Kinds
		if el.list[2].isStr {
			kinds = graph.Kinds{graph.StringKind(el.list[2].str)}
		}
		p, _ := r.propsValue(b, el.list[3])
		switch el.head() {
		case "el":
			np := &cypher.NodePattern{Variable: v, Kinds: kinds}
			if p != nil {
				np.Properties = p
			}
			part.AddPatternElements(np)
		case "rel":
			rp := &cypher.RelationshipPattern{Variable: v, Kinds: kinds, Direction: graph.DirectionOutbound}
			if p != nil {
				rp.Properties = p
			}
			part.AddPatternElements(rp)
		}
	}
	rq := &cypher.RegularQuery{SingleQuery: &cypher.SingleQuery{SinglePartQuery: &cypher.SinglePartQuery{}}}
	rq.SingleQuery.SinglePartQuery.AddReadingClause(&cypher.ReadingClause{Match: &cypher.Match{Pattern: []*cypher.PatternPart{part}}})
	qb := qn.NewQueryBuilder(rq)
	if wh := term.list[2].list[1]; wh.isLst {
		qb.Apply(query.Where(b.criteria(wh)))
	}
	qb.Apply(query.Returning(query.Node()))
	if err := qb.Prepare(); err != nil {
		r.stats.Inc("pm_prepare_error")
		return "prepare-error " + oneLine(err.Error())
	}
	text, err := qb.Render()
	if err != nil {
		return "render-error " + oneLine(err.Error())
	}
	hook := c10RewriteHook()
	if hook == nil {
		r.stats.Inc("pm_hook_missing")
		return "hook-missing\ttext " + c10Quote(text)
	}
	// the builder's own map first: every symbol of the text is bound
	before := map[string]any{}
	for k, v := range qb.Parameters {
		before[k] = v
	}
	text2, params2, err := hook(text, qb.Parameters)
	if err != nil {
		r.stats.Inc("pm_rewrite_error")
		return "rewrite-error " + oneLine(err.Error()) + "\ttext " + c10Quote(text)
	}
	r.stats.Inc("pm_rewritten")
	if text2 != text {
		r.stats.Inc("pm_text_changed")
	}
	var syms, unbound, changed []string
	m2, perr := frontend.ParseCypher(frontend.NewContext(), text2)
	if perr != nil {
		return "reparse-error " + oneLine(perr.Error()) + "\ttext2 " + c10Quote(text2)
	}
	var all2 []string
	paramSymbols(reflect.ValueOf(m2), map[uintptr]bool{}, &all2, 0)
	seen := map[string]bool{}
	for _, s := range all2 {
		if seen[s] {
			continue
		}
		seen[s] = true
		syms = append(syms, s)
		v2, ok := params2[s]
		if !ok {
			unbound = append(unbound, s)
			continue
		}
		if v1, was := before[s]; was && typedValue(v1) != typedValue(v2) {
			changed = append(changed, s)
		}
	}
	// expanded pattern properties: {key: $__dawgs_pattern_property_i} must be bound to the value of that key
	expanded := "ok"
	{
		for _, want := range r.expectedKeys(b, term) {
			if got := patternKeyParam(m2, want.variable, want.key); got == "" {
				expanded = "missing-key " + want.variable + "." + want.key
			} else if v, ok := params2[got]; !ok {
				expanded = "unbound-key " + want.variable + "." + want.key
			} else if typedValue(v) != want.value {
				expanded = "wrong-value " + want.variable + "." + want.key
			}
		}
	}
	// inputs of the Lean model: pattern-property symbols in pattern order with their key lists, plain symbols, the map's keys
	var pats, all1 []string
	if m1, err := frontend.ParseCypher(frontend.NewContext(), text); err == nil {
		paramSymbols(reflect.ValueOf(m1), map[uintptr]bool{}, &all1, 0)
		if rc := query.GetFirstReadingClause(m1); rc != nil && rc.Match != nil {
			for _, part := range rc.Match.Pattern {
				for _, pe := range part.PatternElements {
					var props cypher.Expression
					if np, ok := pe.AsNodePattern(); ok {
						props = np.Properties
					} else if rp, ok := pe.AsRelationshipPattern(); ok {
						props = rp.Properties
					}
					if pr, ok := props.(*cypher.Properties); ok && pr != nil && pr.Parameter != nil {
						pats = append(pats, pr.Parameter.Symbol)
					}
				}
			}
		}
	}
	patTerm := sxList(sxAtom("pats"))
	isPat := map[string]bool{}
	for _, s := range pats {
		isPat[s] = true
		keys := sxList(sxAtom("keys"))
		if mp, ok := before[s].(map[string]any); ok {
			var ks []string
			for k := range mp {
				ks = append(ks, k)
			}
			sort.Strings(ks)
			for _, k := range ks {
				keys.list = append(keys.list, sxStr(k))
			}
		}
		patTerm.list = append(patTerm.list, sxList(sxStr(s), keys))
	}
	plainTerm := sxList(sxAtom("plains"))
	var names []string
	for k := range before {
		names = append(names, k)
	}
	sort.Strings(names)
	for _, s := range all1 {
		if !isPat[s] {
			plainTerm.list = append(plainTerm.list, sxStr(s))
		}
	}
	sort.Strings(syms)
	var bound []string
	for k := range params2 {
		bound = append(bound, k)
	}
	sort.Strings(bound)
	join := func(xs []string) string {
		if len(xs) == 0 {
			return "-"
		}
		return strings.Join(xs, ",")
	}
	return strings.Join([]string{"syms " + join(syms), "bound " + join(bound), "unbound " + join(unbound), "changed " + join(changed),
		"expanded " + expanded, "P " + patTerm.String(), "L " + plainTerm.String(), "text " + c10Quote(text), "text2 " + c10Quote(text2)}, "\t")
}

// paramSymbols: the symbols of every *cypher.Parameter of a parsed query, in walk order (a `$x` inside a string literal is not one)
func paramSymbols(v reflect.Value, seen map[uintptr]bool, out *[]string, depth int) {
	if !v.IsValid() || depth > 300 {
		return
	}
	switch v.Kind() {
	case reflect.Pointer:
		if v.IsNil() || seen[v.Pointer()] {
			return
		}
		seen[v.Pointer()] = true
		if v.Type() == reflect.TypeOf((*cypher.Parameter)(nil)) {
			*out = append(*out, (*cypher.Parameter)(v.UnsafePointer()).Symbol)
			return
		}
		paramSymbols(v.Elem(), seen, out, depth+1)
	case reflect.Interface:
		if !v.IsNil() {
			paramSymbols(v.Elem(), seen, out, depth+1)
		}
	case reflect.Struct:
		for i := 0; i < v.NumField(); i++ {
			paramSymbols(v.Field(i), seen, out, depth+1)
		}
	case reflect.Slice, reflect.Array:
		for i := 0; i < v.Len(); i++ {
			paramSymbols(v.Index(i), seen, out, depth+1)
		}
	case reflect.Map:
		keys := v.MapKeys()
		sort.Slice(keys, func(i, j int) bool { return fmt.Sprint(keys[i]) < fmt.Sprint(keys[j]) })
		for _, k := range keys {
			paramSymbols(v.MapIndex(k), seen, out, depth+1)
		}
	}
}

type c10pmKey struct{ variable, key, value string }

func (r *c10pmRunner) expectedKeys(b *c10Builder, term *sx) []c10pmKey {
	var out []c10pmKey
	for _, el := range term.list[1].args() {
		if p := el.list[3]; p.head() == "kv" {
			for i := 1; i+1 < len(p.list); i += 2 {
				out = append(out, c10pmKey{el.list[1].str, p.list[i].str, typedValue(b.value(p.list[i+1]))})
			}
		}
	}
	return out
}

// patternKeyParam finds, in the MATCH pattern of a parsed query, the parameter symbol bound to `key` in the property map
// of the element with the given variable.
func patternKeyParam(q *cypher.RegularQuery, variable, key string) string {
	rc := query.GetFirstReadingClause(q)
	if rc == nil || rc.Match == nil {
		return ""
	}
	for _, part := range rc.Match.Pattern {
		for _, pe := range part.PatternElements {
			var v *cypher.Variable
			var props cypher.Expression
			if np, ok := pe.AsNodePattern(); ok {
				v, props = np.Variable, np.Properties
			} else if rp, ok := pe.AsRelationshipPattern(); ok {
				v, props = rp.Variable, rp.Properties
			}
			if v == nil || v.Symbol != variable {
				continue
			}
			if pr, ok := props.(*cypher.Properties); ok && pr != nil && pr.Map != nil {
				if p, ok := pr.Map[key].(*cypher.Parameter); ok {
					return p.Symbol
				}
			}
		}
	}
	return ""
}
