//go:build verif

package main

// Literal tie between a statement and its text.
//
// Sql.eval (the Lean model) evaluates the statement's syntax tree; what PostgreSQL gets is the TEXT written from that tree. For numbers the
// two are tied here, on every translated query: each numeric value held by a pgsql.Literal of the tree (scalar or array element, integer
// or floating point) must be written in the text as a numeric token that denotes the SAME number (read back with 64-bit precision);
// otherwise the answer line is `lit-differs …` and the property's judge rejects it. String literals are cut out of the text first; a
// token that continues an identifier (n0, int8, s1) is not a number.

import (
	"fmt"
	"math"
	"math/big"
	"reflect"
	"regexp"
	"strconv"
	"strings"
)

// numbersOfStatement collects the numeric literal values of the tree (as exact rationals)
func numbersOfStatement(root any) ([]*big.Rat, []bool) {
	var out []*big.Rat
	var isFloat []bool
	seen := map[uintptr]bool{}
	addNum := func(v reflect.Value) {
		switch v.Kind() {
		case reflect.Int, reflect.Int8, reflect.Int16, reflect.Int32, reflect.Int64:
			out = append(out, new(big.Rat).SetInt64(v.Int()))
			isFloat = append(isFloat, false)
		case reflect.Uint, reflect.Uint8, reflect.Uint16, reflect.Uint32, reflect.Uint64:
			out = append(out, new(big.Rat).SetInt(new(big.Int).SetUint64(v.Uint())))
			isFloat = append(isFloat, false)
		case reflect.Float32, reflect.Float64:
			f := v.Float()
			if !math.IsNaN(f) && !math.IsInf(f, 0) {
				if r := new(big.Rat).SetFloat64(f); r != nil {
					out = append(out, r)
					isFloat = append(isFloat, true)
				}
			}
		}
	}
	var literalValue func(v reflect.Value)
	literalValue = func(v reflect.Value) {
		for v.Kind() == reflect.Interface || v.Kind() == reflect.Pointer {
			if v.IsNil() {
				return
			}
			v = v.Elem()
		}
		switch v.Kind() {
		case reflect.Slice, reflect.Array:
			for i := 0; i < v.Len(); i++ {
				literalValue(v.Index(i))
			}
		default:
			addNum(v)
		}
	}
	var walk func(v reflect.Value)
	walk = func(v reflect.Value) {
		switch v.Kind() {
		case reflect.Interface:
			if !v.IsNil() {
				walk(v.Elem())
			}
		case reflect.Pointer:
			if v.IsNil() {
				return
			}
			if seen[v.Pointer()] {
				return
			}
			seen[v.Pointer()] = true
			walk(v.Elem())
		case reflect.Struct:
			if v.Type().Name() == "Literal" && v.Type().PkgPath() == "github.com/specterops/dawgs/cypher/models/pgsql" {
				if f := v.FieldByName("Null"); f.IsValid() && f.Kind() == reflect.Bool && f.Bool() {
					return
				}
				if f := v.FieldByName("Value"); f.IsValid() {
					literalValue(f)
				}
				return
			}
			for i := 0; i < v.NumField(); i++ {
				if v.Type().Field(i).IsExported() {
					walk(v.Field(i))
				}
			}
		case reflect.Slice, reflect.Array:
			for i := 0; i < v.Len(); i++ {
				walk(v.Index(i))
			}
		case reflect.Map:
			for _, k := range v.MapKeys() {
				walk(v.MapIndex(k))
			}
		}
	}
	walk(reflect.ValueOf(root))
	return out, isFloat
}

var sqlStringLiteral = regexp.MustCompile(`'(?:[^']|'')*'`)
var sqlNumberToken = regexp.MustCompile(`[0-9]+(?:\.[0-9]+)?(?:[eE][+-]?[0-9]+)?|\.[0-9]+(?:[eE][+-]?[0-9]+)?`)

// numbersOfText: the numeric tokens of the SQL text
func numbersOfText(sql string) []string {
	text := sqlStringLiteral.ReplaceAllString(sql, "''")
	var out []string
	for _, loc := range sqlNumberToken.FindAllStringIndex(text, -1) {
		if loc[0] > 0 {
			c := text[loc[0]-1]
			if c == '_' || c == '$' || c == '@' || (c >= 'a' && c <= 'z') || (c >= 'A' && c <= 'Z') || (c >= '0' && c <= '9') {
				continue
			}
		}
		out = append(out, text[loc[0]:loc[1]])
	}
	return out
}

// tokenDenotes: an integer literal must be written exactly; a floating point literal must be written as text that PostgreSQL's float8
// input (correctly rounded, like strconv.ParseFloat with 64 bits) reads back as the same double
func tokenDenotes(tok string, want *big.Rat, isFloat bool) bool {
	if isFloat {
		f, err := strconv.ParseFloat(tok, 64)
		if err != nil {
			return false
		}
		w, _ := want.Float64()
		return f == w
	}
	r, ok := new(big.Rat).SetString(tok)
	return ok && r.Cmp(want) == 0
}

// literalTie returns "" when every numeric literal of the tree is written in the text with its own value, else a description
func literalTie(stmt any, sql string) string {
	want, isFloat := numbersOfStatement(stmt)
	if len(want) == 0 {
		return ""
	}
	have := numbersOfText(sql)
	used := make([]bool, len(have))
	var missing []string
	for k, w := range want {
		aw := new(big.Rat).Abs(w)
		found := false
		for i, h := range have {
			if !used[i] && tokenDenotes(h, aw, isFloat[k]) {
				used[i], found = true, true
				break
			}
		}
		if !found {
			if isFloat[k] {
				f, _ := w.Float64()
				missing = append(missing, strconv.FormatFloat(f, 'g', -1, 64))
			} else {
				missing = append(missing, w.RatString())
			}
		}
	}
	if len(missing) == 0 {
		return ""
	}
	return fmt.Sprintf("statement-literals-not-in-text=%s", strings.Join(missing, ","))
}
