package main

import (
	"fmt"
	"regexp"
	"sort"
	"testing"
)

var genIDre = regexp.MustCompile(`\b(n|e|s|i|pi|ep|pc|ex)\d+\b`)

func TestCaptureProbe(t *testing.T) {
	r := &c06Runner{stats: NewStats(), mapper: newHarnessKindMapper()}
	rng := NewRng(7)
	var qs []string
	for _, c := range LoadCypherCorpus() {
		qs = append(qs, c.Query)
	}
	for i := 0; i < 800; i++ {
		qs = append(qs, genCypherQuery(rng))
	}
	hits := map[string]int{}
	ex := map[string]string{}
	n := 0
	for _, q := range qs {
		m, err, pp := parseQuery(q)
		if err != nil || pp != "" {
			continue
		}
		vars, prms := userSymbols(m)
		o := translateOutcome(m, r.mapper, defaultParams(prms, nil))
		if o.Status != "ok" {
			continue
		}
		ids := map[string]bool{}
		for _, g := range genIDre.FindAllString(o.RawSQL, -1) {
			ids[g] = true
		}
		var gl []string
		for g := range ids {
			gl = append(gl, g)
		}
		sort.Strings(gl)
		uv := map[string]bool{}
		for _, v := range vars {
			uv[v] = true
		}
		for _, v := range vars {
			for _, g := range gl {
				if uv[g] {
					continue
				}
				n++
				cls, detail, _, _, _, _, _, _ := r.check(q, nil, map[string]string{v: g}, map[string]string{}, "", 0)
				if cls != "ok" {
					k := cls + ":" + genIDre.ReplaceAllString(g, "$1")
					hits[k]++
					if len(ex[k]) == 0 || len(q) < len(ex[k]) {
						ex[k] = fmt.Sprintf("%s  [%s->%s] %s", q, v, g, detail)
					}
				}
			}
		}
	}
	fmt.Println("probes", n)
	for k, c := range hits {
		fmt.Println(k, c, "\n   ", ex[k])
	}
}
