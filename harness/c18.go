package main

// C18: real retriever.Dump → Load → Verify over generated databases held in the in-memory FakeDB.
//
// Two harness suites share one generator and one runner:
//
//	c18    answers in the vocabulary the Lean model (Driver/C18.lean) predicts: fragment boundaries,
//	       manifest counts, the loaded graph in creation order mapped back to source ids, verify outcome;
//	obs18  answers with raw observations for the Lean monitor (Driver/C18Mon.lean): manifest entries
//	       next to independently recomputed sha256 / byte counts / record counts of the files on disk,
//	       the directory listing, the loaded graph.
//
// Every op is self-contained on disk: it creates its own temp directory and removes it before
// answering (the dump is kept in memory between ops).

import (
	"math"
	"bufio"
	"context"
	"encoding/json"
	"fmt"
	"os"
	"sort"
	"strconv"
	"strings"

	"github.com/specterops/dawgs/retriever"
)

type c18Suite struct{ obs bool }

func init() {
	register("c18", c18Suite{obs: false})
	register("obs18", c18Suite{obs: true})
}

// ---------------------------------------------------------------- generator

type genNode struct {
	id    uint64
	kinds []string
	props string
}
type genEdge struct {
	id, s, e uint64
	kind     string
	props    string
}
type genGraph struct {
	name  string
	nodes []genNode
	edges []genEdge
}

var c18Kinds = []string{"A", "B", "Ü", "K-2", "User"}
var c18EdgeKinds = []string{"R", "MemberOf", "Ü→"}
var c18Strings = []string{"", "a", "hello world", "line\nbreak", "tab\tquote\"back\\slash", "Ünïcödé ✓ 日本語", "emoji 😀", "<html>&amp;", "nul\x00byte", "sep para x", "  lead and trail  "}

func genValue(rng *Rng, depth int, bigInts bool) any {
	n := 9
	if depth >= 2 {
		n = 7
	}
	switch rng.Intn(n) {
	case 0:
		return nil
	case 1:
		return rng.Bool()
	case 2:
		if bigInts && rng.Chance(1, 2) {
			return Pick(rng, []int64{9007199254740993, -9007199254740993, 9223372036854775807, 132537600000000001})
		}
		return Pick(rng, []int64{0, 1, -1, 42, 1 << 31, -(1 << 40), 9007199254740992, -9007199254740991})
	case 3:
		// non-integral, exponent forms, and integral floats: inside int64 (come back as int64), beyond int64 (stay float64), negative zero
		return Pick(rng, []float64{0.5, -2.25, 1e21, 1e-7, 3.141592653589793, 1.7976931348623157e308, 5e-324, 123456.789, 0.1,
			3, -7, 4503599627370496, 9223372036854775808, -9223372036854775808, 1e20, math.Copysign(0, -1)})
	case 4, 5, 6:
		return Pick(rng, c18Strings)
	case 7:
		l := make([]any, rng.Intn(4))
		for i := range l {
			l[i] = genValue(rng, depth+1, bigInts)
		}
		return l
	default:
		m := map[string]any{}
		for i, k := 0, rng.Intn(3); i < k; i++ {
			m[Pick(rng, []string{"k", "key two", "ß", "", "nested"})] = genValue(rng, depth+1, bigInts)
		}
		return m
	}
}

func genProps(rng *Rng, bigInts bool) string {
	switch rng.Intn(8) {
	case 0:
		return "-"
	case 1:
		return "{}"
	}
	m := map[string]any{}
	for i, k := 0, 1+rng.Intn(3); i < k; i++ {
		m[Pick(rng, []string{"name", "objectid", "count", "tags", "meta", "a b", "ключ"})] = genValue(rng, 0, bigInts)
	}
	// typed text: a float64 always carries '.', an exponent or "-0.0", an int64 never does; parse of it gives the same Go types back
	return typedJSON(m)
}

// typedJSON renders a property value as JSON text that shows the Go type of every number: int64 as an integer literal,
// float64 as encoding/json writes it, with ".0" appended when that text is an integer literal or "-0".
func typedJSON(v any) string {
	var sb strings.Builder
	typedJSONInto(&sb, v)
	return strings.ReplaceAll(sb.String(), " ", escSpace)
}

func typedJSONInto(sb *strings.Builder, v any) {
	switch x := v.(type) {
	case map[string]any:
		keys := make([]string, 0, len(x))
		for k := range x {
			keys = append(keys, k)
		}
		sort.Strings(keys)
		sb.WriteByte('{')
		for i, k := range keys {
			if i > 0 {
				sb.WriteByte(',')
			}
			sb.WriteString(strings.ReplaceAll(canonJSON(k), escSpace, " "))
			sb.WriteByte(':')
			typedJSONInto(sb, x[k])
		}
		sb.WriteByte('}')
	case []any:
		sb.WriteByte('[')
		for i, e := range x {
			if i > 0 {
				sb.WriteByte(',')
			}
			typedJSONInto(sb, e)
		}
		sb.WriteByte(']')
	case float64:
		t := strings.ReplaceAll(canonJSON(x), escSpace, " ")
		if !strings.ContainsAny(t, ".eE!") {
			t += ".0"
		}
		sb.WriteString(t)
	case float32:
		sb.WriteString("!float32")
	default:
		sb.WriteString(strings.ReplaceAll(canonJSON(x), escSpace, " "))
	}
}

func genKinds(rng *Rng, pool []string) []string {
	n := Pick(rng, []int{0, 1, 1, 1, 2, 3})
	if n > len(pool) {
		n = len(pool)
	}
	set := map[string]struct{}{}
	var out []string
	for len(out) < n {
		k := Pick(rng, pool)
		if _, dup := set[k]; !dup {
			set[k] = struct{}{}
			out = append(out, k)
		}
	}
	return out // deliberately unsorted
}

// genGraphs builds 1..3 graphs; node ids are unique across graphs, edge ids too, both with gaps.
func genGraphs(rng *Rng, bigInts bool, stats *Stats) []genGraph {
	ng := Pick(rng, []int{1, 1, 1, 2, 2, 3})
	names := []string{"default", "g2", "a/b", "ü"}
	rng.Intn(1)
	var graphs []genGraph
	nextNode := uint64(rng.Intn(3)) // id 0 is a legal id
	nextEdge := uint64(rng.Intn(3))
	for gi := 0; gi < ng; gi++ {
		g := genGraph{name: names[(gi+rng.Intn(2))%len(names)]}
		for _, o := range graphs {
			if o.name == g.name {
				g.name = names[(gi+2)%len(names)] + strconv.Itoa(gi)
			}
		}
		nn := Pick(rng, []int{0, 1, 2, 3, 4, 5, 6, 8})
		if gi > 0 && rng.Chance(1, 2) {
			// every graph numbers its nodes and relationships from the start again: source ids are unique per graph only
			nextNode, nextEdge = uint64(rng.Intn(3)), uint64(rng.Intn(3))
			stats.Inc("graphs_restart_ids")
		}
		for i := 0; i < nn; i++ {
			g.nodes = append(g.nodes, genNode{id: nextNode, kinds: genKinds(rng, c18Kinds), props: genProps(rng, bigInts)})
			nextNode += uint64(1 + rng.Intn(4)*rng.Intn(3))
		}
		ne := 0
		if nn > 0 {
			ne = Pick(rng, []int{0, 0, 1, 2, 3, 4, 6, 9})
		}
		for i := 0; i < ne; i++ {
			e := genEdge{id: nextEdge, s: g.nodes[rng.Intn(nn)].id, e: g.nodes[rng.Intn(nn)].id, kind: Pick(rng, c18EdgeKinds), props: genProps(rng, bigInts)}
			switch rng.Intn(6) {
			case 0: // self loop
				e.e = e.s
				stats.Inc("self_loop")
			case 1: // parallel edge: same endpoints and kind as an earlier edge, sometimes same properties
				if len(g.edges) > 0 {
					p := g.edges[rng.Intn(len(g.edges))]
					e.s, e.e, e.kind = p.s, p.e, p.kind
					if rng.Bool() {
						e.props = p.props
					}
					stats.Inc("parallel_edge")
				}
			}
			g.edges = append(g.edges, e)
			nextEdge += uint64(1 + rng.Intn(3)*rng.Intn(4))
		}
		// physical (insertion) order differs from id order
		for i := len(g.nodes) - 1; i > 0; i-- {
			j := rng.Intn(i + 1)
			g.nodes[i], g.nodes[j] = g.nodes[j], g.nodes[i]
		}
		for i := len(g.edges) - 1; i > 0; i-- {
			j := rng.Intn(i + 1)
			g.edges[i], g.edges[j] = g.edges[j], g.edges[i]
		}
		graphs = append(graphs, g)
	}
	return graphs
}

func emitGraphs(w *bufio.Writer, graphs []genGraph) {
	for _, g := range graphs {
		fmt.Fprintf(w, "graph %s\n", g.name)
	}
	for _, g := range graphs {
		for _, n := range g.nodes {
			fmt.Fprintf(w, "node %s %d %s %s\n", g.name, n.id, kindsTok(n.kinds), n.props)
		}
		for _, e := range g.edges {
			fmt.Fprintf(w, "edge %s %d %d %d %s %s\n", g.name, e.id, e.s, e.e, e.kind, e.props)
		}
	}
}

// sizesAround returns the batch/shard sizes to try for an entity count: 1,2,3,count,count±1.
func sizesAround(counts ...int) []int {
	set := map[int]struct{}{1: {}, 2: {}, 3: {}}
	for _, c := range counts {
		for _, v := range []int{c - 1, c, c + 1} {
			if v >= 1 {
				set[v] = struct{}{}
			}
		}
	}
	out := make([]int, 0, len(set))
	for v := range set {
		out = append(out, v)
	}
	sort.Ints(out)
	return out
}

func (s c18Suite) Gen(rng *Rng, tier string, w *bufio.Writer, stats *Stats) {
	nDB, perDB := 36, 14
	if tier == "thorough" {
		nDB, perDB = 100, 20
	}
	caseNo := 0
	// scale boundary: the thorough tier crosses 65536 kind combinations; the quick tier runs the same ops on a small
	// proxy and relies on the width facts of Props/C18Widths for the boundary itself
	scaleN := 40
	if tier == "thorough" {
		scaleN = 65537
	}
	caseNo++
	fmt.Fprintf(w, "# case %d scale n=%d\n", caseNo, scaleN)
	fmt.Fprintln(w, "reset")
	fmt.Fprintf(w, "scale %d\n", scaleN)
	fmt.Fprintf(w, "scaledump %s\n", Pick(rng, []string{"none", "gzip", "zstd"}))
	fmt.Fprintln(w, "scaleverify")
	fmt.Fprintln(w, "scalemutate")
	stats.Inc("cases")
	// values JSON cannot express: the dump fails, no manifest
	caseNo++
	fmt.Fprintf(w, "# case %d unsupported float values\n", caseNo)
	fmt.Fprintln(w, "reset")
	for _, k := range []string{"nan", "inf", "-inf"} {
		fmt.Fprintf(w, "nandump %s\n", k)
	}
	stats.Inc("cases")
	for d := 0; d < nDB; d++ {
		bigInts := d%6 == 5 // int64 beyond 2^53 round-trip exactly since the UseNumber fix
		graphs := genGraphs(rng, bigInts, stats)
		var counts []int
		for _, g := range graphs {
			counts = append(counts, len(g.nodes), len(g.edges))
		}
		sizes := sizesAround(counts...)
		type cfg struct {
			codec        string
			batch, shard int
		}
		var cfgs []cfg
		for _, c := range []string{"none", "gzip", "zstd"} {
			for _, b := range sizes {
				for _, sh := range sizes {
					cfgs = append(cfgs, cfg{c, b, sh})
				}
			}
		}
		for i := len(cfgs) - 1; i > 0; i-- {
			j := rng.Intn(i + 1)
			cfgs[i], cfgs[j] = cfgs[j], cfgs[i]
		}
		if len(cfgs) > perDB {
			cfgs = cfgs[:perDB]
		}
		for _, c := range cfgs {
			caseNo++
			fmt.Fprintf(w, "# case %d db=%d codec=%s batch=%d shard=%d\n", caseNo, d, c.codec, c.batch, c.shard)
			fmt.Fprintln(w, "reset")
			emitGraphs(w, graphs)
			fmt.Fprintf(w, "dump %s %d %d\n", c.codec, c.batch, c.shard)
			lb := Pick(rng, sizes)
			fmt.Fprintf(w, "load %d\n", lb)
			fmt.Fprintln(w, "loaded")
			fmt.Fprintf(w, "verify %d\n", Pick(rng, sizes))
			// negative control: one mutation of the loaded database, then verify again
			g := graphs[rng.Intn(len(graphs))]
			switch m := rng.Intn(5); {
			case m == 0 || len(g.nodes) == 0:
				fmt.Fprintf(w, "mutate %s addnode %s\n", g.name, kindsTok(genKinds(rng, c18Kinds)))
			case m == 1 && len(g.edges) > 0:
				fmt.Fprintf(w, "mutate %s deledge %d\n", g.name, rng.Intn(len(g.edges)))
			case m == 2:
				fmt.Fprintf(w, "mutate %s setkinds %d %s\n", g.name, rng.Intn(len(g.nodes)), kindsTok(genKinds(rng, c18Kinds)))
			case m == 3 && len(g.edges) > 0:
				fmt.Fprintf(w, "mutate %s rewire %d %d %d\n", g.name, rng.Intn(len(g.edges)), rng.Intn(len(g.nodes)), rng.Intn(len(g.nodes)))
			default:
				fmt.Fprintf(w, "mutate %s setprop %d %s\n", g.name, rng.Intn(len(g.nodes)), genProps(rng, false))
			}
			fmt.Fprintln(w, "loaded")
			fmt.Fprintf(w, "verify %d\n", Pick(rng, sizes))
			// the same dump, interrupted (crash at a random point, or a DB read error at a random fetch) and resumed,
			// must load to the same graph
			points := crashPointCount(graphs, c.shard)
			if rng.Bool() {
				fmt.Fprintf(w, "idump %s %d %d crash %d\n", c.codec, c.batch, c.shard, 1+rng.Intn(points+1))
			} else {
				fmt.Fprintf(w, "idump %s %d %d fault %d %d\n", c.codec, c.batch, c.shard, 1+rng.Intn(entityCount(graphs)+2), Pick(rng, []int{-1, 0, 1, 2}))
			}
			fmt.Fprintf(w, "load %d\n", Pick(rng, sizes))
			fmt.Fprintln(w, "loaded")
			fmt.Fprintf(w, "verify %d\n", Pick(rng, sizes))
			stats.Inc("interrupted_dumps")
			stats.Inc("cases")
			stats.Inc("codec." + c.codec)
		}
		// every crash point of one configuration with more relationships than the shard size (when the database has them)
		if d%6 == 0 || tier == "thorough" && d%5 == 0 {
			caseNo++
			fmt.Fprintf(w, "# case %d db=%d every-crash-point codec=none batch=2 shard=2\n", caseNo, d)
			fmt.Fprintln(w, "reset")
			emitGraphs(w, graphs)
			for k := 1; k <= crashPointCount(graphs, 2)+1; k++ {
				fmt.Fprintf(w, "idump none 2 2 crash %d\n", k)
				fmt.Fprintln(w, "load 2")
				fmt.Fprintln(w, "loaded")
				stats.Inc("interrupted_dumps")
			}
			for f := 1; f <= entityCount(graphs)+1; f++ {
				fmt.Fprintf(w, "idump none 2 2 fault %d %d\n", f, Pick(rng, []int{-1, 1}))
				fmt.Fprintln(w, "load 3")
				fmt.Fprintln(w, "loaded")
				stats.Inc("interrupted_dumps")
			}
			stats.Inc("cases")
		}
	}
}

func entityCount(graphs []genGraph) int {
	n := 0
	for _, g := range graphs {
		n += len(g.nodes) + len(g.edges)
	}
	return n
}

// crashPointCount: the number of crash points of an uninterrupted dump (see harness/c19.go).
func crashPointCount(graphs []genGraph, shard int) int {
	ceil := func(a, b int) int { return (a + b - 1) / b }
	n := 1 + 2 + 3
	for _, g := range graphs {
		n += 6 + 5*(ceil(len(g.nodes), shard)+ceil(len(g.edges), shard)) + len(g.nodes) + len(g.edges)
	}
	return n
}

// ---------------------------------------------------------------- runner

type c18Runner struct {
	obs   bool
	stats *Stats
	src   *srcDB
	// dump kept in memory
	files    map[string][]byte
	manifest *retriever.Manifest
	codec    retriever.CompressionCodec
	shard    int
	dst      *FakeDB
	back     map[string]map[uint64]string
}

func (s c18Suite) NewRunner(stats *Stats) Runner {
	return &c18Runner{obs: s.obs, stats: stats, src: newSrcDB()}
}

func withTempDir(fn func(dir string) string) string {
	dir, err := os.MkdirTemp("", "verif-retr-*")
	if err != nil {
		return "err tempdir"
	}
	defer os.RemoveAll(dir)
	return fn(dir)
}

func (r *c18Runner) Step(_ []string, raw string) string {
	t := splitSpaces(raw)
	if len(t) == 0 {
		return "bad-op"
	}
	if ans, ok := r.src.step(t); ok {
		return ans
	}
	switch {
	case len(t) == 1 && t[0] == "reset":
		*r = c18Runner{obs: r.obs, stats: r.stats, src: newSrcDB()}
		return "ok"
	case len(t) == 4 && t[0] == "dump":
		return r.dump(t)
	case (len(t) == 6 || len(t) == 7) && t[0] == "idump":
		return r.idump(t)
	case len(t) == 2 && t[0] == "nandump":
		return r.nanDump(t[1])
	case len(t) == 2 && t[0] == "scale":
		return r.scale(t[1])
	case len(t) == 2 && t[0] == "scaledump":
		return r.scaleDump(t[1])
	case len(t) == 1 && t[0] == "scaleverify":
		return r.scaleVerify(false)
	case len(t) == 1 && t[0] == "scalemutate":
		return r.scaleVerify(true)
	case len(t) == 2 && t[0] == "load":
		return r.load(t)
	case len(t) == 1 && t[0] == "loaded":
		return r.loaded()
	case len(t) == 2 && t[0] == "verify":
		return r.verify(t)
	case len(t) >= 3 && t[0] == "mutate":
		return r.mutate(t)
	}
	return "bad-op"
}

// nanDump: a float64 property that JSON cannot express (NaN, +Inf, -Inf). The dump must fail and leave no manifest.
func (r *c18Runner) nanDump(which string) string {
	var f float64
	switch which {
	case "nan":
		f = math.NaN()
	case "inf":
		f = math.Inf(1)
	case "-inf":
		f = math.Inf(-1)
	default:
		return "bad-op"
	}
	src := newSrcDB()
	src.step([]string{"graph", "g"})
	src.db.AddNode("g", 1, []string{"A"}, map[string]any{"x": []any{int64(1), f}})
	return withTempDir(func(dir string) string {
		out := dir + "/out"
		_, err := retriever.Dump(context.Background(), src.db, "fake", src.targets, retriever.DefaultDumpOptions(out))
		_, hasManifest := readTree(out)[retriever.ManifestFileName]
		switch {
		case err != nil && !hasManifest:
			r.stats.Inc("nandump.rejected")
			return "nandump rejected"
		case err != nil:
			return "nandump error-with-manifest"
		default:
			return "nandump dumped"
		}
	})
}

func (r *c18Runner) dump(t []string) string {
	codec, ok := codecOf(t[1])
	batch, e1 := strconv.Atoi(t[2])
	shard, e2 := strconv.Atoi(t[3])
	if !ok || e1 != nil || e2 != nil || len(r.src.targets) == 0 {
		return "bad-op"
	}
	r.files, r.manifest, r.dst = nil, nil, nil
	return withTempDir(func(dir string) string {
		out := dir + "/out"
		opts := retriever.DefaultDumpOptions(out)
		opts.Compression, opts.BatchSize, opts.ShardSize = codec, batch, shard
		res, err := retriever.Dump(context.Background(), r.src.db, "fake", r.src.targets, opts)
		if err != nil {
			r.stats.Inc("dump.err." + retrErrClass(err))
			return "err " + retrErrClass(err)
		}
		r.files = readTree(out)
		r.codec, r.shard = codec, shard
		m := res.Manifest
		r.manifest = &m
		// what is on disk is what counts: re-read the manifest file
		var onDisk retriever.Manifest
		if b, ok := r.files[retriever.ManifestFileName]; !ok || json.Unmarshal(b, &onDisk) != nil {
			return "err manifest-unreadable"
		}
		r.manifest = &onDisk
		r.stats.Inc("dump.ok")
		if r.obs {
			return r.dumpObservation(&onDisk)
		}
		return r.dumpAnswer(&onDisk)
	})
}

// dumpAnswer: `ok <graph> n=<node_count> e=<edge_count> nk=<kinds> ek=<kinds> <path>#<count>#<ids> ...` per graph.
func (r *c18Runner) dumpAnswer(m *retriever.Manifest) string {
	var sb strings.Builder
	sb.WriteString("ok")
	for gi, g := range m.Graphs {
		nk, ek := "-", "-"
		if gi < len(m.Schema.Graphs) {
			nk, ek = kindsTok(m.Schema.Graphs[gi].NodeKinds), kindsTok(m.Schema.Graphs[gi].EdgeKinds)
		}
		fmt.Fprintf(&sb, " %s n=%d e=%d nk=%s ek=%s", g.Name, g.NodeCount, g.EdgeCount, nk, ek)
		for _, f := range g.Files {
			_, _, ids, err := fragmentIDs(r.files[f.Path], m.Compression, f.Phase)
			if err != nil {
				ids = "undecodable"
			}
			fmt.Fprintf(&sb, " %s#%d#%s", f.Path, f.Count, ids)
			if f.Count == r.shard {
				r.stats.Inc("branch.fragment_full")
			} else {
				r.stats.Inc("branch.fragment_partial")
			}
		}
		if g.NodeCount == 0 {
			r.stats.Inc("branch.empty_node_phase")
		}
		if g.EdgeCount == 0 {
			r.stats.Inc("branch.empty_edge_phase")
		}
		if g.NodeCount > 0 && int(g.NodeCount)%r.shard == 0 {
			r.stats.Inc("branch.count_multiple_of_shard")
		}
	}
	if len(m.Graphs) > 1 {
		r.stats.Inc("branch.multi_graph")
	}
	return sb.String()
}

// dumpObservation: manifest entries next to recomputed facts about the files on disk.
//
//	ok shard=<s> G <name> <node_count> <edge_count>
//	   F <phase> <path> <count> <cbytes> <ubytes> <sha> | <obsExists> <obsSize> <obsSha> <obsCount> <obsUBytes> <ids>
//	   ... L <every file in the directory> M <metrics node_count>/<edge_count>/<fingerprint ok>
func (r *c18Runner) dumpObservation(m *retriever.Manifest) string {
	var sb strings.Builder
	fmt.Fprintf(&sb, "ok shard=%d graphs=%d", r.shard, m.Source.GraphCount)
	for _, g := range m.Graphs {
		fmt.Fprintf(&sb, " G %s %d %d", g.Name, g.NodeCount, g.EdgeCount)
		for _, f := range g.Files {
			b, exists := r.files[f.Path]
			n, ub, ids, err := fragmentIDs(b, m.Compression, f.Phase)
			if err != nil || ids == "" {
				ids = "-"
			}
			ex := 0
			if exists {
				ex = 1
			}
			fmt.Fprintf(&sb, " F %s %s %d %d %d %s | %d %d %s %d %d %s", f.Phase, f.Path, f.Count, f.CompressedBytes, f.UncompressedBytes, f.SHA256,
				ex, len(b), sha256Hex(b), n, ub, ids)
		}
	}
	sb.WriteString(" L")
	for _, p := range sortedKeys(r.files) {
		sb.WriteString(" " + p)
	}
	sb.WriteString(" M")
	if m.Metrics == nil {
		sb.WriteString(" none")
	} else {
		for _, gm := range m.Metrics.Graphs {
			fp := 0
			if retriever.FingerprintGraphMetrics(gm) == gm.Fingerprint {
				fp = 1
			}
			fmt.Fprintf(&sb, " %s/%d/%d/%d", gm.Name, gm.NodeCount, gm.EdgeCount, fp)
		}
	}
	return sb.String()
}

// ---- scale boundary: n nodes with n distinct kind combinations (node i carries kind K<j> for every set bit j of i),
// relationships touching the nodes with the three highest combination references. 65537 combinations cross the
// 16-bit boundary of a reference table.

func scaleKinds(i int) []string {
	var ks []string
	for j := 0; i>>j != 0; j++ {
		if i>>j&1 == 1 {
			ks = append(ks, "K"+strconv.Itoa(j))
		}
	}
	return ks
}

func (r *c18Runner) scale(nTok string) string {
	n, err := strconv.Atoi(nTok)
	if err != nil || n < 4 || n > 1<<17 {
		return "bad-op"
	}
	*r = c18Runner{obs: r.obs, stats: r.stats, src: newSrcDB()}
	r.src.step([]string{"graph", "default"})
	for i := 0; i < n; i++ {
		r.src.db.AddNode("default", uint64(i), scaleKinds(i), nil)
	}
	r.src.db.AddEdge("default", 1, uint64(n-2), 0, "R", nil)
	r.src.db.AddEdge("default", 2, uint64(n-1), 1, "R", nil)
	r.src.db.AddEdge("default", 3, uint64(n-3), uint64(n-1), "R", nil)
	r.stats.Inc("scale.graphs")
	if n > 65536 {
		r.stats.Inc("scale.beyond_16_bit")
	}
	return "ok"
}

// scaleDump: `ok n=<nodes> e=<relationships> combos=<node kind combinations> ep=<endpoint key>*<count>,…`
func (r *c18Runner) scaleDump(codecTok string) string {
	codec, ok := codecOf(codecTok)
	if !ok || len(r.src.targets) == 0 {
		return "bad-op"
	}
	r.files, r.manifest, r.dst, r.back = nil, nil, nil, nil
	return withTempDir(func(dir string) string {
		out := dir + "/out"
		opts := retriever.DefaultDumpOptions(out)
		opts.Compression, opts.BatchSize, opts.ShardSize = codec, 10000, 1000
		res, err := retriever.Dump(context.Background(), r.src.db, "fake", r.src.targets, opts)
		if err != nil {
			return "err " + retrErrClass(err)
		}
		r.files, r.codec, r.shard = readTree(out), codec, 1000
		m := res.Manifest
		r.manifest = &m
		if m.Metrics == nil || len(m.Metrics.Graphs) != 1 {
			return "err no-metrics"
		}
		gm := m.Metrics.Graphs[0]
		var eps []string
		for _, k := range sortedKeys(gm.EndpointKindHistogram) {
			eps = append(eps, fmt.Sprintf("%s*%d", k, gm.EndpointKindHistogram[k]))
		}
		return fmt.Sprintf("ok n=%d e=%d combos=%d ep=%s", gm.NodeCount, gm.EdgeCount, len(gm.NodeKindHistogram), strings.Join(eps, ","))
	})
}

// scaleVerify: Load the dump and Verify it; with mutate the second relationship is first re-pointed to start at the
// node without kinds (a different kind combination, the same degrees overall): Verify must then report a mismatch.
func (r *c18Runner) scaleVerify(mutate bool) string {
	if r.files == nil {
		return "bad-op"
	}
	if !mutate || r.dst == nil {
		r.dst, r.back = NewFakeDB(), nil
		ans := withTempDir(func(dir string) string {
			if err := writeFileTree(dir, r.files); err != nil {
				return "err tempdir"
			}
			opts := retriever.DefaultLoadOptions(dir)
			if _, err := retriever.Load(context.Background(), r.dst, "fake", opts); err != nil {
				return "err " + retrErrClass(err)
			}
			return ""
		})
		if ans != "" {
			return ans
		}
	}
	if mutate {
		g := r.dst.Graph("default")
		if len(g.Edges) < 2 || len(g.Nodes) < 1 {
			return "bad-op"
		}
		g.Edges[1].Start = g.Nodes[0].ID
		r.stats.Inc("scale.mutations")
	}
	return r.verify([]string{"verify", "10000"})
}

// idump: the dump interrupted once (crash at hook point k, or a DB read error at fetch f after m records) and
// then resumed until it completes; answers like `dump`, or `stuck <class>` when the resume refuses for good.
func (r *c18Runner) idump(t []string) string {
	codec, ok := codecOf(t[1])
	batch, e1 := strconv.Atoi(t[2])
	shard, e2 := strconv.Atoi(t[3])
	a, e3 := strconv.Atoi(t[5])
	if !ok || e1 != nil || e2 != nil || e3 != nil || batch < 1 || shard < 1 || len(r.src.targets) == 0 {
		return "bad-op"
	}
	r.files, r.manifest, r.dst, r.back = nil, nil, nil, nil
	x := &c19Runner{stats: r.stats, src: r.src, codec: codec, batch: batch, shard: shard, hasOpts: true, dir: map[string][]byte{}}
	if !x.wellFormed() {
		return "bad-db"
	}
	var first string
	switch {
	case t[4] == "crash" && len(t) == 6:
		first = x.Step(nil, fmt.Sprintf("crash %d", a))
	case t[4] == "fault" && len(t) == 7:
		m, err := strconv.Atoi(t[6])
		if err != nil || a < 1 {
			return "bad-op"
		}
		first = x.Step(nil, fmt.Sprintf("readfault %d %d", a, m))
	default:
		return "bad-op"
	}
	if strings.HasPrefix(first, "bad") {
		return first
	}
	hasManifest := func() bool { _, ok := x.dir[retriever.ManifestFileName]; return ok }
	for i := 0; i < 2 && !hasManifest(); i++ {
		ans := strings.Fields(x.Step(nil, "resume 0"))
		if len(ans) >= 2 && ans[0] == "refused" {
			r.stats.Inc("idump.stuck." + ans[1])
			return "stuck " + ans[1]
		}
	}
	if !hasManifest() {
		return "stuck unknown"
	}
	// a crash between the manifest rename and the checkpoint removal leaves a complete dump plus the stale checkpoint
	if _, stale := x.dir[".retriever-checkpoint.json"]; stale {
		delete(x.dir, ".retriever-checkpoint.json")
		r.stats.Inc("idump.stale_checkpoint")
	}
	var onDisk retriever.Manifest
	if json.Unmarshal(x.dir[retriever.ManifestFileName], &onDisk) != nil {
		return "err manifest-unreadable"
	}
	r.files, r.manifest, r.codec, r.shard = x.dir, &onDisk, codec, shard
	r.stats.Inc("idump.ok")
	if r.obs {
		return r.dumpObservation(&onDisk)
	}
	return r.dumpAnswer(&onDisk)
}

func (r *c18Runner) load(t []string) string {
	batch, err := strconv.Atoi(t[1])
	if err != nil || r.files == nil {
		return "bad-op"
	}
	r.dst, r.back = NewFakeDB(), nil
	return withTempDir(func(dir string) string {
		if err := writeFileTree(dir, r.files); err != nil {
			return "err tempdir"
		}
		opts := retriever.DefaultLoadOptions(dir)
		opts.BatchSize = batch
		res, err := retriever.Load(context.Background(), r.dst, "fake", opts)
		if err != nil {
			r.stats.Inc("load.err." + retrErrClass(err))
			return "err " + retrErrClass(err)
		}
		r.stats.Inc("load.ok")
		r.recoverCorrespondence()
		return fmt.Sprintf("ok g=%d n=%d e=%d", res.GraphCount, res.NodeCount, res.EdgeCount)
	})
}

func typedProps(m map[string]any) string {
	if m == nil {
		return "{}"
	}
	return typedJSON(m)
}

func nodeSig(kinds []string, props map[string]any) string {
	ks := append([]string(nil), kinds...)
	sort.Strings(ks)
	return strings.Join(ks, ",") + "|" + canonJSON(props)
}

// recoverCorrespondence runs right after a successful Load: a loaded node corresponds to the first
// not yet matched source node (id order) with the same kinds and properties. A correspondence found
// this way is a genuine isomorphism witness whenever the monitor accepts the `loaded` line.
func (r *c18Runner) recoverCorrespondence() {
	r.back = map[string]map[uint64]string{}
	for _, gm := range r.manifest.Graphs {
		dg := r.dst.Graph(gm.Name)
		var srcNodes []*FakeNode
		if r.src.db.HasGraph(gm.Name) {
			srcNodes = append(srcNodes, r.src.db.Graph(gm.Name).Nodes...)
		}
		sort.Slice(srcNodes, func(i, j int) bool { return srcNodes[i].ID < srcNodes[j].ID })
		used := make([]bool, len(srcNodes))
		back := map[uint64]string{}
		for _, n := range dg.Nodes {
			sig := nodeSig(n.Kinds, n.Props)
			for i, sn := range srcNodes {
				if !used[i] && nodeSig(sn.Kinds, sn.Props) == sig {
					used[i] = true
					back[n.ID] = strconv.FormatUint(sn.ID, 10)
					if sn.ID == n.ID {
						r.stats.Inc("warn.new_id_equals_source_id")
					}
					break
				}
			}
		}
		r.back[gm.Name] = back
	}
}

// loaded prints the destination database, graph by graph in manifest order, nodes and edges in
// creation order, ids translated back to source ids through the correspondence recovered at load
// time; nodes outside it print as ?.
func (r *c18Runner) loaded() string {
	if r.dst == nil || r.manifest == nil || r.back == nil {
		return "none"
	}
	var sb strings.Builder
	sb.WriteString("ok")
	for _, gm := range r.manifest.Graphs {
		fmt.Fprintf(&sb, " G %s", gm.Name)
		dg := r.dst.Graph(gm.Name)
		back := r.back[gm.Name]
		name := func(id uint64) string {
			if s, ok := back[id]; ok {
				return s
			}
			return "?"
		}
		for _, n := range dg.Nodes {
			fmt.Fprintf(&sb, " N %s %s %s", name(n.ID), kindsTok(n.Kinds), typedProps(n.Props))
		}
		for _, e := range dg.Edges {
			kind := e.Kind
			if kind == "" {
				kind = "-"
			}
			fmt.Fprintf(&sb, " E %s %s %s %s", name(e.Start), name(e.End), kind, typedProps(e.Props))
		}
	}
	return sb.String()
}

func (r *c18Runner) verify(t []string) string {
	batch, err := strconv.Atoi(t[1])
	if err != nil || r.files == nil || r.dst == nil {
		return "bad-op"
	}
	return withTempDir(func(dir string) string {
		if err := writeFileTree(dir, r.files); err != nil {
			return "err tempdir"
		}
		opts := retriever.DefaultVerifyOptions(dir)
		opts.BatchSize = batch
		res, err := retriever.Verify(context.Background(), r.dst, "fake", opts)
		if err != nil {
			c := retrErrClass(err)
			r.stats.Inc("verify." + c)
			if c == "mismatch" {
				return "mismatch"
			}
			return "err " + c
		}
		r.stats.Inc("verify.ok")
		return fmt.Sprintf("ok n=%d e=%d", res.NodeCount, res.EdgeCount)
	})
}

// mutate changes the loaded database behind the loader's back (negative control for Verify).
func (r *c18Runner) mutate(t []string) string {
	if r.dst == nil || r.back == nil {
		return "bad-op"
	}
	g := r.dst.Graph(t[1])
	idx := func(s string, n int) (int, bool) {
		k, err := strconv.Atoi(s)
		return k, err == nil && k >= 0 && k < n
	}
	switch {
	case len(t) == 4 && t[2] == "addnode":
		g.Nodes = append(g.Nodes, &FakeNode{ID: 900000 + uint64(len(g.Nodes)), Kinds: parseKinds(t[3])})
	case len(t) == 4 && t[2] == "deledge":
		k, ok := idx(t[3], len(g.Edges))
		if !ok {
			return "bad-op"
		}
		g.Edges = append(g.Edges[:k:k], g.Edges[k+1:]...)
	case len(t) == 5 && t[2] == "setkinds":
		k, ok := idx(t[3], len(g.Nodes))
		if !ok {
			return "bad-op"
		}
		g.Nodes[k].Kinds = parseKinds(t[4])
	case len(t) == 6 && t[2] == "rewire":
		k, ok := idx(t[3], len(g.Edges))
		i, ok2 := idx(t[4], len(g.Nodes))
		j, ok3 := idx(t[5], len(g.Nodes))
		if !ok || !ok2 || !ok3 {
			return "bad-op"
		}
		g.Edges[k].Start, g.Edges[k].End = g.Nodes[i].ID, g.Nodes[j].ID
	case len(t) == 5 && t[2] == "setprop":
		k, ok := idx(t[3], len(g.Nodes))
		props, err := parseProps(t[4])
		if !ok || err != nil {
			return "bad-op"
		}
		g.Nodes[k].Props = props
	default:
		return "bad-op"
	}
	r.stats.Inc("mutate." + t[2])
	return "ok"
}
