//go:build verif

package main

// Identifier tie between a statement and its text (suite c03).
//
// C03's binder decides closedness on the statement's syntax TREE; what PostgreSQL gets is the TEXT. For identifiers that need quoting the
// two are tied here: the multiset of QUOTED identifier tokens of the text (harness/pglex.go, values with "" undone) must equal the multiset
// of the names that the tree's back-ticked identifiers denote (back-ticks stripped, `` undone), and the text must lex without error.
// Plain identifiers are written as they are (same bytes), so "the tree is closed" + this tie gives "the text names the same columns".

import (
	"reflect"
	"sort"
	"strings"
)

func backtickedIdentifiersOf(root any) []string {
	var out []string
	seen := map[uintptr]bool{}
	var walk func(v reflect.Value)
	walk = func(v reflect.Value) {
		switch v.Kind() {
		case reflect.Interface:
			if !v.IsNil() {
				walk(v.Elem())
			}
		case reflect.Pointer:
			if v.IsNil() || seen[v.Pointer()] {
				return
			}
			seen[v.Pointer()] = true
			walk(v.Elem())
		case reflect.String:
			if v.Type().Name() == "Identifier" && strings.HasSuffix(v.Type().PkgPath(), "cypher/models/pgsql") {
				s := v.String()
				if len(s) >= 2 && s[0] == '`' && s[len(s)-1] == '`' {
					out = append(out, cypherNameValue(s))
				}
			}
		case reflect.Struct:
			for i := 0; i < v.NumField(); i++ {
				if v.Type().Field(i).IsExported() {
					walk(v.Field(i))
				}
			}
		case reflect.Slice, reflect.Array:
			for i := 0; i < v.Len(); i++ {
				walk(v.Index(i))
			}
		case reflect.Map:
			for _, k := range v.MapKeys() {
				walk(k)
				walk(v.MapIndex(k))
			}
		}
	}
	walk(reflect.ValueOf(root))
	return out
}

// identifierTie returns "" when the quoted identifiers of the text are exactly the back-ticked identifiers of the tree
func identifierTie(stmt any, sql string) string {
	want := backtickedIdentifiersOf(stmt)
	var have []string
	for _, t := range pgLex(sql) {
		switch t.Kind {
		case "error":
			if len(want) > 0 {
				return "text-does-not-lex:" + t.Text
			}
			return ""
		case "qident":
			have = append(have, t.Text)
		}
	}
	sort.Strings(want)
	sort.Strings(have)
	if strings.Join(want, "\x00") == strings.Join(have, "\x00") {
		return ""
	}
	return "tree=" + jsonQuote(strings.Join(want, "|")) + " text=" + jsonQuote(strings.Join(have, "|"))
}
