package main

import (
	"bufio"
	"context"
	"encoding/hex"
	"encoding/json"
	"fmt"
	"math"
	"reflect"
	"sort"
	"strconv"
	"strings"
	"unicode/utf8"

	"github.com/jackc/pgtype"
	"github.com/jackc/pgx/v5"
	"github.com/specterops/dawgs/cypher/frontend"
	"github.com/specterops/dawgs/cypher/models/cypher"
	cypherFormat "github.com/specterops/dawgs/cypher/models/cypher/format"
	"github.com/specterops/dawgs/cypher/models/pgsql"
	"github.com/specterops/dawgs/cypher/models/pgsql/format"
	"github.com/specterops/dawgs/cypher/models/pgsql/translate"
	"github.com/specterops/dawgs/cypher/models/walk"
	"github.com/specterops/dawgs/drivers/pg/pgutil"
	"github.com/specterops/dawgs/graph"
)

// C04: user-controlled text cannot change the token structure of emitted SQL.
//
// Suite c04 (positions x hostile strings). Op line:  t <template id> <encoding> <json string>
// The runner builds the query with the hostile text and with a benign twin of the same type, runs the real
// ParseCypher -> Translate -> translate.Translated (and translate.FromCypher, the pg driver's builder path) on
// both, and answers one S-expression carrying both SQL texts and parameter maps. The Lean driver lexes them.
//
// Suite c04q (differential of the string functions). Op line:  q <json string>
// Answer: the real formatValue / NewStringLiteral / decodeCypherStringLiteral (through Translate) /
// UnescapePropertyKeyName / EscapePropertyKeyName results, hex encoded; the Lean model prints the same line.

const c04Benign = "zqbenign"

type c04Tmpl struct {
	ID    string
	Site  string // call site of the emission (finding key component)
	Kind  string // lit | key | ident | kindname | param | paramlist
	Query string // § is replaced by the Cypher token of the text under test
}

// c04Xf: value transform the translator applies by design at a position (rewriteStringWildCardLiteral for LIKE
// operands); the monitor expects the transformed value there.
func (t c04Tmpl) Xf() string {
	if t.Site == "literal.like" || t.Site == "like_operand.function_lhs" || strings.HasSuffix(t.ID, ".like") {
		return "like"
	}
	return "-"
}

// One entry per syntactic position. Sites name where the text is emitted in the translator/formatter.
var c04Templates = []c04Tmpl{
	// ---- string literals (decodeCypherStringLiteral -> pgsql.Literal -> formatValue)
	{"where.eq", "literal", "lit", "MATCH (n) WHERE n.name = § RETURN n"},
	{"where.neq", "literal", "lit", "MATCH (n) WHERE n.name <> § RETURN n"},
	{"where.lt", "literal", "lit", "MATCH (n) WHERE n.name < § RETURN n"},
	{"where.in_list", "literal", "lit", "MATCH (n) WHERE n.name IN [§, 'zz'] RETURN n"},
	{"where.lit_in_prop", "literal", "lit", "MATCH (n) WHERE § IN n.tags RETURN n"},
	{"where.starts_with", "literal.like", "lit", "MATCH (n) WHERE n.name STARTS WITH § RETURN n"},
	{"where.ends_with", "literal.like", "lit", "MATCH (n) WHERE n.name ENDS WITH § RETURN n"},
	{"where.contains", "literal.like", "lit", "MATCH (n) WHERE n.name CONTAINS § RETURN n"},
	{"where.regex", "regex_operand", "lit", "MATCH (n) WHERE n.name =~ § RETURN n"},
	{"where.regex_fn_lhs", "literal", "lit", "MATCH (n) WHERE toLower(n.name) =~ § RETURN n"},
	{"where.fn_contains", "like_operand.function_lhs", "lit", "MATCH (n) WHERE toLower(n.name) CONTAINS § RETURN n"},
	{"where.coalesce_starts_with", "like_operand.function_lhs", "lit", "MATCH (n) WHERE coalesce(n.name, '') STARTS WITH § RETURN n"},
	{"where.not_contains", "literal.like", "lit", "MATCH (n) WHERE NOT n.name CONTAINS § RETURN n"},
	{"where.fn_arg", "literal", "lit", "MATCH (n) WHERE toLower(n.name) = § RETURN n"},
	{"where.coalesce", "literal", "lit", "MATCH (n) WHERE coalesce(n.name, §) = 'x' RETURN n"},
	{"where.split", "literal", "lit", "MATCH (n) WHERE 'a' IN split(n.tags, §) RETURN n"},
	{"where.quantifier", "literal", "lit", "MATCH (n) WHERE any(x IN n.list WHERE x = §) RETURN n"},
	{"where.rel_prop", "literal", "lit", "MATCH (n)-[r]->(m) WHERE r.name = § RETURN m"},
	{"pattern.map_value", "literal", "lit", "MATCH (n {name: §}) RETURN n"},
	{"pattern.rel_map_value", "literal", "lit", "MATCH (n)-[r:EdgeKind1 {name: §}]->(m) RETURN m"},
	{"return.literal", "literal", "lit", "RETURN § AS x"},
	{"return.concat", "literal", "lit", "MATCH (n) RETURN n.name + § AS x"},
	{"with.literal", "literal", "lit", "MATCH (n) WITH n, § AS tag WHERE n.name = tag RETURN n"},
	{"unwind.list", "literal", "lit", "UNWIND [§, 'b'] AS x RETURN x"},
	{"set.value", "literal", "lit", "MATCH (n) SET n.name = § RETURN n"},
	{"create.value", "literal", "lit", "CREATE (n:NodeKind1 {name: §}) RETURN n"},
	{"orderby.case", "literal", "lit", "MATCH (n) RETURN n ORDER BY n.name = §"},
	{"expansion.seed", "literal", "lit", "MATCH (s:NodeKind1)-[:EdgeKind1*1..]->(e:NodeKind2) WHERE s.name = § RETURN e"},
	{"expansion.terminal", "literal", "lit", "MATCH (s:NodeKind1)-[:EdgeKind1*1..]->(e:NodeKind2) WHERE e.name = § RETURN e"},
	{"aggregate_traversal.predicate", "literal", "lit", "MATCH (n:NodeKind1) WHERE n.name = § MATCH (n)-[:EdgeKind1*1..]->(c:NodeKind2) WITH n, count(c) AS k RETURN n ORDER BY k DESC LIMIT 5"},
	{"count_fast_path.predicate", "literal", "lit", "MATCH (n:NodeKind1) WHERE n.name = § RETURN count(n) AS c"},
	// ---- every literal TYPE the formatter has a branch for: interval (formatLiteral CastType Interval), date/time
	// constructors (type cast written after the constant), lists of strings (ArrayLiteral of literals)
	{"interval.duration_sub", "literal.interval", "lit", "MATCH (s) WHERE s.created_at = date() - duration(§) RETURN s"},
	{"interval.duration_add", "literal.interval", "lit", "MATCH (s) WHERE s.created_at = datetime() + duration(§) RETURN s"},
	{"interval.duration_return", "literal.interval", "lit", "MATCH (s) RETURN s.created_at + duration(§) AS x"},
	{"interval.duration_set", "literal.interval", "lit", "MATCH (s) SET s.expires = localdatetime() + duration(§) RETURN s"},
	{"temporal.date", "literal.temporal", "lit", "MATCH (s) WHERE s.created_at = date(§) RETURN s"},
	{"temporal.datetime", "literal.temporal", "lit", "MATCH (s) WHERE s.created_at = datetime(§) RETURN s"},
	{"temporal.localtime", "literal.temporal", "lit", "MATCH (s) WHERE s.created_at = localtime(§) RETURN s"},
	{"temporal.localdatetime", "literal.temporal", "lit", "MATCH (s) WHERE s.created_at = localdatetime(§) RETURN s"},
	{"temporal.return", "literal.temporal", "lit", "RETURN datetime(§) AS x"},
	{"list.return", "literal.list", "lit", "RETURN [§, 'b'] AS x"},
	{"list.single_in", "literal.list", "lit", "MATCH (n) WHERE n.name IN [§] RETURN n"},
	{"list.set", "literal.list", "lit", "MATCH (n) SET n.tags = [§, 'b'] RETURN n"},
	{"list.create", "literal.list", "lit", "CREATE (n:NodeKind1 {tags: [§, 'b']}) RETURN n"},
	{"list.pattern_map", "literal.list", "lit", "MATCH (n {tags: [§, 'b']}) RETURN n"},
	{"list.coalesce", "literal.list", "lit", "MATCH (n) WHERE § IN coalesce(n.tags, [§, 'zz']) RETURN n"},
	{"list.harness_pair", "harness.literal_sql", "lit", "MATCH p = allShortestPaths((s:NodeKind1)-[*..]->(e)) WHERE e.name IN [§, 'zz'] AND s.name = 'x' RETURN p"},
	{"list.nested", "literal.list", "lit", "RETURN [[§], ['b']] AS x"},
	// nested map literals: the translator rejects cypher.MapLiteral outside a pattern/CREATE property map today (both twins
	// are rejected, reported as benign-rejected); the templates stay so the position is exercised the day it is supported
	{"map.nested_create", "literal.map", "lit", "CREATE (n:NodeKind1 {a: {b: §}}) RETURN n"},
	{"map.return", "literal.map", "lit", "MATCH (n) RETURN {k: §, inner: {x: §}} AS x"},
	{"interval.harness_primer", "harness.bound_sql", "lit", "MATCH p = allShortestPaths((s:NodeKind1)-[*..]->(e:NodeKind2)) WHERE s.created_at > datetime() - duration(§) RETURN p"},
	// ---- numeric literals: the value the server reads back from the number token must be the value the Cypher token denotes
	{"num.where_eq", "literal.number", "num", "MATCH (n) WHERE n.score = § RETURN n"},
	{"num.where_gt", "literal.number", "num", "MATCH (n) WHERE n.score > § RETURN n"},
	{"num.where_neg", "literal.number", "num", "MATCH (n) WHERE n.score = -§ RETURN n"},
	{"num.return", "literal.number", "num", "RETURN § AS x"},
	{"num.in_list", "literal.number", "num", "MATCH (n) WHERE n.score IN [§, §] RETURN n"},
	{"num.arith", "literal.number", "num", "MATCH (n) RETURN n.score * § AS x"},
	{"num.set", "literal.number", "num", "MATCH (n) SET n.score = § RETURN n"},
	{"num.create", "literal.number", "num", "CREATE (n:NodeKind1 {score: §}) RETURN n"},
	{"num.pattern_map", "literal.number", "num", "MATCH (n {score: §}) RETURN n"},
	{"num.expansion", "literal.number", "num", "MATCH (s:NodeKind1)-[:EdgeKind1*1..]->(e:NodeKind2) WHERE s.score = § RETURN e"},
	{"num.harness_primer", "harness.bound_sql", "num", "MATCH p = allShortestPaths((s:NodeKind1)-[*..]->({score: §})) RETURN p"},
	{"num.harness_pair", "harness.literal_sql", "num", "MATCH p = allShortestPaths((s:NodeKind1)-[*..]->(e)) WHERE e.score = § AND s.name = 'x' RETURN p"},
	{"num.skip_limit", "literal.number", "numint", "MATCH (n) RETURN n SKIP § LIMIT §"},
	{"nparam.where_eq", "parameter.number", "nparam", "MATCH (n) WHERE n.score = $pv RETURN n"},
	{"nparam.pattern_map", "parameter.number", "nparam", "MATCH (n {score: $pv}) RETURN n"},
	{"nparam.harness_primer", "parameter.materialized", "nparam", "MATCH p = allShortestPaths((s:NodeKind1)-[*..]->({score: $pv})) RETURN p"},
	{"nparam.harness_pair", "parameter.materialized", "nparam", "MATCH p = allShortestPaths((s:NodeKind1)-[*..]->(e)) WHERE e.score = $pv AND s.name = 'x' RETURN p"},
	// ---- text reaching the SQL passed to the traversal (shortest path) functions
	{"harness.primer", "harness.bound_sql", "lit", "MATCH p = allShortestPaths((s:NodeKind1)-[*..]->({name: §})) RETURN p"},
	{"harness.primer_sp.like", "harness.bound_sql", "lit", "MATCH p = shortestPath((t:NodeKind1)<-[:EdgeKind1|EdgeKind2*1..]-(s:NodeKind2)) WHERE t.system_tags CONTAINS § AND s <> t RETURN p LIMIT 10"},
	{"harness.primer_sp.coalesce", "like_operand.function_lhs", "lit", "MATCH p = shortestPath((t:NodeKind1)<-[:EdgeKind1|EdgeKind2*1..]-(s:NodeKind2)) WHERE coalesce(t.system_tags, '') CONTAINS § AND s <> t RETURN p LIMIT 10"},
	{"harness.primer_sp.regex", "regex_operand", "lit", "MATCH p = shortestPath((t:NodeKind1)<-[:EdgeKind1|EdgeKind2*1..]-(s:NodeKind2)) WHERE t.name =~ § AND s <> t RETURN p LIMIT 10"},
	{"harness.pair_filter", "harness.literal_sql", "lit", "MATCH p = allShortestPaths((s:NodeKind1)-[*..]->(e)) WHERE e.name = § AND s.name = 'x' RETURN p"},
	{"harness.pair_filter_sp", "harness.literal_sql", "lit", "MATCH p = shortestPath((s:NodeKind1)-[:EdgeKind1*1..]->(d:NodeKind1)) WHERE s.name = § AND d.name = 'dst' RETURN p"},
	{"harness.terminal_filter", "harness.literal_sql", "lit", "MATCH p = shortestPath((s:NodeKind1)-[:EdgeKind1*1..]->(d:NodeKind2)) WHERE d.name = § RETURN p"},
	{"harness.outer_filter", "literal", "lit", "MATCH p = allShortestPaths((s:NodeKind1)-[r:EdgeKind1*1..]->(e:NodeKind2)) WHERE all(x IN relationships(p) WHERE x.name = §) RETURN p"},
	// ---- property keys (UnescapePropertyKeyName -> pgsql.Literal -> formatValue)
	{"key.where_eq", "property_key", "key", "MATCH (n) WHERE n.§ = 'v' RETURN n"},
	{"key.where_num", "property_key", "key", "MATCH (n) WHERE n.§ = 1 RETURN n"},
	{"key.is_not_null", "property_key", "key", "MATCH (n) WHERE n.§ IS NOT NULL RETURN n"},
	{"key.is_null", "property_key", "key", "MATCH (n) WHERE n.§ IS NULL RETURN n"},
	{"key.return", "property_key", "key", "MATCH (n) RETURN n.§"},
	{"key.return_aliased", "property_key", "key", "MATCH (n) RETURN n.§ AS x"},
	{"key.orderby", "property_key", "key", "MATCH (n) RETURN n ORDER BY n.§"},
	{"key.fn", "property_key", "key", "MATCH (n) WHERE toLower(n.§) = 'x' RETURN n"},
	{"key.in_prop", "property_key", "key", "MATCH (n) WHERE 'a' IN n.§ RETURN n"},
	{"key.with", "property_key", "key", "MATCH (n) WITH n.§ AS x RETURN x"},
	{"key.set", "property_key", "key", "MATCH (n) SET n.§ = 1 RETURN n"},
	{"key.remove", "property_key", "key", "MATCH (n) REMOVE n.§ RETURN n"},
	{"key.rel", "property_key", "key", "MATCH (n)-[r]->(m) WHERE r.§ = 'v' RETURN m"},
	{"key.harness_pair", "harness.literal_sql", "key", "MATCH p = allShortestPaths((s:NodeKind1)-[*..]->(e)) WHERE e.§ = 'v' AND s.name = 'x' RETURN p"},
	{"key.harness_primer", "harness.bound_sql", "key", "MATCH p = allShortestPaths((s:NodeKind1)-[*..]->({name: 'q'})) WHERE s.§ = 'v' RETURN p"},
	// ---- map keys
	{"mapkey.pattern", "map_key", "key", "MATCH (n {§: 'v'}) RETURN n"},
	{"mapkey.create", "map_key", "key", "CREATE (n:NodeKind1 {§: 'v'}) RETURN n"},
	{"mapkey.rel_pattern", "map_key", "key", "MATCH (n)-[r:EdgeKind1 {§: 'v'}]->(m) RETURN m"},
	// ---- kind names (mapped to ids by the kind mapper)
	{"kind.node", "kind", "kindname", "MATCH (n:§) RETURN n"},
	{"kind.where", "kind", "kindname", "MATCH (n) WHERE n:§ RETURN n"},
	{"kind.rel", "kind", "kindname", "MATCH (n)-[r:§]->(m) RETURN m"},
	{"kind.expansion", "kind", "kindname", "MATCH (n:NodeKind1)-[:§*1..]->(m) RETURN m"},
	// ---- variable names
	{"var.node_returned", "projection.variable", "ident", "MATCH (§) RETURN §"},
	{"var.node_prop", "variable", "ident", "MATCH (§) WHERE §.name = 'x' RETURN §.name"},
	{"var.rel_returned", "projection.variable", "ident", "MATCH (n)-[§]->(m) RETURN §"},
	{"var.path_returned", "projection.variable", "ident", "MATCH § = (n)-[r]->(m) RETURN §"},
	{"var.with_alias_returned", "projection.variable", "ident", "MATCH (n) WITH n AS § RETURN §"},
	{"var.with_alias_prop", "variable", "ident", "MATCH (n) WITH n AS § RETURN §.name"},
	{"var.with_scalar", "variable", "ident", "MATCH (n) WITH n.name AS § WITH § AS y RETURN y"},
	{"var.unwind", "projection.variable", "ident", "UNWIND [1, 2] AS § RETURN §"},
	{"var.quantifier", "variable", "ident", "MATCH (n) WHERE any(§ IN n.list WHERE § = 'a') RETURN n"},
	{"var.expansion", "variable", "ident", "MATCH (§:NodeKind1)-[:EdgeKind1*1..]->(e:NodeKind2) WHERE §.name = 'x' RETURN e"},
	{"var.shortest_path", "variable", "ident", "MATCH p = shortestPath((§:NodeKind1)-[:EdgeKind1*1..]->(d:NodeKind2)) WHERE §.name = 'x' RETURN p"},
	{"var.param_name", "parameter_name", "ident", "MATCH (n) WHERE n.name = $§ RETURN n"},
	// ---- result aliases
	{"alias.return", "projection.alias", "ident", "MATCH (n) RETURN n.name AS §"},
	{"alias.return_node", "projection.alias", "ident", "MATCH (n) RETURN n AS §"},
	{"alias.return_orderby", "projection.alias", "ident", "MATCH (n) RETURN n.name AS § ORDER BY §"},
	{"alias.return_distinct", "projection.alias", "ident", "MATCH (n) RETURN DISTINCT n.name AS §"},
	{"alias.return_literal", "projection.alias", "ident", "RETURN 1 AS §"},
	{"alias.return_group", "projection.alias", "ident", "MATCH (n) RETURN n.name AS §, count(n) AS c"},
	{"alias.count", "projection.alias", "ident", "MATCH (n) RETURN count(n) AS § ORDER BY § DESC"},
	{"alias.count_fast_path", "count_fast_path.alias", "ident", "MATCH (n:NodeKind1) RETURN count(n) AS §"},
	{"alias.aggregate_with", "aggregate_traversal_count.alias", "ident", "MATCH (n:NodeKind1) MATCH (n)-[:EdgeKind1*1..]->(c:NodeKind2) WITH n, count(c) AS § RETURN n ORDER BY § DESC LIMIT 5"},
	{"alias.aggregate_return", "aggregate_traversal_count.alias", "ident", "MATCH (n:NodeKind1) MATCH (n)-[:EdgeKind1*1..]->(c:NodeKind2) WITH n, count(c) AS k RETURN n AS §, k ORDER BY k DESC LIMIT 5"},
	{"alias.aggregate_count", "aggregate_traversal_count.alias", "ident", "MATCH (n:NodeKind1) MATCH (n)-[:EdgeKind1*1..]->(c:NodeKind2) WITH n, count(c) AS k RETURN n, k AS § ORDER BY k DESC LIMIT 5"},
	{"alias.aggregate_source", "aggregate_traversal_count.alias", "ident", "MATCH (§:NodeKind1) MATCH (§)-[:EdgeKind1*1..]->(c:NodeKind2) WITH §, count(c) AS k RETURN § ORDER BY k DESC LIMIT 5"},
	{"alias.multipart", "projection.alias", "ident", "MATCH (n) WITH n, count(n) AS k WHERE k > 1 RETURN n, k AS §"},
	// ---- supplied parameter values
	{"param.where_eq", "parameter.bound", "param", "MATCH (n) WHERE n.name = $pv RETURN n"},
	{"param.in_list", "parameter.bound", "paramlist", "MATCH (n) WHERE n.name IN $pv RETURN n"},
	{"param.pattern_map", "parameter.bound", "param", "MATCH (n {name: $pv}) RETURN n"},
	{"param.expansion", "parameter.bound", "param", "MATCH (s:NodeKind1)-[:EdgeKind1*1..]->(e:NodeKind2) WHERE s.name = $pv RETURN e"},
	{"param.map_pattern", "parameter.bound", "parammap", "MATCH (n $pv) RETURN n"},
	{"param.map_create", "parameter.bound", "parammap", "CREATE (n:NodeKind1 $pv) RETURN n"},
	{"param.map_key", "parameter.bound", "parammapkey", "MATCH (n $pv) RETURN n"},
	{"param.harness_primer", "parameter.materialized", "param", "MATCH p = allShortestPaths((s:NodeKind1)-[*..]->({name: $pv})) RETURN p"},
	{"param.harness_pair", "parameter.materialized", "param", "MATCH p = allShortestPaths((s:NodeKind1)-[*..]->(e)) WHERE e.name = $pv AND s.name = 'x' RETURN p"},
	{"param.harness_sp", "parameter.materialized", "param", "MATCH p = shortestPath((s:NodeKind1)-[:EdgeKind1*1..]->(d:NodeKind1)) WHERE s.name = $pv AND d.name = 'dst' RETURN p"},
}

var c04TmplIndex = func() map[string]c04Tmpl {
	m := map[string]c04Tmpl{}
	for _, t := range c04Templates {
		m[t.ID] = t
	}
	return m
}()

// ---------------------------------------------------------------- hostile strings

// c04Fixed is the deterministic part of the hostile-string generator, simplest first.
func c04Fixed() []string {
	out := []string{
		"'", "''", "'''", "\\", "\\\\", "\\'", "'\\", "a'b", "it's", "\"", "\"\"", "a\"b", "`", "``", "a`b",
		"--", "'--", "' --", "/*", "*/", "/* */", "'/*", "*/'", "$$", "$tag$", "$tag$x$tag$", "'$$", "$1", "@name", "@pi0", "'@pi0",
		";", "';", "'; drop table node; --", "x; drop table node; --", "') or 1=1 --", "' or ''='", "\\'; drop table node; --",
		"\n", "\r", "\r\n", "'\n'", "a\nb", "a\rb", "x\rdelete from node; --", "'\r'", "\r--", "\r;", "\r\r", "x'\rdelete from node; --", "'\n", "\n'", "-- \n", "\t", "\x0b", "\x0c", "\x08", "\x1b", "\x7f", "\x01\x02\x03\x1f",
		"\u0085", "\u00a0", "\u2028", "\u2029", "\ufeff", "\u00e9", "\u65e5\u672c\u8a9e", "\U0001f600", "\U0010ffff", "a\u0301", "x\U0001f600'\U0001f600",
		"%", "_", "%'%", "e'", "E'\\''", "x'", "b'", "n'", "U&'", "u&\"", "U&'\\0027'", "u", "U", "::text", "'::text", ")", "(", "))", "]", "[", ",", ".", ":", "?", "->", "->>", "'->>'",
		"\\u0041", "\\n", "\\x", "%s", "%!v", "{", "}", "$", "${", "null", "NULL", "true", "select", "Select", "UserCount", "a b", " ", "  ", "' '", " '",
		"abc\\", "abc'", "abc\\'", "abc'\\", "abc\\\\", "abc''", "\\abc", "'abc",
		"insert into traversal_terminal_filter (id) select 1;", "unidirectional_asp_harness('x')",
		"zqbenign", "zqbenign'", "ZQBENIGN",
	}
	// every line-break character PostgreSQL, Go or Unicode knows, alone and carrying a statement (only \n and \r end a
	// -- comment for the server: the others must stay inert wherever the text lands, incl. the Cypher debug comment)
	for _, lb := range []string{"\n", "\r", "\r\n", "\n\r", "\u2028", "\u2029", "\x0b", "\x0c", "\u0085"} {
		out = append(out, "x"+lb+"delete from node; --", lb+"delete from node; --", "x'"+lb+"y", "x"+lb)
	}
	return out
}

var c04Fragments = []string{
	"'", "''", "\\", "\"", "`", "--", "/*", "*/", "$$", "$t$", "@p", ";", "\n", "\r", "\t", "\x0b", "\x01", "\x7f", " ", "(", ")", "[", "]", ",", ".", ":", "?",
	"->", "%", "_", "e", "E", "x", "N", "a", "Z", "0", "9", "\u00e9", "\u00df", "\u65e5", "\U0001f600", "\u00a0", "\u2028", "$", "{", "}", "=", "<", ">", "|", "&", "+", "-", "*", "/", "~", "!", "#", "^",
	"drop", "select", "or", "null",
}

func c04Random(rng *Rng) string {
	n := 1 + rng.Intn(8)
	var b strings.Builder
	for i := 0; i < n; i++ {
		if rng.Chance(1, 6) {
			b.WriteRune(rune('a' + rng.Intn(26)))
		} else {
			b.WriteString(Pick(rng, c04Fragments))
		}
	}
	return b.String()
}

// c04Numbers: Cypher numeric literal tokens (non-negative; the templates carry the sign). Doubles with 8 and 17 significant
// digits, integral doubles around 2^24, 2^53, 2^63, the thresholds where Go's 'g' format would switch to an exponent
// (1e21, 1e-7 — 'f' never does), subnormals, the largest double, exponent-form tokens, integers up to 2^63-1.
func c04Numbers(rng *Rng, thorough bool) []string {
	out := []string{
		"0.123456789", "16777217.0", "16777216.0", "16777215.0", "0.30000000000000004", "0.1", "0.3", "0.5", "1.5", "0.0", "0.333333333333333314829616256247",
		"9007199254740992.0", "9007199254740993.0", "9007199254740991.0", "9223372036854775808.0", "9223372036854775807.0", "18446744073709551616.0",
		"1e21", "1e20", "999999999999999900000.0", "1e22", "1.0e23", "1e-7", "1E-7", "0.000001", "0.0000001", "9.999999e-8", "1.5e300", "1.7976931348623157e308",
		"5e-324", "4.9406564584124654e-324", "2.2250738585072014e-308", "2.2250738585072009e-308", "1e-320", "123456789.125", "0.1234567", "0.12345678", "1.00000001",
		"3.141592653589793", "2.718281828459045", "100000000.5", "4294967296.5", "0.000000000000000000001",
		"0", "1", "7", "42", "2147483647", "2147483648", "4294967295", "4294967296", "16777217", "9007199254740993", "9223372036854775807", "1000000000000000000",
	}
	n := 40
	if thorough {
		n = 1500
	}
	for i := 0; i < n; i++ {
		switch rng.Intn(4) {
		case 0: // a random finite double, positional notation
			v := math.Float64frombits(rng.Next() &^ (1 << 63))
			if math.IsInf(v, 0) || math.IsNaN(v) {
				v = 1.25
			}
			t := strconv.FormatFloat(v, 'f', -1, 64)
			if !strings.Contains(t, ".") {
				t += ".0"
			}
			out = append(out, t)
		case 1: // 8..17 significant digits around 1
			digits := 8 + rng.Intn(10)
			t := "0."
			for j := 0; j < digits; j++ {
				t += string(rune('0' + rng.Intn(10)))
			}
			out = append(out, t+"1")
		case 2: // exponent form
			out = append(out, fmt.Sprintf("%d.%de%d", rng.Intn(10), rng.Intn(1000000), rng.Intn(600)-300))
		default:
			out = append(out, strconv.FormatUint(rng.Next()>>uint(1+rng.Intn(62)), 10))
		}
	}
	return out
}

// c04NumParams: typed parameter values "<go type>:<text>" that the formatter inlines under MaterializeParameters.
func c04NumParams(rng *Rng, thorough bool) []string {
	out := []string{
		"float64:0.123456789", "float64:16777217", "float64:0.30000000000000004", "float64:-0.123456789", "float64:1e21", "float64:1e-7", "float64:5e-324",
		"float64:1.7976931348623157e308", "float64:9007199254740993", "float64:-9223372036854775808", "float64:0", "float64:123456789.125",
		"float32:0.1", "float32:16777216", "float32:0.123456789", "float32:-3.4028235e38", "float32:1e-45", "float32:0.3",
		"int:9223372036854775807", "int:-9223372036854775808", "int64:9223372036854775807", "int64:-9223372036854775808", "int64:-1", "int32:2147483647", "int32:-2147483648",
		"int16:-32768", "int16:32767", "int8:-128", "int8:127", "uint:18446744073709551615", "uint64:18446744073709551615", "uint32:4294967295", "uint16:65535", "uint8:255",
	}
	n := 20
	if thorough {
		n = 600
	}
	for i := 0; i < n; i++ {
		v := math.Float64frombits(rng.Next())
		if math.IsInf(v, 0) || math.IsNaN(v) {
			continue
		}
		out = append(out, "float64:"+strconv.FormatFloat(v, 'g', -1, 64), "float32:"+strconv.FormatFloat(float64(float32(math.Float32frombits(uint32(rng.Next())))), 'g', -1, 32),
			"int64:"+strconv.FormatInt(int64(rng.Next()), 10))
	}
	return out
}

// c04NumExp renders the expectation for a number: sign, class and magnitude (float64 bit pattern of |v| or the integer |v|).
func c04NumExpF(v float64) string {
	sign := "pos"
	if math.Signbit(v) {
		sign = "neg"
	}
	return fmt.Sprintf("%s f64 \"%d\"", sign, math.Float64bits(math.Abs(v)))
}

func c04NumExpI(neg bool, mag uint64) string {
	sign := "pos"
	if neg {
		sign = "neg"
	}
	return fmt.Sprintf("%s int \"%d\"", sign, mag)
}

// c04ParseNumToken: what the frontend does with a numeric literal token (strconv.ParseInt base 10 / ParseFloat 64).
func c04ParseNumToken(tok string) (exp string, ok bool) {
	if !strings.ContainsAny(tok, ".eE") {
		v, err := strconv.ParseInt(tok, 10, 64)
		if err != nil || v < 0 {
			return "", false
		}
		return c04NumExpI(false, uint64(v)), true
	}
	v, err := strconv.ParseFloat(tok, 64)
	if err != nil || math.IsInf(v, 0) || math.IsNaN(v) {
		return "", false
	}
	return c04NumExpF(v), true
}

// c04TypedNumber parses "<type>:<text>" into the Go value and its expectation; benign = the twin of the same type and sign.
func c04TypedNumber(spec string) (value, benign any, exp, bexp string, ok bool) {
	i := strings.IndexByte(spec, ':')
	if i < 0 {
		return
	}
	typ, text := spec[:i], spec[i+1:]
	neg := strings.HasPrefix(text, "-")
	switch typ {
	case "float64", "float32":
		bits := 64
		if typ == "float32" {
			bits = 32
		}
		v, err := strconv.ParseFloat(text, bits)
		if err != nil || math.IsNaN(v) || math.IsInf(v, 0) {
			return
		}
		b := 7.25
		if math.Signbit(v) {
			b = -7.25
		}
		if typ == "float32" {
			return float32(v), float32(b), c04NumExpF(float64(float32(v))), c04NumExpF(b), true
		}
		return v, b, c04NumExpF(v), c04NumExpF(b), true
	case "uint", "uint64", "uint32", "uint16", "uint8":
		v, err := strconv.ParseUint(text, 10, 64)
		if err != nil {
			return
		}
		exp, bexp = c04NumExpI(false, v), c04NumExpI(false, 7)
		switch typ {
		case "uint":
			return uint(v), uint(7), exp, bexp, true
		case "uint64":
			return v, uint64(7), exp, bexp, true
		case "uint32":
			return uint32(v), uint32(7), exp, bexp, true
		case "uint16":
			return uint16(v), uint16(7), exp, bexp, true
		default:
			return uint8(v), uint8(7), exp, bexp, true
		}
	case "int", "int64", "int32", "int16", "int8":
		v, err := strconv.ParseInt(text, 10, 64)
		if err != nil {
			return
		}
		mag := uint64(v)
		b := int64(7)
		if neg {
			mag = uint64(-v) // two's complement: correct for MinInt64 too
			b = -7
		}
		exp, bexp = c04NumExpI(neg, mag), c04NumExpI(neg, 7)
		switch typ {
		case "int":
			return int(v), int(b), exp, bexp, true
		case "int64":
			return v, b, exp, bexp, true
		case "int32":
			return int32(v), int32(b), exp, bexp, true
		case "int16":
			return int16(v), int16(b), exp, bexp, true
		default:
			return int8(v), int8(b), exp, bexp, true
		}
	}
	return
}

// c04Long are the 64 KiB strings.
func c04Long() []string {
	const n = 1 << 16
	return []string{
		strings.Repeat("a", n),
		strings.Repeat("'", n),
		strings.Repeat("\\", n-1) + "'",
		strings.Repeat("a'b\\\"`--/*", n/10) + "\\",
		strings.Repeat("\U0001f600", n/4) + "'",
	}
}

// c04Excluded: strings outside the property's quantifier (NUL); run to report what the real code does there.
func c04Excluded() []string { return []string{"\x00", "a\x00b", "'\x00'"} }

// ---------------------------------------------------------------- Cypher tokens for a text

// c04Token renders text s as the Cypher token for the template kind under the requested encoding.
func c04Token(kind, enc, s string) (string, bool) {
	switch kind {
	case "lit":
		switch enc {
		case "dq":
			r := strings.NewReplacer("\\", "\\\\", "\"", "\\\"")
			return "\"" + r.Replace(s) + "\"", true
		case "esc":
			r := strings.NewReplacer("\\", "\\\\", "'", "\\'", "\n", "\\n", "\r", "\\r", "\t", "\\t", "\x08", "\\b", "\x0c", "\\f")
			return "'" + r.Replace(s) + "'", true
		default:
			return cypher.NewStringLiteral(s).Value.(string), true
		}
	case "key", "ident", "kindname":
		if s == "" {
			return "", false
		}
		if enc == "bt" {
			return "`" + strings.ReplaceAll(s, "`", "``") + "`", true
		}
		return cypher.EscapePropertyKeyName(s), true
	}
	return s, true
}

// ---------------------------------------------------------------- gen

type c04Suite struct{}

func init() {
	register("c04", c04Suite{})
	register("c04q", c04qSuite{})
}

func (c04Suite) Gen(rng *Rng, tier string, w *bufio.Writer, stats *Stats) {
	n := 0
	emit := func(t c04Tmpl, enc, s string) {
		n++
		fmt.Fprintf(w, "# case %d %s %s\n", n, t.Site, t.ID)
		fmt.Fprintf(w, "t %s %s %s\n", t.ID, enc, jsonQuote(s))
		stats.Inc(t.Kind)
	}
	n++
	fmt.Fprintf(w, "# case %d options\n", n)
	fmt.Fprintln(w, "o options")
	thorough := tier == "thorough"
	fixed := c04Fixed()
	nrand := 6
	if thorough {
		nrand = 250
	}
	seenSite := map[string]bool{}
	seenKind := map[string]bool{}
	for ti, t := range c04Templates {
		if t.Kind == "num" || t.Kind == "numint" || t.Kind == "nparam" {
			vals := c04Numbers(rng, thorough)
			if t.Kind == "nparam" {
				vals = c04NumParams(rng, thorough)
			}
			for _, v := range vals {
				if t.Kind == "numint" && strings.ContainsAny(v, ".eE") {
					continue
				}
				emit(t, "std", v)
			}
			continue
		}
		firstOfSite := !seenSite[t.Site]
		firstOfKind := !seenKind[t.Kind]
		seenSite[t.Site] = true
		seenKind[t.Kind] = true
		for si, s := range fixed {
			// quick: the first template of every call site gets the whole list, the others a rotating third
			if !thorough && !firstOfSite && (si+ti)%3 != 0 {
				continue
			}
			emit(t, "std", s)
			if t.Kind == "lit" && (firstOfSite || thorough) {
				emit(t, "dq", s)
				emit(t, "esc", s)
			}
			if (t.Kind == "key" || t.Kind == "ident") && (firstOfSite || thorough) {
				emit(t, "bt", s)
			}
		}
		for i := 0; i < nrand; i++ {
			emit(t, Pick(rng, []string{"std", "std", "dq", "esc", "bt"}), c04Random(rng))
		}
		if firstOfKind || (thorough && firstOfSite) {
			for _, s := range c04Long() {
				emit(t, "std", s)
			}
		}
		if firstOfSite {
			for _, s := range c04Excluded() {
				emit(t, "std", s)
			}
		}
	}
	// second family: text that reaches the SQL without passing the Cypher lexer (query builders, pg statement builders)
	seenBSite := map[string]bool{}
	for ti, t := range c04BTemplates {
		firstOfSite := !seenBSite[t.Site]
		seenBSite[t.Site] = true
		emitB := func(s string) {
			n++
			fmt.Fprintf(w, "# case %d %s %s\n", n, t.Site, t.ID)
			fmt.Fprintf(w, "t %s std %s\n", t.ID, jsonQuote(s))
			stats.Inc(t.Kind)
		}
		for si, s := range append(c04BuilderNames(), fixed...) {
			if !thorough && !firstOfSite && (si+ti)%3 != 0 {
				continue
			}
			emitB(s)
		}
		for i := 0; i < nrand; i++ {
			emitB(c04Random(rng))
		}
		if firstOfSite {
			for _, s := range c04Long()[:2] {
				emitB(s)
			}
		}
	}
}

// c04BuilderNames: names aimed at the builders' symbol guard — one per ASCII character that is not a letter, digit or
// underscore (in second position, where the guard's "part" class applies, and in first position), the characters of the
// Unicode symbol/punctuation/mark/number categories, and bare names the guard accepts.
func c04BuilderNames() []string {
	var out []string
	for c := rune(0x21); c < 0x7f; c++ {
		if c == '_' || (c >= '0' && c <= '9') || (c >= 'a' && c <= 'z') || (c >= 'A' && c <= 'Z') {
			continue
		}
		out = append(out, "a"+string(c)+"b", string(c)+"a", "a"+string(c))
	}
	out = append(out,
		"a||b", "x<y", "x>y", "n<>all", "c+1>0", "a=b", "a~b", "a^b", "a`b", "a|b", "total_$", "a$b", "$a", "1a", "a1", "_a", "__",
		"gr\u00f6\u00dfe", "\u00e9", "a\u0301", "a\u00d7b", "a\u00f7b", "a\u00acb", "a\u00a6b", "a\u20acb", "a\u00a3", "a\u00b1b", "a\u2212b", "a\u2264b", "a\u00a8b", "a\u00b4b",
		"a\u00a9b", "a\u2122b", "a\u00b0b", "a\u2028b", "a\u00a0b", "a\u200db", "a\u2160", "\u2160a", "a\u203fb", "a\u0660b", "a\u00b2b", "a\u00bdb", "a\uff0bb", "a\uff1cb")
	return out
}

// ---------------------------------------------------------------- run

type c04Runner struct {
	stats *Stats
}

func (c04Suite) NewRunner(stats *Stats) Runner { return &c04Runner{stats: stats} }

func c04Mapper(extraKind string) *pgutil.InMemoryKindMapper {
	m := pgutil.NewInMemoryKindMapper()
	for _, k := range []string{"NodeKind1", "NodeKind2", "EdgeKind1", "EdgeKind2"} {
		m.Put(graph.StringKind(k))
	}
	if extraKind != "" {
		m.Put(graph.StringKind(extraKind))
	}
	return m
}

func c04ErrClass(err error) string {
	msg := err.Error()
	for _, c := range []struct{ sub, cls string }{
		{"invalid cypher string literal", "decode-bad-literal"}, {"dangling escape in string literal", "decode-dangling"}, {"invalid escape \\", "decode-invalid-escape"},
		{"token recognition error", "syntax"}, {"no viable alternative", "syntax"}, {"mismatched input", "syntax"}, {"extraneous input", "syntax"},
		{"missing kinds", "missing-kinds"}, {"missing ", "syntax"}, {"unsupported literal type", "unsupported-literal-type"},
		{"missing kinds", "missing-kinds"}, {"unable to resolve", "unresolved-identifier"},
	} {
		if strings.Contains(msg, c.sub) {
			return c.cls
		}
	}
	return "other"
}

func c04Params(p map[string]any) string {
	keys := make([]string, 0, len(p))
	for k := range p {
		keys = append(keys, k)
	}
	sort.Strings(keys)
	var b strings.Builder
	b.WriteString("(params")
	for _, k := range keys {
		b.WriteString(" (" + jsonQuote(k) + " ")
		switch v := p[k].(type) {
		case string:
			b.WriteString("(s " + jsonQuote(v) + ")")
		case []string:
			b.WriteString("(l")
			for _, e := range v {
				b.WriteString(" " + jsonQuote(e))
			}
			b.WriteString(")")
		case float64:
			b.WriteString("(n " + c04NumExpF(v) + ")")
		case float32:
			b.WriteString("(n " + c04NumExpF(float64(v)) + ")")
		case int, int8, int16, int32, int64:
			iv := reflect.ValueOf(v).Int()
			if iv < 0 {
				b.WriteString("(n " + c04NumExpI(true, uint64(-iv)) + ")")
			} else {
				b.WriteString("(n " + c04NumExpI(false, uint64(iv)) + ")")
			}
		case uint, uint8, uint16, uint32, uint64:
			b.WriteString("(n " + c04NumExpI(false, reflect.ValueOf(v).Uint()) + ")")
		case pgtype.JSONB:
			var decoded any
			if v.Status == pgtype.Present && json.Unmarshal(v.Bytes, &decoded) == nil {
				b.WriteString("(l")
				for _, e := range c04JSONLeaves(decoded, nil) {
					b.WriteString(" " + jsonQuote(e))
				}
				b.WriteString(")")
			} else {
				b.WriteString("(o " + jsonQuote(fmt.Sprintf("jsonb-status-%d", v.Status)) + ")")
			}
		case map[string]any:
			b.WriteString("(l")
			for _, e := range c04JSONLeaves(v, nil) {
				b.WriteString(" " + jsonQuote(e))
			}
			b.WriteString(")")
		default:
			b.WriteString("(o " + jsonQuote(fmt.Sprintf("%T:%v", v, v)) + ")")
		}
		b.WriteString(")")
	}
	b.WriteString(")")
	return b.String()
}

// c04JSONLeaves lists the keys and string leaves of a decoded JSON value in a canonical order (object members by the
// order of their VALUES' rendering is not stable under a renamed key, so objects are walked by sorted key but the key
// itself is emitted next to its value; the templates use one hostile key or hostile values, never both).
func c04JSONLeaves(v any, out []string) []string {
	switch t := v.(type) {
	case map[string]any:
		keys := make([]string, 0, len(t))
		for k := range t {
			keys = append(keys, k)
		}
		sort.Strings(keys)
		for _, k := range keys {
			out = append(out, "key:"+k)
			out = c04JSONLeaves(t[k], out)
		}
	case []any:
		for _, e := range t {
			out = c04JSONLeaves(e, out)
		}
	case string:
		out = append(out, "str:"+t)
	default:
		out = append(out, fmt.Sprintf("%T:%v", t, t))
	}
	return out
}

// c04Options: the option parameters of the entry points and the values the runner exercises for every case that reaches
// the entry point (compared with the Lean side's list by the `o` op, which the T-tie compares with the extracted table).
const c04Options = "translate.FromCypher.stripLiterals=false,true;cypherformat.NewCypherEmitter.stripLiterals=false,true;" +
	"cypherformat.RegularQuery.stripLiterals=false,true;cypherformat.Emitter.StripLiterals=false,true;" +
	"format.OutputBuilder.MaterializeParameters=false,true;format.OutputBuilder.StripLiterals=false,true"

type c04Out struct {
	res   string // (ok sql (pgx n) (params …)) | (err …) | (panic …)
	fc    string // FromCypher(stripLiterals=false) statement
	extra string // further fields of the answer: fcs (stripLiterals=true), cy / cys (the Cypher texts of the header), fmtstrip
	mat   string // the statement formatted with OutputBuilder.MaterializeParameters = true
}

// c04Translate runs the pg driver's text path: ParseCypher(NewContext) -> Translate -> Translated, then pgx's
// NamedArgs rewriter (what the driver hands to the connection), all on the real code; and every option of the entry
// points under both values.
func c04Translate(query string, mapper pgsql.KindMapper, params map[string]any, withFromCypher bool, stats *Stats) (out c04Out) {
	out.fc, out.mat = "(skip)", "(skip)"
	model, err := frontend.ParseCypher(frontend.NewContext(), query)
	if err != nil {
		out.res = "(err " + jsonQuote("parse:"+c04ErrClass(err)) + ")"
		return
	}
	if model == nil {
		out.res = "(err \"parse:nil-model\")"
		return
	}
	tr, terr, panicked := translateSafe(model, mapper, params)
	if panicked != "" {
		out.res = "(panic " + jsonQuote(c04Trunc(panicked)) + ")"
		return
	}
	if terr != nil {
		out.res = "(err " + jsonQuote("translate:"+c04ErrClass(terr)) + ")"
		return
	}
	sql, ferr := translate.Translated(tr)
	if ferr != nil {
		out.res = "(err " + jsonQuote("format:"+c04ErrClass(ferr)) + ")"
		return
	}
	nargs := -1
	if _, args, rerr := pgx.NamedArgs(tr.Parameters).RewriteQuery(context.Background(), nil, sql, nil); rerr == nil {
		nargs = len(args)
	}
	out.res = fmt.Sprintf("(ok %s (pgx %d) %s)", jsonQuote(sql), nargs, c04Params(tr.Parameters))
	// OutputBuilder.StripLiterals = true (a field the formatter never reads today: the text must not change)
	stripBuilder := format.NewOutputBuilder()
	stripBuilder.StripLiterals = true
	if sql2, err := format.Statement(tr.Statement, stripBuilder); err != nil {
		out.extra += " (fmtstrip (err " + jsonQuote("format:"+c04ErrClass(err)) + "))"
	} else if sql2 == sql {
		out.extra += " (fmtstrip (same))"
	} else {
		out.extra += " (fmtstrip (ok " + jsonQuote(sql2) + "))"
	}
	stats.Inc("opt.OutputBuilder.StripLiterals.true")
	// OutputBuilder.MaterializeParameters = true on the whole statement (the translator does it for nested SQL only)
	if len(tr.Parameters) > 0 {
		if msql, err := format.Statement(tr.Statement, format.NewOutputBuilder().WithMaterializedParameters(tr.Parameters)); err != nil {
			out.mat = "(err " + jsonQuote("format:"+c04ErrClass(err)) + ")"
		} else {
			out.mat = "(ok " + jsonQuote(msql) + ")"
			stats.Inc("opt.OutputBuilder.MaterializeParameters.true")
		}
	}
	if withFromCypher {
		out.fc = c04FromCypher(model, mapper, false)
		out.extra += " (fcs " + c04FromCypher(model, mapper, true) + ")"
		for _, strip := range []bool{false, true} {
			tag := "cy"
			if strip {
				tag = "cys"
			}
			if text, err := cypherFormat.RegularQuery(model, strip); err == nil {
				out.extra += " (" + tag + " " + jsonQuote(strings.TrimSpace(text)) + ")"
			}
			stats.Inc(fmt.Sprintf("opt.FromCypher.stripLiterals.%v", strip))
		}
	}
	return
}

func c04FromCypher(model *cypher.RegularQuery, mapper pgsql.KindMapper, stripLiterals bool) (out string) {
	defer func() {
		if p := recover(); p != nil {
			out = "(panic " + jsonQuote(c04Trunc(fmt.Sprint(p))) + ")"
		}
	}()
	f, err := translate.FromCypher(context.Background(), model, mapper, stripLiterals, translate.DefaultGraphID)
	if err != nil {
		return "(err " + jsonQuote("fromcypher:"+c04ErrClass(err)) + ")"
	}
	return "(ok " + jsonQuote(f.Statement) + ")"
}

func c04NameCollides(query, name string) bool {
	for _, w := range strings.FieldsFunc(query, func(r rune) bool {
		return !(r == '_' || (r >= '0' && r <= '9') || (r >= 'a' && r <= 'z') || (r >= 'A' && r <= 'Z'))
	}) {
		if strings.EqualFold(w, name) {
			return true
		}
	}
	return false
}

func c04Trunc(s string) string {
	s = strings.ReplaceAll(s, "\n", " ")
	if len(s) > 120 {
		s = s[:120]
	}
	return strings.ToValidUTF8(s, "?")
}

func (r *c04Runner) Step(t []string, raw string) string {
	if len(t) >= 1 && t[0] == "q" {
		// corpus files of suite c04q share the file-name prefix of this suite (corpus/C04/c04q*.ops matches c04*.ops)
		return "(r (skip \"c04q-op\"))"
	}
	if len(t) >= 1 && t[0] == "o" {
		return "(r (opts " + jsonQuote(c04Options) + "))"
	}
	if len(t) < 4 || t[0] != "t" {
		return "bad-op"
	}
	btmpl, isBuilder := c04BTmplIndex[t[1]]
	tmpl, ok := c04TmplIndex[t[1]]
	if !ok && !isBuilder {
		return "bad-op"
	}
	enc := t[2]
	rest := strings.TrimSpace(raw)
	for i := 0; i < 3; i++ { // drop "t", id, enc
		rest = strings.TrimSpace(rest[strings.IndexByte(rest, ' ')+1:])
	}
	s, ok := jsonUnquote(rest)
	if !ok || !utf8.ValidString(s) {
		return "bad-op"
	}
	if isBuilder {
		return c04bStep(btmpl, s, r.stats)
	}
	if tmpl.Kind == "num" || tmpl.Kind == "numint" || tmpl.Kind == "nparam" {
		return r.stepNumber(tmpl, s)
	}
	hraw, ok1 := c04Token(tmpl.Kind, enc, s)
	braw, ok2 := c04Token(tmpl.Kind, enc, c04Benign)
	if !ok1 || !ok2 {
		return "(r (skip \"empty-name\"))"
	}
	if (tmpl.Kind == "ident" || tmpl.Kind == "kindname") && c04NameCollides(tmpl.Query, s) {
		// the generated name is one the template itself binds (n, e, p, …): a different query, not a twin
		return "(r (skip \"name-collision\"))"
	}
	var h, b c04Out
	switch tmpl.Kind {
	case "param":
		h = c04Translate(tmpl.Query, c04Mapper(""), map[string]any{"pv": s}, false, r.stats)
		b = c04Translate(tmpl.Query, c04Mapper(""), map[string]any{"pv": c04Benign}, false, r.stats)
	case "parammap":
		h = c04Translate(tmpl.Query, c04Mapper(""), map[string]any{"pv": map[string]any{"k": s, "inner": map[string]any{"x": s}, "l": []any{s, "zz"}}}, false, r.stats)
		b = c04Translate(tmpl.Query, c04Mapper(""), map[string]any{"pv": map[string]any{"k": c04Benign, "inner": map[string]any{"x": c04Benign}, "l": []any{c04Benign, "zz"}}}, false, r.stats)
	case "parammapkey":
		h = c04Translate(tmpl.Query, c04Mapper(""), map[string]any{"pv": map[string]any{s: "v"}}, false, r.stats)
		b = c04Translate(tmpl.Query, c04Mapper(""), map[string]any{"pv": map[string]any{c04Benign: "v"}}, false, r.stats)
	case "paramlist":
		h = c04Translate(tmpl.Query, c04Mapper(""), map[string]any{"pv": []string{s, "zz"}}, false, r.stats)
		b = c04Translate(tmpl.Query, c04Mapper(""), map[string]any{"pv": []string{c04Benign, "zz"}}, false, r.stats)
	case "kindname":
		hq := strings.ReplaceAll(tmpl.Query, "§", hraw)
		bq := strings.ReplaceAll(tmpl.Query, "§", braw)
		h = c04Translate(hq, c04Mapper(hraw), nil, true, r.stats)
		b = c04Translate(bq, c04Mapper(braw), nil, false, r.stats)
	default:
		hq := strings.ReplaceAll(tmpl.Query, "§", hraw)
		bq := strings.ReplaceAll(tmpl.Query, "§", braw)
		h = c04Translate(hq, c04Mapper(""), nil, !strings.Contains(tmpl.Query, "$"), r.stats)
		b = c04Translate(bq, c04Mapper(""), nil, false, r.stats)
	}
	hres, bres, fc := h.res, b.res, h.fc
	extra := h.extra + " (math " + h.mat + ") (matb " + b.mat + ")"
	r.stats.Inc("run." + tmpl.Kind)
	if strings.HasPrefix(hres, "(ok") {
		r.stats.Inc("translated." + tmpl.Kind)
	} else {
		r.stats.Inc("rejected." + tmpl.Kind)
	}
	kind := tmpl.Kind
	return fmt.Sprintf("(r (site %s) (tmpl %s) (kind %s) (xf %s) (hraw %s) (braw %s) (hval %s) (bval %s) (h %s) (b %s) (fc %s)%s)",
		jsonQuote(tmpl.Site), jsonQuote(tmpl.ID), kind, tmpl.Xf(), jsonQuote(hraw), jsonQuote(braw), jsonQuote(s), jsonQuote(c04Benign), hres, bres, fc, extra)
}

// stepNumber: numeric literal tokens and typed numeric parameter values.
func (r *c04Runner) stepNumber(tmpl c04Tmpl, s string) string {
	var (
		h, b      c04Out
		exp, bexp string
		braw      = "7.25"
	)
	if tmpl.Kind == "nparam" {
		value, benign, e, be, ok := c04TypedNumber(s)
		if !ok {
			return "(r (skip \"bad-number\"))"
		}
		exp, bexp, braw = e, be, fmt.Sprint(benign)
		h = c04Translate(tmpl.Query, c04Mapper(""), map[string]any{"pv": value}, false, r.stats)
		b = c04Translate(tmpl.Query, c04Mapper(""), map[string]any{"pv": benign}, false, r.stats)
	} else {
		e, ok := c04ParseNumToken(s)
		if !ok {
			return "(r (skip \"bad-number\"))"
		}
		if !strings.ContainsAny(s, ".eE") {
			braw = "7"
		}
		be, _ := c04ParseNumToken(braw)
		exp, bexp = e, be
		h = c04Translate(strings.ReplaceAll(tmpl.Query, "§", s), c04Mapper(""), nil, true, r.stats)
		b = c04Translate(strings.ReplaceAll(tmpl.Query, "§", braw), c04Mapper(""), nil, false, r.stats)
	}
	r.stats.Inc("run.num")
	if strings.HasPrefix(h.res, "(ok") {
		r.stats.Inc("translated.num")
	} else {
		r.stats.Inc("rejected.num")
	}
	kind := "num"
	if tmpl.Kind == "nparam" {
		kind = "nparam"
	}
	extra := h.extra + " (math " + h.mat + ") (matb " + b.mat + ")"
	return fmt.Sprintf("(r (site %s) (tmpl %s) (kind %s) (xf -) (hraw %s) (braw %s) (hval %s) (bval %s) (nexp (h %s) (b %s)) (h %s) (b %s) (fc %s)%s)",
		jsonQuote(tmpl.Site), jsonQuote(tmpl.ID), kind, jsonQuote(s), jsonQuote(braw), jsonQuote(s), jsonQuote(braw), exp, bexp, h.res, b.res, h.fc, extra)
}

// ---------------------------------------------------------------- c04q: differential of the string functions

type c04qSuite struct{}

func (c04qSuite) Gen(rng *Rng, tier string, w *bufio.Writer, stats *Stats) {
	n := 0
	emit := func(s string) {
		n++
		fmt.Fprintf(w, "# case %d\n", n)
		fmt.Fprintf(w, "q %s\n", jsonQuote(s))
	}
	var all []string
	all = append(all, "")
	all = append(all, c04Fixed()...)
	all = append(all, c04Long()...)
	all = append(all, c04Excluded()...)
	nrand := 1500
	if tier == "thorough" {
		nrand = 60000
	}
	for i := 0; i < nrand; i++ {
		all = append(all, c04Random(rng))
	}
	// decimal texts for the float8 read-back model: 'f' renderings of random doubles at 64 and at 32 bits, the literal list
	nnum := 600
	if tier == "thorough" {
		nnum = 40000
	}
	numTexts := []string{}
	for _, t := range c04Numbers(rng, tier == "thorough") {
		if !strings.ContainsAny(t, "eE") {
			numTexts = append(numTexts, t)
		}
	}
	for i := 0; i < nnum; i++ {
		v := math.Float64frombits(rng.Next() &^ (1 << 63))
		if math.IsInf(v, 0) || math.IsNaN(v) {
			continue
		}
		numTexts = append(numTexts, strconv.FormatFloat(v, 'f', -1, 64), strconv.FormatFloat(v, 'f', -1, 32), strconv.FormatFloat(v, 'f', 3+rng.Intn(20), 64))
	}
	for _, t := range numTexts {
		if t == "" || t[0] < '0' || t[0] > '9' { // +Inf: a double beyond the float32 range rendered at 32 bits
			continue
		}
		n++
		fmt.Fprintf(w, "# case %d\n", n)
		fmt.Fprintf(w, "n %s\n", t)
		stats.Inc("numbers")
	}
	for _, s := range all {
		emit(s)
		stats.Inc("strings")
		// the same text as a (possibly malformed) Cypher literal token and as a back-ticked name
		if len(s) < 4096 {
			emit("'" + s + "'")
			emit("\"" + s + "\"")
			emit("`" + s + "`")
			emit(cypher.NewStringLiteral(s).Value.(string))
		}
	}
}

type c04qRunner struct {
	stats *Stats
	model *cypher.RegularQuery
	lit   *cypher.Literal
}

type c04LitFinder struct {
	walk.Visitor[cypher.SyntaxNode]
	lit *cypher.Literal
}

func (f *c04LitFinder) Enter(n cypher.SyntaxNode) {
	if l, ok := n.(*cypher.Literal); ok && f.lit == nil {
		f.lit = l
	}
}
func (f *c04LitFinder) Exit(cypher.SyntaxNode)  {}
func (f *c04LitFinder) Visit(cypher.SyntaxNode) {}

func (c04qSuite) NewRunner(stats *Stats) Runner {
	r := &c04qRunner{stats: stats}
	model, err := frontend.ParseCypher(frontend.NewContext(), "RETURN 'x' AS x")
	if err == nil && model != nil {
		f := &c04LitFinder{Visitor: walk.NewVisitor[cypher.SyntaxNode]()}
		if walk.Cypher(model, f) == nil && f.lit != nil {
			r.model, r.lit = model, f.lit
		}
	}
	return r
}

func hx(s string) string { return hex.EncodeToString([]byte(s)) }

func (r *c04qRunner) Step(t []string, raw string) string {
	if len(t) == 2 && t[0] == "n" {
		// float8 input of a positional decimal text: Go's correctly rounded ParseFloat vs the Lean model's nearestF64Bits
		v, err := strconv.ParseFloat(t[1], 64)
		if err != nil && !math.IsInf(v, 0) {
			return "bad-op"
		}
		r.stats.Inc("numbers")
		return fmt.Sprintf("f64=%d", math.Float64bits(v))
	}
	if len(t) < 2 || t[0] != "q" {
		return "bad-op"
	}
	s, ok := jsonUnquote(strings.TrimSpace(strings.TrimPrefix(strings.TrimSpace(raw), "q")))
	if !ok || !utf8.ValidString(s) {
		return "bad-op"
	}
	// formatValue (string case) through the exported formatter entry point
	pgq, err := format.SyntaxNode(pgsql.NewLiteral(s, pgsql.Text))
	if err != nil {
		pgq = "ERR"
	}
	// formatIdentifier through the exported formatter entry point
	ident, err := format.SyntaxNode(pgsql.Identifier(s))
	if err != nil {
		ident = "ERR"
	}
	enc := cypher.NewStringLiteral(s).Value.(string)
	key := cypher.UnescapePropertyKeyName(s)
	bt := "`" + strings.ReplaceAll(s, "`", "``") + "`"
	keyrt := cypher.UnescapePropertyKeyName(bt)
	// decodeCypherStringLiteral is unexported: reach it through the translator with the literal token s
	dec := "unavailable"
	if r.lit != nil {
		r.lit.Value = s
		tr, terr, panicked := translateSafe(r.model, c04Mapper(""), nil)
		switch {
		case panicked != "":
			dec = "panic"
		case terr != nil:
			dec = "err:" + c04ErrClass(terr)
		default:
			if sql, ferr := translate.Translated(tr); ferr != nil {
				dec = "err:format"
			} else {
				dec = "sql:" + hx(sql)
			}
		}
	}
	r.stats.Inc("strings")
	if strings.HasPrefix(dec, "sql:") {
		r.stats.Inc("decode.ok")
	} else {
		r.stats.Inc("decode." + dec)
	}
	rt := 1
	if strings.ContainsRune(s, 0) {
		rt = 0
	}
	return fmt.Sprintf("pgq=%s ident=%s enc=%s key=%s keyrt=%s dec=%s rt=%d", hx(pgq), hx(ident), hx(enc), hx(key), hx(keyrt), dec, rt)
}
