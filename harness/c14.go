package main

import (
	"bufio"
	"bytes"
	"context"
	"encoding/hex"
	"fmt"
	"io"
	"log/slog"
	"math/big"
	"os"
	"sort"
	"strconv"
	"strings"

	"github.com/specterops/dawgs/cardinality"
	"github.com/specterops/dawgs/container"
	cutil "github.com/specterops/dawgs/container/util"
	cyphermodel "github.com/specterops/dawgs/cypher/models/cypher"
	"github.com/specterops/dawgs/graph"
)

// C14: every directed-graph container of /repo/container against the Lean model Dawgs.C14.
//
// Op lines (answers in parentheses):
//   graph                         fresh containers (ok)
//   mode current|fixed            model-side switch only (ok)
//   node N | edge ID S E          AddNode / AddEdge+AddTriple on every container (ok)
//   tsdel ID                      triplestore.DeleteEdge (ok)
//   proj DN DE | proj2 DN DE      handle `proj` := ts.Projection / proj.Projection (ok); sets are `a,b,c` or `-`
//   proj H PARENT DN DE           handle H := PARENT.Projection(DN, DE), PARENT = store or an existing handle (ok);
//                                 every handle is a first-class container name C below (nested projections)
//                                 optional 6th token PN/PE = the Duplex implementation the two argument sets are passed in:
//                                 b64 (NewBitmap64With), tsd (ThreadSafeDuplex of it), tsd2 (doubly wrapped)
//   build DESC                    the FACTORY entry points on one adjacency description (a Go map; `src>d1,d2;src>;src>~`, `~` = nil
//                                 list): container `fam` := container.BuildAdjacencyMapGraph(DESC), `fcsr` := util.BuildGraph(
//                                 container.NewCSRDigraphBuilder, DESC); both are observed through a canonicalising wrapper (sorted
//                                 EachNode / EachAdjacentNode) because Go map iteration order is random
//   fetch all|k0|k1               container `fetch` := container.FetchDirectedGraph / FetchFilteredDirectedGraph over a stub
//                                 graph.Database holding the case's edges (kind of an edge = K<id%2>)
//   snap H                        full canonical view of handle H (NumNodes, EachNode, NumEdges, EachEdge, per node and
//                                 direction EachAdjacentNode as a set / EachAdjacentEdge ids) and of the caller-owned bitmaps
//   From the first `proj` of a case on, EVERY answer carries ` ## H=<view hash>:<argument hash> …` for all live handles
//   (FNV-1a of the canonical view / of the bitmaps that were passed to Projection): a projection is an immutable value.
//   nodes C                       n=<NumNodes> [EachNode order]              C in am csr ts proj
//   adj C D | adj1 C D N          EachAdjacentNode callback sequences, per node `v:[..]`   D in out in both
//   reach C D | reach1 C D N      container.Reach(...).Slice()
//   bfs C D | bfs1 C D N          container.BFSTree in discovery order `n@dist`
//   norm am|csr D                 Normalize(): rev=[..] then adjacency of the renumbered graph
//   seg n1 e1 n2 e2 ... nk        MarshalSegment bytes (hex) and UnmarshalSegment of them
//   toseg nodes edges             SerializedSegment{Nodes, Edges}.ToSegment() -> Nodes()/Edges() of the result, or `index-panic`
//   tsbfs|tsdfs ts|proj D MAXDEPTH ROOT FILTER     handler calls in order, FILTER = all | nostart:ids | noedge:ids
//   tssl ts|proj D MAXDEPTH ROOT FILTER            TSStatelessBFS terminals `node@distance*weight` in order, weight(e) = 1 + id%3
//   numedges C | dims C D         NumEdges() / container.Dimensions(g, D) as `n largestRow`
//   zone MAXDEPTH ids             WriteZoneBFSTree over the triple store, then BFSTreeFile.ReadEach

type c14Suite struct{}

func init() {
	register("c14", c14Suite{})
	slog.SetDefault(slog.New(slog.NewTextHandler(io.Discard, nil)))
}

// ---------------------------------------------------------------------------------------------- gen

type c14Edge struct{ id, s, e uint64 }

type c14Case struct {
	title string
	lines []string
}

func (c *c14Case) add(format string, a ...any) { c.lines = append(c.lines, fmt.Sprintf(format, a...)) }

var c14Dirs = []string{"out", "in", "both"}

func idsTok(xs []uint64) string {
	if len(xs) == 0 {
		return "-"
	}
	parts := make([]string, len(xs))
	for i, x := range xs {
		parts[i] = strconv.FormatUint(x, 10)
	}
	return strings.Join(parts, ",")
}

// standard query block over all four containers
func (c *c14Case) queryAll(withNorm bool) {
	for _, k := range []string{"am", "csr", "ts", "proj"} {
		c.add("nodes %s", k)
	}
	for _, d := range c14Dirs {
		for _, k := range []string{"am", "csr", "ts", "proj"} {
			c.add("adj %s %s", k, d)
		}
	}
	for _, d := range c14Dirs {
		for _, k := range []string{"am", "csr", "ts", "proj"} {
			c.add("reach %s %s", k, d)
			c.add("bfs %s %s", k, d)
		}
	}
	if withNorm {
		for _, d := range c14Dirs {
			c.add("norm am %s", d)
			c.add("norm csr %s", d)
		}
	}
	for _, d := range c14Dirs {
		for _, k := range []string{"am", "csr", "ts", "proj"} {
			c.add("dims %s %s", k, d)
		}
	}
	for _, k := range []string{"csr", "ts", "proj", "am"} {
		c.add("numedges %s", k)
	}
}

func (c *c14Case) queryProj() {
	c.add("nodes proj")
	c.add("numedges proj")
	c.add("dims proj both")
	for _, d := range c14Dirs {
		c.add("adj proj %s", d)
		c.add("reach proj %s", d)
		c.add("bfs proj %s", d)
	}
}

func binom(n, k int) int64 {
	return new(big.Int).Binomial(int64(n), int64(k)).Int64()
}

// all k-subsets (multi = false) or k-multisets (multi = true) of {0..n-1}, in lexicographic order
func combos(n, k int, multi bool, f func(sel []int)) {
	sel := make([]int, k)
	var rec func(pos, from int)
	rec = func(pos, from int) {
		if pos == k {
			f(sel)
			return
		}
		for v := from; v < n; v++ {
			sel[pos] = v
			if multi {
				rec(pos+1, v)
			} else {
				rec(pos+1, v+1)
			}
		}
	}
	rec(0, 0)
}

// node labels -> sparse ids; deliberately NOT ascending in label order so the CSR dense (first-seen)
// order differs from the bitmap (ascending) order, with ids on both sides of the 2^32 container split.
var c14SmallIDs = []uint64{7, 3, 1<<40 + 5, 1<<63 + 1}

func (c14Suite) Gen(rng *Rng, tier string, w *bufio.Writer, stats *Stats) {
	caseNo := 0
	emit := func(c *c14Case) {
		caseNo++
		fmt.Fprintf(w, "# case %d %s\n", caseNo, c.title)
		fmt.Fprintln(w, "graph")
		for _, l := range c.lines {
			fmt.Fprintln(w, l)
		}
	}
	thorough := tier == "thorough"

	// (1) small-scope exhaustive: every digraph (loops allowed) on k labelled nodes with m edges
	maxK, maxM := 3, 4
	if thorough {
		maxK, maxM = 4, 5
	}
	var enumerated, closed int64
	for k := 0; k <= maxK; k++ {
		for m := 0; m <= maxM && m <= k*k; m++ {
			closed += binom(k*k, m)
			combos(k*k, m, false, func(sel []int) {
				c := &c14Case{title: fmt.Sprintf("exhaustive-digraph k=%d m=%d", k, m)}
				for i := 0; i < k; i++ {
					c.add("node %d", c14SmallIDs[i])
				}
				for i, p := range sel {
					c.add("edge %d %d %d", 100+i, c14SmallIDs[p/k], c14SmallIDs[p%k])
				}
				c.queryAll(true)
				emit(c)
				enumerated++
			})
		}
	}
	stats.Add("exhaustive.digraphs.enumerated", enumerated)
	stats.Add("exhaustive.digraphs.closed_form", closed) // sum_{k<=K} sum_{m<=M} C(k^2, m)
	stats.Add("exhaustive.digraphs.max_nodes", int64(maxK))
	stats.Add("exhaustive.digraphs.max_edges", int64(maxM))

	// (1b) multigraphs: every multiset of m edges (parallel edges, distinct ids) on k labelled nodes
	mk, mm := 2, 3
	if thorough {
		mk, mm = 3, 4
	}
	enumerated, closed = 0, 0
	for k := 1; k <= mk; k++ {
		for m := 2; m <= mm; m++ {
			closed += binom(k*k+m-1, m)
			combos(k*k, m, true, func(sel []int) {
				c := &c14Case{title: fmt.Sprintf("exhaustive-multigraph k=%d m=%d", k, m)}
				// no node lines: nodes come from the edges only; edges inserted in reverse order
				for i := len(sel) - 1; i >= 0; i-- {
					p := sel[i]
					c.add("edge %d %d %d", 100+i, c14SmallIDs[p/k], c14SmallIDs[p%k])
				}
				c.queryAll(false)
				emit(c)
				enumerated++
			})
		}
	}
	stats.Add("exhaustive.multigraphs.enumerated", enumerated)
	stats.Add("exhaustive.multigraphs.closed_form", closed) // sum_k sum_{2<=m<=M} C(k^2+m-1, m)

	// (2) projections: every deleted-node subset x deleted-edge subset of every small digraph
	pk, pm := 2, 2
	if thorough {
		pk, pm = 3, 3
	}
	enumerated, closed = 0, 0
	var projSets int64
	for k := 1; k <= pk; k++ {
		for m := 0; m <= pm && m <= k*k; m++ {
			closed += binom(k*k, m)
			combos(k*k, m, false, func(sel []int) {
				c := &c14Case{title: fmt.Sprintf("exhaustive-projection k=%d m=%d", k, m)}
				for i := 0; i < k; i++ {
					c.add("node %d", c14SmallIDs[i])
				}
				for i, p := range sel {
					c.add("edge %d %d %d", 100+i, c14SmallIDs[p/k], c14SmallIDs[p%k])
				}
				for nm := 0; nm < 1<<k; nm++ {
					for em := 0; em < 1<<m; em++ {
						var dn, de []uint64
						for i := 0; i < k; i++ {
							if nm>>i&1 == 1 {
								dn = append(dn, c14SmallIDs[i])
							}
						}
						for i := 0; i < m; i++ {
							if em>>i&1 == 1 {
								de = append(de, uint64(100+i))
							}
						}
						c.add("proj %s %s", idsTok(dn), idsTok(de))
						c.queryProj()
						projSets++
					}
				}
				emit(c)
				enumerated++
			})
		}
	}
	stats.Add("exhaustive.projection.graphs", enumerated)
	stats.Add("exhaustive.projection.graphs_closed_form", closed)
	stats.Add("exhaustive.projection.deletion_sets", projSets)

	// (2b) nested projections: every (N1,E1) parent of every small digraph, every (N2,E2) child derived from it, a sibling
	// derived afterwards; every answer re-observes all live handles and the caller-owned bitmaps (see Step)
	nk, nm := 2, 2
	if thorough {
		nk, nm = 3, 2
	}
	var nestedGraphs, nestedDerivations int64
	for k := 1; k <= nk; k++ {
		for m := 0; m <= nm && m <= k*k; m++ {
			combos(k*k, m, false, func(sel []int) {
				c := &c14Case{title: fmt.Sprintf("exhaustive-nested-projection k=%d m=%d", k, m)}
				for i := 0; i < k; i++ {
					c.add("node %d", c14SmallIDs[i])
				}
				for i, p := range sel {
					c.add("edge %d %d %d", 100+i, c14SmallIDs[p/k], c14SmallIDs[p%k])
				}
				subset := func(nm, em int) (dn, de []uint64) {
					for i := 0; i < k; i++ {
						if nm>>i&1 == 1 {
							dn = append(dn, c14SmallIDs[i])
						}
					}
					for i := 0; i < m; i++ {
						if em>>i&1 == 1 {
							de = append(de, uint64(100+i))
						}
					}
					return
				}
				// the Duplex implementation of the argument sets: (parent, child) in every combination
				provs := []string{"b64", "tsd"}
				if !thorough || k <= 2 {
					provs = []string{"b64", "tsd", "tsd2"}
				}
				for n1 := 0; n1 < 1<<k; n1++ {
					for e1 := 0; e1 < 1<<m; e1++ {
						dn1, de1 := subset(n1, e1)
						for _, pp := range provs {
							c.add("proj p store %s %s %s/%s", idsTok(dn1), idsTok(de1), pp, pp)
							for n2 := 0; n2 < 1<<k; n2++ {
								for e2 := 0; e2 < 1<<m; e2++ {
									dn2, de2 := subset(n2, e2)
									for _, cp := range provs {
										c.add("proj c p %s %s %s/%s", idsTok(dn2), idsTok(de2), cp, cp)
										nestedDerivations++
									}
								}
							}
						}
						c.add("proj p store %s %s", idsTok(dn1), idsTok(de1))
						c.add("proj c p 77 999") // ids that are neither nodes nor edges of the store
						c.add("proj s p - -")    // a sibling derived after the children
						c.add("nodes p")
						c.add("numedges s")
						c.add("adj c both")
						c.add("proj g c %s -", idsTok([]uint64{c14SmallIDs[0]})) // third level
						c.add("snap p")
					}
				}
				emit(c)
				nestedGraphs++
			})
		}
	}
	stats.Add("exhaustive.nested_projection.graphs", nestedGraphs)
	stats.Add("exhaustive.nested_projection.derivations", nestedDerivations)

	// (2c) factory entry points: every adjacency description over k labelled nodes — per node: not a key, key with a nil
	// list, key with an empty list, key with every non-empty out-list (and one with a repeated destination) — built by
	// BuildAdjacencyMapGraph and util.BuildGraph(NewCSRDigraphBuilder), and in explicit AddNode/AddEdge form
	fk := 2
	if thorough {
		fk = 3
	}
	fids := []uint64{1<<33 + 1, 5, 1<<63 + 1}
	var factoryCases int64
	for k := 1; k <= fk; k++ {
		var opts [][]string // per node: the textual out-list, "" = not a key
		for i := 0; i < k; i++ {
			o := []string{"", "~", "="}
			for mask := 1; mask < 1<<k; mask++ {
				var ds []string
				for j := 0; j < k; j++ {
					if mask>>j&1 == 1 {
						ds = append(ds, strconv.FormatUint(fids[j], 10))
					}
				}
				o = append(o, strings.Join(ds, ","))
			}
			o = append(o, fmt.Sprintf("%d,%d", fids[i], fids[i])) // repeated destination (self loop twice)
			opts = append(opts, o)
		}
		idx := make([]int, k)
		for {
			c := &c14Case{title: fmt.Sprintf("exhaustive-factory k=%d", k)}
			var ents []string
			for i := 0; i < k; i++ {
				switch o := opts[i][idx[i]]; o {
				case "":
				case "~":
					ents = append(ents, fmt.Sprintf("%d>~", fids[i]))
					c.add("node %d", fids[i])
				case "=":
					ents = append(ents, fmt.Sprintf("%d>", fids[i]))
					c.add("node %d", fids[i])
				default:
					ents = append(ents, fmt.Sprintf("%d>%s", fids[i], o))
					c.add("node %d", fids[i])
					for j, d := range strings.Split(o, ",") {
						c.add("node %s", d)
						c.add("edge %d %d %s", 100+10*i+j, fids[i], d)
					}
				}
			}
			desc := "-"
			if len(ents) > 0 {
				desc = strings.Join(ents, ";")
			}
			c.add("build %s", desc)
			for _, g := range []string{"fam", "fcsr", "am", "csr"} {
				c.add("nodes %s", g)
				c.add("numedges %s", g)
				for _, d := range c14Dirs {
					c.add("adj %s %s", g, d)
				}
				c.add("dims %s both", g)
				c.add("reach %s out", g)
				c.add("bfs %s in", g)
			}
			c.add("fetch all")
			c.add("nodes fetch")
			c.add("adj fetch both")
			emit(c)
			factoryCases++
			// next combination
			i := 0
			for ; i < k; i++ {
				idx[i]++
				if idx[i] < len(opts[i]) {
					break
				}
				idx[i] = 0
			}
			if i == k {
				break
			}
		}
	}
	stats.Add("exhaustive.factory.descriptions", factoryCases)

	// (2d) dense id sets: ids are EXACTLY {0..n-1} (already "normal"), registered in EVERY order (all n! permutations):
	// by AddNode in that order, and by edges only (a path visiting the nodes in that order). Normalize must return a graph
	// and a reverse index that FIT each other: the monitor maps every normalised neighbour back through reverse[].
	dn, dm := 3, 3
	if thorough {
		dn, dm = 4, 2
	}
	var denseCases, densePerms int64
	normQueries := func(c *c14Case) {
		c.add("nodes csr")
		for _, d := range c14Dirs {
			c.add("norm csr %s", d)
			c.add("norm am %s", d)
		}
		c.add("adj csr both")
		c.add("reach csr out")
	}
	for n := 1; n <= dn; n++ {
		perm := make([]int, n)
		for i := range perm {
			perm[i] = i
		}
		var permute func(k int)
		permute = func(k int) {
			if k == n {
				densePerms++
				maxM := dm
				if n <= 3 && thorough {
					maxM = 3
				}
				for m := 0; m <= maxM && m <= n*n; m++ {
					combos(n*n, m, false, func(sel []int) {
						c := &c14Case{title: fmt.Sprintf("exhaustive-dense-ids n=%d m=%d order=%v", n, m, perm)}
						for _, v := range perm {
							c.add("node %d", v)
						}
						for i, p := range sel {
							c.add("edge %d %d %d", 100+i, p/n, p%n)
						}
						normQueries(c)
						emit(c)
						denseCases++
					})
				}
				// registration by edges only: a path through the nodes in this order (plus one back edge)
				if n >= 2 {
					c := &c14Case{title: fmt.Sprintf("exhaustive-dense-ids n=%d path order=%v", n, perm)}
					for i := 0; i+1 < n; i++ {
						c.add("edge %d %d %d", 200+i, perm[i], perm[i+1])
					}
					c.add("edge 299 %d %d", perm[n-1], perm[0])
					normQueries(c)
					emit(c)
					denseCases++
				}
				return
			}
			for i := k; i < n; i++ {
				perm[k], perm[i] = perm[i], perm[k]
				permute(k + 1)
				perm[k], perm[i] = perm[i], perm[k]
			}
		}
		permute(0)
	}
	stats.Add("exhaustive.dense_ids.cases", denseCases)
	stats.Add("exhaustive.dense_ids.permutations", densePerms) // sum_n n!

	// (3) random structured multigraphs
	n := 300
	if thorough {
		n = 6000
	}
	for i := 0; i < n; i++ {
		emit(c14Random(rng, stats, i))
		stats.Inc("random_cases")
	}
}

func rngPerm(rng *Rng, n int) []int {
	p := make([]int, n)
	for i := range p {
		p[i] = i
	}
	for i := n - 1; i > 0; i-- {
		j := rng.Intn(i + 1)
		p[i], p[j] = p[j], p[i]
	}
	return p
}

func c14PickID(rng *Rng, pool []uint64) uint64 { return pool[rng.Intn(len(pool))] }

func c14Random(rng *Rng, stats *Stats, idx int) *c14Case {
	c := &c14Case{title: "random"}
	nn := 1 + rng.Intn(9)
	// id pool: small, sparse 64-bit, extremes, neighbours across the roaring 2^32 / 2^16 boundaries
	pool := make([]uint64, 0, nn)
	seen := map[uint64]bool{}
	base := rng.Next()
	switch rng.Intn(8) {
	case 0: // ids exactly {0..nn-1}, in a random order (already normal / dense)
		for _, v := range rngPerm(rng, nn) {
			seen[uint64(v)] = true
			pool = append(pool, uint64(v))
		}
		stats.Inc("shape.dense_ids")
	case 1: // only SOME ids below the node count
		for _, v := range rngPerm(rng, nn) {
			if len(pool) < (nn+1)/2 {
				seen[uint64(v)] = true
				pool = append(pool, uint64(v))
			}
		}
		stats.Inc("shape.partly_dense_ids")
	}
	for len(pool) < nn {
		var id uint64
		switch rng.Intn(8) {
		case 0:
			id = uint64(rng.Intn(4))
		case 1:
			id = ^uint64(0) - uint64(rng.Intn(2))
		case 2:
			id = 1<<32 - 1 + uint64(rng.Intn(3))
		case 3:
			id = base&^0xFFFF | uint64(rng.Intn(3))<<16 | uint64(rng.Intn(3))
		case 4:
			id = 10 // 0x0A: the byte BFSTreeFile frames records with
		default:
			id = rng.Next()
		}
		if !seen[id] {
			seen[id] = true
			pool = append(pool, id)
		}
	}
	var edges []c14Edge
	me := rng.Intn(3 * nn)
	if rng.Chance(1, 10) {
		me = 0
	}
	nextEdgeID := uint64(1000 * (1 + rng.Intn(5)))
	isolated := 0
	for _, id := range pool {
		if rng.Chance(1, 4) {
			c.add("node %d", id) // declared up front (possibly isolated)
			isolated++
		}
	}
	for j := 0; j < me; j++ {
		var e c14Edge
		switch x := rng.Intn(10); {
		case x == 0: // self loop
			v := c14PickID(rng, pool)
			e = c14Edge{s: v, e: v}
			stats.Inc("shape.self_loop")
		case x == 1 && len(edges) > 0: // parallel
			o := edges[rng.Intn(len(edges))]
			e = c14Edge{s: o.s, e: o.e}
			stats.Inc("shape.parallel")
		case x == 2 && len(edges) > 0: // antiparallel
			o := edges[rng.Intn(len(edges))]
			e = c14Edge{s: o.e, e: o.s}
			stats.Inc("shape.antiparallel")
		default:
			e = c14Edge{s: c14PickID(rng, pool), e: c14PickID(rng, pool)}
		}
		e.id = nextEdgeID
		if rng.Chance(1, 25) && len(edges) > 0 {
			e.id = edges[rng.Intn(len(edges))].id // duplicate edge id
			stats.Inc("shape.duplicate_edge_id")
		} else {
			nextEdgeID += 1 + uint64(rng.Intn(3))
		}
		edges = append(edges, e)
		c.add("edge %d %d %d", e.id, e.s, e.e)
		if rng.Chance(1, 8) {
			c.add("node %d", c14PickID(rng, pool)) // AddNode interleaved, maybe repeated
		}
	}
	if rng.Chance(1, 3) {
		c.add("node %d", c14PickID(rng, pool))
	}
	c.queryAll(true)
	// absent node
	absent := uint64(5)
	for seen[absent] {
		absent += 17
	}
	for _, k := range []string{"am", "csr", "ts", "proj"} {
		d := c14Dirs[rng.Intn(3)]
		c.add("adj1 %s %s %d", k, d, absent)
		c.add("reach1 %s %s %d", k, d, absent)
	}
	// projections
	np := 1 + rng.Intn(3)
	for p := 0; p < np; p++ {
		var dn, de []uint64
		for _, id := range pool {
			if rng.Chance(1, 4) {
				dn = append(dn, id)
			}
		}
		for _, e := range edges {
			if rng.Chance(1, 5) {
				de = append(de, e.id)
			}
		}
		if rng.Chance(1, 6) {
			de = append(de, 999999) // id of no edge
		}
		if rng.Chance(1, 3) {
			dn = append(dn, absent, absent+1) // ids that are not nodes of the store
			stats.Inc("shape.proj_deletes_non_node")
		}
		if p > 0 && rng.Chance(1, 2) {
			c.add("proj2 %s %s", idsTok(dn), idsTok(de))
		} else {
			c.add("proj %s %s", idsTok(dn), idsTok(de))
		}
		c.queryProj()
		// first-class handles: derived from the store or from any earlier handle; earlier handles are observed again
		h := fmt.Sprintf("h%d", p)
		parent := "store"
		if p > 0 && rng.Chance(2, 3) {
			parent = fmt.Sprintf("h%d", rng.Intn(p))
		}
		var hn, he []uint64
		for _, id := range pool {
			if rng.Chance(1, 4) {
				hn = append(hn, id)
			}
		}
		for _, e := range edges {
			if rng.Chance(1, 5) {
				he = append(he, e.id)
			}
		}
		if rng.Chance(1, 4) {
			// overlap with the parent's sets plus LARGER new values (a merge that stops early loses them)
			hn = append(hn, pool[rng.Intn(len(pool))], ^uint64(0)-uint64(p)-5, 1<<33+uint64(p))
		}
		c.add("proj %s %s %s %s %s/%s", h, parent, idsTok(hn), idsTok(he), Pick(rng, []string{"b64", "tsd", "tsd2"}), Pick(rng, []string{"b64", "tsd", "tsd2"}))
		c.add("nodes %s", h)
		c.add("adj %s %s", h, c14Dirs[rng.Intn(3)])
		if p > 0 {
			o := fmt.Sprintf("h%d", rng.Intn(p))
			c.add("nodes %s", o)
			c.add("numedges %s", o)
			c.add("adj %s %s", o, c14Dirs[rng.Intn(3)])
			c.add("reach %s %s", o, c14Dirs[rng.Intn(3)])
			if rng.Chance(1, 3) {
				c.add("snap %s", o)
			}
		}
		for _, v := range dn {
			c.add("adj1 proj %s %d", c14Dirs[rng.Intn(3)], v) // a deleted node has no neighbours
		}
	}
	// factories on the same graph: the description groups the edges by start node; declared-only nodes become keys with a nil or
	// an empty list; and the relationship fetchers over the case's edges
	{
		outs := map[uint64][]uint64{}
		var keys []uint64
		for _, e := range edges {
			if _, ok := outs[e.s]; !ok {
				keys = append(keys, e.s)
			}
			outs[e.s] = append(outs[e.s], e.e)
		}
		var ents []string
		for _, k := range keys {
			ents = append(ents, fmt.Sprintf("%d>%s", k, idsTok(outs[k])))
		}
		for _, id := range pool {
			if _, ok := outs[id]; !ok && rng.Chance(1, 3) {
				if rng.Bool() {
					ents = append(ents, fmt.Sprintf("%d>~", id))
				} else {
					ents = append(ents, fmt.Sprintf("%d>", id))
				}
			}
		}
		if len(ents) > 0 {
			c.add("build %s", strings.Join(ents, ";"))
			for _, g := range []string{"fam", "fcsr"} {
				c.add("nodes %s", g)
				c.add("numedges %s", g)
				d := c14Dirs[rng.Intn(3)]
				c.add("adj %s %s", g, d)
				c.add("reach %s %s", g, d)
				c.add("bfs %s %s", g, d)
				c.add("dims %s %s", g, d)
			}
		}
		which := Pick(rng, []string{"all", "k0", "k1"})
		c.add("fetch %s", which)
		c.add("nodes fetch")
		c.add("numedges fetch")
		for _, d := range c14Dirs {
			c.add("adj fetch %s", d)
		}
		c.add("reach fetch out")
	}
	// the store grows after the handles were taken: every view follows its origin
	if rng.Chance(1, 3) {
		a, b := c14PickID(rng, pool), c14PickID(rng, pool)
		c.add("edge %d %d %d", nextEdgeID+7, a, b)
		edges = append(edges, c14Edge{id: nextEdgeID + 7, s: a, e: b})
		c.add("nodes h0")
		c.add("adj h0 both")
		c.add("numedges proj")
	}
	// segments
	for s := 0; s < 2; s++ {
		ln := 1 + rng.Intn(5)
		parts := []string{}
		for j := 0; j < ln; j++ {
			id := rng.Next()
			if rng.Chance(1, 3) {
				id = uint64(rng.Intn(300))
			}
			parts = append(parts, strconv.FormatUint(id, 10))
			if j < ln-1 {
				parts = append(parts, strconv.FormatUint(rng.Next()>>uint(rng.Intn(64)), 10))
			}
		}
		c.add("seg %s", strings.Join(parts, " "))
	}
	if idx%15 == 0 {
		c.add("toseg %d -", c14PickID(rng, pool))
		if len(edges) > 0 {
			e := edges[rng.Intn(len(edges))]
			c.add("toseg %d,%d %d", e.s, e.e, e.id)
			// ill-formed shapes: surplus edges, missing edges, no nodes
			c.add("toseg %d,%d %d,%d,%d", e.s, e.e, e.id, e.id+1, e.id+2)
			c.add("toseg %d,%d,%d,%d %d", e.s, e.e, e.s, c14PickID(rng, pool), e.id)
			c.add("toseg - %d", e.id)
		}
	}
	// triple-store traversals (kept small; maxDepth <= 0 only on acyclic graphs and never with `both`)
	if len(edges) <= 12 && len(edges) > 0 {
		c.add("proj - -")
		acyclic := c14Acyclic(edges)
		for t := 0; t < 3; t++ {
			verb := "tsbfs"
			if rng.Bool() {
				verb = "tsdfs"
			}
			d := c14Dirs[rng.Intn(3)]
			md := 1 + rng.Intn(3)
			if acyclic && d != "both" && rng.Chance(1, 2) {
				md = -rng.Intn(2)
			}
			if d == "both" && md > 2 {
				md = 2
			}
			filt := "all"
			switch rng.Intn(4) {
			case 0:
				filt = "nostart:" + idsTok([]uint64{c14PickID(rng, pool)})
			case 1:
				filt = "noedge:" + idsTok([]uint64{edges[rng.Intn(len(edges))].id})
			}
			cont := "ts"
			if rng.Chance(1, 3) {
				cont = "proj"
			}
			c.add("%s %s %s %d %d %s", verb, cont, d, md, edges[rng.Intn(len(edges))].s, filt)
			if t == 0 || rng.Chance(1, 2) {
				mds := md
				if mds > 2 {
					mds = 2 // the stateless bound is counted in edges: one level deeper than TSBFS for the same maxDepth
				}
				c.add("tssl %s %s %d %d %s", cont, d, mds, edges[rng.Intn(len(edges))].s, filt)
			}
		}
		if idx%10 == 0 {
			zone := []uint64{edges[rng.Intn(len(edges))].e}
			if rng.Bool() {
				zone = append(zone, c14PickID(rng, pool))
				if zone[0] == zone[1] {
					zone = zone[:1]
				}
			}
			c.add("zone %d %s", 1+rng.Intn(3), idsTok(zone))
		}
	}
	// tombstones last (the only mutation after queries)
	if len(edges) > 0 && rng.Chance(1, 5) {
		c.add("tsdel %d", edges[rng.Intn(len(edges))].id)
		if rng.Chance(1, 3) {
			c.add("tsdel %d", 424242) // unknown id
		}
		c.add("nodes ts")
		c.add("numedges ts")
		for _, d := range c14Dirs {
			c.add("dims ts %s", d)
			c.add("adj ts %s", d)
			c.add("reach ts %s", d)
			c.add("bfs ts %s", d)
		}
		c.add("proj - -")
		c.queryProj()
	}
	return c
}

func c14Acyclic(edges []c14Edge) bool {
	adj := map[uint64][]uint64{}
	for _, e := range edges {
		adj[e.s] = append(adj[e.s], e.e)
	}
	state := map[uint64]int{}
	var visit func(v uint64) bool
	visit = func(v uint64) bool {
		switch state[v] {
		case 1:
			return false
		case 2:
			return true
		}
		state[v] = 1
		for _, w := range adj[v] {
			if !visit(w) {
				return false
			}
		}
		state[v] = 2
		return true
	}
	for v := range adj {
		if !visit(v) {
			return false
		}
	}
	return true
}

// ---------------------------------------------------------------------------------------------- run

type c14Op struct {
	node        bool
	id, s, e, n uint64
}

type c14Runner struct {
	stats *Stats
	log   []c14Op
	am    container.MutableDirectedGraph
	csr   container.DirectedGraph
	dirty bool
	ts    container.MutableTriplestore
	handles map[string]*c14Handle
	snapOn  bool
	extra   map[string]container.DirectedGraph // fam, fcsr, fetch
}

// c14Handle is one projection handle together with the caller-owned bitmaps that were passed to Projection.
type c14Handle struct {
	ts         container.Triplestore
	argN, argE cardinality.Duplex[uint64]
}

func (c14Suite) NewRunner(stats *Stats) Runner {
	r := &c14Runner{stats: stats}
	r.reset()
	return r
}

func (r *c14Runner) reset() {
	r.log = nil
	r.am = container.NewAdjacencyMapGraph()
	r.csr = nil
	r.dirty = true
	r.ts = container.NewTriplestore()
	n, e := cardinality.NewBitmap64(), cardinality.NewBitmap64()
	r.handles = map[string]*c14Handle{"proj": {ts: r.ts.Projection(n, e), argN: n, argE: e}}
	r.snapOn = false
	r.extra = map[string]container.DirectedGraph{}
}

// canonGraph observes a factory-built graph in a deterministic order (the factories range over a Go map).
type canonGraph struct{ g container.DirectedGraph }

func (c canonGraph) NumNodes() uint64 { return c.g.NumNodes() }
func (c canonGraph) NumEdges() uint64 {
	if ne, ok := c.g.(interface{ NumEdges() uint64 }); ok {
		return ne.NumEdges()
	}
	return 0
}
func (c canonGraph) EachNode(delegate func(node uint64) bool) {
	ns := eachNode(c.g)
	sort.Slice(ns, func(i, j int) bool { return ns[i] < ns[j] })
	for _, n := range ns {
		if !delegate(n) {
			return
		}
	}
}
func (c canonGraph) EachAdjacentNode(node uint64, d graph.Direction, delegate func(adjacent uint64) bool) {
	as := adjSeq(c.g, node, d)
	sort.Slice(as, func(i, j int) bool { return as[i] < as[j] })
	for _, a := range as {
		if !delegate(a) {
			return
		}
	}
}

// c14StubDB is the smallest graph.Database that container.FetchDirectedGraph can run against: a read transaction whose
// relationship query supports Filter (nil or a KindMatcher) and Query, yielding (start id, end id) rows.
type c14StubDB struct {
	graph.Database
	edges []c14Edge
}
type c14StubTx struct {
	graph.Transaction
	db *c14StubDB
}
type c14StubRelQ struct {
	graph.RelationshipQuery
	db    *c14StubDB
	kinds map[string]bool
	err   error
}
type c14StubResult struct {
	graph.Result
	rows [][2]uint64
	i    int
}

func c14EdgeKind(id uint64) string { return fmt.Sprintf("K%d", id%2) }

func (d *c14StubDB) ReadTransaction(_ context.Context, delegate graph.TransactionDelegate, _ ...graph.TransactionOption) error {
	return delegate(&c14StubTx{db: d})
}
func (t *c14StubTx) Relationships() graph.RelationshipQuery { return &c14StubRelQ{db: t.db} }
func (q *c14StubRelQ) Filter(c graph.Criteria) graph.RelationshipQuery {
	switch m := c.(type) {
	case nil:
	case *cyphermodel.KindMatcher:
		q.kinds = map[string]bool{}
		for _, k := range m.Kinds {
			q.kinds[k.String()] = true
		}
	default:
		q.err = fmt.Errorf("c14 stub db: unsupported criteria %T", c)
	}
	return q
}
func (q *c14StubRelQ) Query(delegate func(graph.Result) error, _ ...graph.Criteria) error {
	if q.err != nil {
		return q.err
	}
	res := &c14StubResult{}
	for _, e := range q.db.edges {
		if q.kinds == nil || q.kinds[c14EdgeKind(e.id)] {
			res.rows = append(res.rows, [2]uint64{e.s, e.e})
		}
	}
	return delegate(res)
}
func (r *c14StubResult) Next() bool { r.i++; return r.i <= len(r.rows) }
func (r *c14StubResult) Scan(targets ...any) error {
	if len(targets) != 2 {
		return fmt.Errorf("c14 stub db: scan wants 2 targets")
	}
	for k, t := range targets {
		id, ok := t.(*graph.ID)
		if !ok {
			return fmt.Errorf("c14 stub db: scan target %T", t)
		}
		*id = graph.ID(r.rows[r.i-1][k])
	}
	return nil
}
func (r *c14StubResult) Error() error { return nil }
func (r *c14StubResult) Close()       {}

// c14Provider builds a Duplex[uint64] holding the ids in the requested implementation.
func c14Provider(kind string, ids []uint64) (cardinality.Duplex[uint64], bool) {
	b := cardinality.NewBitmap64With(ids...)
	switch kind {
	case "", "b64":
		return b, true
	case "tsd":
		return cardinality.ThreadSafeDuplex(b), true
	case "tsd2":
		return cardinality.ThreadSafeDuplex(cardinality.ThreadSafeDuplex(b)), true
	}
	return nil, false
}

// parseDesc reads `src>d1,d2;src>;src>~` into the map a factory takes (`~` = nil list, nothing = empty list).
func parseDesc(s string) (map[uint64][]uint64, bool) {
	adj := map[uint64][]uint64{}
	if s == "-" {
		return adj, true
	}
	for _, ent := range strings.Split(s, ";") {
		k, v, ok := strings.Cut(ent, ">")
		if !ok {
			return nil, false
		}
		src, err := strconv.ParseUint(k, 10, 64)
		if err != nil {
			return nil, false
		}
		switch v {
		case "~":
			adj[src] = nil
		case "":
			adj[src] = []uint64{}
		default:
			outs, ok := parseIDs(v)
			if !ok {
				return nil, false
			}
			adj[src] = outs
		}
	}
	return adj, true
}

// tsOf resolves `ts` or a projection handle.
func (r *c14Runner) tsOf(name string) container.Triplestore {
	if name == "ts" {
		return r.ts
	}
	if h, ok := r.handles[name]; ok {
		return h.ts
	}
	return nil
}

func fnv64(s string) uint64 {
	h := uint64(14695981039346656037)
	for i := 0; i < len(s); i++ {
		h ^= uint64(s[i])
		h *= 1099511628211
	}
	return h
}

func sortedSet(xs []uint64) []uint64 {
	out := append([]uint64{}, xs...)
	sort.Slice(out, func(i, j int) bool { return out[i] < out[j] })
	w := 0
	for i, x := range out {
		if i == 0 || x != out[w-1] {
			out[w] = x
			w++
		}
	}
	return out[:w]
}

// viewString is the canonical observation of a Triplestore through every read method of the interface.
func viewString(ts container.Triplestore) string {
	var b strings.Builder
	nodes := eachNode(ts)
	fmt.Fprintf(&b, "n=%d;N=%s;m=%d;E=[", ts.NumNodes(), fmtU64s(nodes), ts.NumEdges())
	first := true
	ts.EachEdge(func(e container.Edge) bool {
		if !first {
			b.WriteByte(',')
		}
		first = false
		fmt.Fprintf(&b, "%d:%d:%d", e.ID, e.Start, e.End)
		return true
	})
	b.WriteByte(']')
	for _, v := range nodes {
		for i, d := range []graph.Direction{graph.DirectionOutbound, graph.DirectionInbound, graph.DirectionBoth} {
			var ids []uint64
			ts.EachAdjacentEdge(v, d, func(e container.Edge) bool { ids = append(ids, e.ID); return true })
			fmt.Fprintf(&b, ";%s(%d)=%s/%s", c14Dirs[i], v, fmtU64s(sortedSet(adjSeq(ts, v, d))), fmtU64s(ids))
		}
	}
	return b.String()
}

func argString(h *c14Handle) string {
	return "aN=" + fmtU64s(h.argN.Slice()) + ";aE=" + fmtU64s(h.argE.Slice())
}

func (r *c14Runner) digests() string {
	names := make([]string, 0, len(r.handles))
	for n := range r.handles {
		names = append(names, n)
	}
	sort.Strings(names)
	parts := make([]string, len(names))
	for i, n := range names {
		h := r.handles[n]
		parts[i] = fmt.Sprintf("%s=%016x:%016x", n, fnv64(viewString(h.ts)), fnv64(argString(h)))
	}
	return strings.Join(parts, " ")
}

// Step answers one op and, once a projection was requested in this case, re-observes EVERY live handle.
func (r *c14Runner) Step(t []string, raw string) string {
	ans := r.step0(t, raw)
	if r.snapOn && ans != "bad-op" {
		r.stats.Inc("branch.handles.reobserved")
		ans += " ## " + r.digests()
	}
	return ans
}

func (r *c14Runner) csrGraph() container.DirectedGraph {
	if r.dirty || r.csr == nil {
		b := container.NewCSRDigraphBuilder()
		for _, o := range r.log {
			if o.node {
				b.AddNode(o.n)
			} else {
				b.AddEdge(o.s, o.e)
			}
		}
		r.csr = b.Build()
		r.dirty = false
	}
	return r.csr
}

func (r *c14Runner) view(c string) container.DirectedGraph {
	switch c {
	case "am":
		return r.am
	case "csr":
		return r.csrGraph()
	case "ts":
		return r.ts
	}
	if h, ok := r.handles[c]; ok {
		return h.ts
	}
	if g, ok := r.extra[c]; ok {
		return g
	}
	return nil
}

func c14Dir(s string) (graph.Direction, bool) {
	switch s {
	case "out":
		return graph.DirectionOutbound, true
	case "in":
		return graph.DirectionInbound, true
	case "both":
		return graph.DirectionBoth, true
	}
	return 0, false
}

func fmtU64s(xs []uint64) string {
	parts := make([]string, len(xs))
	for i, x := range xs {
		parts[i] = strconv.FormatUint(x, 10)
	}
	return "[" + strings.Join(parts, ",") + "]"
}

func parseIDs(s string) ([]uint64, bool) {
	if s == "-" {
		return nil, true
	}
	var out []uint64
	for _, p := range strings.Split(s, ",") {
		v, err := strconv.ParseUint(p, 10, 64)
		if err != nil {
			return nil, false
		}
		out = append(out, v)
	}
	return out, true
}

func eachNode(g container.DirectedGraph) []uint64 {
	var ns []uint64
	g.EachNode(func(n uint64) bool { ns = append(ns, n); return true })
	return ns
}

func adjSeq(g container.DirectedGraph, n uint64, d graph.Direction) []uint64 {
	var out []uint64
	g.EachAdjacentNode(n, d, func(a uint64) bool { out = append(out, a); return true })
	return out
}

func perNode(g container.DirectedGraph, f func(n uint64) string) string {
	ns := eachNode(g)
	if len(ns) == 0 {
		return "-"
	}
	parts := make([]string, len(ns))
	for i, n := range ns {
		parts[i] = strconv.FormatUint(n, 10) + ":" + f(n)
	}
	return strings.Join(parts, " ")
}

func fmtTerms(ts []container.PathTerminal) string {
	parts := make([]string, len(ts))
	for i, t := range ts {
		parts[i] = fmt.Sprintf("%d@%d", t.Node, t.Distance)
	}
	return "[" + strings.Join(parts, ",") + "]"
}

// branch counters derived from the answers (which code paths the case reached)
func (r *c14Runner) countAdj(c string, d graph.Direction, n uint64, seq []uint64) {
	if d == graph.DirectionBoth {
		switch c {
		case "am":
			o, i := len(adjSeq(r.am, n, graph.DirectionOutbound)) > 0, len(adjSeq(r.am, n, graph.DirectionInbound)) > 0
			switch {
			case o && i:
				r.stats.Inc("branch.am.both.merged")
			case o:
				r.stats.Inc("branch.am.both.out_only")
			case i:
				r.stats.Inc("branch.am.both.in_only")
			default:
				r.stats.Inc("branch.am.both.none")
			}
		case "csr":
			set := map[uint64]bool{}
			for _, a := range seq {
				if set[a] {
					r.stats.Inc("info.csr.both.duplicate_callback") // multiplicity: recorded, not judged
					break
				}
				set[a] = true
			}
		}
		for _, a := range seq {
			if a == n {
				r.stats.Inc("branch." + c + ".both.reports_self")
				break
			}
		}
	}
	if len(seq) == 0 {
		r.stats.Inc("branch." + c + ".adj.empty")
	}
}

type normalizer interface {
	Normalize() ([]uint64, container.DirectedGraph)
}

func c14Filter(s string) (func(e container.Edge) bool, bool) {
	if s == "all" {
		return func(container.Edge) bool { return true }, true
	}
	kind, idsS, ok := strings.Cut(s, ":")
	if !ok {
		return nil, false
	}
	ids, ok := parseIDs(idsS)
	if !ok {
		return nil, false
	}
	set := map[uint64]bool{}
	for _, id := range ids {
		set[id] = true
	}
	switch kind {
	case "nostart":
		return func(e container.Edge) bool { return !set[e.Start] }, true
	case "noedge":
		return func(e container.Edge) bool { return !set[e.ID] }, true
	}
	return nil, false
}

func (r *c14Runner) step0(t []string, raw string) string {
	switch {
	case len(t) == 1 && t[0] == "graph":
		r.reset()
		return "ok"
	case len(t) == 2 && t[0] == "mode":
		return "ok"
	case len(t) == 2 && t[0] == "node":
		n, err := strconv.ParseUint(t[1], 10, 64)
		if err != nil {
			return "bad-op"
		}
		r.log = append(r.log, c14Op{node: true, n: n})
		r.am.AddNode(n)
		r.ts.(interface{ AddNode(uint64) }).AddNode(n)
		r.dirty = true
		return "ok"
	case len(t) == 4 && t[0] == "edge":
		id, e1 := strconv.ParseUint(t[1], 10, 64)
		s, e2 := strconv.ParseUint(t[2], 10, 64)
		e, e3 := strconv.ParseUint(t[3], 10, 64)
		if e1 != nil || e2 != nil || e3 != nil {
			return "bad-op"
		}
		for _, o := range r.log {
			if !o.node && o.s == s && o.e == e {
				r.stats.Inc("branch.edge.parallel")
			}
			if !o.node && o.s == e && o.e == s && s != e {
				r.stats.Inc("branch.edge.antiparallel")
			}
		}
		if s == e {
			r.stats.Inc("branch.edge.self_loop")
		}
		r.log = append(r.log, c14Op{id: id, s: s, e: e})
		r.am.AddEdge(s, e)
		r.ts.AddTriple(id, s, e)
		r.dirty = true
		return "ok"
	case len(t) == 2 && t[0] == "tsdel":
		id, err := strconv.ParseUint(t[1], 10, 64)
		if err != nil {
			return "bad-op"
		}
		r.ts.(interface{ DeleteEdge(uint64) }).DeleteEdge(id)
		r.stats.Inc("branch.ts.delete_edge")
		return "ok"
	case len(t) == 2 && t[0] == "build":
		adj, ok := parseDesc(t[1])
		if !ok {
			return "bad-op"
		}
		r.extra["fam"] = canonGraph{container.BuildAdjacencyMapGraph(adj)}
		r.extra["fcsr"] = canonGraph{cutil.BuildGraph(container.NewCSRDigraphBuilder, adj)}
		r.stats.Inc("branch.factory.build")
		for _, outs := range adj {
			if outs == nil {
				r.stats.Inc("branch.factory.nil_list")
			} else if len(outs) == 0 {
				r.stats.Inc("branch.factory.empty_list")
			}
		}
		return "ok"
	case len(t) == 2 && t[0] == "fetch":
		db := &c14StubDB{}
		for _, o := range r.log {
			if !o.node {
				db.edges = append(db.edges, c14Edge{id: o.id, s: o.s, e: o.e})
			}
		}
		var g container.DirectedGraph
		var err error
		switch t[1] {
		case "all":
			g, err = container.FetchDirectedGraph(context.Background(), db, nil)
		case "k0", "k1":
			g, err = container.FetchFilteredDirectedGraph(context.Background(), db, graph.StringKind("K"+t[1][1:]))
		default:
			return "bad-op"
		}
		if err != nil {
			return "error " + strings.ReplaceAll(err.Error(), " ", "_")
		}
		r.extra["fetch"] = g
		r.stats.Inc("branch.factory.fetch." + t[1])
		return "ok"
	case (len(t) == 3 && (t[0] == "proj" || t[0] == "proj2")) || ((len(t) == 5 || len(t) == 6) && t[0] == "proj"):
		name, parent := "proj", "store"
		if t[0] == "proj2" {
			parent = "proj"
		}
		provN, provE := "b64", "b64"
		nTok, eTok := t[len(t)-2], t[len(t)-1]
		if len(t) >= 5 {
			name, parent = t[1], t[2]
			nTok, eTok = t[3], t[4]
			switch name {
			case "am", "csr", "ts", "store", "fam", "fcsr", "fetch":
				return "bad-op"
			}
			if len(t) == 6 {
				var ok bool
				if provN, provE, ok = strings.Cut(t[5], "/"); !ok {
					return "bad-op"
				}
			}
		}
		dn, ok1 := parseIDs(nTok)
		de, ok2 := parseIDs(eTok)
		argN, ok3 := c14Provider(provN, dn)
		argE, ok4 := c14Provider(provE, de)
		if !ok1 || !ok2 || !ok3 || !ok4 {
			return "bad-op"
		}
		r.stats.Inc("branch.proj.provider." + provN)
		r.stats.Inc("branch.proj.provider." + provE)
		var derived container.Triplestore
		if parent == "store" {
			derived = r.ts.Projection(argN, argE)
		} else if ph, ok := r.handles[parent]; ok {
			derived = ph.ts.Projection(argN, argE)
			r.stats.Inc("branch.proj.nested")
		} else {
			return "bad-op"
		}
		r.handles[name] = &c14Handle{ts: derived, argN: argN, argE: argE}
		r.snapOn = true
		if len(dn) > 0 {
			r.stats.Inc("branch.proj.deleted_nodes")
		}
		if len(de) > 0 {
			r.stats.Inc("branch.proj.deleted_edges")
		}
		return "ok"
	case len(t) == 2 && t[0] == "snap":
		h, ok := r.handles[t[1]]
		if !ok {
			return "bad-op"
		}
		r.stats.Inc("branch.snap")
		return viewString(h.ts) + ";" + argString(h)
	case len(t) == 2 && t[0] == "nodes":
		g := r.view(t[1])
		if g == nil {
			return "bad-op"
		}
		ns := eachNode(g)
		if len(r.log) > 0 {
			isolated := map[uint64]bool{}
			for _, o := range r.log {
				if o.node {
					isolated[o.n] = true
				}
			}
			for _, o := range r.log {
				if !o.node {
					delete(isolated, o.s)
					delete(isolated, o.e)
				}
			}
			if len(isolated) > 0 {
				r.stats.Inc("branch.nodes.isolated_present")
			}
		}
		return fmt.Sprintf("n=%d %s", g.NumNodes(), fmtU64s(ns))
	case (len(t) == 3 && t[0] == "adj") || (len(t) == 4 && t[0] == "adj1"):
		g := r.view(t[1])
		d, ok := c14Dir(t[2])
		if g == nil || !ok {
			return "bad-op"
		}
		one := func(n uint64) string {
			seq := adjSeq(g, n, d)
			r.countAdj(t[1], d, n, seq)
			return fmtU64s(seq)
		}
		if t[0] == "adj1" {
			n, err := strconv.ParseUint(t[3], 10, 64)
			if err != nil {
				return "bad-op"
			}
			r.stats.Inc("branch.adj1." + t[1])
			return one(n)
		}
		return perNode(g, one)
	case (len(t) == 3 && t[0] == "reach") || (len(t) == 4 && t[0] == "reach1"):
		g := r.view(t[1])
		d, ok := c14Dir(t[2])
		if g == nil || !ok {
			return "bad-op"
		}
		one := func(n uint64) string {
			res := container.Reach(g, n, d).Slice()
			for _, x := range res {
				if x == n {
					r.stats.Inc("branch.reach.start_on_cycle")
				}
			}
			if len(res) == 0 {
				r.stats.Inc("branch.reach.empty")
			}
			return fmtU64s(res)
		}
		if t[0] == "reach1" {
			n, err := strconv.ParseUint(t[3], 10, 64)
			if err != nil {
				return "bad-op"
			}
			return one(n)
		}
		return perNode(g, one)
	case (len(t) == 3 && t[0] == "bfs") || (len(t) == 4 && t[0] == "bfs1"):
		g := r.view(t[1])
		d, ok := c14Dir(t[2])
		if g == nil || !ok {
			return "bad-op"
		}
		one := func(n uint64) string {
			ts := container.BFSTree(g, n, d)
			for _, x := range ts {
				if x.Distance >= 3 {
					r.stats.Inc("branch.bfs.distance_ge3")
					break
				}
			}
			return fmtTerms(ts)
		}
		if t[0] == "bfs1" {
			n, err := strconv.ParseUint(t[3], 10, 64)
			if err != nil {
				return "bad-op"
			}
			return one(n)
		}
		return perNode(g, one)
	case len(t) == 3 && t[0] == "norm":
		g := r.view(t[1])
		d, ok := c14Dir(t[2])
		nz, isN := g.(normalizer)
		if g == nil || !ok || !isN || (t[1] != "am" && t[1] != "csr") {
			return "bad-op"
		}
		rev, ng := nz.Normalize()
		r.stats.Inc("branch.normalize." + t[1])
		return "rev=" + fmtU64s(rev) + " " + perNode(ng, func(n uint64) string { return fmtU64s(adjSeq(ng, n, d)) })
	case len(t) >= 2 && t[0] == "seg":
		if len(t)%2 != 0 {
			return "bad-op"
		}
		ids := make([]uint64, len(t)-1)
		for i, s := range t[1:] {
			v, err := strconv.ParseUint(s, 10, 64)
			if err != nil {
				return "bad-op"
			}
			ids[i] = v
		}
		// terminal first: n1 e1 n2 e2 ... nk
		var head, cur *container.Segment
		for i := 0; i < len(ids); i += 2 {
			s := &container.Segment{Node: ids[i]}
			if i+1 < len(ids) {
				s.Edge = ids[i+1]
			}
			if head == nil {
				head = s
			} else {
				cur.Previous = s
			}
			cur = s
		}
		if len(ids) == 1 {
			r.stats.Inc("branch.seg.single_node")
		}
		var buf bytes.Buffer
		if err := container.MarshalSegment(head, &buf); err != nil {
			return "error"
		}
		back := container.UnmarshalSegment(buf.Bytes())
		return fmt.Sprintf("hex=%s nodes=%s edges=%s", hex.EncodeToString(buf.Bytes()), fmtU64s(back.Nodes()), fmtU64s(back.Edges()))
	case len(t) == 3 && t[0] == "toseg":
		ns, ok1 := parseIDs(t[1])
		es, ok2 := parseIDs(t[2])
		if !ok1 || !ok2 {
			return "bad-op"
		}
		r.stats.Inc("branch.toseg")
		res := func() (out string) {
			defer func() {
				if p := recover(); p != nil {
					out = "index-panic"
				}
			}()
			sg := container.SerializedSegment{Nodes: ns, Edges: es}.ToSegment()
			return fmt.Sprintf("nodes=%s edges=%s", fmtU64s(sg.Nodes()), fmtU64s(sg.Edges()))
		}()
		return res
	case len(t) == 6 && (t[0] == "tsbfs" || t[0] == "tsdfs"):
		ts := r.tsOf(t[1])
		if ts == nil {
			return "bad-op"
		}
		d, ok := c14Dir(t[2])
		md, e1 := strconv.Atoi(t[3])
		root, e2 := strconv.ParseUint(t[4], 10, 64)
		filt, ok2 := c14Filter(t[5])
		if !ok || e1 != nil || e2 != nil || !ok2 {
			return "bad-op"
		}
		var segs []string
		handler := func(s *container.Segment) bool { segs = append(segs, s.Format()); return true }
		var inc int
		if t[0] == "tsbfs" {
			inc = container.TSBFS(ts, root, d, md, filt, handler)
		} else {
			inc = container.TSDFS(ts, root, d, md, filt, handler)
		}
		r.stats.Inc("branch." + t[0] + "." + t[2])
		if inc > 0 {
			r.stats.Inc("branch.traversal.depth_exceeded")
		}
		if md <= 0 {
			r.stats.Inc("branch.traversal.unbounded_depth")
		}
		out := "-"
		if len(segs) > 0 {
			out = strings.Join(segs, "|")
		}
		return fmt.Sprintf("inc=%d %s", inc, out)
	case len(t) == 6 && t[0] == "tssl":
		ts := r.tsOf(t[1])
		if ts == nil {
			return "bad-op"
		}
		d, ok := c14Dir(t[2])
		md, e1 := strconv.Atoi(t[3])
		root, e2 := strconv.ParseUint(t[4], 10, 64)
		filt, ok2 := c14Filter(t[5])
		if !ok || e1 != nil || e2 != nil || !ok2 {
			return "bad-op"
		}
		var terms []string
		inc := container.TSStatelessBFS(ts, root, d, md, func(e container.Edge) (container.Weight, bool) {
			return container.Weight(1 + e.ID%3), filt(e)
		}, func(pt container.PathTerminal) bool {
			terms = append(terms, fmt.Sprintf("%d@%d*%d", pt.Node, pt.Distance, int64(pt.Weight)))
			return true
		}, 1)
		r.stats.Inc("branch.tssl." + t[2])
		out := "-"
		if len(terms) > 0 {
			out = strings.Join(terms, "|")
		}
		return fmt.Sprintf("inc=%d %s", inc, out)
	case len(t) == 2 && t[0] == "numedges":
		g := r.view(t[1])
		ne, ok := g.(interface{ NumEdges() uint64 })
		if g == nil || !ok {
			return "bad-op"
		}
		r.stats.Inc("branch.numedges." + t[1])
		return strconv.FormatUint(ne.NumEdges(), 10)
	case len(t) == 3 && t[0] == "dims":
		g := r.view(t[1])
		d, ok := c14Dir(t[2])
		if g == nil || !ok {
			return "bad-op"
		}
		n, m := container.Dimensions(g, d)
		r.stats.Inc("branch.dims")
		return fmt.Sprintf("%d %d", n, m)
	case len(t) == 3 && t[0] == "zone":
		md, e1 := strconv.Atoi(t[1])
		ids, ok := parseIDs(t[2])
		if e1 != nil || !ok {
			return "bad-op"
		}
		nodes := make([]*graph.Node, len(ids))
		for i, id := range ids {
			nodes[i] = graph.NewNode(graph.ID(id), graph.NewProperties())
		}
		dir, err := os.MkdirTemp("", "c14zone")
		if err != nil {
			return "error tmp"
		}
		defer os.RemoveAll(dir)
		f, err := container.WriteZoneBFSTree(graph.NewNodeSet(nodes...), r.ts, dir, md)
		if err != nil {
			return "error write"
		}
		var got []string
		rerr := func() (err error) {
			defer func() {
				if p := recover(); p != nil {
					err = fmt.Errorf("panic")
				}
			}()
			return f.ReadEach(context.Background(), func(s *container.Segment) (bool, error) {
				got = append(got, s.Format())
				return true, nil
			})
		}()
		r.stats.Inc("branch.zone.readeach")
		if rerr != nil {
			return fmt.Sprintf("written=%d read=error -", f.NumPaths)
		}
		sort.Strings(got)
		out := "-"
		if len(got) > 0 {
			out = strings.Join(got, "|")
		}
		return fmt.Sprintf("written=%d read=%d %s", f.NumPaths, len(got), out)
	}
	return "bad-op"
}
