package main

import (
	"bufio"
	"errors"
	"fmt"
	"strconv"
	"strings"

	"github.com/specterops/dawgs/cypher/models/walk"
)

// walkc05: C-tie of the Lean model of walk.Generic (Model/C05.lean, shared with C11). The REAL generic walker is
// instantiated on the harness's own tree type with a scripted visitor that calls Consume / SetDone / SetError at
// chosen callback indices; the callback log and the result must equal the Lean model's.
//
// Op:     w <tree> <script> <bad>     tree = (label kid…), script = idx:action,… (action c|d|e<code>) or -, bad = labels the
//
//	cursor constructor refuses (comma separated) or -
//
// Answer: res=<ok|err<code>|conserr> log=<E|V|X><label>,…
type c05walkSuite struct{}

func init() { register("walkc05", c05walkSuite{}) }

type tnode struct {
	label int
	kids  []*tnode
}

func (n *tnode) String() string {
	var b strings.Builder
	fmt.Fprintf(&b, "(%d", n.label)
	for _, k := range n.kids {
		b.WriteString(" " + k.String())
	}
	b.WriteString(")")
	return b.String()
}

func parseTnode(s string) (*tnode, string, bool) {
	s = strings.TrimLeft(s, " ")
	if !strings.HasPrefix(s, "(") {
		return nil, s, false
	}
	s = s[1:]
	i := 0
	for i < len(s) && s[i] >= '0' && s[i] <= '9' {
		i++
	}
	l, err := strconv.Atoi(s[:i])
	if err != nil {
		return nil, s, false
	}
	n := &tnode{label: l}
	s = s[i:]
	for {
		s = strings.TrimLeft(s, " ")
		if strings.HasPrefix(s, ")") {
			return n, s[1:], true
		}
		k, rest, ok := parseTnode(s)
		if !ok {
			return nil, s, false
		}
		n.kids = append(n.kids, k)
		s = rest
	}
}

func genTnode(rng *Rng, budget *int, depth int) *tnode {
	*budget--
	n := &tnode{label: 1 + rng.Intn(9)}
	if depth < 4 {
		for k := rng.Intn(4); k > 0 && *budget > 0; k-- {
			n.kids = append(n.kids, genTnode(rng, budget, depth+1))
		}
	}
	return n
}

// all trees with exactly n nodes (labels 1..n in preorder)
func allTrees(n int, next *int) []*tnode {
	if n == 0 {
		return nil
	}
	var out []*tnode
	// forests of n-1 nodes as the children
	var forests func(k int) [][]*tnode
	forests = func(k int) [][]*tnode {
		if k == 0 {
			return [][]*tnode{nil}
		}
		var res [][]*tnode
		for first := 1; first <= k; first++ {
			for _, t := range allTrees(first, next) {
				for _, rest := range forests(k - first) {
					res = append(res, append([]*tnode{t}, rest...))
				}
			}
		}
		return res
	}
	for _, f := range forests(n - 1) {
		out = append(out, &tnode{kids: f})
	}
	return out
}

func relabel(n *tnode, next *int) *tnode {
	*next++
	c := &tnode{label: *next}
	for _, k := range n.kids {
		c.kids = append(c.kids, relabel(k, next))
	}
	return c
}

func (c05walkSuite) Gen(rng *Rng, tier string, w *bufio.Writer, stats *Stats) {
	n := 0
	emit := func(tag string, t *tnode, script, bad string) {
		n++
		fmt.Fprintf(w, "# case %d %s\nw %s %s %s\n", n, tag, strings.ReplaceAll(t.String(), " ", "_"), script, bad)
	}
	maxNodes := 4
	if tier == "thorough" {
		maxNodes = 5
	}
	actions := []string{"c", "d", "e7"}
	for size := 1; size <= maxNodes; size++ {
		dummy := 0
		for _, shape := range allTrees(size, &dummy) {
			k := 0
			t := relabel(shape, &k)
			emit("exhaustive", t, "-", "-")
			stats.Inc("exhaustive_trees")
			for idx := 0; idx < 3*size; idx++ {
				for _, a := range actions {
					emit("exhaustive", t, fmt.Sprintf("%d:%s", idx, a), "-")
				}
			}
			for b := 1; b <= size; b++ {
				emit("exhaustive", t, "-", strconv.Itoa(b))
			}
		}
	}
	random := 1500
	if tier == "thorough" {
		random = 20000
	}
	for i := 0; i < random; i++ {
		budget := 2 + rng.Intn(14)
		t := genTnode(rng, &budget, 0)
		var sc []string
		for k := rng.Intn(4); k > 0; k-- {
			sc = append(sc, fmt.Sprintf("%d:%s", rng.Intn(30), Pick(rng, []string{"c", "c", "d", "e3", "e9"})))
		}
		script := "-"
		if len(sc) > 0 {
			script = strings.Join(sc, ",")
		}
		bad := "-"
		if rng.Chance(1, 6) {
			bad = strconv.Itoa(1 + rng.Intn(9))
		}
		emit("random", t, script, bad)
		stats.Inc("random_trees")
	}
}

type c05walkRunner struct{ stats *Stats }

func (c05walkSuite) NewRunner(stats *Stats) Runner { return &c05walkRunner{stats} }

type scriptedVisitor struct {
	walk.Visitor[*tnode]
	script map[int][]string
	idx    int
	log    []string
}

func (s *scriptedVisitor) act(kind string, n *tnode) {
	s.log = append(s.log, kind+strconv.Itoa(n.label))
	for _, a := range s.script[s.idx] {
		switch {
		case a == "c":
			s.Consume()
		case a == "d":
			s.SetDone()
		case strings.HasPrefix(a, "e"):
			s.SetError(errors.New(a[1:]))
		}
	}
	s.idx++
}

func (s *scriptedVisitor) Enter(n *tnode) { s.act("E", n) }
func (s *scriptedVisitor) Visit(n *tnode) { s.act("V", n) }
func (s *scriptedVisitor) Exit(n *tnode)  { s.act("X", n) }

var errCons = errors.New("cursor constructor refused the node")

func (r *c05walkRunner) Step(t []string, raw string) string {
	if len(t) != 4 || t[0] != "w" {
		return "bad-op"
	}
	tree, _, ok := parseTnode(strings.ReplaceAll(t[1], "_", " "))
	if !ok {
		return "bad-op"
	}
	v := &scriptedVisitor{Visitor: walk.NewVisitor[*tnode](), script: map[int][]string{}}
	if t[2] != "-" {
		for _, item := range strings.Split(t[2], ",") {
			parts := strings.SplitN(item, ":", 2)
			i, err := strconv.Atoi(parts[0])
			if err != nil || len(parts) != 2 {
				return "bad-op"
			}
			v.script[i] = append(v.script[i], parts[1])
		}
	}
	bad := map[int]bool{}
	if t[3] != "-" {
		for _, b := range strings.Split(t[3], ",") {
			i, _ := strconv.Atoi(b)
			bad[i] = true
		}
	}
	err := walk.Generic[*tnode](tree, v, func(n *tnode) (*walk.Cursor[*tnode], error) {
		if bad[n.label] {
			return nil, errCons
		}
		return &walk.Cursor[*tnode]{Node: n, Branches: n.kids}, nil
	})
	res := "ok"
	switch {
	case errors.Is(err, errCons):
		res = "conserr"
		r.stats.Inc("walk.conserr")
	case err != nil:
		res = "err" + strings.Split(err.Error(), "\n")[0]
		r.stats.Inc("walk.err")
	default:
		r.stats.Inc("walk.ok")
	}
	if strings.Contains(t[2], "c") {
		r.stats.Inc("walk.with_consume")
	}
	return fmt.Sprintf("res=%s log=%s", res, strings.Join(v.log, ","))
}
