package main

// C20, semantically consistent tampering (suite `c20`): the attacker re-encodes a fragment and updates its
// digest and sizes in manifest.json, so the byte-level integrity check passes and only the record-level
// preflight (duplicate ids, dangling endpoints, per graph) stands between the input and the database.
//
//	dump ... ids=<numeric|element|uuid|padded|shared>   id spelling of the whole (honest) dump: the real Dump writes
//	                            canonical decimals; the other styles re-spell every node id / edge endpoint the way
//	                            other sources do (Neo4j element ids `4:a1b2:17`, UUIDs, zero padded numbers) and
//	                            re-hash, so that the resolver's non-numeric path is exercised. `shared` gives every
//	                            graph the SAME ids (`4:x:<index>`), which is legal: ids are per graph.
//	edge <file> <k> <s|e> <ref>      record k of edge fragment <file>: start / end := id of node <ref>
//	arcedge <file> <k> <s|e> <ref>   the same, re-packed with the real archive writer and loaded through ArchiveReader
//	dupnode <file> <k> <ref>         record k of node fragment <file>: id := id of node <ref> (a duplicate in its graph)
//	                                 ref = g<graph>n<index> | missing
//	uarc <mode> <pre> <file> <spell> <alter>   hostile ENCRYPTED archive built with the public key by the real writer:
//	                            the manifest path of fragment <file> is re-spelled (canon | dotmid | dotlead | dslash |
//	                            trailsp | leadsp | trailslash | combo: all sanitise to the same tar entry) and the
//	                            fragment is altered (none | flip | subst | trunc | append) WITHOUT updating the manifest;
//	                            unpacked with mode encdirect | staged | stagedforce into pre = absent | empty | full.

import (
	"bytes"
	"compress/gzip"
	"crypto/sha256"
	"encoding/hex"
	"encoding/json"
	"fmt"
	"io"
	"os"
	"path/filepath"
	"sort"
	"strconv"
	"strings"

	"github.com/klauspost/compress/zstd"
	"github.com/specterops/dawgs/retriever"
)

type c20FileMeta struct {
	graph, file int
	phase       retriever.Phase
}

func c20Decompress(codec string, data []byte) ([]byte, error) {
	switch codec {
	case "none":
		return data, nil
	case "gzip":
		r, err := gzip.NewReader(bytes.NewReader(data))
		if err != nil {
			return nil, err
		}
		return io.ReadAll(r)
	case "zstd":
		r, err := zstd.NewReader(bytes.NewReader(data))
		if err != nil {
			return nil, err
		}
		defer r.Close()
		return io.ReadAll(r)
	}
	return nil, fmt.Errorf("codec %q", codec)
}

func c20Compress(codec string, plain []byte) ([]byte, error) {
	var buf bytes.Buffer
	switch codec {
	case "none":
		return plain, nil
	case "gzip":
		w, _ := gzip.NewWriterLevel(&buf, gzip.BestCompression)
		if _, err := w.Write(plain); err != nil {
			return nil, err
		}
		if err := w.Close(); err != nil {
			return nil, err
		}
	case "zstd":
		w, err := zstd.NewWriter(&buf)
		if err != nil {
			return nil, err
		}
		if _, err := w.Write(plain); err != nil {
			return nil, err
		}
		if err := w.Close(); err != nil {
			return nil, err
		}
	default:
		return nil, fmt.Errorf("codec %q", codec)
	}
	return buf.Bytes(), nil
}

func c20EncodeLines[T any](records []T) []byte {
	var buf bytes.Buffer
	enc := json.NewEncoder(&buf)
	enc.SetEscapeHTML(false)
	for _, r := range records {
		_ = enc.Encode(r)
	}
	return buf.Bytes()
}

func c20DecodeLines[T any](plain []byte) ([]T, error) {
	var out []T
	for _, line := range bytes.Split(plain, []byte("\n")) {
		if len(bytes.TrimSpace(line)) == 0 {
			continue
		}
		var r T
		if err := json.Unmarshal(line, &r); err != nil {
			return nil, err
		}
		out = append(out, r)
	}
	return out, nil
}

// setFragment re-encodes fragment idx from its plain JSON lines and makes manifest.json agree (digest, sizes):
// the tampering is invisible to the byte-level integrity check.
func (d *c20Dump) setFragment(files []c20File, idx int, plain []byte) error {
	data, err := c20Compress(d.codec, plain)
	if err != nil {
		return err
	}
	files[idx].data = data
	sum := sha256.Sum256(data)
	m := d.meta[idx]
	prefix := fmt.Sprintf("graphs.%d.files.%d.", m.graph, m.file)
	manifest := files[0].data
	for _, kv := range [][2]string{
		{"sha256", strconv.Quote(hex.EncodeToString(sum[:]))},
		{"compressed_bytes", strconv.Itoa(len(data))},
		{"uncompressed_bytes", strconv.Itoa(len(plain))},
	} {
		next, ok := c20EditManifest(manifest, prefix+kv[0], kv[1])
		if !ok {
			return fmt.Errorf("manifest edit %s failed", prefix+kv[0])
		}
		manifest = next
	}
	files[0].data = manifest
	return nil
}

func c20StyleID(style string, numeric string, indexInGraph int) string {
	n, _ := strconv.ParseUint(numeric, 10, 64)
	switch style {
	case "element":
		return fmt.Sprintf("4:a1b2:%d", n)
	case "uuid":
		return fmt.Sprintf("00000000-0000-4000-8000-%012d", n)
	case "padded":
		return fmt.Sprintf("%08d", n)
	case "shared":
		return fmt.Sprintf("4:x:%d", indexInGraph)
	}
	return numeric
}

// restyle re-spells every id of the honest dump (in memory) and records the node ids per graph.
func (d *c20Dump) restyle(style string) error {
	graphs := 0
	for _, m := range d.meta[1:] {
		if m.graph+1 > graphs {
			graphs = m.graph + 1
		}
	}
	d.nodeIDs = make([][]string, graphs)
	mapping := make([]map[string]string, graphs)
	for g := range mapping {
		mapping[g] = map[string]string{}
	}
	for idx := 1; idx < len(d.files); idx++ {
		m := d.meta[idx]
		plain, err := c20Decompress(d.codec, d.files[idx].data)
		if err != nil {
			return err
		}
		if m.phase == retriever.PhaseNodes {
			nodes, err := c20DecodeLines[retriever.FragmentNode](plain)
			if err != nil {
				return err
			}
			for i := range nodes {
				styled := c20StyleID(style, nodes[i].ID, len(d.nodeIDs[m.graph]))
				mapping[m.graph][nodes[i].ID] = styled
				nodes[i].ID = styled
				d.nodeIDs[m.graph] = append(d.nodeIDs[m.graph], styled)
			}
			plain = c20EncodeLines(nodes)
		} else {
			edges, err := c20DecodeLines[retriever.FragmentEdge](plain)
			if err != nil {
				return err
			}
			for i := range edges {
				edges[i].StartID = mapping[m.graph][edges[i].StartID]
				edges[i].EndID = mapping[m.graph][edges[i].EndID]
			}
			plain = c20EncodeLines(edges)
		}
		if style != "" && style != "numeric" {
			if err := d.setFragment(d.files, idx, plain); err != nil {
				return err
			}
		}
	}
	return nil
}

// recordCount decodes fragment idx and counts its JSON lines.
func (d *c20Dump) recordCount(idx int) int {
	plain, err := c20Decompress(d.codec, d.files[idx].data)
	if err != nil {
		return 0
	}
	return bytes.Count(plain, []byte("\n"))
}

func (d *c20Dump) refID(ref string) (string, bool) {
	if ref == "missing" {
		return "no-such-node-77", true
	}
	var g, n int
	if _, err := fmt.Sscanf(ref, "g%dn%d", &g, &n); err != nil || g < 0 || g >= len(d.nodeIDs) || n < 0 || n >= len(d.nodeIDs[g]) {
		return "", false
	}
	return d.nodeIDs[g][n], true
}

// semanticOp: edge / arcedge / dupnode.
func (r *c20Runner) semanticOp(t []string) string {
	d := r.dump
	fi, ok := r.fileIndex(t[1])
	if !ok || fi == 0 {
		return "bad-op"
	}
	k := c20Atoi(t[2], -1)
	files := d.clone()
	plain, err := c20Decompress(d.codec, files[fi].data)
	if err != nil {
		return "harness-error " + err.Error()
	}
	switch t[0] {
	case "edge", "arcedge":
		if len(t) != 5 || d.meta[fi].phase != retriever.PhaseEdges {
			return "bad-op"
		}
		id, ok := d.refID(t[4])
		edges, err := c20DecodeLines[retriever.FragmentEdge](plain)
		if !ok || err != nil || k < 0 || k >= len(edges) {
			return "bad-op"
		}
		target := &edges[k].StartID
		if t[3] == "e" {
			target = &edges[k].EndID
		} else if t[3] != "s" {
			return "bad-op"
		}
		if *target == id {
			return "identical"
		}
		for _, own := range d.nodeIDs[d.meta[fi].graph] {
			if own == id { // the spelling also names a node of the fragment's own graph: a valid retarget, not a dangling edge
				return "not-dangling"
			}
		}
		*target = id
		plain = c20EncodeLines(edges)
	case "dupnode":
		if len(t) != 4 || d.meta[fi].phase != retriever.PhaseNodes {
			return "bad-op"
		}
		id, ok := d.refID(t[3])
		nodes, err := c20DecodeLines[retriever.FragmentNode](plain)
		if !ok || err != nil || k < 0 || k >= len(nodes) {
			return "bad-op"
		}
		if nodes[k].ID == id {
			return "identical"
		}
		nodes[k].ID = id
		plain = c20EncodeLines(nodes)
	}
	if err := d.setFragment(files, fi, plain); err != nil {
		return "harness-error " + err.Error()
	}
	if t[0] != "arcedge" {
		return d.load(r.stats, files, nil, nil)
	}
	dir, err := c20Materialise(files)
	if err != nil {
		return "harness-error " + err.Error()
	}
	defer os.RemoveAll(dir)
	var arc bytes.Buffer
	if err := retriever.WriteEncryptedCollectionArchive(&arc, dir, d.pub); err != nil {
		return "skip unbuildable " + c20ErrClass(err)
	}
	return d.loadKeepClass(r.stats, arc.Bytes(), d.priv)
}

var c20Spellings = []string{"canon", "dotmid", "dotlead", "dslash", "trailsp", "leadsp", "trailslash", "combo"}

func c20Respell(path, spell string) (string, bool) {
	i := strings.IndexByte(path, '/')
	if i < 0 {
		return "", false
	}
	switch spell {
	case "canon":
		return path, true
	case "dotmid":
		return path[:i] + "/./" + path[i+1:], true
	case "dotlead":
		return "./" + path, true
	case "dslash":
		return path[:i] + "//" + path[i+1:], true
	case "trailsp":
		return path + " ", true
	case "leadsp":
		return "\t " + path, true
	case "trailslash":
		return path + "/", true
	case "combo":
		return " .//" + path[:i] + "/.//./" + path[i+1:] + "/. ", true
	}
	return "", false
}

// uarcOp: a hostile encrypted archive whose manifest spells a fragment path non-canonically and whose
// fragment bytes no longer match the manifest, unpacked by the real code inside a sentinel tree.
func (r *c20Runner) uarcOp(mode, pre string, t []string) string {
	d := r.dump
	fi, ok := r.fileIndex(t[0])
	if !ok || fi == 0 || len(t) != 3 {
		return "bad-op"
	}
	spelled, ok := c20Respell(d.files[fi].path, t[1])
	if !ok {
		return "bad-op"
	}
	files := d.clone()
	m := d.meta[fi]
	manifest, ok := c20EditManifest(files[0].data, fmt.Sprintf("graphs.%d.files.%d.path", m.graph, m.file), strconv.Quote(spelled))
	if !ok {
		return "bad-op"
	}
	files[0].data = manifest
	switch t[2] {
	case "none":
	case "flip":
		files[fi].data[len(files[fi].data)/2] ^= 0x01
	case "subst":
		other := -1
		for j := 1; j < len(files); j++ {
			if j != fi && d.meta[j].phase == m.phase && !bytes.Equal(d.files[j].data, d.files[fi].data) {
				other = j
				break
			}
		}
		if other < 0 {
			return "identical"
		}
		files[fi].data = append([]byte(nil), d.files[other].data...)
	case "trunc":
		files[fi].data = files[fi].data[:len(files[fi].data)-1]
	case "append":
		files[fi].data = append(files[fi].data, '\n')
	default:
		return "bad-op"
	}
	dir, err := c20Materialise(files)
	if err != nil {
		return "harness-error " + err.Error()
	}
	defer os.RemoveAll(dir)
	var arc bytes.Buffer
	if err := retriever.WriteEncryptedCollectionArchive(&arc, dir, d.pub); err != nil {
		r.stats.Inc("uarc.unbuildable")
		return "skip unbuildable " + c20ErrClass(err)
	}
	r.stats.Inc("uarc.built")
	return r.unpackObserved(mode, pre, arc.Bytes())
}

// unpackObserved runs one unpack entry point on a ready-made encrypted archive inside a sentinel tree.
func (r *c20Runner) unpackObserved(mode, pre string, payload []byte) string {
	d := r.dump
	root, err := os.MkdirTemp("", "c20-root-*")
	if err != nil {
		return "harness-error " + err.Error()
	}
	defer os.RemoveAll(root)
	dest := filepath.Join(root, "dest")
	_ = os.MkdirAll(filepath.Join(root, "sib"), 0o755)
	_ = os.WriteFile(filepath.Join(root, "outside.txt"), []byte("sentinel"), 0o600)
	_ = os.WriteFile(filepath.Join(root, "sib", "keep.txt"), []byte("sentinel-2"), 0o600)
	switch pre {
	case "absent":
	case "empty":
		_ = os.MkdirAll(dest, 0o755)
	case "full":
		_ = os.MkdirAll(filepath.Join(dest, "sub"), 0o755)
		_ = os.WriteFile(filepath.Join(dest, "old.txt"), []byte(c20OldA), 0o600)
		_ = os.WriteFile(filepath.Join(dest, "sub", "old2.txt"), []byte(c20OldB), 0o600)
	default:
		return "bad-op"
	}
	before := c20TreeHash(root, dest)
	var runErr error
	switch mode {
	case "encdirect":
		runErr = retriever.UnpackEncryptedCollectionArchive(c20Reader(payload), dest, d.priv)
	case "staged", "stagedforce":
		runErr = retriever.Unpack(retriever.UnpackOptions{ArchiveReader: c20Reader(payload), ArchiveIdentity: d.priv, OutputDir: dest, Force: mode == "stagedforce"})
	default:
		return "bad-op"
	}
	outside := "same"
	if c20TreeHash(root, dest) != before {
		outside = "changed"
	}
	created := []string{}
	oldA, oldB := false, false
	_ = filepath.Walk(dest, func(p string, info os.FileInfo, err error) error {
		if err != nil || p == dest || info.IsDir() {
			return nil
		}
		rel, _ := filepath.Rel(dest, p)
		rel = filepath.ToSlash(rel)
		if pre == "full" && info.Mode().IsRegular() {
			data, _ := os.ReadFile(p)
			if rel == "old.txt" && string(data) == c20OldA {
				oldA = true
				return nil
			}
			if rel == "sub/old2.txt" && string(data) == c20OldB {
				oldB = true
				return nil
			}
		}
		created = append(created, hex.EncodeToString([]byte(rel)))
		return nil
	})
	sort.Strings(created)
	old := "na"
	if pre == "full" {
		old = "gone"
		if oldA && oldB {
			old = "kept"
		}
	}
	res, cls := "ok", "-"
	if runErr != nil {
		res, cls = "err", c20UnpackErrClass(runErr)
	}
	r.stats.Inc("branch.unpack." + mode + "." + res)
	r.stats.Inc("unpackclass." + cls)
	list := "-"
	if len(created) > 0 {
		list = strings.Join(created, ";")
	}
	return fmt.Sprintf("%s outside=%s new=%d old=%s created=%s cls=%s", res, outside, len(created), old, list, cls)
}
