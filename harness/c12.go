package main

import (
	"bufio"
	"encoding/json"
	"fmt"
	"os"
	"sort"
	"strconv"
	"strings"

	"github.com/specterops/dawgs/graph"
)

// C12: entity change tracking (graph/properties.go, graph/node.go, graph/kind.go, graph/relationships.go)
// against the Lean model Dawgs.C12.
//
// Line protocol (one answer line per op line):
//
//	mode current|fixed            which Properties.Merge / Node.Merge the *model* runs (the implementation is what it is)
//	load <map> <kinds>            two tracked entities (graph.Node 0 and 1) are created from the same loaded state
//	                              <map>   = nil | - | a:1,b:2     (nil: NewProperties(); else AsProperties(fresh map))
//	                              <kinds> = - | A,B
//	set e k v | setall e <map> | del e k
//	get e k | gd e k d | ex e k | len e        reads (Get().Any(), GetOrDefault().Any(), Exists, Len)
//	clone e f                     f.Properties = e.Properties.Clone()
//	pmerge e f                    e.Properties.Merge(f.Properties)   (Relationship.Merge / pg batch path)
//	merge e f                     e.Merge(f)                         (Node.Merge: kinds, then Properties.Merge)
//	addk e A,_,B | delk e A,B     Node.AddKinds / Node.DeleteKinds   (_ = nil Kind, AddKinds only)
//
// Answer: `<ret> | <dump of entity 0> | <dump of entity 1>`; a dump is
// `M=<map> mod=<set> del=<set> mp=<map> dp=<set> K=<list> add=<list> rem=<list>` where M/mod/del are the raw fields
// (nil | - | sorted), mp/dp are ModifiedProperties()/DeletedProperties() (what the drivers send) and K/add/rem are
// Kinds/AddedKinds/DeletedKinds in slice order.  Values are small codes: 0=nil 1,2,3=ints 4="x" 5="y" 6=true 7=false
// 8=[1,"x"] 9={"k":1}.

// c12Mode is the merge the Lean model is asked to run for generated cases ("current" = the code as it is in /repo with
// finding F4; "fixed" = hooks/C12-fix.patch applied).  Flip with `python3 lib/c12_flip.py fixed` after the fix is
// committed to /repo.  VERIF_C12_MODE overrides it (used for scratch-worktree experiments only).
var c12Mode = "fixed"

type c12Suite struct{}

func init() { register("c12", c12Suite{}) }

var c12Keys = []string{"a", "b", "c", "d"}
var c12Kinds = []string{"A", "B", "C"}

func c12Value(code int) any {
	switch code {
	case 0:
		return nil
	case 1, 2, 3:
		return code
	case 4:
		return "x"
	case 5:
		return "y"
	case 6:
		return true
	case 7:
		return false
	case 8:
		return []any{1, "x"}
	case 9:
		return map[string]any{"k": 1}
	}
	return fmt.Sprintf("?%d", code)
}

var c12Codes = func() map[string]int {
	m := map[string]int{}
	for c := 0; c <= 9; c++ {
		b, _ := json.Marshal(c12Value(c))
		m[string(b)] = c
	}
	return m
}()

func c12Code(v any) string {
	b, err := json.Marshal(v)
	if err != nil {
		return "?"
	}
	if c, ok := c12Codes[string(b)]; ok {
		return strconv.Itoa(c)
	}
	return "?"
}

func c12ParseMap(tok string) (map[string]any, bool, bool) { // (map, isNil, ok)
	switch tok {
	case "nil":
		return nil, true, true
	case "-":
		return map[string]any{}, false, true
	}
	m := map[string]any{}
	for _, kv := range strings.Split(tok, ",") {
		p := strings.SplitN(kv, ":", 2)
		if len(p) != 2 || len(p[0]) != 1 {
			return nil, false, false
		}
		c, err := strconv.Atoi(p[1])
		if err != nil || c < 0 || c > 9 {
			return nil, false, false
		}
		m[p[0]] = c12Value(c)
	}
	return m, false, true
}

func c12ParseKinds(tok string, allowNil bool) ([]graph.Kind, bool) {
	if tok == "-" {
		return nil, true
	}
	var ks []graph.Kind
	for _, k := range strings.Split(tok, ",") {
		if k == "_" && allowNil {
			ks = append(ks, nil)
			continue
		}
		if len(k) != 1 || k[0] < 'A' || k[0] > 'Z' {
			return nil, false
		}
		ks = append(ks, graph.StringKind(k))
	}
	return ks, true
}

func c12SetStr(m map[string]struct{}) string {
	if m == nil {
		return "nil"
	}
	if len(m) == 0 {
		return "-"
	}
	ks := make([]string, 0, len(m))
	for k := range m {
		ks = append(ks, k)
	}
	sort.Strings(ks)
	return strings.Join(ks, ",")
}

func c12MapStr(m map[string]any, isNil bool) string {
	if isNil {
		return "nil"
	}
	if len(m) == 0 {
		return "-"
	}
	ks := make([]string, 0, len(m))
	for k := range m {
		ks = append(ks, k)
	}
	sort.Strings(ks)
	for i, k := range ks {
		ks[i] = k + ":" + c12Code(m[k])
	}
	return strings.Join(ks, ",")
}

func c12KindsStr(ks graph.Kinds) string {
	if len(ks) == 0 {
		return "-"
	}
	out := make([]string, len(ks))
	for i, k := range ks {
		if k == nil {
			out[i] = "_"
		} else {
			out[i] = k.String()
		}
	}
	return strings.Join(out, ",")
}

func c12Dump(n *graph.Node) string {
	p := n.Properties
	dp := p.DeletedProperties()
	dps := "nil"
	if dp != nil {
		sort.Strings(dp)
		dps = strings.Join(dp, ",")
		if len(dp) == 0 {
			dps = "-"
		}
	}
	mp := p.ModifiedProperties()
	return fmt.Sprintf("M=%s mod=%s del=%s mp=%s dp=%s K=%s add=%s rem=%s",
		c12MapStr(p.Map, p.Map == nil), c12SetStr(p.Modified), c12SetStr(p.Deleted),
		c12MapStr(mp, mp == nil), dps,
		c12KindsStr(n.Kinds), c12KindsStr(n.AddedKinds), c12KindsStr(n.DeletedKinds))
}

type c12Runner struct {
	stats *Stats
	n     [2]*graph.Node
	// caller-side kind slices handed to NewNode (aliasing information, DESIGN §4 C12 "not verified")
	callerKinds [2][]graph.Kind
	callerCopy  [2][]graph.Kind
}

func (c12Suite) NewRunner(stats *Stats) Runner { return &c12Runner{stats: stats} }

func (r *c12Runner) ent(tok string) (int, bool) {
	switch tok {
	case "0":
		return 0, true
	case "1":
		return 1, true
	}
	return 0, false
}

func (r *c12Runner) withDump(ret string) string {
	return ret + " | " + c12Dump(r.n[0]) + " | " + c12Dump(r.n[1])
}

func has(m map[string]struct{}, k string) bool { _, ok := m[k]; return ok }

func (r *c12Runner) countPropsMerge(s, o *graph.Properties) {
	st := r.stats
	st.Inc("branch.pmerge")
	if len(o.Map) == 0 {
		st.Inc("branch.pmerge.other_map_empty")
	} else if s.Map == nil {
		st.Inc("branch.pmerge.alloc_map")
	}
	if len(o.Modified) > 0 && s.Modified == nil {
		st.Inc("branch.pmerge.alloc_modified")
	}
	if len(o.Deleted) > 0 && s.Deleted == nil {
		st.Inc("branch.pmerge.alloc_deleted")
	}
	for k := range o.Modified {
		if has(s.Deleted, k) {
			st.Inc("branch.pmerge.other_modified_in_self_deleted")
			break
		}
	}
	for k := range o.Deleted {
		if has(s.Modified, k) {
			st.Inc("branch.pmerge.other_deleted_in_self_modified")
			break
		}
	}
	for k := range s.Deleted {
		if _, in := o.Map[k]; in && !has(o.Modified, k) {
			st.Inc("branch.pmerge.self_deleted_in_other_map_unmodified") // the F4 trigger
			break
		}
	}
	if s == o {
		st.Inc("branch.pmerge.self")
	}
}

func (r *c12Runner) Step(t []string, raw string) string {
	st := r.stats
	if len(t) == 2 && t[0] == "mode" {
		if t[1] == "current" || t[1] == "fixed" {
			return "ok"
		}
		return "bad-op"
	}
	if len(t) == 3 && t[0] == "load" {
		ks, ok2 := c12ParseKinds(t[2], false)
		if _, _, ok1 := c12ParseMap(t[1]); !ok1 || !ok2 {
			return "bad-op"
		}
		for i := 0; i < 2; i++ {
			m, isNil, _ := c12ParseMap(t[1]) // a fresh map per entity
			var p *graph.Properties
			if isNil {
				p = graph.NewProperties()
			} else {
				p = graph.AsProperties(m)
			}
			own := append([]graph.Kind(nil), ks...)
			r.callerKinds[i] = own
			r.callerCopy[i] = append([]graph.Kind(nil), own...)
			r.n[i] = graph.NewNode(graph.ID(i+1), p, own...)
		}
		if t[1] == "nil" {
			st.Inc("branch.load.nil_map")
		}
		return r.withDump("ok")
	}
	if r.n[0] == nil || len(t) < 2 {
		return "bad-op"
	}
	e, ok := r.ent(t[1])
	if !ok {
		return "bad-op"
	}
	n := r.n[e]
	p := n.Properties
	switch {
	case t[0] == "set" && len(t) == 4:
		c, err := strconv.Atoi(t[3])
		if err != nil || c < 0 || c > 9 || len(t[2]) != 1 {
			return "bad-op"
		}
		if p.Map == nil {
			st.Inc("branch.set.map_nil")
		}
		if p.Modified == nil {
			st.Inc("branch.set.modified_nil")
		}
		if has(p.Deleted, t[2]) {
			st.Inc("branch.set.key_was_deleted")
		}
		if c == 0 {
			st.Inc("branch.set.nil_value")
		}
		p.Set(t[2], c12Value(c))
		return r.withDump("ok")
	case t[0] == "setall" && len(t) == 3:
		m, isNil, ok := c12ParseMap(t[2])
		if !ok {
			return "bad-op"
		}
		if isNil || len(m) == 0 {
			st.Inc("branch.setall.empty")
		}
		if len(m) > 1 {
			st.Inc("branch.setall.multi")
		}
		p.SetAll(m)
		return r.withDump("ok")
	case t[0] == "del" && len(t) == 3:
		if p.Map == nil {
			st.Inc("branch.del.map_nil")
		}
		if p.Deleted == nil {
			st.Inc("branch.del.deleted_nil")
		}
		if has(p.Modified, t[2]) {
			st.Inc("branch.del.key_was_modified")
		}
		if !p.Exists(t[2]) {
			st.Inc("branch.del.key_absent")
		}
		p.Delete(t[2])
		return r.withDump("ok")
	case t[0] == "get" && len(t) == 3:
		return r.withDump("v" + c12Code(p.Get(t[2]).Any()))
	case t[0] == "gd" && len(t) == 4:
		c, err := strconv.Atoi(t[3])
		if err != nil || c < 0 || c > 9 {
			return "bad-op"
		}
		if v, in := p.Map[t[2]]; in && v == nil {
			st.Inc("branch.gd.nil_value_default")
		} else if in {
			st.Inc("branch.gd.hit")
		} else {
			st.Inc("branch.gd.absent_default")
		}
		return r.withDump("v" + c12Code(p.GetOrDefault(t[2], c12Value(c)).Any()))
	case t[0] == "ex" && len(t) == 3:
		if p.Exists(t[2]) {
			return r.withDump("t")
		}
		return r.withDump("f")
	case t[0] == "len" && len(t) == 2:
		return r.withDump("n" + strconv.Itoa(p.Len()))
	case t[0] == "clone" && len(t) == 3:
		f, ok := r.ent(t[2])
		if !ok {
			return "bad-op"
		}
		if p.Map == nil || p.Modified == nil || p.Deleted == nil {
			st.Inc("branch.clone.some_nil")
		}
		if p.Modified != nil || p.Deleted != nil {
			st.Inc("branch.clone.tracked")
		}
		r.n[f].Properties = p.Clone()
		return r.withDump("ok")
	case t[0] == "pmerge" && len(t) == 3:
		f, ok := r.ent(t[2])
		if !ok {
			return "bad-op"
		}
		r.countPropsMerge(p, r.n[f].Properties)
		p.Merge(r.n[f].Properties)
		return r.withDump("ok")
	case t[0] == "merge" && len(t) == 3:
		f, ok := r.ent(t[2])
		if !ok {
			return "bad-op"
		}
		o := r.n[f]
		st.Inc("branch.nmerge")
		for _, k := range n.DeletedKinds {
			if o.Kinds.ContainsOneOf(k) && !o.AddedKinds.ContainsOneOf(k) {
				st.Inc("branch.nmerge.self_deleted_in_other_kinds_unadded") // the F4 trigger (kinds)
				break
			}
		}
		for _, k := range o.DeletedKinds {
			if n.AddedKinds.ContainsOneOf(k) {
				st.Inc("branch.nmerge.other_deleted_in_self_added")
				break
			}
		}
		for _, k := range o.AddedKinds {
			if n.DeletedKinds.ContainsOneOf(k) {
				st.Inc("branch.nmerge.other_added_in_self_deleted")
				break
			}
		}
		r.countPropsMerge(p, o.Properties)
		n.Merge(o)
		return r.withDump("ok")
	case t[0] == "addk" && len(t) == 3:
		ks, ok := c12ParseKinds(t[2], true)
		if !ok {
			return "bad-op"
		}
		for _, k := range ks {
			switch {
			case k == nil:
				st.Inc("branch.addk.nil_skipped")
			case n.Kinds.ContainsOneOf(k):
				st.Inc("branch.addk.already_present")
			case n.DeletedKinds.ContainsOneOf(k):
				st.Inc("branch.addk.was_deleted")
			default:
				st.Inc("branch.addk.fresh")
			}
		}
		n.AddKinds(ks...)
		return r.withDump("ok")
	case t[0] == "delk" && len(t) == 3:
		ks, ok := c12ParseKinds(t[2], false)
		if !ok {
			return "bad-op"
		}
		for _, k := range ks {
			switch {
			case n.AddedKinds.ContainsOneOf(k):
				st.Inc("branch.delk.was_added")
			case n.Kinds.ContainsOneOf(k):
				st.Inc("branch.delk.loaded_kind")
			default:
				st.Inc("branch.delk.absent")
			}
		}
		n.DeleteKinds(ks...)
		// information only: Kinds.Remove shifts the backing array of the slice the caller handed to NewNode
		for i := range r.callerKinds[e] {
			if r.callerKinds[e][i] != r.callerCopy[e][i] {
				st.Inc("info.caller_kinds_slice_clobbered_by_DeleteKinds")
				r.callerCopy[e] = append([]graph.Kind(nil), r.callerKinds[e]...)
				break
			}
		}
		return r.withDump("ok")
	}
	return "bad-op"
}

// ---------------------------------------------------------------------------------------------- generation

func c12PickMap(rng *Rng, maxN int, allowNilVal bool) string {
	n := rng.Intn(maxN + 1)
	if n == 0 {
		return "-"
	}
	perm := []int{0, 1, 2, 3}
	for i := 3; i > 0; i-- {
		j := rng.Intn(i + 1)
		perm[i], perm[j] = perm[j], perm[i]
	}
	ks := perm[:n]
	sort.Ints(ks)
	parts := make([]string, n)
	for i, k := range ks {
		v := 1 + rng.Intn(9)
		if allowNilVal && rng.Chance(1, 8) {
			v = 0
		}
		parts[i] = fmt.Sprintf("%s:%d", c12Keys[k], v)
	}
	return strings.Join(parts, ",")
}

func c12PickKinds(rng *Rng, allowNil, nonEmpty bool) string {
	var out []string
	for _, k := range c12Kinds {
		if rng.Chance(2, 5) {
			out = append(out, k)
		}
	}
	if allowNil && rng.Chance(1, 6) {
		out = append(out, "_")
	}
	if len(out) == 0 {
		if nonEmpty {
			return Pick(rng, c12Kinds)
		}
		return "-"
	}
	// shuffle so that slice order varies
	for i := len(out) - 1; i > 0; i-- {
		j := rng.Intn(i + 1)
		out[i], out[j] = out[j], out[i]
	}
	return strings.Join(out, ",")
}

func (c12Suite) Gen(rng *Rng, tier string, w *bufio.Writer, stats *Stats) {
	mode := c12Mode
	if m := os.Getenv("VERIF_C12_MODE"); m == "current" || m == "fixed" {
		mode = m
	}
	caseNo := 0
	emit := func(tag, load string, ops []string) {
		caseNo++
		fmt.Fprintf(w, "# case %d %s\n", caseNo, tag)
		fmt.Fprintf(w, "mode %s\n", mode)
		fmt.Fprintf(w, "load %s\n", load)
		for _, o := range ops {
			fmt.Fprintln(w, o)
		}
	}
	exhaustive := func(tag string, loads, alphabet []string, L int) {
		var rec func(prefix []string)
		for _, load := range loads {
			rec = func(prefix []string) {
				if len(prefix) == L {
					emit(tag, load, prefix)
					stats.Inc("exhaustive_cases")
					return
				}
				for _, a := range alphabet {
					rec(append(append([]string{}, prefix...), a))
				}
			}
			rec(nil)
		}
		n := int64(len(loads))
		for i := 0; i < L; i++ {
			n *= int64(len(alphabet))
		}
		stats.Add("exhaustive_expected", n)
	}
	// Exhaustive small scope. A case of length L dumps after every op, so it also covers all its prefixes.
	full := []string{
		"set 0 a 2", "set 1 a 3", "set 0 a 0", "set 1 b 4", "setall 0 a:1,c:5", "del 0 a", "del 1 a", "del 0 c", "del 1 b",
		"gd 0 a 5", "clone 0 1", "clone 1 0", "pmerge 0 1", "pmerge 1 0", "pmerge 0 0", "merge 0 1", "merge 1 0",
		"addk 0 A", "addk 0 C", "addk 1 C,_", "delk 0 A", "delk 1 A", "delk 0 C", "delk 1 B,C",
	}
	propsOnly := []string{
		"set 0 a 2", "set 1 a 3", "set 0 b 0", "setall 1 a:1,c:5", "del 0 a", "del 1 a", "del 1 c",
		"clone 0 1", "pmerge 0 1", "pmerge 1 0", "merge 1 0",
	}
	kindsOnly := []string{
		"addk 0 A", "addk 1 A", "addk 0 C", "addk 1 C", "delk 0 A", "delk 1 A", "delk 0 C", "delk 1 C,B", "merge 0 1", "merge 1 0",
	}
	mid := []string{
		"set 0 a 2", "set 1 a 3", "set 0 a 0", "setall 1 a:1,c:5", "del 0 a", "del 1 a", "del 0 c", "clone 0 1",
		"pmerge 0 1", "pmerge 1 0", "merge 0 1", "merge 1 0", "addk 0 C", "addk 1 A", "delk 0 A", "delk 1 C",
	}
	loads := []string{"a:1,b:2 A,B", "nil -", "- B"}
	exhaustive("ex-full-3", loads, full, 3)
	if tier == "thorough" {
		exhaustive("ex-mid-4", []string{"a:1,b:2 A,B", "nil -"}, mid, 4)
		exhaustive("ex-props-5", []string{"a:1,b:2 A"}, propsOnly, 5)
		exhaustive("ex-kinds-5", []string{"nil A,B"}, kindsOnly, 5)
	} else {
		exhaustive("ex-props-4", []string{"a:1,b:2 A"}, propsOnly, 4)
		exhaustive("ex-kinds-4", []string{"nil A,B"}, kindsOnly, 4)
	}
	// Random long histories over 4 keys / 3 kinds / 10 values, two entities.
	n := 1500
	if tier == "thorough" {
		n = 30000
	}
	for i := 0; i < n; i++ {
		var load string
		switch rng.Intn(6) {
		case 0:
			load = "nil"
		default:
			load = c12PickMap(rng, 4, true)
		}
		load += " " + c12PickKinds(rng, false, false)
		length := 5 + rng.Intn(56)
		// op mix: some cases are merge heavy, some have none at all (the `_partial` fragment)
		mergeW := Pick(rng, []int{0, 1, 2, 4})
		ops := make([]string, 0, length)
		for j := 0; j < length; j++ {
			e := rng.Intn(2)
			f := 1 - e
			if rng.Chance(1, 10) {
				f = e
			}
			k := Pick(rng, c12Keys)
			switch x := rng.Intn(20 + mergeW); {
			case x < 5:
				v := 1 + rng.Intn(9)
				if rng.Chance(1, 8) {
					v = 0
				}
				ops = append(ops, fmt.Sprintf("set %d %s %d", e, k, v))
			case x < 6:
				ops = append(ops, fmt.Sprintf("setall %d %s", e, c12PickMap(rng, 3, true)))
			case x < 10:
				ops = append(ops, fmt.Sprintf("del %d %s", e, k))
			case x < 11:
				switch rng.Intn(4) {
				case 0:
					ops = append(ops, fmt.Sprintf("get %d %s", e, k))
				case 1:
					ops = append(ops, fmt.Sprintf("gd %d %s %d", e, k, rng.Intn(10)))
				case 2:
					ops = append(ops, fmt.Sprintf("ex %d %s", e, k))
				default:
					ops = append(ops, fmt.Sprintf("len %d", e))
				}
			case x < 12:
				ops = append(ops, fmt.Sprintf("clone %d %d", e, f))
			case x < 16:
				ops = append(ops, fmt.Sprintf("addk %d %s", e, c12PickKinds(rng, true, true)))
			case x < 20:
				ops = append(ops, fmt.Sprintf("delk %d %s", e, c12PickKinds(rng, false, true)))
			default:
				if rng.Bool() {
					ops = append(ops, fmt.Sprintf("pmerge %d %d", e, f))
				} else {
					ops = append(ops, fmt.Sprintf("merge %d %d", e, f))
				}
			}
		}
		emit("rand", load, ops)
		stats.Inc("random_cases")
	}
	c12Probes(stats)
}

// c12Probes runs the real code once at the points the theorems exclude by hypothesis (DESIGN §4 C12: duplicate initial
// kinds, a Kind value that is not the canonical StringKind pointer) and records what happens as information.
func c12Probes(stats *Stats) {
	a, b := graph.StringKind("A"), graph.StringKind("B")
	// duplicate initial kinds: Remove drops only the first match
	n := graph.NewNode(1, graph.NewProperties(), a, b, a)
	n.DeleteKinds(a)
	if n.Kinds.ContainsOneOf(a) {
		stats.Inc("info.excluded.duplicate_initial_kinds.deleted_kind_still_present")
	}
	// non-canonical kind: Is() compares strings, Remove compares interface values
	n2 := graph.NewNode(2, graph.NewProperties(), a, b)
	n2.DeleteKinds(c12OtherKind("A"))
	if n2.Kinds.ContainsOneOf(a) {
		stats.Inc("info.excluded.noncanonical_kind.deleted_kind_still_present")
	}
}

type c12OtherKind string

func (s c12OtherKind) String() string { return string(s) }
func (s c12OtherKind) Is(other ...graph.Kind) bool {
	for _, o := range other {
		if o != nil && o.String() == string(s) {
			return true
		}
	}
	return false
}
