package main

import (
	"bufio"
	"bytes"
	"context"
	"encoding/json"
	"fmt"
	"reflect"
	"sort"
	"strconv"
	"strings"
	"sync"
	"sync/atomic"
	"unsafe"

	"github.com/specterops/dawgs/drivers/pg"
	"github.com/specterops/dawgs/graph"
)

// C12: entity change tracking (graph/properties.go, graph/node.go, graph/kind.go, graph/relationships.go) and its
// consumers (drivers/pg batch update builders) against the Lean model Dawgs.C12.
//
// Line protocol (one answer line per op line):
//
//	mode fixed|old                which merges the *model* runs: `fixed` = the code as it is (default); `old` (alias
//	                              `current`) = the merges before /repo commit 179da67, only for old replay files
//	load <map> <kinds> [<ctor> [<entity>]]
//	                              two tracked entities 0 and 1 are created from the same loaded state
//	                              <map>    = nil | - | a:1,b:2
//	                              <kinds>  = - | A,B | A,B,A (duplicates) | A! (a foreign Kind implementation named A)
//	                                         (exactly one kind for relationships)
//	                              <ctor>   = as (AsProperties(map[string]any), default; NewProperties() for nil) | new
//	                                         (NewProperties) | red (NewPropertiesRed) | sym (AsProperties(map[graph.String]any))
//	                                         | pm (AsProperties(graph.PropertyMap))
//	                              <entity> = node (NewNode, default) | prep (PrepareNode, nil kinds interleaved) |
//	                                         shared (both NewNode calls get the SAME kinds slice) |
//	                                         rel (NewRelationship) | prel (PrepareRelationship)
//	set e k v | setall e <map> | del e k          (setall nil = SetAll(nil map))
//	get e k | gd e k d | gf e k d k2,k3 | ex e k | len e | keys e
//	                              reads: Get().Any(), GetOrDefault().Any(), GetWithFallback().Any(), Exists, Len, Keys(nil)
//	clone e f                     f.Properties = e.Properties.Clone()
//	pmerge e f                    e.Properties.Merge(f.Properties)   (pg relationship batch path)
//	merge e f                     e.Merge(f)                         (Node.Merge: kinds, then Properties.Merge; nodes only)
//	rmerge e f                    e.Merge(f)                         (Relationship.Merge; relationships only)
//	addk e A,_,B | delk e A,B     Node.AddKinds / Node.DeleteKinds   (_ = nil Kind, AddKinds only; nodes only)
//	intern <goroutines> <rounds>  concurrency probe of the kind factory: that many goroutines call graph.StringKind on the
//	                              same NEW name at once, <rounds> names; answers `interned` when every name got ONE handle
//	internscale <n>               SCALE probe of the kind factory: intern <n> distinct new names, then a late new name must
//	                              still get ONE handle across repeated calls; answers `interned`. The late name is kind Z:
//	addlate e | dellate e         Node.AddKinds / Node.DeleteKinds with a separately obtained handle of the late name
//	hold e                        a caller keeps the current header `ks := n.Kinds`; from then on the answer carries a
//	                              fourth segment `H=<contents of every kept header, re-read now>`          (nodes only)
//	json e                        e = unmarshal(marshal(e)) with encoding/json (a node inside a graph.NodeSet, a
//	                              relationship's Properties on their own)
//	strip e a,b | strip e -       Node.StripAllPropertiesExcept(keys...)                     (nodes only)
//	drv e                         what the pg batch update builders send for entity e (nodes only):
//	                              NodeUpdateParameters.Append and LargeNodeUpdateRows.Append must agree; answer
//	                              `u kinds=<ids> dkinds=<ids> props=<map> dprops=<set>`
//
// Answer: `<ret> | <dump of entity 0> | <dump of entity 1>`; a dump is
// `M=<map> mod=<set> del=<set> mp=<map> dp=<set> K=<list> add=<list> rem=<list>` where M/mod/del are the raw fields
// (nil | - | sorted), mp/dp are ModifiedProperties()/DeletedProperties() (what the drivers send) and K/add/rem are
// Kinds/AddedKinds/DeletedKinds in slice order (a relationship shows its one Kind and empty deltas).  Values are small
// codes: 0=nil 1,2,3=ints 4="x" 5="y" 6=true 7=false 8=[1,"x"] 9={"k":1}.

// c12Mode is the merge the Lean model is asked to run for generated cases: "fixed" = the code as it is in /repo since
// commit 179da67.  ("old" would ask for the merges before that commit; lib/c12_flip.py exists only to go back.)
var c12Mode = "fixed"

type c12Suite struct{}

func init() { register("c12", c12Suite{}) }

var c12Keys = []string{"a", "b", "c", "d"}
var c12Kinds = []string{"A", "B", "C"}

func c12Value(code int) any {
	switch code {
	case 0:
		return nil
	case 1, 2, 3:
		return code
	case 4:
		return "x"
	case 5:
		return "y"
	case 6:
		return true
	case 7:
		return false
	case 8:
		return []any{1, "x"}
	case 9:
		return map[string]any{"k": 1}
	}
	return fmt.Sprintf("?%d", code)
}

var c12Codes = func() map[string]int {
	m := map[string]int{}
	for c := 0; c <= 9; c++ {
		b, _ := json.Marshal(c12Value(c))
		m[string(b)] = c
	}
	return m
}()

func c12Code(v any) string {
	b, err := json.Marshal(v)
	if err != nil {
		return "?"
	}
	if c, ok := c12Codes[string(b)]; ok {
		return strconv.Itoa(c)
	}
	return "?"
}

func c12ParseMap(tok string) (map[string]any, bool, bool) { // (map, isNil, ok)
	switch tok {
	case "nil":
		return nil, true, true
	case "-":
		return map[string]any{}, false, true
	}
	m := map[string]any{}
	for _, kv := range strings.Split(tok, ",") {
		p := strings.SplitN(kv, ":", 2)
		if len(p) != 2 || len(p[0]) != 1 {
			return nil, false, false
		}
		c, err := strconv.Atoi(p[1])
		if err != nil || c < 0 || c > 9 {
			return nil, false, false
		}
		m[p[0]] = c12Value(c)
	}
	return m, false, true
}

func c12ParseKinds(tok string, allowNil bool) ([]graph.Kind, bool) {
	if tok == "-" {
		return nil, true
	}
	var ks []graph.Kind
	for _, k := range strings.Split(tok, ",") {
		if k == "_" && allowNil {
			ks = append(ks, nil)
			continue
		}
		if len(k) == 2 && k[1] == '!' && k[0] >= 'A' && k[0] <= 'Z' {
			ks = append(ks, c12OtherKind(k[:1])) // a foreign Kind implementation with the same String()
			continue
		}
		if len(k) != 1 || k[0] < 'A' || k[0] > 'Z' {
			return nil, false
		}
		ks = append(ks, graph.StringKind(k))
	}
	return ks, true
}

func c12SetStr(m map[string]struct{}) string {
	if m == nil {
		return "nil"
	}
	if len(m) == 0 {
		return "-"
	}
	ks := make([]string, 0, len(m))
	for k := range m {
		ks = append(ks, k)
	}
	sort.Strings(ks)
	return strings.Join(ks, ",")
}

func c12MapStr(m map[string]any, isNil bool) string {
	if isNil {
		return "nil"
	}
	if len(m) == 0 {
		return "-"
	}
	ks := make([]string, 0, len(m))
	for k := range m {
		ks = append(ks, k)
	}
	sort.Strings(ks)
	for i, k := range ks {
		ks[i] = k + ":" + c12Code(m[k])
	}
	return strings.Join(ks, ",")
}

func c12KindsStr(ks graph.Kinds) string {
	if len(ks) == 0 {
		return "-"
	}
	out := make([]string, len(ks))
	for i, k := range ks {
		if k == nil {
			out[i] = "_"
		} else if strings.HasPrefix(k.String(), "c12late") {
			out[i] = "Z" // the late kind of an internscale probe
		} else if _, foreign := k.(c12OtherKind); foreign {
			out[i] = k.String() + "!"
		} else {
			out[i] = k.String()
		}
	}
	return strings.Join(out, ",")
}

func c12Dump(p *graph.Properties, kinds, added, deleted graph.Kinds) string {
	dp := p.DeletedProperties()
	dps := "nil"
	if dp != nil {
		sort.Strings(dp)
		dps = strings.Join(dp, ",")
		if len(dp) == 0 {
			dps = "-"
		}
	}
	mp := p.ModifiedProperties()
	return fmt.Sprintf("M=%s mod=%s del=%s mp=%s dp=%s K=%s add=%s rem=%s",
		c12MapStr(p.Map, p.Map == nil), c12SetStr(p.Modified), c12SetStr(p.Deleted),
		c12MapStr(mp, mp == nil), dps,
		c12KindsStr(kinds), c12KindsStr(added), c12KindsStr(deleted))
}

type c12Sym string

func (s c12Sym) String() string { return string(s) }

type c12Runner struct {
	stats *Stats
	isRel bool
	n     [2]*graph.Node
	r     [2]*graph.Relationship
	// caller-side kind slices handed to NewNode (aliasing information, DESIGN §4 C12 "not verified")
	callerKinds [2][]graph.Kind
	callerCopy  [2][]graph.Kind
	held        []graph.Kinds
	lateName    string // the late kind of the last internscale probe, shown as Z
	// consumers (drivers/pg batch builders)
	sm  *pg.SchemaManager
	enc pg.Int2ArrayEncoder
}

func (c12Suite) NewRunner(stats *Stats) Runner { return &c12Runner{stats: stats} }

func (r *c12Runner) ent(tok string) (int, bool) {
	switch tok {
	case "0":
		return 0, true
	case "1":
		return 1, true
	}
	return 0, false
}

func (r *c12Runner) props(e int) *graph.Properties {
	if r.isRel {
		return r.r[e].Properties
	}
	return r.n[e].Properties
}

func (r *c12Runner) setProps(e int, p *graph.Properties) {
	if r.isRel {
		r.r[e].Properties = p
	} else {
		r.n[e].Properties = p
	}
}

func (r *c12Runner) dump(e int) string {
	if r.isRel {
		return c12Dump(r.r[e].Properties, graph.Kinds{r.r[e].Kind}, nil, nil)
	}
	return c12Dump(r.n[e].Properties, r.n[e].Kinds, r.n[e].AddedKinds, r.n[e].DeletedKinds)
}

func (r *c12Runner) withDump(ret string) string {
	out := ret + " | " + r.dump(0) + " | " + r.dump(1)
	if len(r.held) > 0 {
		// headers a caller kept (`ks := n.Kinds`), re-read after every later operation
		hs := make([]string, len(r.held))
		for i, h := range r.held {
			hs[i] = c12KindsStr(h)
		}
		out += " | H=" + strings.Join(hs, ";")
	}
	return out
}

func has(m map[string]struct{}, k string) bool { _, ok := m[k]; return ok }

func (r *c12Runner) countPropsMerge(s, o *graph.Properties) {
	st := r.stats
	st.Inc("branch.pmerge")
	if len(o.Map) == 0 {
		st.Inc("branch.pmerge.other_map_empty")
	} else if s.Map == nil {
		st.Inc("branch.pmerge.alloc_map")
	}
	if len(o.Modified) > 0 && s.Modified == nil {
		st.Inc("branch.pmerge.alloc_modified")
	}
	if len(o.Deleted) > 0 && s.Deleted == nil {
		st.Inc("branch.pmerge.alloc_deleted")
	}
	for k := range o.Modified {
		if has(s.Deleted, k) {
			st.Inc("branch.pmerge.other_modified_in_self_deleted")
			break
		}
	}
	for k := range o.Deleted {
		if has(s.Modified, k) {
			st.Inc("branch.pmerge.other_deleted_in_self_modified")
			break
		}
	}
	for k := range s.Deleted {
		if _, in := o.Map[k]; in && !has(o.Modified, k) {
			st.Inc("branch.pmerge.self_deleted_in_other_map_unmodified") // the F4 trigger
			break
		}
	}
	if s == o {
		st.Inc("branch.pmerge.self")
	}
}

// c12NewProps builds the properties of one entity with the requested constructor from a FRESH map.
func c12NewProps(mapTok, ctor string) (*graph.Properties, bool) {
	m, isNil, ok := c12ParseMap(mapTok)
	if !ok {
		return nil, false
	}
	switch ctor {
	case "as":
		if isNil {
			return graph.NewProperties(), true
		}
		return graph.AsProperties(m), true
	case "asnil": // AsProperties of a nil map[string]any
		if !isNil {
			return nil, false
		}
		return graph.AsProperties(map[string]any(nil)), true
	case "new":
		if !isNil {
			return nil, false
		}
		return graph.NewProperties(), true
	case "red":
		if !isNil {
			return nil, false
		}
		return graph.NewPropertiesRed(), true
	case "sym":
		if isNil {
			return nil, false
		}
		sm := map[graph.String]any{}
		for k, v := range m {
			sm[c12Sym(k)] = v
		}
		return graph.AsProperties(sm), true
	case "pm":
		if isNil {
			return nil, false
		}
		pmap := graph.PropertyMap{}
		for k, v := range m {
			pmap[c12Sym(k)] = v
		}
		return graph.AsProperties(pmap), true
	}
	return nil, false
}

func (r *c12Runner) load(t []string) string {
	st := r.stats
	ctor, entity := "as", "node"
	if len(t) >= 4 {
		ctor = t[3]
	}
	if len(t) >= 5 {
		entity = t[4]
	}
	ks, ok2 := c12ParseKinds(t[2], false)
	if _, ok1 := c12NewProps(t[1], ctor); !ok1 || !ok2 || len(t) > 5 {
		return "bad-op"
	}
	r.isRel = entity == "rel" || entity == "prel"
	if r.isRel && len(ks) != 1 {
		return "bad-op"
	}
	r.held = nil
	// one caller slice handed to BOTH NewNode calls (entity "shared"): the two nodes alias one backing array
	var sharedKinds []graph.Kind
	if len(ks) > 0 {
		sharedKinds = make([]graph.Kind, len(ks))
		copy(sharedKinds, ks)
	}
	for i := 0; i < 2; i++ {
		p, _ := c12NewProps(t[1], ctor) // a fresh map per entity
		switch entity {
		case "shared":
			r.n[i] = graph.NewNode(graph.ID(i+1), p, sharedKinds...)
			r.callerKinds[i], r.callerCopy[i] = nil, nil
		case "node", "prep":
			var own []graph.Kind // exact capacity: len(ks)
			if len(ks) > 0 {
				own = make([]graph.Kind, len(ks))
				copy(own, ks)
			}
			r.callerKinds[i] = own
			r.callerCopy[i] = append([]graph.Kind(nil), own...)
			if entity == "node" {
				r.n[i] = graph.NewNode(graph.ID(i+1), p, own...)
			} else {
				// PrepareNode drops nil kinds: interleave some
				withNils := []graph.Kind{nil}
				for _, k := range own {
					withNils = append(withNils, k, nil)
				}
				r.n[i] = graph.PrepareNode(p, withNils...)
				r.callerKinds[i], r.callerCopy[i] = nil, nil
			}
		case "rel":
			r.r[i] = graph.NewRelationship(graph.ID(i+1), 10, 20, p, ks[0])
		case "prel":
			r.r[i] = graph.PrepareRelationship(p, ks[0])
		default:
			return "bad-op"
		}
	}
	st.Inc("branch.load.ctor." + ctor)
	st.Inc("branch.load.entity." + entity)
	if t[1] == "nil" {
		st.Inc("branch.load.nil_map")
	}
	return r.withDump("ok")
}

func (r *c12Runner) Step(t []string, raw string) string {
	st := r.stats
	if len(t) == 2 && t[0] == "mode" {
		if t[1] == "current" || t[1] == "fixed" || t[1] == "old" {
			return "ok"
		}
		return "bad-op"
	}
	if len(t) >= 3 && t[0] == "load" {
		return r.load(t)
	}
	if len(t) == 2 && t[0] == "internscale" {
		n, err := strconv.Atoi(t[1])
		if err != nil || n < 0 || n > 1000000 || r.n[0] == nil && r.r[0] == nil {
			return "bad-op"
		}
		return r.withDump(r.internScaleProbe(n))
	}
	if len(t) == 3 && t[0] == "intern" {
		g, err1 := strconv.Atoi(t[1])
		rounds, err2 := strconv.Atoi(t[2])
		if err1 != nil || err2 != nil || g < 1 || g > 64 || rounds < 1 || rounds > 10000 || r.n[0] == nil && r.r[0] == nil {
			return "bad-op"
		}
		return r.withDump(c12InternProbe(st, g, rounds))
	}
	if (r.n[0] == nil && r.r[0] == nil) || len(t) < 2 {
		return "bad-op"
	}
	e, ok := r.ent(t[1])
	if !ok {
		return "bad-op"
	}
	p := r.props(e)
	switch {
	case t[0] == "set" && len(t) == 4:
		c, err := strconv.Atoi(t[3])
		if err != nil || c < 0 || c > 9 || len(t[2]) != 1 {
			return "bad-op"
		}
		if p.Map == nil {
			st.Inc("branch.set.map_nil")
		}
		if p.Modified == nil {
			st.Inc("branch.set.modified_nil")
		}
		if has(p.Deleted, t[2]) {
			st.Inc("branch.set.key_was_deleted")
		}
		if c == 0 {
			st.Inc("branch.set.nil_value")
		}
		p.Set(t[2], c12Value(c))
		return r.withDump("ok")
	case t[0] == "setall" && len(t) == 3:
		m, isNil, ok := c12ParseMap(t[2])
		if !ok {
			return "bad-op"
		}
		switch {
		case isNil:
			st.Inc("branch.setall.nil_map")
		case len(m) == 0:
			st.Inc("branch.setall.empty")
		case len(m) > 1:
			st.Inc("branch.setall.multi")
		}
		p.SetAll(m)
		return r.withDump("ok")
	case t[0] == "del" && len(t) == 3:
		if p.Map == nil {
			st.Inc("branch.del.map_nil")
		}
		if p.Deleted == nil {
			st.Inc("branch.del.deleted_nil")
		}
		if has(p.Modified, t[2]) {
			st.Inc("branch.del.key_was_modified")
		}
		if !p.Exists(t[2]) {
			st.Inc("branch.del.key_absent")
		}
		p.Delete(t[2])
		return r.withDump("ok")
	case t[0] == "get" && len(t) == 3:
		return r.withDump("v" + c12Code(p.Get(t[2]).Any()))
	case t[0] == "gd" && len(t) == 4:
		c, err := strconv.Atoi(t[3])
		if err != nil || c < 0 || c > 9 {
			return "bad-op"
		}
		if v, in := p.Map[t[2]]; in && v == nil {
			st.Inc("branch.gd.nil_value_default")
		} else if in {
			st.Inc("branch.gd.hit")
		} else {
			st.Inc("branch.gd.absent_default")
		}
		return r.withDump("v" + c12Code(p.GetOrDefault(t[2], c12Value(c)).Any()))
	case t[0] == "gf" && len(t) == 5:
		c, err := strconv.Atoi(t[3])
		if err != nil || c < 0 || c > 9 {
			return "bad-op"
		}
		fb := strings.Split(t[4], ",")
		if v, in := p.Map[t[2]]; in && v == nil {
			st.Inc("branch.gf.nil_value_default")
		} else if in {
			st.Inc("branch.gf.hit")
		} else {
			used := false
			for _, k := range fb {
				if fv, fin := p.Map[k]; fin && fv != nil {
					used = true
					break
				}
			}
			if used {
				st.Inc("branch.gf.fallback_used")
			} else {
				st.Inc("branch.gf.fallback_exhausted")
			}
		}
		return r.withDump("v" + c12Code(p.GetWithFallback(t[2], c12Value(c), fb...).Any()))
	case t[0] == "ex" && len(t) == 3:
		if p.Exists(t[2]) {
			return r.withDump("t")
		}
		return r.withDump("f")
	case t[0] == "len" && len(t) == 2:
		return r.withDump("n" + strconv.Itoa(p.Len()))
	case t[0] == "keys" && len(t) == 2:
		ks := p.Keys(nil)
		if len(ks) == 0 {
			return r.withDump("k-")
		}
		return r.withDump("k" + strings.Join(ks, ","))
	case t[0] == "clone" && len(t) == 3:
		f, ok := r.ent(t[2])
		if !ok {
			return "bad-op"
		}
		if p.Map == nil || p.Modified == nil || p.Deleted == nil {
			st.Inc("branch.clone.some_nil")
		}
		if p.Modified != nil || p.Deleted != nil {
			st.Inc("branch.clone.tracked")
		}
		r.setProps(f, p.Clone())
		return r.withDump("ok")
	case t[0] == "pmerge" && len(t) == 3:
		f, ok := r.ent(t[2])
		if !ok {
			return "bad-op"
		}
		r.countPropsMerge(p, r.props(f))
		p.Merge(r.props(f))
		return r.withDump("ok")
	case t[0] == "hold" && len(t) == 2:
		if r.isRel {
			return "bad-op"
		}
		r.held = append(r.held, r.n[e].Kinds)
		st.Inc("branch.hold")
		return r.withDump("ok")
	case t[0] == "json" && len(t) == 2:
		return r.withDump(r.jsonRoundTrip(e))
	case t[0] == "rmerge" && len(t) == 3:
		f, ok := r.ent(t[2])
		if !ok || !r.isRel {
			return "bad-op"
		}
		st.Inc("branch.rmerge")
		r.countPropsMerge(p, r.props(f))
		r.r[e].Merge(r.r[f])
		return r.withDump("ok")
	}
	if r.isRel {
		return "bad-op"
	}
	n := r.n[e]
	switch {
	case t[0] == "merge" && len(t) == 3:
		f, ok := r.ent(t[2])
		if !ok {
			return "bad-op"
		}
		o := r.n[f]
		st.Inc("branch.nmerge")
		for _, k := range n.DeletedKinds {
			if o.Kinds.ContainsOneOf(k) && !o.AddedKinds.ContainsOneOf(k) {
				st.Inc("branch.nmerge.self_deleted_in_other_kinds_unadded") // the F4 trigger (kinds)
				break
			}
		}
		for _, k := range o.DeletedKinds {
			if n.AddedKinds.ContainsOneOf(k) {
				st.Inc("branch.nmerge.other_deleted_in_self_added")
				break
			}
		}
		for _, k := range o.AddedKinds {
			if n.DeletedKinds.ContainsOneOf(k) {
				st.Inc("branch.nmerge.other_added_in_self_deleted")
				break
			}
		}
		r.countPropsMerge(p, o.Properties)
		n.Merge(o)
		return r.withDump("ok")
	case t[0] == "addk" && len(t) == 3:
		ks, ok := c12ParseKinds(t[2], true)
		if !ok {
			return "bad-op"
		}
		for _, k := range ks {
			switch {
			case k == nil:
				st.Inc("branch.addk.nil_skipped")
			case n.Kinds.ContainsOneOf(k):
				st.Inc("branch.addk.already_present")
			case n.DeletedKinds.ContainsOneOf(k):
				st.Inc("branch.addk.was_deleted")
			default:
				st.Inc("branch.addk.fresh")
			}
		}
		n.AddKinds(ks...)
		return r.withDump("ok")
	case t[0] == "delk" && len(t) == 3:
		ks, ok := c12ParseKinds(t[2], false)
		if !ok {
			return "bad-op"
		}
		for _, k := range ks {
			switch {
			case n.AddedKinds.ContainsOneOf(k):
				st.Inc("branch.delk.was_added")
			case n.Kinds.ContainsOneOf(k):
				st.Inc("branch.delk.loaded_kind")
			default:
				st.Inc("branch.delk.absent")
			}
		}
		n.DeleteKinds(ks...)
		// information only: Kinds.Remove shifts the backing array of the slice the caller handed to NewNode
		for i := range r.callerKinds[e] {
			if r.callerKinds[e][i] != r.callerCopy[e][i] {
				st.Inc("info.caller_kinds_slice_clobbered_by_DeleteKinds")
				r.callerCopy[e] = append([]graph.Kind(nil), r.callerKinds[e]...)
				break
			}
		}
		return r.withDump("ok")
	case t[0] == "drv" && len(t) == 2:
		return r.withDump(r.drv(n))
	case (t[0] == "addlate" || t[0] == "dellate") && len(t) == 2:
		if r.lateName == "" {
			return "bad-op"
		}
		late := graph.StringKind(r.lateName) // a handle of its own for every operation
		if t[0] == "addlate" {
			n.AddKinds(late)
		} else {
			n.DeleteKinds(late)
		}
		st.Inc("branch.internscale.delta_op")
		return r.withDump("ok")
	case t[0] == "strip" && len(t) == 3:
		var keep []string
		if t[2] != "-" {
			keep = strings.Split(t[2], ",")
		}
		st.Inc("branch.strip")
		for _, k := range keep {
			if has(p.Deleted, k) {
				st.Inc("branch.strip.kept_deleted_key")
			} else if p.Exists(k) {
				st.Inc("branch.strip.kept_present_key")
			} else {
				st.Inc("branch.strip.kept_absent_key")
			}
		}
		if len(p.Map) > len(keep) {
			st.Inc("branch.strip.drops_keys")
		}
		n.StripAllPropertiesExcept(keep...)
		return r.withDump("ok")
	}
	return "bad-op"
}

// jsonRoundTrip replaces entity e by what real encoding/json makes of it: a node travels inside a graph.NodeSet
// (Node.MarshalJSON / NodeSet.UnmarshalJSON), a relationship's Properties by their struct tags (graph.Relationship has
// no decoder of its own: its Kind is an interface).
func (r *c12Runner) jsonRoundTrip(e int) string {
	r.stats.Inc("branch.json")
	if r.isRel {
		b, err := json.Marshal(r.r[e].Properties)
		if err != nil {
			return "err marshal"
		}
		p := new(graph.Properties)
		if err := json.Unmarshal(b, p); err != nil {
			return "err unmarshal"
		}
		r.r[e].Properties = p
		return "ok"
	}
	n := r.n[e]
	if n.Properties.Modified != nil || n.Properties.Deleted != nil || len(n.AddedKinds) > 0 || len(n.DeletedKinds) > 0 {
		r.stats.Inc("branch.json.tracked")
	}
	b, err := json.Marshal(graph.NodeSet{n.ID: n})
	if err != nil {
		return "err marshal"
	}
	var ns graph.NodeSet
	if err := json.Unmarshal(b, &ns); err != nil {
		return "err unmarshal"
	}
	decoded := ns.Get(n.ID)
	if decoded == nil || decoded.Properties == nil {
		return "err lost"
	}
	r.n[e] = decoded
	r.callerKinds[e], r.callerCopy[e] = nil, nil
	return "ok"
}

// internScaleProbe: SCALE. First `n` distinct, never used kind names are interned (the kind cache is process wide and
// keeps whatever earlier cases put there: the prefix makes these names new whatever came before), then a late name, new
// as well, must still be interned to ONE handle across repeated calls. The late name stays the runner's `Z` kind:
// `addlate e` / `dellate e` run Node.AddKinds / Node.DeleteKinds with a SEPARATELY obtained handle of it each time.
func (r *c12Runner) internScaleProbe(n int) string {
	seq := c12InternSeq.Add(1)
	for i := 0; i < n; i++ {
		graph.StringKind(fmt.Sprintf("c12scale%d_%d", seq, i))
	}
	r.lateName = fmt.Sprintf("c12late%d", seq)
	first := graph.StringKind(r.lateName)
	r.stats.Add("branch.internscale.names", int64(n))
	if n >= 32768 {
		r.stats.Inc("branch.internscale.past_int16")
	}
	for i := 0; i < 4; i++ {
		if graph.StringKind(r.lateName) != first {
			r.stats.Inc("branch.internscale.split")
			return "interning-split"
		}
	}
	return "interned"
}

// c12InternSeq makes every probed kind name new to the process-wide kind cache.
var c12InternSeq atomic.Int64

// c12InternProbe: `goroutines` goroutines ask graph.StringKind for the same, never used, kind name at the same moment
// (released together by closing a channel), `rounds` times with a new name each. Interning is a function of the name:
// all handles returned for one name must be == (Kinds.Remove compares handles, Kinds.Add compares names).
func c12InternProbe(st *Stats, goroutines, rounds int) string {
	split := 0
	for round := 0; round < rounds; round++ {
		name := fmt.Sprintf("c12probe%d", c12InternSeq.Add(1))
		handles := make([]graph.Kind, goroutines)
		start := make(chan struct{})
		var ready, done sync.WaitGroup
		ready.Add(goroutines)
		done.Add(goroutines)
		for i := 0; i < goroutines; i++ {
			go func(i int) {
				defer done.Done()
				ready.Done()
				<-start
				handles[i] = graph.StringKind(name)
			}(i)
		}
		ready.Wait()
		close(start)
		done.Wait()
		for i := 1; i < goroutines; i++ {
			if handles[i] != handles[0] {
				split++
				break
			}
		}
		// and a later caller gets one of them for good
		if again := graph.StringKind(name); again != graph.StringKind(name) {
			split++
		}
	}
	st.Add("branch.intern.rounds", int64(rounds))
	if split > 0 {
		st.Add("branch.intern.split_rounds", int64(split))
		return "interning-split"
	}
	return "interned"
}

// ---------------------------------------------------------------------------------------------- consumers

// c12SetField sets an unexported field of a driver struct (the pg SchemaManager kind table and the Int2ArrayEncoder
// buffer have no exported constructor usable without a database); a renamed field makes drv answer `bad-driver-shape`.
func c12SetField(structPtr any, name string, value any) bool {
	v := reflect.ValueOf(structPtr).Elem()
	f := v.FieldByName(name)
	if !f.IsValid() || !reflect.TypeOf(value).AssignableTo(f.Type()) {
		return false
	}
	reflect.NewAt(f.Type(), unsafe.Pointer(f.UnsafeAddr())).Elem().Set(reflect.ValueOf(value))
	return true
}

func (r *c12Runner) initDrivers() bool {
	if r.sm != nil {
		return true
	}
	sm := pg.NewSchemaManager(nil, 0)
	kinds := map[graph.Kind]int16{}
	for i, k := range c12Kinds {
		kinds[graph.StringKind(k)] = int16(i + 1)
	}
	if !c12SetField(sm, "kindsByID", kinds) || !c12SetField(&r.enc, "buffer", &bytes.Buffer{}) {
		return false
	}
	r.sm = sm
	return true
}

func c12KindIDs(encoded string) string { // "{1,2}" -> "A,B" in the order sent
	inner := strings.Trim(encoded, "{}")
	if inner == "" {
		return "-"
	}
	out := []string{}
	for _, x := range strings.Split(inner, ",") {
		i, err := strconv.Atoi(x)
		if err != nil || i < 1 || i > len(c12Kinds) {
			return "?"
		}
		out = append(out, c12Kinds[i-1])
	}
	return strings.Join(out, ",")
}

func c12JSONProps(raw []byte) string {
	m := map[string]any{}
	if err := json.Unmarshal(raw, &m); err != nil {
		return "?"
	}
	return c12MapStr(m, false)
}

func c12TextArray(s string) string { // `{"a","b"}` -> a,b sorted
	inner := strings.Trim(s, "{}")
	if inner == "" {
		return "-"
	}
	out := []string{}
	for _, x := range strings.Split(inner, ",") {
		u, err := strconv.Unquote(x)
		if err != nil {
			return "?"
		}
		out = append(out, u)
	}
	sort.Strings(out)
	return strings.Join(out, ",")
}

// drv: the parameters the two pg batch node-update builders emit for this node.
func (r *c12Runner) drv(n *graph.Node) string {
	if !r.initDrivers() {
		return "bad-driver-shape"
	}
	ctx := context.Background()
	params := pg.NewNodeUpdateParameters(1)
	if err := params.Append(ctx, n, r.sm, r.enc); err != nil {
		return "err " + strings.ReplaceAll(err.Error(), " ", "_")
	}
	small := fmt.Sprintf("kinds=%s dkinds=%s props=%s dprops=%s", c12KindIDs(params.KindSlices[0]), c12KindIDs(params.DeletedKindSlices[0]),
		c12JSONProps(params.Properties[0].Bytes), c12TextArray(params.DeletedProperties[0]))
	rows := pg.NewLargeNodeUpdateRows(1)
	if err := rows.Append(ctx, n, r.sm, r.enc); err != nil {
		return "err " + strings.ReplaceAll(err.Error(), " ", "_")
	}
	row := rows.Rows()[0]
	if len(row) != 5 {
		return "bad-driver-shape"
	}
	large := fmt.Sprintf("kinds=%s dkinds=%s props=%s dprops=%s", c12KindIDs(fmt.Sprint(row[1])), c12KindIDs(fmt.Sprint(row[2])),
		c12JSONProps([]byte(fmt.Sprint(row[3]))), c12TextArray(fmt.Sprint(row[4])))
	if fmt.Sprint(row[0]) != fmt.Sprint(params.NodeIDs[0].Int64()) {
		return "builders-disagree id"
	}
	if small != large {
		r.stats.Inc("branch.drv.builders_disagree")
		return "builders-disagree " + strings.ReplaceAll(small, " ", ";") + " vs " + strings.ReplaceAll(large, " ", ";")
	}
	r.stats.Inc("branch.drv")
	if len(n.Properties.Deleted) > 0 {
		r.stats.Inc("branch.drv.with_deleted_properties")
	}
	if len(n.DeletedKinds) > 0 {
		r.stats.Inc("branch.drv.with_deleted_kinds")
	}
	return "u " + small
}

// ---------------------------------------------------------------------------------------------- generation

func c12PickMap(rng *Rng, maxN int, allowNilVal bool) string {
	n := rng.Intn(maxN + 1)
	if n == 0 {
		return "-"
	}
	perm := []int{0, 1, 2, 3}
	for i := 3; i > 0; i-- {
		j := rng.Intn(i + 1)
		perm[i], perm[j] = perm[j], perm[i]
	}
	ks := perm[:n]
	sort.Ints(ks)
	parts := make([]string, n)
	for i, k := range ks {
		v := 1 + rng.Intn(9)
		if allowNilVal && rng.Chance(1, 8) {
			v = 0
		}
		parts[i] = fmt.Sprintf("%s:%d", c12Keys[k], v)
	}
	return strings.Join(parts, ",")
}

func c12PickKinds(rng *Rng, allowNil, nonEmpty bool) string {
	var out []string
	for _, k := range c12Kinds {
		if rng.Chance(2, 5) {
			out = append(out, k)
		}
	}
	if allowNil && rng.Chance(1, 6) {
		out = append(out, "_")
	}
	if len(out) == 0 {
		if nonEmpty {
			return Pick(rng, c12Kinds)
		}
		return "-"
	}
	// shuffle so that slice order varies
	for i := len(out) - 1; i > 0; i-- {
		j := rng.Intn(i + 1)
		out[i], out[j] = out[j], out[i]
	}
	return strings.Join(out, ",")
}

func (c12Suite) Gen(rng *Rng, tier string, w *bufio.Writer, stats *Stats) {
	mode := c12Mode
	caseNo := 0
	emit := func(tag, load string, ops []string) {
		caseNo++
		fmt.Fprintf(w, "# case %d %s\n", caseNo, tag)
		fmt.Fprintf(w, "mode %s\n", mode)
		fmt.Fprintf(w, "load %s\n", load)
		for _, o := range ops {
			fmt.Fprintln(w, o)
		}
	}
	exhaustive := func(tag string, loads, alphabet []string, L int) {
		var rec func(prefix []string)
		for _, load := range loads {
			rec = func(prefix []string) {
				if len(prefix) == L {
					emit(tag, load, prefix)
					stats.Inc("exhaustive_cases")
					return
				}
				for _, a := range alphabet {
					rec(append(append([]string{}, prefix...), a))
				}
			}
			rec(nil)
		}
		n := int64(len(loads))
		for i := 0; i < L; i++ {
			n *= int64(len(alphabet))
		}
		stats.Add("exhaustive_expected", n)
	}
	// Exhaustive small scope. A case of length L dumps after every op, so it also covers all its prefixes.
	full := []string{
		"set 0 a 2", "set 1 a 3", "set 0 a 0", "set 1 b 4", "setall 0 a:1,c:5", "setall 1 nil", "del 0 a", "del 1 a", "del 0 c", "del 1 b",
		"gd 0 a 5", "gf 0 c 5 d,a", "clone 0 1", "clone 1 0", "pmerge 0 1", "pmerge 1 0", "pmerge 0 0", "merge 0 1", "merge 1 0",
		"addk 0 A", "addk 0 C", "addk 1 C,_", "delk 0 A", "delk 1 A", "delk 0 C", "delk 1 B,C", "drv 0", "strip 0 a,c", "json 0",
	}
	// the kind factory under concurrency (a handful of cases: each probes `rounds` fresh names)
	internRounds := 40
	if tier == "thorough" {
		internRounds = 400
	}
	for _, g := range []int{2, 4, 8, 16} {
		for rep := 0; rep < 3; rep++ {
			emit("intern", "nil A,B", []string{fmt.Sprintf("intern %d %d", g, internRounds), "delk 0 A", "addk 0 A"})
		}
	}
	propsOnly := []string{
		"set 0 a 2", "set 1 a 3", "set 0 b 0", "setall 1 a:1,c:5", "del 0 a", "del 1 a", "del 1 c",
		"clone 0 1", "pmerge 0 1", "pmerge 1 0", "merge 1 0", "strip 0 a", "strip 1 b,c",
	}
	relOnly := []string{
		"set 0 a 2", "set 1 a 3", "set 0 b 0", "setall 1 a:1,c:5", "del 0 a", "del 1 a", "del 1 c",
		"clone 0 1", "rmerge 0 1", "rmerge 1 0", "pmerge 0 1", "json 1",
	}
	kindsOnly := []string{
		"addk 0 A", "addk 1 A", "addk 0 C", "addk 1 C", "delk 0 A", "delk 1 A", "delk 0 C", "delk 1 C,B", "merge 0 1", "merge 1 0",
	}
	mid := []string{
		"set 0 a 2", "set 1 a 3", "set 0 a 0", "setall 1 a:1,c:5", "del 0 a", "del 1 a", "del 0 c", "clone 0 1",
		"pmerge 0 1", "pmerge 1 0", "merge 0 1", "merge 1 0", "addk 0 C", "addk 1 A", "delk 0 A", "delk 1 C",
	}
	loads := []string{"a:1,b:2 A,B", "nil -", "- B"}
	exhaustive("ex-full-3", loads, full, 3)
	// every constructor x entity kind, two operations (initial tracking state, lazy allocation, empty SetAll, reads)
	var ctorLoads []string
	for _, mc := range [][2]string{{"nil", "as"}, {"nil", "asnil"}, {"nil", "new"}, {"nil", "red"}, {"-", "as"}, {"-", "sym"}, {"-", "pm"},
		{"a:1,b:0", "as"}, {"a:1,b:0", "sym"}, {"a:1,b:0", "pm"}} {
		for _, ent := range []string{"node", "prep", "rel", "prel"} {
			ctorLoads = append(ctorLoads, fmt.Sprintf("%s B %s %s", mc[0], mc[1], ent))
		}
	}
	ctorOps := []string{"set 0 a 2", "del 1 a", "setall 0 -", "setall 1 nil", "gd 0 b 5", "gf 1 c 3 b,a", "keys 0", "len 1", "clone 0 1", "pmerge 1 0", "json 0", "json 1"}
	exhaustive("ex-ctor-2", ctorLoads, ctorOps, 2)
	// aliasing: one kinds slice shared by both nodes, headers kept by a caller and re-read after later edits
	aliasOps := []string{"hold 0", "hold 1", "delk 0 A", "delk 1 B", "addk 0 A", "addk 1 C", "addk 0 C,B", "merge 0 1", "merge 1 0", "json 0", "delk 0 C"}
	aliasLoads := []string{"a:1 A,B,C as shared", "- A,B as node", "nil A,B,C as prep"}
	// outside the guards of the kind theorems: duplicate loaded kinds, foreign Kind implementations (`A!`)
	guardOps := []string{"addk 0 A", "delk 0 A", "delk 1 A", "addk 1 A!", "delk 0 A!", "delk 1 B!", "addk 0 C!", "merge 0 1", "merge 1 0", "json 1"}
	guardLoads := []string{"- A,B,A as node", "nil A,A as prep", "- A,B as node", "- B,A! as node"}
	if tier == "thorough" {
		exhaustive("ex-alias-4", aliasLoads, aliasOps, 4)
		exhaustive("ex-guard-4", guardLoads, guardOps, 4)
	} else {
		exhaustive("ex-alias-3", aliasLoads, aliasOps, 3)
		exhaustive("ex-guard-3", guardLoads, guardOps, 3)
	}
	if tier == "thorough" {
		exhaustive("ex-mid-4", []string{"a:1,b:2 A,B", "nil -"}, mid, 4)
		exhaustive("ex-props-5", []string{"a:1,b:2 A"}, propsOnly, 5)
		exhaustive("ex-kinds-5", []string{"nil A,B"}, kindsOnly, 5)
		exhaustive("ex-rel-4", []string{"a:1,b:2 A as rel", "nil B new prel", "- C pm rel"}, relOnly, 4)
	} else {
		exhaustive("ex-props-4", []string{"a:1,b:2 A"}, propsOnly, 4)
		exhaustive("ex-kinds-4", []string{"nil A,B"}, kindsOnly, 4)
		exhaustive("ex-rel-3", []string{"a:1,b:2 A as rel", "nil B new prel", "- C pm rel"}, relOnly, 3)
	}
	// Random long histories over 4 keys / 3 kinds / 10 values, two entities; 1 case in 4 drives relationships.
	n := 1500
	if tier == "thorough" {
		n = 30000
	}
	for i := 0; i < n; i++ {
		isRel := rng.Chance(1, 4)
		var load, ctor string
		if rng.Intn(6) == 0 {
			load = "nil"
			ctor = Pick(rng, []string{"as", "asnil", "new", "red"})
		} else {
			load = c12PickMap(rng, 4, true)
			ctor = Pick(rng, []string{"as", "as", "sym", "pm"})
		}
		// 1 node case in 5 leaves the guards of the kind theorems: shared kinds slice, duplicate kinds, foreign kinds
		offGuard := !isRel && rng.Chance(1, 5)
		foreign := offGuard && rng.Chance(1, 3)
		if isRel {
			load += " " + Pick(rng, c12Kinds) + " " + ctor + " " + Pick(rng, []string{"rel", "prel"})
		} else if offGuard && !foreign {
			ks := c12PickKinds(rng, false, true)
			ent := "shared"
			if rng.Bool() {
				ks += "," + Pick(rng, c12Kinds) // very likely a duplicate
				ent = Pick(rng, []string{"node", "prep", "shared"})
			}
			load += " " + ks + " " + ctor + " " + ent
		} else {
			load += " " + c12PickKinds(rng, false, false) + " " + ctor + " " + Pick(rng, []string{"node", "node", "prep"})
		}
		length := 5 + rng.Intn(56)
		// op mix: some cases are merge heavy, some have none at all
		mergeW := Pick(rng, []int{0, 1, 2, 4})
		ops := make([]string, 0, length)
		for j := 0; j < length; j++ {
			e := rng.Intn(2)
			f := 1 - e
			if rng.Chance(1, 10) {
				f = e
			}
			k := Pick(rng, c12Keys)
			x := rng.Intn(21 + mergeW)
			if isRel && x >= 12 && x < 21 { // no kind operations, no node consumers on a relationship
				x = rng.Intn(12)
			}
			switch {
			case x < 5:
				v := 1 + rng.Intn(9)
				if rng.Chance(1, 8) {
					v = 0
				}
				ops = append(ops, fmt.Sprintf("set %d %s %d", e, k, v))
			case x < 6:
				m := c12PickMap(rng, 3, true)
				if rng.Chance(1, 6) {
					m = "nil"
				}
				ops = append(ops, fmt.Sprintf("setall %d %s", e, m))
			case x < 10:
				ops = append(ops, fmt.Sprintf("del %d %s", e, k))
			case x < 11:
				switch rng.Intn(6) {
				case 0:
					ops = append(ops, fmt.Sprintf("get %d %s", e, k))
				case 1:
					ops = append(ops, fmt.Sprintf("gd %d %s %d", e, k, rng.Intn(10)))
				case 2:
					ops = append(ops, fmt.Sprintf("ex %d %s", e, k))
				case 3:
					fb := Pick(rng, c12Keys)
					if rng.Bool() {
						fb += "," + Pick(rng, c12Keys)
					}
					ops = append(ops, fmt.Sprintf("gf %d %s %d %s", e, k, rng.Intn(10), fb))
				case 4:
					ops = append(ops, fmt.Sprintf("keys %d", e))
				default:
					ops = append(ops, fmt.Sprintf("len %d", e))
				}
			case x < 12:
				if rng.Bool() {
					ops = append(ops, fmt.Sprintf("json %d", e))
				} else {
					ops = append(ops, fmt.Sprintf("clone %d %d", e, f))
				}
			case x < 16:
				ks := c12PickKinds(rng, true, true)
				if foreign && rng.Chance(1, 3) {
					ks = Pick(rng, c12Kinds) + "!"
				}
				if rng.Chance(1, 8) {
					ops = append(ops, fmt.Sprintf("hold %d", e))
				}
				ops = append(ops, fmt.Sprintf("addk %d %s", e, ks))
			case x < 20:
				ks := c12PickKinds(rng, false, true)
				if foreign && rng.Chance(1, 3) {
					ks = Pick(rng, c12Kinds) + "!"
				}
				ops = append(ops, fmt.Sprintf("delk %d %s", e, ks))
			case x < 21:
				if rng.Chance(1, 3) {
					keep := "-"
					if rng.Chance(5, 6) {
						keep = Pick(rng, c12Keys)
						if rng.Bool() {
							keep += "," + Pick(rng, c12Keys)
						}
					}
					ops = append(ops, fmt.Sprintf("strip %d %s", e, keep))
				} else if foreign {
					ops = append(ops, fmt.Sprintf("keys %d", e)) // the pg kind table cannot map a foreign Kind without a database
				} else {
					ops = append(ops, fmt.Sprintf("drv %d", e))
				}
			default:
				switch {
				case isRel && rng.Chance(2, 3):
					ops = append(ops, fmt.Sprintf("rmerge %d %d", e, f))
				case isRel || rng.Bool():
					ops = append(ops, fmt.Sprintf("pmerge %d %d", e, f))
				default:
					ops = append(ops, fmt.Sprintf("merge %d %d", e, f))
				}
			}
		}
		if isRel {
			emit("rand-rel", load, ops)
		} else {
			emit("rand", load, ops)
		}
		stats.Inc("random_cases")
	}
	// LAST (the kind cache is process wide: these cases fill it, and under a capped cache every later case that meets a
	// new kind name would fail for the same reason and could not be replayed on its own)
	// the kind factory at scale: a kind name first seen after many distinct names must still be one handle
	for _, n := range []int{10, 32766, 32767, 32768, 70000} {
		emit("internscale", "nil A,B", []string{fmt.Sprintf("internscale %d", n), "addlate 0", "dellate 0", "addlate 1", "merge 0 1", "dellate 1", "addlate 0", "dellate 0"})
	}
	c12Probes(stats)
}

// c12Probes runs the real code once at the points the theorems exclude by hypothesis (DESIGN §4 C12: duplicate initial
// kinds, a Kind value that is not the canonical StringKind pointer) and records what happens as information.
func c12Probes(stats *Stats) {
	a, b := graph.StringKind("A"), graph.StringKind("B")
	// duplicate initial kinds: Remove drops only the first match
	n := graph.NewNode(1, graph.NewProperties(), a, b, a)
	n.DeleteKinds(a)
	if n.Kinds.ContainsOneOf(a) {
		stats.Inc("info.excluded.duplicate_initial_kinds.deleted_kind_still_present")
	}
	// non-canonical kind: Is() compares strings, Remove compares interface values
	n2 := graph.NewNode(2, graph.NewProperties(), a, b)
	n2.DeleteKinds(c12OtherKind("A"))
	if n2.Kinds.ContainsOneOf(a) {
		stats.Inc("info.excluded.noncanonical_kind.deleted_kind_still_present")
	}
}

type c12OtherKind string

func (s c12OtherKind) String() string { return string(s) }
func (s c12OtherKind) Is(other ...graph.Kind) bool {
	for _, o := range other {
		if o != nil && o.String() == string(s) {
			return true
		}
	}
	return false
}
