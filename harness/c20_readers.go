package main

// Reader behaviours the io.Reader contract allows. Every stream the C20 suites hand to the real code can be
// delivered through any of them (`with <behaviour> <op ...>` in suite c20, `framesr <behaviour> ...` in c20frames):
//
//	plain    bytes.Reader: data and io.EOF in separate calls
//	dataerr  iotest.DataErrReader: the LAST data arrives together with io.EOF (HTTP bodies, decompressors, MultiReader tails)
//	onebyte  iotest.OneByteReader: one byte per call
//	half     iotest.HalfReader: half of what was asked for
//	zero     at every stream offset the first call returns (0, nil), the next one delivers (discouraged but legal)
//	timeout  iotest.TimeoutReader: the second call fails with a transient error, later calls deliver

import (
	"bytes"
	"io"
	"testing/iotest"
)

var c20Behaviours = []string{"plain", "dataerr", "onebyte", "half", "zero", "timeout"}

// c20ReaderBehaviour is set for the duration of one `with` / `framesr` op.
var c20ReaderBehaviour = "plain"

type c20ZeroReader struct {
	r      io.Reader
	probed bool // the current offset was already answered with (0, nil)
}

func (z *c20ZeroReader) Read(p []byte) (int, error) {
	if !z.probed {
		z.probed = true
		return 0, nil
	}
	n, err := z.r.Read(p)
	if n > 0 {
		z.probed = false
	}
	return n, err
}

func c20Reader(b []byte) io.Reader {
	base := bytes.NewReader(b)
	switch c20ReaderBehaviour {
	case "dataerr":
		return iotest.DataErrReader(base)
	case "onebyte":
		return iotest.OneByteReader(base)
	case "half":
		return iotest.HalfReader(base)
	case "zero":
		return &c20ZeroReader{r: base}
	case "timeout":
		return iotest.TimeoutReader(base)
	}
	return base
}

func c20KnownBehaviour(b string) bool {
	for _, k := range c20Behaviours {
		if k == b {
			return true
		}
	}
	return false
}
