package main

import (
	"bufio"
	"encoding/json"
	"fmt"
	"os"
	"path/filepath"
	"regexp"
	"sort"
	"strings"

	"github.com/specterops/dawgs/cypher/models/cypher"
	"github.com/specterops/dawgs/cypher/models/pgsql"
)

// C06: translation is hygienic. Metamorphic check on the REAL translator: a query and its twin under an
// injective renaming of user variables / aliases (one namespace) and parameters (another namespace) must
// translate to the same SQL up to output column aliases, with the same parameter values, and must fail
// or succeed alike.
//
// Op line:  r <kind> <seed> <json [query, params|null]>
// Answer:   cls=<class> st=<ok|err|panic|parse> st2=<…> coll=<0|1> nv=<n> np=<n> ren=<json {v:{},p:{}}> detail=<json> trace=<…|->
//
// classes: ok | untranslatable (both fail alike) | ns-collision (fails only because a variable and a parameter
// share a spelling; the de-collided twin pair passes) | sql-differs | params-differ | new-error | lost-error |
// new-panic | lost-panic | parse
type c06Suite struct{}

func init() { register("c06", c06Suite{}) }

var c06Kinds = []string{"fresh", "translator", "cross", "keywords", "case", "swap", "probe", "sys", "escaped"}

// legal Cypher names that need back-tick escaping: quotes and backslashes in every combination, control characters,
// zero-width and non-BMP runes, names at PostgreSQL's 63-byte identifier limit and one beyond, SQL keywords and generated
// identifiers WITH back-ticks, comment and dollar-quote openers, an escaped back-tick
var c06EscapedNames = []string{
	"`a\"b`", "`a\"\"b`", "`\"`", "`\"\"`", "`back\\slash`", "`q\\\"x`", "`end\\`", "`a\\\\\"; drop table node; --`",
	"`tab\tname`", "`nl\nname`", "`bell\x07x`", "`zero\u200bwidth`", "`\U0001d4b3name`", "`é\"ß`",
	"`" + strings.Repeat("k", 63) + "`", "`" + strings.Repeat("k", 64) + "`", "`" + strings.Repeat("\"", 31) + "`",
	"`select`", "`from`", "`order`", "`n0`", "`s0`", "`i0`", "`pi0`", "`a``b`", "`semi;colon -- x`", "`$$`", "`$t$x$t$`", "`/*c*/`", "`'quote'`", "`a b`", "`E'x'`",
}

var c06GenIDAnywhere = regexp.MustCompile(`\b(n|e|s|i|pi|ep|pc|ex)[0-9]+\b`)

// c06ProbeRenaming: identity except that ONE user variable takes the spelling of a generated identifier that
// occurs in the original translation (the sharpest capture probe: the name is known to be in play).
func (r *c06Runner) probeRenaming(q string, params map[string]any, seed uint64, vars, prms []string) (rv, rp map[string]string) {
	rv, rp = map[string]string{}, map[string]string{}
	for _, v := range vars {
		rv[v] = v
	}
	for _, p := range prms {
		rp[p] = p
	}
	m, err, pp := parseQuery(q)
	if err != nil || pp != "" || len(vars) == 0 {
		return
	}
	o := translateOutcome(m, r.mapper, defaultParams(prms, params))
	if o.Status != "ok" {
		return
	}
	user := map[string]bool{}
	for _, v := range vars {
		user[v] = true
	}
	seen := map[string]bool{}
	var ids []string
	for _, g := range c06GenIDAnywhere.FindAllString(o.RawSQL, -1) {
		if !seen[g] && !user[g] {
			seen[g] = true
			ids = append(ids, g)
		}
	}
	if len(ids) == 0 {
		return
	}
	sort.Strings(ids)
	rng := NewRng(seed)
	rv[vars[rng.Intn(len(vars))]] = ids[rng.Intn(len(ids))]
	return
}

var c06TranslatorNames = []string{
	"n0", "e0", "s0", "i0", "pi0", "ep0", "path", "depth", "root_id", "next_id", "satisfied", "is_cycle", "_kind_idx",
	"n1", "e1", "s1", "i1", "pi1", "ep1", "pc0", "ex0", "n2", "s2", "i2", "e2", "s3", "n3", "pc1", "ex1", "ep2",
	"id", "kind_ids", "kind_id", "properties", "start_id", "end_id", "node", "edge", "nodes", "edges", "graph_id",
	"s4", "s5", "i3", "i4", "n4", "n5", "e3", "pi2", "pi3",
}

var c06Keywords = []string{
	"select", "from", "where", "table", "user", "order", "group", "join", "union", "all", "distinct", "limit", "offset",
	"having", "lateral", "array", "case", "when", "then", "else", "end", "as", "on", "using", "natural", "left", "right",
	"inner", "outer", "cross", "full", "into", "values", "default", "check", "primary", "foreign", "references", "unique",
	"constraint", "column", "grant", "analyse", "analyze", "asc", "desc", "both", "cast", "collate", "current_user",
}

func c06CaseName(i int) string {
	base := "name"
	// i-th distinct capitalisation pattern of "name" followed by a fixed-case index beyond 16
	var b strings.Builder
	for j := 0; j < len(base); j++ {
		c := base[j]
		if (i>>uint(j))&1 == 1 {
			c = c - 'a' + 'A'
		}
		b.WriteByte(c)
	}
	if i >= 16 {
		fmt.Fprintf(&b, "%d", i/16)
	}
	return b.String()
}

// c06Renaming builds injective maps for variables and parameters. Only kind "cross" makes a variable and
// a parameter share a spelling.
func c06Renaming(kind string, seed uint64, vars, params []string) (rv, rp map[string]string) {
	rng := NewRng(seed)
	rv, rp = map[string]string{}, map[string]string{}
	shuffle := func(xs []string) []string {
		out := append([]string{}, xs...)
		for i := len(out) - 1; i > 0; i-- {
			j := rng.Intn(i + 1)
			out[i], out[j] = out[j], out[i]
		}
		return out
	}
	fromPool := func(pool []string) {
		p := shuffle(pool)
		k := 0
		next := func() string {
			if k < len(p) {
				k++
				return p[k-1]
			}
			k++
			return fmt.Sprintf("%s_%d", p[k%len(p)], k)
		}
		for _, v := range vars {
			rv[v] = next()
		}
		for _, q := range params {
			rp[q] = next()
		}
	}
	switch kind {
	case "fresh":
		for i, v := range vars {
			rv[v] = fmt.Sprintf("zq%dx", i)
		}
		for i, q := range params {
			rp[q] = fmt.Sprintf("zp%dx", i)
		}
	case "translator":
		fromPool(c06TranslatorNames)
	case "keywords":
		fromPool(c06Keywords)
	case "escaped":
		// variables / aliases take escaped names; parameters (no escaped form in the model) stay fresh
		p := shuffle(c06EscapedNames)
		for i, v := range vars {
			if i < len(p) {
				rv[v] = p[i]
			} else {
				rv[v] = fmt.Sprintf("`x\"%d`", i)
			}
		}
		for i, q := range params {
			rp[q] = fmt.Sprintf("zp%dx", i)
		}
	case "case":
		idx := shuffle(func() []string {
			n := len(vars) + len(params)
			out := make([]string, n)
			for i := range out {
				out[i] = c06CaseName(i)
			}
			return out
		}())
		for i, v := range vars {
			rv[v] = idx[i]
		}
		for i, q := range params {
			rp[q] = idx[len(vars)+i]
		}
	case "swap":
		// permute the query's own spellings inside each namespace
		pv, pp := shuffle(vars), shuffle(params)
		for i, v := range vars {
			rv[v] = pv[i]
		}
		for i, q := range params {
			rp[q] = pp[i]
		}
	case "cross":
		// random partial matching: k pairs (variable, parameter) get the same spelling; half of the time the
		// shared spelling is the variable's own name (parameter named like a variable), else the parameter's
		sv, sp := shuffle(vars), shuffle(params)
		k := len(sv)
		if len(sp) < k {
			k = len(sp)
		}
		usedV, usedP := map[string]bool{}, map[string]bool{}
		for i := 0; i < k; i++ {
			var shared string
			switch rng.Intn(3) {
			case 0:
				shared = fmt.Sprintf("c%dx", i)
			case 1:
				shared = "keepv_" + sv[i]
			default:
				shared = "keepp_" + sp[i]
			}
			rv[sv[i]], rp[sp[i]] = shared, shared
			usedV[sv[i]], usedP[sp[i]] = true, true
		}
		for i, v := range vars {
			if !usedV[v] {
				rv[v] = fmt.Sprintf("zq%dx", i)
			}
		}
		for i, q := range params {
			if !usedP[q] {
				rp[q] = fmt.Sprintf("zp%dx", i)
			}
		}
	default:
		for _, v := range vars {
			rv[v] = v
		}
		for _, q := range params {
			rp[q] = q
		}
	}
	return
}

func c06Collides(vars, params []string) bool {
	set := map[string]bool{}
	for _, v := range vars {
		set[v] = true
	}
	for _, p := range params {
		if set[p] {
			return true
		}
	}
	return false
}

func mapValues(m map[string]string, keys []string) []string {
	out := make([]string, len(keys))
	for i, k := range keys {
		out[i] = m[k]
	}
	return out
}

func (c06Suite) Gen(rng *Rng, tier string, w *bufio.Writer, stats *Stats) {
	corpus := LoadCypherCorpus()
	n := 0
	emit := func(tag, kind string, seed uint64, q string, params map[string]any) {
		n++
		payload, _ := json.Marshal([]any{q, params})
		fmt.Fprintf(w, "# case %d %s\n", n, tag)
		fmt.Fprintf(w, "r %s %d %s\n", kind, seed, payload)
	}
	reps := 1
	ngen := 400
	if tier == "thorough" {
		reps = 4
		ngen = 4500
	}
	// kind "sys": seed 0 = quick candidate set, 1 = every identifier of the translation (thorough); once per query
	sysMode := uint64(0)
	if tier == "thorough" {
		sysMode = 1
	}
	for _, c := range corpus {
		for _, k := range c06Kinds {
			for r := 0; r < reps; r++ {
				if k == "sys" {
					if r == 0 {
						emit("corpus:"+c.Source, k, sysMode, c.Query, c.Params)
						stats.Inc("corpus_cases_gen")
					}
					continue
				}
				if (k == "escaped" || k == "keywords" || k == "case") && r >= 2 {
					continue // two draws of these alphabets per corpus query are enough in the thorough tier
				}
				emit("corpus:"+c.Source, k, rng.Next()%1000000, c.Query, c.Params)
				stats.Inc("corpus_cases_gen")
			}
		}
	}
	for _, q := range c06SysQueries {
		emit("sys-shapes", "sys", 1, q, nil)
	}
	for i := 0; i < ngen; i++ {
		q := genCypherQuery(rng)
		for _, k := range c06Kinds {
			if k == "sys" {
				// generated queries always use the quick candidate set; thorough runs it on every third query
				if tier != "thorough" || i%3 == 0 {
					emit("gen", k, 0, q, nil)
				}
			} else {
				emit("gen", k, rng.Next()%1000000, q, nil)
			}
			stats.Inc("generated_cases_gen")
		}
	}
}

type c06Runner struct {
	stats  *Stats
	mapper pgsql.KindMapper
	trace  string // scope-operation trace of the traced translation of the current case ("-" = none)
	side   string // which translation of the pair to trace: "a", "b" or ""
}

func (c06Suite) NewRunner(stats *Stats) Runner {
	return &c06Runner{stats: stats, mapper: newHarnessKindMapper()}
}

type c06Pair struct {
	a, b xlOutcome
}

// c06Compare classifies a pair of outcomes (original, renamed).
func c06Compare(a, b xlOutcome, rp map[string]string) (cls, detail string) {
	switch {
	case a.Status == "ok" && b.Status == "ok":
		if a.SQL != b.SQL {
			return "sql-differs", firstTextDiff(a.SQL, b.SQL)
		}
		if a.Params != b.Params {
			// the statement allows parameter-map KEYS to follow the user's spelling; values must be equal
			if len(a.Keys) == len(b.Keys) {
				same := true
				for i := range a.Keys {
					if n, ok := rp[a.Keys[i]]; !(ok && n == b.Keys[i]) && a.Keys[i] != b.Keys[i] {
						same = false
					}
				}
				if same && stripKeys(a.Params, a.Keys) == stripKeys(b.Params, b.Keys) {
					return "ok", ""
				}
			}
			return "params-differ", fmt.Sprintf("orig: %s | renamed: %s", a.Params, b.Params)
		}
		return "ok", ""
	case a.Status == "ok" && b.Status == "err":
		return "new-error", b.Msg
	case a.Status == "ok" && b.Status == "panic":
		return "new-panic", b.Msg
	case a.Status == "err" && b.Status == "ok":
		return "lost-error", a.Msg
	case a.Status == "panic" && b.Status == "ok":
		return "lost-panic", a.Msg
	case a.Status == "panic" && b.Status == "err":
		return "lost-panic", a.Msg
	case a.Status == "err" && b.Status == "panic":
		return "new-panic", b.Msg
	}
	return "untranslatable", ""
}

// firstDiff shows both texts around the first position where they differ.
func firstTextDiff(a, b string) string {
	i := 0
	for i < len(a) && i < len(b) && a[i] == b[i] {
		i++
	}
	lo := i - 90
	if lo < 0 {
		lo = 0
	}
	cut := func(s string) string {
		hi := i + 110
		if hi > len(s) {
			hi = len(s)
		}
		if lo > len(s) {
			return ""
		}
		return s[lo:hi]
	}
	return fmt.Sprintf("at %d orig: …%s… | renamed: …%s…", i, cut(a), cut(b))
}

func stripKeys(sexp string, keys []string) string {
	for i, k := range keys {
		sexp = strings.ReplaceAll(sexp, "("+jsonQuote(k)+" ", fmt.Sprintf("(§k%d ", i))
	}
	return sexp
}

// c06RunPair parses q twice (two independent models), renames the second and translates both.
func (r *c06Runner) runPair(q string, params map[string]any, rv, rp map[string]string, traceTag string) (c06Pair, bool) {
	m0, err0, p0 := parseQuery(q)
	m1, err1, p1 := parseQuery(q)
	if err0 != nil || err1 != nil || p0 != "" || p1 != "" {
		return c06Pair{}, false
	}
	_, psyms := userSymbols(m0)
	full := defaultParams(psyms, params)
	renameSymbols(m1, rv, rp)
	if traceTag == "a" {
		c06TraceOn()
	}
	a := translateOutcome(m0, r.mapper, full)
	if traceTag == "a" {
		r.trace = c06TraceOff()
	}
	if traceTag == "b" {
		c06TraceOn()
	}
	b := translateOutcome(m1, r.mapper, renameParamMap(full, rp))
	if traceTag == "b" {
		r.trace = c06TraceOff()
	}
	return c06Pair{a, b}, true
}

// ---------------------------------------------------------------- systematic renamings onto generated identifiers

// shapes in which a variable is re-aliased and the alias is used afterwards (every position gets every identifier)
var c06SysQueries = []string{
	"MATCH (a) WITH a AS x RETURN x.name",
	"MATCH (a)-[r]->(b) WITH r AS x RETURN type(x)",
	"MATCH (a)-[r]->(b) WITH b AS x MATCH (x)-[q]->(c) RETURN c.name",
	"MATCH (a)-[r]->(b) WITH a AS x, b AS y MATCH (x)-[q]->(c)<-[t]-(y) RETURN c",
	"MATCH (a) WITH a AS x WITH x AS y RETURN y.name AS z ORDER BY z",
	"MATCH p = (a)-[r*1..2]->(b) WITH p AS x, b AS y RETURN length(x), y.name",
	"MATCH (a) WHERE a.name = $p WITH a AS x WHERE x.value = $q RETURN x AS out",
	"UNWIND [1, 2] AS i WITH i AS x RETURN x AS y",
	"MATCH (a) WITH a.name AS x WHERE x = 'a' RETURN x AS y ORDER BY y",
	"MATCH (a) WHERE any(e IN a.arr WHERE e = 1) WITH a AS x RETURN x",
	"MATCH (a)-[r]->(b) WITH a AS x, count(b) AS c RETURN x.name, c",
	"MATCH (a) OPTIONAL MATCH (a)-[r]->(b) WITH a AS x, b AS y RETURN x, y",
	// a path variable (and the other symbols) take every generated identifier in queries that trigger each lowering
	"MATCH (n) WITH collect(n) AS xs MATCH p = (a)-[r]->(m) WHERE m IN xs RETURN p",                                                                        // collect-ID membership
	"MATCH (dc)-[r:EdgeKind1*0..]->(g:NodeKind1) WITH collect(dc) AS exclude MATCH p = (c:NodeKind2)-[n:EdgeKind2]->(u) WHERE NOT (c IN exclude) RETURN p", // collect-ID membership, negated
	"MATCH (n:NodeKind1) MATCH p = (n)-[:EdgeKind1*1..]->(c:NodeKind2) WITH n, count(c) AS cnt RETURN n ORDER BY cnt DESC LIMIT 5",                         // aggregate traversal count
	"MATCH p = (a:NodeKind1)-[:EdgeKind1*1..]->(b:NodeKind2) RETURN p LIMIT 5",                                                                             // limit pushdown
	"MATCH p = (a:NodeKind1)-[r:EdgeKind1]->(b) RETURN count(r)",                                                                                           // count fast path
	"MATCH (n:NodeKind1) RETURN count(n) AS total",                                                                                                         // count fast path
	"MATCH p = shortestPath((a:NodeKind1)-[:EdgeKind1*1..]->(b:NodeKind2)) WITH p, a RETURN nodes(p), a.name LIMIT 3",
}

var (
	c06TraceAliasRe  = regexp.MustCompile(`\((alias|aliasParameter) \d+ ("(?:[^"\\]|\\.)*") "([^"]*)"`)
	c06TraceDefineRe = regexp.MustCompile(`\(define \d+ "([^"]*)"`)
	c06GenSplitRe    = regexp.MustCompile(`^(n|e|s|i|pi|ep|pc|ex)([0-9]+)$`)
)

// systematic translates q once (with the scope trace when the hook is there), reads off which generated identifier
// every user variable / alias / parameter received, and renames (a) each symbol alone and (b) all symbols at once to
// (i) its OWN generated identifier, (ii) the generated identifier of every OTHER binding, (iii) identifiers the
// translation generates later / would generate next. Returns the first failing renaming (one of an unknown class if
// there is any) and the number of renamings tried.
func (r *c06Runner) systematic(q string, params map[string]any, full bool) (frv, frp map[string]string, n int) {
	m, err, pp := parseQuery(q)
	if err != nil || pp != "" {
		return nil, nil, 0
	}
	vars, prms := userSymbols(m)
	fullParams := defaultParams(prms, params)
	c06TraceOn()
	a := translateOutcome(cypher.Copy(m), r.mapper, fullParams)
	trace := c06TraceOff()
	if a.Status != "ok" || len(vars)+len(prms) == 0 {
		return nil, nil, 0
	}
	ownV, ownP := map[string][]string{}, map[string][]string{}
	var defined, userBound []string
	seen := map[string]bool{}
	if trace != "-" {
		for _, mm := range c06TraceAliasRe.FindAllStringSubmatch(trace, -1) {
			key, ok := jsonUnquote(mm[2])
			if !ok {
				continue
			}
			if mm[1] == "alias" {
				ownV[key] = append(ownV[key], mm[3])
			} else {
				ownP[key] = append(ownP[key], mm[3])
			}
			userBound = append(userBound, mm[3])
		}
		for _, mm := range c06TraceDefineRe.FindAllStringSubmatch(trace, -1) {
			if !seen[mm[1]] {
				seen[mm[1]] = true
				defined = append(defined, mm[1])
			}
		}
	} else {
		for _, g := range c06GenIDAnywhere.FindAllString(a.RawSQL, -1) {
			if !seen[g] {
				seen[g] = true
				defined = append(defined, g)
			}
		}
		userBound = defined
	}
	// next counter values per prefix class
	maxIdx := map[string]int{}
	for _, pfx := range []string{"n", "e", "s", "i", "pi", "ep", "pc", "ex"} {
		maxIdx[pfx] = -1
	}
	for _, d := range defined {
		if mm := c06GenSplitRe.FindStringSubmatch(d); mm != nil {
			var k int
			fmt.Sscan(mm[2], &k)
			if k > maxIdx[mm[1]] {
				maxIdx[mm[1]] = k
			}
		}
	}
	var later []string
	for _, pfx := range []string{"n", "e", "s", "i", "pi", "ep", "pc", "ex"} {
		later = append(later, fmt.Sprintf("%s%d", pfx, maxIdx[pfx]+1))
		if full {
			later = append(later, fmt.Sprintf("%s%d", pfx, maxIdx[pfx]+2))
		}
	}
	cands := func(own []string) []string {
		var out []string
		add := func(xs []string) {
			for _, x := range xs {
				dup := false
				for _, y := range out {
					dup = dup || x == y
				}
				if !dup {
					out = append(out, x)
				}
			}
		}
		add(own)
		if full {
			add(defined)
		} else {
			add(userBound)
		}
		add(later)
		return out
	}
	isVar, isPrm := map[string]bool{}, map[string]bool{}
	for _, v := range vars {
		isVar[v] = true
	}
	for _, p := range prms {
		isPrm[p] = true
	}
	var knownRV, knownRP map[string]string
	try := func(rv, rp map[string]string) bool { // true = stop: failure of an unknown class
		// injective inside each namespace, including the symbols that keep their spelling
		for ns, mp := range []map[string]string{rv, rp} {
			names := vars
			if ns == 1 {
				names = prms
			}
			target := map[string]bool{}
			for _, s := range names {
				t := s
				if nn, ok := mp[s]; ok {
					t = nn
				}
				if target[t] {
					return false
				}
				target[t] = true
			}
		}
		n++
		m1 := cypher.Copy(m)
		renameSymbols(m1, rv, rp)
		b := translateOutcome(m1, r.mapper, renameParamMap(fullParams, rp))
		if c, _ := c06Compare(a, b, rp); c == "ok" {
			return false
		}
		cls, _, _, _, _, _, _, _ := r.check(q, params, rv, rp, "explicit", 0)
		switch cls {
		case "ok", "untranslatable":
			return false
		case "gen-id-captured-by-path-variable", "ns-collision":
			if knownRV == nil {
				knownRV, knownRP = rv, rp
			}
			return false
		}
		if strings.HasPrefix(cls, "user-name-in-inner-sql") {
			if knownRV == nil {
				knownRV, knownRP = rv, rp
			}
			return false
		}
		frv, frp = rv, rp
		return true
	}
	// (a) one position at a time
	for _, v := range vars {
		for _, c := range cands(ownV[v]) {
			if c != v && try(map[string]string{v: c}, map[string]string{}) {
				return
			}
		}
	}
	for _, p := range prms {
		for _, c := range cands(ownP[p]) {
			if c != p && try(map[string]string{}, map[string]string{p: c}) {
				return
			}
		}
	}
	// (b) all positions at once: own first id, own last id, the next symbol's id, later ids
	pick := func(own map[string][]string, names []string, how int) map[string]string {
		mp := map[string]string{}
		for i, s := range names {
			switch how {
			case 0:
				if len(own[s]) > 0 {
					mp[s] = own[s][0]
				}
			case 1:
				if len(own[s]) > 0 {
					mp[s] = own[s][len(own[s])-1]
				}
			case 2:
				if o := own[names[(i+1)%len(names)]]; len(o) > 0 {
					mp[s] = o[0]
				}
			default:
				pfx := "n"
				if len(own[s]) > 0 {
					if mm := c06GenSplitRe.FindStringSubmatch(own[s][0]); mm != nil {
						pfx = mm[1]
					}
				}
				mp[s] = fmt.Sprintf("%s%d", pfx, maxIdx[pfx]+1+i)
			}
		}
		return mp
	}
	for how := 0; how < 4; how++ {
		if try(pick(ownV, vars, how), pick(ownP, prms, how)) {
			return
		}
	}
	if knownRV != nil {
		return knownRV, knownRP, n
	}
	return nil, nil, n
}

// check runs one (query, renaming) pair and classifies it, including the de-collision test that isolates
// failures whose ONLY cause is a spelling shared between a variable and a parameter.
func (r *c06Runner) check(q string, params map[string]any, rvIn, rpIn map[string]string, kind string, seed uint64) (cls, detail string, pair c06Pair, vars, prms []string, rv, rp map[string]string, coll bool) {
	m, err, pp := parseQuery(q)
	if err != nil || pp != "" {
		return "parse", "", c06Pair{}, nil, nil, nil, nil, false
	}
	vars, prms = userSymbols(m)
	if rvIn != nil || rpIn != nil {
		rv, rp = map[string]string{}, map[string]string{}
		for _, v := range vars {
			rv[v] = v
			if n, ok := rvIn[v]; ok {
				rv[v] = n
			}
		}
		for _, p := range prms {
			rp[p] = p
			if n, ok := rpIn[p]; ok {
				rp[p] = n
			}
		}
	} else if kind == "probe" {
		rv, rp = r.probeRenaming(q, params, seed, vars, prms)
	} else {
		rv, rp = c06Renaming(kind, seed, vars, prms)
	}
	coll = c06Collides(vars, prms) || c06Collides(mapValues(rv, vars), mapValues(rp, prms))
	pair, _ = r.runPair(q, params, rv, rp, r.side)
	r.side = "" // only the first pair of a case is traced
	cls, detail = c06Compare(pair.a, pair.b, rp)
	if cls != "ok" && cls != "untranslatable" && coll {
		// Is the spelling shared between a variable and a parameter the ONLY cause? De-collide both sides by the
		// same extra renaming of parameters (p -> p_prm) and compare again.
		dv := map[string]string{}
		dp0, dp1 := map[string]string{}, map[string]string{}
		for _, p := range prms {
			dp0[p] = p + "_prm"
			dp1[p] = rp[p] + "_prm"
		}
		for _, v := range vars {
			dv[v] = rv[v]
		}
		m0, _, _ := parseQuery(q)
		m1, _, _ := parseQuery(q)
		full := defaultParams(prms, params)
		renameSymbols(m0, map[string]string{}, dp0)
		renameSymbols(m1, dv, dp1)
		if !c06Collides(vars, mapValues(dp0, prms)) && !c06Collides(mapValues(dv, vars), mapValues(dp1, prms)) {
			a := translateOutcome(m0, r.mapper, renameParamMap(full, dp0))
			b := translateOutcome(m1, r.mapper, renameParamMap(full, dp1))
			rel := map[string]string{}
			for _, p := range prms {
				rel[dp0[p]] = dp1[p]
			}
			if c2, _ := c06Compare(a, b, rel); c2 == "ok" || c2 == "untranslatable" {
				detail = cls + ": " + detail
				cls = "ns-collision"
			}
		}
	}
	if cls != "ok" && cls != "untranslatable" && cls != "ns-collision" {
		cls, detail = r.refine(q, params, m, vars, prms, rv, rp, cls, detail, pair)
	}
	if cls == "ok" && pair.a.Status == "ok" && pair.b.Status == "ok" {
		// TOKEN level: the unmasked statements have the same token sequence, identifier tokens differing only as renamed pairs
		if same, why := tokensEqualModuloRenaming(pair.a.RawSQL, pair.b.RawSQL, rv, rp); !same {
			cls, detail = "token-structure-differs", why+" | renamed statement: "+pair.b.RawSQL
		}
	}
	return
}

var c06GenIDre = regexp.MustCompile(`^(n|e|s|i|pi|ep|pc|ex)[0-9]+$`)

// refine isolates the two shapes of renaming sensitivity known on the unchanged tree so that each gets its own
// specific finding key; anything else keeps the generic class and is reported as a violation.
func (r *c06Runner) refine(q string, params map[string]any, m *cypher.RegularQuery, vars, prms []string, rv, rp map[string]string,
	cls, detail string, pair c06Pair) (string, string) {
	// (i) a PATH variable spelled like a generated identifier: re-spell only those and try again
	pathVars := pathVariableSymbols(m)
	rv2 := map[string]string{}
	changed := false
	for i, v := range vars {
		rv2[v] = rv[v]
		if pathVars[v] && c06GenIDre.MatchString(rv[v]) {
			rv2[v] = fmt.Sprintf("zpv%dx", i)
			changed = true
		}
	}
	if changed {
		p2, _ := r.runPair(q, params, rv2, rp, "t")
		if c2, _ := c06Compare(p2.a, p2.b, rp); c2 == "ok" || c2 == "untranslatable" {
			return "gen-id-captured-by-path-variable", cls + ": " + detail
		}
	}
	// (ii) the user's spelling shows up verbatim inside the statement (not as an output alias): with the fresh
	// renaming, mapping the fresh spellings back must make the two statements equal
	if pair.a.Status == "ok" {
		fv, fp := c06Renaming("fresh", 0, vars, prms)
		p3, _ := r.runPair(q, params, fv, fp, "t")
		if p3.b.Status == "ok" && p3.a.SQL != p3.b.SQL {
			back := p3.b.SQL
			for _, v := range vars {
				back = strings.ReplaceAll(back, fv[v], v)
			}
			for _, p := range prms {
				back = strings.ReplaceAll(back, fp[p], p)
			}
			if back == p3.a.SQL {
				return "user-name-in-inner-sql:" + strings.Join(pair.a.Lowerings, "+"), cls + ": " + detail
			}
		}
	}
	return cls, detail
}

func (r *c06Runner) Step(t []string, raw string) string {
	if len(t) < 2 || (t[0] != "r" && t[0] != "x") {
		return "bad-op"
	}
	var (
		kind     = "explicit"
		seed     uint64
		rest     = strings.TrimSpace(raw)
		skip     = 1
		q        string
		params   map[string]any
		rvIn     map[string]string
		rpIn     map[string]string
		explicit = t[0] == "x"
	)
	if !explicit {
		if len(t) < 4 {
			return "bad-op"
		}
		kind = t[1]
		fmt.Sscan(t[2], &seed)
		skip = 3
	}
	for i := 0; i < skip; i++ {
		rest = strings.TrimSpace(rest[strings.IndexByte(rest, ' ')+1:])
	}
	var payload []json.RawMessage
	if err := json.Unmarshal([]byte(rest), &payload); err != nil || len(payload) < 1 {
		return "bad-op"
	}
	if json.Unmarshal(payload[0], &q) != nil {
		return "bad-op"
	}
	if len(payload) > 1 {
		_ = json.Unmarshal(payload[1], &params)
	}
	if explicit {
		rvIn, rpIn = map[string]string{}, map[string]string{}
		if len(payload) > 2 {
			_ = json.Unmarshal(payload[2], &rvIn)
		}
		if len(payload) > 3 {
			_ = json.Unmarshal(payload[3], &rpIn)
		}
	}
	r.trace, r.side = "-", ""
	switch kind {
	case "fresh":
		r.side = "a"
	case "translator", "probe", "explicit":
		r.side = "b"
	}
	if kind == "sys" {
		// systematic renamings onto the identifiers THIS translation generates; a failing one is then handled like an
		// explicit renaming (classified, minimised, reported with its maps); otherwise the identity pair is reported
		frv, frp, n := r.systematic(q, params, seed != 0)
		r.stats.Add("sys_renamings", int64(n))
		rvIn, rpIn = map[string]string{}, map[string]string{}
		if frv != nil {
			rvIn, rpIn = frv, frp
		}
		r.side = "a"
	}
	cls, detail, pair, vars, prms, rv, rp, coll := r.check(q, params, rvIn, rpIn, kind, seed)
	if cls == "parse" {
		r.stats.Inc("parse_fail")
		return "cls=parse st=parse st2=parse coll=0 nv=0 np=0 ren={} min=\"\" detail=\"\" tops=0 trace=-"
	}
	trace := r.trace
	if trace != "-" {
		r.stats.Inc("traced_translations")
	}
	r.stats.Inc("class." + cls)
	r.stats.Inc("kind." + kind)
	if cls == "ok" {
		r.stats.Inc("translated_pairs")
		if len(vars)+len(prms) >= 2 {
			r.stats.Inc("translated_pairs_ge2_symbols")
		}
		if strings.Count(pair.a.RawSQL, " as (") >= 2 {
			r.stats.Inc("translated_pairs_ge2_frames")
		}
	}
	min := ""
	c06Minimised[cls]++
	if cls != "ok" && cls != "untranslatable" && c06Minimised[cls] <= 3 {
		// minimise the query text under the SAME renaming maps (symbols that disappear are simply unused)
		min = minimiseQuery(q, func(cand string) bool {
			c, _, _, _, _, _, _, _ := r.check(cand, params, rv, rp, kind, seed)
			return c == cls
		}, 400)
		if min != q {
			_, detail, _, _, _, _, _, _ = r.check(min, params, rv, rp, kind, seed)
		}
	}
	ren, _ := json.Marshal(map[string]any{"v": rv, "p": rp})
	if len(detail) > 1500 {
		detail = detail[:1500] + "…"
	}
	tops := 0
	if trace != "-" {
		tops = c06TraceOps
	}
	return fmt.Sprintf("cls=%s st=%s st2=%s coll=%d nv=%d np=%d ren=%s min=%s detail=%s tops=%d trace=%s",
		cls, pair.a.Status, pair.b.Status, b2i(coll), len(vars), len(prms), strings.ReplaceAll(string(ren), " ", ""), jsonQuote(min), jsonQuote(detail), tops, trace)
}

func b2i(b bool) int {
	if b {
		return 1
	}
	return 0
}

// ---------------------------------------------------------------- optional scope-operation trace (hooks/C06.patch)
//
// With the verif hook present in the translate package, every Scope operation of the real translator appends one
// S-expression line to the file named by VERIF_C06_TRACE while that variable is set. The harness never references
// hook symbols, so it builds against a tree without the hook; the trace is then empty and reported as "-".
// One translation is traced per case: the original for kind fresh, the renamed twin for translator / probe / explicit.

var c06TraceOps int

// c06Minimised counts failures per class; only the first three of a class are minimised (ddmin over the query
// text re-translates hundreds of candidates).
var c06Minimised = map[string]int{}

var c06TracePath = filepath.Join(os.TempDir(), fmt.Sprintf("verif_c06_%d.trace", os.Getpid()))

func c06TraceOn() {
	_ = os.WriteFile(c06TracePath, nil, 0o644)
	os.Setenv("VERIF_C06_TRACE", c06TracePath)
}

// c06TraceOff stops tracing and returns the recorded operations as one S-expression, or "-".
func c06TraceOff() string {
	os.Unsetenv("VERIF_C06_TRACE")
	b, err := os.ReadFile(c06TracePath)
	_ = os.Remove(c06TracePath)
	if err != nil || len(b) == 0 {
		return "-"
	}
	var ops []string
	for _, l := range strings.Split(string(b), "\n") {
		l = strings.TrimSpace(l)
		if strings.HasPrefix(l, "(") {
			ops = append(ops, l)
		}
	}
	if len(ops) == 0 {
		return "-"
	}
	c06TraceOps = 0
	for _, o := range ops {
		if !strings.HasPrefix(o, "(new ") && !strings.HasPrefix(o, "(from ") {
			c06TraceOps++
		}
	}
	return "(trace " + strings.Join(ops, " ") + ")"
}

var _ = sort.Strings
var _ *cypher.Variable
