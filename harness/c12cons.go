package main

import (
	"bufio"
	"fmt"
)

// C12 consumers (T-tie report suite). The facts are extracted from drivers/**/*.go by tools/extract/goext (mode c12)
// into lean/Dawgs/Generated/C12Consumers.lean on every run; this suite only enumerates the rows so that the generic
// flow classifies each one with the Lean definition `pathOk` (model suite c12cons), shrinks and routes a gap through
// known_findings.json like any other finding. There is nothing to execute on the implementation side.
type c12ConsSuite struct{}

func init() { register("c12cons", c12ConsSuite{}) }

const c12ConsRows = 48

func (c12ConsSuite) Gen(rng *Rng, tier string, w *bufio.Writer, stats *Stats) {
	for i := 0; i < c12ConsRows; i++ {
		fmt.Fprintf(w, "# case %d consumer-path\n", i)
		fmt.Fprintf(w, "path %d\n", i)
	}
	stats.Add("consumer_rows_enumerated", c12ConsRows)
}

type c12ConsRunner struct{}

func (c12ConsSuite) NewRunner(stats *Stats) Runner { return c12ConsRunner{} }

func (c12ConsRunner) Step(t []string, raw string) string {
	if len(t) == 2 && t[0] == "path" {
		return "t-tie"
	}
	return "bad-op"
}
