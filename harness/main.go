// Command harness drives the real DAWGS code (built from /repo's working tree with -tags verif)
// through the same line protocol the Lean model driver speaks.
//
//	harness <suite> gen -seed S -tier quick|thorough -ops FILE [-stats FILE]
//	harness <suite> run -ops FILE -out FILE [-stats FILE]
//
// gen writes operation lines only (pure, derived from one splitmix64 state); run executes operation
// lines against the implementation and writes exactly one answer line per input line.
package main

import (
	"bufio"
	"encoding/json"
	"flag"
	"fmt"
	"os"
	"sort"
	"strings"
)

// Suite is one property's harness.
type Suite interface {
	// Gen writes operation lines for the tier.
	Gen(rng *Rng, tier string, w *bufio.Writer, stats *Stats)
	// NewRunner returns a fresh executor of operation lines.
	NewRunner(stats *Stats) Runner
}

// Runner executes one tokenised line and returns the answer line (no newline).
type Runner interface {
	Step(tokens []string, raw string) string
}

var suites = map[string]Suite{}

func register(name string, s Suite) { suites[name] = s }

// Stats collects branch/coverage counters written as JSON.
type Stats struct {
	Counters map[string]int64  `json:"counters"`
	Notes    map[string]string `json:"notes,omitempty"`
}

func NewStats() *Stats { return &Stats{Counters: map[string]int64{}, Notes: map[string]string{}} }
func (s *Stats) Inc(k string) { s.Counters[k]++ }
func (s *Stats) Add(k string, n int64) { s.Counters[k] += n }

func (s *Stats) Write(path string) {
	if path == "" {
		return
	}
	b, _ := json.MarshalIndent(s, "", " ")
	_ = os.WriteFile(path, b, 0o644)
}

func main() {
	if len(os.Args) < 3 {
		names := []string{}
		for n := range suites {
			names = append(names, n)
		}
		sort.Strings(names)
		fmt.Fprintf(os.Stderr, "usage: harness <suite> gen|run ...; suites: %s\n", strings.Join(names, " "))
		os.Exit(2)
	}
	suite, ok := suites[os.Args[1]]
	if !ok {
		fmt.Fprintf(os.Stderr, "unknown suite %s\n", os.Args[1])
		os.Exit(2)
	}
	fs := flag.NewFlagSet(os.Args[2], flag.ExitOnError)
	seed := fs.Uint64("seed", 1, "seed")
	tier := fs.String("tier", "quick", "tier")
	opsPath := fs.String("ops", "", "ops file")
	outPath := fs.String("out", "", "out file")
	statsPath := fs.String("stats", "", "stats json")
	_ = fs.Parse(os.Args[3:])
	stats := NewStats()
	switch os.Args[2] {
	case "gen":
		f, err := os.Create(*opsPath)
		must(err)
		w := bufio.NewWriterSize(f, 1<<20)
		suite.Gen(NewRng(*seed), *tier, w, stats)
		must(w.Flush())
		must(f.Close())
	case "run":
		in, err := os.Open(*opsPath)
		must(err)
		out, err := os.Create(*outPath)
		must(err)
		w := bufio.NewWriterSize(out, 1<<20)
		runLines(suite, in, w, stats)
		must(w.Flush())
		must(out.Close())
	default:
		fmt.Fprintf(os.Stderr, "unknown mode %s\n", os.Args[2])
		os.Exit(2)
	}
	stats.Write(*statsPath)
}

func must(err error) {
	if err != nil {
		fmt.Fprintln(os.Stderr, "harness:", err)
		os.Exit(3)
	}
}

// runLines feeds every line to the suite runner. A `# case` comment starts a fresh runner; a panic
// in the implementation is turned into the answer `panic <msg>` and the rest of the case is
// answered `skipped` so the streams stay aligned.
func runLines(suite Suite, in *os.File, w *bufio.Writer, stats *Stats) {
	sc := bufio.NewScanner(in)
	sc.Buffer(make([]byte, 1<<20), 1<<28)
	runner := suite.NewRunner(stats)
	dead := false
	for sc.Scan() {
		raw := sc.Text()
		toks := strings.Fields(raw)
		if len(toks) == 0 || strings.HasPrefix(toks[0], "#") {
			if len(toks) >= 2 && toks[0] == "#" && toks[1] == "case" {
				runner = suite.NewRunner(stats)
				dead = false
				stats.Inc("cases")
			}
			fmt.Fprintln(w, "#")
			continue
		}
		if dead {
			fmt.Fprintln(w, "skipped")
			continue
		}
		ans := safeStep(runner, toks, raw)
		if strings.HasPrefix(ans, "panic ") {
			dead = true
			stats.Inc("panics")
		}
		stats.Inc("ops")
		fmt.Fprintln(w, ans)
	}
}

func safeStep(r Runner, toks []string, raw string) (ans string) {
	defer func() {
		if p := recover(); p != nil {
			msg := strings.ReplaceAll(fmt.Sprint(p), "\n", " ")
			ans = "panic " + msg
		}
	}()
	return r.Step(toks, raw)
}
