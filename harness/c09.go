package main

import (
	"bufio"
	"errors"
	"fmt"
	"reflect"
	"sort"
	"strings"

	"github.com/specterops/dawgs/cypher/frontend"
	"github.com/specterops/dawgs/cypher/models/cypher"
	"github.com/specterops/dawgs/cypher/models/pgsql"
)

// C09: the default parse context admits read-only queries only.
// Op line: q <json string>. Answer:
//   acc=<0|1> syn=<n> upd=<n> proc=<n> param=<n> unsup=[names] other=<n> model_upd=<0|1> dml=<0|1|-> tree=<sexp>
type c09Suite struct{}

func init() { register("c09", c09Suite{}) }

var c09Insertions = []string{
	"CREATE (zz:NodeKind1)", "CREATE (zz)-[:EdgeKind1]->(yy)", "MERGE (zz:NodeKind1 {name: 'x'})",
	"MERGE (zz:NodeKind1) ON CREATE SET zz.a = 1 ON MATCH SET zz.b = 2",
	"SET n.prop = 1", "SET n:NodeKind2", "SET n += {a: 1}", "REMOVE n.prop", "REMOVE n:NodeKind1", "DELETE n", "DETACH DELETE n",
	"FOREACH (x IN [1,2] | CREATE (:NodeKind1 {v: x}))", "CREATE UNIQUE (n)-[:EdgeKind1]->(zz)",
	"CALL db.labels()", "CALL db.labels() YIELD label", "CALL db.labels", "CALL { MATCH (m) RETURN m }",
}

var c09Standalone = []string{
	// rejected by a method of the ACTIVE visitor (AtomVisitor.EnterOC_ShortestPathPattern), not by BaseVisitor
	"MATCH (a), (b) RETURN shortestPath((a)-[*]->(b))", "MATCH (a), (b) WHERE length(allShortestPaths((a)-[*..3]->(b))) > 1 RETURN a",
	"MATCH p = shortestPath((a)-[*]->(b)) RETURN p",
	// chained property lookups in SET / REMOVE (reported by PropertyExpressionVisitor from the second lookup on once hooks/C07-fix5.patch is in)
	"MATCH (n) SET n.a.b = 1", "MATCH (n) REMOVE n.a.b", "MATCH (n) SET n.a.b.c = 1, n.x.y = 2, n.z = 3", "MATCH (n) WITH n SET n.a.b = n.c.d RETURN n.e.f",
	"CALL db.labels()", "CALL db.labels", "CALL db.labels() YIELD label RETURN label", "CALL dbms.procedures() YIELD name, signature",
	"CREATE INDEX ON :Person(name)", "DROP INDEX ON :Person(name)", "CREATE CONSTRAINT ON (p:Person) ASSERT p.name IS UNIQUE",
	"DROP CONSTRAINT ON (p:Person) ASSERT p.name IS UNIQUE", "CREATE CONSTRAINT ON (p:Person) ASSERT exists(p.name)",
	"CREATE CONSTRAINT ON ()-[r:KNOWS]-() ASSERT exists(r.since)",
	"USING PERIODIC COMMIT 500 LOAD CSV FROM 'file:///x.csv' AS line CREATE (:Person {name: line[0]})",
	"LOAD CSV FROM 'file:///x.csv' AS line CREATE (:Person {name: line[0]})",
	"MATCH (n) WHERE n.name = $name RETURN n", "MATCH (n) WHERE n.name = {name} RETURN n", "MATCH (n {name: $p}) RETURN n",
	"MATCH (n) RETURN n SKIP $s LIMIT $l", "MATCH (n) WHERE id(n) IN $ids RETURN n", "RETURN $x", "UNWIND $list AS x RETURN x",
	"MATCH (n)-[*1..$k]->(m) RETURN m", "START n=node(1) RETURN n", "EXPLAIN MATCH (n) RETURN n", "PROFILE MATCH (n) RETURN n",
	"MATCH (n) RETURN n UNION MATCH (m) RETURN m", "MATCH (n) RETURN n UNION ALL MATCH (m) CREATE (q) RETURN m",
}

// clause keywords before which an updating clause / CALL may be inserted
var c09Keywords = []string{"match", "optional match", "with", "return", "unwind", "where", "order by"}

func c09Mutations(rng *Rng, q string, max int) []string {
	lower := strings.ToLower(q)
	var positions []int
	for _, kw := range c09Keywords {
		for off := 0; ; {
			i := strings.Index(lower[off:], kw+" ")
			if i < 0 {
				break
			}
			p := off + i
			if p == 0 || lower[p-1] == ' ' {
				positions = append(positions, p)
			}
			off = p + len(kw)
		}
	}
	positions = append(positions, len(q))
	sort.Ints(positions)
	var out []string
	seen := map[string]bool{}
	try := func(s string) {
		if !seen[s] {
			seen[s] = true
			out = append(out, s)
		}
	}
	for i := 0; i < max; i++ {
		p := positions[rng.Intn(len(positions))]
		ins := Pick(rng, c09Insertions)
		try(strings.TrimSpace(q[:p] + " " + ins + " " + q[p:]))
	}
	// parameter substitutions: replace a string or number literal by $p / {p}
	for i := 0; i < 2; i++ {
		if j := strings.Index(q, "'"); j >= 0 {
			if k := strings.Index(q[j+1:], "'"); k >= 0 {
				try(q[:j] + Pick(rng, []string{"$p0", "{p0}", "$`odd name`"}) + q[j+k+2:])
			}
		}
	}
	return out
}

func (c09Suite) Gen(rng *Rng, tier string, w *bufio.Writer, stats *Stats) {
	corpus := LoadCypherCorpus()
	n := 0
	emit := func(tag, q string) {
		n++
		fmt.Fprintf(w, "# case %d %s\n", n, tag)
		fmt.Fprintf(w, "q %s\n", jsonQuote(q))
	}
	for _, q := range c09Standalone {
		emit("standalone", q)
		stats.Inc("standalone")
	}
	per := 2
	if tier == "thorough" {
		per = 12
	}
	for _, c := range corpus {
		emit("corpus:"+c.Source, c.Query)
		stats.Inc("corpus")
		for _, m := range c09Mutations(rng, c.Query, per) {
			emit("mut:"+c.Source, m)
			stats.Inc("mutants")
		}
	}
}

type c09Runner struct {
	stats  *Stats
	mapper pgsql.KindMapper
}

func (c09Suite) NewRunner(stats *Stats) Runner { return &c09Runner{stats: stats, mapper: newHarnessKindMapper()} }

func flattenErrs(err error) []error {
	if err == nil {
		return nil
	}
	if j, ok := err.(interface{ Unwrap() []error }); ok {
		var out []error
		for _, e := range j.Unwrap() {
			out = append(out, flattenErrs(e)...)
		}
		return out
	}
	return []error{err}
}

func (r *c09Runner) Step(t []string, raw string) string {
	if len(t) < 2 || t[0] != "q" {
		return "bad-op"
	}
	q, ok := jsonUnquote(strings.TrimSpace(strings.TrimPrefix(strings.TrimSpace(raw), "q")))
	if !ok {
		return "bad-op"
	}
	model, err := frontend.ParseCypher(frontend.DefaultCypherContext(), q)
	var syn, upd, proc, param, other int
	var unsup []string
	for _, e := range flattenErrs(err) {
		var se frontend.SyntaxError
		var sep *frontend.SyntaxError
		switch {
		case errors.Is(e, frontend.ErrUpdateClauseNotSupported):
			upd++
		case errors.Is(e, frontend.ErrProcedureInvocationNotSupported):
			proc++
		case errors.Is(e, frontend.ErrUserSpecifiedParametersNotSupported):
			param++
		case errors.As(e, &se):
			if strings.HasSuffix(se.Message, " rule is not supported") {
				unsup = append(unsup, strings.TrimSuffix(se.Message, " rule is not supported"))
			} else {
				other++
			}
		case errors.As(e, &sep):
			syn++
		default:
			other++
		}
	}
	sort.Strings(unsup)
	acc := 0
	if err == nil {
		acc = 1
		r.stats.Inc("accepted")
	} else {
		r.stats.Inc("rejected")
	}
	modelUpd, dml := "-", "-"
	if err == nil && model != nil {
		modelUpd = "0"
		if modelHasUpdating(model) {
			modelUpd = "1"
		}
		res, terr, panicked := translateSafe(model, r.mapper, nil)
		switch {
		case panicked != "":
			dml = "panic"
			r.stats.Inc("translate_panic")
		case terr != nil:
			dml = "err"
			r.stats.Inc("translate_err")
		default:
			dml = "0"
			if containsDML(reflect.ValueOf(res.Statement), map[uintptr]bool{}, 0) {
				dml = "1"
			}
			r.stats.Inc("translated")
		}
	}
	// typed leaves: the model walks the tree with the listener model of C08 (guards look at the node's tokens)
	tree, nsyn := antlrTreeTyped(q)
	_ = nsyn
	// context lifecycle: a default context that is no longer the most recently created one must filter too
	older := frontend.DefaultCypherContext()
	_ = frontend.DefaultCypherContext()
	accOld := 0
	if _, errOld := frontend.ParseCypher(older, q); errOld == nil {
		accOld = 1
	}
	// ... and a default context that is used for a second parse must still filter (no state may make it laxer)
	reused := frontend.DefaultCypherContext()
	_, _ = frontend.ParseCypher(reused, "match (zz) delete zz")
	accReuse := 0
	if _, errReuse := frontend.ParseCypher(reused, q); errReuse == nil {
		accReuse = 1
	}
	// ... also when the caller has emptied the exported Errors slice between two parses (the documented way to reuse a
	// context): whatever the context remembers privately about errors it has already reported must not swallow the
	// report for the next query (seed C09-r6-2). The same query twice is the worst case for any de-duplication.
	cleared := frontend.DefaultCypherContext()
	_, _ = frontend.ParseCypher(cleared, q)
	cleared.Errors = nil
	if _, errCleared := frontend.ParseCypher(cleared, q); errCleared == nil && acc == 0 {
		accReuse = 1
		r.stats.Inc("reuse_after_clearing_errors_accepts")
	}
	if accReuse == 1 && accOld == 0 {
		accOld = 1 // reported through the same field: some non-fresh default context accepted the query
	}
	return fmt.Sprintf("acc=%d acc_old=%d syn=%d upd=%d proc=%d param=%d unsup=[%s] other=%d model_upd=%s dml=%s tree=%s",
		acc, accOld, syn, upd, proc, param, strings.Join(unsup, ","), other, modelUpd, dml, tree)
}

func modelHasUpdating(q *cypher.RegularQuery) bool {
	return containsType(reflect.ValueOf(q), map[uintptr]bool{}, 0, func(t reflect.Type) bool {
		switch t.Name() {
		case "UpdatingClause", "Create", "Delete", "Set", "Remove", "Merge":
			return t.PkgPath() == "github.com/specterops/dawgs/cypher/models/cypher"
		}
		return false
	})
}

func containsDML(v reflect.Value, seen map[uintptr]bool, depth int) bool {
	return containsType(v, seen, depth, func(t reflect.Type) bool {
		switch t.Name() {
		case "Insert", "Update", "Delete", "Merge":
			return t.PkgPath() == "github.com/specterops/dawgs/cypher/models/pgsql"
		}
		return false
	})
}

// containsType walks any value graph by reflection looking for a non-nil value of a matching type.
func containsType(v reflect.Value, seen map[uintptr]bool, depth int, match func(reflect.Type) bool) bool {
	if !v.IsValid() || depth > 200 {
		return false
	}
	switch v.Kind() {
	case reflect.Pointer, reflect.Interface:
		if v.IsNil() {
			return false
		}
		if v.Kind() == reflect.Pointer {
			if seen[v.Pointer()] {
				return false
			}
			seen[v.Pointer()] = true
		}
		return containsType(v.Elem(), seen, depth+1, match)
	case reflect.Struct:
		if match(v.Type()) {
			return true
		}
		for i := 0; i < v.NumField(); i++ {
			if containsType(v.Field(i), seen, depth+1, match) {
				return true
			}
		}
	case reflect.Slice, reflect.Array:
		for i := 0; i < v.Len(); i++ {
			if containsType(v.Index(i), seen, depth+1, match) {
				return true
			}
		}
	case reflect.Map:
		it := v.MapRange()
		for it.Next() {
			if containsType(it.Value(), seen, depth+1, match) {
				return true
			}
		}
	}
	return false
}
