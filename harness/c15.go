package main

import (
	"bufio"
	"context"
	"fmt"
	"io"
	"log/slog"
	"sort"
	"strconv"
	"strings"

	"github.com/specterops/dawgs/algo"
	"github.com/specterops/dawgs/cache"
	"github.com/specterops/dawgs/cardinality"
	"github.com/specterops/dawgs/container"
	"github.com/specterops/dawgs/graph"
)

// C15: algo/scc.go + algo/reach.go against the Lean model Dawgs.C15.
//
// Line protocol (one answer line per op line):
//
//	graph <cap> <tok>...   tok = "v" (AddNode v) | "u>v" (AddEdge u v), CSR builder, in order  -> ok n=<nodes> k=<components>
//	mode current|fixed     selects the DFS variant in the Lean model; the implementation answers ok
//	scc                    -> [[..],[..]]  components in emission order, members sorted
//	canreach u v <dir>     -> 0|1
//	reach u <dir>          -> [..]         ReachOfComponentContainingMember, sorted
//	reachslice u <dir>     -> [[..],..]|nil ReachSliceOfComponentContainingMember
//	orreach u <dir> <set>  -> [..]         set = a,b,c | -
//	xorreach u <dir> <set> -> [..]
//	stats                  -> size= hits= misses= cap=   (combined inbound+outbound cache statistics)
//	mutate                 -> ok   caller-side probe: every bitmap the implementation has handed out so far (ReachOf… results)
//	                               and every accumulator passed to OrReach/XorReach is cleared and refilled with junk; the
//	                               answers that follow must not change (results are fresh values, nothing is retained)
//
// dir = in | out | both.

type c15Suite struct{}

func init() { register("c15", c15Suite{}) }

// ---------------------------------------------------------------- generator

type c15Graph struct {
	toks  []string
	ids   []uint64 // sorted
	order []uint64 // generator's index order (for the DAG families: a topological order)
}

func c15ID(style int, i int) uint64 {
	switch style {
	case 1:
		return uint64(i*7 + 3)
	case 2:
		return uint64(i) + (uint64(i%2) << 32) + 1
	default:
		return uint64(i)
	}
}

// c15GenGraph draws one digraph of at most maxN nodes from one of the structured families.
func c15GenGraph(rng *Rng, maxN int, stats *Stats) c15Graph {
	n := 1 + rng.Intn(maxN)
	style := 0
	if rng.Chance(1, 8) {
		style = 1 + rng.Intn(2)
	}
	perm := make([]int, n)
	for i := range perm {
		perm[i] = i
	}
	for i := n - 1; i > 0; i-- {
		j := rng.Intn(i + 1)
		perm[i], perm[j] = perm[j], perm[i]
	}
	id := func(i int) uint64 { return c15ID(style, perm[i]) }
	type edge struct{ u, v int }
	var edges []edge
	family := rng.Intn(6)
	switch family {
	case 0: // G(n,p)
		den := 2 + rng.Intn(5)
		for u := 0; u < n; u++ {
			for v := 0; v < n; v++ {
				if u != v && rng.Chance(1, den) {
					edges = append(edges, edge{u, v})
				}
			}
		}
		stats.Inc("gen.family.gnp")
	case 1, 2: // DAG with many diamonds: u -> v only for u < v, dense
		den := 2 + rng.Intn(2)
		for u := 0; u < n; u++ {
			for v := u + 1; v < n; v++ {
				if rng.Chance(1, den) {
					edges = append(edges, edge{u, v})
				}
			}
		}
		stats.Inc("gen.family.dag")
	case 3: // blocks (cycles) joined by forward edges
		block := make([]int, n)
		nb := 1 + rng.Intn(n)
		for i := range block {
			block[i] = rng.Intn(nb)
		}
		for b := 0; b < nb; b++ {
			var members []int
			for i, bi := range block {
				if bi == b {
					members = append(members, i)
				}
			}
			for i := range members {
				if len(members) > 1 {
					edges = append(edges, edge{members[i], members[(i+1)%len(members)]})
				}
			}
		}
		for u := 0; u < n; u++ {
			for v := 0; v < n; v++ {
				if block[u] < block[v] && rng.Chance(1, 3) {
					edges = append(edges, edge{u, v})
				}
			}
		}
		stats.Inc("gen.family.blocks")
	case 4: // layered DAG
		layers := 2 + rng.Intn(3)
		layer := make([]int, n)
		for i := range layer {
			layer[i] = rng.Intn(layers)
		}
		for u := 0; u < n; u++ {
			for v := 0; v < n; v++ {
				if layer[u]+1 == layer[v] && rng.Chance(2, 3) {
					edges = append(edges, edge{u, v})
				} else if layer[u]+2 == layer[v] && rng.Chance(1, 4) {
					edges = append(edges, edge{u, v})
				}
			}
		}
		stats.Inc("gen.family.layered")
	default: // random walk edges with repeats, self loops, antiparallel pairs
		m := rng.Intn(2*n + 2)
		for i := 0; i < m; i++ {
			u, v := rng.Intn(n), rng.Intn(n)
			edges = append(edges, edge{u, v})
			if rng.Chance(1, 5) {
				edges = append(edges, edge{v, u})
			}
			if rng.Chance(1, 6) {
				edges = append(edges, edge{u, v})
			}
		}
		stats.Inc("gen.family.multi")
	}
	// shuffle edges
	for i := len(edges) - 1; i > 0; i-- {
		j := rng.Intn(i + 1)
		edges[i], edges[j] = edges[j], edges[i]
	}
	g := c15Graph{}
	explicitNodes := rng.Chance(2, 3)
	if explicitNodes {
		for i := 0; i < n; i++ {
			g.toks = append(g.toks, strconv.FormatUint(id(i), 10))
		}
	}
	for _, e := range edges {
		g.toks = append(g.toks, fmt.Sprintf("%d>%d", id(e.u), id(e.v)))
	}
	if !explicitNodes && len(edges) == 0 {
		g.toks = append(g.toks, strconv.FormatUint(id(0), 10))
	}
	seen := map[uint64]bool{}
	for i := 0; i < n; i++ {
		if explicitNodes {
			seen[id(i)] = true
		}
	}
	for _, e := range edges {
		seen[id(e.u)] = true
		seen[id(e.v)] = true
	}
	if !explicitNodes && len(edges) == 0 {
		seen[id(0)] = true
	}
	for v := range seen {
		g.ids = append(g.ids, v)
	}
	sort.Slice(g.ids, func(i, j int) bool { return g.ids[i] < g.ids[j] })
	for i := 0; i < n; i++ {
		if seen[id(i)] {
			g.order = append(g.order, id(i))
		}
	}
	return g
}

var c15Dirs = []string{"in", "out", "both"}

func c15Set(rng *Rng, ids []uint64) string {
	var parts []string
	for _, v := range ids {
		if rng.Chance(1, 3) {
			parts = append(parts, strconv.FormatUint(v, 10))
		}
	}
	if rng.Chance(1, 6) {
		parts = append(parts, "99")
	}
	if len(parts) == 0 {
		return "-"
	}
	return strings.Join(parts, ",")
}

// c15Script draws 6..12 mixed queries; one direction is favoured so that cache entries written by one
// query are read by a later one. `mutate` probes are sprinkled in (they do not count as queries).
func c15Script(rng *Rng, ids []uint64, stats *Stats) []string {
	length := 6 + rng.Intn(7)
	fav := c15Dirs[rng.Intn(2)]
	pickDir := func() string {
		switch x := rng.Intn(20); {
		case x < 12:
			return fav
		case x < 15:
			if fav == "in" {
				return "out"
			}
			return "in"
		case x < 17:
			return "both"
		default:
			return c15Dirs[rng.Intn(2)]
		}
	}
	pickNode := func() uint64 {
		if rng.Chance(1, 25) {
			return 77
		}
		return ids[rng.Intn(len(ids))]
	}
	ops := make([]string, 0, length)
	for i := 0; i < length; i++ {
		switch x := rng.Intn(20); {
		case x < 9:
			ops = append(ops, fmt.Sprintf("reach %d %s", pickNode(), pickDir()))
		case x < 13:
			ops = append(ops, fmt.Sprintf("canreach %d %d %s", pickNode(), pickNode(), pickDir()))
		case x < 15:
			ops = append(ops, fmt.Sprintf("reachslice %d %s", pickNode(), pickDir()))
		case x < 17:
			ops = append(ops, fmt.Sprintf("orreach %d %s %s", pickNode(), pickDir(), c15Set(rng, ids)))
		case x < 19:
			ops = append(ops, fmt.Sprintf("xorreach %d %s %s", pickNode(), pickDir(), c15Set(rng, ids)))
		default:
			ops = append(ops, "stats")
		}
		if rng.Chance(1, 5) {
			ops = append(ops, "mutate")
		}
	}
	return ops
}

// c15SweepScript asks the DFS-backed entry points for EVERY node in one direction, in insertion order or its
// reverse (for the DAG families that is ancestors-before-descendants or the opposite), then re-asks a few of them:
// a reach set cached while answering an ancestor is read back by the query for the descendant. This is the history
// shape behind F5 and its relatives (a cursor cut by the shared visited set that is cached anyway).
func c15SweepScript(rng *Rng, order []uint64, ids []uint64, stats *Stats) []string {
	d := c15Dirs[rng.Intn(2)]
	seq := append([]uint64(nil), order...)
	if rng.Bool() {
		for i, j := 0, len(seq)-1; i < j; i, j = i+1, j-1 {
			seq[i], seq[j] = seq[j], seq[i]
		}
	}
	if len(seq) > 10 {
		seq = seq[:10]
	}
	ask := func(v uint64) string {
		switch x := rng.Intn(10); {
		case x < 6:
			return fmt.Sprintf("reach %d %s", v, d)
		case x < 7:
			return fmt.Sprintf("reachslice %d %s", v, d)
		case x < 9:
			return fmt.Sprintf("orreach %d %s %s", v, d, c15Set(rng, ids))
		default:
			return fmt.Sprintf("xorreach %d %s %s", v, d, c15Set(rng, ids))
		}
	}
	var ops []string
	for _, v := range seq {
		ops = append(ops, ask(v))
		if rng.Chance(1, 6) {
			ops = append(ops, "mutate")
		}
	}
	extra := 2 + rng.Intn(3)
	for len(seq) < 6 && extra < 6-len(seq) {
		extra++
	}
	for i := 0; i < extra; i++ {
		v := ids[rng.Intn(len(ids))]
		if rng.Chance(1, 4) {
			ops = append(ops, fmt.Sprintf("canreach %d %d %s", v, ids[rng.Intn(len(ids))], d))
		} else {
			ops = append(ops, ask(v))
		}
	}
	stats.Inc("gen.script.sweep")
	return ops
}

func (c15Suite) Gen(rng *Rng, tier string, w *bufio.Writer, stats *Stats) {
	caseNo := 0
	emit := func(kind string, capacity int, g c15Graph, script []string) {
		caseNo++
		fmt.Fprintf(w, "# case %d %s cap=%d\n", caseNo, kind, capacity)
		fmt.Fprintf(w, "graph %d %s\n", capacity, strings.Join(g.toks, " "))
		fmt.Fprintln(w, "scc")
		for _, o := range script {
			fmt.Fprintln(w, o)
		}
		fmt.Fprintln(w, "stats")
	}
	caps := []int{1, 2, 3, 8}
	maxN, n := 7, 1500
	if tier == "thorough" {
		maxN, n = 10, 40000
	}
	for i := 0; i < n; i++ {
		g := c15GenGraph(rng, maxN, stats)
		capacity := caps[rng.Intn(len(caps))]
		if rng.Chance(1, 40) {
			capacity = Pick(rng, []int{0, -2})
		}
		if rng.Chance(1, 3) {
			emit("random-sweep", capacity, g, c15SweepScript(rng, g.order, g.ids, stats))
		} else {
			emit("random", capacity, g, c15Script(rng, g.ids, stats))
		}
		stats.Inc("random_cases")
	}
	// every DAG on 5 nodes (edges u -> v for u < v in a per-graph random labelling), swept in one direction: the
	// smallest scope that contains "a cut cursor that still receives an exact child" (5 components)
	dagCaps := []int{2, 8}
	if tier == "thorough" {
		dagCaps = caps
	}
	for mask := 0; mask < (1 << 10); mask++ {
		label := []int{0, 1, 2, 3, 4}
		for i := 4; i > 0; i-- {
			j := rng.Intn(i + 1)
			label[i], label[j] = label[j], label[i]
		}
		g := c15Graph{}
		for i := 0; i < 5; i++ {
			g.ids = append(g.ids, uint64(i))
			g.order = append(g.order, uint64(label[i]))
		}
		if mask%2 == 0 { // explicit nodes in id order, else insertion order = first appearance in the edge list
			for i := 0; i < 5; i++ {
				g.toks = append(g.toks, strconv.Itoa(i))
			}
		}
		b := 0
		var etoks []string
		for u := 0; u < 5; u++ {
			for v := u + 1; v < 5; v++ {
				if mask&(1<<b) != 0 {
					etoks = append(etoks, fmt.Sprintf("%d>%d", label[u], label[v]))
				}
				b++
			}
		}
		for i := len(etoks) - 1; i > 0; i-- {
			j := rng.Intn(i + 1)
			etoks[i], etoks[j] = etoks[j], etoks[i]
		}
		g.toks = append(g.toks, etoks...)
		if len(g.toks) == 0 {
			g.toks = []string{"0"}
		}
		// nodes that never appear are not part of the graph
		present := map[uint64]bool{}
		if mask%2 == 0 {
			for i := 0; i < 5; i++ {
				present[uint64(i)] = true
			}
		}
		for _, t := range g.toks {
			for _, part := range strings.Split(t, ">") {
				v, _ := strconv.ParseUint(part, 10, 64)
				present[v] = true
			}
		}
		var ids, order []uint64
		for _, v := range g.ids {
			if present[v] {
				ids = append(ids, v)
			}
		}
		for _, v := range g.order {
			if present[v] {
				order = append(order, v)
			}
		}
		g.ids, g.order = ids, order
		for _, capacity := range dagCaps {
			emit("dag5", capacity, g, c15SweepScript(rng, g.order, g.ids, stats))
			stats.Inc("exhaustive_cases")
		}
		stats.Inc("exhaustive_dags_n5")
	}
	// exhaustive small scope: every digraph (self loops included) on <= maxE nodes, node ids 0..n-1 added
	// explicitly in order; capacities: all of {1,2,3,8} up to 3 nodes, rotating pair for 4 nodes.
	maxE := 3
	if tier == "thorough" {
		maxE = 4
	}
	for nn := 1; nn <= maxE; nn++ {
		slots := nn * nn
		for mask := 0; mask < (1 << slots); mask++ {
			g := c15Graph{}
			for i := 0; i < nn; i++ {
				g.toks = append(g.toks, strconv.Itoa(i))
				g.ids = append(g.ids, uint64(i))
			}
			for b := 0; b < slots; b++ {
				if mask&(1<<b) != 0 {
					g.toks = append(g.toks, fmt.Sprintf("%d>%d", b/nn, b%nn))
				}
			}
			cs := caps
			if nn == 4 {
				cs = []int{caps[mask%2], caps[2+(mask/2)%2]}
			}
			g.order = g.ids
			for ci, capacity := range cs {
				if (mask+ci)%3 == 0 {
					emit(fmt.Sprintf("all%d-sweep", nn), capacity, g, c15SweepScript(rng, g.order, g.ids, stats))
				} else {
					emit(fmt.Sprintf("all%d", nn), capacity, g, c15Script(rng, g.ids, stats))
				}
				stats.Inc("exhaustive_cases")
			}
			stats.Inc(fmt.Sprintf("exhaustive_graphs_n%d", nn))
		}
	}
}

// ---------------------------------------------------------------- runner

type c15Runner struct {
	stats   *Stats
	digraph container.DirectedGraph
	rc      *algo.ReachabilityCache
	shadow  *c15Shadow
	n       int
	handed  []cardinality.Duplex[uint64] // every bitmap handed out by / passed to the implementation since the last mutate
}

func (c15Suite) NewRunner(stats *Stats) Runner {
	// algo logs two slog lines per SCC run; silence them (they would dominate the captured output)
	slog.SetDefault(slog.New(slog.NewTextHandler(io.Discard, nil)))
	return &c15Runner{stats: stats}
}

func (r *c15Runner) countDir(d graph.Direction) {
	switch d {
	case graph.DirectionInbound:
		r.stats.Inc("dir.in")
	case graph.DirectionOutbound:
		r.stats.Inc("dir.out")
	default:
		r.stats.Inc("dir.both")
	}
}

func c15Dir(s string) (graph.Direction, bool) {
	switch s {
	case "in":
		return graph.DirectionInbound, true
	case "out":
		return graph.DirectionOutbound, true
	case "both":
		return graph.DirectionBoth, true
	}
	return 0, false
}

func c15List(xs []uint64) string {
	ys := append([]uint64(nil), xs...)
	sort.Slice(ys, func(i, j int) bool { return ys[i] < ys[j] })
	parts := make([]string, len(ys))
	for i, v := range ys {
		parts[i] = strconv.FormatUint(v, 10)
	}
	return "[" + strings.Join(parts, ",") + "]"
}

func c15ParseSet(s string) (cardinality.Duplex[uint64], bool) {
	d := cardinality.NewBitmap64()
	if s == "-" {
		return d, true
	}
	for _, p := range strings.Split(s, ",") {
		v, err := strconv.ParseUint(p, 10, 64)
		if err != nil {
			return nil, false
		}
		d.Add(v)
	}
	return d, true
}

func (r *c15Runner) Step(t []string, raw string) string {
	ctx := context.Background()
	switch {
	case len(t) >= 2 && t[0] == "graph":
		capacity, err := strconv.Atoi(t[1])
		if err != nil {
			return "bad-op"
		}
		b := container.NewCSRDigraphBuilder()
		for _, tok := range t[2:] {
			if i := strings.IndexByte(tok, '>'); i >= 0 {
				u, e1 := strconv.ParseUint(tok[:i], 10, 64)
				v, e2 := strconv.ParseUint(tok[i+1:], 10, 64)
				if e1 != nil || e2 != nil {
					return "bad-op"
				}
				b.AddEdge(u, v)
			} else {
				v, e1 := strconv.ParseUint(tok, 10, 64)
				if e1 != nil {
					return "bad-op"
				}
				b.AddNode(v)
			}
		}
		r.digraph = b.Build()
		r.n = int(r.digraph.NumNodes())
		r.rc = algo.NewReachabilityCache(ctx, r.digraph, capacity)
		r.shadow = newC15Shadow(ctx, r.digraph, capacity, r.stats)
		r.handed = nil
		switch {
		case capacity <= 0:
			r.stats.Inc("branch.capacity.clamped")
		case capacity < r.shadow.k:
			r.stats.Inc("branch.capacity.below_components")
		default:
			r.stats.Inc("branch.capacity.holds_all")
		}
		return fmt.Sprintf("ok n=%d k=%d", r.n, r.shadow.k)
	case len(t) == 2 && t[0] == "mode":
		if t[1] != "current" && t[1] != "fixed" {
			return "bad-op"
		}
		return "ok"
	case r.rc == nil:
		return "bad-op"
	case len(t) == 1 && t[0] == "scc":
		comps, lookup := algo.StronglyConnectedComponents(ctx, r.digraph)
		parts := make([]string, len(comps))
		total := 0
		consistent := true
		for i, c := range comps {
			members := c.Slice()
			total += len(members)
			parts[i] = c15List(members)
			for _, m := range members {
				if ci, ok := lookup[m]; !ok || ci != uint64(i) {
					consistent = false
				}
			}
		}
		if total != len(lookup) {
			consistent = false
		}
		if len(comps) > 1 {
			r.stats.Inc("branch.scc.multi_component")
		}
		if len(comps) < r.n {
			r.stats.Inc("branch.scc.nontrivial_component")
		}
		out := "[" + strings.Join(parts, ",") + "]"
		if !consistent {
			out += " lookup-mismatch"
		}
		return out
	case len(t) == 4 && t[0] == "canreach":
		u, e1 := strconv.ParseUint(t[1], 10, 64)
		v, e2 := strconv.ParseUint(t[2], 10, 64)
		d, ok := c15Dir(t[3])
		if e1 != nil || e2 != nil || !ok {
			return "bad-op"
		}
		r.stats.Inc("op.canreach")
		r.countDir(d)
		if r.rc.CanReach(u, v, d) {
			r.stats.Inc("branch.canreach.true")
			return "1"
		}
		r.stats.Inc("branch.canreach.false")
		return "0"
	case len(t) == 3 && t[0] == "reach":
		u, e1 := strconv.ParseUint(t[1], 10, 64)
		d, ok := c15Dir(t[2])
		if e1 != nil || !ok {
			return "bad-op"
		}
		r.stats.Inc("op.reach")
		r.countDir(d)
		r.shadow.query(u, d)
		res := r.rc.ReachOfComponentContainingMember(u, d)
		r.handed = append(r.handed, res)
		return c15List(res.Slice())
	case len(t) == 3 && t[0] == "reachslice":
		u, e1 := strconv.ParseUint(t[1], 10, 64)
		d, ok := c15Dir(t[2])
		if e1 != nil || !ok {
			return "bad-op"
		}
		r.stats.Inc("op.reachslice")
		r.countDir(d)
		r.shadow.query(u, d)
		sl := r.rc.ReachSliceOfComponentContainingMember(u, d)
		if sl == nil {
			return "nil"
		}
		parts := make([]string, len(sl))
		for i, c := range sl {
			parts[i] = c15List(c.Slice())
		}
		return "[" + strings.Join(parts, ",") + "]"
	case len(t) == 4 && (t[0] == "orreach" || t[0] == "xorreach"):
		u, e1 := strconv.ParseUint(t[1], 10, 64)
		d, ok := c15Dir(t[2])
		set, ok2 := c15ParseSet(t[3])
		if e1 != nil || !ok || !ok2 {
			return "bad-op"
		}
		r.stats.Inc("op." + t[0])
		r.countDir(d)
		r.shadow.query(u, d)
		if t[0] == "orreach" {
			r.rc.OrReach(u, d, set)
		} else {
			r.rc.XorReach(u, d, set)
		}
		r.handed = append(r.handed, set)
		return c15List(set.Slice())
	case len(t) == 1 && t[0] == "mutate":
		// the caller edits every value it owns: results of ReachOf… and the accumulators of Or/XorReach
		for _, h := range r.handed {
			members := h.Slice()
			h.Clear()
			h.Add(424242, 7)
			for i, m := range members {
				if i%2 == 1 {
					h.Add(m + 1)
				}
			}
			r.stats.Inc("branch.mutate.bitmap_edited")
		}
		r.stats.Inc("op.mutate")
		r.handed = r.handed[:0]
		return "ok"
	case len(t) == 1 && t[0] == "stats":
		s := r.rc.Stats()
		return fmt.Sprintf("size=%d hits=%d misses=%d cap=%d", s.Size(), s.Hits(), s.Misses(), s.Capacity)
	}
	return "bad-op"
}

// ---------------------------------------------------------------- branch-counter shadow

// c15Shadow replays componentReachDFS (same traversal order, same SIEVE implementation) beside the real
// ReachabilityCache only to COUNT which code paths a query takes (cache hit, eviction, visited-neighbour
// skip, inexact cursor cached). Its answers are never compared with anything.
type c15Shadow struct {
	stats *Stats
	cg    algo.ComponentGraph
	k     int
	in    cache.Cache[uint64, cardinality.Duplex[uint64]]
	out   cache.Cache[uint64, cardinality.Duplex[uint64]]
	// per direction (0 in, 1 out): components completed as cut (inexact, hence uncached) cursors, components ever cached
	cutDone    [2]map[uint64]bool
	cachedOnce [2]map[uint64]bool
}

func newC15Shadow(ctx context.Context, g container.DirectedGraph, capacity int, stats *Stats) *c15Shadow {
	cg := algo.NewComponentGraph(ctx, g)
	return &c15Shadow{
		stats:      stats,
		cg:         cg,
		k:          int(cg.Digraph().NumNodes()),
		in:         cache.NewSieve[uint64, cardinality.Duplex[uint64]](capacity),
		out:        cache.NewSieve[uint64, cardinality.Duplex[uint64]](capacity),
		cutDone:    [2]map[uint64]bool{{}, {}},
		cachedOnce: [2]map[uint64]bool{{}, {}},
	}
}

type c15Cursor struct {
	comp     uint64
	adj      []uint64
	idx      int
	reach    cardinality.Duplex[uint64]
	ancestor *c15Cursor
	skipped  bool // cut by the shared visited set (directly or through a child): inexact
}

func (s *c15Shadow) cacheFor(d graph.Direction) cache.Cache[uint64, cardinality.Duplex[uint64]] {
	switch d {
	case graph.DirectionInbound:
		return s.in
	case graph.DirectionOutbound:
		return s.out
	}
	return nil
}

// query replays componentReachDFS (as repaired: cut cursors are not cached) and counts the paths taken.
func (s *c15Shadow) query(member uint64, d graph.Direction) {
	root, ok := s.cg.ContainingComponent(member)
	if !ok {
		s.stats.Inc("branch.reach.non_member")
		return
	}
	c := s.cacheFor(d)
	di := 0
	if d == graph.DirectionOutbound {
		di = 1
	}
	get := func(k uint64) (cardinality.Duplex[uint64], bool) {
		if c == nil {
			return nil, false
		}
		return c.Get(k)
	}
	put := func(cur *c15Cursor, isRoot bool) {
		if c == nil {
			return
		}
		if cur.skipped && !isRoot {
			s.stats.Inc("branch.reach.cut_cursor_completed")
			s.cutDone[di][cur.comp] = true
			return
		}
		if c.Stats().Size() >= int64(c.Stats().Capacity) {
			s.stats.Inc("branch.reach.eviction")
		}
		s.cachedOnce[di][cur.comp] = true
		c.Put(cur.comp, cur.reach)
	}
	if _, hit := get(root); hit {
		s.stats.Inc("branch.reach.root_cache_hit")
		if s.cutDone[di][root] {
			s.stats.Inc("branch.reach.cut_component_hit_after_requery")
		}
		return
	}
	s.stats.Inc("branch.reach.dfs")
	if c != nil && s.cutDone[di][root] {
		// the history shape of F5 and its relatives: a component that an earlier DFS completed as a cut cursor is now asked for
		s.stats.Inc("branch.reach.cut_component_requeried")
	}
	if c != nil && s.cachedOnce[di][root] {
		s.stats.Inc("branch.reach.evicted_component_requeried")
	}
	rootCur := &c15Cursor{comp: root, adj: container.AdjacentNodes(s.cg.Digraph(), root, d), reach: cardinality.NewBitmap64With(root)}
	stack := []*c15Cursor{rootCur}
	for len(stack) > 0 {
		cur := stack[len(stack)-1]
		if cur.idx >= len(cur.adj) {
			stack = stack[:len(stack)-1]
			if cur.ancestor != nil {
				cur.ancestor.reach.Or(cur.reach)
				if !cur.skipped && cur.ancestor.skipped && cur.ancestor != rootCur {
					// an exact child rolls up into an already cut non-root cursor (the flag must stay cleared)
					s.stats.Inc("branch.reach.exact_child_into_cut_cursor")
				}
			}
			put(cur, cur == rootCur)
			continue
		}
		next := cur.adj[cur.idx]
		cur.idx++
		if rootCur.reach.CheckedAdd(next) {
			if cached, hit := get(next); hit {
				s.stats.Inc("branch.reach.neighbour_cache_hit")
				if cur.skipped && cur != rootCur {
					s.stats.Inc("branch.reach.cache_hit_in_cut_cursor")
				}
				cur.reach.Or(cached)
			} else {
				adj := container.AdjacentNodes(s.cg.Digraph(), next, d)
				stack = append(stack, &c15Cursor{comp: next, adj: adj, reach: cardinality.NewBitmap64With(append(adj, next)...), ancestor: cur})
			}
		} else {
			s.stats.Inc("branch.reach.visited_skip")
			if cur != rootCur {
				s.stats.Inc("branch.reach.visited_skip_nonroot")
			}
			// an inexact cursor makes all its ancestors inexact as well
			for a := cur; a != nil; a = a.ancestor {
				a.skipped = true
			}
		}
	}
}
