package main

import (
	"bufio"
	"encoding/hex"
	"encoding/json"
	"fmt"
	"sort"
	"strconv"
	"strings"

	"github.com/specterops/dawgs/cypher/frontend"
	"github.com/specterops/dawgs/cypher/models/pgsql"
	"github.com/specterops/dawgs/cypher/models/pgsql/translate"
)

// C01: Cypher→PostgreSQL translation preserves read-query results.
// Op line:  q <json cypher> <gseed> <nrandom> <exN> <exE> [p=<hex of the JSON object of query parameters>]
// Answer:   ok km=(list ("NodeKind1" 1) …) params=<sexp of Result.Parameters> cy=<sexp of the parsed cypher model> sql=<json> stmt=<sexp of Result.Statement>
//           err <class>
// The graphs are inputs of the Lean side only (there is no database in the sandbox): the driver evaluates Cy.eval on each graph and
// Sql.eval on its encoding, for the fixed corner-case graphs, <nrandom> random graphs from <gseed> and all graphs ≤ exN nodes / ≤ exE edges.
type c01Suite struct{}

func init() { register("c01", c01Suite{}) }

// c01Fixed are hand-written queries around the translator's branch points (and the three F13 suspects).
var c01Fixed = []string{
	"match (n) return n",
	"match (n:NodeKind1) return n",
	"match (n:NodeKind1:NodeKind2) return n",
	"match (n) where n.name = 'x' return n",
	"match (n) where n.name <> 'x' return n",
	"match (n) where not n.name = 'x' return n.name",
	"match (n) where n.a = 1 return n",
	"match (n) where n.a > 1 return n",
	"match (n) where n.a >= 1 and n.b < 3 return n.a, n.b",
	"match (n) where n.a is null return n",
	"match (n) where n.a is not null return n.a",
	"match (n) where n.name starts with 'x' return n",
	"match (n) where n.name contains 'y' or n.name ends with 'y' return n.name",
	"match (n) where id(n) = 1 return n",
	"match (n) where id(n) in [0, 2] return id(n)",
	"match (n) where n.name in ['x', '1'] return n",
	"match (n) where n.f = true return n",
	"match (n) where n:NodeKind1 or n:NodeKind2 return n",
	"match (n) return n.name order by n.name",
	"match (n) return n.a order by n.a",
	"match (n) return n order by id(n) desc skip 1 limit 2",
	"match (n) return distinct n.name",
	"match (n) return n.name as nm, id(n) as i order by i",
	"optional match (n:NodeKind1) return n",
	"match (a)-[r]->(b) return a, r, b",
	"match (a)<-[r]-(b) return a, r, b",
	"match (a)-[r]-(b) return a, r, b",
	"match (a)-[r:EdgeKind1]->(b:NodeKind2) where a.name = 'x' return b",
	"match (a)-[r1]->(b)-[r2]->(c) return a, b, c",
	"match (a)-[r1]->(b)<-[r2]-(c) return r1, r2",
	"match (a)-[r1]->(b), (c)-[r2]->(d) return r1, r2",
	"match (a)-[r1]->(b) match (c)-[r2]->(d) return r1, r2",
	"match (a), (b) return a, b",
	"match (a)-[r]->(a) return a, r",
	"match (n) with n where n.a > 0 return n",
	"match (n) with n.name as nm return nm",
	"match (n) return count(n)",
	"match (n) return n.name, count(n)",
	"match (n) return collect(n.name)",
	"match (a)-[r]->(b) return a, count(b)",
	"unwind [1, 2, 3] as x return x",
	"match (n) unwind [1, 2] as x return n, x",
	"match (a)-[*1..2]->(b) return a, b",
	"match (a)-[*..3]->(b) return a, b",
	"match p = (a)-[*1..2]->(b) return p",
	"match p = (a)-[r]->(b) return p",
	"match (a)-[r*2..2]->(b) return a, b",
	"match (a) optional match (a)-[r]->(b) return a, b",
	"match (a) where (a)-[]->() return a",
	"match (a) where not (a)-[]->() return a",
	"match (a) where (a)--() return a",
	"match (a), (b) where (a)-[]->(b) return a, b",
	"match (n) where any(x in n.tags where x = 'x') return n",
	"match (n) where all(x in n.tags where x = 'x') return n",
	"match (n) where none(x in n.tags where x = 'x') return n",
	"match (n) where single(x in n.tags where x = 'x') return n",
	"match (n) where size(n.tags) > 0 return n",
	"match (n) return labels(n)",
	"match ()-[r]->() return type(r)",
	"match (n) where 'NodeKind1' in labels(n) return n",
}

func (c01Suite) Gen(rng *Rng, tier string, w *bufio.Writer, stats *Stats) {
	n := 0
	nrandom, exN, exE := 6, 0, 0
	perLevel := 60
	if tier == "thorough" {
		nrandom, perLevel = 30, 700
	}
	// focused cases take a constant graph seed, so that adding a family does not shift the random stream of the generated queries
	emitFixedSeed := func(tag, q string) {
		n++
		fmt.Fprintf(w, "# case %d %s\nq %s %d %d %d %d\n", n, tag, jsonQuote(q), 7, nrandom, 0, 0)
	}
	emit := func(tag, q string, exN, exE int) {
		n++
		fmt.Fprintf(w, "# case %d %s\nq %s %d %d %d %d\n", n, tag, jsonQuote(q), rng.Intn(1<<20), nrandom, exN, exE)
	}
	for _, q := range c01Fixed {
		if tier == "thorough" {
			emit("fixed", q, 3, 2)
		} else {
			emit("fixed", q, 2, 1)
		}
		stats.Inc("fixed")
	}
	for _, fam := range []struct {
		name string
		qs   []string
	}{{"suffix", focusedSuffixShapes()}, {"aggregate", focusedAggregateShapes()}, {"agg-traversal", focusedAggTraversalShapes()},
		{"collect-membership", focusedCollectMembershipShapes()}, {"path-predicate", focusedPathPredicateShapes()}, {"string-literal", focusedStringLiteralShapes()},
		{"sort-keyword", focusedSortKeywordShapes()}, {"exact-range", focusedExactRangeShapes()}, {"double-literal", focusedDoubleLiteralShapes()}, {"limit-boundary", focusedLimitBoundaryShapes()}, {"limit-tail-filter", focusedLimitTailFilterShapes()}} {
		for _, q := range fam.qs {
			emitFixedSeed("focused:"+fam.name, q)
			stats.Inc("focused." + fam.name)
		}
	}
	// pattern property maps given as PARAMETERS: the op line carries the parameter values (p=<hex JSON>), the translator gets them, the
	// reference reads the map they stand for
	for _, pq := range focusedParamMapShapes() {
		n++
		fmt.Fprintf(w, "# case %d focused:param-map\nq %s %d %d %d %d %s\n", n, jsonQuote(pq.q), 7, nrandom, 2, 1, paramsToken(pq.params))
		stats.Inc("focused.param-map")
	}
	for _, c := range LoadCypherCorpus() {
		if c.Negative || len(c.Params) > 0 {
			continue
		}
		emit("corpus:"+c.Source, c.Query, exN, exE)
		stats.Inc("corpus")
	}
	for level := 1; level <= 5; level++ {
		g := newCyGen(rng, level)
		count := perLevel
		if tier == "thorough" && level >= 4 {
			// levels 4-5 (expansions, OPTIONAL MATCH, quantifiers, multi-part pipelines) are the expensive ones for both evaluators
			// and the ones whose differences need manual triage: thorough widens the graph families more than the query shapes
			count = map[int]int{4: 250, 5: 120}[level]
		}
		for i := 0; i < count; i++ {
			q := g.Query()
			if tier == "thorough" && i%10 == 0 {
				emit(fmt.Sprintf("gen:L%d", level), q, 3, 2)
			} else {
				emit(fmt.Sprintf("gen:L%d", level), q, exN, exE)
			}
			stats.Inc("generated")
			for f := range g.feat {
				stats.Inc("feat." + f)
			}
		}
	}
}

type c01Runner struct {
	stats  *Stats
	mapper pgsql.KindMapper
}

func (c01Suite) NewRunner(stats *Stats) Runner {
	return &c01Runner{stats: stats, mapper: newHarnessKindMapper()}
}

// kindMapSexp renders the harness kind fixture (name → id) for the Lean side: ids are 1-based positions.
func kindMapSexp() string {
	var b strings.Builder
	b.WriteString("(list")
	for i, k := range harnessKinds {
		fmt.Fprintf(&b, " (%s %d)", jsonQuote(k), i+1)
	}
	b.WriteString(")")
	return b.String()
}

func paramsSexp(m map[string]any) string {
	keys := make([]string, 0, len(m))
	for k := range m {
		keys = append(keys, k)
	}
	sort.Strings(keys)
	var b strings.Builder
	b.WriteString("(map")
	for _, k := range keys {
		fmt.Fprintf(&b, " (%s %s)", jsonQuote(k), ToSexp(m[k]))
	}
	b.WriteString(")")
	return b.String()
}

// parseC01Op splits `q <json string> a b c d`.
func parseC01Op(raw string) (q string, nums []int, ok bool) {
	rest := strings.TrimSpace(strings.TrimPrefix(strings.TrimSpace(raw), "q"))
	// the JSON string ends at the first unescaped quote
	if !strings.HasPrefix(rest, "\"") {
		return "", nil, false
	}
	end := -1
	for i := 1; i < len(rest); i++ {
		if rest[i] == '\\' {
			i++
			continue
		}
		if rest[i] == '"' {
			end = i
			break
		}
	}
	if end < 0 {
		return "", nil, false
	}
	q, ok = jsonUnquote(rest[:end+1])
	if !ok {
		return "", nil, false
	}
	for _, t := range strings.Fields(rest[end+1:]) {
		if strings.HasPrefix(t, "p=") {
			continue // query parameters, see opParams
		}
		v, err := strconv.Atoi(t)
		if err != nil {
			return "", nil, false
		}
		nums = append(nums, v)
	}
	return q, nums, true
}

// opParams: the query parameters of an op line, given as a trailing token `p=<hex of a JSON object>` (hex: no quotes or spaces, so the
// positional fields of the line keep their place); integers stay integers.
func opParams(raw string) map[string]any {
	for _, t := range strings.Fields(raw) {
		if !strings.HasPrefix(t, "p=") {
			continue
		}
		b, err := hex.DecodeString(t[2:])
		if err != nil {
			return nil
		}
		dec := json.NewDecoder(strings.NewReader(string(b)))
		dec.UseNumber()
		var m map[string]any
		if dec.Decode(&m) != nil {
			return nil
		}
		return normParams(m).(map[string]any)
	}
	return nil
}

func normParams(v any) any {
	switch t := v.(type) {
	case map[string]any:
		out := map[string]any{}
		for k, x := range t {
			out[k] = normParams(x)
		}
		return out
	case []any:
		out := make([]any, len(t))
		for i, x := range t {
			out[i] = normParams(x)
		}
		return out
	case json.Number:
		if i, err := t.Int64(); err == nil {
			return i
		}
		f, _ := t.Float64()
		return f
	default:
		return v
	}
}

// paramsToken renders query parameters as the op-line token read by opParams.
func paramsToken(m map[string]any) string {
	b, _ := json.Marshal(m)
	return "p=" + hex.EncodeToString(b)
}

func (r *c01Runner) Step(t []string, raw string) string {
	if len(t) < 2 || t[0] != "q" {
		return "bad-op"
	}
	q, _, ok := parseC01Op(raw)
	if !ok {
		return "bad-op"
	}
	model, err := frontend.ParseCypher(frontend.NewContext(), q)
	if err != nil || model == nil {
		r.stats.Inc("parse_err")
		return "err parse"
	}
	if modelHasUpdating(model) {
		r.stats.Inc("updating")
		return "err updating-query"
	}
	params := opParams(raw)
	cy := refSexpP(q, model, params) // sort directions read from the text; parameter property maps read as the literal maps they stand for
	res, terr, panicked := translateSafe(model, r.mapper, params)
	if panicked != "" {
		r.stats.Inc("translate_panic")
		return "err translate-panic"
	}
	if terr != nil {
		r.stats.Inc("translate_err")
		return "err translate:" + errClass(terr)
	}
	if res.Statement == nil {
		return "err translate:nil-statement"
	}
	r.stats.Inc("translated")
	if _, _, outOfRange := rangesFromTextR(q); outOfRange {
		// a variable-length bound that is no int64: the reference refuses the query (harness/sortdir.go), the translator accepted it
		r.stats.Inc("range_bound_out_of_range_accepted")
		return "range-differs bound-out-of-range-accepted"
	}
	sql, ferr := translate.Translated(res)
	if ferr != nil {
		r.stats.Inc("format_err")
		return "err format"
	}
	if d := literalTie(res.Statement, sql); d != "" {
		// the text PostgreSQL gets does not say the numbers the statement holds (harness/littie.go)
		r.stats.Inc("literal_tie_differs")
		return "lit-differs " + d + " sql=" + jsonQuote(sql)
	}
	return fmt.Sprintf("ok km=%s params=%s cy=%s sql=%s stmt=%s", kindMapSexp(), paramsSexp(res.Parameters), cy, jsonQuote(sql), ToSexp(res.Statement))
}
