package main

import (
	"context"
	"fmt"
	"strings"

	"github.com/specterops/dawgs/cypher/models/cypher"
	"github.com/specterops/dawgs/cypher/models/pgsql"
	"github.com/specterops/dawgs/cypher/models/pgsql/translate"
	"github.com/specterops/dawgs/drivers/pg/pgutil"
	"github.com/specterops/dawgs/graph"
)

// harnessKinds mirrors the kind fixture of cypher/models/pgsql/test (so corpus cases translate).
var harnessKinds = []string{
	"NodeKind1", "NodeKind2", "EdgeKind1", "EdgeKind2",
	"User", "Group", "Computer", "Domain", "OU", "GPO", "Base", "Container", "AZBase", "AZUser", "AZGroup", "Person", "Male", "Movie",
	"MemberOf", "AdminTo", "HasSession", "Contains", "GPLink", "GenericAll", "GenericWrite", "Owns", "WriteOwner", "WriteDacl",
	"ForceChangePassword", "AllExtendedRights", "AddMember", "GetChanges", "GetChangesAll", "ReadLAPSPassword", "SQLAdmin",
	"TrustedBy", "WriteAccountRestrictions", "CanRDP", "CanPSRemote", "ExecuteDCOM", "AllowedToDelegate", "AllowedToAct", "HasSIDHistory",
	"DCSync", "SyncLAPSPassword", "Enroll", "ADCSESC1", "ACTED_IN", "DIRECTED", "KNOWS",
}

func newHarnessKindMapper() *pgutil.InMemoryKindMapper {
	m := pgutil.NewInMemoryKindMapper()
	for _, k := range harnessKinds {
		m.Put(graph.StringKind(k))
	}
	return m
}

// translateSafe runs the real translator under recover.
func translateSafe(q *cypher.RegularQuery, mapper pgsql.KindMapper, params map[string]any) (res translate.Result, err error, panicked string) {
	defer func() {
		if p := recover(); p != nil {
			panicked = strings.ReplaceAll(fmt.Sprint(p), "\n", " ")
		}
	}()
	res, err = translate.Translate(context.Background(), q, mapper, params, translate.DefaultGraphID)
	return
}
