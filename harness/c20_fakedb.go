package main

// Minimal in-memory graph.Database for the C20 suites (own types, prefix c20; another fake lives in
// fakedb.go for C18/C19). Supports exactly what retriever.Dump reads (keyset node / relationship
// scans, counts, per-graph scoping) and what retriever.Load calls (AssertSchema, counts,
// BatchOperation with correlated CreateNodes and CreateRelationshipByIDs). Every write ATTEMPT is
// appended to the mutation log, committed or not: the C20 oracle demands an empty log whenever Load
// reports an integrity failure.

import (
	"context"
	"encoding/json"
	"fmt"
	"sort"
	"strings"

	cypherModel "github.com/specterops/dawgs/cypher/models/cypher"
	"github.com/specterops/dawgs/graph"
)

type c20Graph struct {
	nodes []*graph.Node
	rels  []*graph.Relationship
}

type c20DB struct {
	graph.Database // nil: any method Dump/Load does not need panics (caught by the harness as `panic`)
	graphs         map[string]*c20Graph
	order          []string
	nextID         graph.ID
	mutations      []string // node / relationship write attempts
	schemaLog      []string // AssertSchema calls (not a node/edge write; reported separately)
	reads          int
}

func newC20DB() *c20DB { return &c20DB{graphs: map[string]*c20Graph{}, nextID: 1} }

func (s *c20DB) g(name string) *c20Graph {
	if g, ok := s.graphs[name]; ok {
		return g
	}
	g := &c20Graph{}
	s.graphs[name] = g
	s.order = append(s.order, name)
	return g
}

func (s *c20DB) SetWriteFlushSize(int) {}
func (s *c20DB) SetBatchWriteSize(int) {}

func (s *c20DB) ReadTransaction(_ context.Context, delegate graph.TransactionDelegate, _ ...graph.TransactionOption) error {
	s.reads++
	return delegate(&c20Tx{db: s, graph: "default"})
}

func (s *c20DB) AssertSchema(_ context.Context, schema graph.Schema) error {
	names := []string{}
	for _, g := range schema.Graphs {
		names = append(names, g.Name)
	}
	s.schemaLog = append(s.schemaLog, strings.Join(names, ","))
	return nil
}

func (s *c20DB) BatchOperation(_ context.Context, delegate graph.BatchDelegate, _ ...graph.BatchOption) error {
	return delegate(&c20Batch{db: s, graph: "default"})
}

func (s *c20DB) Close(context.Context) error { return nil }

type c20Tx struct {
	graph.Transaction
	db    *c20DB
	graph string
}

func (s *c20Tx) WithGraph(g graph.Graph) graph.Transaction {
	return &c20Tx{db: s.db, graph: g.Name}
}
func (s *c20Tx) Nodes() graph.NodeQuery { return &c20NodeQuery{g: s.db.g(s.graph)} }
func (s *c20Tx) Relationships() graph.RelationshipQuery {
	return &c20RelQuery{g: s.db.g(s.graph)}
}

type c20Cursor[T any] struct{ values chan T }

func newC20Cursor[T any](values []T) *c20Cursor[T] {
	c := make(chan T, len(values))
	for _, v := range values {
		c <- v
	}
	close(c)
	return &c20Cursor[T]{values: c}
}
func (s *c20Cursor[T]) Error() error { return nil }
func (s *c20Cursor[T]) Close()       {}
func (s *c20Cursor[T]) Chan() chan T { return s.values }

func c20AfterID(criteria graph.Criteria) graph.ID {
	comparison := criteria.(*cypherModel.Comparison)
	parameter := comparison.Partials[0].Right.(*cypherModel.Parameter)
	return parameter.Value.(graph.ID)
}

type c20NodeQuery struct {
	graph.NodeQuery
	g        *c20Graph
	after    graph.ID
	hasAfter bool
	limit    int
}

func (s *c20NodeQuery) Filter(criteria graph.Criteria) graph.NodeQuery {
	s.after, s.hasAfter = c20AfterID(criteria), true
	return s
}
func (s *c20NodeQuery) OrderBy(...graph.Criteria) graph.NodeQuery { return s }
func (s *c20NodeQuery) Limit(limit int) graph.NodeQuery           { s.limit = limit; return s }
func (s *c20NodeQuery) Count() (int64, error)                     { return int64(len(s.g.nodes)), nil }
func (s *c20NodeQuery) Fetch(delegate func(graph.Cursor[*graph.Node]) error, _ ...graph.Criteria) error {
	values := []*graph.Node{}
	for _, n := range s.g.nodes {
		if (!s.hasAfter || n.ID > s.after) && (s.limit <= 0 || len(values) < s.limit) {
			values = append(values, n)
		}
	}
	return delegate(newC20Cursor(values))
}

type c20RelQuery struct {
	graph.RelationshipQuery
	g        *c20Graph
	after    graph.ID
	hasAfter bool
	limit    int
}

func (s *c20RelQuery) Filter(criteria graph.Criteria) graph.RelationshipQuery {
	s.after, s.hasAfter = c20AfterID(criteria), true
	return s
}
func (s *c20RelQuery) OrderBy(...graph.Criteria) graph.RelationshipQuery { return s }
func (s *c20RelQuery) Limit(limit int) graph.RelationshipQuery           { s.limit = limit; return s }
func (s *c20RelQuery) Count() (int64, error)                             { return int64(len(s.g.rels)), nil }
func (s *c20RelQuery) Fetch(delegate func(graph.Cursor[*graph.Relationship]) error) error {
	values := []*graph.Relationship{}
	for _, r := range s.g.rels {
		if (!s.hasAfter || r.ID > s.after) && (s.limit <= 0 || len(values) < s.limit) {
			values = append(values, r)
		}
	}
	return delegate(newC20Cursor(values))
}

type c20Batch struct {
	graph.Batch
	db    *c20DB
	graph string
}

func (s *c20Batch) WithGraph(g graph.Graph) graph.Batch { return &c20Batch{db: s.db, graph: g.Name} }

// CreateNodes implements graph.NodeBatchCreator.
func (s *c20Batch) CreateNodes(nodes []*graph.Node) ([]graph.ID, error) {
	g := s.db.g(s.graph)
	ids := make([]graph.ID, len(nodes))
	for i, n := range nodes {
		id := s.db.nextID
		s.db.nextID++
		ids[i] = id
		g.nodes = append(g.nodes, graph.NewNode(id, n.Properties, n.Kinds...))
	}
	s.db.mutations = append(s.db.mutations, fmt.Sprintf("nodes %s %d", s.graph, len(nodes)))
	return ids, nil
}

func (s *c20Batch) CreateRelationshipByIDs(start, end graph.ID, kind graph.Kind, properties *graph.Properties) error {
	g := s.db.g(s.graph)
	id := s.db.nextID
	s.db.nextID++
	g.rels = append(g.rels, graph.NewRelationship(id, start, end, properties, kind))
	s.db.mutations = append(s.db.mutations, fmt.Sprintf("rel %s", s.graph))
	return nil
}

func (s *c20Batch) Commit() error { return nil }

// addNode / addRel populate a source database (not logged).
func (s *c20DB) addNode(graphName string, id graph.ID, props map[string]any, kinds ...string) {
	g := s.g(graphName)
	g.nodes = append(g.nodes, graph.NewNode(id, graph.AsProperties(props), graph.StringsToKinds(kinds)...))
	sort.Slice(g.nodes, func(i, j int) bool { return g.nodes[i].ID < g.nodes[j].ID })
}

func (s *c20DB) addRel(graphName string, id, start, end graph.ID, kind string, props map[string]any) {
	g := s.g(graphName)
	g.rels = append(g.rels, graph.NewRelationship(id, start, end, graph.AsProperties(props), graph.StringKind(kind)))
	sort.Slice(g.rels, func(i, j int) bool { return g.rels[i].ID < g.rels[j].ID })
}

// canonical renders the graphs up to the identifiers AND the creation order the database chose: a node is
// named by its (kinds, properties) rendering (the generator gives every node of a graph a unique `name`
// property), nodes are sorted, relationships are rendered by the names of their endpoints and sorted (a
// multiset: parallel relationships stay distinct lines). A manifest whose file entries were consistently
// reordered therefore still reproduces "the same graph"; any lost, added or changed entity does not.
func (s *c20DB) canonical() string {
	names := []string{}
	for name, g := range s.graphs {
		if len(g.nodes) > 0 || len(g.rels) > 0 {
			names = append(names, name)
		}
	}
	sort.Strings(names)
	var b strings.Builder
	for _, name := range names {
		g := s.graphs[name]
		key := map[graph.ID]string{}
		fmt.Fprintf(&b, "graph %s\n", name)
		lines := []string{}
		for _, n := range g.nodes {
			kinds := n.Kinds.Strings()
			sort.Strings(kinds)
			key[n.ID] = strings.Join(kinds, "|") + " " + c20JSON(n.Properties.MapOrEmpty())
			lines = append(lines, " n "+key[n.ID])
		}
		sort.Strings(lines)
		b.WriteString(strings.Join(lines, "\n") + "\n")
		lines = lines[:0]
		for _, r := range g.rels {
			kind := ""
			if r.Kind != nil {
				kind = r.Kind.String()
			}
			lines = append(lines, fmt.Sprintf(" e (%s)->(%s) %s %s", key[r.StartID], key[r.EndID], kind, c20JSON(r.Properties.MapOrEmpty())))
		}
		sort.Strings(lines)
		b.WriteString(strings.Join(lines, "\n") + "\n")
	}
	return b.String()
}

func c20JSON(v any) string {
	raw, err := json.Marshal(v)
	if err != nil {
		return "!" + err.Error()
	}
	// normalise through a generic decode so that int(5) and float64(5) print alike
	var generic any
	if err := json.Unmarshal(raw, &generic); err != nil {
		return "!" + err.Error()
	}
	out, _ := json.Marshal(generic)
	return string(out)
}

func graphID(v int) graph.ID { return graph.ID(v) }
