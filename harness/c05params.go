package main

import (
	"fmt"
	"reflect"
	"strings"
	"time"

	"github.com/specterops/dawgs/cypher/models/cypher"
	"github.com/specterops/dawgs/graph"
)

// Parameter VALUES by dynamic type. pgsql.ValueToDataType / anySliceType / NegotiateValue inspect the dynamic type of every
// parameter the query USES (a parameter the query never mentions is not looked at). The table below has, for every case
// of those type switches (Generated/C05_ranges.lean: valueTypeSwitchCases; Facts.parameter_value_types_generated), a
// value of that dynamic type — for slices and maps in the forms nil / empty non-nil / non-empty, for pointers nil /
// non-nil — and []any additionally with one element, mixed element types, nested empty and nil elements. Every value is
// put into every parameter POSITION of c05ParamPositions. lib/props/c05.py copies the (type, form) columns into
// Generated/C05_paramvalues.lean; the runner checks that the declared type and form are what the value really is.
//
// FORMAT (parsed by lib/props/c05.py): one entry per line, `{"<type>", "<form>", func() any { … }},`
type c05ParamValue struct {
	typ  string
	form string
	make func() any
}

var c05ParamValues = []c05ParamValue{
	{"[]any", "nil", func() any { return []any(nil) }},
	{"[]any", "empty", func() any { return []any{} }},
	{"[]any", "nonempty", func() any { return []any{"a"} }},
	{"[]any", "nonempty-several", func() any { return []any{"b", "a", "c"} }},
	{"[]any", "nonempty-mixed", func() any { return []any{"a", 1, 2.5, true} }},
	{"[]any", "nonempty-nested-empty", func() any { return []any{[]any{}} }},
	{"[]any", "nonempty-nested-empty-then-value", func() any { return []any{[]any{}, "a"} }},
	{"[]any", "nonempty-nil-element", func() any { return []any{nil} }},
	{"[]any", "nonempty-nested-nil", func() any { return []any{[]any(nil), []string{}} }},
	{"[]any", "nonempty-ints", func() any { return []any{int64(1), int64(2)} }},
	{"[]string", "nil", func() any { return []string(nil) }},
	{"[]string", "empty", func() any { return []string{} }},
	{"[]string", "nonempty", func() any { return []string{"b", "a"} }},
	{"[]uint8", "nil", func() any { return []uint8(nil) }},
	{"[]uint8", "empty", func() any { return []uint8{} }},
	{"[]uint8", "nonempty", func() any { return []uint8{1, 2} }},
	{"[]int8", "nil", func() any { return []int8(nil) }},
	{"[]int8", "empty", func() any { return []int8{} }},
	{"[]int8", "nonempty", func() any { return []int8{-1, 2} }},
	{"[]int16", "nil", func() any { return []int16(nil) }},
	{"[]int16", "empty", func() any { return []int16{} }},
	{"[]int16", "nonempty", func() any { return []int16{3, 1} }},
	{"[]uint16", "nil", func() any { return []uint16(nil) }},
	{"[]uint16", "empty", func() any { return []uint16{} }},
	{"[]uint16", "nonempty", func() any { return []uint16{3, 1} }},
	{"[]int32", "nil", func() any { return []int32(nil) }},
	{"[]int32", "empty", func() any { return []int32{} }},
	{"[]int32", "nonempty", func() any { return []int32{3, 1} }},
	{"[]uint32", "nil", func() any { return []uint32(nil) }},
	{"[]uint32", "empty", func() any { return []uint32{} }},
	{"[]uint32", "nonempty", func() any { return []uint32{3, 1} }},
	{"[]uint", "nil", func() any { return []uint(nil) }},
	{"[]uint", "empty", func() any { return []uint{} }},
	{"[]uint", "nonempty", func() any { return []uint{3, 1} }},
	{"[]uint64", "nil", func() any { return []uint64(nil) }},
	{"[]uint64", "empty", func() any { return []uint64{} }},
	{"[]uint64", "nonempty", func() any { return []uint64{3, 1} }},
	{"[]int", "nil", func() any { return []int(nil) }},
	{"[]int", "empty", func() any { return []int{} }},
	{"[]int", "nonempty", func() any { return []int{3, 1} }},
	{"[]int64", "nil", func() any { return []int64(nil) }},
	{"[]int64", "empty", func() any { return []int64{} }},
	{"[]int64", "nonempty", func() any { return []int64{3, 1, 2} }},
	{"[]graph.ID", "nil", func() any { return []graph.ID(nil) }},
	{"[]graph.ID", "empty", func() any { return []graph.ID{} }},
	{"[]graph.ID", "nonempty", func() any { return []graph.ID{3, 1} }},
	{"[]float32", "nil", func() any { return []float32(nil) }},
	{"[]float32", "empty", func() any { return []float32{} }},
	{"[]float32", "nonempty", func() any { return []float32{1.5, 0.25} }},
	{"[]float64", "nil", func() any { return []float64(nil) }},
	{"[]float64", "empty", func() any { return []float64{} }},
	{"[]float64", "nonempty", func() any { return []float64{1.5, 0.25} }},
	{"graph.Kinds", "nil", func() any { return graph.Kinds(nil) }},
	{"graph.Kinds", "empty", func() any { return graph.Kinds{} }},
	{"graph.Kinds", "nonempty", func() any { return graph.Kinds{graph.StringKind("NodeKind1"), graph.StringKind("NodeKind2")} }},
	{"map[string]any", "nil", func() any { return map[string]any(nil) }},
	{"map[string]any", "empty", func() any { return map[string]any{} }},
	{"map[string]any", "nonempty", func() any { return map[string]any{"a": []any{}, "b": []string(nil), "c": 1} }},
	{"cypher.MapLiteral", "nil", func() any { return cypher.MapLiteral(nil) }},
	{"cypher.MapLiteral", "empty", func() any { return cypher.MapLiteral{} }},
	{"cypher.MapLiteral", "nonempty", func() any { return cypher.MapLiteral{"a": cypher.NewLiteral(1, false)} }},
	{"*graph.Properties", "nil", func() any { return (*graph.Properties)(nil) }},
	{"*graph.Properties", "nonempty", func() any { return &graph.Properties{Map: map[string]any{"name": "x", "tags": []any{}}} }},
	{"*graph.Properties", "nonempty-fresh", func() any { return graph.NewProperties() }},
	{"*cypher.ListLiteral", "nil", func() any { return (*cypher.ListLiteral)(nil) }},
	{"*cypher.ListLiteral", "nonempty", func() any { l := cypher.ListLiteral{cypher.NewLiteral(1, false)}; return &l }},
	{"*cypher.ListLiteral", "nonempty-empty-list", func() any { l := cypher.ListLiteral{}; return &l }},
	{"time.Time", "value", func() any { return time.Unix(1700000000, 0).UTC() }},
	{"time.Time", "value-local", func() any { return time.Unix(1700000000, 0).Local() }},
	{"time.Time", "value-zero", func() any { return time.Time{} }},
	{"time.Duration", "value", func() any { return 90 * time.Second }},
	{"uint8", "value", func() any { return uint8(7) }},
	{"int8", "value", func() any { return int8(-7) }},
	{"int16", "value", func() any { return int16(7) }},
	{"uint16", "value", func() any { return uint16(7) }},
	{"int32", "value", func() any { return int32(7) }},
	{"uint32", "value", func() any { return uint32(7) }},
	{"uint", "value", func() any { return uint(7) }},
	{"uint64", "value", func() any { return uint64(7) }},
	{"int", "value", func() any { return 7 }},
	{"int64", "value", func() any { return int64(7) }},
	{"graph.ID", "value", func() any { return graph.ID(7) }},
	{"float32", "value", func() any { return float32(1.5) }},
	{"float64", "value", func() any { return 1.5 }},
	{"string", "value", func() any { return "x" }},
	{"string", "value-empty", func() any { return "" }},
	{"bool", "value", func() any { return true }},
	{"graph.Kind", "value", func() any { return graph.StringKind("NodeKind1") }},
	{"graph.Kind", "nil", func() any { return graph.Kind(nil) }},
	{"unsupported", "value", func() any { return struct{ X int }{1} }},
	{"unsupported", "value-typed-nil-pointer", func() any { return (*int)(nil) }},
	{"unsupported", "value-nested-slices", func() any { return [][]string{{}} }},
}

// every position in which a parameter can stand for a list / scalar / map
var c05ParamPositions = []struct{ name, query string }{
	{"in-list", "MATCH (n) WHERE n.name IN $p RETURN n"},
	{"id-in-list", "MATCH (n) WHERE id(n) IN $p RETURN n"},
	{"equals-property", "MATCH (n) WHERE n.tags = $p RETURN n"},
	{"kinds-compare", "MATCH (n) WHERE labels(n) = $p RETURN n"},
	{"pattern-property", "MATCH (n {tags: $p}) RETURN n"},
	{"pattern-properties", "MATCH (n $p) RETURN n"},
	{"create-property", "CREATE (n:NodeKind1 {tags: $p}) RETURN n"},
	{"create-properties", "CREATE (n:NodeKind1 $p) RETURN n"},
	{"set-property", "MATCH (n) WHERE n.name = 'a' SET n.tags = $p RETURN n"},
	{"set-properties", "MATCH (n) WHERE n.name = 'a' SET n += $p RETURN n"},
	{"unwind", "UNWIND $p AS x RETURN x"},
	{"relationship-property-in", "MATCH (a)-[r:EdgeKind1]->(b) WHERE r.weight IN $p AND id(b) IN $p RETURN r"},
	{"function-argument", "MATCH (n) WHERE size($p) > 0 RETURN n"},
	{"projection", "MATCH (n) RETURN n, $p"},
	{"skip-limit", "MATCH (n) RETURN n SKIP $p LIMIT $p"},
}

func normTypeName(v any) string {
	if v == nil {
		return "nil"
	}
	s := fmt.Sprintf("%T", v)
	return strings.ReplaceAll(s, "interface {}", "any")
}

// c05ParamValueCheck: the declared (type, form) must be what the value is.
func c05ParamValueCheck(pv c05ParamValue) string {
	v := pv.make()
	switch pv.typ {
	case "graph.Kind":
		if pv.form == "nil" {
			if v != nil {
				return "graph.Kind nil form is not nil"
			}
			return ""
		}
		if _, ok := v.(graph.Kind); !ok {
			return "not a graph.Kind"
		}
		return ""
	case "unsupported":
		return ""
	}
	if got := normTypeName(v); got != pv.typ {
		return "declared " + pv.typ + " but is " + got
	}
	rv := reflect.ValueOf(v)
	form := pv.form
	if i := strings.Index(form, "-"); i >= 0 {
		form = form[:i]
	}
	switch rv.Kind() {
	case reflect.Slice, reflect.Map:
		switch {
		case form == "nil" && !rv.IsNil(), form == "empty" && (rv.IsNil() || rv.Len() != 0), form == "nonempty" && rv.Len() == 0 && pv.form == "nonempty", form == "value":
			return "form " + pv.form + " does not describe the value"
		}
	case reflect.Pointer:
		if (form == "nil") != rv.IsNil() {
			return "form " + pv.form + " does not describe the pointer"
		}
	default:
		if form != "value" {
			return "scalar with form " + pv.form
		}
	}
	return ""
}

func init() {
	for _, pos := range c05ParamPositions {
		for _, pv := range c05ParamValues {
			pv := pv
			name := "value:" + pos.name + ":" + pv.typ + ":" + pv.form
			c05ParamCases = append(c05ParamCases, c05ParamCase{name, pos.query, func() map[string]any { return map[string]any{"p": pv.make()} }})
			c05ParamMeta[name] = struct {
				check func() string
				ptype string
			}{func() string { return c05ParamValueCheck(pv) }, pv.typ + "." + strings.SplitN(pv.form, "-", 2)[0]}
		}
	}
}
