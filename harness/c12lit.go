package main

import (
	"bufio"
	"context"
	"encoding/hex"
	"fmt"
	"sort"
	"strconv"
	"strings"

	"github.com/jackc/pgtype"
	"github.com/specterops/dawgs/cypher/models/pgsql"
	"github.com/specterops/dawgs/drivers/pg"
	"github.com/specterops/dawgs/graph"
)

// C12 literals: the two places where the pg batch node update renders the delta into a text literal instead of a bound
// parameter — the deleted property keys (text[]: pgsql.DeletedPropertiesToString, through NodeUpdateParameters.Append and
// LargeNodeUpdateRows.Append) and the kind ids (int2[]: Int2ArrayEncoder.Encode). The literal is decoded with pgtype's
// array parser (the repository's own dependency) and, by the flow, with the Lean model of the array syntax; the monitor
// demands decode(emit(deleted)) = deleted. Strings travel hex-encoded (UTF-8, `e` = empty string).
//
//	delkeys <hex,hex,…|->   -> lit=<hex of the literal> dec=<hex,…|-|err>   (sorted)
//	int2 <n,n,…|->          -> lit=<hex> dec=<n,…|-|err>
type c12LitSuite struct{}

func init() { register("c12lit", c12LitSuite{}) }

func c12Hex(s string) string {
	if s == "" {
		return "e"
	}
	return hex.EncodeToString([]byte(s))
}

func c12Unhex(h string) (string, bool) {
	if h == "e" {
		return "", true
	}
	b, err := hex.DecodeString(h)
	return string(b), err == nil
}

func (c12LitSuite) Gen(rng *Rng, tier string, w *bufio.Writer, stats *Stats) {
	caseNo := 0
	emit := func(tag string, line string) {
		caseNo++
		fmt.Fprintf(w, "# case %d %s\n", caseNo, tag)
		fmt.Fprintln(w, line)
	}
	keysLine := func(keys []string) string {
		if len(keys) == 0 {
			return "delkeys -"
		}
		hs := make([]string, len(keys))
		for i, k := range keys {
			hs[i] = c12Hex(k)
		}
		return "delkeys " + strings.Join(hs, ",")
	}
	// hostile alphabet: the characters the array syntax gives a meaning to, whitespace, control characters, the letters
	// of NULL, non-ASCII (printable and not printable for strconv)
	alphabet := []string{`\`, `"`, ",", "{", "}", " ", "\t", "\n", "a", "N", "'", "$", "é", "😀", "\u00a0", "\x01", "\x7f"}
	words := []string{"", "NULL", "null", "Null", `corp\svc_sql`, `c:\temp\new file`, `say "hi"`, "a,b", "{x}", `x\`, `\`, `\\`, `"`, `""`,
		" lead", "trail ", "tab\there", "line\nbreak", "objectid", "naïve", "emoji😀key", "nbsp\u00a0key", "{}", "a}", ",", "\\\"", "\r\n"}
	var single []string
	single = append(single, words...)
	single = append(single, alphabet...)
	for _, a := range alphabet {
		for _, b := range alphabet {
			single = append(single, a+b)
			if tier == "thorough" {
				for _, c := range alphabet {
					single = append(single, a+b+c)
				}
			}
		}
	}
	emit("ex-keys-empty", keysLine(nil))
	for _, k := range single {
		emit("ex-key", keysLine([]string{k}))
		stats.Inc("exhaustive_cases")
	}
	for _, k := range words {
		for _, k2 := range words {
			if k != k2 {
				emit("ex-key-pair", keysLine([]string{k, k2}))
				stats.Inc("exhaustive_cases")
			}
		}
	}
	n := 300
	if tier == "thorough" {
		n = 5000
	}
	for i := 0; i < n; i++ {
		seen := map[string]bool{}
		var keys []string
		for j := 1 + rng.Intn(4); j > 0; j-- {
			var sb strings.Builder
			for l := rng.Intn(6); l > 0; l-- {
				sb.WriteString(Pick(rng, alphabet))
			}
			if rng.Chance(1, 6) {
				sb.Reset()
				sb.WriteString(Pick(rng, words))
			}
			if !seen[sb.String()] {
				seen[sb.String()] = true
				keys = append(keys, sb.String())
			}
		}
		emit("rand-keys", keysLine(keys))
		stats.Inc("random_cases")
	}
	// kind ids
	for _, ids := range [][]int{{}, {0}, {1}, {1, 2, 3}, {32767}, {-1}, {-32768, 0, 32767}, {10, 100, 1000, 10000}} {
		parts := make([]string, len(ids))
		for i, v := range ids {
			parts[i] = strconv.Itoa(v)
		}
		line := "int2 -"
		if len(parts) > 0 {
			line = "int2 " + strings.Join(parts, ",")
		}
		emit("ex-int2", line)
		stats.Inc("exhaustive_cases")
	}
	for i := 0; i < n/4; i++ {
		cnt := rng.Intn(6)
		parts := make([]string, cnt)
		for j := range parts {
			parts[j] = strconv.Itoa(rng.Intn(65536) - 32768)
		}
		line := "int2 -"
		if cnt > 0 {
			line = "int2 " + strings.Join(parts, ",")
		}
		emit("rand-int2", line)
		stats.Inc("random_cases")
	}
}

type c12LitRunner struct {
	stats *Stats
	drv   c12Runner // for the pg kind table / encoder set-up
}

func (c12LitSuite) NewRunner(stats *Stats) Runner { return &c12LitRunner{stats: stats, drv: c12Runner{stats: stats}} }

func (r *c12LitRunner) Step(t []string, raw string) string {
	if len(t) != 2 {
		return "bad-op"
	}
	if !r.drv.initDrivers() {
		return "bad-driver-shape"
	}
	switch t[0] {
	case "delkeys":
		props := graph.NewProperties()
		if t[1] != "-" {
			for _, h := range strings.Split(t[1], ",") {
				k, ok := c12Unhex(h)
				if !ok {
					return "bad-op"
				}
				props.Delete(k)
				for _, c := range k {
					switch {
					case c == '\\':
						r.stats.Inc("branch.lit.key_with_backslash")
					case c == '"':
						r.stats.Inc("branch.lit.key_with_quote")
					case c < 32 || c == 127:
						r.stats.Inc("branch.lit.key_with_control_char")
					case c >= 128:
						r.stats.Inc("branch.lit.key_with_non_ascii")
					}
				}
			}
		}
		node := graph.NewNode(1, props)
		lit := pgsql.DeletedPropertiesToString(props)
		// the two batch builders must send the same deleted set (the order of a Go map iteration differs between calls)
		params := pg.NewNodeUpdateParameters(1)
		rows := pg.NewLargeNodeUpdateRows(1)
		ctx := context.Background()
		if err := params.Append(ctx, node, r.drv.sm, r.drv.enc); err != nil {
			return "err append"
		}
		if err := rows.Append(ctx, node, r.drv.sm, r.drv.enc); err != nil {
			return "err append"
		}
		d0, d1, d2 := c12DecodeTextArray(lit), c12DecodeTextArray(params.DeletedProperties[0]), c12DecodeTextArray(fmt.Sprint(rows.Rows()[0][4]))
		if d0 != d1 || d0 != d2 {
			return "builders-disagree " + d0 + " " + d1 + " " + d2
		}
		r.stats.Inc("branch.lit.delkeys")
		return "lit=" + c12Hex(lit) + " dec=" + d0
	case "int2":
		var ids []int16
		if t[1] != "-" {
			for _, s := range strings.Split(t[1], ",") {
				v, err := strconv.Atoi(s)
				if err != nil || v < -32768 || v > 32767 {
					return "bad-op"
				}
				ids = append(ids, int16(v))
			}
		}
		lit := r.drv.enc.Encode(ids)
		var arr pgtype.Int2Array
		dec := "err"
		if err := arr.DecodeText(nil, []byte(lit)); err == nil {
			parts := make([]string, len(arr.Elements))
			for i, e := range arr.Elements {
				parts[i] = strconv.Itoa(int(e.Int))
			}
			dec = strings.Join(parts, ",")
			if len(parts) == 0 {
				dec = "-"
			}
		}
		r.stats.Inc("branch.lit.int2")
		return "lit=" + c12Hex(lit) + " dec=" + dec
	}
	return "bad-op"
}

func c12DecodeTextArray(lit string) string {
	var arr pgtype.TextArray
	if err := arr.DecodeText(nil, []byte(lit)); err != nil {
		return "err"
	}
	if len(arr.Elements) == 0 {
		return "-"
	}
	out := make([]string, len(arr.Elements))
	for i, e := range arr.Elements {
		if e.Status == pgtype.Null {
			out[i] = "null"
		} else {
			out[i] = c12Hex(e.String)
		}
	}
	sort.Strings(out)
	return strings.Join(out, ",")
}
