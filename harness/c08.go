package main

import (
	"bufio"
	"encoding/hex"
	"errors"
	"fmt"
	"math"
	"reflect"
	"runtime"
	"sort"
	"strconv"
	"strings"
	"time"
	"unicode/utf8"

	"github.com/antlr4-go/antlr/v4"
	"github.com/specterops/dawgs/cypher/frontend"
	"github.com/specterops/dawgs/cypher/models/cypher"
	"github.com/specterops/dawgs/cypher/models/cypher/format"
	"github.com/specterops/dawgs/cypher/parser"
)

// C08: parsing is total and bounded on arbitrary input.
//
// Op lines:
//   q <json string>      parse this text           qb <hex>   parse these bytes (invalid UTF-8 allowed)
//   scale <family> <n0> <doublings>   size-doubling sweep of a nesting family; measures time / allocation growth
//
// Answer to q/qb (one line):
//   n=<cls>/<nil> d=<cls>/<nil> nsyn= nother= nunsup=[..] dsyn= dother= dfilt= dunsup=[..] inc=[..] trace=<fnv64>:<events>:<maxstack> tree=<sexp>
// cls ∈ ok | err | panic | nilnil | partial; n = frontend.NewContext(), d = frontend.DefaultCypherContext().
// trace = FNV-1a over the visitor stack (type names, depths) observed at every rule entry by a probe filter.
type c08Suite struct{}

func init() { register("c08", c08Suite{}) }

// ---------------------------------------------------------------------------------- typed parse tree

// antlrTreeTyped renders (N rule child…) with (L <tokenType> "text") / (E <tokenType> "text") leaves.
func antlrTreeTyped(text string) (string, int) {
	lexer := parser.NewCypherLexer(antlr.NewInputStream(text))
	el := &countingErrorListener{DefaultErrorListener: antlr.NewDefaultErrorListener()}
	lexer.RemoveErrorListeners()
	lexer.AddErrorListener(el)
	ts := antlr.NewCommonTokenStream(lexer, antlr.TokenDefaultChannel)
	p := parser.NewCypherParser(ts)
	p.RemoveErrorListeners()
	p.AddErrorListener(el)
	tree := p.OC_Cypher()
	var b strings.Builder
	writeTreeTyped(&b, tree)
	return b.String(), el.n
}

func writeTreeTyped(b *strings.Builder, t antlr.Tree) {
	switch n := t.(type) {
	case antlr.ErrorNode:
		fmt.Fprintf(b, "(E %d %s)", n.GetSymbol().GetTokenType(), jsonQuote(n.GetText()))
	case antlr.TerminalNode:
		fmt.Fprintf(b, "(L %d %s)", n.GetSymbol().GetTokenType(), jsonQuote(n.GetText()))
	case antlr.ParserRuleContext:
		b.WriteString("(N ")
		b.WriteString(strconv.Itoa(n.GetRuleIndex()))
		for _, c := range n.GetChildren() {
			b.WriteString(" ")
			writeTreeTyped(b, c)
		}
		b.WriteString(")")
	}
}

// ---------------------------------------------------------------------------------- probe filter

type c08Probe struct {
	frontend.BaseVisitor
	ctx    *frontend.Context
	hash   uint64
	events int
	max    int
	log    *strings.Builder // optional readable trace
}

func newC08Probe() *c08Probe { return &c08Probe{hash: 14695981039346656037} }

func (p *c08Probe) SetContext(ctx *frontend.Context) {
	p.ctx = ctx
	p.BaseVisitor.SetContext(ctx)
}

func fnvAdd(h uint64, s string) uint64 {
	for i := 0; i < len(s); i++ {
		h ^= uint64(s[i])
		h *= 1099511628211
	}
	return h
}

// hit snapshots Context.visitorStack (unexported; read-only reflection) at a rule entry.
func (p *c08Probe) hit(c antlr.ParserRuleContext) {
	var b strings.Builder
	b.WriteString(strconv.Itoa(c.GetRuleIndex()))
	b.WriteString(":")
	st := reflect.ValueOf(p.ctx).Elem().FieldByName("visitorStack")
	n := st.Len()
	for i := 0; i < n; i++ {
		e := st.Index(i).Elem()
		v := e.FieldByName("visitor")
		name := "nil"
		if !v.IsNil() {
			t := v.Elem().Type()
			if t.Kind() == reflect.Pointer {
				t = t.Elem()
			}
			name = t.Name()
		}
		b.WriteString(name)
		b.WriteString("/")
		b.WriteString(strconv.FormatInt(e.FieldByName("depth").Int(), 10))
		// visitor-field state: a visitor with a partIdx counter over Query.Parts (MultiPartQueryVisitor)
		if !v.IsNil() && v.Elem().Kind() == reflect.Pointer && v.Elem().Elem().Kind() == reflect.Struct {
			sv := v.Elem().Elem()
			if pi := sv.FieldByName("partIdx"); pi.IsValid() {
				n := int64(-1)
				if q := sv.FieldByName("Query"); q.IsValid() && q.Kind() == reflect.Pointer && !q.IsNil() {
					if parts := q.Elem().FieldByName("Parts"); parts.IsValid() {
						n = int64(parts.Len())
					}
				}
				b.WriteString("#")
				b.WriteString(strconv.FormatInt(n, 10))
				b.WriteString("/")
				b.WriteString(strconv.FormatInt(pi.Int(), 10))
			}
		}
		b.WriteString(",")
	}
	b.WriteString(";")
	p.hash = fnvAdd(p.hash, b.String())
	p.events++
	if n > p.max {
		p.max = n
	}
	if p.log != nil {
		p.log.WriteString(b.String())
	}
}

// ---------------------------------------------------------------------------------- one parse under recover

type c08Result struct {
	cls              string
	isNil            int
	syn, other, filt int
	unsup            []string
	inc              []string
	panicMsg         string
	render           string // ok | err | panic:<msg> | "" (nothing to render)
	ints             string // same | differ:… | "" : integers held by the model vs integers written in the text
	dur              time.Duration
	alloc            uint64
}

func c08Parse(ctx *frontend.Context, text string) (res c08Result) {
	var ms0, ms1 runtime.MemStats
	runtime.ReadMemStats(&ms0)
	t0 := time.Now()
	var model *cypher.RegularQuery
	var err error
	func() {
		defer func() {
			if p := recover(); p != nil {
				res.panicMsg = strings.ReplaceAll(fmt.Sprint(p), "\n", " ")
			}
		}()
		model, err = frontend.ParseCypher(ctx, text)
	}()
	res.dur = time.Since(t0)
	runtime.ReadMemStats(&ms1)
	res.alloc = ms1.TotalAlloc - ms0.TotalAlloc
	if res.panicMsg != "" {
		res.cls = "panic"
		return
	}
	for _, e := range flattenErrs(err) {
		var se frontend.SyntaxError
		var sep *frontend.SyntaxError
		switch {
		case errors.Is(e, frontend.ErrUpdateClauseNotSupported), errors.Is(e, frontend.ErrProcedureInvocationNotSupported),
			errors.Is(e, frontend.ErrUserSpecifiedParametersNotSupported):
			res.filt++
		case errors.As(e, &se):
			if strings.HasSuffix(se.Message, " rule is not supported") {
				res.unsup = append(res.unsup, strings.TrimSuffix(se.Message, " rule is not supported"))
			} else {
				res.other++
			}
		case errors.As(e, &sep):
			res.syn++
		default:
			res.other++
		}
	}
	sort.Strings(res.unsup)
	if model == nil {
		res.isNil = 1
	}
	switch {
	case err != nil:
		res.cls = "err"
	case model == nil:
		res.cls = "nilnil"
	default:
		res.inc = modelIncomplete(model)
		if len(res.inc) > 0 {
			res.cls = "partial"
		} else {
			res.cls = "ok"
		}
		res.ints = intLiteralCheck(strings.TrimSpace(text), model)
		// an accepted model must be renderable: format.RegularQuery may report an error, it must not panic
		res.render = "ok"
		func() {
			defer func() {
				if p := recover(); p != nil {
					res.render = "panic:" + strings.NewReplacer(" ", "_", "\n", "_").Replace(fmt.Sprint(p))
				}
			}()
			if _, ferr := format.RegularQuery(model, false); ferr != nil {
				res.render = "err"
			}
		}()
	}
	return
}

// ---------------------------------------------------------------------------------- structural completeness of a returned model

// mandatory fields of the cypher model: a node returned without an error must have them set.
var c08Mandatory = map[string][]string{
	"RegularQuery":                 {"SingleQuery"},
	"SingleQuery":                  {"SinglePartQuery|MultiPartQuery"},
	"MultiPartQuery":               {"SinglePartQuery"},
	"ReadingClause":                {"Match|Unwind"},
	"Unwind":                       {"Expression", "Variable"},
	"With":                         {"Projection"},
	"Return":                       {"Projection"},
	"ProjectionItem":               {"Expression"},
	"SortItem":                     {"Expression"},
	"Skip":                         {"Value"},
	"Limit":                        {"Value"},
	"Comparison":                   {"Left"},
	"PartialComparison":            {"Right"},
	"Negation":                     {"Expression"},
	"Parenthetical":                {"Expression"},
	"PropertyLookup":               {"Atom"},
	"ArithmeticExpression":         {"Left"},
	"PartialArithmeticExpression":  {"Right"},
	"UnaryAddOrSubtractExpression": {"Right"},
	"UpdatingClause":               {"Clause"},
	"Quantifier":                   {"Filter"},
	"FilterExpression":             {"Specifier"},
	"IDInCollection":               {"Variable", "Expression"},
	"KindMatcher":                  {"Reference"},
	"PatternElement":               {"Element"},
}

// non-empty slices
var c08NonEmpty = map[string][]string{
	"Match":            {"Pattern"},
	"PatternPart":      {"PatternElements"},
	"PatternPredicate": {"PatternElements"},
	"Projection":       {"Items"},
	"Order":            {"Items"},
}

func modelIncomplete(q *cypher.RegularQuery) []string {
	seen := map[string]bool{}
	var walk func(v reflect.Value, depth int)
	isNilV := func(f reflect.Value) bool {
		switch f.Kind() {
		case reflect.Pointer, reflect.Interface, reflect.Map, reflect.Slice:
			return f.IsNil()
		}
		return false
	}
	walk = func(v reflect.Value, depth int) {
		if !v.IsValid() || depth > 2000 {
			return
		}
		switch v.Kind() {
		case reflect.Pointer, reflect.Interface:
			if !v.IsNil() {
				// a typed nil in an interface slot ((*cypher.Literal)(nil) as an Expression): "present" to every nil check, absent in fact
				if v.Kind() == reflect.Interface && v.Elem().Kind() == reflect.Pointer && v.Elem().IsNil() {
					seen["typed-nil:"+v.Elem().Type().Elem().Name()] = true
				}
				walk(v.Elem(), depth+1)
			}
		case reflect.Struct:
			t := v.Type()
			if t.PkgPath() == "github.com/specterops/dawgs/cypher/models/cypher" {
				for _, spec := range c08Mandatory[t.Name()] {
					ok := false
					for _, alt := range strings.Split(spec, "|") {
						if f := v.FieldByName(alt); f.IsValid() && !isNilV(f) {
							ok = true
						}
					}
					if !ok {
						seen[t.Name()+":no-"+spec] = true
					}
				}
				for _, fn := range c08NonEmpty[t.Name()] {
					if f := v.FieldByName(fn); f.IsValid() && f.Len() == 0 {
						seen[t.Name()+":empty-"+fn] = true
					}
				}
				if t.Name() == "SinglePartQuery" {
					if v.FieldByName("Return").IsNil() && v.FieldByName("UpdatingClauses").Len() == 0 {
						seen["SinglePartQuery:no-Return-no-UpdatingClause"] = true
					}
				}
			}
			for i := 0; i < v.NumField(); i++ {
				walk(v.Field(i), depth+1)
			}
		case reflect.Slice, reflect.Array:
			for i := 0; i < v.Len(); i++ {
				if e := v.Index(i); (e.Kind() == reflect.Interface || e.Kind() == reflect.Pointer) && e.IsNil() {
					seen["nil-element:"+v.Type().Elem().String()] = true
				}
				walk(v.Index(i), depth+1)
			}
		case reflect.Map:
			it := v.MapRange()
			for it.Next() {
				if e := it.Value(); (e.Kind() == reflect.Interface || e.Kind() == reflect.Pointer) && e.IsNil() {
					seen["nil-map-value:"+v.Type().String()] = true
				}
				walk(it.Value(), depth+1)
			}
		}
	}
	walk(reflect.ValueOf(q), 0)
	var out []string
	for k := range seen {
		out = append(out, k)
	}
	sort.Strings(out)
	return out
}

// ---------------------------------------------------------------------------------- runner

type c08Runner struct{ stats *Stats }

func (c08Suite) NewRunner(stats *Stats) Runner { return &c08Runner{stats: stats} }

func c08Text(t []string, raw string) (string, bool) {
	switch t[0] {
	case "q":
		return jsonUnquote(strings.TrimSpace(strings.TrimPrefix(strings.TrimSpace(raw), "q")))
	case "qb":
		if len(t) < 2 {
			return "", true
		}
		b, err := hex.DecodeString(t[1])
		return string(b), err == nil
	}
	return "", false
}

func (r *c08Runner) Step(t []string, raw string) string {
	if len(t) == 0 {
		return "bad-op"
	}
	switch t[0] {
	case "scale":
		return r.scale(t)
	case "q", "qb":
	default:
		return "bad-op"
	}
	text, ok := c08Text(t, raw)
	if !ok {
		return "bad-op"
	}
	n := c08Parse(frontend.NewContext(), text)
	d := c08Parse(frontend.DefaultCypherContext(), text)
	r.stats.Inc("n." + n.cls)
	r.stats.Inc("d." + d.cls)
	if !utf8.ValidString(text) {
		r.stats.Inc("invalid_utf8")
	}
	for _, x := range []c08Result{n, d} {
		if x.dur > 5*time.Second {
			r.stats.Inc("slow_over_5s")
		}
		if us := x.dur.Microseconds(); us > r.stats.Counters["max_parse_us"] {
			r.stats.Counters["max_parse_us"] = us
		}
		if int64(x.alloc) > r.stats.Counters["max_parse_alloc_bytes"] {
			r.stats.Counters["max_parse_alloc_bytes"] = int64(x.alloc)
		}
	}
	if n.panicMsg != "" {
		return "panic n: " + n.panicMsg
	}
	if d.panicMsg != "" {
		return "panic d: " + d.panicMsg
	}
	// probe run: same parse with a filter that only observes
	probe := newC08Probe()
	trace := "-"
	func() {
		defer func() {
			if p := recover(); p != nil {
				trace = "panic"
			}
		}()
		if strings.TrimSpace(text) != "" {
			_, _ = frontend.ParseCypher(frontend.NewContext(probe), text)
		}
		trace = fmt.Sprintf("%016x:%d:%d", probe.hash, probe.events, probe.max)
	}()
	tree := "-"
	rawErrs := 0
	if strings.TrimSpace(text) != "" {
		// second value: recognition errors (lexer + parser) of the raw ANTLR run, counted by a listener of our own
		tree, rawErrs = antlrTreeTyped(strings.TrimSpace(text))
	} else {
		r.stats.Inc("blank_inputs")
	}
	// a slow parse is re-measured twice (minimum counts): a stall of a loaded machine must not raise a false alarm
	slow := 0
	if n.dur > 20*time.Second || d.dur > 20*time.Second {
		best := n.dur
		if d.dur > best {
			best = d.dur
		}
		for rep := 0; rep < 2 && best > 20*time.Second; rep++ {
			a := c08Parse(frontend.NewContext(), text)
			b := c08Parse(frontend.DefaultCypherContext(), text)
			m := a.dur
			if b.dur > m {
				m = b.dur
			}
			if m < best {
				best = m
			}
		}
		if best > 20*time.Second {
			slow = 1
		}
		r.stats.Inc("slow_remeasured")
	}
	// context lifecycle: a default context that is no longer the most recently created one must behave the same
	older := frontend.DefaultCypherContext()
	_ = frontend.DefaultCypherContext()
	o := c08Parse(older, text)
	// ... and a context that has already parsed a clean query must report this text's errors all the same: nothing the
	// context remembers from the first parse (a cached "no error") may answer for the second (seed C08-r6-1)
	if o.cls == d.cls && o.isNil == d.isNil {
		reused := frontend.DefaultCypherContext()
		_, _ = frontend.ParseCypher(reused, "match (zz) return zz")
		if again := c08Parse(reused, text); again.cls != d.cls || again.isNil != d.isNil {
			o = again
			r.stats.Inc("reused_context_differs")
		}
	}
	render := n.render
	if render == "" {
		render = "-"
	}
	ints := n.ints
	if ints == "" {
		ints = "-"
	}
	return fmt.Sprintf("n=%s/%d d=%s/%d o=%s/%d render=%s ints=%s raw=%d nsyn=%d nother=%d nunsup=[%s] dsyn=%d dother=%d dfilt=%d dunsup=[%s] inc=[%s] slow=%d trace=%s tree=%s",
		n.cls, n.isNil, d.cls, d.isNil, o.cls, o.isNil, render, ints, rawErrs, n.syn, n.other, strings.Join(n.unsup, ","), d.syn, d.other, d.filt, strings.Join(d.unsup, ","),
		strings.Join(n.inc, ","), slow, trace, tree)
}

// ---------------------------------------------------------------------------------- growth measurement

var c08Families = map[string]func(n int) string{
	"parens":   func(n int) string { return "RETURN " + strings.Repeat("(", n) + "1" + strings.Repeat(")", n) },
	"lists":    func(n int) string { return "RETURN " + strings.Repeat("[", n) + "1" + strings.Repeat("]", n) },
	"nots":     func(n int) string { return "MATCH (n) WHERE " + strings.Repeat("NOT ", n) + "n.a RETURN n" },
	"ands":     func(n int) string { return "MATCH (n) WHERE " + strings.Repeat("n.a = 1 AND ", n) + "n.b = 2 RETURN n" },
	"adds":     func(n int) string { return "RETURN " + strings.Repeat("1 + ", n) + "1" },
	"chain":    func(n int) string { return "MATCH (a)" + strings.Repeat("-[:R]->()", n) + " RETURN a" },
	"maps":     func(n int) string { return "RETURN " + strings.Repeat("{a: ", n) + "1" + strings.Repeat("}", n) },
	"string":   func(n int) string { return "RETURN '" + strings.Repeat("x", n*64) + "'" },
	"unclosed": func(n int) string { return "RETURN " + strings.Repeat("(", n) + "1" },
	"items":    func(n int) string { return "RETURN " + strings.Repeat("1, ", n) + "1" },
}

func c08FamilyNames() []string {
	var ks []string
	for k := range c08Families {
		ks = append(ks, k)
	}
	sort.Strings(ks)
	return ks
}

func fitExponent(xs, ys []float64) float64 {
	// least squares slope of log y over log x
	var sx, sy, sxx, sxy float64
	n := float64(len(xs))
	for i := range xs {
		lx, ly := math.Log(xs[i]), math.Log(math.Max(ys[i], 1))
		sx += lx
		sy += ly
		sxx += lx * lx
		sxy += lx * ly
	}
	den := n*sxx - sx*sx
	if den == 0 {
		return 0
	}
	return (n*sxy - sx*sy) / den
}

// scale <family> <n0> <doublings>: answer `scale ok` unless growth is clearly super-polynomial (generous thresholds).
func (r *c08Runner) scale(t []string) string {
	if len(t) != 4 {
		return "bad-op"
	}
	gen, ok := c08Families[t[1]]
	n0, e1 := strconv.Atoi(t[2])
	k, e2 := strconv.Atoi(t[3])
	if !ok || e1 != nil || e2 != nil || n0 < 1 || k < 2 {
		return "bad-op"
	}
	var xs, ts, as []float64
	n := n0
	for i := 0; i <= k; i++ {
		text := gen(n)
		best := c08Parse(frontend.NewContext(), text)
		if best.panicMsg != "" {
			return fmt.Sprintf("panic scale %s n=%d: %s", t[1], n, best.panicMsg)
		}
		for rep := 0; rep < 2 && best.dur < 200*time.Millisecond; rep++ { // min of 3 against scheduler noise
			again := c08Parse(frontend.NewContext(), text)
			if again.dur < best.dur {
				best.dur = again.dur
			}
			if again.alloc < best.alloc {
				best.alloc = again.alloc
			}
		}
		xs = append(xs, float64(len(text)))
		ts = append(ts, float64(best.dur.Nanoseconds()))
		as = append(as, float64(best.alloc))
		if best.dur > 20*time.Second {
			break
		}
		n *= 2
	}
	m := len(xs)
	lo := 0
	if m > 4 {
		lo = m - 4
	}
	et, ea := fitExponent(xs[lo:], ts[lo:]), fitExponent(xs[lo:], as[lo:])
	r.stats.Counters["scale."+t[1]+".exp_time_x100"] = int64(math.Round(et * 100))
	r.stats.Counters["scale."+t[1]+".exp_alloc_x100"] = int64(math.Round(ea * 100))
	r.stats.Counters["scale."+t[1]+".max_bytes"] = int64(xs[m-1])
	r.stats.Counters["scale."+t[1]+".max_us"] = int64(ts[m-1] / 1000)
	r.stats.Counters["scale."+t[1]+".max_alloc_kb"] = int64(as[m-1] / 1024)
	// clear blow-up only: allocation exponent above 3.2 (allocation is almost noise free), or the last doubling
	// multiplying the time by more than 40 while already above 2 s
	lastRatio := 0.0
	if m >= 2 {
		lastRatio = ts[m-1] / math.Max(ts[m-2], 1)
	}
	if ea > 3.2 || (lastRatio > 40 && ts[m-1] > 2e9) {
		return fmt.Sprintf("scale blowup family=%s alloc_exp=%.2f time_exp=%.2f last_ratio=%.1f", t[1], ea, et, lastRatio)
	}
	r.stats.Inc("scale_ok")
	return "scale ok"
}

// ---------------------------------------------------------------------------------- generator

var c08Keywords = []string{
	"MATCH", "OPTIONAL", "WHERE", "RETURN", "WITH", "UNWIND", "AS", "ORDER", "BY", "SKIP", "LIMIT", "DISTINCT", "AND", "OR", "XOR", "NOT",
	"IN", "STARTS", "ENDS", "CONTAINS", "IS", "NULL", "TRUE", "FALSE", "COUNT", "ALL", "ANY", "NONE", "SINGLE", "EXISTS", "CASE", "WHEN",
	"THEN", "ELSE", "END", "UNION", "CREATE", "MERGE", "SET", "DELETE", "DETACH", "REMOVE", "CALL", "YIELD", "LOAD", "CSV", "FROM",
	"USING", "INDEX", "SCAN", "JOIN", "ON", "CYPHER", "EXPLAIN", "PROFILE", "FOREACH", "START", "shortestPath", "allShortestPaths",
	"(", ")", "[", "]", "{", "}", ",", ".", "..", ":", "|", "=", "<>", "<", ">", "<=", ">=", "=~", "+", "-", "*", "/", "%", "^", "$", "+=", ";",
	"n", "m", "r", "x", "n.name", "`a b`", "1", "0", "1.5", "1e3", "'s'", "\"t\"", "$p", "{p}", "-->", "<--", "--", "-[", "]->", "<-[", "]-",
	"/* c */", "// c\n", "\t", "\n", "0x1F", "0o7", "id(n)", "count(*)", "toLower(", "[x IN", "*1..2", "*", "*..", " ", "\u001c",
}

var c08Fixed = []string{
	"", " ", "\t\n\r ", "\u00a0", "\u2003\u2028", "\u001c", "\u180e", "/* only a comment */", "// line comment", ";", "\x00",
	"CALL foo.bar()", "CALL foo.bar", "CALL foo.bar() YIELD a", "CALL db.labels() YIELD label RETURN label",
	"MATCH (n) SET n.a.b = 1", "MATCH (n) REMOVE n.a.b", "MATCH (n) SET n.a.b.c = 1, n.x.y = 2, n.z = 3", "MATCH (n) WITH n SET n.a.b = n.c.d RETURN n.e.f",
	"RETURN 1 /* c */ + 2", "RETURN 1 + /* c */ 2", "RETURN - /* c */ 1", "RETURN 2 ^ /* c */ 3 * 4", "RETURN 1 \u001c+ 2", "RETURN NOT NOT true", "MATCH (n) WHERE NOT NOT NOT n.a RETURN n",
	"MATCH (n)-[*2]->(m) RETURN m", "RETURN ns.fn(1)",
	"LOAD CSV FROM 'x' AS l RETURN l", "LOAD CSV WITH HEADERS FROM 'x' AS l FIELDTERMINATOR ';' RETURN l",
	"MATCH (n) CALL foo.bar() YIELD x RETURN n", "MATCH (n) USING INDEX n:Person(name) RETURN n", "CYPHER 2.3 MATCH (n) RETURN n",
	"EXPLAIN MATCH (n) RETURN n", "PROFILE MATCH (n) RETURN n", "START n=node(1) RETURN n", "MATCH (n) RETURN n UNION MATCH (m) RETURN m",
	"USING PERIODIC COMMIT 5000 SET n.prop = 1", "CREATE INDEX ON :Person(name)", "FOREACH (x IN [1] | CREATE (n))",
	"RETURN 9223372036854775807", "RETURN 9223372036854775808", "RETURN -9223372036854775808", "RETURN -9223372036854775809",
	"RETURN 99999999999999999999999999999999999999", "RETURN 0x7FFFFFFFFFFFFFFF", "RETURN 0xFFFFFFFFFFFFFFFFFF", "RETURN 0o777", "RETURN 007",
	"RETURN 1e308", "RETURN 1e309", "RETURN 1.7976931348623157e308", "RETURN 1.7976931348623159e308", "RETURN 1e-400", "RETURN 4.9e-324",
	"RETURN .5", "RETURN 1.", "RETURN 1..2", "RETURN 1e", "RETURN 0.0000000000000000000000000000000000000000001",
	"MATCH (n)-[*9223372036854775807..9223372036854775808]->(m) RETURN n", "MATCH (n)-[*99999999999999999999]->(m) RETURN n",
	"MATCH (n)-[*0x10]->(m) RETURN n", "MATCH (n)-[*..]->(m) RETURN n", "MATCH (n)-[*1..2..3]->(m) RETURN n",
	"RETURN $", "RETURN $1", "RETURN $99999999999999999999", "RETURN {1}", "RETURN `", "RETURN ``", "RETURN `a``b`", "RETURN 'unterminated",
	"RETURN \"unterminated", "RETURN '\\u12'", "RETURN '\\", "RETURN /* unterminated", "MATCH (n) WHERE n.`` = 1 RETURN n",
	"MATCH (n) WHERE n.`a``b` = 1 RETURN n", "MATCH (n:``) RETURN n", "RETURN count(*)", "RETURN count ( * )", "RETURN COUNT(*) + 1",
	"RETURN 1 /* c */ + 2", "RETURN 1 +\u001c 2", "RETURN - - 1", "RETURN -(-1)", "RETURN 2 ^ 3 ^ 4", "RETURN not not true",
	"MATCH (n) WHERE n:A:B RETURN n", "MATCH (n) WHERE NOT n:A RETURN n", "MATCH (n) WHERE n.a = 1 = 2 RETURN n", "MATCH (n) WHERE 1 < n.a < 3 RETURN n",
	"MATCH (n) REMOVE :L", "MATCH (n) SET = 1", "MATCH (n) REMOVE n", "MATCH (n) SET n", "MATCH (n) DELETE", "MERGE", "MATCH", "RETURN", "WITH",
	"MATCH (n) WITH", "MATCH (n) WITH n", "MATCH (n) WITH n WHERE", "UNWIND", "UNWIND [1] AS", "RETURN [x IN [1,2] WHERE x > 1 | x * 2]",
	"RETURN [(n)-->(m) | m.name]", "MATCH (n) RETURN n.a[0]", "MATCH (n) RETURN n.a[0..2]", "RETURN all(x IN [1] WHERE x > 0)",
	"RETURN any(x IN [1])", "RETURN none(", "RETURN single(x", "RETURN exists { MATCH (n) RETURN n }", "RETURN CASE WHEN 1 THEN 2 END",
	"RETURN reduce(a = 0, x IN [1] | a + x)", "RETURN filter(x IN [1] WHERE x > 0)", "RETURN extract(x IN [1] | x)", "RETURN shortestPath((a)-[*]->(b))",
	"MATCH p = shortestPath((a)-[*]->(b)) RETURN p", "MATCH p = allShortestPaths((a)-[*1..3]->(b)) RETURN p", "MATCH ((n)) RETURN n", "MATCH (((n))) RETURN n",
	"MATCH (n)<-->(m) RETURN n", "MATCH (n)<-[r]->(m) RETURN n", "MATCH (n)-[r:A|:B|C]-(m) RETURN r", "MATCH (n {a: $p}) RETURN n", "MATCH (n $p) RETURN n",
}

func c08Emit(w *bufio.Writer, n *int, tag, text string) {
	*n++
	fmt.Fprintf(w, "# case %d %s\n", *n, tag)
	if utf8.ValidString(text) && !strings.ContainsRune(text, 0xFFFD) {
		fmt.Fprintf(w, "q %s\n", jsonQuote(text))
	} else {
		fmt.Fprintf(w, "qb %s\n", hex.EncodeToString([]byte(text)))
	}
}

func (c08Suite) Gen(rng *Rng, tier string, w *bufio.Writer, stats *Stats) {
	thorough := tier == "thorough"
	n := 0
	emit := func(tag, text string) { c08Emit(w, &n, tag, text); stats.Inc(strings.SplitN(tag, ":", 2)[0]) }
	for _, q := range c08Fixed {
		emit("fixed", q)
	}
	corpus := LoadCypherCorpus()
	// truncations of every corpus query: every offset (thorough) or a seeded stride (quick)
	for ci, c := range corpus {
		q := c.Query
		if thorough {
			for off := 1; off < len(q); off++ {
				emit("trunc:"+c.Source, q[:off])
			}
		} else {
			if ci%4 != int(rng.Intn(4)) && len(q) > 60 {
				// quick: a quarter of the long queries get the dense treatment, the rest a sparse one
				for k := 0; k < 3; k++ {
					emit("trunc:"+c.Source, q[:1+rng.Intn(len(q)-1)])
				}
				continue
			}
			stride := 1 + len(q)/24
			for off := 1 + rng.Intn(stride); off < len(q); off += stride {
				emit("trunc:"+c.Source, q[:off])
			}
		}
		emit("corpus:"+c.Source, q)
	}
	// multi-part queries whose parts open with an updating clause (Parts / partIdx bookkeeping of MultiPartQueryVisitor)
	nmp := 40
	if thorough {
		nmp = 600
	}
	for _, q := range multiPartShapes(rng, nmp) {
		emit("multipart", q)
	}
	// unbalanced delimiters: delete / duplicate / swap one delimiter
	delims := "()[]{}'\"`"
	per := 2
	if thorough {
		per = 10
	}
	for _, c := range corpus {
		var pos []int
		for i := 0; i < len(c.Query); i++ {
			if strings.IndexByte(delims, c.Query[i]) >= 0 {
				pos = append(pos, i)
			}
		}
		if len(pos) == 0 {
			continue
		}
		for k := 0; k < per; k++ {
			p := pos[rng.Intn(len(pos))]
			q := c.Query
			switch rng.Intn(4) {
			case 0:
				q = q[:p] + q[p+1:]
			case 1:
				q = q[:p] + string(q[p]) + q[p:]
			case 2:
				q = q[:p] + string(delims[rng.Intn(len(delims))]) + q[p+1:]
			default:
				p2 := pos[rng.Intn(len(pos))]
				b := []byte(q)
				b[p], b[p2] = b[p2], b[p]
				q = string(b)
			}
			emit("delim:"+c.Source, q)
		}
	}
	// nesting depth sweeps that also go through the model (moderate sizes)
	depths := []int{1, 2, 3, 8, 32, 64}
	if thorough {
		depths = append(depths, 128, 200)
	}
	for _, fam := range c08FamilyNames() {
		for _, d := range depths {
			emit("nest:"+fam, c08Families[fam](d))
		}
	}
	// invalid UTF-8 and odd code points spliced into corpus queries
	bad := []string{"\xff", "\xc0\xaf", "\xe2\x82", "\xf0\x9f", "\xed\xa0\x80", "\x80", "\xfe\xff", "\x00", "\ufeff", "\u202e", "\U0010ffff", "\u0301", "\xf8\x88\x80\x80\x80"}
	nbad := 60
	if thorough {
		nbad = 600
	}
	for k := 0; k < nbad; k++ {
		c := Pick(rng, corpus)
		p := rng.Intn(len(c.Query) + 1)
		emit("utf8:"+c.Source, c.Query[:p]+Pick(rng, bad)+c.Query[p:])
	}
	// (a) stray characters (no lexer rule) attached to token edges of corpus queries
	stats.Counters["stray_character_classes"] = int64(len(strayChars()))
	for ci, c := range corpus {
		if thorough && ci%4 == 0 {
			for _, s := range strayInsertions(rng, c.Query, 0, true) {
				emit("stray:"+c.Source, s)
			}
			continue
		}
		k := 1
		if thorough {
			k = 4
		}
		for _, s := range strayInsertions(rng, c.Query, k, false) {
			emit("stray:"+c.Source, s)
		}
	}
	for _, ch := range strayChars() {
		emit("stray:class", "match (n) return n"+ch)
		emit("stray:class", "match (n"+ch+") where n.a = 1"+ch+" return n")
		emit("stray:class", ch+"match (n) return n")
	}
	// (b) numeric literals over the whole double range and around +-2^63 in every literal position
	npos := 2
	if thorough {
		npos = 9
	}
	for _, s := range numericCases(rng, npos) {
		emit("num", s)
	}
	// (d) empty maps / lists / strings in EVERY expression position; (e) dangling sigils, operators without an operand, openers without
	// a closer, reserved words as names in every expression position of every clause kind
	for _, s := range slotCases(rng, emptyLits, exprPositions, 0) {
		emit("empty", s)
	}
	ndang := 0
	if !thorough {
		ndang = 20
	}
	for _, s := range slotCases(rng, danglingBits, exprPositions, ndang) {
		emit("dangling", s)
	}
	// (c) multi-byte / invalid UTF-8 payloads of 20..200 bytes inside every unsupported construct and error path
	npay := 3
	if thorough {
		npay = 40
	}
	pcs, uncovered := payloadCases(rng, npay)
	for _, s := range pcs {
		emit("payload", s)
	}
	stats.Counters["unsupported_rules_without_template"] = int64(len(uncovered))
	for _, u := range uncovered {
		stats.Inc("untemplated:" + u)
	}
	// huge literals
	sizes := []int{1 << 10, 1 << 14}
	if thorough {
		sizes = append(sizes, 1<<17)
	}
	for _, s := range sizes {
		emit("huge:string", "RETURN '"+strings.Repeat("a", s)+"'")
		emit("huge:ident", "MATCH ("+strings.Repeat("n", s)+") RETURN 1")
		emit("huge:escident", "MATCH (`"+strings.Repeat("n ", s/2)+"`) RETURN 1")
		emit("huge:digits", "RETURN "+strings.Repeat("9", s))
		emit("huge:decimals", "RETURN 0."+strings.Repeat("3", s))
		emit("huge:comment", "RETURN 1 /*"+strings.Repeat("c", s)+"*/")
		emit("huge:unterminated", "RETURN '"+strings.Repeat("a", s))
		emit("huge:spaces", "RETURN"+strings.Repeat(" ", s)+"1")
	}
	// token soups
	nsoup := 250
	if thorough {
		nsoup = 6000
	}
	for k := 0; k < nsoup; k++ {
		var b strings.Builder
		if rng.Chance(2, 3) {
			b.WriteString(Pick(rng, []string{"MATCH (n) ", "RETURN ", "MATCH (n) WHERE ", "WITH 1 AS x ", "UNWIND [1] AS x "}))
		}
		l := 1 + rng.Intn(14)
		for i := 0; i < l; i++ {
			b.WriteString(Pick(rng, c08Keywords))
			if rng.Chance(3, 4) {
				b.WriteString(" ")
			}
		}
		emit("soup", b.String())
	}
	// growth sweeps (timing only; not sent to the model)
	dbl := 7
	if thorough {
		dbl = 9
	}
	for _, fam := range c08FamilyNames() {
		n++
		fmt.Fprintf(w, "# case %d scale:%s\nscale %s 8 %d\n", n, fam, fam, dbl)
		stats.Inc("scale")
	}
}
