package main

import "strings"

// Multi-part query shapes shared by the c07 and c08 generators: parts that OPEN with an updating clause (every kind),
// with and without reading clauses before it, as first / middle / last part, closed by WITH or by RETURN (or by nothing).
// These are the shapes in which MultiPartQueryVisitor's Parts / partIdx bookkeeping decides where a clause lands.

var mpUpdating = []string{
	"create (m:A {a: 1})", "create (m)-[:R]->(k)", "merge (m:A {a: 1})", "merge (m:A) on create set m.a = 1 on match set m.b = 2",
	"set n.a = 1", "set n:A:B", "set n += {a: 1}", "set n = {a: 2}", "delete n", "detach delete n", "remove n.a", "remove n:A",
	"create (m) set m.a = 1", "set n.a = 1 remove n.b",
}

var mpReading = []string{"match (n)", "match (n)-[r]->(m) where n.a = 1", "unwind [1, 2] as x", "optional match (n:A)"}

var mpWith = []string{"with n", "with n, 1 as one", "with distinct n order by n.a limit 2", "with n where n.a > 1", "with *"}

var mpReturn = []string{"return n", "return n.a as a order by a", "return count(*)", ""}

// multiPartShapes enumerates a canonical set (deterministic order); pick/stride selects a subset for the quick tier.
func multiPartShapes(rng *Rng, n int) []string {
	var out []string
	add := func(parts ...string) {
		var xs []string
		for _, p := range parts {
			if p != "" {
				xs = append(xs, p)
			}
		}
		out = append(out, strings.Join(xs, " "))
	}
	// every updating clause kind opening the FIRST part / a MIDDLE part / the LAST part, with and without a reading clause before it
	for _, u := range mpUpdating {
		add(u, "with n", "return n")                                    // first part opens with the clause
		add("match (n)", u, "with n", "return n")                       // reading clause before it
		add("match (n)", "with n", u, "with n", "return n")             // middle part opens with it, closed by WITH
		add("match (n)", "with n", "match (k)", u, "with n", "return n") // middle part, reading clause before it
		add("match (n)", "with n", u, "return n")                       // last part (single part query) opens with it, closed by RETURN
		add("match (n)", "with n", u)                                   // last part, closed by nothing
		add(u, "with n", u, "with n", u, "return n")                    // every part opens with it
	}
	// random combinations
	for k := 0; k < n; k++ {
		var parts []string
		nparts := 1 + rng.Intn(3)
		for p := 0; p < nparts; p++ {
			if rng.Chance(1, 2) {
				parts = append(parts, Pick(rng, mpReading))
			}
			for q := rng.Intn(3); q > 0; q-- {
				parts = append(parts, Pick(rng, mpUpdating))
			}
			parts = append(parts, Pick(rng, mpWith))
		}
		if rng.Chance(1, 2) {
			parts = append(parts, Pick(rng, mpReading))
		}
		for q := rng.Intn(2); q > 0; q-- {
			parts = append(parts, Pick(rng, mpUpdating))
		}
		parts = append(parts, Pick(rng, mpReturn))
		add(parts...)
	}
	return out
}
