package main

// C20 tar / unpack part of suite `c20`.
//
//	tar <mode> <pre> <entry,entry,...>
//	  mode  plain | plainforce | encdirect | staged | stagedforce   (+trunc | +nofinal | +garbage on the enc modes: envelope tampering)
//	  pre   absent | empty | full          state of the destination before the call
//	  entry @collection                    every entry of the pristine collection tar of the case's dump
//	        <t>:<hexname>:<n>[+<extra>][:<hexlink>]
//	          t = r regular, a regular with the legacy NUL typeflag, s symlink, h hardlink, c char device,
//	              b block device, f fifo, d directory, x unknown typeflag 'Z'
//	          name bytes may contain the literal {ROOT} (replaced by the absolute sentinel root)
//	          n bytes of body are present, the header declares n+extra (oversize / truncated body; last entry only)
//
// The destination is <root>/dest inside a sentinel tree. Answer:
//
//	<ok|err> outside=<same|changed> new=<files created or changed in dest> old=<kept|gone|na> created=<hex;hex|-> cls=<class>

import (
	"archive/tar"
	"bufio"
	"bytes"
	"crypto/sha256"
	"encoding/binary"
	"encoding/hex"
	"fmt"
	"io"
	"os"
	"path/filepath"
	"sort"
	"strconv"
	"strings"

	"github.com/specterops/dawgs/retriever"
)

const c20Magic = "RTRV-PQ-ARCHIVE-v1"

type c20Entry struct {
	typ        byte
	name, link string
	size       int
	extra      int64
}

func c20ParseEntry(spec, root string) (c20Entry, bool) {
	parts := strings.Split(spec, ":")
	if len(parts) < 3 || len(parts) > 4 || len(parts[0]) != 1 {
		return c20Entry{}, false
	}
	nameBytes, err := hex.DecodeString(parts[1])
	if err != nil {
		return c20Entry{}, false
	}
	e := c20Entry{typ: parts[0][0], name: strings.ReplaceAll(string(nameBytes), "{ROOT}", root)}
	sizeSpec := parts[2]
	if i := strings.IndexByte(sizeSpec, '+'); i >= 0 {
		extra, err := strconv.ParseInt(sizeSpec[i+1:], 10, 64)
		if err != nil || extra <= 0 {
			return c20Entry{}, false
		}
		e.extra = extra
		sizeSpec = sizeSpec[:i]
	}
	if e.size, err = strconv.Atoi(sizeSpec); err != nil || e.size < 0 || e.size > 1<<20 {
		return c20Entry{}, false
	}
	if len(parts) == 4 {
		linkBytes, err := hex.DecodeString(parts[3])
		if err != nil {
			return c20Entry{}, false
		}
		e.link = strings.ReplaceAll(string(linkBytes), "{ROOT}", root)
	}
	return e, true
}

var c20TypeFlags = map[byte]byte{'r': tar.TypeReg, 'a': tar.TypeReg, 's': tar.TypeSymlink, 'h': tar.TypeLink,
	'c': tar.TypeChar, 'b': tar.TypeBlock, 'f': tar.TypeFifo, 'd': tar.TypeDir, 'x': 'Z'}

// c20BuildTar renders the entry list as a tar stream (no end-of-archive blocks after an oversize entry).
func c20BuildTar(specs []string, root string, collection []byte) ([]byte, error) {
	var buf bytes.Buffer
	tw := tar.NewWriter(&buf)
	open := false
	for _, spec := range specs {
		if open {
			return nil, fmt.Errorf("oversize entry must be last")
		}
		if spec == "@collection" {
			tr := tar.NewReader(bytes.NewReader(collection))
			for {
				h, err := tr.Next()
				if err == io.EOF {
					break
				}
				if err != nil {
					return nil, err
				}
				body, _ := io.ReadAll(tr)
				if err := tw.WriteHeader(&tar.Header{Name: h.Name, Typeflag: tar.TypeReg, Mode: 0o600, Size: int64(len(body))}); err != nil {
					return nil, err
				}
				if _, err := tw.Write(body); err != nil {
					return nil, err
				}
			}
			continue
		}
		e, ok := c20ParseEntry(spec, root)
		if !ok {
			return nil, fmt.Errorf("bad entry %q", spec)
		}
		flag, ok := c20TypeFlags[e.typ]
		if !ok {
			return nil, fmt.Errorf("bad entry type %q", spec)
		}
		h := &tar.Header{Name: e.name, Typeflag: flag, Mode: 0o600, Linkname: e.link}
		if flag == tar.TypeReg || flag == 'Z' {
			h.Size = int64(e.size) + e.extra
		}
		if flag == tar.TypeChar || flag == tar.TypeBlock {
			h.Devmajor, h.Devminor = 1, 3
		}
		if err := tw.WriteHeader(h); err != nil {
			return nil, err
		}
		if e.typ == 'a' { // legacy regular-file flag: patch the raw header block and its checksum
			block := buf.Bytes()[buf.Len()-512:]
			block[156] = 0
			copy(block[148:156], "        ")
			sum := 0
			for _, b := range block {
				sum += int(b)
			}
			copy(block[148:156], fmt.Sprintf("%06o\x00 ", sum))
		}
		if h.Size > 0 {
			if _, err := tw.Write(bytes.Repeat([]byte{'x'}, e.size)); err != nil {
				return nil, err
			}
		}
		if e.extra > 0 {
			open = true
		}
	}
	if open {
		return buf.Bytes(), nil
	}
	if err := tw.Close(); err != nil {
		return nil, err
	}
	return buf.Bytes(), nil
}

// c20Frames splits an encrypted archive into its prelude (magic, header length, header) and frames.
func c20Frames(arc []byte) (prelude []byte, frames [][]byte, ok bool) {
	if len(arc) < len(c20Magic)+4 {
		return nil, nil, false
	}
	off := len(c20Magic) + 4 + int(binary.BigEndian.Uint32(arc[len(c20Magic):]))
	if off > len(arc) {
		return nil, nil, false
	}
	prelude = arc[:off]
	for off < len(arc) {
		if off+5 > len(arc) {
			return nil, nil, false
		}
		n := int(binary.BigEndian.Uint32(arc[off+1:]))
		if off+5+n > len(arc) {
			return nil, nil, false
		}
		frames = append(frames, arc[off:off+5+n])
		off += 5 + n
	}
	return prelude, frames, true
}

func c20TreeHash(root, skip string) string {
	h := sha256.New()
	_ = filepath.Walk(root, func(p string, info os.FileInfo, err error) error {
		if err != nil {
			fmt.Fprintf(h, "ERR %s\n", p)
			return nil
		}
		if p == skip { // the destination itself is judged separately
			if info.IsDir() {
				return filepath.SkipDir
			}
			return nil
		}
		rel, _ := filepath.Rel(root, p)
		fmt.Fprintf(h, "%s %v %d ", rel, info.Mode().Type(), info.Mode().Perm())
		switch {
		case info.Mode()&os.ModeSymlink != 0:
			target, _ := os.Readlink(p)
			fmt.Fprintf(h, "-> %s", target)
		case info.Mode().IsRegular():
			data, _ := os.ReadFile(p)
			fmt.Fprintf(h, "%x", sha256.Sum256(data))
		}
		fmt.Fprintln(h)
		return nil
	})
	return hex.EncodeToString(h.Sum(nil))
}

const c20OldA, c20OldB = "old content A", "old content B"

func (r *c20Runner) tarOp(mode, pre, entries string) string {
	d := r.dump
	tamper := ""
	if i := strings.IndexByte(mode, '+'); i >= 0 {
		mode, tamper = mode[:i], mode[i+1:]
	}
	root, err := os.MkdirTemp("", "c20-root-*")
	if err != nil {
		return "harness-error " + err.Error()
	}
	defer os.RemoveAll(root)
	marker := filepath.Join(os.TempDir(), "c20-evil-marker.txt")
	_ = os.Remove(marker)
	defer os.Remove(marker)
	dest := filepath.Join(root, "dest")
	_ = os.MkdirAll(filepath.Join(root, "sib"), 0o755)
	_ = os.WriteFile(filepath.Join(root, "outside.txt"), []byte("sentinel"), 0o600)
	_ = os.WriteFile(filepath.Join(root, "sib", "keep.txt"), []byte("sentinel-2"), 0o600)
	switch pre {
	case "absent":
	case "empty":
		_ = os.MkdirAll(dest, 0o755)
	case "full":
		_ = os.MkdirAll(filepath.Join(dest, "sub"), 0o755)
		_ = os.WriteFile(filepath.Join(dest, "old.txt"), []byte(c20OldA), 0o600)
		_ = os.WriteFile(filepath.Join(dest, "sub", "old2.txt"), []byte(c20OldB), 0o600)
	default:
		return "bad-op"
	}
	payload, err := c20BuildTar(strings.Split(entries, ","), root, d.tarBytes)
	if err != nil {
		r.stats.Inc("tar.unbuildable")
		return "skip unbuildable " + strings.ReplaceAll(err.Error(), "\n", " ")
	}
	enc := strings.HasPrefix(mode, "enc") || strings.HasPrefix(mode, "staged")
	if enc {
		var buf bytes.Buffer
		w, err := retriever.NewEncryptedArchiveWriter(&buf, d.pub)
		if err != nil {
			return "harness-error " + err.Error()
		}
		if _, err := w.Write(payload); err != nil {
			return "harness-error " + err.Error()
		}
		if err := w.Close(); err != nil {
			return "harness-error " + err.Error()
		}
		payload = buf.Bytes()
		switch tamper {
		case "":
		case "trunc":
			payload = payload[:len(payload)-3]
		case "garbage":
			payload = append(payload, 0)
		case "nofinal":
			prelude, frames, ok := c20Frames(payload)
			if !ok || len(frames) == 0 {
				return "harness-error frames"
			}
			payload = append([]byte(nil), prelude...)
			for _, f := range frames[:len(frames)-1] {
				payload = append(payload, f...)
			}
		case "flipfinal":
			payload[len(payload)-1] ^= 1
		default:
			return "bad-op"
		}
	} else if tamper != "" {
		return "bad-op"
	}
	before := c20TreeHash(root, dest)
	var runErr error
	switch mode {
	case "plain":
		runErr = retriever.UnpackTar(c20Reader(payload), dest, false)
	case "plainforce":
		runErr = retriever.UnpackTar(c20Reader(payload), dest, true)
	case "encdirect":
		runErr = retriever.UnpackEncryptedCollectionArchive(c20Reader(payload), dest, d.priv)
	case "staged", "stagedforce":
		runErr = retriever.Unpack(retriever.UnpackOptions{ArchiveReader: c20Reader(payload), ArchiveIdentity: d.priv, OutputDir: dest, Force: mode == "stagedforce"})
	default:
		return "bad-op"
	}
	outside := "same"
	if c20TreeHash(root, dest) != before {
		outside = "changed"
	}
	if _, err := os.Lstat(marker); err == nil {
		outside = "changed"
	}
	created := []string{}
	newCount := 0
	oldA, oldB := false, false
	_ = filepath.Walk(dest, func(p string, info os.FileInfo, err error) error {
		if err != nil || p == dest || info.IsDir() {
			return nil
		}
		rel, _ := filepath.Rel(dest, p)
		rel = filepath.ToSlash(rel)
		if pre == "full" && info.Mode().IsRegular() {
			data, _ := os.ReadFile(p)
			if rel == "old.txt" && string(data) == c20OldA {
				oldA = true
				return nil
			}
			if rel == "sub/old2.txt" && string(data) == c20OldB {
				oldB = true
				return nil
			}
		}
		newCount++
		created = append(created, hex.EncodeToString([]byte(rel)))
		return nil
	})
	sort.Strings(created)
	old := "na"
	if pre == "full" {
		old = "gone"
		if oldA && oldB {
			old = "kept"
		}
	}
	res, cls := "ok", "-"
	if runErr != nil {
		res, cls = "err", c20UnpackErrClass(runErr)
	}
	r.stats.Inc("branch.unpack." + mode + "." + res)
	r.stats.Inc("unpackclass." + cls)
	list := "-"
	if len(created) > 0 {
		if len(created) > 40 {
			created = created[:40]
		}
		list = strings.Join(created, ";")
	}
	return fmt.Sprintf("%s outside=%s new=%d old=%s created=%s cls=%s", res, outside, newCount, old, list, cls)
}

func c20UnpackErrClass(err error) string {
	m := err.Error()
	for _, p := range [][2]string{
		{"is empty", "path-empty"}, {"slash separators", "path-backslash"}, {"must be relative", "path-absolute"},
		{"path traversal", "path-traversal"}, {"is invalid", "path-invalid"}, {"duplicate path", "duplicate"},
		{"not a regular file", "not-regular"}, {"negative size", "negative-size"}, {"create parent directory", "mkdir"},
		{"create unpacked file", "create"}, {"write unpacked file", "write"}, {"size mismatch", "size"},
		{"read tar entry", "tar-read"}, {"is not empty", "dest-not-empty"}, {"unexpected file", "collection-unexpected"},
		{"missing file", "collection-missing"}, {"manifest", "collection-manifest"}, {"sha256 mismatch", "collection-checksum"},
		{"byte mismatch", "collection-bytes"}, {"missing final frame", "frame-missing-final"}, {"decrypt archive frame", "frame-decrypt"},
		{"trailing data", "frame-trailing"}, {"archive frame", "frame-read"},
	} {
		if strings.Contains(m, p[0]) {
			return p[1]
		}
	}
	return "other"
}

// ---------------------------------------------------------------- generator

func c20Hex(s string) string { return hex.EncodeToString([]byte(s)) }

// c20HostileNames is the path generator shared by the tar part and the path suite: absolute, parent,
// volume, backslash, "./", trailing slash, unicode, very long, empty, "." and friends.
func c20HostileNames(rng *Rng, n int) []string {
	fixed := []string{
		"ok.txt", "dir/ok.txt", "a/b/c/d.txt",
		"../evil.txt", "../../evil.txt", "dir/../../evil.txt", "./../evil.txt", "a/../../evil.txt", "a/./../../evil.txt", "..", "../", "a/..", "a/../..",
		"../sib/keep.txt", "../outside.txt", "..//outside.txt", ".././outside.txt",
		"{ROOT}/abs-evil.txt", "/abs-evil.txt", "//abs-evil.txt", "/", " /abs.txt", "\t/abs.txt",
		"C:evil.txt", "C:/evil.txt", "c:\\evil.txt", "Z:", "C:", "1:/x", "é:/x",
		"dir\\evil.txt", "..\\evil.txt", "\\evil.txt", "a\\..\\..\\evil.txt",
		"./ok2.txt", "././ok3.txt", "./", ".", "./.", "a/.", "a/./b",
		"trail/", "trail//", "a//b", "//", "a/b/",
		" lead.txt", "trailsp.txt ", " ", "\t", " .. ", " ../x", "../x ", "\u00a0../nbsp", "\u2028ls", "\u3000wide", "a\u00a0", "\u0085x",
		"...", "....", "..a", "a..", "..a/b", "a/...b/c", ".../x", "a/.../b",
		"unicode-é-日本-😀.txt", "日本/語.txt", "e\u0301.txt",
		"~", "~/x", "-rf", "con", "nul.txt", "a:b", "a/b:c",
		strings.Repeat("x", 120), strings.Repeat("x", 255), strings.Repeat("x", 256), strings.Repeat("d/", 60) + "f", strings.Repeat("../", 40) + "x",
		strings.Repeat("a/", 3) + strings.Repeat("../", 3) + "x", strings.Repeat("a/", 3) + strings.Repeat("../", 4) + "x",
		"../../../../../../../../../../tmp/c20-evil-marker.txt",
	}
	comps := []string{"a", "b.txt", "..", ".", "", "...", "..a", " ", "C:", "\\", "é", "x y", "\u00a0", "d"}
	out := append([]string{}, fixed...)
	for len(out) < n {
		k := 1 + rng.Intn(5)
		parts := make([]string, k)
		for i := range parts {
			parts[i] = Pick(rng, comps)
		}
		s := strings.Join(parts, "/")
		switch rng.Intn(8) {
		case 0:
			s = "/" + s
		case 1:
			s = s + "/"
		case 2:
			s = " " + s
		case 3:
			s = "./" + s
		}
		out = append(out, s)
	}
	return out
}

func c20GenTar(rng *Rng, tier string, w *bufio.Writer, stats *Stats, header func(desc, dump string)) {
	thorough := tier == "thorough"
	dumpLine := "dump codec=gzip graphs=1 nodes=2 edges=1 shard=2 batch=2 gseed=7"
	emit := func(desc string, ops []string) { // one op per case (see the dump cache in c20Runner.Step)
		for _, o := range ops {
			header(desc, dumpLine)
			fmt.Fprintln(w, o)
		}
	}
	names := c20HostileNames(rng, map[bool]int{false: 140, true: 600}[thorough])
	good := "r:" + c20Hex("first.txt") + ":3"
	// 1. one hostile name, alone and after a good entry, every entry type, plain path
	var ops []string
	types := []string{"r", "a", "s", "h", "c", "b", "f", "d", "x"}
	for _, name := range names {
		for _, t := range types {
			if !thorough && t != "r" && rng.Intn(4) != 0 {
				continue
			}
			spec := fmt.Sprintf("%s:%s:%d", t, c20Hex(name), map[bool]int{true: 4, false: 0}[t == "r" || t == "a"])
			if t == "s" || t == "h" {
				spec += ":" + c20Hex(Pick(rng, []string{"../outside.txt", "{ROOT}/outside.txt", "first.txt", "/etc/passwd"}))
			}
			ops = append(ops, "tar plain absent "+spec)
			ops = append(ops, "tar plain "+Pick(rng, []string{"absent", "empty"})+" "+good+","+spec)
			stats.Inc("gen.tar_name_type")
		}
	}
	emit("tar-names", ops)
	ops = nil
	// 2. link-then-write-through, duplicates, oversize, directory tricks
	link := func(target string) string { return "s:" + c20Hex("lnk") + ":0:" + c20Hex(target) }
	ops = append(ops,
		"tar plain absent "+link("../sib")+",r:"+c20Hex("lnk/keep.txt")+":5",
		"tar plain absent "+link("{ROOT}")+",r:"+c20Hex("lnk/outside.txt")+":5",
		"tar plain absent "+good+","+link("..")+",r:"+c20Hex("lnk/evil.txt")+":5",
		"tar plain absent h:"+c20Hex("hl")+":0:"+c20Hex("../outside.txt")+",r:"+c20Hex("hl")+":5",
		"tar plain absent "+good+",r:"+c20Hex("first.txt")+":5",
		"tar plain absent "+good+",r:"+c20Hex("./first.txt")+":5",
		"tar plain absent "+good+",r:"+c20Hex("x/../first.txt")+":5",
		"tar plain absent "+good+",r:"+c20Hex(" first.txt ")+":5",
		"tar plain absent "+good+",r:"+c20Hex("first.txt/")+":5",
		"tar plain absent "+good+",r:"+c20Hex("first.txt/sub")+":5",
		"tar plain absent r:"+c20Hex("d/f")+":2,r:"+c20Hex("d")+":2",
		"tar plain absent d:"+c20Hex("d/")+":0,r:"+c20Hex("d/f")+":2",
		"tar plain absent "+good+",r:"+c20Hex("big.bin")+":10+1099511627776",
		"tar plain absent "+good+",r:"+c20Hex("big.bin")+":0+5",
		"tar plain absent r:"+c20Hex("big.bin")+":700+1",
		"tar plain absent "+good+",x:"+c20Hex("weird")+":3",
		"tar plain absent "+good+",r:"+c20Hex("second.txt")+":0,r:"+c20Hex("third/t.txt")+":1",
		"tar plain empty "+good, "tar plain full "+good, "tar plainforce full "+good, "tar plainforce full "+good+",r:"+c20Hex("../evil")+":1",
		"tar plainforce full r:"+c20Hex("../evil")+":1", "tar plain full r:"+c20Hex("../evil")+":1",
	)
	emit("tar-structure", ops)
	ops = nil
	// 3. encrypted paths: the real collection, alone / with hostile additions / with envelope tampering
	encModes := []string{"encdirect", "staged", "stagedforce"}
	for _, m := range encModes {
		for _, pre := range []string{"absent", "empty", "full"} {
			ops = append(ops, fmt.Sprintf("tar %s %s @collection", m, pre))
			for _, tamper := range []string{"trunc", "nofinal", "garbage", "flipfinal"} {
				ops = append(ops, fmt.Sprintf("tar %s+%s %s @collection", m, tamper, pre))
			}
			ops = append(ops, fmt.Sprintf("tar %s %s @collection,r:%s:2", m, pre, c20Hex("extra.txt")))
			ops = append(ops, fmt.Sprintf("tar %s %s @collection,r:%s:2", m, pre, c20Hex("../evil.txt")))
			ops = append(ops, fmt.Sprintf("tar %s %s %s", m, pre, good))
		}
		k := 25
		if thorough {
			k = len(names)
		}
		for i := 0; i < k; i++ {
			name := names[(i*7)%len(names)]
			t := Pick(rng, types)
			spec := fmt.Sprintf("%s:%s:%d", t, c20Hex(name), map[bool]int{true: 4, false: 0}[t == "r" || t == "a"])
			if t == "s" || t == "h" {
				spec += ":" + c20Hex("../outside.txt")
			}
			ops = append(ops, fmt.Sprintf("tar %s %s @collection,%s", m, Pick(rng, []string{"absent", "empty", "full"}), spec))
			ops = append(ops, fmt.Sprintf("tar %s absent %s,@collection", m, spec))
			stats.Inc("gen.tar_enc")
		}
	}
	emit("tar-encrypted", ops)
}
