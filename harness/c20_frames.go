package main

// Suite `c20frames`: acceptance of encrypted-archive frame sequences, real reader (real HPKE) against the
// Lean frame protocol model over a symbolic ideal AEAD.
//
// Two archives A (3 chunks) and B (2 chunks) are written to the SAME recipient key pair; a third key pair
// W is the wrong identity. A script assembles a stream from their frames:
//
//	frames <hdr> <key> <tok> <tok> ...
//	  hdr  A | B | Am       header of A, of B, or A's header re-encoded (same encapsulated key, different bytes)
//	  key  R | W            right recipient identity or the wrong one
//	  tok  a0 a1 a2 af b0 b1 bf   frame i / final frame of A or B
//	       x<tok>           same ciphertext, frame type byte flipped data<->final
//	       y<tok>           same ciphertext, unsupported frame type 7
//	       j                one stray byte (only as the last token)
//	       t<tok>           the frame cut one byte short (only as the last token)
//	       z<type>.<n>      an INSERTED frame nobody sealed: header with frame type <type> (0 data, 1 final, 7 unknown) declaring
//	                        n bytes of ciphertext, followed by n zero bytes (n = 0: the five bytes 00 00 00 00 00)
//
// Answer: ok <chunk ids, e.g. A0.A1.A2> | err <missing-final|bad-type|decrypt|final-plaintext|trailing|short-frame|setup>

import (
	"bufio"
	"bytes"
	"crypto/hpke"
	"encoding/binary"
	"encoding/json"
	"fmt"
	"io"
	"strings"

	"github.com/specterops/dawgs/retriever"
)

type c20FramesSuite struct{}

func init() { register("c20frames", c20FramesSuite{}) }

type c20Arc struct {
	header []byte   // header JSON bytes
	frames [][]byte // raw frames: type, len, ciphertext
}

type c20FrameWorld struct {
	priv, wrong hpke.PrivateKey
	arcs        map[string]*c20Arc
	amHeader    []byte
	err         error
}

var c20World *c20FrameWorld

var c20Chunks = map[string][]string{"a": {"A0", "A1", "A2"}, "b": {"B0", "B1"}}

func c20GetWorld() *c20FrameWorld {
	if c20World != nil {
		return c20World
	}
	w := &c20FrameWorld{arcs: map[string]*c20Arc{}}
	c20World = w
	var pub hpke.PublicKey
	if w.priv, pub, w.err = retriever.GenerateArchiveKeyPair(); w.err != nil {
		return w
	}
	if w.wrong, _, w.err = retriever.GenerateArchiveKeyPair(); w.err != nil {
		return w
	}
	for _, name := range []string{"a", "b"} {
		var buf bytes.Buffer
		wr, err := retriever.NewEncryptedArchiveWriter(&buf, pub)
		if err != nil {
			w.err = err
			return w
		}
		for _, chunk := range c20Chunks[name] {
			if _, err := wr.Write([]byte(chunk)); err != nil {
				w.err = err
				return w
			}
		}
		if err := wr.Close(); err != nil {
			w.err = err
			return w
		}
		prelude, frames, ok := c20Frames(buf.Bytes())
		if !ok || len(frames) != len(c20Chunks[name])+1 {
			w.err = fmt.Errorf("cannot split archive %s", name)
			return w
		}
		w.arcs[name] = &c20Arc{header: append([]byte(nil), prelude[len(c20Magic)+4:]...), frames: frames}
	}
	// Am: decode and re-encode A's header with indentation: same fields, same encapsulated key, other bytes
	var generic map[string]any
	if w.err = json.Unmarshal(w.arcs["a"].header, &generic); w.err != nil {
		return w
	}
	w.amHeader, w.err = json.MarshalIndent(generic, "", " ")
	return w
}

type c20FramesRunner struct{ stats *Stats }

func (c20FramesSuite) NewRunner(stats *Stats) Runner { c20Quiet(); return &c20FramesRunner{stats: stats} }

func c20FrameErrClass(err error) string {
	m := err.Error()
	switch {
	case strings.Contains(m, "missing final frame"):
		return "missing-final"
	case strings.Contains(m, "unsupported type"):
		return "bad-type"
	case strings.Contains(m, "decrypt archive frame"):
		return "decrypt"
	case strings.Contains(m, "final frame contained plaintext"):
		return "final-plaintext"
	case strings.Contains(m, "trailing data"):
		return "trailing"
	case strings.Contains(m, "did not end after final"):
		return "no-eof"
	case strings.Contains(m, "read archive frame"):
		return "short-frame"
	}
	return "other:" + strings.ReplaceAll(m, " ", "_")
}

func (r *c20FramesRunner) Step(t []string, raw string) string {
	if len(t) >= 4 && t[0] == "framesr" && c20KnownBehaviour(t[1]) {
		// the same script, the stream delivered through another reader behaviour
		c20ReaderBehaviour = t[1]
		defer func() { c20ReaderBehaviour = "plain" }()
		r.stats.Inc("reader." + t[1])
		ans := r.Step(append([]string{"frames"}, t[2:]...), raw)
		if t[1] == "timeout" && strings.HasPrefix(ans, "err") {
			return "err transient" // which read call hits the transient error is not part of the protocol
		}
		return ans
	}
	if len(t) < 3 || t[0] != "frames" {
		return "bad-op"
	}
	w := c20GetWorld()
	if w.err != nil {
		return "err setup"
	}
	var header []byte
	switch t[1] {
	case "A":
		header = w.arcs["a"].header
	case "B":
		header = w.arcs["b"].header
	case "Am":
		header = w.amHeader
	default:
		return "bad-op"
	}
	identity := w.priv
	switch t[2] {
	case "R":
	case "W":
		identity = w.wrong
	default:
		return "bad-op"
	}
	var stream bytes.Buffer
	stream.WriteString(c20Magic)
	var n [4]byte
	binary.BigEndian.PutUint32(n[:], uint32(len(header)))
	stream.Write(n[:])
	stream.Write(header)
	toks := t[3:]
	for i, tok := range toks {
		last := i == len(toks)-1
		if tok == "j" {
			if !last {
				return "bad-op"
			}
			stream.WriteByte(0xff)
			continue
		}
		if strings.HasPrefix(tok, "z") {
			var typ, n int
			if _, err := fmt.Sscanf(tok, "z%d.%d", &typ, &n); err != nil || typ < 0 || typ > 255 || n < 0 || n > 1<<20 {
				return "bad-op"
			}
			var hdr [5]byte
			hdr[0] = byte(typ)
			binary.BigEndian.PutUint32(hdr[1:], uint32(n))
			stream.Write(hdr[:])
			stream.Write(make([]byte, n))
			continue
		}
		mod := byte(0)
		if len(tok) == 3 {
			mod, tok = tok[0], tok[1:]
		}
		if len(tok) != 2 {
			return "bad-op"
		}
		arc, ok := w.arcs[tok[:1]]
		if !ok {
			return "bad-op"
		}
		idx := len(arc.frames) - 1
		if tok[1] != 'f' {
			idx = int(tok[1] - '0')
			if idx < 0 || idx >= len(arc.frames)-1 {
				return "bad-op"
			}
		}
		frame := append([]byte(nil), arc.frames[idx]...)
		switch mod {
		case 0:
		case 'x':
			frame[0] ^= 1
		case 'y':
			frame[0] = 7
		case 't':
			if !last {
				return "bad-op"
			}
			frame = frame[:len(frame)-1]
		default:
			return "bad-op"
		}
		stream.Write(frame)
	}
	reader, err := retriever.NewEncryptedArchiveReader(c20Reader(stream.Bytes()), identity)
	if err != nil {
		return "err setup"
	}
	plain, err := io.ReadAll(reader)
	if err != nil {
		cls := c20FrameErrClass(err)
		r.stats.Inc("branch.frames.err." + cls)
		return "err " + cls
	}
	r.stats.Inc("branch.frames.ok")
	// chunk ids are two bytes each
	ids := []string{}
	for i := 0; i+2 <= len(plain); i += 2 {
		ids = append(ids, string(plain[i:i+2]))
	}
	if len(ids) == 0 {
		return "ok -"
	}
	return "ok " + strings.Join(ids, ".")
}

func (c20FramesSuite) Gen(rng *Rng, tier string, w *bufio.Writer, stats *Stats) {
	thorough := tier == "thorough"
	base := []string{"a0", "a1", "a2", "af", "b0", "b1", "bf"}
	caseNo := 0
	var ops []string
	flush := func(desc string) {
		for len(ops) > 0 {
			n := len(ops)
			if n > 300 {
				n = 300
			}
			caseNo++
			fmt.Fprintf(w, "# case %d %s\n# scripts\n", caseNo, desc)
			for _, o := range ops[:n] {
				fmt.Fprintln(w, o)
			}
			ops = ops[n:]
		}
	}
	// named attacks
	honestA, honestB := "a0 a1 a2 af", "b0 b1 bf"
	for _, s := range []string{
		honestA, "a0 a1 a2", "a0 a1 af", "a0 af", "af", "", "a0 a1 a2 af j", "a0 a1 a2 af af", "a0 a1 a2 af a0", "a0 a1 a2 af bf",
		"a1 a0 a2 af", "a0 a2 a1 af", "a0 a0 a1 a2 af", "a0 a1 a1 a2 af", "a0 a1 a2 a2 af", "a0 b1 a2 af", "b0 a1 a2 af", "a0 a1 a2 bf", "a0 a1 b0 b1 bf",
		"a0 a1 a2 xaf", "xa0 a1 a2 af", "a0 a1 xa2", "ya0 a1 a2 af", "a0 a1 a2 yaf", "a0 a1 a2 taf", "a0 ta1", "a0 a1 j", "j", "ta0",
	} {
		for _, h := range []string{"A", "B", "Am"} {
			for _, k := range []string{"R", "W"} {
				ops = append(ops, strings.TrimSpace(fmt.Sprintf("frames %s %s %s", h, k, s)))
			}
		}
	}
	ops = append(ops, "frames B R "+honestB, "frames B R b0 bf", "frames B R b1 b0 bf", "frames B R a0 a1 a2 af", "frames B R b0 b1 af")
	opsNamed := append([]string{}, ops...)
	flush("named")
	// every named attack and the honest streams again under every reader behaviour
	named := append([]string{}, opsNamed...)
	for _, beh := range c20Behaviours[1:] {
		for _, o := range named {
			ops = append(ops, "framesr "+beh+" "+strings.TrimPrefix(o, "frames "))
			stats.Inc("gen.reader_scripts")
		}
	}
	flush("named-readers")
	// frame-level insertions: a frame nobody sealed, of every type and of declared length 0, 1, 15 (< tag), 16 (tag
	// only), 17, 64, at every frame boundary of the honest streams, under every reader behaviour
	for _, honest := range []struct{ hdr, seq string }{{"A", honestA}, {"B", honestB}} {
		toks := strings.Fields(honest.seq)
		for pos := 0; pos <= len(toks); pos++ {
			for _, typ := range []int{0, 1, 7} {
				for _, n := range []int{0, 1, 15, 16, 17, 64} {
					ins := append(append(append([]string{}, toks[:pos]...), fmt.Sprintf("z%d.%d", typ, n)), toks[pos:]...)
					ops = append(ops, fmt.Sprintf("frames %s R %s", honest.hdr, strings.Join(ins, " ")))
					if n == 0 || thorough {
						for _, beh := range c20Behaviours[1:] {
							ops = append(ops, fmt.Sprintf("framesr %s %s R %s", beh, honest.hdr, strings.Join(ins, " ")))
						}
					}
					stats.Inc("gen.inserted_frames")
				}
			}
		}
	}
	ops = append(ops, "frames A R z0.0", "frames A R z0.0 z0.0 a0 a1 a2 af", "frames A R a0 z0.0 z0.0 z0.0 a1 a2 af", "frames A R a0 a1 a2 z1.0", "frames A R z1.0")
	flush("inserted")
	// exhaustive: every sequence of base frames up to length L under header A with the right key
	L := 4
	if thorough {
		L = 5
	}
	level := []string{""}
	count := 0
	for k := 1; k <= L; k++ {
		var next []string
		for _, s := range level {
			for _, b := range base {
				next = append(next, strings.TrimSpace(s+" "+b))
			}
		}
		for _, s := range next {
			ops = append(ops, "frames A R "+s)
			count++
			if thorough || k <= 3 {
				ops = append(ops, "frames B R "+s)
				count++
			}
		}
		level = next
	}
	stats.Add("gen.exhaustive_scripts", int64(count))
	flush("exhaustive")
	// random scripts with modifiers and tails
	n := 1500
	if thorough {
		n = 40000
	}
	for i := 0; i < n; i++ {
		var toks []string
		if rng.Chance(2, 3) { // perturb the honest sequence
			toks = strings.Fields(honestA)
			switch rng.Intn(6) {
			case 0:
				j := rng.Intn(len(toks))
				toks = append(toks[:j], toks[j+1:]...)
			case 1:
				j := rng.Intn(len(toks))
				toks = append(toks[:j+1], toks[j:]...)
			case 2:
				j, k := rng.Intn(len(toks)), rng.Intn(len(toks))
				toks[j], toks[k] = toks[k], toks[j]
			case 3:
				toks[rng.Intn(len(toks))] = Pick(rng, base)
			case 4:
				j := rng.Intn(len(toks))
				toks[j] = Pick(rng, []string{"x", "y"}) + toks[j]
			case 5:
				toks = toks[:rng.Intn(len(toks)+1)]
			}
		} else {
			for k := rng.Intn(6); k > 0; k-- {
				tok := Pick(rng, base)
				if rng.Chance(1, 8) {
					tok = Pick(rng, []string{"x", "y"}) + tok
				}
				toks = append(toks, tok)
			}
		}
		if rng.Chance(1, 6) {
			j := rng.Intn(len(toks) + 1)
			ins := fmt.Sprintf("z%d.%d", Pick(rng, []int{0, 0, 0, 1, 7}), Pick(rng, []int{0, 0, 1, 15, 16, 40}))
			toks = append(toks[:j], append([]string{ins}, toks[j:]...)...)
		}
		switch rng.Intn(8) {
		case 0:
			toks = append(toks, "j")
		case 1:
			toks = append(toks, "t"+Pick(rng, base))
		}
		verb := "frames"
		if rng.Chance(1, 3) {
			verb = "framesr " + Pick(rng, c20Behaviours[1:])
		}
		ops = append(ops, strings.TrimSpace(fmt.Sprintf("%s %s %s %s", verb, Pick(rng, []string{"A", "A", "A", "B", "Am"}), Pick(rng, []string{"R", "R", "R", "W"}), strings.Join(toks, " "))))
		stats.Inc("gen.random_scripts")
	}
	flush("random")
}
