package main

import (
	"fmt"
	"strings"
)

// cyGen is the structured random Cypher text generator shared by the translator suites (C01, C02, C03).
// It is written against the translator's own branch points: frame crossings (WITH / multi-MATCH), pattern
// predicates, quantifiers, OPTIONAL MATCH, expansions with and without bounds, path bindings, every direction,
// kind matchers, typed property comparisons, string operators, aggregates, ORDER BY / SKIP / LIMIT / DISTINCT.
// Level bounds the surface: 1 single node pattern, 2 fixed hops / multi-pattern, 3 WITH / UNWIND / aggregates,
// 4 expansions and paths, 5 OPTIONAL MATCH / quantifiers / pattern predicates.
type cyGen struct {
	rng     *Rng
	level   int
	vars    []cyVar
	counter int
	feat    map[string]bool // features used by the current query (for coverage counters)
}

type cyVar struct {
	name string
	kind string // node | rel | path | num | str | list | rels
}

var (
	cyNodeKinds = []string{"NodeKind1", "NodeKind2"}
	cyEdgeKinds = []string{"EdgeKind1", "EdgeKind2"}
	cyStrProps  = []string{"name"}
	cyNumProps  = []string{"a", "b"}
	cyStrLits   = []string{"'x'", "'y'", "'xy'", "''", "'1'"}
	cyNumLits   = []string{"0", "1", "2", "3"}
)

func newCyGen(rng *Rng, level int) *cyGen {
	return &cyGen{rng: rng, level: level, feat: map[string]bool{}}
}

func (g *cyGen) use(f string) { g.feat[f] = true }

func (g *cyGen) fresh(prefix, kind string) cyVar {
	v := cyVar{name: fmt.Sprintf("%s%d", prefix, g.counter), kind: kind}
	g.counter++
	g.vars = append(g.vars, v)
	return v
}

func (g *cyGen) varsOf(kinds ...string) []cyVar {
	var out []cyVar
	for _, v := range g.vars {
		for _, k := range kinds {
			if v.kind == k {
				out = append(out, v)
			}
		}
	}
	return out
}

func (g *cyGen) kinds(pool []string) string {
	switch g.rng.Intn(6) {
	case 0, 1, 2:
		return ""
	case 3, 4:
		return ":" + Pick(g.rng, pool)
	default:
		if pool[0] == cyEdgeKinds[0] {
			return ":" + pool[0] + "|" + pool[1]
		}
		return ":" + pool[0] + ":" + pool[1]
	}
}

func (g *cyGen) propMap() string {
	if !g.rng.Chance(1, 6) {
		return ""
	}
	g.use("propmap")
	if g.rng.Bool() {
		return " {name: " + Pick(g.rng, cyStrLits) + "}"
	}
	return " {a: " + Pick(g.rng, cyNumLits) + "}"
}

// nodePat renders one node pattern; with reuse it may re-reference a bound node variable.
func (g *cyGen) nodePat(allowReuse, bind bool) string {
	if allowReuse && g.rng.Chance(1, 4) {
		if ns := g.varsOf("node"); len(ns) > 0 {
			g.use("rebound-node")
			return "(" + Pick(g.rng, ns).name + ")"
		}
	}
	if !bind && g.rng.Chance(1, 2) {
		return "(" + g.kinds(cyNodeKinds) + g.propMap() + ")"
	}
	v := g.fresh("n", "node")
	return "(" + v.name + g.kinds(cyNodeKinds) + g.propMap() + ")"
}

func (g *cyGen) relPat(bind bool) string {
	name := ""
	expansion := g.level >= 4 && g.rng.Chance(1, 3)
	rng := ""
	if expansion {
		g.use("expansion")
		rng = Pick(g.rng, []string{"*", "*1..", "*..2", "*1..2", "*2..3", "*0..1", "*2", "*2..2", "*1", "*3..3"})
	}
	if bind || g.rng.Chance(1, 2) {
		if expansion {
			name = g.fresh("r", "rels").name
		} else {
			name = g.fresh("r", "rel").name
		}
	}
	body := name + g.kinds(cyEdgeKinds) + rng
	if !expansion && g.rng.Chance(1, 8) {
		body += " {w: " + Pick(g.rng, cyNumLits) + "}"
		g.use("rel-propmap")
	} else if expansion && g.rng.Chance(1, 6) {
		// the grammar wants the map directly after the range
		body += "{w: " + Pick(g.rng, cyNumLits) + "}"
		g.use("varlen-propmap")
	}
	if body != "" {
		body = "[" + body + "]"
	}
	switch g.rng.Intn(5) {
	case 0, 1:
		g.use("dir-out")
		return "-" + body + "->"
	case 2, 3:
		g.use("dir-in")
		return "<-" + body + "-"
	default:
		g.use("dir-both")
		return "-" + body + "-"
	}
}

func (g *cyGen) pattern(maxHops int, allowPath bool) string {
	var b strings.Builder
	pathVar := ""
	if allowPath && g.level >= 4 && g.rng.Chance(1, 4) {
		pathVar = g.fresh("p", "path").name
		g.use("path-binding")
		b.WriteString(pathVar + " = ")
	}
	hops := 0
	if g.level >= 2 && maxHops > 0 {
		hops = g.rng.Intn(maxHops + 1)
	}
	if pathVar != "" && hops == 0 {
		hops = 1
	}
	b.WriteString(g.nodePat(true, true))
	for i := 0; i < hops; i++ {
		b.WriteString(g.relPat(false))
		b.WriteString(g.nodePat(true, false))
	}
	if hops > 0 {
		g.use(fmt.Sprintf("hops-%d", hops))
	}
	return b.String()
}

func (g *cyGen) scalarExpr(depth int) (string, bool) {
	ns := g.varsOf("node", "rel")
	nums := g.varsOf("num")
	switch {
	case len(nums) > 0 && g.rng.Chance(1, 3):
		return Pick(g.rng, nums).name, true
	case len(ns) > 0:
		v := Pick(g.rng, ns)
		switch g.rng.Intn(6) {
		case 0:
			return "id(" + v.name + ")", true
		case 1:
			return v.name + "." + Pick(g.rng, cyStrProps), true
		default:
			return v.name + "." + Pick(g.rng, cyNumProps), true
		}
	}
	return Pick(g.rng, cyNumLits), true
}

// predicate renders one boolean expression over the variables in scope.
func (g *cyGen) predicate(depth int) string {
	ns := g.varsOf("node")
	rs := g.varsOf("rel")
	if len(ns)+len(rs) == 0 {
		if nums := g.varsOf("num"); len(nums) > 0 {
			return Pick(g.rng, nums).name + " " + Pick(g.rng, []string{"=", "<>", "<", ">"}) + " " + Pick(g.rng, cyNumLits)
		}
		return "1 = 1"
	}
	if depth > 0 && g.rng.Chance(1, 3) {
		switch g.rng.Intn(4) {
		case 0:
			g.use("and")
			return g.predicate(depth-1) + " and " + g.predicate(depth-1)
		case 1:
			g.use("or")
			return "(" + g.predicate(depth-1) + " or " + g.predicate(depth-1) + ")"
		case 2:
			g.use("not")
			return "not (" + g.predicate(depth-1) + ")"
		default:
			g.use("xor")
			return "(" + g.predicate(depth-1) + " xor " + g.predicate(depth-1) + ")"
		}
	}
	if len(rs) > 0 && (len(ns) == 0 || g.rng.Chance(1, 3)) {
		r := Pick(g.rng, rs).name
		switch g.rng.Intn(5) {
		case 0:
			g.use("rel-kind")
			return r + ":" + Pick(g.rng, cyEdgeKinds)
		case 1:
			g.use("type-fn")
			return "type(" + r + ") = '" + Pick(g.rng, cyEdgeKinds) + "'"
		case 2:
			return r + ".w " + Pick(g.rng, []string{"=", ">", "<=", "<>"}) + " " + Pick(g.rng, cyNumLits)
		case 3:
			return "id(" + r + ") = " + Pick(g.rng, cyNumLits)
		default:
			return r + ".name = " + Pick(g.rng, cyStrLits)
		}
	}
	n := Pick(g.rng, ns).name
	top := 13
	if g.level >= 5 {
		top = 19
	}
	switch g.rng.Intn(top) {
	case 0:
		g.use("kind")
		return n + ":" + Pick(g.rng, cyNodeKinds)
	case 1:
		g.use("kind-multi")
		return n + ":NodeKind1:NodeKind2"
	case 2:
		g.use("str-eq")
		return n + ".name " + Pick(g.rng, []string{"=", "<>"}) + " " + Pick(g.rng, cyStrLits)
	case 3:
		g.use("num-cmp")
		return n + "." + Pick(g.rng, cyNumProps) + " " + Pick(g.rng, []string{"=", "<>", "<", "<=", ">", ">="}) + " " + Pick(g.rng, cyNumLits)
	case 4:
		g.use("str-op")
		return n + ".name " + Pick(g.rng, []string{"starts with", "ends with", "contains"}) + " " + Pick(g.rng, cyStrLits)
	case 5:
		g.use("null-test")
		return n + "." + Pick(g.rng, []string{"a", "name", "zz"}) + " " + Pick(g.rng, []string{"is null", "is not null"})
	case 6:
		g.use("id-eq")
		return "id(" + n + ") " + Pick(g.rng, []string{"=", "<>", "<", ">"}) + " " + Pick(g.rng, cyNumLits)
	case 7:
		g.use("id-in")
		return "id(" + n + ") in [0, 1]"
	case 8:
		g.use("str-in")
		return n + ".name in ['x', 'y']"
	case 9:
		g.use("bool-prop")
		return n + ".f = " + Pick(g.rng, []string{"true", "false"})
	case 10:
		if len(ns) > 1 {
			m := Pick(g.rng, ns).name
			g.use("prop-prop")
			return n + ".a " + Pick(g.rng, []string{"=", "<>", "<"}) + " " + m + ".a"
		}
		return "exists(" + n + ".a)"
	case 11:
		if len(ns) > 1 {
			m := Pick(g.rng, ns).name
			g.use("entity-cmp")
			return n + " " + Pick(g.rng, []string{"=", "<>"}) + " " + m
		}
		return "toLower(" + n + ".name) = 'x'"
	case 12:
		g.use("num-in")
		return n + ".a in [1, 2]"
	case 13, 14:
		g.use("pattern-predicate")
		neg := ""
		if g.rng.Bool() {
			neg = "not "
		}
		other := "()"
		if len(ns) > 1 && g.rng.Chance(1, 3) {
			other = "(" + Pick(g.rng, ns).name + ")"
		} else if g.rng.Chance(1, 3) {
			other = "(:" + Pick(g.rng, cyNodeKinds) + ")"
		}
		rel := Pick(g.rng, []string{"-[]->", "<-[]-", "-[]-", "-[:EdgeKind1]->", "<-[:EdgeKind2]-", "-[:EdgeKind1*1..2]->", "-[]->()-[]->"})
		if strings.HasSuffix(rel, "->()-[]->") {
			g.use("pattern-predicate-2hop")
		}
		return neg + "(" + n + ")" + rel + other
	case 15, 16:
		g.use("quantifier")
		q := Pick(g.rng, []string{"any", "all", "none", "single"})
		return q + "(x in " + n + ".tags where x = " + Pick(g.rng, cyStrLits) + ")"
	case 17:
		g.use("size")
		return "size(" + n + ".tags) > 0"
	default:
		g.use("labels-in")
		return "'" + Pick(g.rng, cyNodeKinds) + "' in labels(" + n + ")"
	}
}

func (g *cyGen) where() string {
	if g.rng.Chance(2, 5) {
		return ""
	}
	return " where " + g.predicate(2)
}

func (g *cyGen) reading() string {
	var b strings.Builder
	if g.level >= 5 && g.rng.Chance(1, 5) {
		g.use("optional-match")
		b.WriteString("optional ")
	}
	b.WriteString("match ")
	b.WriteString(g.pattern(2, true))
	if g.level >= 2 && g.rng.Chance(1, 4) {
		g.use("multi-pattern")
		b.WriteString(", ")
		b.WriteString(g.pattern(1, false))
	}
	b.WriteString(g.where())
	return b.String()
}

type cyItem struct {
	text string
	v    cyVar
	agg  bool
}

func (g *cyGen) projectionItems(isWith bool) []cyItem {
	var items []cyItem
	n := 1 + g.rng.Intn(3)
	all := g.vars
	if len(all) == 0 {
		return []cyItem{{text: "1 as c0", v: cyVar{name: "c0", kind: "num"}}}
	}
	seen := map[string]bool{}
	for i := 0; i < n; i++ {
		v := Pick(g.rng, all)
		alias := fmt.Sprintf("c%d", g.counter)
		g.counter++
		var it cyItem
		switch v.kind {
		case "node", "rel":
			switch g.rng.Intn(9) {
			case 0, 1, 2:
				if seen[v.name] {
					continue
				}
				seen[v.name] = true
				it = cyItem{text: v.name, v: v}
			case 3:
				it = cyItem{text: v.name + ".name as " + alias, v: cyVar{alias, "str"}}
			case 4:
				it = cyItem{text: v.name + ".a as " + alias, v: cyVar{alias, "num"}}
			case 5:
				it = cyItem{text: "id(" + v.name + ") as " + alias, v: cyVar{alias, "num"}}
			case 6:
				if g.level >= 3 {
					g.use("count")
					it = cyItem{text: "count(" + v.name + ") as " + alias, v: cyVar{alias, "num"}, agg: true}
				} else {
					it = cyItem{text: v.name + ".b as " + alias, v: cyVar{alias, "num"}}
				}
			case 7:
				if g.level >= 3 {
					g.use("collect")
					it = cyItem{text: "collect(" + v.name + ") as " + alias, v: cyVar{alias, "list"}, agg: true}
				} else {
					it = cyItem{text: v.name + ".a as " + alias, v: cyVar{alias, "num"}}
				}
			default:
				if v.kind == "node" {
					g.use("labels")
					it = cyItem{text: "labels(" + v.name + ") as " + alias, v: cyVar{alias, "list"}}
				} else {
					g.use("type-fn")
					it = cyItem{text: "type(" + v.name + ") as " + alias, v: cyVar{alias, "str"}}
				}
			}
		case "path":
			switch g.rng.Intn(4) {
			case 0:
				if seen[v.name] {
					continue
				}
				seen[v.name] = true
				it = cyItem{text: v.name, v: v}
			case 1:
				g.use("length")
				it = cyItem{text: "length(" + v.name + ") as " + alias, v: cyVar{alias, "num"}}
			case 2:
				g.use("nodes-fn")
				it = cyItem{text: "nodes(" + v.name + ") as " + alias, v: cyVar{alias, "list"}}
			default:
				g.use("relationships-fn")
				it = cyItem{text: "relationships(" + v.name + ") as " + alias, v: cyVar{alias, "list"}}
			}
		case "rels":
			if seen[v.name] {
				continue
			}
			seen[v.name] = true
			it = cyItem{text: v.name, v: v}
		case "list":
			if g.rng.Bool() {
				g.use("size")
				it = cyItem{text: "size(" + v.name + ") as " + alias, v: cyVar{alias, "num"}}
			} else {
				if seen[v.name] {
					continue
				}
				seen[v.name] = true
				it = cyItem{text: v.name, v: v}
			}
		default:
			if seen[v.name] {
				continue
			}
			seen[v.name] = true
			it = cyItem{text: v.name, v: v}
		}
		items = append(items, it)
	}
	if len(items) == 0 {
		v := all[0]
		items = append(items, cyItem{text: v.name, v: v})
	}
	return items
}

func (g *cyGen) tail(items []cyItem) string {
	var b strings.Builder
	cut := g.rng.Chance(1, 3)
	if cut || g.rng.Chance(1, 4) {
		g.use("order-by")
		it := Pick(g.rng, items)
		key := it.v.name
		if (it.v.kind == "node" || it.v.kind == "rel") && !it.agg {
			key = it.v.name + "." + Pick(g.rng, []string{"name", "a"})
			if g.rng.Chance(1, 3) {
				key = "id(" + it.v.name + ")"
			}
		}
		b.WriteString(" order by " + key)
		if g.rng.Chance(1, 3) {
			b.WriteString(descSpelling(b.Len() + len(key)))
		} else {
			b.WriteString(ascSpelling(b.Len() + len(key)))
		}
	}
	// SKIP / LIMIT only together with ORDER BY (otherwise the result is an arbitrary subset in both languages)
	if cut && g.rng.Chance(1, 2) {
		g.use("skip")
		b.WriteString(" skip " + Pick(g.rng, []string{"0", "0", "1", "1", "2", "2", "1000"}))
	}
	if cut && g.rng.Chance(2, 3) {
		g.use("limit")
		b.WriteString(" limit " + Pick(g.rng, []string{"0", "0", "1", "1", "2", "2", "5", "5", "2147483648", "9223372036854775807"}))
	}
	return b.String()
}

// Query renders one random query.
func (g *cyGen) Query() string {
	g.vars, g.counter, g.feat = nil, 0, map[string]bool{}
	var b strings.Builder
	parts := 0
	if g.level >= 3 {
		parts = g.rng.Intn(3)
	}
	for p := 0; p <= parts; p++ {
		nread := 1
		if g.level >= 2 && g.rng.Chance(1, 3) {
			nread = 2
			g.use("multi-match")
		}
		if g.level >= 3 && p > 0 && g.rng.Chance(1, 5) {
			nread = 0
		}
		for i := 0; i < nread; i++ {
			if g.level >= 3 && g.rng.Chance(1, 10) {
				g.use("unwind")
				v := g.fresh("u", "num")
				b.WriteString("unwind [1, 2, 3] as " + v.name + " ")
				continue
			}
			b.WriteString(g.reading())
			b.WriteString(" ")
		}
		last := p == parts
		if last {
			b.WriteString("return ")
		} else {
			g.use("with")
			b.WriteString("with ")
		}
		if g.rng.Chance(1, 6) {
			g.use("distinct")
			b.WriteString("distinct ")
		}
		items := g.projectionItems(!last)
		texts := make([]string, len(items))
		for i, it := range items {
			texts[i] = it.text
		}
		b.WriteString(strings.Join(texts, ", "))
		b.WriteString(g.tail(items))
		if !last {
			// only projected variables survive a WITH
			g.vars = nil
			for _, it := range items {
				g.vars = append(g.vars, it.v)
			}
			if g.rng.Chance(1, 3) {
				g.use("with-where")
				b.WriteString(" where " + g.predicate(1))
			}
			b.WriteString(" ")
		}
	}
	if parts > 0 {
		g.use(fmt.Sprintf("parts-%d", parts+1))
	}
	return strings.TrimSpace(b.String())
}

// descSpelling / ascSpelling: the direction keyword of a sort item in one of its grammar spellings (short / long, any letter case). The choice
// is a function of a number the caller already has (no random draw), so the random streams of the generators are unchanged.
func descSpelling(k int) string {
	return []string{" desc", " DESCENDING", " descending", " Desc", " desc", " Descending"}[k%6]
}

func ascSpelling(k int) string {
	return []string{"", "", " asc", "", " ASCENDING", "", " ascending", ""}[k%8]
}
