package main

import (
	"bufio"
	"bytes"
	"fmt"
	"math"
	"reflect"
	"sort"
	"strconv"
	"strings"
	"unsafe"

	"github.com/specterops/dawgs/cypher/frontend"
	"github.com/specterops/dawgs/cypher/models/cypher"
	"github.com/specterops/dawgs/cypher/models/cypher/format"
	"github.com/specterops/dawgs/graph"
	"github.com/specterops/dawgs/query"
	qn "github.com/specterops/dawgs/query/neo4j"
)

// C10: emitted Cypher text means the same as the query model it was emitted from.
//
// suite c10   op line `t <term>`: a term over the EXPORTED constructors of package query (plus a few cypher model
//
//	constructors, prefixed Raw…). The runner builds the criteria with the real constructors, renders them the
//	way the backends do (query/neo4j.QueryBuilder Apply → Prepare → Render; query.Builder.Build +
//	format.RegularQuery), re-parses the text with the real parser and answers TAB separated fields:
//	  toks  canonical token line of the emitted WHERE expression           (tie: Lean `emit`)
//	  gm/gr normal form of the model before rendering / after re-parse      (tie: Lean `norm`, `parse∘emit`)
//	  M/R   the two where-expressions as terms of the Lean algebra          (input of the Lean driver)
//	  q     whole-query comparison under the generic structural normal form
//	  params, str, b   parameter map check, string literal escape check, query.Builder path
//
// suite rwc10 op line `q <json text>`: parse → format.RegularQuery → re-parse (the path drivers/neo4j/query_rewrite.go
//
//	takes whenever it rewrites a query), models compared under the same normal form.
type c10Suite struct{}
type c10rwSuite struct{}

func init() {
	register("c10", c10Suite{})
	register("rwc10", c10rwSuite{})
}

// ---------------------------------------------------------------------------------------------------
// generator
// ---------------------------------------------------------------------------------------------------

type c10Gen struct {
	rng       *Rng
	stats     *Stats
	rel       bool // relationship query (s, r, e) or node query (n)
	safe      bool // only shapes on which the current emitter round-trips (used around constructs outside the Lean algebra)
	kindHeavy bool // half of the leaves are kind matchers (relationship and node), the rest plain comparisons
}

func a(s string) *sx     { return sxAtom(s) }
func l(items ...*sx) *sx { return sxList(items...) }
func call(name string, args ...*sx) *sx {
	return sxList(append([]*sx{sxAtom(name)}, args...)...)
}

var c10PropNames = []string{"name", "x", "objectid", "prop_2", "odd name", "a`b", "in", "İd", "lastseen"}
var c10KindNames = []string{"A", "B", "User", "Group", "NodeKind1", "EdgeKind1", "Kind_2"}
var c10Strings = []string{
	"", "a", "abc", "it's", `back\slash`, `\`, `'`, `\'`, `''\\''`, "tab\there", "new\nline", "dé😀", "\"dq\"", "$p0", "x' OR 1=1 --",
	" where ", "return n", "\\n not newline", "名前", strings.Repeat("long-", 60), " sep", "null", "a\\", "\x01ctl",
}
var c10Floats = []float64{0, 1, -1, 1.5, -2.25, 3, 100, 1e6, 0.1, 1e-7, 123456789.125, math.Copysign(0, -1), 2.5e15, 1e21, -1e22,
	math.MaxFloat64, math.SmallestNonzeroFloat64, 9007199254740993, 0.30000000000000004}
var c10Ints = []int64{0, 1, -1, 7, -5, 42, 1 << 31, -(1 << 31), 1<<53 + 1, math.MaxInt64, -math.MaxInt64}

// float32 literals: dyadic values (same digits at either width) AND values whose shortest float32 digits are NOT the
// digits of the widened float64 (0.1f = 0.10000000149011612): an emitter that formats a float32 at width 32 prints a
// decimal that reads back as another number (seed C10-r6-1).
var c10Float32s = []float64{0.5, 2, -3.25, 16777216, 0.1, -0.3, 1.1, 3.4e-5, 16777217.0 / 3, 1e-10, math.MaxFloat32, 33554434.5}

func fstr(f float64) string { return strconv.FormatFloat(f, 'g', -1, 64) }

func (g *c10Gen) varRefs() []string {
	if g.rel {
		return []string{"Start", "End", "Rel"}
	}
	return []string{"Node"}
}

func (g *c10Gen) nodeVarRefs() []string {
	if g.rel {
		return []string{"Start", "End"}
	}
	return []string{"Node"}
}

func (g *c10Gen) propRef() *sx {
	p := sxStr(Pick(g.rng, c10PropNames))
	if g.rel {
		switch g.rng.Intn(4) {
		case 0:
			return call("RelProp", p)
		case 1:
			return call("StartProp", p)
		case 2:
			return call("EndProp", p)
		default:
			return call("Prop", call(Pick(g.rng, g.varRefs())), p)
		}
	}
	if g.rng.Bool() {
		return call("NodeProp", p)
	}
	return call("Prop", call("Node"), p)
}

func (g *c10Gen) idRef() *sx {
	if g.rel {
		return call(Pick(g.rng, []string{"StartID", "EndID", "RelID"}))
	}
	return call("NodeID")
}

func (g *c10Gen) ref() *sx {
	switch g.rng.Intn(10) {
	case 0:
		return g.idRef()
	case 1:
		return call("Size", g.propRef())
	case 2:
		return call("ToLower", g.propRef())
	default:
		return g.propRef()
	}
}

// value: a Go value handed to query.Parameter by the comparison constructors
func (g *c10Gen) value() *sx {
	switch g.rng.Intn(12) {
	case 0:
		return call("i", a(strconv.FormatInt(Pick(g.rng, c10Ints), 10)))
	case 1:
		return call("i64", a(strconv.FormatInt(Pick(g.rng, c10Ints), 10)))
	case 2:
		return call("f", sxStr(fstr(Pick(g.rng, c10Floats))))
	case 3, 4:
		return call("s", sxStr(Pick(g.rng, c10Strings)))
	case 5:
		return call("b", a(strconv.FormatBool(g.rng.Bool())))
	case 6:
		return call("nil")
	case 7:
		return call("strs", sxStr(Pick(g.rng, c10Strings)), sxStr(Pick(g.rng, c10Strings)))
	case 8:
		return call("ints", a(strconv.FormatInt(Pick(g.rng, c10Ints), 10)), a("2"))
	case 9:
		g.stats.Inc("literal_as_parameter_value")
		return call("lit", g.litSpec()) // query.Equals(ref, query.Literal(v)): an AST node as the parameter VALUE
	default:
		return call("i", a(strconv.Itoa(g.rng.Intn(100))))
	}
}

func (g *c10Gen) litSpec() *sx {
	switch g.rng.Intn(14) {
	case 0:
		return call("i", a(strconv.FormatInt(Pick(g.rng, c10Ints), 10)))
	case 1:
		return call("i64", a(strconv.FormatInt(Pick(g.rng, c10Ints), 10)))
	case 2:
		return call("i8", a(strconv.Itoa(g.rng.Intn(256)-128)))
	case 3:
		return call("u64", a(strconv.FormatUint(uint64(g.rng.Intn(1000)), 10)))
	case 4, 5:
		g.stats.Inc("float_literal")
		return call("f", sxStr(fstr(Pick(g.rng, c10Floats))))
	case 6:
		return call("f32", sxStr(fstr(float64(float32(Pick(g.rng, c10Float32s))))))
	case 7:
		return call("b", a(strconv.FormatBool(g.rng.Bool())))
	case 8:
		return call("nil")
	default:
		g.stats.Inc("string_literal")
		return call("s", sxStr(Pick(g.rng, c10Strings)))
	}
}

func (g *c10Gen) operand(depth int) *sx {
	switch g.rng.Intn(8) {
	case 0, 1:
		return g.ref()
	case 2:
		v := g.value()
		if v.head() == "lit" { // query.Parameter(query.Literal(…)) is the caller's own mistake, not a builder path
			v = call("i", a("7"))
		}
		return call("P", v)
	case 3:
		if depth > 0 {
			n := g.rng.Intn(4)
			items := []*sx{a("List")}
			for i := 0; i < n; i++ {
				items = append(items, g.operand(depth-1))
			}
			g.stats.Inc("list_literal")
			return l(items...)
		}
		fallthrough
	default:
		return call("L", g.litSpec())
	}
}

func (g *c10Gen) kinds(min int) []*sx {
	n := min + g.rng.Intn(3)
	var out []*sx
	start := g.rng.Intn(len(c10KindNames))
	for i := 0; i < n; i++ { // distinct kinds: `a or a` is not the shape under test
		out = append(out, sxStr(c10KindNames[(start+i*2)%len(c10KindNames)]))
	}
	return out
}

func (g *c10Gen) leaf() *sx {
	if g.kindHeavy {
		switch g.rng.Intn(6) {
		case 0, 1:
			g.stats.Inc("kind_on_relationship")
			return call(Pick(g.rng, []string{"Kind", "KindIn"}), append([]*sx{call("Rel")}, g.kinds(1)...)...)
		case 2:
			return call(Pick(g.rng, []string{"Kind", "KindIn"}), append([]*sx{call(Pick(g.rng, g.nodeVarRefs()))}, g.kinds(1)...)...)
		case 3:
			return call("IsNull", g.propRef())
		default:
			return call("Cmp", a("Equals"), g.propRef(), call("i", a(strconv.Itoa(g.rng.Intn(9)))))
		}
	}
	if g.safe {
		switch g.rng.Intn(5) {
		case 0:
			g.stats.Inc("pattern_predicate")
			return call("HasRelationships", call(Pick(g.rng, g.nodeVarRefs())))
		case 1:
			return call("Cmp", a("Equals"), g.ref(), call("s", sxStr(Pick(g.rng, c10Strings))))
		case 2:
			return call("IsNull", g.propRef())
		case 3:
			return call("Kind", append([]*sx{call(Pick(g.rng, g.nodeVarRefs()))}, g.kinds(1)...)...)
		default:
			return call("RawCmp", sxStr("<>"), g.propRef(), call("L", call("s", sxStr(Pick(g.rng, c10Strings)))))
		}
	}
	switch g.rng.Intn(22) {
	case 0, 1:
		return call("Cmp", a(Pick(g.rng, []string{"Equals", "GreaterThan", "GreaterThanOrEquals", "LessThan", "LessThanOrEquals"})), g.ref(), g.value())
	case 2:
		return call("Str", a(Pick(g.rng, []string{"StringContains", "StringStartsWith", "StringEndsWith", "CaseInsensitiveStringContains",
			"CaseInsensitiveStringStartsWith", "CaseInsensitiveStringEndsWith"})), g.propRef(), sxStr(Pick(g.rng, c10Strings)))
	case 3:
		return call(Pick(g.rng, []string{"IsNull", "IsNotNull", "Exists"}), g.propRef())
	case 4, 5:
		g.stats.Inc("kind_any_of")
		return call(Pick(g.rng, []string{"Kind", "KindIn"}), append([]*sx{call(Pick(g.rng, g.varRefs()))}, g.kinds(1)...)...)
	case 6:
		return call("In", g.ref(), g.value())
	case 7:
		ids := []*sx{g.idRef()}
		if g.rng.Bool() {
			ids = []*sx{call(Pick(g.rng, g.nodeVarRefs()))}
		}
		for i := g.rng.Intn(4); i >= 0; i-- {
			ids = append(ids, a(strconv.Itoa(g.rng.Intn(1000))))
		}
		return l(append([]*sx{a("InIDs")}, ids...)...)
	case 8:
		return call("InInverted", g.propRef(), g.value())
	case 9:
		return call("LessThanGraphQuery", g.propRef(), g.propRef())
	case 10:
		g.stats.Inc("kind_all_of")
		return l(append([]*sx{a("RawKinds"), call(Pick(g.rng, g.nodeVarRefs())), a(strconv.Itoa(g.rng.Intn(2)))}, g.kinds(1)...)...)
	case 11:
		return call("IsNotNull", g.propRef())
	case 12:
		return call("In", call("KindsOf", call(Pick(g.rng, g.varRefs()))), call("strs", sxStr("A"), sxStr("B")))
	case 13, 14, 15, 16, 17:
		g.stats.Inc("raw_comparison")
		op := Pick(g.rng, []string{"=", "<>", "<", "<=", ">", ">=", "starts with", "ends with", "contains", "in"})
		return call("RawCmp", sxStr(op), g.operand(2), g.operand(2))
	default:
		return call("Cmp", a(Pick(g.rng, []string{"Equals", "GreaterThan", "GreaterThanOrEquals", "LessThan", "LessThanOrEquals"})), g.ref(), g.value())
	}
}

func (g *c10Gen) criteria(depth int) *sx {
	if depth <= 0 || g.rng.Intn(5) == 0 {
		return g.leaf()
	}
	n := 1 + g.rng.Intn(3)
	if g.rng.Intn(6) > 0 && n < 2 {
		n = 2
	}
	kids := func() []*sx {
		var out []*sx
		for i := 0; i < n; i++ {
			out = append(out, g.criteria(depth-1))
		}
		return out
	}
	if g.kindHeavy {
		switch g.rng.Intn(7) {
		case 0, 1:
			return l(append([]*sx{a("And")}, kids()...)...)
		case 2:
			return l(append([]*sx{a("Or")}, kids()...)...)
		case 3:
			return l(append([]*sx{a("Xor")}, kids()...)...)
		case 4:
			return call("RawParen", g.criteria(depth-1))
		default:
			return call("Not", g.criteria(depth-1))
		}
	}
	if g.safe {
		switch g.rng.Intn(3) {
		case 0:
			return l(append([]*sx{a("And")}, kids()...)...)
		case 1:
			return l(append([]*sx{a("Or")}, kids()...)...)
		default:
			return call("Not", g.criteria(depth-1))
		}
	}
	switch g.rng.Intn(20) {
	case 0, 1, 2, 3, 4:
		return l(append([]*sx{a("And")}, kids()...)...)
	case 5, 6, 7, 8:
		return l(append([]*sx{a("Or")}, kids()...)...)
	case 9, 10, 11:
		g.stats.Inc("xor")
		return l(append([]*sx{a("Xor")}, kids()...)...)
	case 12, 13, 14, 15:
		return call("Not", g.criteria(depth-1))
	case 16:
		g.stats.Inc("raw_negation")
		return call("RawNot", g.criteria(depth-1))
	case 17:
		g.stats.Inc("raw_disjunction")
		return l(append([]*sx{a("RawOr")}, kids()...)...)
	case 18:
		return call("RawParen", g.criteria(depth-1))
	default:
		return l(append([]*sx{a("And")}, kids()...)...)
	}
}

// precedence-adjacent nestings, every ordered pair of combinators, both parenthesising and bare forms
func c10Pairs() []*sx {
	x := call("Cmp", a("Equals"), call("NodeProp", sxStr("x")), call("i", a("1")))
	y := call("IsNull", call("NodeProp", sxStr("y")))
	z := call("Kind", call("Node"), sxStr("A"))
	outer := []string{"And", "Or", "Xor", "Not", "RawNot", "RawOr", "RawParen"}
	var out []*sx
	for _, o := range outer {
		for _, i := range outer {
			var inner *sx
			switch i {
			case "Not", "RawNot", "RawParen":
				inner = call(i, y)
			default:
				inner = call(i, y, z)
			}
			switch o {
			case "Not", "RawNot", "RawParen":
				out = append(out, call(o, inner))
			default:
				out = append(out, call(o, x, inner), call(o, inner, x), call(o, inner))
			}
		}
	}
	return out
}

// c10KindNests: relationship and node kind matchers under nested negations and mixed and/or/xor lists, before and
// after sibling negations (the positions the neo4j rewriter's "below a negation?" test and hoisting decide on).
func c10KindNests(full bool) []*sx {
	x := call("Cmp", a("Equals"), call("RelProp", sxStr("x")), call("i", a("1")))
	y := call("IsNull", call("StartProp", sxStr("y")))
	matchers := []*sx{
		call("KindIn", call("Rel"), sxStr("A"), sxStr("B")),
		call("Kind", call("Rel"), sxStr("A")),
		call("Kind", call("Start"), sxStr("A"), sxStr("B")),
	}
	siblings := []*sx{x, call("Not", x), call("Not", call("And", call("Not", x), y)), call("Or", call("Not", x), y)}
	if full {
		siblings = append(siblings, call("RawNot", x), call("Not", call("Not", x)))
	}
	wrappers := []func(*sx) *sx{
		func(t *sx) *sx { return t },
		func(t *sx) *sx { return call("Not", t) },
		func(t *sx) *sx { return call("Not", call("Not", t)) },
		func(t *sx) *sx { return call("Not", call("And", call("Not", y), t)) },
		func(t *sx) *sx { return call("And", call("Not", y), t) },
	}
	if full {
		wrappers = append(wrappers,
			func(t *sx) *sx { return call("Or", y, call("Not", t)) },
			func(t *sx) *sx { return call("Not", call("Or", call("Not", y), t)) },
			func(t *sx) *sx { return call("And", t, call("Not", y)) })
	}
	var out []*sx
	for _, m := range matchers {
		for _, sib := range siblings {
			for _, op := range []string{"And", "Or", "Xor"} {
				shapes := []*sx{call(op, m, sib), call(op, sib, m)}
				if full {
					shapes = append(shapes, call(op, sib, m, call("Not", y)))
				}
				for _, sh := range shapes {
					for _, w := range wrappers {
						out = append(out, w(sh))
					}
				}
			}
		}
	}
	return out
}

func (g *c10Gen) returning() []*sx {
	var out []*sx
	items := []*sx{a("Returning")}
	if g.rng.Intn(5) == 0 {
		items[0] = a("ReturningDistinct")
	}
	for i := g.rng.Intn(3); i >= 0; i-- {
		switch g.rng.Intn(5) {
		case 0:
			items = append(items, g.propRef())
		case 1:
			items = append(items, g.idRef())
		case 2:
			items = append(items, call(Pick(g.rng, []string{"Count", "CountDistinct"}), call(Pick(g.rng, g.varRefs()))))
		default:
			items = append(items, call(Pick(g.rng, g.varRefs())))
		}
	}
	out = append(out, l(items...))
	if g.rng.Intn(3) == 0 {
		ob := []*sx{a("OrderBy")}
		for i := g.rng.Intn(2); i >= 0; i-- {
			switch g.rng.Intn(3) {
			case 0:
				ob = append(ob, call("asc", g.propRef()))
			case 1:
				ob = append(ob, call("desc", g.propRef()))
			default:
				ob = append(ob, g.propRef())
			}
		}
		out = append(out, l(ob...))
		g.stats.Inc("order_by")
	}
	if g.rng.Intn(3) == 0 {
		out = append(out, call("Limit", a(strconv.Itoa(g.rng.Intn(2000)-3))))
		g.stats.Inc("limit")
	}
	if g.rng.Intn(4) == 0 {
		out = append(out, call("Offset", a(strconv.Itoa(g.rng.Intn(50)))))
		g.stats.Inc("offset")
	}
	return out
}

func (g *c10Gen) updates() []*sx {
	v := call(Pick(g.rng, g.nodeVarRefs()))
	var ups []*sx
	for i := g.rng.Intn(3); i >= 0; i-- {
		switch g.rng.Intn(8) {
		case 0:
			ups = append(ups, call("SetProperty", g.propRef(), g.value()))
		case 1:
			ups = append(ups, call("SetProperties", v, sxStr(Pick(g.rng, c10PropNames)), g.value()))
		case 2:
			ups = append(ups, call("DeleteProperty", g.propRef()))
		case 3:
			ups = append(ups, call("DeleteProperties", v, sxStr(Pick(g.rng, c10PropNames)), sxStr(Pick(g.rng, c10PropNames))))
		case 4:
			ups = append(ups, call("AddKind", v, sxStr(Pick(g.rng, c10KindNames))))
		case 5:
			ups = append(ups, l(append([]*sx{a("AddKinds"), v}, g.kinds(1)...)...))
		case 6:
			ups = append(ups, call("DeleteKind", v, sxStr(Pick(g.rng, c10KindNames))))
		default:
			ups = append(ups, l(append([]*sx{a("DeleteKinds"), v}, g.kinds(1)...)...))
		}
	}
	g.stats.Inc("update")
	return []*sx{l(append([]*sx{a("Update")}, ups...)...)}
}

// mentionsVariable: the builders derive the MATCH pattern from the variables the criteria mention
func mentionsVariable(t *sx) bool {
	switch t.head() {
	case "Node", "Rel", "Start", "End", "NodeProp", "RelProp", "StartProp", "EndProp", "NodeID", "RelID", "StartID", "EndID":
		return true
	}
	if t.isLst {
		for _, c := range t.list {
			if mentionsVariable(c) {
				return true
			}
		}
	}
	return false
}

func (g *c10Gen) queryKindHeavy(depth int) *sx {
	g.rel, g.safe = g.rng.Intn(4) > 0, false
	crit := g.criteria(depth)
	if !mentionsVariable(crit) {
		crit = call("And", call("IsNotNull", g.propRef()), crit)
	}
	return l(append([]*sx{a("Q"), call("Where", crit)}, g.returning()...)...)
}

func (g *c10Gen) query(depth int) *sx {
	g.rel = g.rng.Intn(3) == 0
	g.safe = g.rng.Intn(25) == 0 // a slice of cases with a pattern predicate (outside the Lean algebra) in safe surroundings
	crit := g.criteria(depth)
	if !mentionsVariable(crit) {
		crit = call("And", call("IsNotNull", g.propRef()), crit)
	}
	parts := []*sx{a("Q"), call("Where", crit)}
	switch g.rng.Intn(10) {
	case 0:
		parts = append(parts, g.updates()...)
	case 1:
		parts = append(parts, call("Delete", call(Pick(g.rng, g.varRefs()))))
		g.stats.Inc("delete")
	case 2:
		parts = append(parts, g.updates()...)
		parts = append(parts, g.returning()...)
	default:
		parts = append(parts, g.returning()...)
	}
	return l(parts...)
}

func (c10Suite) Gen(rng *Rng, tier string, w *bufio.Writer, stats *Stats) {
	g := &c10Gen{rng: rng, stats: stats}
	n := 0
	emit := func(tag string, q *sx) {
		n++
		fmt.Fprintf(w, "# case %d %s\n", n, tag)
		fmt.Fprintf(w, "t %s\n", q.String())
	}
	ret := call("Returning", call("Node"))
	for _, c := range c10Pairs() {
		emit("pair", call("Q", call("Where", c), ret))
		stats.Inc("pairs")
	}
	for _, c := range c10KindNests(tier == "thorough") {
		emit("kindnest", call("Q", call("Where", c), call("Returning", call("Rel"))))
		stats.Inc("kind_nests")
	}
	// every literal type as a bare comparison operand
	for _, s := range c10Strings {
		emit("string", call("Q", call("Where", call("RawCmp", sxStr("="), call("NodeProp", sxStr("x")), call("L", call("s", sxStr(s))))), ret))
	}
	for _, f := range c10Floats {
		emit("float", call("Q", call("Where", call("RawCmp", sxStr("="), call("NodeProp", sxStr("x")), call("L", call("f", sxStr(fstr(f)))))), ret))
	}
	for _, i := range c10Ints {
		emit("int", call("Q", call("Where", call("RawCmp", sxStr("="), call("NodeProp", sxStr("x")), call("L", call("i64", a(strconv.FormatInt(i, 10)))))), ret))
	}
	// create / wrappers without a where clause
	emit("create", call("Q", call("Create", call("NodePattern", sxStr("A"), sxStr("B"))), ret))
	emit("create-rel", call("Q", call("Where", call("And", call("Cmp", a("Equals"), call("StartID"), call("i", a("1"))), call("Cmp", a("Equals"), call("EndID"), call("i", a("2"))))),
		call("Create", call("Start"), call("RelationshipPattern", sxStr("EdgeKind1")), call("End")), call("Returning", call("RelID"))))
	stats.Add("create", 2)
	count := 1500
	if tier == "thorough" {
		count = 12000
	}
	for i := 0; i < count; i++ {
		depth := 1 + i%5 // small terms first
		emit(fmt.Sprintf("rnd-d%d", depth), g.query(depth))
	}
	g.kindHeavy = true
	for i := 0; i < count/5; i++ {
		depth := 2 + i%4
		emit(fmt.Sprintf("kinds-d%d", depth), g.queryKindHeavy(depth))
	}
	g.kindHeavy = false
}

// ---------------------------------------------------------------------------------------------------
// building the real criteria from a term
// ---------------------------------------------------------------------------------------------------

type c10Builder struct {
	strings      [][2]string // (original, Literal.Value) of every cypher.NewStringLiteral call
	hasRawString bool
}

func atoi(s *sx) int64 {
	v, err := strconv.ParseInt(s.atom, 10, 64)
	if err != nil {
		panic("harness: bad integer " + s.atom)
	}
	return v
}

func parseF(s *sx) float64 {
	v, err := strconv.ParseFloat(s.str, 64)
	if err != nil {
		panic("harness: bad float " + s.str)
	}
	return v
}

func (b *c10Builder) ref(t *sx) graph.Criteria {
	switch t.head() {
	case "Node":
		return query.Node()
	case "Rel":
		return query.Relationship()
	case "Start":
		return query.Start()
	case "End":
		return query.End()
	case "NodeProp":
		return query.NodeProperty(t.list[1].str)
	case "RelProp":
		return query.RelationshipProperty(t.list[1].str)
	case "StartProp":
		return query.StartProperty(t.list[1].str)
	case "EndProp":
		return query.EndProperty(t.list[1].str)
	case "Prop":
		return query.Property(b.ref(t.list[1]), t.list[2].str)
	case "NodeID":
		return query.NodeID()
	case "RelID":
		return query.RelationshipID()
	case "StartID":
		return query.StartID()
	case "EndID":
		return query.EndID()
	case "Size":
		return query.Size(b.ref(t.list[1]))
	case "KindsOf":
		return query.KindsOf(b.ref(t.list[1]))
	case "ToLower":
		return cypher.NewSimpleFunctionInvocation("toLower", b.ref(t.list[1]))
	case "Count":
		return query.Count(b.ref(t.list[1]))
	case "CountDistinct":
		return query.CountDistinct(b.ref(t.list[1]))
	}
	panic("harness: unknown reference " + t.String())
}

func (b *c10Builder) literal(t *sx) *cypher.Literal {
	switch t.head() {
	case "i":
		return query.Literal(int(atoi(t.list[1])))
	case "i64":
		return query.Literal(atoi(t.list[1]))
	case "i8":
		return query.Literal(int8(atoi(t.list[1])))
	case "u64":
		v, _ := strconv.ParseUint(t.list[1].atom, 10, 64)
		return query.Literal(v)
	case "f":
		return query.Literal(parseF(t.list[1]))
	case "f32":
		return query.Literal(float32(parseF(t.list[1])))
	case "b":
		return query.Literal(t.list[1].atom == "true")
	case "nil":
		return query.Literal(nil)
	case "s":
		lit := cypher.NewStringLiteral(t.list[1].str)
		src, _ := lit.Value.(string)
		b.strings = append(b.strings, [2]string{t.list[1].str, src})
		return lit
	case "raws":
		b.hasRawString = true
		return query.Literal(t.list[1].str)
	}
	panic("harness: unknown literal " + t.String())
}

func (b *c10Builder) value(t *sx) any {
	switch t.head() {
	case "i":
		return int(atoi(t.list[1]))
	case "i64":
		return atoi(t.list[1])
	case "f":
		return parseF(t.list[1])
	case "s":
		return t.list[1].str
	case "b":
		return t.list[1].atom == "true"
	case "nil":
		return nil
	case "strs":
		var out []string
		for _, x := range t.args() {
			out = append(out, x.str)
		}
		return out
	case "ints":
		var out []int64
		for _, x := range t.args() {
			out = append(out, atoi(x))
		}
		return out
	case "lit":
		return b.literal(t.list[1])
	}
	panic("harness: unknown value " + t.String())
}

func (b *c10Builder) operand(t *sx) cypher.Expression {
	switch t.head() {
	case "L":
		return b.literal(t.list[1])
	case "P":
		return query.Parameter(b.value(t.list[1]))
	case "List":
		lst := cypher.NewListLiteral()
		for _, x := range t.args() {
			*lst = append(*lst, b.operand(x))
		}
		return lst
	}
	return b.ref(t)
}

func kindsOf(ts []*sx) graph.Kinds {
	var out graph.Kinds
	for _, k := range ts {
		out = append(out, graph.StringKind(k.str))
	}
	return out
}

func (b *c10Builder) criteriaList(ts []*sx) []graph.Criteria {
	var out []graph.Criteria
	for _, t := range ts {
		out = append(out, b.criteria(t))
	}
	return out
}

func (b *c10Builder) criteria(t *sx) graph.Criteria {
	switch t.head() {
	case "And":
		return query.And(b.criteriaList(t.args())...)
	case "Or":
		return query.Or(b.criteriaList(t.args())...)
	case "Xor":
		return query.Xor(b.criteriaList(t.args())...)
	case "Not":
		return query.Not(b.criteria(t.list[1]))
	case "RawNot":
		return cypher.NewNegation(b.criteria(t.list[1]))
	case "RawOr":
		var xs []cypher.Expression
		for _, c := range b.criteriaList(t.args()) {
			xs = append(xs, c)
		}
		return cypher.NewDisjunction(xs...)
	case "RawParen":
		return cypher.NewParenthetical(b.criteria(t.list[1]))
	case "RawKinds":
		return cypher.NewKindMatcher(b.ref(t.list[1]), kindsOf(t.list[3:]), t.list[2].atom == "1")
	case "RawCmp":
		op := cypher.Operator(t.list[1].str)
		return cypher.NewComparison(b.operand(t.list[2]), op, b.operand(t.list[3]))
	case "Cmp":
		r, v := b.ref(t.list[2]), b.value(t.list[3])
		switch t.list[1].atom {
		case "Equals":
			return query.Equals(r, v)
		case "GreaterThan":
			return query.GreaterThan(r, v)
		case "GreaterThanOrEquals":
			return query.GreaterThanOrEquals(r, v)
		case "LessThan":
			return query.LessThan(r, v)
		case "LessThanOrEquals":
			return query.LessThanOrEquals(r, v)
		}
	case "Str":
		r, v := b.ref(t.list[2]), t.list[3].str
		switch t.list[1].atom {
		case "StringContains":
			return query.StringContains(r, v)
		case "StringStartsWith":
			return query.StringStartsWith(r, v)
		case "StringEndsWith":
			return query.StringEndsWith(r, v)
		case "CaseInsensitiveStringContains":
			return query.CaseInsensitiveStringContains(r, v)
		case "CaseInsensitiveStringStartsWith":
			return query.CaseInsensitiveStringStartsWith(r, v)
		case "CaseInsensitiveStringEndsWith":
			return query.CaseInsensitiveStringEndsWith(r, v)
		}
	case "IsNull":
		return query.IsNull(b.ref(t.list[1]))
	case "IsNotNull":
		return query.IsNotNull(b.ref(t.list[1]))
	case "Exists":
		return query.Exists(b.ref(t.list[1]))
	case "Kind":
		return query.Kind(b.ref(t.list[1]), kindsOf(t.list[2:])...)
	case "KindIn":
		return query.KindIn(b.ref(t.list[1]), kindsOf(t.list[2:])...)
	case "In":
		return query.In(b.ref(t.list[1]), b.value(t.list[2]))
	case "InInverted":
		return query.InInverted(b.ref(t.list[1]), b.value(t.list[2]))
	case "InIDs":
		var ids []graph.ID
		for _, x := range t.list[2:] {
			ids = append(ids, graph.ID(atoi(x)))
		}
		switch r := b.ref(t.list[1]).(type) {
		case *cypher.FunctionInvocation:
			return query.InIDs(r, ids...)
		case *cypher.Variable:
			return query.InIDs(r, ids...)
		}
	case "LessThanGraphQuery":
		return query.LessThanGraphQuery(b.ref(t.list[1]), b.ref(t.list[2]))
	case "HasRelationships":
		return query.HasRelationships(b.ref(t.list[1]).(*cypher.Variable))
	}
	panic("harness: unknown criteria " + t.String())
}

func (b *c10Builder) update(t *sx) *cypher.UpdatingClause {
	switch t.head() {
	case "SetProperty":
		return query.SetProperty(b.ref(t.list[1]), b.value(t.list[2]))
	case "SetProperties":
		return query.SetProperties(b.ref(t.list[1]), map[string]any{t.list[2].str: b.value(t.list[3])}) // one key: map order is random
	case "DeleteProperty":
		return query.DeleteProperty(b.ref(t.list[1]).(*cypher.PropertyLookup))
	case "DeleteProperties":
		return query.DeleteProperties(b.ref(t.list[1]), t.list[2].str, t.list[3].str)
	case "AddKind":
		return query.AddKind(b.ref(t.list[1]), graph.StringKind(t.list[2].str))
	case "AddKinds":
		return query.AddKinds(b.ref(t.list[1]), kindsOf(t.list[2:]))
	case "DeleteKind":
		return query.DeleteKind(b.ref(t.list[1]), graph.StringKind(t.list[2].str))
	case "DeleteKinds":
		return query.DeleteKinds(b.ref(t.list[1]), kindsOf(t.list[2:]))
	}
	panic("harness: unknown update " + t.String())
}

// top builds the list handed to Apply, in order.
func (b *c10Builder) top(q *sx) []graph.Criteria {
	var out []graph.Criteria
	for _, part := range q.args() {
		switch part.head() {
		case "Where":
			out = append(out, query.Where(b.criteria(part.list[1])))
		case "Returning", "ReturningDistinct":
			var els []graph.Criteria
			for _, e := range part.args() {
				els = append(els, b.ref(e))
			}
			if part.head() == "Returning" {
				out = append(out, query.Returning(els...))
			} else {
				out = append(out, query.ReturningDistinct(els...))
			}
		case "OrderBy":
			var items []graph.Criteria
			for _, e := range part.args() {
				switch e.head() {
				case "asc":
					items = append(items, query.Order(b.ref(e.list[1]), query.Ascending()))
				case "desc":
					items = append(items, query.Order(b.ref(e.list[1]), query.Descending()))
				default:
					items = append(items, b.ref(e))
				}
			}
			out = append(out, query.OrderBy(items...))
		case "Limit":
			out = append(out, query.Limit(int(atoi(part.list[1]))))
		case "Offset":
			out = append(out, query.Offset(int(atoi(part.list[1]))))
		case "Update":
			var ups []*cypher.UpdatingClause
			for _, u := range part.args() {
				ups = append(ups, b.update(u))
			}
			out = append(out, query.Update(ups...))
		case "Delete":
			var els []graph.Criteria
			for _, e := range part.args() {
				els = append(els, b.ref(e))
			}
			out = append(out, query.Delete(els...))
		case "Create":
			var els []graph.Criteria
			for _, e := range part.args() {
				switch e.head() {
				case "NodePattern":
					els = append(els, query.NodePattern(kindsOf(e.args()), query.Parameter(map[string]any{"name": "x"})))
				case "RelationshipPattern":
					els = append(els, query.RelationshipPattern(graph.StringKind(e.list[1].str), query.Parameter(map[string]any{"w": 1}), graph.DirectionOutbound))
				default:
					els = append(els, b.ref(e))
				}
			}
			out = append(out, query.Create(els...))
		default:
			panic("harness: unknown query part " + part.String())
		}
	}
	return out
}

// ---------------------------------------------------------------------------------------------------
// runner
// ---------------------------------------------------------------------------------------------------

type c10Runner struct{ stats *Stats }

func (c10Suite) NewRunner(stats *Stats) Runner { return &c10Runner{stats: stats} }

func unexportedField(ptr any, name string) any {
	f := reflect.ValueOf(ptr).Elem().FieldByName(name)
	return reflect.NewAt(f.Type(), unsafe.Pointer(f.UnsafeAddr())).Elem().Interface()
}

func whereExpr(q *cypher.RegularQuery) (cypher.Expression, string) {
	rc := query.GetFirstReadingClause(q)
	if rc == nil || rc.Match == nil || rc.Match.Where == nil || len(rc.Match.Where.Expressions) == 0 {
		return nil, "none"
	}
	if len(rc.Match.Where.Expressions) > 1 {
		return nil, "multi"
	}
	return rc.Match.Where.Expressions[0], ""
}

func whereNone(q *cypher.RegularQuery) bool {
	w, note := whereExpr(q)
	return w == nil && note == "none"
}

func oneLine(s string) string {
	return strings.NewReplacer("\n", " ", "\t", " ", "\r", " ").Replace(s)
}

// collectParameters gathers the Value of every *cypher.Parameter reachable from v (the criteria as applied).
func collectParameters(v reflect.Value, seen map[uintptr]bool, out *[]string, depth int) {
	if !v.IsValid() || depth > 300 {
		return
	}
	switch v.Kind() {
	case reflect.Pointer:
		if v.IsNil() || seen[v.Pointer()] {
			return
		}
		seen[v.Pointer()] = true
		if v.Type() == reflect.TypeOf((*cypher.Parameter)(nil)) {
			p := (*cypher.Parameter)(v.UnsafePointer()) // may be reached through the unexported embedded expressionList
			*out = append(*out, typedValue(p.Value))
			return
		}
		collectParameters(v.Elem(), seen, out, depth+1)
	case reflect.Interface:
		if !v.IsNil() {
			collectParameters(v.Elem(), seen, out, depth+1)
		}
	case reflect.Struct:
		for i := 0; i < v.NumField(); i++ {
			collectParameters(v.Field(i), seen, out, depth+1)
		}
	case reflect.Slice, reflect.Array:
		for i := 0; i < v.Len(); i++ {
			collectParameters(v.Index(i), seen, out, depth+1)
		}
	case reflect.Map:
		it := v.MapRange()
		for it.Next() {
			collectParameters(it.Value(), seen, out, depth+1)
		}
	}
}

// typedValue renders a parameter value with its Go type (ToSexp alone prints int and int64 alike).
func typedValue(v any) string { return fmt.Sprintf("%T ", v) + ToSexp(v) }

// astValue reports whether a parameter VALUE is a node of the cypher model (it must be plain data).
func astValue(v any) string {
	if v == nil {
		return ""
	}
	t := reflect.TypeOf(v)
	for t.Kind() == reflect.Pointer {
		t = t.Elem()
	}
	if strings.HasSuffix(t.PkgPath(), "cypher/models/cypher") {
		return t.String()
	}
	return ""
}

type c10Compare struct {
	toks, gm, gr, m, r, q string
	reErr                 string
}

// compareModels is shared by both rendering paths: expression text → tokens, model before rendering and model
// re-parsed from the text → terms, normal forms, whole-query comparison.
func compareModels(pre *cypher.RegularQuery, text string) c10Compare {
	var out c10Compare
	preW, preNote := whereExpr(pre)
	out.m, out.gm, out.toks = "none", "none", "-"
	if preW != nil {
		var buf bytes.Buffer
		if err := format.NewCypherEmitter(false).WriteExpression(&buf, preW); err != nil {
			out.toks = "emit-error " + oneLine(err.Error())
		} else if !strings.Contains(text, " where "+buf.String()) {
			out.toks = "expression-text-not-in-query-text"
		} else if toks, err := c10Lex(buf.String()); err != nil {
			out.toks = "lex-error " + oneLine(err.Error())
		} else {
			out.toks = toks
		}
		t := exprTerm(preW)
		out.m = t.String()
		if hasUnmodelled(t) == "" {
			out.gm = normTerm(t).String()
		} else {
			out.gm = "unmodelled"
		}
	} else if preNote == "multi" {
		out.m, out.gm = unmodelled("where-with-several-expressions").String(), "unmodelled"
	}
	re, err := frontend.ParseCypher(frontend.NewContext(), text)
	out.r, out.gr = "none", "none"
	if err != nil {
		out.reErr = oneLine(err.Error())
		out.q = "reparse-error"
		return out
	}
	if reW, _ := whereExpr(re); reW != nil {
		t := exprTerm(reW)
		out.r = t.String()
		if hasUnmodelled(t) == "" {
			out.gr = normTerm(t).String()
		} else {
			out.gr = "unmodelled"
		}
	}
	if d := firstDiff(normQueryModel(pre), normQueryModel(re), ""); d != "" {
		out.q = "diff " + oneLine(d)
	} else {
		out.q = "ok"
	}
	return out
}

// liftedEdgeKind looks, in the criteria as APPLIED, for a kind matcher on the relationship variable that the neo4j
// ExpressionListRewriter will move into the MATCH pattern (any matcher on `r` without a Negation ancestor) although it
// sits under an OR / XOR: `r:A or x` becomes `match ()-[r:A]->() where x`, i.e. `r:A and x`.
func liftedEdgeKind(e cypher.Expression, underNeg bool, under string) string {
	switch t := e.(type) {
	case *cypher.Negation:
		return liftedEdgeKind(t.Expression, true, under)
	case *cypher.Parenthetical:
		return liftedEdgeKind(t.Expression, underNeg, under)
	case *cypher.Conjunction:
		for _, c := range t.GetAll() {
			if r := liftedEdgeKind(c, underNeg, under); r != "" {
				return r
			}
		}
	case *cypher.Disjunction:
		if t.Len() > 1 {
			under = "or"
		}
		for _, c := range t.GetAll() {
			if r := liftedEdgeKind(c, underNeg, under); r != "" {
				return r
			}
		}
	case *cypher.ExclusiveDisjunction:
		if t.Len() > 1 {
			under = "xor"
		}
		for _, c := range t.GetAll() {
			if r := liftedEdgeKind(c, underNeg, under); r != "" {
				return r
			}
		}
	case *cypher.KindMatcher:
		if v, ok := t.Reference.(*cypher.Variable); ok && v.Symbol == query.EdgeSymbol && !underNeg && under != "" {
			return under
		}
	}
	return ""
}

func (r *c10Runner) Step(t []string, raw string) string {
	if len(t) < 2 {
		return "bad-op"
	}
	if t[0] == "mode" {
		return "ok"
	}
	if t[0] != "t" {
		return "bad-op"
	}
	term, err := parseSx(strings.TrimSpace(strings.TrimPrefix(strings.TrimSpace(raw), "t")))
	if err != nil || term.head() != "Q" {
		return "bad-op"
	}
	// The criteria VALUE is built once and handed to several builders, as callers do (count-then-fetch): the builders
	// must leave it alone (input immutability) and give the same text every time (render idempotence).
	b := &c10Builder{}
	crits := b.top(term)
	before := ToSexp(crits)
	applied := "none" // the WHERE criteria as applied, as a term of the Lean algebra (input of the Prepare model)
	lift := "ok"
	var appliedParams []string
	for _, c := range crits {
		collectParameters(reflect.ValueOf(c), map[uintptr]bool{}, &appliedParams, 0)
		if w, ok := c.(*cypher.Where); ok && len(w.Expressions) == 1 {
			applied = exprTerm(w.Expressions[0]).String()
			if u := liftedEdgeKind(w.Expressions[0], false, ""); u != "" {
				lift = u
			}
		}
	}
	builderText := func() string {
		qb0 := query.NewBuilder(nil)
		qb0.Apply(crits...)
		rq, err := qb0.Build(false)
		if err != nil {
			return "build-error " + oneLine(err.Error())
		}
		txt, err := format.RegularQuery(rq, false)
		if err != nil {
			return "render-error " + oneLine(err.Error())
		}
		return txt
	}
	neoText := func() (*qn.QueryBuilder, string, string) {
		q := qn.NewEmptyQueryBuilder()
		for _, c := range crits {
			q.Apply(c)
		}
		if err := q.Prepare(); err != nil {
			return q, "", "prepare-error " + oneLine(err.Error())
		}
		txt, err := q.Render()
		if err != nil {
			return q, "", "render-error " + oneLine(err.Error())
		}
		return q, txt, ""
	}
	textB0 := builderText()
	mutated := "ok"
	checkMutation := func(stage string) {
		if mutated == "ok" {
			if after := ToSexp(crits); after != before {
				bt, _ := parseSx(before)
				at, _ := parseSx(after)
				mutated = stage + " " + oneLine(firstDiff(bt, at, ""))
			}
		}
	}
	checkMutation("query.Builder")
	// --- path 1: query/neo4j.QueryBuilder (Apply → Prepare → Render), twice through fresh builders
	qb, text, fail := neoText()
	checkMutation("neo4j.QueryBuilder#1")
	_, text2nd, fail2 := neoText()
	checkMutation("neo4j.QueryBuilder#2")
	textB1 := builderText()
	// --- isolation of APPLIED criteria (seed C10-r6-2): a builder that keeps the caller's *Limit / *Skip / *Order by
	// reference emits whatever the caller does to them between Apply and Prepare. A fresh set of criteria objects is
	// applied, the caller then edits its own objects, and the text must still be the text of what was applied.
	if fail == "" && mutated == "ok" {
		fresh := (&c10Builder{}).top(term)
		q3 := qn.NewEmptyQueryBuilder()
		for _, c := range fresh {
			q3.Apply(c)
		}
		edited := false
		for _, c := range fresh {
			switch t := c.(type) {
			case *cypher.Limit:
				t.Value = query.Literal(987654)
				edited = true
			case *cypher.Skip:
				t.Value = query.Literal(876543)
				edited = true
			case *cypher.Order:
				for _, item := range t.Items {
					item.Ascending = !item.Ascending
					edited = true
				}
			}
		}
		if edited {
			r.stats.Inc("applied_criteria_edited_before_prepare")
			if err := q3.Prepare(); err == nil {
				if text3, err := q3.Render(); err == nil && text3 != text {
					mutated = "neo4j.QueryBuilder emits the caller's later edits of applied criteria: applied=" + c10Quote(text) + " emitted=" + c10Quote(text3)
				}
			}
		}
	}
	idem := "ok"
	switch {
	case fail != fail2 || text != text2nd:
		idem = "neo4j second=" + c10Quote(text2nd+fail2)
	case textB0 != textB1:
		idem = "query.Builder first=" + c10Quote(textB0) + " second=" + c10Quote(textB1)
	}
	if fail != "" {
		if strings.HasPrefix(fail, "prepare-error") {
			r.stats.Inc("prepare_error")
		} else {
			r.stats.Inc("render_error")
		}
		return strings.Join([]string{fail, "A " + applied, "idem " + idem, "mut " + mutated}, "\t")
	}
	r.stats.Inc("rendered")
	pre := unexportedField(qb, "query").(*cypher.RegularQuery)
	cmp := compareModels(pre, text)
	if cmp.reErr != "" {
		r.stats.Inc("reparse_error")
	}
	if cmp.gm == "unmodelled" || cmp.gr == "unmodelled" {
		r.stats.Inc("unmodelled_by_lean")
	}
	// --- parameters: every $pN of the text has a value, and the value is data, not an AST node
	params := "ok"
	var keys []string
	for k := range qb.Parameters {
		keys = append(keys, k)
	}
	sort.Strings(keys)
	for _, k := range keys {
		if ty := astValue(qb.Parameters[k]); ty != "" {
			params = "ast-node-as-value " + k + ":" + ty
			r.stats.Inc("param_ast_node_value")
			break
		}
		if !strings.Contains(text, "$"+k) {
			params = "unused-parameter " + k
			break
		}
	}
	if params == "ok" { // same multiset of (type, value) as the constructors were given
		var got []string
		for _, k := range keys {
			got = append(got, typedValue(qb.Parameters[k]))
		}
		sort.Strings(got)
		sort.Strings(appliedParams)
		if strings.Join(got, "\x00") != strings.Join(appliedParams, "\x00") {
			params = fmt.Sprintf("values-differ applied=%d bound=%d", len(appliedParams), len(got))
		}
	}
	if params == "ok" {
		for i := 0; ; i++ {
			k := "p" + strconv.Itoa(i)
			if _, ok := qb.Parameters[k]; !ok {
				if strings.Contains(text, "$"+k+" ") || strings.HasSuffix(text, "$"+k) || strings.Contains(text, "$"+k+")") {
					params = "missing-parameter " + k
				}
				break
			}
		}
	}
	// --- string literals: NewStringLiteral's source form decodes to the original string
	str := "ok"
	for _, p := range b.strings {
		if dec, ok := c10DecodeString(p[1]); !ok || dec != p[0] {
			str = "escape " + c10Quote(p[0]) + " -> " + c10Quote(p[1])
			break
		}
	}
	// --- path 2: query.Builder.Build + format.RegularQuery (no parameter symbols: only parameter-free terms render)
	bres := "skip-parameters"
	if len(qb.Parameters) == 0 {
		qb2 := query.NewBuilder(nil)
		qb2.Apply(crits...)
		if rq, err := qb2.Build(false); err != nil {
			bres = "build-error " + oneLine(err.Error())
		} else if text2, err := format.RegularQuery(rq, false); err != nil {
			bres = "render-error " + oneLine(err.Error())
		} else {
			r.stats.Inc("builder_path_rendered")
			c2 := compareModels(rq, text2)
			switch {
			case c2.reErr != "":
				bres = "reparse-error"
			case c2.gm != c2.gr:
				bres = "where-differs"
			case c2.q != "ok":
				bres = c2.q
			default:
				bres = "ok"
			}
			if text2 == text {
				bres += " same-text"
			}
		}
	}
	checkMutation("query.Builder#3")
	// --- kinds Prepare put on the relationship pattern (part of the meaning of the rendered query)
	rk := "none"
	if rc := query.GetFirstReadingClause(pre); rc != nil && rc.Match != nil {
		if rp := rc.Match.FirstRelationshipPattern(); rp != nil {
			ks := sxList(sxAtom("ks"))
			for _, k := range rp.Kinds {
				ks.list = append(ks.list, sxStr(k.String()))
			}
			rk = ks.String()
		}
	}
	// --- the whole query as terms of the clause-level algebra: after Prepare (QM), re-parsed (QR), as applied (QA:
	// Prepare's effects undone — parameter names blanked, hoisted kinds stripped, WHERE as the caller applied it)
	qm := queryTerm(pre, nil, false)
	qmS, qrS, qaS, qtoks, gqm, gqr := qm.String(), "none", "none", "-", "unmodelled", "none"
	if hasUnmodelled(qm) == "" {
		gqm = normQueryTerm(qm).String()
		if t, err := c10Lex(text); err == nil {
			qtoks = t
		} else {
			qtoks = "lex-error " + oneLine(err.Error())
		}
		if applied != "none" || whereNone(pre) {
			var ov *sx
			if applied != "none" {
				ov, _ = parseSx(applied)
			}
			qa := blankParams(queryTerm(pre, ov, true))
			if applied == "none" { // nothing was applied as WHERE
				qa = blankParams(queryTerm(pre, nil, true))
			}
			if hasUnmodelled(qa) == "" {
				qaS = qa.String()
			}
		}
	}
	if cmp.reErr == "" {
		if re, err := frontend.ParseCypher(frontend.NewContext(), text); err == nil {
			qr := queryTerm(re, nil, false)
			qrS = qr.String()
			if hasUnmodelled(qr) == "" {
				gqr = normQueryTerm(qr).String()
			} else {
				gqr = "unmodelled"
			}
		}
	}
	return strings.Join([]string{"toks " + cmp.toks, "gm " + cmp.gm, "gr " + cmp.gr, "M " + cmp.m, "R " + cmp.r, "q " + cmp.q,
		"params " + params, "str " + str, "b " + bres, "reerr " + cmp.reErr, "text " + c10Quote(text), "lift " + lift,
		"A " + applied, "RK " + rk, "idem " + idem, "mut " + mutated,
		"QM " + qmS, "QR " + qrS, "QA " + qaS, "qtoks " + qtoks, "gqm " + gqm, "gqr " + gqr}, "\t")
}

// ---------------------------------------------------------------------------------------------------
// c10rw: parse → format → re-parse over the repository corpora
// ---------------------------------------------------------------------------------------------------

func (c10rwSuite) Gen(rng *Rng, tier string, w *bufio.Writer, stats *Stats) {
	n := 0
	extra := []string{
		"MATCH (n) WHERE n:A:B RETURN n",
		"MATCH (n $props) WHERE n:A:B AND n.x = $v RETURN n",
		"MATCH (n) WHERE NOT NOT n.x = 1 RETURN n",
		"MATCH (n) WHERE n.x = 1 AND (n.y = 2 XOR n.z = 3) RETURN n",
		"MATCH (n) WHERE n.x = 1.0 OR n.y = -0.0 OR n.z = -5 RETURN n",
		"MATCH (n) WHERE n.name = 'it\\'s' AND n.p = \"dq\" RETURN n",
		"MATCH (n) WHERE n.x = -9223372036854775807 RETURN n",
		"MATCH (n) WHERE (n:A OR n:B) AND NOT (n.x = 1 OR n.y = 2) RETURN n",
		"MATCH (n) WHERE n.date < datetime() - duration('P1D') AND n:A:B RETURN n",
	}
	for _, q := range extra {
		n++
		fmt.Fprintf(w, "# case %d extra\nq %s\n", n, jsonQuote(q))
		stats.Inc("extra")
	}
	for _, c := range LoadCypherCorpus() {
		n++
		fmt.Fprintf(w, "# case %d corpus:%s\nq %s\n", n, c.Source, jsonQuote(c.Query))
		stats.Inc("corpus")
	}
}

type c10rwRunner struct{ stats *Stats }

func (c10rwSuite) NewRunner(stats *Stats) Runner { return &c10rwRunner{stats: stats} }

// rwShapes names the F8 shape classes present in a parsed model (so that a difference can be attributed).
func rwShapes(v reflect.Value, seen map[uintptr]bool, out map[string]bool, depth int) {
	if !v.IsValid() || depth > 300 {
		return
	}
	switch v.Kind() {
	case reflect.Pointer:
		if v.IsNil() || seen[v.Pointer()] {
			return
		}
		seen[v.Pointer()] = true
		switch t := v.Interface().(type) {
		case *cypher.KindMatcher:
			if t.IsExclusive && len(t.Kinds) > 1 {
				out["all-of-kinds"] = true
			}
		case *cypher.Literal:
			switch f := t.Value.(type) {
			case float64:
				if !t.Null && f == math.Trunc(f) && !math.IsInf(f, 0) {
					out["integral-float"] = true
				}
			}
		}
		rwShapes(v.Elem(), seen, out, depth+1)
	case reflect.Interface:
		if !v.IsNil() {
			rwShapes(v.Elem(), seen, out, depth+1)
		}
	case reflect.Struct:
		for i := 0; i < v.NumField(); i++ {
			rwShapes(v.Field(i), seen, out, depth+1)
		}
	case reflect.Slice, reflect.Array:
		for i := 0; i < v.Len(); i++ {
			rwShapes(v.Index(i), seen, out, depth+1)
		}
	case reflect.Map:
		it := v.MapRange()
		for it.Next() {
			rwShapes(it.Value(), seen, out, depth+1)
		}
	}
}

func (r *c10rwRunner) Step(t []string, raw string) string {
	if len(t) < 2 || t[0] != "q" {
		return "bad-op"
	}
	q, ok := jsonUnquote(strings.TrimSpace(strings.TrimPrefix(strings.TrimSpace(raw), "q")))
	if !ok {
		return "bad-op"
	}
	m1, err := frontend.ParseCypher(frontend.NewContext(), q)
	if err != nil || m1 == nil {
		r.stats.Inc("rw.unparsable")
		return "skip unparsable"
	}
	text, err := format.RegularQuery(m1, false)
	if err != nil {
		r.stats.Inc("rw.format_error")
		return "format-error " + oneLine(err.Error())
	}
	shapes := map[string]bool{}
	rwShapes(reflect.ValueOf(m1), map[uintptr]bool{}, shapes, 0)
	var names []string
	for k := range shapes {
		names = append(names, k)
	}
	sort.Strings(names)
	sh := strings.Join(names, ",")
	if sh == "" {
		sh = "-"
	}
	m2, err := frontend.ParseCypher(frontend.NewContext(), text)
	if err != nil || m2 == nil {
		r.stats.Inc("rw.reparse_error")
		return "reparse-error\tshapes " + sh + "\ttext " + c10Quote(text)
	}
	r.stats.Inc("rw.compared")
	if d := firstDiff(normQueryModel(m1), normQueryModel(m2), ""); d != "" {
		r.stats.Inc("rw.differs")
		return "diff " + oneLine(d) + "\tshapes " + sh + "\ttext " + c10Quote(text)
	}
	// idempotence of the emitter on its own output
	if text2, err := format.RegularQuery(m2, false); err == nil && text2 != text {
		return "unstable-text\tshapes " + sh + "\ttext " + c10Quote(text)
	}
	return "ok\tshapes " + sh
}
