package main

// C20 — corrupt, tampered or hostile dump input is rejected before it can do harm.
//
// Suite `c20` (search / tie on observables, judged by the Lean monitor `c20mon`):
//
//	dump codec=.. graphs=.. nodes=.. edges=.. shard=.. batch=.. gseed=..   build a source DB, run the REAL Dump,
//	                                                                        keep the files in memory, build an encrypted archive
//	noop                         load the pristine copy                    -> must be `ok equal=1`
//	sub <file> <off> <xor>       one byte substituted                      -> every mutation op: fresh temp dir, fresh fake DB, real Load
//	trunc <file> <len> | append <file> <n> <val> | del <file>
//	swap <fi> <fj> | copy <fi> <fj>                                         fragment swap / duplication
//	man <json.path> <json-value>                                            single manifest field edit
//	mans <json.path> <json-value> <json.path> <json-value> ...              consistent multi-field manifest edit
//	arcmans <json.path> <json-value> ...                                    the same, packed by the REAL archive writer and loaded through ArchiveReader
//	arc sub <off> <xor> | arc trunc <len> | arc append <n> | arc noop       encrypted archive bytes, Load with ArchiveReader
//	arcins <boundary> <type> <len>   a frame nobody sealed (header + <len> zero bytes; len = max | over: the size limit, one above)
//	                                 inserted at frame boundary <boundary> (0 = after the archive header, last = before the final frame), Load(ArchiveReader)
//	uins <mode> <pre> <boundary> <type> <len>   the same archive through Unpack / the direct API
//	arckey wrong | arckey malformed <variant>                               wrong / malformed key material
//	tar <mode> <pre> <entry,entry,...>                                      see c20_tar.go
//
// Answers: `<ok|err> log=<write attempts> schema=<n> equal=<0|1|-> cls=<error class>`.

import (
	"archive/tar"
	"bufio"
	"bytes"
	"context"
	"crypto/hpke"
	"encoding/binary"
	"encoding/hex"
	"encoding/json"
	"fmt"
	"io"
	"log/slog"
	"os"
	"path/filepath"
	"regexp"
	"sort"
	"strconv"
	"strings"

	"github.com/specterops/dawgs/graph"
	"github.com/specterops/dawgs/retriever"
)

type c20Suite struct{}

func init() { register("c20", c20Suite{}) }

// c20Quiet silences the library's slog output and, when a RAM-backed /dev/shm exists and the caller did
// not choose a TMPDIR, moves every os.MkdirTemp of this process there (tens of thousands of tiny dump
// copies per run; a disk-backed /tmp makes the run IO-bound and its duration erratic).
func c20Quiet() {
	slog.SetDefault(slog.New(slog.NewTextHandler(io.Discard, nil)))
	if os.Getenv("TMPDIR") == "" {
		if dir, err := os.MkdirTemp("/dev/shm", "c20-probe-*"); err == nil {
			_ = os.Remove(dir)
			_ = os.Setenv("TMPDIR", "/dev/shm")
		}
	}
}

// ---------------------------------------------------------------- pristine dump of one case

type c20File struct {
	path string // slash relative path inside the dump directory
	data []byte
}

type c20Dump struct {
	files    []c20File // [0] = manifest.json, then fragments in manifest order
	expected string    // canonical source graph
	batch    int
	priv     hpke.PrivateKey
	pub      hpke.PublicKey
	wrong    hpke.PrivateKey
	archive  []byte // encrypted collection archive of the pristine dump
	tarBytes []byte // plain collection tar of the pristine dump
	codec    string
	meta     []c20FileMeta // aligned with files; meta[0] (manifest.json) unused
	nodeIDs  [][]string    // node ids per graph, in file order, as spelled in the dump
}

var c20GeneratedAt = regexp.MustCompile(`"generated_at": "[^"]*"`)

func c20KV(tokens []string) map[string]string {
	out := map[string]string{}
	for _, t := range tokens {
		if i := strings.IndexByte(t, '='); i > 0 {
			out[t[:i]] = t[i+1:]
		}
	}
	return out
}

func c20Atoi(s string, def int) int {
	if v, err := strconv.Atoi(s); err == nil {
		return v
	}
	return def
}

// c20SourceDB builds the source database of a case from its own seed (pure function of the op line).
func c20SourceDB(graphs, nodes, edges int, gseed uint64) (*c20DB, []retriever.GraphTarget) {
	rng := NewRng(gseed)
	db := newC20DB()
	names := []string{"alpha", "beta", "gamma"}
	kinds := []string{"User", "Group", "Computer"}
	edgeKinds := []string{"MemberOf", "AdminTo"}
	texts := []string{"plain", "with space", "q\"uote", "uni-é-日本", "back\\slash", "nl\nline", ""}
	targets := []retriever.GraphTarget{}
	id := 1
	for gi := 0; gi < graphs; gi++ {
		name := names[gi%len(names)]
		targets = append(targets, retriever.GraphTarget{Name: name})
		db.g(name)
		ids := []graph.ID{}
		for i := 0; i < nodes; i++ {
			id += 1 + rng.Intn(4)
			props := map[string]any{"name": fmt.Sprintf("%s-%d-%s", name, i, Pick(rng, texts))}
			if rng.Bool() {
				props["n"] = rng.Intn(1000)
			}
			if rng.Chance(1, 3) {
				props["flag"] = rng.Bool()
			}
			if rng.Chance(1, 4) {
				props["list"] = []any{rng.Intn(9), "x", true}
			}
			ks := []string{}
			for _, k := range kinds {
				if rng.Chance(1, 2) {
					ks = append(ks, k)
				}
			}
			db.addNode(name, graph.ID(id), props, ks...)
			ids = append(ids, graph.ID(id))
		}
		for i := 0; i < edges && len(ids) > 0; i++ {
			id += 1 + rng.Intn(3)
			var props map[string]any
			if rng.Bool() {
				props = map[string]any{"w": rng.Intn(50), "i": i}
			} else {
				props = map[string]any{"i": i}
			}
			db.addRel(name, graph.ID(id), Pick(rng, ids), Pick(rng, ids), Pick(rng, edgeKinds), props)
		}
	}
	return db, targets
}

func c20BuildDump(kv map[string]string) (*c20Dump, error) {
	codec := retriever.CompressionCodec(kv["codec"])
	graphs, nodes, edges := c20Atoi(kv["graphs"], 1), c20Atoi(kv["nodes"], 3), c20Atoi(kv["edges"], 2)
	shard, batch := c20Atoi(kv["shard"], 2), c20Atoi(kv["batch"], 2)
	gseed, _ := strconv.ParseUint(kv["gseed"], 10, 64)
	src, targets := c20SourceDB(graphs, nodes, edges, gseed)
	tmp, err := os.MkdirTemp("", "c20-dump-*")
	if err != nil {
		return nil, err
	}
	defer os.RemoveAll(tmp)
	out := filepath.Join(tmp, "dump")
	opts := retriever.DefaultDumpOptions(out)
	opts.Compression, opts.ShardSize, opts.BatchSize = codec, shard, batch
	res, err := retriever.Dump(context.Background(), src, "test", targets, opts)
	if err != nil {
		return nil, fmt.Errorf("dump: %w", err)
	}
	// generated_at is the only run-dependent byte range; pin it so that byte offsets are reproducible
	manifestPath := filepath.Join(out, retriever.ManifestFileName)
	raw, err := os.ReadFile(manifestPath)
	if err != nil {
		return nil, err
	}
	raw = c20GeneratedAt.ReplaceAll(raw, []byte(`"generated_at": "2026-01-02T03:04:05Z"`))
	if err := os.WriteFile(manifestPath, raw, 0o600); err != nil {
		return nil, err
	}
	d := &c20Dump{expected: src.canonical(), batch: c20Atoi(kv["lbatch"], batch), codec: string(codec)} // lbatch: BatchSize of Load only
	d.files = append(d.files, c20File{path: retriever.ManifestFileName, data: raw})
	d.meta = append(d.meta, c20FileMeta{})
	for gi, g := range res.Manifest.Graphs {
		for fi, f := range g.Files {
			data, err := os.ReadFile(filepath.Join(out, filepath.FromSlash(f.Path)))
			if err != nil {
				return nil, err
			}
			d.files = append(d.files, c20File{path: f.Path, data: data})
			d.meta = append(d.meta, c20FileMeta{graph: gi, file: fi, phase: f.Phase})
		}
	}
	// id spelling of the honest dump (numeric = what Dump wrote); also records the node ids per graph
	if err := d.restyle(kv["ids"]); err != nil {
		return nil, fmt.Errorf("restyle: %w", err)
	}
	if kv["ids"] != "" && kv["ids"] != "numeric" {
		for _, f := range d.files {
			if err := os.WriteFile(filepath.Join(out, filepath.FromSlash(f.path)), f.data, 0o600); err != nil {
				return nil, err
			}
		}
	}
	if d.priv, d.pub, err = retriever.GenerateArchiveKeyPair(); err != nil {
		return nil, err
	}
	if d.wrong, _, err = retriever.GenerateArchiveKeyPair(); err != nil {
		return nil, err
	}
	var arc, tarBuf bytes.Buffer
	if err := retriever.WriteEncryptedCollectionArchive(&arc, out, d.pub); err != nil {
		return nil, fmt.Errorf("archive: %w", err)
	}
	if err := retriever.WriteCollectionTar(&tarBuf, out); err != nil {
		return nil, fmt.Errorf("tar: %w", err)
	}
	d.archive, d.tarBytes = arc.Bytes(), tarBuf.Bytes()
	return d, nil
}

// materialise writes a (mutated) copy of the dump into a fresh temp dir.
func c20Materialise(files []c20File) (string, error) {
	dir, err := os.MkdirTemp("", "c20-load-*")
	if err != nil {
		return "", err
	}
	for _, f := range files {
		if f.data == nil {
			continue // deleted
		}
		p := filepath.Join(dir, filepath.FromSlash(f.path))
		if err := os.MkdirAll(filepath.Dir(p), 0o755); err != nil {
			os.RemoveAll(dir)
			return "", err
		}
		if err := os.WriteFile(p, f.data, 0o600); err != nil {
			os.RemoveAll(dir)
			return "", err
		}
	}
	return dir, nil
}

func c20ErrClass(err error) string {
	if err == nil {
		return "-"
	}
	m := err.Error()
	for _, p := range [][2]string{
		{"references missing", "dangling-endpoint"}, {"duplicate source node", "duplicate-id"},
		{"sha256 mismatch", "checksum"}, {"compressed byte mismatch", "bytecount"},
		{"decode manifest", "manifest-json"}, {"read manifest", "manifest-read"},
		{"does not match manifest count", "count"}, {"but manifest expected", "entity-count-after-write"},
		{"decoded", "fragment-count-after-write"}, {"unsupported compression", "codec"},
		{"open compressed fragment", "codec-open"}, {"decode JSONL", "jsonl"}, {"open fragment", "open"},
		{"does not match", "manifest-validate"}, {"unsupported", "manifest-validate"}, {"manifest", "manifest-validate"},
		{"missing final frame", "frame-missing-final"}, {"decrypt archive frame", "frame-decrypt"},
		{"trailing data", "frame-trailing"}, {"archive magic", "arc-magic"}, {"archive header", "arc-header"},
		{"archive frame", "frame-read"}, {"recipient", "kem"}, {"key", "key"}, {"tar", "tar"},
	} {
		if strings.Contains(m, p[0]) {
			return p[1]
		}
	}
	return "other"
}

func (d *c20Dump) load(stats *Stats, files []c20File, archive []byte, identity hpke.PrivateKey) string {
	db := newC20DB()
	opts := retriever.LoadOptions{BatchSize: d.batch, ProgressInterval: retriever.DefaultProgressInterval}
	if archive != nil {
		opts.ArchiveReader, opts.ArchiveIdentity = c20Reader(archive), identity
	} else {
		dir, err := c20Materialise(files)
		if err != nil {
			return "harness-error " + err.Error()
		}
		defer os.RemoveAll(dir)
		opts.InputDir = dir
	}
	_, err := retriever.Load(context.Background(), db, "test", opts)
	equal := "-"
	res := "err"
	if err == nil {
		res = "ok"
		equal = "0"
		if db.canonical() == d.expected {
			equal = "1"
		}
	}
	cls := c20ErrClass(err)
	stats.Inc("branch.load." + res)
	stats.Inc("errclass." + cls)
	if archive != nil && err != nil {
		// the archive's ciphertext is freshly randomised by HPKE on every run: which check trips first at a
		// given offset (base64, KEM, header JSON, frame) may differ between runs, the verdict does not;
		// the fine class goes to the statistics only so that the answer stream is a function of the seed
		cls = "archive"
	}
	return fmt.Sprintf("%s log=%d schema=%d equal=%s cls=%s", res, len(db.mutations), len(db.schemaLog), equal, cls)
}

// loadKeepClass loads an UNTAMPERED archive (built from an edited collection): the error class is a function
// of the collection, so it is kept in the answer.
func (d *c20Dump) loadKeepClass(stats *Stats, archive []byte, identity hpke.PrivateKey) string {
	db := newC20DB()
	_, err := retriever.Load(context.Background(), db, "test", retriever.LoadOptions{
		BatchSize: d.batch, ProgressInterval: retriever.DefaultProgressInterval,
		ArchiveReader: c20Reader(archive), ArchiveIdentity: identity})
	res, equal := "err", "-"
	if err == nil {
		res, equal = "ok", "0"
		if db.canonical() == d.expected {
			equal = "1"
		}
	}
	cls := c20ErrClass(err)
	stats.Inc("branch.load." + res)
	stats.Inc("errclass." + cls)
	return fmt.Sprintf("%s log=%d schema=%d equal=%s cls=%s", res, len(db.mutations), len(db.schemaLog), equal, cls)
}

const c20MaxFrame = 1024*1024 + 4096 // maxEncryptedArchiveFrameSize

// insertFrame splices an unauthenticated frame into the pristine encrypted archive at a frame boundary.
func (d *c20Dump) insertFrame(boundary, typ, length string) ([]byte, bool) {
	prelude, frames, ok := c20Frames(d.archive)
	if !ok {
		return nil, false
	}
	k := len(frames) - 1
	if boundary != "last" {
		k = c20Atoi(boundary, -1)
	}
	ty := c20Atoi(typ, -1)
	n := c20Atoi(length, -1)
	switch length {
	case "max":
		n = c20MaxFrame
	case "over":
		n = c20MaxFrame + 1
	}
	if k < 0 || k > len(frames) || ty < 0 || ty > 255 || n < 0 {
		return nil, false
	}
	out := append([]byte(nil), prelude...)
	for i := 0; i <= len(frames); i++ {
		if i == k {
			var hdr [5]byte
			hdr[0] = byte(ty)
			binary.BigEndian.PutUint32(hdr[1:], uint32(n))
			out = append(out, hdr[:]...)
			out = append(out, make([]byte, n)...)
		}
		if i < len(frames) {
			out = append(out, frames[i]...)
		}
	}
	return out, true
}

func (d *c20Dump) clone() []c20File {
	out := make([]c20File, len(d.files))
	for i, f := range d.files {
		out[i] = c20File{path: f.path, data: append([]byte(nil), f.data...)}
	}
	return out
}

// c20SetJSON sets the value at a dotted path (object keys / array indices) of a generic JSON document.
func c20SetJSON(doc any, path []string, value any) (any, bool) {
	if len(path) == 0 {
		return value, true
	}
	switch node := doc.(type) {
	case map[string]any:
		child, ok := node[path[0]]
		if !ok && len(path) > 1 {
			return doc, false
		}
		next, ok := c20SetJSON(child, path[1:], value)
		if !ok {
			return doc, false
		}
		node[path[0]] = next
		return node, true
	case []any:
		i, err := strconv.Atoi(path[0])
		if err != nil || i < 0 || i >= len(node) {
			return doc, false
		}
		next, ok := c20SetJSON(node[i], path[1:], value)
		if !ok {
			return doc, false
		}
		node[i] = next
		return node, true
	}
	return doc, false
}

func c20EditManifest(raw []byte, path string, valueToken string) ([]byte, bool) {
	dec := json.NewDecoder(bytes.NewReader(raw))
	dec.UseNumber()
	var doc any
	if err := dec.Decode(&doc); err != nil {
		return nil, false
	}
	vdec := json.NewDecoder(strings.NewReader(valueToken))
	vdec.UseNumber()
	var value any
	if err := vdec.Decode(&value); err != nil {
		return nil, false
	}
	next, ok := c20SetJSON(doc, strings.Split(path, "."), value)
	if !ok {
		return nil, false
	}
	out, err := json.MarshalIndent(next, "", "  ")
	if err != nil {
		return nil, false
	}
	return append(out, '\n'), true
}

// ---------------------------------------------------------------- runner

var c20DumpCache = map[string]*c20Dump{}

type c20Runner struct {
	stats *Stats
	dump  *c20Dump
}

func (c20Suite) NewRunner(stats *Stats) Runner { c20Quiet(); return &c20Runner{stats: stats} }

func (r *c20Runner) fileIndex(tok string) (int, bool) {
	i, err := strconv.Atoi(tok)
	return i, err == nil && r.dump != nil && i >= 0 && i < len(r.dump.files)
}

func (r *c20Runner) Step(t []string, raw string) string {
	if t[0] == "dump" {
		// the pristine dump of a dump line is immutable (every mutation works on a clone), so cases that
		// share a dump line share the dump: one tar op per case stays cheap and a known finding in one op
		// cannot mask a new violation in another (the flow reports the first rejection of a case)
		d, cached := c20DumpCache[raw]
		if !cached {
			var err error
			if d, err = c20BuildDump(c20KV(t[1:])); err != nil {
				return "bad-dump " + strings.ReplaceAll(err.Error(), "\n", " ")
			}
			if len(c20DumpCache) > 64 {
				c20DumpCache = map[string]*c20Dump{}
			}
			c20DumpCache[raw] = d
		}
		r.dump = d
		sizes := []string{}
		for _, f := range d.files {
			sizes = append(sizes, strconv.Itoa(len(f.data)))
		}
		r.stats.Inc("dumps")
		return fmt.Sprintf("ok files=%d sizes=%s arc=%d", len(d.files), strings.Join(sizes, ","), len(d.archive))
	}
	if t[0] == "with" && len(t) >= 3 && c20KnownBehaviour(t[1]) && t[2] != "with" && t[2] != "dump" {
		// deliver every stream of the wrapped op through this reader behaviour
		c20ReaderBehaviour = t[1]
		defer func() { c20ReaderBehaviour = "plain" }()
		r.stats.Inc("reader." + t[1])
		return r.Step(t[2:], raw)
	}
	if t[0] == "path" || t[0] == "frames" || t[0] == "framesr" || t[0] == "clean" || t[0] == "join" || t[0] == "canon" {
		// corpus files of the sibling suites c20path* / c20frames* also match the corpus glob "c20*.ops" of this suite
		return "foreign-op"
	}
	if r.dump == nil {
		return "bad-op no-dump"
	}
	d := r.dump
	r.stats.Inc("op." + t[0])
	switch {
	case t[0] == "noop" && len(t) == 1:
		return d.load(r.stats, d.files, nil, nil)
	case t[0] == "sub" && len(t) == 4:
		fi, ok := r.fileIndex(t[1])
		off, x := c20Atoi(t[2], -1), c20Atoi(t[3], 0)
		if !ok || off < 0 || off >= len(d.files[fi].data) || x <= 0 || x > 255 {
			return "bad-op"
		}
		files := d.clone()
		files[fi].data[off] ^= byte(x)
		return d.load(r.stats, files, nil, nil)
	case t[0] == "trunc" && len(t) == 3:
		fi, ok := r.fileIndex(t[1])
		n := c20Atoi(t[2], -1)
		if !ok || n < 0 || n >= len(d.files[fi].data) {
			return "bad-op"
		}
		files := d.clone()
		files[fi].data = files[fi].data[:n]
		return d.load(r.stats, files, nil, nil)
	case t[0] == "append" && len(t) == 4:
		fi, ok := r.fileIndex(t[1])
		n, v := c20Atoi(t[2], 0), c20Atoi(t[3], 0)
		if !ok || n <= 0 || n > 1<<16 {
			return "bad-op"
		}
		files := d.clone()
		files[fi].data = append(files[fi].data, bytes.Repeat([]byte{byte(v)}, n)...)
		return d.load(r.stats, files, nil, nil)
	case t[0] == "del" && len(t) == 2:
		fi, ok := r.fileIndex(t[1])
		if !ok {
			return "bad-op"
		}
		files := d.clone()
		files[fi].data = nil
		return d.load(r.stats, files, nil, nil)
	case (t[0] == "swap" || t[0] == "copy") && len(t) == 3:
		fi, ok1 := r.fileIndex(t[1])
		fj, ok2 := r.fileIndex(t[2])
		if !ok1 || !ok2 || fi == fj || fi == 0 || fj == 0 {
			return "bad-op"
		}
		if bytes.Equal(d.files[fi].data, d.files[fj].data) {
			return "identical"
		}
		files := d.clone()
		if t[0] == "swap" {
			files[fi].data, files[fj].data = files[fj].data, files[fi].data
		} else {
			files[fj].data = append([]byte(nil), files[fi].data...)
		}
		return d.load(r.stats, files, nil, nil)
	case t[0] == "man" && len(t) == 3:
		edited, ok := c20EditManifest(d.files[0].data, t[1], t[2])
		if !ok {
			return "bad-op"
		}
		files := d.clone()
		files[0].data = edited
		return d.load(r.stats, files, nil, nil)
	case (t[0] == "mans" || t[0] == "arcmans") && len(t) >= 3 && len(t)%2 == 1:
		edited := d.files[0].data
		for i := 1; i+1 < len(t); i += 2 {
			next, ok := c20EditManifest(edited, t[i], t[i+1])
			if !ok {
				return "bad-op"
			}
			edited = next
		}
		files := d.clone()
		files[0].data = edited
		if t[0] == "mans" {
			return d.load(r.stats, files, nil, nil)
		}
		// pack the edited collection with the real writer (it validates the manifest, not the fragments)
		dir, err := c20Materialise(files)
		if err != nil {
			return "harness-error " + err.Error()
		}
		defer os.RemoveAll(dir)
		var arc bytes.Buffer
		if err := retriever.WriteEncryptedCollectionArchive(&arc, dir, d.pub); err != nil {
			r.stats.Inc("arcmans.unbuildable")
			return "skip unbuildable " + c20ErrClass(err)
		}
		r.stats.Inc("arcmans.built")
		return d.loadKeepClass(r.stats, arc.Bytes(), d.priv)
	case t[0] == "arcins" && len(t) == 4:
		arc, ok := d.insertFrame(t[1], t[2], t[3])
		if !ok {
			return "bad-op"
		}
		return d.load(r.stats, nil, arc, d.priv)
	case t[0] == "uins" && len(t) == 6:
		arc, ok := d.insertFrame(t[3], t[4], t[5])
		if !ok {
			return "bad-op"
		}
		return r.unpackObserved(t[1], t[2], arc)
	case (t[0] == "mtail" || t[0] == "mhead") && len(t) == 3:
		extra, err := hex.DecodeString(t[2])
		if err != nil || len(extra) == 0 {
			return "bad-op"
		}
		files := d.clone()
		if t[0] == "mtail" {
			files[0].data = append(files[0].data, extra...)
		} else {
			files[0].data = append(append([]byte(nil), extra...), files[0].data...)
		}
		switch t[1] {
		case "dir":
			return d.load(r.stats, files, nil, nil)
		case "arc":
			dir, err := c20Materialise(files)
			if err != nil {
				return "harness-error " + err.Error()
			}
			defer os.RemoveAll(dir)
			var arc bytes.Buffer
			if err := retriever.WriteEncryptedCollectionArchive(&arc, dir, d.pub); err != nil {
				r.stats.Inc("mtail.unbuildable")
				return "skip unbuildable " + c20ErrClass(err)
			}
			return d.loadKeepClass(r.stats, arc.Bytes(), d.priv)
		}
		return "bad-op"
	case t[0] == "umtail" && len(t) == 4:
		// manifest.json extended inside a hostile encrypted archive: the real writer refuses such a manifest, so the
		// attacker packs the tar himself (public key only) and the real Unpack has to refuse it
		extra, err := hex.DecodeString(t[3])
		if err != nil || len(extra) == 0 {
			return "bad-op"
		}
		var tarBuf bytes.Buffer
		tw := tar.NewWriter(&tarBuf)
		paths := []int{}
		for i := range d.files {
			paths = append(paths, i)
		}
		sort.Slice(paths, func(a, b int) bool { return d.files[paths[a]].path < d.files[paths[b]].path })
		for _, i := range paths {
			data := d.files[i].data
			if i == 0 {
				data = append(append([]byte(nil), data...), extra...)
			}
			_ = tw.WriteHeader(&tar.Header{Name: d.files[i].path, Typeflag: tar.TypeReg, Mode: 0o600, Size: int64(len(data))})
			_, _ = tw.Write(data)
		}
		_ = tw.Close()
		var arc bytes.Buffer
		w, err := retriever.NewEncryptedArchiveWriter(&arc, d.pub)
		if err != nil {
			return "harness-error " + err.Error()
		}
		_, _ = w.Write(tarBuf.Bytes())
		_ = w.Close()
		return r.unpackObserved(t[1], t[2], arc.Bytes())
	case (t[0] == "edge" || t[0] == "arcedge" || t[0] == "dupnode") && len(t) >= 4:
		return r.semanticOp(t)
	case t[0] == "uarc" && len(t) == 6:
		return r.uarcOp(t[1], t[2], t[3:])
	case t[0] == "arc" && len(t) >= 2:
		arc := append([]byte(nil), d.archive...)
		switch {
		case t[1] == "noop" && len(t) == 2:
		case t[1] == "sub" && len(t) == 4:
			off, x := c20Atoi(t[2], -1), c20Atoi(t[3], 0)
			if off < 0 || off >= len(arc) || x <= 0 || x > 255 {
				return "bad-op"
			}
			arc[off] ^= byte(x)
		case t[1] == "trunc" && len(t) == 3:
			n := c20Atoi(t[2], -1)
			if n < 0 || n >= len(arc) {
				return "bad-op"
			}
			arc = arc[:n]
		case t[1] == "append" && len(t) == 3:
			n := c20Atoi(t[2], 0)
			if n <= 0 || n > 1<<16 {
				return "bad-op"
			}
			arc = append(arc, bytes.Repeat([]byte{0}, n)...)
		default:
			return "bad-op"
		}
		return d.load(r.stats, nil, arc, d.priv)
	case t[0] == "arckey" && len(t) >= 2:
		return r.keyOp(t[1:])
	case t[0] == "tar" && len(t) == 4:
		return r.tarOp(t[1], t[2], t[3])
	}
	return "bad-op"
}

// keyOp: wrong / malformed key material must never open the archive.
func (r *c20Runner) keyOp(t []string) string {
	d := r.dump
	switch {
	case t[0] == "wrong" && len(t) == 1:
		return d.load(r.stats, nil, d.archive, d.wrong)
	case t[0] == "malformed" && len(t) == 2:
		var buf bytes.Buffer
		if err := retriever.WriteArchivePrivateKey(&buf, d.priv); err != nil {
			return "harness-error " + err.Error()
		}
		var env map[string]any
		if err := json.Unmarshal(buf.Bytes(), &env); err != nil {
			return "harness-error " + err.Error()
		}
		key, _ := env["key"].(string)
		switch t[1] {
		case "truncated":
			env["key"] = key[:len(key)/2]
		case "empty":
			env["key"] = ""
		case "notbase64":
			env["key"] = "!!!" + key[3:]
		case "flipped":
			b := []byte(key)
			if b[10] == 'A' {
				b[10] = 'B'
			} else {
				b[10] = 'A'
			}
			env["key"] = string(b)
		case "publictype":
			env["type"] = "public"
		case "format":
			env["format"] = "retriever-hpke-key-v0"
		case "kem":
			env["crypto"].(map[string]any)["kem"] = "X25519"
		case "publickey":
			var pb bytes.Buffer
			_ = retriever.WriteArchivePublicKey(&pb, d.pub)
			var penv map[string]any
			_ = json.Unmarshal(pb.Bytes(), &penv)
			env["key"] = penv["key"]
		case "tailgarbage", "tailspace", "taildoc":
			// the envelope itself is untouched; bytes FOLLOW it (handled below)
		case "garbage":
			env = map[string]any{"x": 1}
		default:
			return "bad-op"
		}
		rawKey, _ := json.Marshal(env)
		switch t[1] {
		case "tailgarbage":
			rawKey = append(rawKey, []byte("\n}garbage\x00")...)
		case "tailspace":
			rawKey = append(rawKey, []byte(" \n\t\r\n")...)
		case "taildoc":
			rawKey = append(rawKey, []byte("\n{\"format\":\"other\"}")...)
		}
		identity, err := retriever.ReadArchivePrivateKey(bytes.NewReader(rawKey))
		if err != nil {
			r.stats.Inc("branch.key.rejected-at-parse")
			return "err log=0 schema=0 equal=- cls=key-parse"
		}
		r.stats.Inc("branch.key.parsed")
		return d.load(r.stats, nil, d.archive, identity)
	}
	return "bad-op"
}

// ---------------------------------------------------------------- generator

func (c20Suite) Gen(rng *Rng, tier string, w *bufio.Writer, stats *Stats) {
	c20Quiet()
	thorough := tier == "thorough"
	caseNo := 0
	header := func(desc, dump string) {
		caseNo++
		fmt.Fprintf(w, "# case %d %s\n%s\n", caseNo, desc, dump)
		stats.Inc("cases." + strings.Fields(desc)[0])
	}
	codecs := []string{"none", "gzip", "zstd"}
	fullCodec := rng.Intn(3)
	for ci, codec := range codecs {
		dumpLine := fmt.Sprintf("dump codec=%s graphs=2 nodes=3 edges=3 shard=2 batch=2 gseed=%d", codec, 100+ci)
		d, err := c20BuildDump(c20KV(strings.Fields(dumpLine)[1:]))
		if err != nil {
			fmt.Fprintf(w, "# case %d gen-failed %s\nbad-gen\n", caseNo+1, strings.ReplaceAll(err.Error(), "\n", " "))
			continue
		}
		// --- byte substitutions, chunked into cases of <= 400 ops so that shrinking stays cheap
		type op struct{ s string }
		var ops []string
		flush := func(desc string) {
			for len(ops) > 0 {
				n := len(ops)
				if n > 400 {
					n = 400
				}
				header(desc+" "+codec, dumpLine)
				fmt.Fprintln(w, "noop")
				for _, o := range ops[:n] {
					fmt.Fprintln(w, o)
				}
				ops = ops[n:]
			}
		}
		xors := []int{1, 0x80}
		if thorough {
			xors = []int{1, 0x20, 0x80, 0xff}
		}
		for fi, f := range d.files {
			stride := 1
			if !thorough && fi > 0 {
				stride = 7
			}
			if !thorough && fi == 0 && ci != fullCodec {
				stride = 5 // quick: all bytes of manifest.json for one codec (chosen by the seed), every 5th for the others
			}
			for off := 0; off < len(f.data); off += stride {
				use := xors
				if !thorough && fi == 0 {
					use = []int{1 + rng.Intn(255)}
					if strings.IndexByte("{}[]\":,", f.data[off]) >= 0 {
						use = append(use, 0x01)
					}
				}
				for _, x := range use {
					ops = append(ops, fmt.Sprintf("sub %d %d %d", fi, off, x))
					stats.Inc("gen.sub")
				}
			}
			if fi == 0 && (thorough || stride == 1) {
				// digit-preserving substitutions inside numbers and hex digests: the edits most likely to stay well-formed
				for off, b := range f.data {
					if b >= '0' && b <= '9' {
						nb := byte('0' + (int(b-'0')+1+rng.Intn(8))%10)
						if nb != b {
							ops = append(ops, fmt.Sprintf("sub 0 %d %d", off, int(b^nb)))
							stats.Inc("gen.sub_digit")
						}
					}
				}
			}
		}
		flush("subst")
		// --- truncations and appended garbage
		for fi, f := range d.files {
			step := 1
			if !thorough && len(f.data) > 300 {
				step = len(f.data)/150 + 1
			}
			for n := 0; n < len(f.data); n += step {
				ops = append(ops, fmt.Sprintf("trunc %d %d", fi, n))
				stats.Inc("gen.trunc")
			}
			if len(f.data) > 0 {
				ops = append(ops, fmt.Sprintf("trunc %d %d", fi, len(f.data)-1))
			}
			for _, n := range []int{1, 2, 64, 5000} {
				for _, v := range []int{0, 10, 32, 125, 255} {
					ops = append(ops, fmt.Sprintf("append %d %d %d", fi, n, v))
					stats.Inc("gen.append")
				}
			}
			ops = append(ops, fmt.Sprintf("del %d", fi))
		}
		flush("trunc-append")
		// --- fragment swap / duplication
		for i := 1; i < len(d.files); i++ {
			for j := 1; j < len(d.files); j++ {
				if i != j {
					if i < j {
						ops = append(ops, fmt.Sprintf("swap %d %d", i, j))
					}
					ops = append(ops, fmt.Sprintf("copy %d %d", i, j))
					stats.Inc("gen.swapcopy")
				}
			}
		}
		flush("swap-dup")
		// --- manifest field edits
		var man retriever.Manifest
		_ = json.Unmarshal(d.files[0].data, &man)
		for gi, g := range man.Graphs {
			gp := fmt.Sprintf("graphs.%d", gi)
			for _, v := range []int64{0, g.NodeCount + 1, g.NodeCount - 1, -1} {
				ops = append(ops, fmt.Sprintf("man %s.node_count %d", gp, v))
			}
			for _, v := range []int64{0, g.EdgeCount + 1, -1} {
				ops = append(ops, fmt.Sprintf("man %s.edge_count %d", gp, v))
			}
			ops = append(ops, fmt.Sprintf("man %s.name \"other\"", gp), fmt.Sprintf("man %s.name \"\"", gp))
			ops = append(ops, fmt.Sprintf("man %s.node_action_counts {\"x\":1}", gp))
			for fi, f := range g.Files {
				fp := fmt.Sprintf("%s.files.%d", gp, fi)
				for _, v := range []int{0, f.Count + 1, f.Count - 1, -1, 1 << 30} {
					if v != f.Count {
						ops = append(ops, fmt.Sprintf("man %s.count %d", fp, v))
					}
				}
				for _, v := range []int64{0, f.CompressedBytes + 1, f.CompressedBytes - 1, -1} {
					ops = append(ops, fmt.Sprintf("man %s.compressed_bytes %d", fp, v))
				}
				for _, v := range []int64{0, f.UncompressedBytes + 7, -1} {
					ops = append(ops, fmt.Sprintf("man %s.uncompressed_bytes %d", fp, v))
				}
				flipped := []byte(f.SHA256)
				if flipped[0] == '0' {
					flipped[0] = '1'
				} else {
					flipped[0] = '0'
				}
				ops = append(ops,
					fmt.Sprintf("man %s.sha256 \"%s\"", fp, flipped),
					fmt.Sprintf("man %s.sha256 \"%s\"", fp, strings.ToUpper(f.SHA256)),
					fmt.Sprintf("man %s.sha256 \"\"", fp),
					fmt.Sprintf("man %s.sha256 \"%s\"", fp, f.SHA256[:32]))
				for gj, g2 := range man.Graphs {
					for fj, f2 := range g2.Files {
						if gj != gi || fj != fi {
							ops = append(ops, fmt.Sprintf("man %s.path \"%s\"", fp, f2.Path))
							ops = append(ops, fmt.Sprintf("man %s.sha256 \"%s\"", fp, f2.SHA256))
						}
					}
				}
				for _, p := range []string{"", "manifest.json", "missing.jsonl", "../" + f.Path, "/" + f.Path, "./" + f.Path, f.Path + "/", "graphs/../" + f.Path, strings.ToUpper(f.Path)} {
					ops = append(ops, fmt.Sprintf("man %s.path %s", fp, strconv.Quote(p)))
				}
				other := "edges"
				if f.Phase == retriever.PhaseEdges {
					other = "nodes"
				}
				ops = append(ops, fmt.Sprintf("man %s.phase \"%s\"", fp, other), fmt.Sprintf("man %s.phase \"x\"", fp))
				ops = append(ops, fmt.Sprintf("man %s.action_counts {\"keep\":3}", fp))
				stats.Inc("gen.man_file")
			}
		}
		for _, c := range append([]string{"", "lz4", "GZIP"}, codecs...) {
			if c != codec {
				ops = append(ops, fmt.Sprintf("man compression \"%s\"", c))
			}
		}
		ops = append(ops, "man compression_level 19", "man source.graph_count 1", "man source.graph_count 3",
			"man format \"retriever-jsonl-collection-v2\"", "man id_strategy \"x\"", "man driver \"neo4j\"", "man driver \"pg\"",
			"man generated_at \"2001-01-01T00:00:00Z\"", "man retriever_version \"9.9\"", "man scrub.mode \"full\"", "man scrub.mode \"x\"",
			"man scrub.salt_provided true", "man warnings [\"w\"]", "man metrics null", "man metrics.version \"x\"",
			"man schema.graphs.0.node_kinds [\"Zed\"]", "man schema.graphs.0.name \"zzz\"", "man schema.graphs []",
			"man metrics.graphs.0.node_count 99", "man metrics.graphs.0.fingerprint \"sha256:00\"", "man graphs []")
		flush("manifest-edit")
		// --- encrypted archive as Load input
		arcStride := 97
		if thorough {
			arcStride = 1
		}
		ops = append(ops, "arc noop")
		for off := 0; off < len(d.archive); off += arcStride {
			ops = append(ops, fmt.Sprintf("arc sub %d %d", off, 1+rng.Intn(255)))
			stats.Inc("gen.arc_sub")
		}
		// every byte of the magic, header length and first header bytes, and the last frames
		for off := 0; off < 64 && off < len(d.archive); off++ {
			ops = append(ops, fmt.Sprintf("arc sub %d 1", off))
		}
		for off := len(d.archive) - 64; off < len(d.archive); off++ {
			if off >= 0 {
				ops = append(ops, fmt.Sprintf("arc sub %d 128", off))
			}
		}
		truncStep := len(d.archive)/120 + 1
		if thorough {
			truncStep = 1
		}
		for n := 0; n < len(d.archive); n += truncStep {
			ops = append(ops, fmt.Sprintf("arc trunc %d", n))
			stats.Inc("gen.arc_trunc")
		}
		for n := len(d.archive) - 40; n < len(d.archive); n++ {
			if n >= 0 {
				ops = append(ops, fmt.Sprintf("arc trunc %d", n))
			}
		}
		ops = append(ops, "arc append 1", "arc append 5", "arc append 4096", "arckey wrong")
		for _, v := range []string{"truncated", "empty", "notbase64", "flipped", "publictype", "format", "kem", "publickey", "garbage"} {
			ops = append(ops, "arckey malformed "+v)
		}
		flush("archive")
	}
	// --- consistent multi-field manifest edits (fragment count together with the graph totals and the metrics,
	// lowered and raised; digest/size pairs; path swaps; whole-entry swaps), under several Load batch sizes
	// (1, below / equal / above the record counts), per codec, directory and ArchiveReader input
	for ci, codec := range codecs {
		for _, lbatch := range []int{1, 2, 3, 1000} {
			if !thorough && lbatch == 3 {
				continue
			}
			dumpLine := fmt.Sprintf("dump codec=%s graphs=2 nodes=4 edges=4 shard=2 batch=2 gseed=%d lbatch=%d", codec, 100+ci, lbatch)
			d, err := c20BuildDump(c20KV(strings.Fields(dumpLine)[1:]))
			if err != nil {
				continue
			}
			var man retriever.Manifest
			_ = json.Unmarshal(d.files[0].data, &man)
			var ops []string
			both := func(edit string) {
				ops = append(ops, "mans "+edit)
				if thorough || lbatch != 2 {
					ops = append(ops, "arcmans "+edit)
				}
				stats.Inc("gen.man_consistent")
			}
			for gi, g := range man.Graphs {
				gp := fmt.Sprintf("graphs.%d", gi)
				for fi, f := range g.Files {
					fp := fmt.Sprintf("%s.files.%d", gp, fi)
					total, totalName := g.NodeCount, "node_count"
					if f.Phase == retriever.PhaseEdges {
						total, totalName = g.EdgeCount, "edge_count"
					}
					deltas := []int{-1, 1}
					for k := 2; k <= f.Count; k++ {
						deltas = append(deltas, -k)
					}
					deltas = append(deltas, 2, 5)
					for _, delta := range deltas {
						c, tt := f.Count+delta, total+int64(delta)
						if c < 0 || tt < 0 {
							continue
						}
						core := fmt.Sprintf("%s.count %d %s.%s %d", fp, c, gp, totalName, tt)
						both(core + " metrics null")
						both(fmt.Sprintf("%s metrics.graphs.%d.%s %d", core, gi, totalName, tt))
						ops = append(ops, "mans "+core) // metrics left inconsistent: refused by the preflight
					}
					// digest / size pairs and path swaps with every other fragment
					for gj, g2 := range man.Graphs {
						for fj, f2 := range g2.Files {
							if gj == gi && fj == fi {
								continue
							}
							fp2 := fmt.Sprintf("graphs.%d.files.%d", gj, fj)
							both(fmt.Sprintf("%s.sha256 \"%s\" %s.compressed_bytes %d", fp, f2.SHA256, fp, f2.CompressedBytes))
							if f2.Count == f.Count && (gj > gi || fj > fi) {
								ops = append(ops, fmt.Sprintf("mans %s.path \"%s\" %s.path \"%s\"", fp, f2.Path, fp2, f.Path))
								if f2.Phase == f.Phase && gj == gi {
									// whole entries exchanged (path, digest, size): a self-consistent reordering
									both(fmt.Sprintf("%s.path \"%s\" %s.path \"%s\" %s.sha256 \"%s\" %s.sha256 \"%s\" %s.compressed_bytes %d %s.compressed_bytes %d",
										fp, f2.Path, fp2, f.Path, fp, f2.SHA256, fp2, f.SHA256, fp, f2.CompressedBytes, fp2, f.CompressedBytes))
								}
							}
						}
					}
				}
			}
			for len(ops) > 0 {
				n := len(ops)
				if n > 150 {
					n = 150
				}
				header(fmt.Sprintf("manifest-consistent %s lbatch=%d", codec, lbatch), dumpLine)
				fmt.Fprintln(w, "noop")
				for _, o := range ops[:n] {
					fmt.Fprintln(w, o)
				}
				ops = ops[n:]
			}
		}
	}
	// --- semantically consistent tampering: re-hashed fragments with dangling / cross-graph endpoints and duplicate
	// ids, over multi-graph dumps in every id spelling; and the honest dumps themselves (`shared`: same ids in every graph)
	styles := []string{"numeric", "element", "uuid", "padded", "shared"}
	for ci, codec := range codecs {
		for si, style := range styles {
			if !thorough && (ci+si)%3 != int(fullCodec) && style != "element" {
				continue // quick: every style and every codec occur, not the full product (element ids with all codecs)
			}
			dumpLine := fmt.Sprintf("dump codec=%s graphs=3 nodes=3 edges=3 shard=2 batch=2 gseed=%d lbatch=%d ids=%s", codec, 300+ci, 1+si%3, style)
			d, err := c20BuildDump(c20KV(strings.Fields(dumpLine)[1:]))
			if err != nil {
				fmt.Fprintf(w, "# case %d gen-failed %s\nbad-gen\n", caseNo+1, strings.ReplaceAll(err.Error(), "\n", " "))
				continue
			}
			ops := []string{"noop", "arc noop"}
			graphs := len(d.nodeIDs)
			for fi := 1; fi < len(d.files); fi++ {
				m := d.meta[fi]
				records := d.recordCount(fi)
				if m.phase == retriever.PhaseEdges {
					for k := 0; k < records; k++ {
						for _, side := range []string{"s", "e"} {
							// endpoints that exist in ANOTHER graph only (earlier and later), and nowhere
							for g := 0; g < graphs; g++ {
								if g != m.graph {
									ops = append(ops, fmt.Sprintf("edge %d %d %s g%dn%d", fi, k, side, g, rng.Intn(len(d.nodeIDs[g]))))
									if k == 0 {
										ops = append(ops, fmt.Sprintf("arcedge %d %d %s g%dn%d", fi, k, side, g, rng.Intn(len(d.nodeIDs[g]))))
									}
								}
							}
							ops = append(ops, fmt.Sprintf("edge %d %d %s missing", fi, k, side))
							stats.Inc("gen.semantic_edge")
						}
					}
				} else {
					for k := 0; k < records; k++ {
						for n := range d.nodeIDs[m.graph] {
							ops = append(ops, fmt.Sprintf("dupnode %d %d g%dn%d", fi, k, m.graph, n))
							stats.Inc("gen.semantic_dup")
						}
					}
				}
			}
			for len(ops) > 0 {
				n := len(ops)
				if n > 120 {
					n = 120
				}
				header(fmt.Sprintf("semantic %s ids=%s", codec, style), dumpLine)
				for _, o := range ops[:n] {
					fmt.Fprintln(w, o)
				}
				ops = ops[n:]
			}
		}
	}
	// --- hostile encrypted archives: non-canonical manifest path spellings x altered fragment, every unpack entry point
	for ci, codec := range codecs {
		dumpLine := fmt.Sprintf("dump codec=%s graphs=2 nodes=3 edges=3 shard=2 batch=2 gseed=%d", codec, 400+ci)
		d, err := c20BuildDump(c20KV(strings.Fields(dumpLine)[1:]))
		if err != nil {
			continue
		}
		for fi := 1; fi < len(d.files); fi++ {
			if !thorough && fi > 2 && fi != len(d.files)-1 {
				continue
			}
			for _, spell := range c20Spellings {
				for _, alter := range []string{"none", "flip", "subst", "trunc", "append"} {
					for mi, mode := range []string{"staged", "stagedforce", "encdirect"} {
						if !thorough && mode != "staged" && (fi+mi+ci)%3 != 0 {
							continue
						}
						pre := Pick(rng, []string{"absent", "empty", "full"})
						if mode == "staged" {
							pre = "absent"
						}
						// one op per case: the known finding of the direct API must not mask the staged ones
						header("hostile-archive "+codec, dumpLine)
						fmt.Fprintf(w, "uarc %s %s %d %s %s\n", mode, pre, fi, spell, alter)
						stats.Inc("gen.uarc")
					}
				}
			}
		}
	}
	// --- manifest.json extended / prefixed (garbage, stray brace, NUL, a second JSON document, white space only, BOM)
	// for directory load, archive load and Unpack; key files followed by extra bytes
	tails := []string{"7d", "00", "67617262616765", "7b7d", "0a7b22666f726d6174223a2278227d", "5d", "2c", "22", "30", "6e756c6c", "efbbbf", "c2a0", "0b", "0c",
		"20", "0a", "090d0a20", "0a0a0a0a", "200a7d", "0a00"}
	for ci, codec := range codecs {
		dumpLine := fmt.Sprintf("dump codec=%s graphs=2 nodes=3 edges=3 shard=2 batch=2 gseed=%d", codec, 500+ci)
		var ops []string
		for _, tail := range tails {
			ops = append(ops, "mtail dir "+tail, "mtail arc "+tail)
			stats.Inc("gen.mtail")
		}
		for _, head := range []string{"efbbbf", "20", "0a", "00", "7b7d", "fffe"} {
			ops = append(ops, "mhead dir "+head, "mhead arc "+head)
		}
		ops = append(ops, "arckey malformed tailgarbage", "arckey malformed tailspace", "arckey malformed taildoc")
		for len(ops) > 0 {
			n := len(ops)
			if n > 100 {
				n = 100
			}
			header("manifest-tail "+codec, dumpLine)
			fmt.Fprintln(w, "noop")
			for _, o := range ops[:n] {
				fmt.Fprintln(w, o)
			}
			ops = ops[n:]
		}
		for ti, tail := range tails {
			for mi, mode := range []string{"staged", "stagedforce", "encdirect"} {
				if !thorough && mode != "staged" && (ti+mi+ci)%4 != 0 {
					continue
				}
				pre := "absent"
				if mode != "staged" {
					pre = Pick(rng, []string{"absent", "empty", "full"})
				}
				header("manifest-tail-unpack "+codec, dumpLine)
				fmt.Fprintf(w, "umtail %s %s %s\n", mode, pre, tail)
				stats.Inc("gen.umtail")
			}
		}
	}
	// --- frame-level insertions into the real encrypted archive: a frame nobody sealed, every type, declared length
	// 0, 1..15 (< AEAD tag), 16 (tag only), 17, the size limit and one above, at every frame boundary
	for ci, codec := range codecs {
		if !thorough && ci != int(fullCodec) {
			continue
		}
		dumpLine := fmt.Sprintf("dump codec=%s graphs=1 nodes=2 edges=1 shard=2 batch=2 gseed=%d", codec, 700+ci)
		d, err := c20BuildDump(c20KV(strings.Fields(dumpLine)[1:]))
		if err != nil {
			continue
		}
		_, frames, _ := c20Frames(d.archive)
		var ops []string
		for k := 0; k <= len(frames); k++ {
			lens := []string{"0"}
			if thorough || k == 0 || k == len(frames)-1 || k == len(frames) || k == len(frames)/2 {
				lens = []string{"0", "1", "8", "15", "16", "17", "max", "over"}
			}
			for _, typ := range []string{"0", "1", "7"} {
				for _, n := range lens {
					if (n == "max" || n == "over") && typ != "0" {
						continue
					}
					ops = append(ops, fmt.Sprintf("arcins %d %s %s", k, typ, n))
					stats.Inc("gen.arcins")
				}
			}
		}
		for _, beh := range c20Behaviours[1:5] {
			ops = append(ops, "with "+beh+" arcins 0 0 0", "with "+beh+" arcins last 0 0", fmt.Sprintf("with %s arcins %d 0 0", beh, len(frames)/2))
		}
		for len(ops) > 0 {
			n := len(ops)
			if n > 150 {
				n = 150
			}
			header("frame-insert "+codec, dumpLine)
			fmt.Fprintln(w, "arc noop")
			for _, o := range ops[:n] {
				fmt.Fprintln(w, o)
			}
			ops = ops[n:]
		}
		for _, mode := range []string{"staged", "stagedforce", "encdirect"} {
			for _, k := range []string{"0", fmt.Sprint(len(frames) / 2), "last"} {
				for _, n := range []string{"0", "15", "16"} {
					pre := "absent"
					if mode == "stagedforce" {
						pre = "full"
					}
					header("frame-insert-unpack "+codec, dumpLine)
					fmt.Fprintf(w, "uins %s %s %s 0 %s\n", mode, pre, k, n)
					stats.Inc("gen.uins")
				}
			}
		}
	}
	// --- reader behaviours: the archive stream cases again, delivered the way other io.Readers deliver
	for ci, codec := range codecs {
		if !thorough && ci != int(fullCodec) {
			continue
		}
		dumpLine := fmt.Sprintf("dump codec=%s graphs=2 nodes=3 edges=3 shard=2 batch=2 gseed=%d", codec, 600+ci)
		d, err := c20BuildDump(c20KV(strings.Fields(dumpLine)[1:]))
		if err != nil {
			continue
		}
		for _, beh := range c20Behaviours {
			var ops []string
			ops = append(ops, "arc noop", "arc append 1", "arc append 2", "arc append 5", "arc append 4096",
				fmt.Sprintf("arc trunc %d", len(d.archive)-1), fmt.Sprintf("arc trunc %d", len(d.archive)-17),
				fmt.Sprintf("arc sub %d 1", len(d.archive)-1), fmt.Sprintf("arc sub %d 128", len(d.archive)/2), "arc sub 3 1", "arckey wrong")
			for k := 0; k < 12; k++ {
				ops = append(ops, fmt.Sprintf("arc sub %d %d", rng.Intn(len(d.archive)), 1+rng.Intn(255)), fmt.Sprintf("arc trunc %d", rng.Intn(len(d.archive))))
			}
			header("readers "+codec+" "+beh, dumpLine)
			for _, o := range ops {
				fmt.Fprintf(w, "with %s %s\n", beh, o)
				stats.Inc("gen.reader_ops")
			}
			// unpack entry points, one op per case (known finding of the direct API must not mask the others)
			for _, o := range []string{
				"tar staged absent @collection", "tar staged+garbage absent @collection", "tar staged+trunc absent @collection",
				"tar staged+nofinal absent @collection", "tar stagedforce+garbage full @collection", "tar encdirect+garbage absent @collection",
				"tar plain absent r:" + c20Hex("ok.txt") + ":3", "uarc staged absent 1 canon none", "uarc staged absent 1 canon flip",
			} {
				header("readers-unpack "+codec+" "+beh, dumpLine)
				fmt.Fprintf(w, "with %s %s\n", beh, o)
				stats.Inc("gen.reader_ops")
			}
		}
	}
	// --- random small dumps, a few random mutations each (other sizes / shard boundaries)
	n := 12
	if thorough {
		n = 150
	}
	for i := 0; i < n; i++ {
		codec := Pick(rng, codecs)
		dumpLine := fmt.Sprintf("dump codec=%s graphs=%d nodes=%d edges=%d shard=%d batch=%d gseed=%d",
			codec, 1+rng.Intn(3), rng.Intn(6), rng.Intn(6), 1+rng.Intn(4), 1+rng.Intn(4), rng.Next()%100000)
		d, err := c20BuildDump(c20KV(strings.Fields(dumpLine)[1:]))
		if err != nil {
			continue
		}
		header("random "+codec, dumpLine)
		fmt.Fprintln(w, "noop")
		fmt.Fprintln(w, "arc noop")
		for k := 0; k < 40; k++ {
			fi := rng.Intn(len(d.files))
			size := len(d.files[fi].data)
			switch rng.Intn(6) {
			case 0, 1, 2:
				fmt.Fprintf(w, "sub %d %d %d\n", fi, rng.Intn(size), 1+rng.Intn(255))
			case 3:
				fmt.Fprintf(w, "trunc %d %d\n", fi, rng.Intn(size))
			case 4:
				fmt.Fprintf(w, "append %d %d %d\n", fi, 1+rng.Intn(20), rng.Intn(256))
			case 5:
				fmt.Fprintf(w, "arc sub %d %d\n", rng.Intn(len(d.archive)), 1+rng.Intn(255))
			}
			stats.Inc("gen.random_mut")
		}
	}
	c20GenTar(rng, tier, w, stats, header)
}

func c20SortedKeys(m map[string]bool) []string {
	out := make([]string, 0, len(m))
	for k := range m {
		out = append(out, k)
	}
	sort.Strings(out)
	return out
}
