package main

// Generators shared by the c07 / c08 suites (second seeding round):
//   (a) stray characters: every character the LEXER has no rule for (found by lexing each candidate on its own with a
//       counting error listener), inserted directly before / after token positions of corpus queries;
//   (b) numeric literals across the whole double range and around +-2^63, in every literal position;
//   (c) multi-byte / invalid UTF-8 payloads of 20..200 bytes inside every unsupported construct (the rule list is read from
//       the repository's frontend sources at generation time) and inside the other error-producing paths.

import (
	"fmt"
	"math"
	"math/big"
	"os"
	"path/filepath"
	"reflect"
	"regexp"
	"sort"
	"strconv"
	"strings"
	"sync"

	"github.com/antlr4-go/antlr/v4"
	"github.com/specterops/dawgs/cypher/frontend"
	"github.com/specterops/dawgs/cypher/models/cypher"
	"github.com/specterops/dawgs/cypher/parser"
)

// antlrErrorCounts: recognition errors the raw ANTLR run reports (no DAWGS listener): lexer, parser.
func antlrErrorCounts(text string) (int, int) {
	lexer := parser.NewCypherLexer(antlr.NewInputStream(text))
	le := &countingErrorListener{DefaultErrorListener: antlr.NewDefaultErrorListener()}
	pe := &countingErrorListener{DefaultErrorListener: antlr.NewDefaultErrorListener()}
	lexer.RemoveErrorListeners()
	lexer.AddErrorListener(le)
	ts := antlr.NewCommonTokenStream(lexer, antlr.TokenDefaultChannel)
	p := parser.NewCypherParser(ts)
	p.RemoveErrorListeners()
	p.AddErrorListener(pe)
	func() {
		defer func() { _ = recover() }()
		p.OC_Cypher()
	}()
	return le.n, pe.n
}

// lexerSkipped: the characters of text that belong to no token (the lexer reports a token recognition error and skips them).
func lexerSkipped(text string) []string {
	lexer := parser.NewCypherLexer(antlr.NewInputStream(text))
	lexer.RemoveErrorListeners()
	rs := []rune(text)
	covered := make([]bool, len(rs))
	for {
		t := lexer.NextToken()
		if t.GetTokenType() == antlr.TokenEOF {
			break
		}
		for i := t.GetStart(); i <= t.GetStop() && i < len(rs); i++ {
			if i >= 0 {
				covered[i] = true
			}
		}
	}
	var out []string
	for i, c := range covered {
		if !c {
			out = append(out, string(rs[i]))
		}
	}
	return out
}

var strayOnce sync.Once
var strayList []string

// strayChars: candidates (every ASCII character, C1 / Latin-1 punctuation, symbols of several planes) the lexer rejects
// when they stand alone.
func strayChars() []string {
	strayOnce.Do(func() {
		var cands []rune
		for c := rune(1); c < 0x7f; c++ {
			cands = append(cands, c)
		}
		cands = append(cands, 0x7f, 0x80, 0x85, 0xa1, 0xa7, 0xac, 0xb0, 0xb7, 0xbf, 0xd7, 0xf7, 0x2022, 0x20ac, 0x2190, 0x221a, 0x2603, 0x3002, 0xfffd, 0x1f600, 0x10ffff)
		for _, c := range cands {
			lexer := parser.NewCypherLexer(antlr.NewInputStream(string(c)))
			el := &countingErrorListener{DefaultErrorListener: antlr.NewDefaultErrorListener()}
			lexer.RemoveErrorListeners()
			lexer.AddErrorListener(el)
			for lexer.NextToken().GetTokenType() != antlr.TokenEOF {
			}
			if el.n > 0 {
				strayList = append(strayList, string(c))
			}
		}
	})
	return strayList
}

// tokenEdges: rune offsets directly before and directly after every non-blank token of q.
func tokenEdges(q string) []int {
	lexer := parser.NewCypherLexer(antlr.NewInputStream(q))
	lexer.RemoveErrorListeners()
	seen := map[int]bool{}
	var out []int
	for {
		t := lexer.NextToken()
		if t.GetTokenType() == antlr.TokenEOF {
			break
		}
		if t.GetTokenType() == parser.CypherLexerSP {
			continue
		}
		for _, p := range []int{t.GetStart(), t.GetStop() + 1} {
			if p >= 0 && !seen[p] {
				seen[p] = true
				out = append(out, p)
			}
		}
	}
	sort.Ints(out)
	return out
}

// strayInsertions: q with one stray character attached to a token edge; all = every edge (with a rotating character),
// otherwise n seeded picks.
func strayInsertions(rng *Rng, q string, n int, all bool) []string {
	chars := strayChars()
	edges := tokenEdges(q)
	if len(chars) == 0 || len(edges) == 0 {
		return nil
	}
	rs := []rune(q)
	mk := func(p int, c string) string {
		if p > len(rs) {
			p = len(rs)
		}
		return string(rs[:p]) + c + string(rs[p:])
	}
	var out []string
	if all {
		k := rng.Intn(len(chars))
		for _, p := range edges {
			out = append(out, mk(p, chars[k%len(chars)]))
			k++
		}
		return out
	}
	for i := 0; i < n; i++ {
		out = append(out, mk(Pick(rng, edges), Pick(rng, chars)))
	}
	return out
}

// ---------------------------------------------------------------------------------- numeric literals

var numFloatLits = []string{
	"1e21", "1E21", "1.0e21", "9.99e20", "1e22", "1.5e25", "123456789012345678901.0", "1000000000000000000000.0", "1000000000000000000000.5",
	"1e40", "1e41", "2.5e100", "1.5e300", "1e308", "1.7976931348623157e308", "1.8e308", "1e309", "1e999",
	"1e-6", "1e-7", "9.9e-7", "1.5e-7", "0.0000001", "0.00000015", "1e-20", "1e-40", "1e-41", "2.5e-100", "1e-300", "2.2250738585072014e-308",
	"1e-310", "5e-324", "4.9e-324", "1e-324", "1e-400", "0e0", "0.0", "0e-5", ".5e21", ".1e-6", "12345678901234567890e5", "1e0", "1e1", "1e20",
	"0.1", "1.0", "100.0", "3.14159", "1e15", "1e16", "123456789012345.6", "1234567890123456.7",
}

var numIntLits = []string{
	"0", "1", "9223372036854775806", "9223372036854775807", "9223372036854775808", "9223372036854775809", "18446744073709551615",
	"18446744073709551616", "99999999999999999999", "0x7fffffffffffffff", "0x8000000000000000", "0xffffffffffffffff", "0x10000000000000000",
	"0o777777777777777777777", "0o1000000000000000000000", "0o1777777777777777777777", "0o2000000000000000000000", "00", "007",
}

// every position of the grammar that takes a literal expression (%s), and the ones that take an integer only (%d)
var numPositions = []string{
	"RETURN %s", "RETURN %s AS x", "WITH %s AS x RETURN x", "MATCH (n) WHERE n.a = %s RETURN n", "MATCH (n) WHERE %s < n.a RETURN n",
	"MATCH (n) WHERE n.a IN [%s] RETURN n", "RETURN [%s, 1]", "RETURN {k: %s}", "MATCH (n {k: %s}) RETURN n", "MATCH (n)-[r:R {k: %s}]->(m) RETURN r",
	"RETURN toLower(%s)", "RETURN 1 + %s", "RETURN %s * 2", "RETURN 2 ^ %s", "RETURN (%s)", "RETURN NOT %s", "RETURN %s IS NULL",
	"MATCH (n) RETURN n ORDER BY %s", "MATCH (n) RETURN n SKIP %s", "MATCH (n) RETURN n LIMIT %s", "MATCH (n) SET n.a = %s", "MATCH (n) SET n += {k: %s}",
	"CREATE (n {k: %s})", "MERGE (n {k: %s}) ON CREATE SET n.a = %s", "UNWIND [%s] AS x RETURN x", "MATCH (n) DELETE %s", "MATCH (n) WITH n WHERE n.a > %s RETURN n",
	"MATCH (n) WHERE any(x IN [%s] WHERE x = %s) RETURN n", "MATCH (n) WHERE n.a STARTS WITH %s RETURN n",
}

var numIntPositions = []string{
	"MATCH (n)-[*%s]->(m) RETURN m", "MATCH (n)-[*%s..]->(m) RETURN m", "MATCH (n)-[*..%s]->(m) RETURN m", "MATCH (n)-[*1..%s]->(m) RETURN m", "RETURN $%s",
}

// numericCases: every literal (with +, - and no sign) in n seeded positions each (all positions when n <= 0).
func numericCases(rng *Rng, n int) []string {
	var out []string
	signs := []string{"", "-", "+", "- "}
	place := func(pos []string, lit string) {
		k := n
		if k <= 0 || k > len(pos) {
			k = len(pos)
		}
		off := rng.Intn(len(pos))
		for i := 0; i < k; i++ {
			out = append(out, strings.ReplaceAll(pos[(off+i*7)%len(pos)], "%s", lit))
		}
	}
	for _, l := range numFloatLits {
		for si, s := range signs {
			if n > 0 && si >= 2 && !rng.Chance(1, 3) {
				continue
			}
			place(numPositions, s+l)
		}
	}
	for _, l := range numIntLits {
		for si, s := range signs {
			if n > 0 && si >= 2 && !rng.Chance(1, 3) {
				continue
			}
			place(numPositions, s+l)
		}
		place(numIntPositions, l)
	}
	return out
}

// ---------------------------------------------------------------------------------- empty values and dangling sigils

// empty collections / maps / strings (alone, nested, next to non-empty ones)
var emptyLits = []string{"{}", "[]", "''", "\"\"", "{ }", "[ ]", "[[]]", "[{}]", "{a: {}}", "{a: []}", "[{}, {a: 1}]", "[[], [1]]", "{a: '', b: {}}", "$p", "null"}

// what is left of an expression when its operand / name / closing bracket is missing: sigils, operators, openers, reserved words
var danglingBits = []string{"$", "$ ", "$$", "$1.5", "$'x'", "$end", "$-1", "${", "$`", "$.a", "$:A", "$ + 1", ":", ".", "[", "{", "(", ")", "]", "}", "n.", "n:", "n.a =", "n.a IN",
	"1 +", "+", "*", "-", "^", "NOT", "=", "<>", "n[", "{a:", "{a", "[1,", "'x", "\"x", "`x", "CASE", "CASE WHEN", "[x IN", "[x IN [1] |", "exists(", "count(", "count(*", "null.", "n.a.",
	"match", "return", "where", "order by", "limit", "as", "in", "is", "is not", "starts with", "and", "or not", "distinct", "true false", "1 2", "n m"}

// expression positions of every clause kind (the literal positions plus ORDER BY lists, SKIP + LIMIT, WITH … WHERE, comprehensions, CASE)
var exprPositions = append(append([]string{}, numPositions...),
	"MATCH (n) RETURN n ORDER BY n.name, %s", "MATCH (n) RETURN n ORDER BY %s DESC, n.a", "MATCH (n) RETURN n SKIP %s LIMIT 1", "MATCH (n) RETURN n SKIP 1 LIMIT %s",
	"MATCH (n) WITH n WHERE n.name = %s RETURN n", "MATCH (n) WITH n ORDER BY %s LIMIT %s RETURN n", "UNWIND %s AS x RETURN x", "RETURN [x IN %s | x]",
	"RETURN [x IN [1] WHERE %s | x]", "RETURN [x IN [1] | %s]", "RETURN CASE %s WHEN 1 THEN 2 END", "RETURN CASE WHEN %s THEN 1 ELSE 2 END", "RETURN CASE WHEN true THEN %s END",
	"MATCH (n) WHERE all(x IN %s WHERE x > 0) RETURN n", "MATCH (n) WHERE (n)-[:R {k: %s}]->() RETURN n", "MATCH (n) SET n = %s", "MATCH (n) SET n += %s",
	"MATCH (n) REMOVE n.a RETURN %s", "MATCH p = shortestPath((a {k: %s})-[*]->(b)) RETURN p", "RETURN %s AS m", "MATCH (n) WHERE n.props = %s RETURN n", "RETURN %s = %s")

// slotCases: every value in n seeded positions (all positions when n <= 0)
func slotCases(rng *Rng, values []string, positions []string, n int) []string {
	var out []string
	for _, v := range values {
		k := n
		if k <= 0 || k > len(positions) {
			k = len(positions)
		}
		off := rng.Intn(len(positions))
		for i := 0; i < k; i++ {
			out = append(out, strings.ReplaceAll(positions[(off+i*11)%len(positions)], "%s", v))
		}
	}
	return out
}

// ---------------------------------------------------------------------------------- payloads inside unsupported constructs

var unsupMethodRe = regexp.MustCompile(`func \(s \*(\w+)\) EnterOC_(\w+)\([^)]*\) \{\s*s\.newUnsupportedRuleError\(`)

// unsupportedRules: rules with a visitor method that reports "<rule> rule is not supported", read from the sources.
func unsupportedRules() []string {
	files, _ := filepath.Glob(filepath.Join(repoRoot(), "cypher/frontend/*.go"))
	seen := map[string]bool{}
	for _, f := range files {
		if strings.HasSuffix(f, "_test.go") {
			continue
		}
		b, err := os.ReadFile(f)
		if err != nil {
			continue
		}
		for _, m := range unsupMethodRe.FindAllStringSubmatch(string(b), -1) {
			seen["oC_"+m[2]] = true
		}
	}
	var out []string
	for k := range seen {
		out = append(out, k)
	}
	sort.Strings(out)
	return out
}

// %s: a string literal expression; %n: a back-ticked name; %c: a comment
var unsupTemplates = map[string][]string{
	"oC_ListComprehension":      {"RETURN [x IN [%s] | x]", "RETURN [`%n` IN [1] WHERE `%n` = %s | `%n`]"},
	"oC_PatternComprehension":   {"MATCH (n) RETURN [(n)-->(m {k: %s}) | m.name]", "MATCH (n) RETURN [(n)-[:`%n`]->(m) | m]"},
	"oC_ListOperatorExpression": {"RETURN [%s][0]", "MATCH (n) RETURN n.a[%s]", "RETURN [%s][0..1]"},
	"oC_CaseExpression":         {"RETURN CASE WHEN true THEN %s ELSE 1 END", "RETURN CASE %s WHEN 1 THEN 2 END"},
	"oC_Union":                  {"RETURN %s UNION RETURN 2", "RETURN 1 UNION ALL RETURN %s", "RETURN 1 AS `%n` UNION RETURN 2 AS `%n`"},
	"oC_Foreach":                {"MATCH (n) FOREACH (x IN [%s] | SET n.a = x)"},
	"oC_InQueryCall":            {"MATCH (n) CALL foo.bar(%s) YIELD x RETURN n", "MATCH (n) CALL foo.`%n`() YIELD x RETURN n"},
	"oC_StandaloneCall":         {"CALL foo.bar(%s)", "CALL `%n`.bar()"},
	"oC_LoadCSV":                {"LOAD CSV FROM %s AS l RETURN l", "LOAD CSV WITH HEADERS FROM 'x' AS `%n` RETURN 1"},
	"oC_Hint":                   {"MATCH (n:P) USING INDEX n:P(`%n`) RETURN n", "MATCH (n:P) USING SCAN `%n`:P RETURN 1"},
	"oC_CreateUnique":           {"MATCH (n) CREATE UNIQUE (n)-[:R]->(m {k: %s})"},
	"oC_CypherOption":           {"CYPHER `%n`=`%n` RETURN 1", "CYPHER 2.3 `%n`=x RETURN 1"},
	"oC_Explain":                {"EXPLAIN RETURN %s", "EXPLAIN MATCH (`%n`) RETURN 1"},
	"oC_Profile":                {"PROFILE RETURN %s"},
	"oC_ExistentialSubquery":    {"MATCH (n) WHERE EXISTS { (n)-->(m) WHERE m.a = %s } RETURN n", "MATCH (n) WHERE exists{(n)-->(`%n` {k: %s})} RETURN n"},
	"oC_LegacyListExpression":   {"RETURN filter(x IN [%s] WHERE x = 1)", "RETURN extract(x IN [%s] | x)"},
	"oC_LegacyParameter":        {"RETURN {`%n`}"},
	"oC_Reduce":                 {"RETURN reduce(a=%s,x IN [1]|a + x)", "RETURN reduce(`%n`=1,x IN [%s]|x)"},
	"oC_Start":                  {"START n=node:idx(k = %s) RETURN n", "START n=node:`%n`(%s) RETURN n"},
	"oC_Command":                {"CREATE INDEX ON :L(`%n`)", "CREATE CONSTRAINT ON (n:L) ASSERT n.`%n` IS UNIQUE", "DROP INDEX ON :`%n`(a)"},
	"oC_BulkImportQuery":        {"USING PERIODIC COMMIT 10 LOAD CSV FROM %s AS l CREATE (n)"},
	"oC_PeriodicCommitHint":     {"USING PERIODIC COMMIT LOAD CSV FROM %s AS l CREATE (n)"},
	"oC_ShortestPathPattern":    {"MATCH (a), (b) RETURN shortestPath((a {k: %s})-[*]->(b))", "MATCH (a), (b) RETURN allShortestPaths((`%n`)-[*]->(b))"},
}

// other error-producing paths that keep source text: integer / double literal errors, the range mini-parser and the
// arithmetic operator scan (both read comments as tokens), empty property keys, filters of the default context
var errPathTemplates = []string{
	"MATCH (n)-[*1 %c ..2]->(m) RETURN n", "MATCH (n)-[* %c 1..2]->(m) RETURN n", "RETURN 1 %c + 2", "RETURN 1 + %c 2", "RETURN 2 ^ %c 3",
	"MATCH (n) WHERE n.`` = %s RETURN n", "MATCH (n) WHERE n.a = %s RETURN n.``", "RETURN 99999999999999999999 + size(%s)", "RETURN 1e999, %s",
	"MATCH (n) SET n.a = %s", "CALL foo.bar(%s)", "MATCH (n {k: $`%n`}) RETURN n", "RETURN %s UNION RETURN `%n`",
}

var payloadUnits = []string{"日本語", "é", "ü", "😀", "́", "\xff", "\xc0\xaf", "\xe2\x82", "\xed\xa0\x80", "\xf0\x9f", "ж", "ａ", "‮"}
var payloadSizes = []int{20, 33, 48, 63, 64, 65, 66, 90, 96, 127, 128, 150, 189, 192, 200}

// payload: about `size` bytes made of one unit (optionally interleaved with an ASCII letter so that bytes != runes != 64 in many ways)
func payload(unit string, size int, mixed bool) string {
	var b strings.Builder
	for b.Len()+len(unit) <= size {
		b.WriteString(unit)
		if mixed && b.Len() < size {
			b.WriteByte('x')
		}
	}
	if b.Len() == 0 {
		b.WriteString(unit)
	}
	return b.String()
}

func fillTemplate(tpl, p string) string {
	lit := "'" + strings.ReplaceAll(strings.ReplaceAll(p, "\\", "\\\\"), "'", "\\'") + "'"
	name := strings.ReplaceAll(p, "`", "``")
	com := "/*" + strings.ReplaceAll(p, "*/", "* /") + "*/"
	return strings.NewReplacer("%s", lit, "%n", name, "%c", com).Replace(tpl)
}

// templateAlive: with an ASCII payload the template makes the real parser report `<rule> rule is not supported`.
func templateAlive(rule, tpl string) bool {
	ok := false
	func() {
		defer func() { _ = recover() }()
		_, err := frontend.ParseCypher(frontend.NewContext(), fillTemplate(tpl, "abc"))
		for _, e := range flattenErrs(err) {
			if strings.Contains(e.Error(), strings.TrimPrefix(rule, "")+" rule is not supported") {
				ok = true
			}
		}
	}()
	return ok
}

// payloadCases: for EVERY unsupported rule (from the sources) every template, with n seeded (unit, size) payloads
// (all combinations when n <= 0); then the other error paths. Returns the cases and the rules that have no live template.
func payloadCases(rng *Rng, n int) (cases []string, uncovered []string) {
	combos := func() [][2]int {
		var cs [][2]int
		for u := range payloadUnits {
			for s := range payloadSizes {
				cs = append(cs, [2]int{u, s})
			}
		}
		return cs
	}()
	fill := func(tpl string) {
		if n <= 0 {
			for _, c := range combos {
				cases = append(cases, fillTemplate(tpl, payload(payloadUnits[c[0]], payloadSizes[c[1]], (c[0]+c[1])%3 == 0)))
			}
			return
		}
		// always one "more than 64 bytes, fewer than 64 runes" payload, then seeded ones
		cases = append(cases, fillTemplate(tpl, payload(Pick(rng, []string{"日本語", "😀", "\xe2\x82", "ａ"}), Pick(rng, []int{66, 90, 120, 150}), false)))
		for i := 1; i < n; i++ {
			c := Pick(rng, combos)
			cases = append(cases, fillTemplate(tpl, payload(payloadUnits[c[0]], payloadSizes[c[1]], rng.Bool())))
		}
	}
	for _, rule := range unsupportedRules() {
		alive := 0
		for _, tpl := range unsupTemplates[rule] {
			if templateAlive(rule, tpl) {
				alive++
				fill(tpl)
			}
		}
		if alive == 0 {
			uncovered = append(uncovered, rule)
		}
	}
	for _, tpl := range errPathTemplates {
		fill(tpl)
	}
	return
}

func init() { _ = fmt.Sprintf }

// ---------------------------------------------------------------------------------- integer literal values

// integerTokenValues: an independent big-integer reading of every integer literal of the text that stands in a literal position
// (oC_NumberLiteral / oC_IntegerLiteral of the raw ANTLR tree): decimal, 0x…, 0o….
func integerTokenValues(text string) []string {
	lexer := parser.NewCypherLexer(antlr.NewInputStream(text))
	lexer.RemoveErrorListeners()
	p := parser.NewCypherParser(antlr.NewCommonTokenStream(lexer, antlr.TokenDefaultChannel))
	p.RemoveErrorListeners()
	var out []string
	var walk func(t antlr.Tree)
	walk = func(t antlr.Tree) {
		if il, ok := t.(*parser.OC_IntegerLiteralContext); ok {
			if _, inLiteral := il.GetParent().(*parser.OC_NumberLiteralContext); inLiteral {
				txt := il.GetText()
				v := new(big.Int)
				base := 10
				if len(txt) > 2 && txt[0] == '0' && (txt[1] == 'x' || txt[1] == 'X' || txt[1] == 'o' || txt[1] == 'O') {
					base = 0
				}
				if _, ok := v.SetString(txt, base); ok {
					out = append(out, v.String())
				} else {
					out = append(out, "?"+txt)
				}
			}
			return
		}
		for i := 0; i < t.GetChildCount(); i++ {
			walk(t.GetChild(i))
		}
	}
	func() {
		defer func() { _ = recover() }()
		walk(p.OC_Cypher())
	}()
	sort.Strings(out)
	return out
}

// modelIntegerValues: every integer held by a cypher.Literal of the model (reflection walk)
func modelIntegerValues(model any) []string {
	var out []string
	seen := map[uintptr]bool{}
	var walk func(v reflect.Value, depth int)
	walk = func(v reflect.Value, depth int) {
		if !v.IsValid() || depth > 2000 {
			return
		}
		switch v.Kind() {
		case reflect.Pointer:
			if v.IsNil() || seen[v.Pointer()] {
				return
			}
			seen[v.Pointer()] = true
			if lit, ok := v.Interface().(*cypher.Literal); ok && lit != nil {
				switch x := lit.Value.(type) {
				case int64:
					out = append(out, big.NewInt(x).String())
				case int:
					out = append(out, big.NewInt(int64(x)).String())
				case uint64:
					out = append(out, new(big.Int).SetUint64(x).String())
				}
			}
			walk(v.Elem(), depth+1)
		case reflect.Interface:
			if !v.IsNil() {
				walk(v.Elem(), depth+1)
			}
		case reflect.Struct:
			for i := 0; i < v.NumField(); i++ {
				walk(v.Field(i), depth+1)
			}
		case reflect.Slice, reflect.Array:
			for i := 0; i < v.Len(); i++ {
				walk(v.Index(i), depth+1)
			}
		case reflect.Map:
			it := v.MapRange()
			for it.Next() {
				walk(it.Value(), depth+1)
			}
		}
	}
	walk(reflect.ValueOf(model), 0)
	sort.Strings(out)
	return out
}

// intLiteralCheck: for an ACCEPTED text the integers the model holds are exactly the integers written (as multisets)
func intLiteralCheck(text string, model any) string {
	want, got := integerTokenValues(text), modelIntegerValues(model)
	if strings.Join(want, ",") == strings.Join(got, ",") {
		return "same"
	}
	clipJoin := func(xs []string) string {
		if len(xs) > 6 {
			xs = append(append([]string{}, xs[:6]...), "…")
		}
		return strings.Join(xs, "/")
	}
	return "differ:text=" + clipJoin(want) + ";model=" + clipJoin(got)
}

// floatTokenBits: math.Float64bits of strconv.ParseFloat for every oC_DoubleLiteral of the raw ANTLR tree, in pre-order (a range
// error returns ±Inf, whose bits are reported)
func floatTokenBits(text string) []string {
	lexer := parser.NewCypherLexer(antlr.NewInputStream(text))
	lexer.RemoveErrorListeners()
	p := parser.NewCypherParser(antlr.NewCommonTokenStream(lexer, antlr.TokenDefaultChannel))
	p.RemoveErrorListeners()
	var out []string
	var walk func(t antlr.Tree)
	walk = func(t antlr.Tree) {
		if dl, ok := t.(*parser.OC_DoubleLiteralContext); ok {
			v, _ := strconv.ParseFloat(dl.GetText(), 64)
			out = append(out, strconv.FormatUint(math.Float64bits(v), 10))
			return
		}
		for i := 0; i < t.GetChildCount(); i++ {
			walk(t.GetChild(i))
		}
	}
	func() {
		defer func() { _ = recover() }()
		walk(p.OC_Cypher())
	}()
	return out
}
