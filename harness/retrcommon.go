package main

// retrcommon.go — helpers shared by the retriever suites (c18, obs18, c19, obs19): op-line graph
// description → FakeDB, canonical JSON text, directory snapshots, fragment decoding.

import (
	"bytes"
	"compress/gzip"
	"crypto/sha256"
	"encoding/hex"
	"encoding/json"
	"fmt"
	"io"
	"io/fs"
	"log/slog"
	"os"
	"path/filepath"
	"sort"
	"strconv"
	"strings"

	"github.com/klauspost/compress/zstd"
	"github.com/specterops/dawgs/retriever"
)

func init() {
	// the retriever logs every phase through slog; keep the harness output clean
	slog.SetDefault(slog.New(slog.NewTextHandler(io.Discard, nil)))
}

// splitSpaces tokenises an op line on ASCII space only (the Lean driver does the same; JSON text in
// op lines never contains a raw space: spaces inside strings are written  ).
func splitSpaces(raw string) []string {
	out := []string{}
	for _, t := range strings.Split(strings.TrimRight(raw, "\r\n"), " ") {
		if t != "" {
			out = append(out, t)
		}
	}
	return out
}

// canonJSON renders a value the way the suites compare it: Go's compact JSON encoding with sorted map
// keys, no HTML escaping, numbers as Go prints float64/int64 decimals, raw spaces as  .
// A nil map is rendered {}.
// escSpace is the JSON escape of a space (backslash, u, 0, 0, 2, 0).
var escSpace = string([]byte{0x5c, 'u', '0', '0', '2', '0'})

func canonJSON(v any) string {
	if m, ok := v.(map[string]any); ok && m == nil {
		return "{}"
	}
	var b bytes.Buffer
	enc := json.NewEncoder(&b)
	enc.SetEscapeHTML(false)
	if err := enc.Encode(v); err != nil {
		return "!" + strings.ReplaceAll(err.Error(), " ", "_")
	}
	s := strings.TrimRight(b.String(), "\n")
	return strings.ReplaceAll(s, " ", escSpace)
}

// parseJSONValue parses op-line JSON into the Go values a database driver would hand to the
// retriever: integral literals that fit int64 become int64, other numbers float64.
func parseJSONValue(text string) (any, error) {
	dec := json.NewDecoder(strings.NewReader(text))
	dec.UseNumber()
	var v any
	if err := dec.Decode(&v); err != nil {
		return nil, err
	}
	return convertNumbers(v), nil
}

func convertNumbers(v any) any {
	switch x := v.(type) {
	case json.Number:
		s := x.String()
		if !strings.ContainsAny(s, ".eE") {
			if i, err := strconv.ParseInt(s, 10, 64); err == nil {
				return i
			}
		}
		f, _ := x.Float64()
		return f
	case []any:
		for i := range x {
			x[i] = convertNumbers(x[i])
		}
		return x
	case map[string]any:
		for k := range x {
			x[k] = convertNumbers(x[k])
		}
		return x
	}
	return v
}

func parseProps(tok string) (map[string]any, error) {
	if tok == "-" {
		return nil, nil
	}
	v, err := parseJSONValue(tok)
	if err != nil {
		return nil, err
	}
	m, ok := v.(map[string]any)
	if !ok {
		return nil, fmt.Errorf("properties are not an object")
	}
	return m, nil
}

func parseKinds(tok string) []string {
	if tok == "-" || tok == "" {
		return nil
	}
	return strings.Split(tok, ",")
}

func kindsTok(kinds []string) string {
	if len(kinds) == 0 {
		return "-"
	}
	return strings.Join(kinds, ",")
}

// srcDB is the source database described by the op lines of one case.
type srcDB struct {
	db      *FakeDB
	targets []retriever.GraphTarget
}

func newSrcDB() *srcDB { return &srcDB{db: NewFakeDB()} }

// step handles graph/node/edge lines; returns ("", false) for other verbs.
func (s *srcDB) step(t []string) (string, bool) {
	switch {
	case len(t) == 2 && t[0] == "graph":
		if s.db.HasGraph(t[1]) {
			return "bad-op", true
		}
		s.db.Graph(t[1])
		s.targets = append(s.targets, retriever.GraphTarget{Name: t[1]})
		return "ok", true
	case len(t) == 5 && t[0] == "node":
		id, err := strconv.ParseUint(t[2], 10, 64)
		props, perr := parseProps(t[4])
		if err != nil || perr != nil || !s.db.HasGraph(t[1]) {
			return "bad-op", true
		}
		s.db.AddNode(t[1], id, parseKinds(t[3]), props)
		return "ok", true
	case len(t) == 7 && t[0] == "edge":
		id, e1 := strconv.ParseUint(t[2], 10, 64)
		st, e2 := strconv.ParseUint(t[3], 10, 64)
		en, e3 := strconv.ParseUint(t[4], 10, 64)
		props, perr := parseProps(t[6])
		if e1 != nil || e2 != nil || e3 != nil || perr != nil || !s.db.HasGraph(t[1]) {
			return "bad-op", true
		}
		s.db.AddEdge(t[1], id, st, en, t[5], props)
		if t[5] == "-" {
			g := s.db.Graph(t[1])
			g.Edges[len(g.Edges)-1].Kind = ""
			g.Edges[len(g.Edges)-1].NilKind = true
		}
		return "ok", true
	}
	return "", false
}

// ---------------------------------------------------------------- directories

// readTree reads every regular file under dir into memory (relative slash paths).
func readTree(dir string) map[string][]byte {
	out := map[string][]byte{}
	_ = filepath.WalkDir(dir, func(p string, d fs.DirEntry, err error) error {
		if err != nil || d.IsDir() {
			return nil
		}
		rel, _ := filepath.Rel(dir, p)
		b, rerr := os.ReadFile(p)
		if rerr == nil {
			out[filepath.ToSlash(rel)] = b
		}
		return nil
	})
	return out
}

// writeTree materialises an in-memory tree in a fresh directory.
func writeFileTree(dir string, files map[string][]byte) error {
	for rel, b := range files {
		p := filepath.Join(dir, filepath.FromSlash(rel))
		if err := os.MkdirAll(filepath.Dir(p), 0o755); err != nil {
			return err
		}
		if err := os.WriteFile(p, b, 0o600); err != nil {
			return err
		}
	}
	return nil
}

func sortedKeys[V any](m map[string]V) []string {
	ks := make([]string, 0, len(m))
	for k := range m {
		ks = append(ks, k)
	}
	sort.Strings(ks)
	return ks
}

func sha256Hex(b []byte) string {
	d := sha256.Sum256(b)
	return hex.EncodeToString(d[:])
}

func codecOf(tok string) (retriever.CompressionCodec, bool) {
	switch tok {
	case "none":
		return retriever.CompressionNone, true
	case "gzip":
		return retriever.CompressionGzip, true
	case "zstd":
		return retriever.CompressionZstd, true
	}
	return "", false
}

// decompress decodes a fragment independently of the retriever's own reader.
func decompress(b []byte, codec retriever.CompressionCodec) ([]byte, error) {
	switch codec {
	case retriever.CompressionNone:
		return b, nil
	case retriever.CompressionGzip:
		r, err := gzip.NewReader(bytes.NewReader(b))
		if err != nil {
			return nil, err
		}
		return io.ReadAll(r)
	case retriever.CompressionZstd:
		r, err := zstd.NewReader(bytes.NewReader(b))
		if err != nil {
			return nil, err
		}
		defer r.Close()
		return io.ReadAll(r)
	}
	return nil, fmt.Errorf("codec %q", codec)
}

// fragmentIDs decodes a fragment and returns the record count, the uncompressed size and the
// source ids it carries in order: "1+5+9" for node fragments, "1>5+5>5" for edge fragments.
func fragmentIDs(b []byte, codec retriever.CompressionCodec, phase retriever.Phase) (int, int, string, error) {
	plain, err := decompress(b, codec)
	if err != nil {
		return 0, 0, "", err
	}
	var ids []string
	n := 0
	for _, line := range bytes.Split(plain, []byte("\n")) {
		if len(line) == 0 {
			continue
		}
		n++
		if phase == retriever.PhaseNodes {
			var rec retriever.FragmentNode
			if err := json.Unmarshal(line, &rec); err != nil {
				return n, len(plain), "", err
			}
			ids = append(ids, rec.ID)
		} else {
			var rec retriever.FragmentEdge
			if err := json.Unmarshal(line, &rec); err != nil {
				return n, len(plain), "", err
			}
			ids = append(ids, rec.StartID+">"+rec.EndID)
		}
	}
	return n, len(plain), strings.Join(ids, "+"), nil
}

// errClass maps a retriever error to a small stable enum.
func retrErrClass(err error) string {
	if err == nil {
		return "ok"
	}
	m := err.Error()
	has := func(s string) bool { return strings.Contains(m, s) }
	switch {
	case has("injected read failure"):
		return "db-read"
	case has("requires -salt") || has("mutually exclusive") || has("must be > 0") || has("unsupported compression codec") || has("unsupported scrub mode"):
		return "options-invalid"
	case has("keyset scan ended"):
		return "scan-short"
	case has("not strictly increasing"):
		return "scan-order"
	case has("exceeded requested limit"):
		return "scan-limit"
	case has("counted") && has("at scan start"):
		return "count-mismatch"
	case has("endpoint missing from the node scan"):
		return "dangling-endpoint"
	case has("duplicate ID") || has("duplicate source node ID"):
		return "duplicate-id"
	case has("is not empty"):
		return "not-empty"
	case has("already contains a complete manifest"):
		return "manifest-present"
	case has("read dump checkpoint"):
		return "no-checkpoint"
	case has("decode dump checkpoint"):
		return "bad-checkpoint"
	case has("incompatible with the requested"):
		return "identity-changed"
	case has("source counts") && has("changed"):
		return "source-changed"
	case has("unexpected file"):
		return "unexpected-file"
	case has("sha256 mismatch"):
		return "checksum"
	case has("compressed byte mismatch"):
		return "byte-count"
	case has("inspect dump checkpoint fragment") || has("open checksum target"):
		return "fragment-missing"
	case has("node cursor") && has("does not match"):
		return "cursor-mismatch"
	case has("dump checkpoint"):
		return "checkpoint-invalid"
	case has("metrics mismatch"):
		return "mismatch"
	case has("missing start node") || has("missing end node"):
		return "missing-endpoint"
	case has("does not exist in graph"):
		return "db-missing-node"
	case has("fakedb: unsupported"):
		return "fakedb-unsupported"
	case has("read manifest"):
		return "no-manifest"
	}
	w := strings.Fields(m)
	if len(w) > 4 {
		w = w[:4]
	}
	return "other:" + strings.Join(w, "_")
}
