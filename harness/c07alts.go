package main

// Keyword / operator ALTERNATIVES of the grammar: every `a | b | …` group of Cypher.g4 whose alternatives consist of terminals
// only (ASCENDING | ASC | DESCENDING | DESC, the dash and arrow-head variants, RELATIONSHIP | REL, '+' | '-', …). For every
// alternative of every such group the c07 generator emits sentences that are FORCED through it (the derivation is steered to the
// group and the alternative is taken), so that a visitor that recognises only one spelling is exercised with the others.
// The same table is computed in Lean from the regenerated Grammar.lean (Props/C07Alts.lean) and compared by the kernel.

import (
	"fmt"
	"strings"
)

type altTarget struct {
	rule  string
	group int // index of the group among the token-only groups of the rule, in pre-order
	alt   int
	term  *g4Term // the alt term
	desc  string  // terminals of the alternative, '+'-joined (literals as ')
}

// tokenOnly: the terminals of a term that derives terminals only (SP excluded), ok=false otherwise
func (g *g4Grammar) tokenOnly(t *g4Term) ([]string, bool) {
	switch t.kind {
	case "lit":
		return []string{"'"}, true
	case "ref":
		if _, isRule := g.rules[t.name]; isRule {
			return nil, false
		}
		if t.name == "SP" {
			return nil, true
		}
		return []string{t.name}, true
	case "seq":
		var out []string
		for _, k := range t.kids {
			x, ok := g.tokenOnly(k)
			if !ok {
				return nil, false
			}
			out = append(out, x...)
		}
		return out, true
	case "opt":
		if x, ok := g.tokenOnly(t.kids[0]); ok && len(x) == 0 {
			return nil, true // optional white space
		}
		return nil, false
	}
	return nil, false
}

func (g *g4Grammar) altGroups(rule string, t *g4Term, n *int, out *[]altTarget) {
	if t.kind == "alt" {
		all := true
		var descs []string
		for _, k := range t.kids {
			x, ok := g.tokenOnly(k)
			if !ok || len(x) == 0 {
				all = false
				break
			}
			descs = append(descs, strings.Join(x, "+"))
		}
		if all && len(t.kids) >= 2 {
			for i, d := range descs {
				*out = append(*out, altTarget{rule: rule, group: *n, alt: i, term: t, desc: d})
			}
			*n++
			return
		}
	}
	for _, k := range t.kids {
		g.altGroups(rule, k, n, out)
	}
}

// keywordAlternatives: every alternative of every terminal-only group, rule by rule in grammar order
func (g *g4Grammar) keywordAlternatives() []altTarget {
	var out []altTarget
	for _, r := range g.order {
		n := 0
		g.altGroups(r, g.rules[r], &n, &out)
	}
	return out
}

func (a altTarget) key() string { return fmt.Sprintf("%s:%d:%d:%s", a.rule, a.group, a.alt, a.desc) }

// distances: for every term, the least number of rule expansions needed to reach `target` from it (absent: unreachable)
func (g *g4Grammar) distances(target *g4Term, avoidRare bool) map[*g4Term]int {
	const inf = 1 << 20
	dist := map[*g4Term]int{target: 0}
	get := func(t *g4Term) int {
		if d, ok := dist[t]; ok {
			return d
		}
		return inf
	}
	var visit func(t *g4Term) bool
	visit = func(t *g4Term) bool {
		changed := false
		for _, k := range t.kids {
			if visit(k) {
				changed = true
			}
		}
		if t == target {
			return changed
		}
		best := inf
		switch t.kind {
		case "ref":
			if r, ok := g.rules[t.name]; ok && !(avoidRare && c07Rare[t.name] && t.name != "oC_Parameter" && t.name != "oC_UpdatingClause" && t.name != "oC_ReservedWord") {
				if d := get(r); d < inf {
					best = d + 1
				}
			}
		default:
			for _, k := range t.kids {
				if d := get(k); d < best {
					best = d
				}
			}
		}
		if best < get(t) {
			dist[t] = best
			changed = true
		}
		return changed
	}
	for changed := true; changed; {
		changed = false
		for _, r := range g.order {
			if visit(g.rules[r]) {
				changed = true
			}
		}
	}
	return dist
}

// genToward writes a sentence of `t` that passes through c.target taking alternative c.choice; after the hit the ordinary
// generator takes over. Returns false when the target cannot be reached from t.
func (c *c07Gen) genToward(t *g4Term, depth int, b *strings.Builder) {
	if c.hit {
		c.gen(t, depth, b)
		return
	}
	if t == c.target {
		c.hit = true
		c.gen(t.kids[c.choice], depth, b)
		return
	}
	if _, ok := c.dist[t]; !ok {
		c.gen(t, depth, b)
		return
	}
	switch t.kind {
	case "ref":
		c.genToward(c.g.rules[t.name], depth-1, b)
	case "seq":
		// only the member on a shortest path is steered (the others may reach the target too, but through longer detours)
		best := -1
		for i, k := range t.kids {
			if d, ok := c.dist[k]; ok && (best < 0 || d < c.dist[t.kids[best]]) {
				best = i
			}
		}
		for i, k := range t.kids {
			if i == best {
				c.genToward(k, depth, b)
			} else {
				c.gen(k, depth, b)
			}
		}
	case "alt":
		best := -1
		for i, k := range t.kids {
			if d, ok := c.dist[k]; ok && (best < 0 || d < c.dist[t.kids[best]]) {
				best = i
			}
		}
		c.genToward(t.kids[best], depth, b)
	case "opt", "star", "plus":
		c.genToward(t.kids[0], depth, b)
	default:
		c.gen(t, depth, b)
	}
}
