package main

import (
	"bufio"
	"context"
	"errors"
	"fmt"
	"os"
	"runtime"
	"sort"
	"strconv"
	"strings"
	"sync"
	"sync/atomic"
	"time"

	"github.com/specterops/dawgs/graph"
	"github.com/specterops/dawgs/ops"
	"github.com/specterops/dawgs/traversal"
	"github.com/specterops/dawgs/util/channels"
	"github.com/specterops/dawgs/util/size"
)

// C17: util/channels BufferedPipe and traversal.BreadthFirst against the Lean LTS model Dawgs.C17.
//
// Suites
//   c17pipe   scripted (quiescent) writer/reader schedules; every answer is deterministic and is
//             compared line by line with the model driver, then judged by the FIFO monitor.
//   c17cpipe  concurrent writer/reader bursts and cancellation at step i; answers carry the
//             delivered sequence (schedule dependent) and are judged by the FIFO monitor only.
//   c17bf     real BreadthFirst over a synthetic driver tree; schedule-independent answer
//             (return class, sorted visited multiset, goroutines settled) compared with the model.
//   c17bft    same runs, answer carries the driver-call order; judged by the trace acceptor only.

var c17HangTimeout = func() time.Duration {
	if v := os.Getenv("VERIF_C17_HANG_MS"); v != "" {
		if n, err := strconv.Atoi(v); err == nil && n > 0 {
			return time.Duration(n) * time.Millisecond
		}
	}
	return 20 * time.Second
}()

// quiescence shortcut of the hang detector: nothing in flight and no driver activity for this long
const c17QuietTimeout = 4 * time.Second

func init() {
	register("c17pipe", c17PipeSuite{conc: false})
	register("c17cpipe", c17PipeSuite{conc: true})
	register("c17bf", c17BFSuite{trace: false})
	register("c17tbf", c17BFSuite{trace: true})
}

// ------------------------------------------------------------------ pipe

type c17PipeSuite struct{ conc bool }

func (s c17PipeSuite) Gen(rng *Rng, tier string, w *bufio.Writer, stats *Stats) {
	caseNo := 0
	begin := func(label string) {
		caseNo++
		fmt.Fprintf(w, "# case %d %s\n", caseNo, label)
		fmt.Fprintln(w, "new")
	}
	if !s.conc {
		// exhaustive small scope: every script over {sub, read, close, cancel} up to length L
		L := 5
		if tier == "thorough" {
			L = 7
		}
		alphabet := []string{"sub", "read", "close", "cancel"}
		var rec func(prefix []string, closed, cancelled bool)
		rec = func(prefix []string, closed, cancelled bool) {
			if len(prefix) > 0 {
				begin("exhaustive")
				next := 1
				for _, o := range prefix {
					if o == "sub" {
						fmt.Fprintf(w, "sub %d\n", next)
						next++
					} else {
						fmt.Fprintln(w, o)
					}
				}
				if !closed {
					fmt.Fprintln(w, "close")
				}
				fmt.Fprintln(w, "drain")
				stats.Inc("exhaustive_cases")
			}
			if len(prefix) == L {
				return
			}
			for _, a := range alphabet {
				if (a == "sub" || a == "close") && closed {
					continue
				}
				if a == "cancel" && cancelled {
					continue
				}
				rec(append(append([]string{}, prefix...), a), closed || a == "close", cancelled || a == "cancel")
			}
		}
		rec(nil, false, false)
		n := 150
		if tier == "thorough" {
			n = 3000
		}
		for i := 0; i < n; i++ {
			begin("random")
			length := 3 + rng.Intn(60)
			closed, cancelled := false, false
			next := rng.Intn(5)
			for j := 0; j < length; j++ {
				switch x := rng.Intn(100); {
				case x < 45 && !closed:
					fmt.Fprintf(w, "sub %d\n", next)
					if !rng.Chance(1, 6) { // sometimes repeat a value: FIFO is positional
						next++
					}
				case x < 85:
					if rng.Chance(1, 5) {
						fmt.Fprintln(w, "tryread")
					} else {
						fmt.Fprintln(w, "read")
					}
				case x < 90 && !closed:
					fmt.Fprintln(w, "close")
					closed = true
				case x < 93 && !cancelled:
					fmt.Fprintln(w, "cancel")
					cancelled = true
				}
			}
			if !closed {
				fmt.Fprintln(w, "close")
			}
			fmt.Fprintln(w, "drain")
			stats.Inc("random_cases")
		}
		// slow reader: a long burst of submissions with no reader at all, then everything is read back
		for _, k := range []int{1, 64, 1000, 20000} {
			if k > 1000 && tier != "thorough" {
				continue
			}
			begin(fmt.Sprintf("slow-reader k=%d", k))
			for v := 0; v < k; v++ {
				fmt.Fprintf(w, "sub %d\n", v)
			}
			for v := 0; v < k/2; v++ {
				fmt.Fprintln(w, "read")
			}
			fmt.Fprintln(w, "close")
			fmt.Fprintln(w, "drain")
			stats.Inc("slow_reader_cases")
		}
		return
	}
	n := 120
	if tier == "thorough" {
		n = 2500
	}
	for i := 0; i < n; i++ {
		begin("concurrent")
		next, outstanding := 0, 0
		rounds := 1 + rng.Intn(5)
		for r := 0; r < rounds; r++ {
			k := rng.Intn(Pick(rng, []int{4, 40, 400}))
			j := rng.Intn(outstanding + k + 1)
			fmt.Fprintf(w, "burst %d %d %d\n", next, k, j)
			next += k
			outstanding += k - j
		}
		if rng.Chance(1, 2) {
			k := rng.Intn(60)
			fmt.Fprintf(w, "cburst %d %d %d %d\n", next, k, rng.Intn(outstanding+k+1), rng.Intn(k+1))
			stats.Inc("cancel_cases")
		} else {
			fmt.Fprintln(w, "close")
			fmt.Fprintln(w, "drain")
		}
		stats.Inc("concurrent_cases")
	}
}

type c17PipeRunner struct {
	conc        bool
	stats       *Stats
	ctx         context.Context
	cancel      context.CancelFunc
	w           chan<- int
	r           <-chan int
	outstanding int
	wclosed     bool
	cancelled   bool
	dead        bool
	baseline    c17Base // goroutines before the pipe was created
}

// c17DawgsGoroutines counts the goroutines that are executing (or parked in) code of the packages under test:
// a stack dump filtered on dawgs/traversal and dawgs/util/channels frames. Goroutines of the harness itself,
// of the runtime or of the race detector do not count, so the oracle is insensitive to them.
func c17DawgsGoroutines() (int, string) {
	buf := make([]byte, 1<<20)
	for {
		n := runtime.Stack(buf, true)
		if n < len(buf) {
			buf = buf[:n]
			break
		}
		buf = make([]byte, 2*len(buf))
	}
	count, site := 0, ""
	for _, g := range strings.Split(string(buf), "\n\n") {
		if !strings.Contains(g, "github.com/specterops/dawgs/traversal.") && !strings.Contains(g, "github.com/specterops/dawgs/util/channels.") {
			continue
		}
		count++
		if site == "" {
			for _, line := range strings.Split(g, "\n") {
				line = strings.TrimSpace(line)
				if strings.Contains(line, ".go:") && (strings.Contains(line, "/util/channels/") || strings.Contains(line, "/traversal/")) {
					f := strings.Fields(line)[0]
					if i := strings.Index(f, "/util/channels/"); i >= 0 {
						site = f[i+1:]
					} else if i := strings.Index(f, "/traversal/"); i >= 0 {
						site = f[i+1:]
					}
					break
				}
			}
		}
	}
	return count, site
}

type c17Base struct{ all, dawgs int }

// c17Baseline is taken before the code under test starts anything.
func c17Baseline() c17Base {
	n, _ := c17DawgsGoroutines()
	return c17Base{all: runtime.NumGoroutine(), dawgs: n}
}

// c17Settle waits (up to 10 s, polling) until no more goroutines run dawgs traversal/channels code than before.
// Fast path: the total goroutine count is back; otherwise the filtered stack dump decides.
func c17Settle(b c17Base) bool {
	// the first two leaks of a process are established with the full 10 s bound; after that the run is failing
	// anyway (a healthy tree never leaks once) and the bound shrinks so that the remaining cases still run
	rounds := 2000
	if c17Leaks.Load() >= 2 {
		rounds = 60
	}
	for i := 0; i < rounds; i++ {
		if runtime.NumGoroutine() <= b.all {
			return true
		}
		if i >= 2 {
			if n, _ := c17DawgsGoroutines(); n <= b.dawgs {
				return true
			}
		}
		time.Sleep(5 * time.Millisecond)
	}
	c17Leaks.Add(1)
	return false
}

var c17Leaks atomic.Int64

func c17LeakSite() string { _, s := c17DawgsGoroutines(); return s }

func (s c17PipeSuite) NewRunner(stats *Stats) Runner { return &c17PipeRunner{conc: s.conc, stats: stats} }

func csvInts(xs []int) string {
	parts := make([]string, len(xs))
	for i, x := range xs {
		parts[i] = strconv.Itoa(x)
	}
	return strings.Join(parts, ",")
}

// recv receives one value through channels.Receive with its own deadline (so a closed channel and a
// timeout can be told apart). kind: "val", "closed", "timeout".
func (r *c17PipeRunner) recv(d time.Duration) (int, string) {
	tctx, done := context.WithTimeout(context.Background(), d)
	defer done()
	if v, ok := channels.Receive(tctx, r.r); ok {
		return v, "val"
	}
	if tctx.Err() != nil {
		return 0, "timeout"
	}
	return 0, "closed"
}

func (r *c17PipeRunner) submit(v int) string {
	res := make(chan bool, 1)
	go func() { res <- channels.Submit(r.ctx, r.w, v) }()
	select {
	case ok := <-res:
		if ok {
			return "ok"
		}
		return "refused"
	case <-time.After(c17HangTimeout):
		r.dead = true
		r.cancel()
		return "hang"
	}
}

func (r *c17PipeRunner) drain() ([]int, bool) {
	var got []int
	for {
		v, kind := r.recv(c17HangTimeout)
		switch kind {
		case "val":
			got = append(got, v)
		case "closed":
			return got, true
		default:
			return got, false
		}
	}
}

func (r *c17PipeRunner) Step(t []string, raw string) string {
	if len(t) == 1 && t[0] == "new" {
		if r.cancel != nil {
			r.cancel()
		}
		r.baseline = c17Baseline()
		r.ctx, r.cancel = context.WithCancel(context.Background())
		r.w, r.r = channels.BufferedPipe[int](r.ctx)
		r.outstanding, r.wclosed, r.cancelled, r.dead = 0, false, false, false
		return "ok"
	}
	if r.w == nil || r.dead {
		return "bad-op"
	}
	switch {
	case len(t) == 2 && t[0] == "sub":
		v, err := strconv.Atoi(t[1])
		if err != nil || r.wclosed {
			return "bad-op"
		}
		ans := r.submit(v)
		if ans == "ok" {
			r.outstanding++
			r.stats.Inc("branch.pipe.submit_ok")
			if r.outstanding > 1 {
				r.stats.Inc("branch.pipe.submit_while_buffered")
			}
		} else if ans == "refused" {
			r.stats.Inc("branch.pipe.submit_refused")
		}
		return ans
	case len(t) == 1 && (t[0] == "read" || t[0] == "tryread"):
		d := time.Millisecond
		expectValue := r.outstanding > 0 && !r.cancelled
		if expectValue || r.wclosed || r.cancelled {
			d = c17HangTimeout
		}
		v, kind := r.recv(d)
		switch kind {
		case "val":
			r.outstanding--
			r.stats.Inc("branch.pipe.read_value")
			return strconv.Itoa(v)
		case "closed":
			r.stats.Inc("branch.pipe.read_closed")
			return "closed"
		default:
			if d == c17HangTimeout && !expectValue {
				return "hang"
			}
			r.stats.Inc("branch.pipe.read_empty")
			return "empty"
		}
	case len(t) == 1 && t[0] == "close":
		if r.wclosed {
			return "bad-op"
		}
		close(r.w)
		r.wclosed = true
		if r.outstanding > 0 {
			r.stats.Inc("branch.pipe.close_with_buffered")
		}
		return "ok"
	case len(t) == 1 && t[0] == "cancel":
		r.cancel()
		r.cancelled = true
		if r.outstanding > 0 {
			r.stats.Inc("branch.pipe.cancel_with_buffered")
		}
		got, closed := r.drain()
		r.outstanding = 0
		if !closed {
			return "hang"
		}
		if !c17Settle(r.baseline) {
			return "leak"
		}
		if r.conc {
			return strings.TrimSpace("closed got " + csvInts(got))
		}
		return "closed"
	case len(t) == 1 && t[0] == "drain":
		if !r.wclosed && !r.cancelled {
			return "bad-op"
		}
		got, closed := r.drain()
		r.outstanding = 0
		if closed && !c17Settle(r.baseline) {
			return "leak"
		}
		if closed {
			r.stats.Inc("branch.pipe.flush_exit")
			return strings.Join(strings.Fields("got "+csvInts(got)+" closed"), " ")
		}
		return strings.TrimSpace("got " + csvInts(got))
	case (len(t) == 4 && t[0] == "burst") || (len(t) == 5 && t[0] == "cburst"):
		if !r.conc || r.wclosed || r.cancelled {
			return "bad-op"
		}
		start, e1 := strconv.Atoi(t[1])
		k, e2 := strconv.Atoi(t[2])
		j, e3 := strconv.Atoi(t[3])
		cancelAt := -1
		if t[0] == "cburst" {
			var e4 error
			if cancelAt, e4 = strconv.Atoi(t[4]); e4 != nil {
				return "bad-op"
			}
		}
		if e1 != nil || e2 != nil || e3 != nil || k < 0 || j < 0 || j > r.outstanding+k {
			return "bad-op"
		}
		var (
			wg   sync.WaitGroup
			sent int
			got  []int
		)
		hang := atomic.Bool{}
		wg.Add(2)
		go func() {
			defer wg.Done()
			for i := 0; i < k; i++ {
				if i == cancelAt {
					r.cancel()
				}
				switch r.submit(start + i) {
				case "ok":
					sent++
				case "hang":
					hang.Store(true)
					return
				}
			}
			if cancelAt == k {
				r.cancel()
			}
		}()
		go func() {
			defer wg.Done()
			for len(got) < j {
				v, kind := r.recv(c17HangTimeout)
				if kind != "val" {
					if kind == "timeout" && cancelAt < 0 {
						hang.Store(true)
					}
					return
				}
				got = append(got, v)
			}
		}()
		wg.Wait()
		r.stats.Inc("branch.pipe.burst")
		if cancelAt >= 0 {
			r.cancelled = true
			rest, closed := r.drain()
			got = append(got, rest...)
			r.outstanding = 0
			ans := fmt.Sprintf("sent %d got %s", sent, csvInts(got))
			if closed {
				ans += " closed"
			}
			return strings.Join(strings.Fields(ans), " ")
		}
		r.outstanding += sent - len(got)
		if hang.Load() {
			r.dead = true
		}
		return strings.Join(strings.Fields(fmt.Sprintf("sent %d got %s", sent, csvInts(got))), " ")
	}
	return "bad-op"
}

// ------------------------------------------------------------------ BreadthFirst

type c17BFSuite struct{ trace bool }

// c17Shape renders a random tree with n nodes as a parenthesised preorder string.
func c17Shape(rng *Rng, n int, style int) string {
	parent := make([]int, n)
	kids := make([][]int, n)
	for i := 1; i < n; i++ {
		switch style {
		case 0: // random recursive tree
			parent[i] = rng.Intn(i)
		case 1: // deep: mostly a chain
			if rng.Chance(4, 5) {
				parent[i] = i - 1
			} else {
				parent[i] = rng.Intn(i)
			}
		case 2: // wide: star-like
			if rng.Chance(4, 5) {
				parent[i] = 0
			} else {
				parent[i] = rng.Intn(i)
			}
		default: // bushy: recent nodes
			lo := i - 4
			if lo < 0 {
				lo = 0
			}
			parent[i] = lo + rng.Intn(i-lo)
		}
		kids[parent[i]] = append(kids[parent[i]], i)
	}
	var sb strings.Builder
	var rec func(i int)
	rec = func(i int) {
		sb.WriteByte('(')
		for _, c := range kids[i] {
			rec(c)
		}
		sb.WriteByte(')')
	}
	rec(0)
	return sb.String()
}

func (s c17BFSuite) Gen(rng *Rng, tier string, w *bufio.Writer, stats *Stats) {
	caseNo := 0
	emit := func(shape string, workers int, fault string, k int, mode string) {
		caseNo++
		fmt.Fprintf(w, "# case %d\n", caseNo)
		fmt.Fprintf(w, "tree %s\n", shape)
		fmt.Fprintf(w, "run %d %s %d %d %s\n", workers, fault, k, rng.Intn(1<<30), mode)
		stats.Inc("cases")
		stats.Inc("gen.fault." + fault)
	}
	// every tree with <= 4 nodes x workers 1..3 x every fault point of err/cancel/mem
	small := []string{"()", "(())", "(()())", "((()))", "(()()())", "((())())", "(()(()))", "((()()))", "(((())))"}
	for _, sh := range small {
		n := strings.Count(sh, "(")
		for workers := 1; workers <= 3; workers++ {
			emit(sh, workers, "none", 0, "lit")
			for _, f := range []string{"err", "cancel", "mem", "swallow", "cswallow"} {
				for k := 0; k <= n; k++ {
					// the memory limit armed mid-run is schedule independent only with one worker
					if (f == "mem" && workers > 1 && k > 0) || (f != "mem" && k == 0) {
						continue
					}
					emit(sh, workers, f, k, "lit")
				}
			}
		}
	}
	n := 160
	if tier == "thorough" {
		n = 4000
	}
	for i := 0; i < n; i++ {
		size := 1 + rng.Intn(Pick(rng, []int{8, 40, 200}))
		if tier == "thorough" && rng.Chance(1, 50) {
			size = 1000 + rng.Intn(3000)
		}
		shape := c17Shape(rng, size, rng.Intn(4))
		workers := 1 + rng.Intn(8)
		mode := "lit"
		if rng.Chance(1, 3) {
			mode = "descend"
		}
		switch x := rng.Intn(12); {
		case x < 5:
			emit(shape, workers, "none", 0, mode)
		case x < 7:
			emit(shape, workers, "err", 1+rng.Intn(size+1), mode)
		case x < 9:
			emit(shape, workers, "cancel", 1+rng.Intn(size+1), mode)
		case x < 10:
			emit(shape, workers, "swallow", 1+rng.Intn(size+1), mode)
		case x < 11:
			emit(shape, workers, "cswallow", 1+rng.Intn(size+1), mode)
		default:
			if workers == 1 || rng.Chance(1, 2) {
				emit(shape, 1, "mem", rng.Intn(size+1), mode)
			} else {
				emit(shape, workers, "mem", 0, mode)
			}
		}
	}
}

type c17Tree struct {
	kids   [][]int
	parent []int
}

func c17ParseTree(sh string) (*c17Tree, bool) {
	t := &c17Tree{}
	var stack []int
	for _, ch := range sh {
		switch ch {
		case '(':
			id := len(t.kids)
			t.kids = append(t.kids, nil)
			p := -1
			if len(stack) > 0 {
				p = stack[len(stack)-1]
				t.kids[p] = append(t.kids[p], id)
			} else if id != 0 {
				return nil, false
			}
			t.parent = append(t.parent, p)
			stack = append(stack, id)
		case ')':
			if len(stack) == 0 {
				return nil, false
			}
			stack = stack[:len(stack)-1]
		default:
			return nil, false
		}
	}
	return t, len(stack) == 0 && len(t.kids) > 0
}

// c17DB is the smallest graph.Database BreadthFirst needs: ReadTransaction hands the delegate a
// transaction that only answers GraphQueryMemoryLimit.
type c17DB struct {
	graph.Database
	tx        *c17Tx
	txReturns atomic.Int64
}

func (d *c17DB) ReadTransaction(ctx context.Context, delegate graph.TransactionDelegate, _ ...graph.TransactionOption) error {
	defer d.txReturns.Add(1)
	return delegate(d.tx)
}

type c17Tx struct {
	graph.Transaction
	limit atomic.Int64
}

func (t *c17Tx) GraphQueryMemoryLimit() size.Size { return size.Size(t.limit.Load()) }

// c17FaultHits says whether the fault point lies inside the run (schedule independent): the k-th
// driver call exists; for the memory limit (armed when the k-th call starts, k = 0: from the start)
// a later Receive exists.
func c17FaultHits(fault string, k, size int) bool {
	switch fault {
	case "err", "cancel", "swallow", "cswallow":
		return k >= 1 && k <= size
	case "mem":
		return k < size
	}
	return false
}

var errC17Boom = errors.New("boom: injected driver failure")

type c17BFRunner struct {
	trace bool
	stats *Stats
	tree  *c17Tree
	hangs int
}

func (s c17BFSuite) NewRunner(stats *Stats) Runner { return &c17BFRunner{trace: s.trace, stats: stats} }

// c17Hangs counts hangs seen by this process. The first three are established with the full quiescence
// window; after that the run is failing anyway (a healthy tree never hangs once) and the window shrinks so
// that the remaining cases are still executed and reported, not skipped.
var c17Hangs atomic.Int64

func c17QuietWindow() (int, time.Duration) {
	if c17Hangs.Load() >= 3 {
		return 6, 300 * time.Millisecond
	}
	return 80, c17QuietTimeout
}

func (r *c17BFRunner) Step(t []string, raw string) string {
	switch {
	case len(t) == 2 && t[0] == "tree":
		tr, ok := c17ParseTree(t[1])
		if !ok {
			return "bad-op"
		}
		r.tree = tr
		return fmt.Sprintf("ok nodes=%d", len(tr.kids))
	case len(t) == 6 && t[0] == "run":
		workers, e1 := strconv.Atoi(t[1])
		k, e2 := strconv.Atoi(t[3])
		seed, e3 := strconv.Atoi(t[4])
		if r.tree == nil || e1 != nil || e2 != nil || e3 != nil || workers < 1 {
			return "bad-op"
		}
		switch t[2] {
		case "none", "err", "cancel", "mem", "swallow", "cswallow":
		default:
			return "bad-op"
		}
		return r.run(workers, t[2], k, uint64(seed), t[5])
	}
	return "bad-op"
}

func (r *c17BFRunner) run(workers int, fault string, k int, seed uint64, mode string) string {
	var (
		tree       = r.tree
		kind       = graph.StringKind("K")
		nodes      = make([]*graph.Node, len(tree.kids))
		callLock   sync.Mutex
		calls      []int
		started    atomic.Int64
		inflight   atomic.Int64
		lastActive atomic.Int64
		db         = &c17DB{tx: &c17Tx{}}
	)
	// database ids of the synthetic segments come from one of the id alphabets (collisions mod 2^32 / 2^16, ids >= 2^63)
	al := c17IDAlphabet(seed % c17Alphabets)
	index := make(map[graph.ID]int, len(nodes))
	for i := range nodes {
		nodes[i] = graph.NewNode(graph.ID(al.id(i)), graph.NewProperties(), kind)
		index[nodes[i].ID] = i
	}
	baseline := c17Baseline()
	ctx, cancel := context.WithCancel(context.Background())
	defer cancel()
	noise := func(id int) {
		// schedule noise derived from the case seed: yield, or sleep a few microseconds
		h := (seed ^ uint64(id)*0x9E3779B97F4A7C15) * 0xBF58476D1CE4E5B9
		switch (h >> 40) % 8 {
		case 0, 1, 2:
			runtime.Gosched()
		case 3:
			time.Sleep(time.Duration((h>>20)%50) * time.Microsecond)
		}
	}
	driver := func(dctx context.Context, tx graph.Transaction, seg *graph.PathSegment) ([]*graph.PathSegment, error) {
		inflight.Add(1)
		defer func() { lastActive.Store(time.Now().UnixNano()); inflight.Add(-1) }()
		id := index[seg.Node.ID]
		n := int(started.Add(1))
		callLock.Lock()
		calls = append(calls, id)
		callLock.Unlock()
		noise(id)
		if n == k {
			switch fault {
			case "err":
				return nil, fmt.Errorf("segment %d: %w", id, errC17Boom)
			case "swallow":
				// a cancellation-class error of the driver's own while the traversal context is live
				if id%2 == 0 {
					return nil, fmt.Errorf("segment %d: %w", id, context.Canceled)
				}
				return nil, fmt.Errorf("segment %d: %w", id, graph.ErrContextTimedOut)
			case "cswallow":
				// the caller's context is cancelled first: now the same error is an expected one
				cancel()
				return nil, fmt.Errorf("segment %d: %w", id, context.Canceled)
			case "cancel":
				cancel()
			case "mem":
				db.tx.limit.Store(1)
			}
		}
		out := make([]*graph.PathSegment, 0, len(tree.kids[id]))
		for _, c := range tree.kids[id] {
			rel := graph.NewRelationship(graph.ID(al.id(c)), nodes[id].ID, nodes[c].ID, nil, kind)
			if mode == "descend" {
				out = append(out, seg.Descend(nodes[c], rel))
			} else {
				out = append(out, &graph.PathSegment{Node: nodes[c], Trunk: seg, Edge: rel})
			}
		}
		noise(id + 1)
		return out, nil
	}
	if fault == "mem" && k == 0 {
		db.tx.limit.Store(1)
	}
	lastActive.Store(time.Now().UnixNano())
	type result struct {
		err      error
		panicked string
	}
	done := make(chan result, 1)
	go func() {
		defer func() {
			if p := recover(); p != nil {
				done <- result{panicked: fmt.Sprint(p)}
			}
		}()
		done <- result{err: traversal.New(db, workers).BreadthFirst(ctx, traversal.Plan{Root: nodes[0], Driver: driver})}
	}()
	var (
		res      result
		hang     bool
		deadline = time.After(c17HangTimeout)
		tick     = time.NewTicker(50 * time.Millisecond)

		quietSince int64
		quietTicks int
	)
	defer tick.Stop()
wait:
	for {
		select {
		case res = <-done:
			break wait
		case <-deadline:
			hang = true
		case <-tick.C:
			// quiescence: nothing in flight and no driver activity, observed on 80 consecutive ticks that
			// this process actually got to run (a stalled machine delivers no ticks, so it cannot fake it)
			if la := lastActive.Load(); inflight.Load() == 0 && la == quietSince {
				quietTicks++
			} else {
				quietSince, quietTicks = la, 0
			}
			if needTicks, needQuiet := c17QuietWindow(); quietTicks >= needTicks && time.Since(time.Unix(0, quietSince)) > needQuiet {
				hang = true
			}
		}
		if hang {
			r.stats.Inc("branch.bf.hang_detected")
			c17Hangs.Add(1)
			cancel() // free the goroutines; a traversal that still does not return is reported as such
			select {
			case res = <-done:
			case <-time.After(c17HangTimeout):
				return "ret=hang-uncancellable leak"
			}
			break wait
		}
	}
	// "No goroutine is left behind": the caller's context is NOT cancelled here — a server's long-lived context
	// stays alive after BreadthFirst returned, with or without an error. Everything the traversal started
	// (workers, the pipe pump) must be gone within the bound on its own. Only afterwards is the context
	// cancelled, to clean up whatever a defective tree left running.
	settled := c17Settle(baseline)
	leakedAt := ""
	if !settled {
		leakedAt = c17LeakSite()
	}
	cancel()
	ret := "ok"
	switch {
	case hang:
		ret = "hang"
	case res.panicked != "":
		ret = "panic"
	case res.err == nil:
	case errors.Is(res.err, errC17Boom):
		ret = "err"
	case fault == "swallow" && (errors.Is(res.err, context.Canceled) || errors.Is(res.err, graph.ErrContextTimedOut)):
		ret = "err"
		r.stats.Inc("branch.bf.ctx_class_error_reported")
	case errors.Is(res.err, ops.ErrGraphQueryMemoryLimit):
		ret = "err"
		r.stats.Inc("branch.bf.memlimit")
	default:
		ret = "othererr"
	}
	callLock.Lock()
	seq := append([]int{}, calls...)
	callLock.Unlock()
	r.stats.Inc("branch.bf.ret_" + ret)
	r.stats.Inc(fmt.Sprintf("branch.bf.workers_%d", workers))
	r.stats.Add("driver_calls", int64(len(seq)))
	if c17FaultHits(fault, k, len(tree.kids)) {
		r.stats.Inc("branch.bf.fault_hit_" + fault)
	}
	if db.txReturns.Load() != int64(workers) {
		r.stats.Inc("branch.bf.worker_not_joined")
		settled = false
	}
	tail := "settled"
	if !settled {
		r.stats.Inc("branch.bf.goroutine_leak")
		tail = "leak@" + leakedAt
	}
	if r.trace {
		return fmt.Sprintf("ret=%s calls=%s %s", ret, csvInts(seq), tail)
	}
	if ret == "ok" && !c17FaultHits(fault, k, len(tree.kids)) {
		sorted := append([]int{}, seq...)
		sort.Ints(sorted)
		return fmt.Sprintf("ret=ok visited=[%s] %s", csvInts(sorted), tail)
	}
	return fmt.Sprintf("ret=%s %s", ret, tail)
}
