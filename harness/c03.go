package main

import (
	"bufio"
	"encoding/json"
	"fmt"
	"sort"
	"strconv"
	"strings"

	"github.com/specterops/dawgs/cypher/frontend"
	"github.com/specterops/dawgs/cypher/models/cypher"
	"github.com/specterops/dawgs/cypher/models/pgsql"
	"github.com/specterops/dawgs/cypher/models/pgsql/translate"
	"github.com/specterops/dawgs/graph"
	"github.com/specterops/dawgs/query"
	v2 "github.com/specterops/dawgs/query/v2"
)

// C03: emitted SQL is closed. Op lines:
//
//	q <json cypher text> [<json params object>]      parse (all-permissive context) + real translation
//	b <n>                                            query-builder AST number n (query and query/v2; derived from splitmix64(n))
//
// Answer: `ok upd=<0|1> params=(list "pi0" …) sql=<json> stmt=<sexp of Result.Statement>` or `err <class>` / `panic …`.
type c03Suite struct{}

func init() { register("c03", c03Suite{}) }

func (c03Suite) Gen(rng *Rng, tier string, w *bufio.Writer, stats *Stats) {
	n := 0
	emit := func(tag, line string) {
		n++
		fmt.Fprintf(w, "# case %d %s\n%s\n", n, tag, line)
	}
	for _, c := range LoadCypherCorpus() {
		line := "q " + jsonQuote(c.Query)
		if len(c.Params) > 0 {
			b, _ := json.Marshal(c.Params)
			line += " " + string(b)
		}
		emit("corpus:"+c.Source, line)
		stats.Inc("corpus")
	}
	// focused families: one scoping / renaming / suffix / aggregate shape per query, few other features (so that a new non-ok outcome gets a
	// shape key of its own instead of hiding behind a known finding of a feature-rich random query)
	for _, fam := range []struct {
		name string
		qs   []string
	}{{"scope", focusedScopeShapes()}, {"with-rename", focusedWithShapes()}, {"suffix", focusedSuffixShapes()}, {"aggregate", focusedAggregateShapes()}, {"path-predicate", focusedPathPredicateShapes()},
		{"order-alias", focusedOrderAliasShapes()}, {"path-membership", focusedPathMembershipShapes()}, {"exact-range", focusedExactRangeShapes()}, {"quoted-names", focusedQuotedNameShapes()}} {
		for _, q := range fam.qs {
			emit("focused:"+fam.name, "q "+jsonQuote(q))
			stats.Inc("focused." + fam.name)
		}
	}
	perLevel, builders := 120, 150
	if tier == "thorough" {
		perLevel, builders = 4000, 3000
	}
	for level := 1; level <= 5; level++ {
		g := newCyGen(rng, level)
		for i := 0; i < perLevel; i++ {
			q := g.Query()
			emit(fmt.Sprintf("gen:L%d", level), "q "+jsonQuote(q))
			stats.Inc("generated")
			for f := range g.feat {
				stats.Inc("feat." + f)
			}
		}
	}
	for i := 0; i < builders; i++ {
		emit("builder", fmt.Sprintf("b %d", rng.Intn(1<<30)))
		stats.Inc("builder")
	}
}

type c03Runner struct {
	stats  *Stats
	mapper pgsql.KindMapper
}

func (c03Suite) NewRunner(stats *Stats) Runner {
	return &c03Runner{stats: stats, mapper: newHarnessKindMapper()}
}

func errClass(err error) string {
	msg := strings.ReplaceAll(err.Error(), "\n", " ")
	if i := strings.IndexAny(msg, ":["); i > 0 {
		msg = msg[:i]
	}
	if len(msg) > 60 {
		msg = msg[:60]
	}
	return strings.ReplaceAll(strings.TrimSpace(msg), " ", "_")
}

// parseQueryOp splits `q <json string> [<json object>]`.
func parseQueryOp(raw string) (string, map[string]any, bool) {
	rest := strings.TrimSpace(strings.TrimPrefix(strings.TrimSpace(raw), "q"))
	dec := json.NewDecoder(strings.NewReader(rest))
	var q string
	if err := dec.Decode(&q); err != nil {
		return "", nil, false
	}
	var params map[string]any
	if dec.More() {
		if err := dec.Decode(&params); err != nil {
			return "", nil, false
		}
	}
	return q, params, true
}

func paramKeysSexp(m map[string]any) string {
	keys := make([]string, 0, len(m))
	for k := range m {
		keys = append(keys, k)
	}
	sort.Strings(keys)
	var b strings.Builder
	b.WriteString("(list")
	for _, k := range keys {
		b.WriteString(" " + jsonQuote(k))
	}
	b.WriteString(")")
	return b.String()
}

// translateAnswer runs the real translator on a cypher model and renders the common answer line.
func translateAnswer(stats *Stats, mapper pgsql.KindMapper, model *cypher.RegularQuery, params map[string]any) string {
	upd := 0
	if modelHasUpdating(model) {
		upd = 1
		stats.Inc("source_updating")
	}
	res, terr, panicked := translateSafe(model, mapper, params)
	if panicked != "" {
		stats.Inc("translate_panic")
		return "err translate-panic"
	}
	if terr != nil {
		stats.Inc("translate_err")
		return "err translate:" + errClass(terr)
	}
	if res.Statement == nil {
		stats.Inc("translate_nil")
		return "err translate:nil-statement"
	}
	stats.Inc("translated")
	sql, ferr := translate.Translated(res)
	if ferr != nil {
		stats.Inc("format_err")
		sql = "<format error: " + ferr.Error() + ">"
	}
	if ferr == nil {
		if d := identifierTie(res.Statement, sql); d != "" {
			// the text does not name the identifiers the statement holds (harness/identtie.go)
			stats.Inc("identifier_tie_differs")
			return "ident-differs " + d + " sql=" + jsonQuote(sql)
		}
	}
	return fmt.Sprintf("ok upd=%d params=%s sql=%s stmt=%s", upd, paramKeysSexp(res.Parameters), jsonQuote(sql), ToSexp(res.Statement))
}

func (r *c03Runner) Step(t []string, raw string) string {
	if len(t) < 2 {
		return "bad-op"
	}
	switch t[0] {
	case "q":
		q, params, ok := parseQueryOp(raw)
		if !ok {
			return "bad-op"
		}
		model, err := frontend.ParseCypher(frontend.NewContext(), q)
		if err != nil || model == nil {
			r.stats.Inc("parse_err")
			return "err parse"
		}
		return translateAnswer(r.stats, r.mapper, model, params)
	case "b":
		n, err := strconv.ParseUint(t[1], 10, 64)
		if err != nil {
			return "bad-op"
		}
		model, params, desc, berr := buildBuilderCase(NewRng(n))
		r.stats.Inc("builder." + desc)
		if berr != nil || model == nil {
			r.stats.Inc("builder_err")
			return "err builder"
		}
		return translateAnswer(r.stats, r.mapper, model, params)
	}
	return "bad-op"
}

// ---------------------------------------------------------------- query-builder ASTs

var (
	bNodeKinds = graph.Kinds{graph.StringKind("NodeKind1"), graph.StringKind("NodeKind2")}
	bEdgeKinds = graph.Kinds{graph.StringKind("EdgeKind1"), graph.StringKind("EdgeKind2")}
)

func builderCriteriaV1(rng *Rng, ref *cypher.Variable, isRel bool) graph.Criteria {
	prop := func(name string) *cypher.PropertyLookup { return query.Property(ref, name) }
	switch rng.Intn(12) {
	case 0:
		if isRel {
			return query.Kind(ref, Pick(rng, bEdgeKinds))
		}
		return query.Kind(ref, Pick(rng, bNodeKinds))
	case 1:
		if isRel {
			return query.KindIn(ref, bEdgeKinds...)
		}
		return query.KindIn(ref, bNodeKinds...)
	case 2:
		return query.Equals(prop("name"), Pick(rng, []string{"x", "y"}))
	case 3:
		return query.GreaterThan(prop("a"), rng.Intn(3))
	case 4:
		return query.StringContains(prop("name"), "x")
	case 5:
		return query.CaseInsensitiveStringStartsWith(prop("name"), "X")
	case 6:
		return query.In(prop("name"), []string{"x", "y"})
	case 7:
		return query.IsNotNull(prop("a"))
	case 8:
		return query.Not(query.Equals(prop("b"), 1))
	case 9:
		return query.InIDs(query.Identity(ref), graph.ID(1), graph.ID(2))
	case 10:
		return query.Exists(prop("a"))
	default:
		return query.Equals(query.Identity(ref), graph.ID(rng.Intn(3)))
	}
}

// buildBuilderCase derives one query-builder AST from the rng: legacy query package or query/v2, node or
// relationship shaped, read or updating.
func buildBuilderCase(rng *Rng) (model *cypher.RegularQuery, params map[string]any, desc string, err error) {
	defer func() {
		if p := recover(); p != nil {
			err = fmt.Errorf("builder panic: %v", p)
		}
	}()
	if rng.Bool() {
		// legacy builder
		rel := rng.Bool()
		var crit []graph.Criteria
		refs := []*cypher.Variable{query.Node()}
		if rel {
			refs = []*cypher.Variable{query.Start(), query.Relationship(), query.End()}
		}
		var conj []graph.Criteria
		for i, n := 0, 1+rng.Intn(3); i < n; i++ {
			ref := Pick(rng, refs)
			conj = append(conj, builderCriteriaV1(rng, ref, ref.Symbol == query.EdgeSymbol))
		}
		if rng.Chance(1, 3) && len(conj) > 1 {
			crit = append(crit, query.Where(query.Or(conj...)))
		} else {
			crit = append(crit, query.Where(query.And(conj...)))
		}
		desc = "v1-node"
		if rel {
			desc = "v1-rel"
		}
		switch rng.Intn(6) {
		case 0:
			desc += "-delete"
			crit = append(crit, query.Delete(refs[len(refs)/2]))
		case 1:
			desc += "-update"
			crit = append(crit, query.Update(query.SetProperty(query.Property(refs[len(refs)/2], "a"), 5)), query.Returning(refs[len(refs)/2]))
		default:
			var rets []graph.Criteria
			for _, ref := range refs {
				if rng.Bool() {
					rets = append(rets, ref)
				}
			}
			switch rng.Intn(4) {
			case 0:
				rets = append(rets, query.Identity(refs[0]))
			case 1:
				rets = []graph.Criteria{query.Count(refs[0])}
			case 2:
				rets = append(rets, query.Property(refs[0], "name"))
			}
			if len(rets) == 0 {
				rets = append(rets, refs[0])
			}
			if rng.Chance(1, 4) {
				crit = append(crit, query.ReturningDistinct(rets...))
			} else {
				crit = append(crit, query.Returning(rets...))
			}
			if rng.Chance(1, 3) {
				crit = append(crit, query.OrderBy(query.Order(query.Property(refs[0], "name"), query.Descending())))
			}
			if rng.Chance(1, 3) {
				crit = append(crit, query.Limit(1+rng.Intn(3)))
			}
			if rng.Chance(1, 4) {
				crit = append(crit, query.Offset(rng.Intn(3)))
			}
		}
		b := query.NewBuilderWithCriteria(crit...)
		model, err = b.Build(rel && rng.Chance(1, 8))
		return model, nil, desc, err
	}
	// query/v2
	rel := rng.Bool()
	qb := v2.New()
	var cons []cypher.SyntaxNode
	for i, n := 0, 1+rng.Intn(3); i < n; i++ {
		var c cypher.SyntaxNode
		if rel {
			switch rng.Intn(7) {
			case 0:
				c = v2.Relationship().Kind().Is(Pick(rng, bEdgeKinds))
			case 1:
				c = v2.Start().Kinds().HasOneOf(bNodeKinds)
			case 2:
				c = v2.End().Property("name").Equals(Pick(rng, []string{"x", "y"}))
			case 3:
				c = v2.Start().ID().Equals(graph.ID(rng.Intn(3)))
			case 4:
				c = v2.Relationship().Property("w").GreaterThan(rng.Intn(3))
			case 5:
				c = v2.End().ID().In([]graph.ID{1, 2})
			default:
				c = v2.Not(v2.Start().Property("a").IsNull())
			}
		} else {
			switch rng.Intn(8) {
			case 0:
				c = v2.Node().Kinds().Has(Pick(rng, bNodeKinds))
			case 1:
				c = v2.Node().Kinds().HasOneOf(bNodeKinds)
			case 2:
				c = v2.Node().Property("name").Equals(Pick(rng, []string{"x", "y"}))
			case 3:
				c = v2.Node().Property("a").LessThanOrEqualTo(rng.Intn(3))
			case 4:
				c = v2.Node().Property("name").StartsWith("x")
			case 5:
				c = v2.Node().ID().In([]graph.ID{1, 2})
			case 6:
				c = v2.HasRelationships(v2.Node())
			default:
				c = v2.Node().Property("name").In([]string{"x", "y"})
			}
		}
		cons = append(cons, c)
	}
	if rng.Chance(1, 3) && len(cons) > 1 {
		qb = qb.Where(v2.Or(cons...))
	} else {
		qb = qb.Where(cons...)
	}
	desc = "v2-node"
	if rel {
		desc = "v2-rel"
		switch rng.Intn(6) {
		case 0:
			qb = qb.WithTraversalDepth(v2.DepthRange(1, 2))
			desc += "-depth"
		case 1:
			qb = qb.WithShortestPaths()
			desc += "-sp"
		case 2:
			qb = qb.WithRelationshipDirection(graph.DirectionInbound)
		}
	}
	switch rng.Intn(7) {
	case 0:
		desc += "-delete"
		if rel {
			qb = qb.Delete(v2.Relationship())
		} else {
			qb = qb.Delete(v2.Node())
		}
	case 1:
		desc += "-update"
		if rel {
			qb = qb.Update(v2.Relationship().Property("w").Set(3)).Return(v2.Relationship())
		} else {
			qb = qb.Update(v2.Node().Property("a").Set(3), v2.AddKind(v2.Node(), bNodeKinds[1])).Return(v2.Node())
		}
	default:
		var rets []any
		if rel {
			for _, r := range []any{v2.Start(), v2.Relationship(), v2.End()} {
				if rng.Bool() {
					rets = append(rets, r)
				}
			}
			if len(rets) == 0 || rng.Chance(1, 4) {
				rets = append(rets, v2.Path())
			}
		} else {
			switch rng.Intn(4) {
			case 0:
				rets = []any{v2.Node().Count()}
			case 1:
				rets = []any{v2.Node().ID(), v2.As(v2.Node().Property("name"), "nm")}
			default:
				rets = []any{v2.Node()}
			}
		}
		if rng.Chance(1, 4) {
			qb = qb.ReturnDistinct(rets...)
		} else {
			qb = qb.Return(rets...)
		}
		if rng.Chance(1, 3) {
			if rel {
				qb = qb.OrderBy(v2.Desc(v2.Start().Property("name")))
			} else {
				qb = qb.OrderBy(v2.Asc(v2.Node().Property("name")))
			}
		}
		if rng.Chance(1, 3) {
			qb = qb.Limit(rng.Intn(4))
		}
		if rng.Chance(1, 4) {
			qb = qb.Skip(rng.Intn(3))
		}
	}
	prepared, berr := qb.Build()
	if berr != nil {
		return nil, nil, desc, berr
	}
	return prepared.Query, prepared.Parameters, desc, nil
}
