module verifharness

go 1.26.4

require github.com/specterops/dawgs v0.0.0

replace github.com/specterops/dawgs => /repo
