module verifharness

go 1.26.4

require (
	github.com/klauspost/compress v1.19.0
	github.com/specterops/dawgs v0.0.0
)

require (
	github.com/RoaringBitmap/roaring/v2 v2.19.0 // indirect
	github.com/antlr4-go/antlr/v4 v4.13.1 // indirect
	github.com/axiomhq/hyperloglog v0.2.6 // indirect
	github.com/bits-and-blooms/bitset v1.24.5 // indirect
	github.com/cespare/xxhash/v2 v2.3.0 // indirect
	github.com/dgryski/go-metro v0.0.0-20250106013310-edb8663e5e33 // indirect
	github.com/gammazero/deque v1.2.1 // indirect
	github.com/jackc/pgio v1.0.0 // indirect
	github.com/jackc/pgpassfile v1.0.0 // indirect
	github.com/jackc/pgservicefile v0.0.0-20240606120523-5a60cdf6a761 // indirect
	github.com/jackc/pgtype v1.14.4 // indirect
	github.com/jackc/pgx/v5 v5.10.0 // indirect
	github.com/jackc/puddle/v2 v2.2.2 // indirect
	github.com/kamstrup/intmap v0.5.2 // indirect
	github.com/mschoch/smat v0.2.0 // indirect
	github.com/neo4j/neo4j-go-driver/v5 v5.28.4 // indirect
	github.com/pelletier/go-toml/v2 v2.4.3 // indirect
	golang.org/x/exp v0.0.0-20260611194520-c48552f49976 // indirect
	golang.org/x/sync v0.22.0 // indirect
	golang.org/x/text v0.40.0 // indirect
)

replace github.com/specterops/dawgs => /repo
