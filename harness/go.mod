module verifharness

go 1.26.4

require github.com/specterops/dawgs v0.0.0

require (
	github.com/RoaringBitmap/roaring/v2 v2.19.0 // indirect
	github.com/axiomhq/hyperloglog v0.2.6 // indirect
	github.com/bits-and-blooms/bitset v1.24.5 // indirect
	github.com/dgryski/go-metro v0.0.0-20250106013310-edb8663e5e33 // indirect
	github.com/kamstrup/intmap v0.5.2 // indirect
	github.com/mschoch/smat v0.2.0 // indirect
)

replace github.com/specterops/dawgs => /repo
