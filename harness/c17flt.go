package main

import (
	"bufio"
	"context"
	"fmt"
	"sort"
	"strconv"
	"strings"
	"sync"
	"time"

	"github.com/specterops/dawgs/graph"
	"github.com/specterops/dawgs/traversal"
)

// C17: the library's own segment filters and visitors (traversal.UniquePathSegmentFilter, AcyclicNodeFilter,
// FilteredSkipLimit, NodeCollector, PathCollector) driven by the real parallel BreadthFirst exactly the way
// traversal.LightweightDriver drives them (`if filter(nextSegment) { descend }`), on DAGs in which a hub is
// reached over many distinct inbound edges. Oracle: every result exactly once, equal to the sequential enumeration.
//   graph / edge e a b                as in c17seq (DAGs only)
//   flt <mode> <root> <workers> <arg>
//     unique   UniquePathSegmentFilter(accept): answer edges=[sorted multiset of the edge ids of the expanded segments]
//     collect  the same, every expanded segment handed to NodeCollector.Collect and PathCollector.Add:
//              answer nodes=[sorted] paths=<count>
//     acyclic  AcyclicNodeFilter(accept) (small graphs): answer segments=<count> nodes=[sorted]
//     fslskip  UniquePathSegmentFilter(FilteredSkipLimit(accept, visitor, skip=<arg>, 0)): answer visited=<count>

func init() { register("c17flt", c17FltSuite{}) }

type c17FltSuite struct{}

func (c17FltSuite) Gen(rng *Rng, tier string, w *bufio.Writer, stats *Stats) {
	caseNo := 0
	begin := func() { caseNo++; fmt.Fprintf(w, "# case %d\ngraph\n", caseNo) }
	hub := func(al c17IDAlphabet, mids, leaves int) {
		// root 0 -> mids 1..m -> hub m+1 -> leaves; every edge has its own id
		e := 1
		for i := 1; i <= mids; i++ {
			fmt.Fprintf(w, "edge %d %d %d\n", al.id(e), al.id(0), al.id(i))
			e++
		}
		for i := 1; i <= mids; i++ {
			fmt.Fprintf(w, "edge %d %d %d\n", al.id(e), al.id(i), al.id(mids+1))
			e++
		}
		for l := 0; l < leaves; l++ {
			fmt.Fprintf(w, "edge %d %d %d\n", al.id(e), al.id(mids+1), al.id(mids+2+l))
			e++
		}
	}
	nhub := 6
	if tier == "thorough" {
		nhub = 60
	}
	for i := 0; i < nhub; i++ {
		al := c17IDAlphabet(i % c17Alphabets)
		begin()
		mids, leaves := 8+rng.Intn(25), 300+rng.Intn(1700)
		hub(al, mids, leaves)
		for _, workers := range []int{8, 2 + rng.Intn(6)} {
			fmt.Fprintf(w, "flt unique %d %d 0\n", al.id(0), workers)
			fmt.Fprintf(w, "flt collect %d %d 0\n", al.id(0), workers)
		}
		fmt.Fprintf(w, "flt fslskip %d %d %d\n", al.id(0), 4+rng.Intn(5), rng.Intn(40))
		fmt.Fprintf(w, "flt unique %d 1 0\n", al.id(0))
		stats.Inc("gen.flt_hub_cases")
	}
	n := 40
	if tier == "thorough" {
		n = 800
	}
	for i := 0; i < n; i++ {
		al := c17IDAlphabet(i % c17Alphabets)
		begin()
		shape := []int{0, 1, 4}[i%3] // the DAG shapes of c17Graph: star, diamonds, random DAG
		c17Graph(rng, w, shape, al)
		// parallel edges into the same node: more distinct inbound edges
		if rng.Bool() {
			fmt.Fprintf(w, "edge %d %d %d\n", al.id(40), al.id(0), al.id(1))
			fmt.Fprintf(w, "edge %d %d %d\n", al.id(41), al.id(0), al.id(1))
		}
		for _, mode := range []string{"unique", "collect", "acyclic", "fslskip"} {
			arg := 0
			if mode == "fslskip" {
				arg = rng.Intn(5)
			}
			fmt.Fprintf(w, "flt %s %d %d %d\n", mode, al.id(0), 1+rng.Intn(8), arg)
		}
		stats.Inc("gen.flt_small_cases")
	}
}

type c17FltRunner struct {
	stats *Stats
	seq   c17SeqRunner
}

func (c17FltSuite) NewRunner(stats *Stats) Runner { return &c17FltRunner{stats: stats, seq: c17SeqRunner{stats: stats}} }

func c17SortedU64(xs []uint64) string {
	sort.Slice(xs, func(i, j int) bool { return xs[i] < xs[j] })
	parts := make([]string, len(xs))
	for i, x := range xs {
		parts[i] = strconv.FormatUint(x, 10)
	}
	return "[" + strings.Join(parts, ",") + "]"
}

func (r *c17FltRunner) Step(t []string, raw string) string {
	if len(t) >= 1 && (t[0] == "graph" || t[0] == "edge") {
		return r.seq.Step(t, raw)
	}
	if len(t) != 5 || t[0] != "flt" || r.seq.db == nil {
		return "bad-op"
	}
	root, e1 := strconv.ParseUint(t[2], 10, 64)
	workers, e2 := strconv.Atoi(t[3])
	arg, e3 := strconv.Atoi(t[4])
	if e1 != nil || e2 != nil || e3 != nil || workers < 1 {
		return "bad-op"
	}
	db := r.seq.db
	kind := graph.StringKind("K")
	rootNode := db.nodes[graph.ID(root)]
	if rootNode == nil {
		rootNode = graph.NewNode(graph.ID(root), graph.NewProperties(), kind)
		db.nodes[graph.ID(root)] = rootNode
	}
	out := map[graph.ID][]*graph.Relationship{}
	for _, rel := range db.rels {
		out[rel.StartID] = append(out[rel.StartID], rel)
	}
	accept := func(*graph.PathSegment) bool { return true }
	var (
		nodeCollector = traversal.NewNodeCollector()
		pathCollector = traversal.NewPathCollector()
		fslLock       sync.Mutex
		fslVisited    int
		filter        traversal.SegmentFilter
	)
	switch t[1] {
	case "unique", "collect":
		filter = traversal.UniquePathSegmentFilter(accept)
	case "acyclic":
		filter = traversal.AcyclicNodeFilter(accept)
	case "fslskip":
		filter = traversal.UniquePathSegmentFilter(traversal.FilteredSkipLimit(
			func(*graph.PathSegment) (bool, bool) { return true, true },
			func(*graph.PathSegment) { fslLock.Lock(); fslVisited++; fslLock.Unlock() }, arg, 0))
	default:
		return "bad-op"
	}
	var (
		lock     sync.Mutex
		edges    []uint64
		segments int
	)
	driver := func(ctx context.Context, tx graph.Transaction, seg *graph.PathSegment) ([]*graph.PathSegment, error) {
		lock.Lock()
		segments++
		if seg.Edge != nil {
			edges = append(edges, seg.Edge.ID.Uint64())
		}
		lock.Unlock()
		if t[1] == "collect" || t[1] == "acyclic" {
			nodeCollector.Collect(seg)
			pathCollector.Add(seg.Path())
		}
		var next []*graph.PathSegment
		for _, rel := range out[seg.Node.ID] {
			child := &graph.PathSegment{Node: db.nodes[rel.EndID], Trunk: seg, Edge: rel}
			if filter(child) {
				next = append(next, child)
			}
		}
		return next, nil
	}
	base := c17Baseline()
	ctx, cancel := context.WithCancel(context.Background())
	defer cancel()
	done := make(chan error, 1)
	go func() { done <- traversal.New(&c17DB{tx: &c17Tx{}}, workers).BreadthFirst(ctx, traversal.Plan{Root: rootNode, Driver: driver}) }()
	select {
	case err := <-done:
		if err != nil {
			return "error " + strings.ReplaceAll(err.Error(), "\n", " ")
		}
	case <-time.After(c17HangTimeout):
		return "hang"
	}
	if !c17Settle(base) {
		return "leak@" + c17LeakSite()
	}
	r.stats.Inc("branch.flt." + t[1])
	if workers >= 2 {
		r.stats.Inc("branch.flt.parallel")
	}
	switch t[1] {
	case "unique":
		return "edges=" + c17SortedU64(edges)
	case "collect", "acyclic":
		ids := make([]uint64, 0, len(nodeCollector.Nodes))
		for id := range nodeCollector.Nodes {
			ids = append(ids, id.Uint64())
		}
		if t[1] == "acyclic" {
			return fmt.Sprintf("segments=%d nodes=%s", segments, c17SortedU64(ids))
		}
		return fmt.Sprintf("nodes=%s paths=%d", c17SortedU64(ids), len(pathCollector.Paths))
	default:
		return fmt.Sprintf("visited=%d", fslVisited)
	}
}
