package main

import (
	"bufio"
	"encoding/json"
	"fmt"
	"os"
	"os/exec"
	"reflect"
	"runtime/debug"
	"strings"
	"sync"
	"time"

	"github.com/specterops/dawgs/cypher/models/cypher"
	"github.com/specterops/dawgs/cypher/models/pgsql"
	"github.com/specterops/dawgs/graph"
	"github.com/specterops/dawgs/query"
)

// C05: translation is a total, deterministic, side-effect-free function (the part only search can cover).
// Every case is one (AST, parameter map); the battery translates it under recover with a time budget 10x
// sequentially and 16x concurrently — the SAME AST object and parameter map, ONE kind mapper shared by the whole
// run — compares all outcomes byte for byte and compares the S-expressions of AST and parameters before/after.
//
// Ops:  q <json [query, params|null]>        parsed text
//
//	m <seed> <json [query, params|null]> parsed text, then mutated by reflection (nil-ed optionals, dropped /
//	                                     duplicated / swapped subtrees)
//	b <i>   query i assembled with the builders of /repo/query
//	h <i>   cypher model value i assembled by hand with nil optionals
//	p <i>   parameter-shape case i (nested maps, nil slices, ids, times)
//	kmrace  concurrent AssertKinds of NEW kinds on a shared InMemoryKindMapper, in a child process
//
// Answer: cls=<ok|err|panic|panic-ns-collision|nondeterministic|ast-mutated|params-mutated|hang|…> st=… site=… runs=… ms=… min=… detail=…
type c05Suite struct{}

func init() {
	register("c05", c05Suite{})
	register("c05km", c05kmSuite{})
}

// ONE kind mapper for every translation of the run.
var c05Mapper = newHarnessKindMapper()

const (
	c05Sequential = 10
	c05Concurrent = 16
	c05Budget     = 10 * time.Second
)

func (c05Suite) Gen(rng *Rng, tier string, w *bufio.Writer, stats *Stats) {
	n := 0
	emit := func(tag, line string) {
		n++
		fmt.Fprintf(w, "# case %d %s\n%s\n", n, tag, line)
	}
	payload := func(q string, params map[string]any) string {
		b, _ := json.Marshal([]any{q, params})
		return string(b)
	}
	ngen, nmut := 300, 1
	if tier == "thorough" {
		ngen, nmut = 3000, 6
	}
	for i := range c05Builders {
		emit("builder", fmt.Sprintf("b %d", i))
	}
	for i := range c05Hand {
		emit("hand", fmt.Sprintf("h %d", i))
	}
	for i := range c05ParamCases {
		emit("params", fmt.Sprintf("p %d", i))
	}
	emit("kindmapper", "kmrace")
	nkm, npath := 48, 40
	if tier == "thorough" {
		nkm, npath = 200, 600
	}
	for i := 0; i < nkm; i++ {
		emit("kindmapper", fmt.Sprintf("km %d", i))
	}
	for _, q := range c05PathShapes {
		emit("pathshape", "q "+payload(q, nil))
		stats.Inc("pathshapes")
	}
	for _, q := range c05TotalityShapes {
		emit("totality", "q "+payload(q, nil))
	}
	for _, q := range c05CaseKeyShapes {
		emit("casekeys", "q "+payload(q, nil))
		stats.Inc("casekeys")
	}
	for i := 0; i < npath; i++ {
		emit("casekeys", "q "+payload(genCaseKeyQuery(rng), nil))
		stats.Inc("casekeys")
	}
	for i := 0; i < npath; i++ {
		emit("pathshape", "q "+payload(genPathShapeQuery(rng), nil))
		stats.Inc("pathshapes")
	}
	for _, c := range LoadCypherCorpus() {
		emit("corpus:"+c.Source, "q "+payload(c.Query, c.Params))
		stats.Inc("corpus")
		for k := 0; k < nmut; k++ {
			emit("mut:"+c.Source, fmt.Sprintf("m %d %s", rng.Next()%1000000, payload(c.Query, c.Params)))
			stats.Inc("mutants")
		}
	}
	for i := 0; i < ngen; i++ {
		q := genCypherQuery(rng)
		emit("gen", "q "+payload(q, nil))
		stats.Inc("generated")
		for k := 0; k < nmut; k++ {
			emit("mutgen", fmt.Sprintf("m %d %s", rng.Next()%1000000, payload(q, nil)))
			stats.Inc("mutants")
		}
	}
}

type c05Runner struct{ stats *Stats }

func (c05Suite) NewRunner(stats *Stats) Runner { return &c05Runner{stats: stats} }

// c05Outcome adds the panic site to the canonical outcome.
type c05Outcome struct {
	xlOutcome
	Site string
}

func (o c05Outcome) key() string {
	return o.Status + "\x00" + o.Msg + "\x00" + o.RawSQL + "\x00" + o.Params
}

// c05Translate runs the real translator under recover and records where a panic came from.
func c05Translate(q *cypher.RegularQuery, mapper pgsql.KindMapper, params map[string]any) (out c05Outcome) {
	defer func() {
		if p := recover(); p != nil {
			out = c05Outcome{xlOutcome: xlOutcome{Status: "panic", Msg: strings.ReplaceAll(fmt.Sprint(p), "\n", " ")}, Site: panicSite(string(debug.Stack()))}
		}
	}()
	res, err, _ := translateSafeNoRecover(q, mapper, params)
	return c05Outcome{xlOutcome: outcomeOf(res, err, "")}
}

// panicSite: first dawgs function below the runtime's panic frames.
func panicSite(stack string) string {
	lines := strings.Split(stack, "\n")
	seenPanic := false
	for _, l := range lines {
		if strings.HasPrefix(l, "panic(") || strings.HasPrefix(l, "runtime.") {
			if strings.HasPrefix(l, "panic(") || strings.Contains(l, "sigpanic") || strings.Contains(l, "panicmem") || strings.Contains(l, "panicwrap") {
				seenPanic = true
			}
			continue
		}
		if seenPanic && strings.HasPrefix(l, "github.com/specterops/dawgs/") {
			f := strings.TrimPrefix(l, "github.com/specterops/dawgs/")
			if i := strings.LastIndexByte(f, '('); i > 0 {
				f = f[:i]
			}
			if i := strings.LastIndexByte(f, '/'); i >= 0 {
				f = f[i+1:]
			}
			return strings.NewReplacer("(*", "", ")", "", " ", "").Replace(f)
		}
	}
	return "?"
}

func withBudget(f func() c05Outcome) (c05Outcome, bool) {
	ch := make(chan c05Outcome, 1)
	go func() { ch <- f() }()
	select {
	case o := <-ch:
		return o, false
	case <-time.After(c05Budget):
		return c05Outcome{xlOutcome: xlOutcome{Status: "hang"}}, true
	}
}

type c05Verdict struct {
	cls, detail string
	first       c05Outcome
	runs        int
	maxMS       int64
}

// battery: the property's observable clauses for one (AST, parameter map).
func c05Battery(ast *cypher.RegularQuery, params map[string]any) c05Verdict {
	beforeAST, beforeParams := ToSexp(ast), ToSexp(params)
	v := c05Verdict{cls: "ok"}
	var ref c05Outcome
	for i := 0; i < c05Sequential; i++ {
		t0 := time.Now()
		o, hung := withBudget(func() c05Outcome { return c05Translate(ast, c05Mapper, params) })
		if ms := time.Since(t0).Milliseconds(); ms > v.maxMS {
			v.maxMS = ms
		}
		v.runs++
		if hung {
			v.cls, v.detail = "hang", fmt.Sprintf("no answer within %s", c05Budget)
			return v
		}
		if i == 0 {
			ref, v.first = o, o
		} else if o.key() != ref.key() {
			v.cls, v.detail = "nondeterministic", fmt.Sprintf("sequential run %d: %s | first: %s", i, firstTextDiff(ref.key(), o.key()), o.Status)
			return v
		}
	}
	// inputs are compared BEFORE the concurrent phase as well: sixteen goroutines sharing an AST or a parameter map that
	// the translator writes to would end in Go's unrecoverable "concurrent map writes" instead of a verdict
	if mid := ToSexp(ast); mid != beforeAST {
		v.cls, v.detail = "ast-mutated", firstTextDiff(beforeAST, mid)
		return v
	}
	if mid := ToSexp(params); mid != beforeParams {
		v.cls, v.detail = "params-mutated", firstTextDiff(beforeParams, mid)
		if strings.ReplaceAll(mid, "(list)", "nil") == strings.ReplaceAll(beforeParams, "(list)", "nil") {
			v.cls = "params-mutated:nil-slice-to-empty"
		}
		return v
	}
	if ref.Status != "panic" {
		outs := make([]c05Outcome, c05Concurrent)
		var wg sync.WaitGroup
		start := make(chan struct{})
		for g := 0; g < c05Concurrent; g++ {
			wg.Add(1)
			go func(g int) {
				defer wg.Done()
				<-start
				outs[g] = c05Translate(ast, c05Mapper, params)
			}(g)
		}
		t0 := time.Now()
		close(start)
		done := make(chan struct{})
		go func() { wg.Wait(); close(done) }()
		select {
		case <-done:
		case <-time.After(c05Budget):
			v.cls, v.detail = "hang", "concurrent batch did not finish within the budget"
			return v
		}
		if ms := time.Since(t0).Milliseconds(); ms > v.maxMS {
			v.maxMS = ms
		}
		v.runs += c05Concurrent
		for g, o := range outs {
			if o.key() != ref.key() {
				v.cls, v.detail = "nondeterministic", fmt.Sprintf("concurrent run %d: %s", g, firstTextDiff(ref.key(), o.key()))
				return v
			}
		}
	}
	if after := ToSexp(ast); after != beforeAST {
		v.cls, v.detail = "ast-mutated", firstTextDiff(beforeAST, after)
		return v
	}
	if after := ToSexp(params); after != beforeParams {
		v.cls, v.detail = "params-mutated", firstTextDiff(beforeParams, after)
		// the one shape known on the unchanged tree: nil slices inside a nested map value become empty slices
		if strings.ReplaceAll(after, "(list)", "nil") == strings.ReplaceAll(beforeParams, "(list)", "nil") {
			v.cls = "params-mutated:nil-slice-to-empty"
		}
		return v
	}
	switch ref.Status {
	case "panic":
		v.cls, v.detail = "panic", ref.Msg
	case "err":
		v.cls = "err"
	}
	return v
}

func (r *c05Runner) Step(t []string, raw string) string {
	if len(t) == 0 {
		return "bad-op"
	}
	var (
		ast    *cypher.RegularQuery
		params map[string]any
		text   string
		label  string
	)
	rest := strings.TrimSpace(raw)
	parsePayload := func(skip int) bool {
		for i := 0; i < skip; i++ {
			rest = strings.TrimSpace(rest[strings.IndexByte(rest, ' ')+1:])
		}
		var payload []json.RawMessage
		if json.Unmarshal([]byte(rest), &payload) != nil || len(payload) < 1 || json.Unmarshal(payload[0], &text) != nil {
			return false
		}
		if len(payload) > 1 {
			_ = json.Unmarshal(payload[1], &params)
		}
		return true
	}
	switch t[0] {
	case "kmrace":
		return c05KindMapperRace()
	case "km":
		var i int
		if len(t) > 1 {
			fmt.Sscan(t[1], &i)
		}
		out := c05KindMapperContract(i)
		r.stats.Inc("class." + strings.TrimPrefix(strings.Fields(out)[0], "cls="))
		r.stats.Inc("kind.kindmapper")
		return out
	case "q", "m":
		skip := 1
		var seed uint64
		if t[0] == "m" {
			if len(t) < 3 {
				return "bad-op"
			}
			fmt.Sscan(t[1], &seed)
			skip = 2
		}
		if !parsePayload(skip) {
			return "bad-op"
		}
		m, err, pp := parseQuery(text)
		if pp != "" {
			r.stats.Inc("class.parse-panic")
			return "cls=parse-panic st=- site=- runs=0 ms=0 min=\"\" detail=" + jsonQuote(pp)
		}
		if err != nil {
			r.stats.Inc("class.parse-error")
			return "cls=parse-error st=- site=- runs=0 ms=0 min=\"\" detail=\"\""
		}
		ast = m
		_, psyms := userSymbols(ast)
		params = defaultParams(psyms, params)
		label = "text"
		if t[0] == "m" {
			label = "mutant:" + mutateAST(ast, NewRng(seed))
		}
	case "b":
		var i int
		fmt.Sscan(t[1], &i)
		if i < 0 || i >= len(c05Builders) {
			return "bad-op"
		}
		q, err := c05Builders[i].build()
		label = "builder:" + c05Builders[i].name
		if err != nil || q == nil {
			r.stats.Inc("class.builder-error")
			return "cls=builder-error st=- site=- runs=0 ms=0 min=\"\" detail=" + jsonQuote(fmt.Sprint(err))
		}
		ast = q
	case "h":
		var i int
		fmt.Sscan(t[1], &i)
		if i < 0 || i >= len(c05Hand) {
			return "bad-op"
		}
		ast = c05Hand[i].build()
		label = "hand:" + c05Hand[i].name
	case "p":
		var i int
		fmt.Sscan(t[1], &i)
		if i < 0 || i >= len(c05ParamCases) {
			return "bad-op"
		}
		m, err, pp := parseQuery(c05ParamCases[i].query)
		if err != nil || pp != "" {
			return "bad-op"
		}
		if meta, ok := c05ParamMeta[c05ParamCases[i].name]; ok {
			if msg := meta.check(); msg != "" {
				return "bad-op"
			}
			r.stats.Inc("ptype." + meta.ptype)
		}
		ast, params, text = m, c05ParamCases[i].params(), c05ParamCases[i].query
		label = "params:" + c05ParamCases[i].name
	default:
		return "bad-op"
	}
	v := c05Battery(ast, params)
	site := v.first.Site
	if site == "" {
		site = "-"
	}
	if v.cls == "panic" && text != "" && t[0] != "m" {
		// F10: is a spelling shared by a variable and a parameter the only cause?
		if m, err, _ := parseQuery(text); err == nil {
			vars, prms := userSymbols(m)
			if c06Collides(vars, prms) {
				dp := map[string]string{}
				for _, p := range prms {
					dp[p] = p + "_prm"
				}
				renameSymbols(m, map[string]string{}, dp)
				if o := c05Translate(m, c05Mapper, renameParamMap(params, dp)); o.Status != "panic" {
					v.cls = "panic-ns-collision"
				}
			}
		}
	}
	min := ""
	c05Minimised[v.cls+site]++
	if text != "" && t[0] == "q" && c05Minimised[v.cls+site] <= 2 && v.cls != "ok" && v.cls != "err" {
		min = minimiseQuery(text, func(cand string) bool {
			m, err, pp := parseQuery(cand)
			if err != nil || pp != "" {
				return false
			}
			_, ps := userSymbols(m)
			o := c05Translate(m, c05Mapper, defaultParams(ps, params))
			return o.Status == v.first.Status && o.Site == v.first.Site && (v.cls == "panic" || v.cls == "panic-ns-collision")
		}, 300)
	}
	r.stats.Inc("class." + v.cls)
	r.stats.Inc("kind." + strings.SplitN(label, ":", 2)[0])
	r.stats.Add("translations", int64(v.runs))
	if v.maxMS > r.stats.Counters["max_ms"] {
		r.stats.Counters["max_ms"] = v.maxMS
	}
	if v.first.Status == "ok" {
		r.stats.Inc("translated")
	}
	detail := v.detail
	if len(detail) > 600 {
		detail = detail[:600] + "…"
	}
	return fmt.Sprintf("cls=%s st=%s site=%s runs=%d ms=%d label=%s min=%s detail=%s",
		v.cls, v.first.Status, site, v.runs, v.maxMS, strings.ReplaceAll(label, " ", "_"), jsonQuote(min), jsonQuote(detail))
}

var c05Minimised = map[string]int{}

// ---------------------------------------------------------------- AST mutation by reflection

// mutateAST applies 1–3 structural mutations in place and returns their description. Every mutant is a value the
// public constructors of the cypher model can build (nil optional, fewer / more / reordered list items).
func mutateAST(q *cypher.RegularQuery, rng *Rng) string {
	type slot struct {
		v    reflect.Value
		kind string
		path string
	}
	var slots []slot
	seen := map[uintptr]bool{}
	var walk func(v reflect.Value, path string, depth int)
	walk = func(v reflect.Value, path string, depth int) {
		if !v.IsValid() || depth > 200 {
			return
		}
		switch v.Kind() {
		case reflect.Pointer:
			if v.IsNil() {
				return
			}
			if seen[v.Pointer()] {
				return
			}
			seen[v.Pointer()] = true
			walk(v.Elem(), path, depth+1)
		case reflect.Interface:
			if !v.IsNil() {
				walk(v.Elem(), path, depth+1)
			}
		case reflect.Struct:
			for i := 0; i < v.NumField(); i++ {
				f := v.Field(i)
				if !f.CanSet() {
					continue
				}
				p := path + "." + v.Type().Field(i).Name
				switch f.Kind() {
				case reflect.Pointer, reflect.Interface:
					if !f.IsNil() {
						slots = append(slots, slot{f, "nil", p})
					}
				case reflect.Slice:
					if f.Len() > 0 {
						slots = append(slots, slot{f, "drop", p}, slot{f, "dup", p})
						if f.Len() > 1 {
							slots = append(slots, slot{f, "swap", p})
						}
					}
				case reflect.Bool:
					slots = append(slots, slot{f, "flip", p})
				}
				walk(f, p, depth+1)
			}
		case reflect.Slice:
			for i := 0; i < v.Len(); i++ {
				walk(v.Index(i), fmt.Sprintf("%s[%d]", path, i), depth+1)
			}
		}
	}
	walk(reflect.ValueOf(q), "q", 0)
	if len(slots) == 0 {
		return "none"
	}
	var done []string
	for k := 1 + rng.Intn(3); k > 0; k-- {
		s := slots[rng.Intn(len(slots))]
		func() {
			defer func() { _ = recover() }()
			switch s.kind {
			case "nil":
				s.v.Set(reflect.Zero(s.v.Type()))
			case "drop":
				i := rng.Intn(s.v.Len())
				s.v.Set(reflect.AppendSlice(s.v.Slice(0, i), s.v.Slice(i+1, s.v.Len())))
			case "dup":
				i := rng.Intn(s.v.Len())
				s.v.Set(reflect.Append(s.v, s.v.Index(i)))
			case "swap":
				i, j := rng.Intn(s.v.Len()), rng.Intn(s.v.Len())
				a, b := reflect.ValueOf(s.v.Index(i).Interface()), reflect.ValueOf(s.v.Index(j).Interface())
				s.v.Index(i).Set(b)
				s.v.Index(j).Set(a)
			case "flip":
				s.v.SetBool(!s.v.Bool())
			}
			done = append(done, s.kind+"@"+s.path)
		}()
	}
	return strings.Join(done, "+")
}

// ---------------------------------------------------------------- builder-constructed queries (/repo/query)

type c05Builder struct {
	name  string
	build func() (*cypher.RegularQuery, error)
}

var (
	kN1 = graph.StringKind("NodeKind1")
	kN2 = graph.StringKind("NodeKind2")
	kE1 = graph.StringKind("EdgeKind1")
)

func bld(all bool, criteria ...graph.Criteria) func() (*cypher.RegularQuery, error) {
	return func() (*cypher.RegularQuery, error) { return query.NewBuilderWithCriteria(criteria...).Build(all) }
}

var c05Builders = []c05Builder{
	{"node-by-kind-and-name", bld(false, query.Where(query.And(query.Kind(query.Node(), kN1), query.Equals(query.NodeProperty("name"), "x"))), query.Returning(query.Node()))},
	{"node-count", bld(false, query.Where(query.Kind(query.Node(), kN1)), query.Returning(query.Count(query.Node())))},
	{"node-in-ids-order-limit", bld(false, query.Where(query.InIDs(query.NodeID(), 1, 2, 3)), query.Returning(query.Node()), query.OrderBy(query.Order(query.NodeProperty("name"), query.Descending())), query.Limit(5), query.Offset(2))},
	{"rel-by-kinds", bld(false, query.Where(query.And(query.Kind(query.Start(), kN1), query.Kind(query.Relationship(), kE1), query.Kind(query.End(), kN2))), query.Returning(query.Relationship()))},
	{"rel-start-end-props", bld(false, query.Where(query.And(query.Equals(query.StartProperty("name"), "a"), query.StringContains(query.EndProperty("name"), "b"))), query.Returning(query.Start(), query.Relationship(), query.End()))},
	{"rel-all-shortest", bld(true, query.Where(query.And(query.Equals(query.StartID(), graph.ID(1)), query.Equals(query.EndID(), graph.ID(2)))), query.Returning(query.Path()))},
	{"or-xor-not", bld(false, query.Where(query.Or(query.Xor(query.Equals(query.NodeProperty("a"), 1), query.Equals(query.NodeProperty("b"), 2)), query.Not(query.IsNull(query.NodeProperty("c"))))), query.Returning(query.NodeID()))},
	{"time-before", bld(false, query.Where(query.Before(query.NodeProperty("lastseen"), time.Unix(1700000000, 0).UTC())), query.Returning(query.Node()))},
	{"string-ops", bld(false, query.Where(query.And(query.CaseInsensitiveStringStartsWith(query.NodeProperty("name"), "Ab"), query.StringEndsWith(query.NodeProperty("name"), "z"))), query.Returning(query.Node()))},
	{"in-list", bld(false, query.Where(query.In(query.NodeProperty("name"), []string{"a", "b"})), query.Returning(query.Node()))},
	{"update-set-property", bld(false, query.Where(query.Equals(query.NodeID(), graph.ID(7))), query.Update(query.SetProperty(query.NodeProperty("name"), "new")))},
	{"update-set-properties", bld(false, query.Where(query.Equals(query.NodeID(), graph.ID(7))), query.Update(query.SetProperties(query.Node(), map[string]any{"a": 1, "b": "two", "c": []string{"x"}})))},
	{"update-add-kind", bld(false, query.Where(query.Equals(query.NodeID(), graph.ID(7))), query.Update(query.AddKind(query.Node(), kN2), query.DeleteKind(query.Node(), kN1)))},
	{"update-delete-properties", bld(false, query.Where(query.Equals(query.NodeID(), graph.ID(7))), query.Update(query.DeleteProperties(query.Node(), "a", "b")))},
	{"delete-node", bld(false, query.Where(query.Equals(query.NodeID(), graph.ID(7))), query.Delete(query.Node()))},
	{"delete-rel", bld(false, query.Where(query.Kind(query.Relationship(), kE1)), query.Delete(query.Relationship()))},
	{"kinds-of", bld(false, query.Where(query.Kind(query.Node(), kN1)), query.Returning(query.KindsOf(query.Node())))},
	{"has-relationships", bld(false, query.Where(query.HasRelationships(query.Node())), query.Returning(query.Node()))},
	{"count-distinct", bld(false, query.Where(query.Kind(query.Node(), kN1)), query.ReturningDistinct(query.CountDistinct(query.Node())))},
	{"create-node", bld(false, query.Create(query.NodePattern(graph.Kinds{kN1}, query.Parameter(map[string]any{"name": "x"}))), query.Returning(query.NodeID()))},
	{"returning-only", bld(false, query.Returning(query.Node()))},
	{"mixed-node-and-rel-refs", bld(false, query.Where(query.And(query.Kind(query.Node(), kN1), query.Kind(query.Relationship(), kE1))), query.Returning(query.Node()))},
	{"unknown-kind", bld(false, query.Where(query.Kind(query.Node(), graph.StringKind("NoSuchKind"))), query.Returning(query.Node()))},
	{"raw-where-without-pattern", func() (*cypher.RegularQuery, error) {
		return query.SinglePartQuery(query.Where(query.Equals(query.NodeProperty("name"), "x")), query.Returning(query.Node())), nil
	}},
	{"raw-empty", func() (*cypher.RegularQuery, error) { return query.EmptySinglePartQuery(), nil }},
	{"raw-invalid-criteria", func() (*cypher.RegularQuery, error) { return query.SinglePartQuery(query.Node()), nil }},
	{"size-and-less-than", bld(false, query.Where(query.LessThan(query.Size(query.NodeProperty("arr")), 3)), query.Returning(query.Node()))},
}

// ---------------------------------------------------------------- hand-assembled model values with nil optionals

type c05HandCase struct {
	name  string
	build func() *cypher.RegularQuery
}

func handMatchReturn(mod func(m *cypher.Match, ret *cypher.Return, sp *cypher.SinglePartQuery)) func() *cypher.RegularQuery {
	return func() *cypher.RegularQuery {
		q, sp := cypher.NewRegularQueryWithSingleQuery()
		rc := cypher.NewReadingClause()
		m := cypher.NewMatch(false)
		pp := cypher.NewPatternPart()
		pp.AddPatternElements(&cypher.NodePattern{Variable: cypher.NewVariableWithSymbol("n")})
		m.Pattern = []*cypher.PatternPart{pp}
		rc.Match = m
		sp.AddReadingClause(rc)
		ret := cypher.NewReturn()
		ret.Projection = cypher.NewProjection(false)
		ret.Projection.Items = []cypher.Expression{cypher.NewProjectionItemWithExpr(cypher.NewVariableWithSymbol("n"))}
		sp.Return = ret
		if mod != nil {
			mod(m, ret, sp)
		}
		return q
	}
}

var c05Hand = []c05HandCase{
	{"plain", handMatchReturn(nil)},
	{"nil-where", handMatchReturn(func(m *cypher.Match, _ *cypher.Return, _ *cypher.SinglePartQuery) { m.Where = nil })},
	{"empty-where", handMatchReturn(func(m *cypher.Match, _ *cypher.Return, _ *cypher.SinglePartQuery) { m.Where = cypher.NewWhere() })},
	{"nil-projection", handMatchReturn(func(_ *cypher.Match, r *cypher.Return, _ *cypher.SinglePartQuery) { r.Projection = nil })},
	{"empty-projection-items", handMatchReturn(func(_ *cypher.Match, r *cypher.Return, _ *cypher.SinglePartQuery) { r.Projection.Items = nil })},
	{"nil-return", handMatchReturn(func(_ *cypher.Match, _ *cypher.Return, sp *cypher.SinglePartQuery) { sp.Return = nil })},
	{"nil-pattern", handMatchReturn(func(m *cypher.Match, _ *cypher.Return, _ *cypher.SinglePartQuery) { m.Pattern = nil })},
	{"empty-pattern-part", handMatchReturn(func(m *cypher.Match, _ *cypher.Return, _ *cypher.SinglePartQuery) {
		m.Pattern = []*cypher.PatternPart{cypher.NewPatternPart()}
	})},
	{"nil-pattern-part", handMatchReturn(func(m *cypher.Match, _ *cypher.Return, _ *cypher.SinglePartQuery) {
		m.Pattern = []*cypher.PatternPart{nil}
	})},
	{"anonymous-node", handMatchReturn(func(m *cypher.Match, r *cypher.Return, _ *cypher.SinglePartQuery) {
		m.Pattern[0].PatternElements = nil
		m.Pattern[0].AddPatternElements(&cypher.NodePattern{})
		r.Projection.Items = []cypher.Expression{cypher.NewProjectionItemWithExpr(cypher.NewLiteral(1, false))}
	})},
	{"empty-variable-symbol", handMatchReturn(func(m *cypher.Match, _ *cypher.Return, _ *cypher.SinglePartQuery) {
		m.Pattern[0].PatternElements = nil
		m.Pattern[0].AddPatternElements(&cypher.NodePattern{Variable: cypher.NewVariable()})
	})},
	{"nil-projection-item", handMatchReturn(func(_ *cypher.Match, r *cypher.Return, _ *cypher.SinglePartQuery) {
		r.Projection.Items = []cypher.Expression{nil}
	})},
	{"projection-item-without-expression", handMatchReturn(func(_ *cypher.Match, r *cypher.Return, _ *cypher.SinglePartQuery) {
		r.Projection.Items = []cypher.Expression{cypher.NewProjectionItem()}
	})},
	{"order-without-items", handMatchReturn(func(_ *cypher.Match, r *cypher.Return, _ *cypher.SinglePartQuery) {
		r.Projection.Order = &cypher.Order{}
	})},
	{"limit-nil-value", handMatchReturn(func(_ *cypher.Match, r *cypher.Return, _ *cypher.SinglePartQuery) {
		r.Projection.Limit = &cypher.Limit{}
	})},
	{"skip-nil-value", handMatchReturn(func(_ *cypher.Match, r *cypher.Return, _ *cypher.SinglePartQuery) { r.Projection.Skip = &cypher.Skip{} })},
	{"parameter-without-symbol", handMatchReturn(func(m *cypher.Match, _ *cypher.Return, _ *cypher.SinglePartQuery) {
		w := cypher.NewWhere()
		w.Add(cypher.NewComparison(cypher.NewPropertyLookup("n", "name"), cypher.OperatorEquals, cypher.NewParameter("", "x")))
		m.Where = w
	})},
	{"parameter-nil-value", handMatchReturn(func(m *cypher.Match, _ *cypher.Return, _ *cypher.SinglePartQuery) {
		w := cypher.NewWhere()
		w.Add(cypher.NewComparison(cypher.NewPropertyLookup("n", "name"), cypher.OperatorEquals, cypher.NewParameter("p", nil)))
		m.Where = w
	})},
	{"comparison-without-partials", handMatchReturn(func(m *cypher.Match, _ *cypher.Return, _ *cypher.SinglePartQuery) {
		w := cypher.NewWhere()
		w.Add(&cypher.Comparison{Left: cypher.NewPropertyLookup("n", "name")})
		m.Where = w
	})},
	{"comparison-nil-left", handMatchReturn(func(m *cypher.Match, _ *cypher.Return, _ *cypher.SinglePartQuery) {
		w := cypher.NewWhere()
		w.Add(cypher.NewComparison(nil, cypher.OperatorEquals, cypher.NewLiteral(1, false)))
		m.Where = w
	})},
	{"property-lookup-nil-atom", handMatchReturn(func(_ *cypher.Match, r *cypher.Return, _ *cypher.SinglePartQuery) {
		r.Projection.Items = []cypher.Expression{cypher.NewProjectionItemWithExpr(&cypher.PropertyLookup{Symbol: "name"})}
	})},
	{"function-without-arguments", handMatchReturn(func(_ *cypher.Match, r *cypher.Return, _ *cypher.SinglePartQuery) {
		r.Projection.Items = []cypher.Expression{cypher.NewProjectionItemWithExpr(cypher.NewSimpleFunctionInvocation("count"))}
	})},
	{"unknown-function", handMatchReturn(func(_ *cypher.Match, r *cypher.Return, _ *cypher.SinglePartQuery) {
		r.Projection.Items = []cypher.Expression{cypher.NewProjectionItemWithExpr(cypher.NewSimpleFunctionInvocation("nosuchfn", cypher.NewVariableWithSymbol("n")))}
	})},
	{"literal-of-odd-type", handMatchReturn(func(_ *cypher.Match, r *cypher.Return, _ *cypher.SinglePartQuery) {
		r.Projection.Items = []cypher.Expression{cypher.NewProjectionItemWithExpr(cypher.NewLiteral(struct{ A int }{1}, false))}
	})},
	{"relationship-without-nodes", handMatchReturn(func(m *cypher.Match, _ *cypher.Return, _ *cypher.SinglePartQuery) {
		m.Pattern[0].PatternElements = nil
		m.Pattern[0].AddPatternElements(&cypher.RelationshipPattern{Variable: cypher.NewVariableWithSymbol("r"), Direction: graph.DirectionOutbound})
	})},
	{"two-nodes-without-relationship", handMatchReturn(func(m *cypher.Match, _ *cypher.Return, _ *cypher.SinglePartQuery) {
		m.Pattern[0].AddPatternElements(&cypher.NodePattern{Variable: cypher.NewVariableWithSymbol("m")})
	})},
	{"nil-single-query", func() *cypher.RegularQuery { return &cypher.RegularQuery{} }},
	{"single-query-without-parts", func() *cypher.RegularQuery { return &cypher.RegularQuery{SingleQuery: &cypher.SingleQuery{}} }},
	{"multipart-without-parts", func() *cypher.RegularQuery {
		return &cypher.RegularQuery{SingleQuery: &cypher.SingleQuery{MultiPartQuery: cypher.NewMultiPartQuery()}}
	}},
	{"reading-clause-without-match-or-unwind", func() *cypher.RegularQuery {
		q, sp := cypher.NewRegularQueryWithSingleQuery()
		sp.AddReadingClause(cypher.NewReadingClause())
		return q
	}},
	{"unwind-nil-expression", func() *cypher.RegularQuery {
		q, sp := cypher.NewRegularQueryWithSingleQuery()
		rc := cypher.NewReadingClause()
		rc.Unwind = &cypher.Unwind{Variable: cypher.NewVariableWithSymbol("x")}
		sp.AddReadingClause(rc)
		ret := cypher.NewReturn()
		ret.Projection = cypher.NewProjection(false)
		ret.Projection.Items = []cypher.Expression{cypher.NewProjectionItemWithExpr(cypher.NewVariableWithSymbol("x"))}
		sp.Return = ret
		return q
	}},
	{"nil-query", func() *cypher.RegularQuery { return nil }},
}

// ---------------------------------------------------------------- parameter-shape cases

type c05ParamCase struct {
	name   string
	query  string
	params func() map[string]any
}

// harness/c05params.go: per generated value case, the check that the declared dynamic type / form is what the value is
var c05ParamMeta = map[string]struct {
	check func() string
	ptype string
}{}

var c05ParamCases = []c05ParamCase{
	{"nested-map-with-nil-slice", "MATCH (n) WHERE n.name = $p RETURN n", func() map[string]any {
		return map[string]any{"p": map[string]any{"a": []string(nil), "b": 1}}
	}},
	{"nested-map-deep", "MATCH (n) WHERE n.name = $p RETURN n", func() map[string]any {
		return map[string]any{"p": map[string]any{"a": map[string]any{"b": []int64(nil)}}}
	}},
	{"slices", "MATCH (n) WHERE n.name IN $p AND id(n) IN $ids RETURN n", func() map[string]any {
		return map[string]any{"p": []string{"b", "a"}, "ids": []int64{3, 1, 2}}
	}},
	{"graph-ids", "MATCH (n) WHERE id(n) IN $ids RETURN n", func() map[string]any {
		return map[string]any{"ids": []graph.ID{3, 1}, "unused": graph.ID(9)}
	}},
	{"nil-map", "MATCH (n) WHERE n.name = $p RETURN n", func() map[string]any { return nil }},
	{"nil-value-and-extra-keys", "MATCH (n) WHERE n.name = $p RETURN n LIMIT $l", func() map[string]any {
		return map[string]any{"p": nil, "l": 5, "extra": []any{1, "x", nil}}
	}},
	{"time-and-float", "MATCH (n) WHERE n.t < $t AND n.f > $f RETURN n", func() map[string]any {
		return map[string]any{"t": time.Unix(1700000000, 0).UTC(), "f": 1.5}
	}},
	{"any-slice-mixed", "MATCH (n) WHERE n.name IN $p RETURN n", func() map[string]any {
		return map[string]any{"p": []any{"a", 1}}
	}},
	{"create-with-map-parameter", "CREATE (n:NodeKind1 $props) RETURN n", func() map[string]any {
		return map[string]any{"props": map[string]any{"name": "x", "tags": []string(nil)}}
	}},
	// parameter VALUES of library types: they belong to the caller too (nil vs empty is part of the comparison)
	{"properties-fresh-nil-map", "MATCH (n $props) RETURN n", func() map[string]any {
		return map[string]any{"props": graph.NewProperties()}
	}},
	{"properties-fresh-nil-map-create", "CREATE (n:NodeKind1 $props) RETURN n", func() map[string]any {
		return map[string]any{"props": &graph.Properties{}}
	}},
	{"properties-with-values-nil-tracking", "MATCH (n $props) RETURN n", func() map[string]any {
		return map[string]any{"props": &graph.Properties{Map: map[string]any{"name": "x", "tags": []string(nil), "n": 1}}}
	}},
	{"properties-set-and-deleted", "MATCH (n) WHERE n.name = $name SET n += $props RETURN n", func() map[string]any {
		p := graph.NewProperties()
		p.Set("a", 1)
		p.Set("b", "two")
		p.Delete("c")
		return map[string]any{"props": p, "name": "x"}
	}},
	{"properties-nil-pointer", "MATCH (n $props) RETURN n", func() map[string]any {
		return map[string]any{"props": (*graph.Properties)(nil)}
	}},
	{"kinds-and-ids", "MATCH (n) WHERE id(n) IN $ids AND n.kinds = $kinds RETURN n", func() map[string]any {
		return map[string]any{"ids": []graph.ID(nil), "kinds": graph.Kinds{graph.StringKind("NodeKind1")}, "one": graph.ID(1)}
	}},
	{"time-pointers-and-slices", "MATCH (n) WHERE n.t < $t AND n.name IN $names RETURN n", func() map[string]any {
		t := time.Unix(1700000000, 0).UTC()
		return map[string]any{"t": &t, "names": []string{}, "empty": []any{}, "nilslice": []any(nil), "nested": map[string]any{"m": map[string]any(nil), "s": []int64{}}}
	}},
}

// keys that differ only in case (ASCII and Unicode case pairs) in every map position, values as PARAMETERS so that the
// order in which the items are walked shows in the parameter numbering
var c05CaseKeyShapes = []string{
	"MATCH (n {name: $lower, Name: $upper}) RETURN n",
	"MATCH (n:NodeKind1 {name: $a, NAME: $b, Name: $c, nAmE: $d}) RETURN n",
	"MATCH (a)-[r:EdgeKind1 {weight: $a, Weight: $b}]->(b {id: $c, ID: $d, Id: $e}) RETURN r",
	"MATCH (n) WHERE n.name = $n SET n += {value: $a, Value: $b, VALUE: $c} RETURN n",
	"CREATE (n:NodeKind1 {name: $a, Name: $b, kind: $c, KIND: $d}) RETURN n",
	"CREATE (a:NodeKind1 {k: $a, K: $b})-[:EdgeKind1 {w: $c, W: $d}]->(b:NodeKind2 {k: $e, K: $f}) RETURN a",
	"MATCH (n {straße: $a, STRASSE: $b, Straße: $c}) RETURN n",
	"MATCH (n {ǆ: $a, ǅ: $b, Ǆ: $c}) RETURN n",
	"MATCH (n {é: $a, É: $b, σ: $c, Σ: $d, ς: $e}) RETURN n",
	"MATCH (n {name: 'a', Name: 'b', NAME: 'c'}) RETURN n",
	"MATCH p = (a {x: $a, X: $b})-[:EdgeKind1*1..2 {y: $c, Y: $d}]->(b) RETURN p",
	"MATCH (n {a: $p1, A: $p2, b: $p3, B: $p4, c: $p5, C: $p6}) RETURN n",
}

func genCaseKeyQuery(rng *Rng) string {
	bases := []string{"name", "value", "objectid", "k", "é", "straße", "σ"}
	variant := func(b string, i int) string {
		switch i % 3 {
		case 0:
			return b
		case 1:
			return strings.ToUpper(b)
		default:
			r := []rune(b)
			return strings.ToUpper(string(r[:1])) + string(r[1:])
		}
	}
	np := 0
	mapOf := func() string {
		b := Pick(rng, bases)
		n := 2 + rng.Intn(2)
		var items []string
		for i := 0; i < n; i++ {
			k := variant(b, i)
			if k == b && i > 0 {
				k = b + "_"
			}
			np++
			items = append(items, fmt.Sprintf("%s: $p%d", k, np))
		}
		if rng.Chance(1, 2) {
			np++
			items = append(items, fmt.Sprintf("%s: $p%d", Pick(rng, xlGenProps), np))
		}
		for i := len(items) - 1; i > 0; i-- {
			j := rng.Intn(i + 1)
			items[i], items[j] = items[j], items[i]
		}
		return "{" + strings.Join(items, ", ") + "}"
	}
	switch rng.Intn(5) {
	case 0:
		return "MATCH (n " + mapOf() + ") RETURN n"
	case 1:
		return "MATCH (a " + mapOf() + ")-[r:EdgeKind1 " + mapOf() + "]->(b) RETURN a, r"
	case 2:
		return "MATCH (n) WHERE id(n) = 1 SET n += " + mapOf() + " RETURN n"
	case 3:
		return "CREATE (n:NodeKind1 " + mapOf() + ") RETURN n"
	default:
		return "MATCH (a:NodeKind1 " + mapOf() + ") MATCH (a)-[:EdgeKind1*1..]->(b " + mapOf() + ") RETURN b"
	}
}

// ---------------------------------------------------------------- queries with several path variables

// Two or three bound paths, each referenced only through nodes(p) / relationships(p) / size(nodes(p)) in RETURN and
// in the tail WHERE: the translator stages every referenced path into its own lateral sub-select, in an order that must
// not depend on map iteration.
var c05PathShapes = []string{
	"MATCH p = (a)-[:EdgeKind1]->(b), q = (b)-[:EdgeKind2]->(c) RETURN nodes(p), relationships(p), nodes(q), relationships(q)",
	"MATCH p1 = (a)-[:EdgeKind1*1..2]->(b), p2 = (c)-[:EdgeKind2*1..2]->(d) RETURN nodes(p1), relationships(p1), nodes(p2), relationships(p2)",
	"MATCH p = (a)-[:EdgeKind1]->(b), q = (c)-[:EdgeKind2]->(d) WHERE size(nodes(p)) = size(nodes(q)) RETURN a, c",
	"MATCH p = (a)-[:EdgeKind1]->(b), q = (c)-[:EdgeKind2]->(d) WHERE size(nodes(p)) > 1 AND size(relationships(q)) > 0 RETURN a",
	"MATCH p = (a)-[r1:EdgeKind1]->(b) MATCH q = (c)-[r2:EdgeKind2]->(d) RETURN nodes(p), relationships(p), nodes(q), relationships(q)",
	"MATCH p = (a)-[:EdgeKind1]->(b), q = (b)-[:EdgeKind2]->(c), t = (c)-[:EdgeKind1]->(d) WHERE size(nodes(t)) > 0 RETURN size(nodes(p)) + size(relationships(p)), relationships(q), nodes(q), nodes(t)",
	"MATCH p = (a)-[:EdgeKind1*1..]->(b) MATCH q = (b)-[:EdgeKind2*1..]->(c) WITH p, q WHERE size(relationships(p)) > 1 AND size(nodes(q)) > 1 RETURN nodes(q), nodes(p)",
	"MATCH p = (a:NodeKind1)-[:EdgeKind1]->(b) MATCH q = (b)-[:EdgeKind2]->(c:NodeKind2) RETURN size(relationships(p)) + size(relationships(q)) AS hops, nodes(p), nodes(q)",
	"MATCH p = (a)-[:EdgeKind1]->(b), q = (b)-[:EdgeKind2]->(c) WHERE size(nodes(q)) = 2 RETURN relationships(p), nodes(p) ORDER BY size(nodes(p))",
	"MATCH p = (a)-[:EdgeKind1]->(b), q = (b)-[:EdgeKind2]->(c) RETURN nodes(p), relationships(q)",
}

// shapes aimed at the partial operations of translate/ that no guard protects (see unguardedPartialSites): coalesce
// argument popping, quantifiers over path components in every polarity, bound-endpoint seed rewriting with function
// calls / array expressions / casts in the endpoint constraint, kind arrays in CREATE / SET / REMOVE, pattern predicates.
var c05TotalityShapes = []string{
	"MATCH (n) RETURN coalesce(n.a, n.b, 'x')",
	"MATCH (n) WHERE coalesce(n.a, n.b) = 'x' RETURN n",
	"MATCH p = (a)-[:EdgeKind1*1..]->(b) WHERE none(r IN relationships(p) WHERE r.enabled = true) RETURN p",
	"MATCH p = (a)-[:EdgeKind1*1..]->(b) WHERE all(r IN relationships(p) WHERE r.enabled = true) RETURN p",
	"MATCH p = (a)-[:EdgeKind1*1..]->(b) WHERE any(r IN relationships(p) WHERE r.enabled = true) RETURN p",
	"MATCH p = (a)-[:EdgeKind1*1..]->(b) WHERE single(r IN relationships(p) WHERE r.enabled = true) RETURN p",
	"MATCH p = (a)-[:EdgeKind1*1..]->(b) WHERE none(x IN nodes(p) WHERE x.name = 'a') RETURN p",
	"MATCH (a:NodeKind1) WHERE a.name = 'x' MATCH (a)-[:EdgeKind1*1..]->(b:NodeKind2) WHERE toLower(b.name) = 'y' AND b.arr[0] = 1 RETURN b",
	"MATCH (a:NodeKind1) WHERE a.name = 'x' MATCH (a)-[:EdgeKind1*1..]->(b) WHERE b.name IN ['a', 'b'] AND size(b.arr) > 1 AND toString(b.value) = '1' RETURN b",
	"MATCH (a:NodeKind1) WHERE id(a) IN [1, 2] MATCH (a)<-[:EdgeKind1*1..3]-(b) WHERE coalesce(b.name, 'z') = 'z' AND b.arr[0..1] = ['a'] RETURN b",
	"MATCH (a) WHERE a.name = 'x' MATCH p = shortestPath((a)-[:EdgeKind1*1..]->(b:NodeKind2)) WHERE any(t IN b.arr WHERE t = 'x') RETURN p",
	"MATCH (n:NodeKind1) WHERE (n)-[:EdgeKind1]->(:NodeKind2) AND NOT (n)<-[:EdgeKind2]-() RETURN n",
	"MATCH (n) WHERE id(n) = 1 SET n:NodeKind1:NodeKind2 REMOVE n:NodeKind1 RETURN n",
	"CREATE (a:NodeKind1:NodeKind2 {name: 'x'})-[:EdgeKind1 {w: 1}]->(b:NodeKind2) RETURN a, b",
	"MATCH (a)-[r:EdgeKind1]->(b)-[q:EdgeKind2*1..2]->(c)-[t:EdgeKind1]->(d) WHERE r <> t RETURN a, d",
	"MATCH (n) WHERE n.name IN ['a', 'b'] OR n.arr = [] OR n.value IN [1, 2.5] RETURN n",
}

func genPathShapeQuery(rng *Rng) string {
	n := 2 + rng.Intn(2)
	names := []string{"p", "q", "t"}
	var pats []string
	node := 0
	nv := func() string { node++; return fmt.Sprintf("v%d", node) }
	for i := 0; i < n; i++ {
		a := nv()
		if i > 0 && rng.Chance(1, 2) {
			a = fmt.Sprintf("v%d", node-1) // chain onto the previous path's end node
		}
		rel := "[:" + Pick(rng, genEdgeKinds) + Pick(rng, []string{"", "", "*1..2", "*1.."}) + "]"
		pats = append(pats, fmt.Sprintf("%s = (%s%s)-%s->(%s)", names[i], a, Pick(rng, []string{"", ":NodeKind1", ":User"}), rel, nv()))
	}
	ref := func(p string) string {
		return Pick(rng, []string{"nodes(" + p + ")", "relationships(" + p + ")", "size(nodes(" + p + "))", "size(relationships(" + p + "))"})
	}
	var b strings.Builder
	if rng.Chance(1, 2) {
		b.WriteString("MATCH " + strings.Join(pats, ", "))
	} else {
		for _, p := range pats {
			b.WriteString("MATCH " + p + " ")
		}
	}
	order := rng.Intn(n)
	if rng.Chance(1, 2) {
		p := names[(order+1)%n]
		b.WriteString(" WHERE size(" + Pick(rng, []string{"nodes", "relationships"}) + "(" + p + ")) > " + fmt.Sprint(rng.Intn(3)))
	}
	if rng.Chance(1, 3) {
		b.WriteString(" WITH " + strings.Join(names[:n], ", ") + " WHERE size(nodes(" + names[order] + ")) > 0")
	}
	// every path is referenced at least twice through its components (once is translated inline, not staged)
	var items []string
	for i := 0; i < n; i++ {
		p := names[(order+i)%n]
		items = append(items, ref(p), ref(p))
		if rng.Chance(1, 4) {
			items = append(items, ref(p))
		}
	}
	if rng.Chance(1, 4) {
		// references only in the tail WHERE
		var conds []string
		for i := 0; i < n; i++ {
			conds = append(conds, "size("+Pick(rng, []string{"nodes", "relationships"})+"("+names[(order+i)%n]+")) > "+fmt.Sprint(rng.Intn(2)))
		}
		return strings.Join(strings.Fields(b.String()+" WITH "+strings.Join(names[:n], ", ")+" WHERE "+strings.Join(conds, " AND ")+" RETURN 1 AS one"), " ")
	}
	b.WriteString(" RETURN " + strings.Join(items, ", "))
	return strings.Join(strings.Fields(b.String()), " ")
}

// ---------------------------------------------------------------- kind mapper contract: every kind exactly one id

// c05KindMapperContract: 16 goroutines translate the SAME CREATE naming kinds nobody has registered yet against ONE
// mapper. All translations must agree byte for byte; afterwards the mapper's table must map every kind to exactly one
// id and every id to one kind, ids dense. Every third case is the single-threaded repeated label `(n:New:New)`.
func c05KindMapperContract(i int) string {
	mapper := newHarnessKindMapper()
	base := len(mapper.KindToID)
	a, b := fmt.Sprintf("FreshKind%dA", i), fmt.Sprintf("FreshKind%dB", i)
	var text string
	goroutines := c05Concurrent
	parseRace := false
	switch i % 8 {
	case 0:
		text = fmt.Sprintf("CREATE (n:%s) RETURN n", a)
	case 1:
		text = fmt.Sprintf("CREATE (n:%s:%s)-[:%sE]->(m:%s) RETURN n", a, b, a, a)
	case 2:
		text = fmt.Sprintf("CREATE (n:%s:%s) RETURN n", a, a)
		goroutines = 1
	// already registered and fresh kinds mixed, in every order: the ids must come back in the order of the labels
	case 3:
		text = fmt.Sprintf("CREATE (n:%s:NodeKind1) RETURN n", a)
	case 4:
		text = fmt.Sprintf("CREATE (n:NodeKind1:%s:NodeKind2:%s) RETURN n", a, b)
	case 5:
		text = fmt.Sprintf("CREATE (n:%s:User:%s)-[:EdgeKind1]->(m:Group:%s:Computer) RETURN n", b, a, a)
	// kind names that NOTHING has seen yet, not even the parser: every goroutine parses the text itself behind the
	// barrier, so the first use (interning by graph.StringKind) of the name happens concurrently
	case 6:
		text, parseRace = fmt.Sprintf("CREATE (n:%s {name: 'x'}) RETURN n", a), true
	default:
		text, parseRace = fmt.Sprintf("CREATE (n:%s:%s)-[:%sE]->(m:%s) RETURN n", a, b, b, b), true
	}
	translate := func() c05Outcome {
		m, err, pp := parseQuery(text)
		if err != nil || pp != "" {
			return c05Outcome{xlOutcome: xlOutcome{Status: "err", Msg: "parse"}}
		}
		return c05Translate(m, mapper, nil)
	}
	// first call (registers), a sequential repeat, then the concurrent batch: all byte-equal.
	// parse-race cases have no sequential prelude: goroutine 0's answer is the reference.
	var first c05Outcome
	var outs []c05Outcome
	if !parseRace {
		first = translate()
		outs = []c05Outcome{translate()}
	}
	conc := make([]c05Outcome, goroutines)
	var wg sync.WaitGroup
	start := make(chan struct{})
	for g := 0; g < goroutines; g++ {
		wg.Add(1)
		go func(g int) {
			defer wg.Done()
			<-start
			conc[g] = translate()
		}(g)
	}
	close(start)
	wg.Wait()
	if parseRace {
		first, conc = conc[0], conc[1:]
		// the window between "name not interned yet" and "name interned" is a few instructions wide: repeat with fresh
		// names, short texts and a barrier per round so that the sixteen first uses fall together
		for round := 0; round < 48 && first.Status == "ok"; round++ {
			name := fmt.Sprintf("FreshKind%dR%d", i, round)
			short := fmt.Sprintf("CREATE (n:%s) RETURN n", name)
			res := make([]c05Outcome, goroutines)
			var wg2 sync.WaitGroup
			gate := make(chan struct{})
			for g := 0; g < goroutines; g++ {
				wg2.Add(1)
				go func(g int) {
					defer wg2.Done()
					<-gate
					if m, err, pp := parseQuery(short); err == nil && pp == "" {
						res[g] = c05Translate(m, mapper, nil)
					}
				}(g)
			}
			close(gate)
			wg2.Wait()
			for g := 1; g < goroutines; g++ {
				if res[g].key() != res[0].key() {
					text = short
					first = res[0]
					conc = append(conc, res[g])
				}
			}
		}
	}
	outs = append(outs, conc...)
	cls, detail := "ok", ""
	for g, o := range outs {
		if o.key() != first.key() {
			cls, detail = "kindmapper-contract", fmt.Sprintf("call %d disagrees with the first call: %s", g+2, firstTextDiff(first.key(), o.key()))
			break
		}
	}
	// the table: one id per kind, one kind per id, ids dense 1..n
	consistent := true
	n := len(mapper.KindToID)
	maxID := int16(0)
	for id := range mapper.IDToKind {
		if id > maxID {
			maxID = id
		}
	}
	switch {
	case len(mapper.IDToKind) != n:
		consistent, cls, detail = false, "kindmapper-contract", fmt.Sprintf("%d kinds but %d ids: a kind was registered more than once", n, len(mapper.IDToKind))
	case int(maxID) != n:
		consistent, cls, detail = false, "kindmapper-contract", fmt.Sprintf("ids are not dense: %d kinds, highest id %d", n, maxID)
	case first.Status == "ok" && n == base:
		consistent, cls, detail = false, "kindmapper-contract", "CREATE with fresh kinds registered nothing"
	}
	for kind, id := range mapper.KindToID {
		if back, ok := mapper.IDToKind[id]; !ok || !back.Is(kind) {
			consistent, cls, detail = false, "kindmapper-contract", fmt.Sprintf("kind %s has id %d but that id belongs to %v", kind, id, back)
		}
	}
	// one id per kind NAME: the tables are keyed by graph.Kind identity, two handles of one name would hide here
	byName := map[string][]int16{}
	for kind, id := range mapper.KindToID {
		byName[kind.String()] = append(byName[kind.String()], id)
	}
	for id, kind := range mapper.IDToKind {
		found := false
		for _, x := range byName[kind.String()] {
			found = found || x == id
		}
		if !found {
			byName[kind.String()] = append(byName[kind.String()], id)
		}
	}
	for name, ids := range byName {
		if len(ids) > 1 {
			consistent, cls, detail = false, "kindmapper-contract", fmt.Sprintf("kind name %s has %d ids %v: two handles of one name were registered separately", name, len(ids), ids)
		}
	}
	if cls == "kindmapper-contract" && consistent {
		// the table is right, only the ORDER of the returned ids differs between the registering call and later calls
		cls = "kindmapper-id-order"
	}
	return fmt.Sprintf("cls=%s st=%s site=InMemoryKindMapper.AssertKinds runs=%d ms=0 label=kindmapper:%s min=%s detail=%s",
		cls, first.Status, len(outs)+1, strings.ReplaceAll(text, " ", "_"), jsonQuote(text), jsonQuote(detail))
}

// ---------------------------------------------------------------- kind mapper race probe (child process)

// c05KindMapperRace runs the racy workload in a child so that Go's unrecoverable "concurrent map writes" fatal
// error (or the race detector's report) cannot take the harness down.
func c05KindMapperRace() string {
	exe, err := os.Executable()
	if err != nil {
		return "cls=kmrace-unavailable st=- site=- runs=0 ms=0 min=\"\" detail=" + jsonQuote(err.Error())
	}
	dir, _ := os.MkdirTemp("", "c05km")
	defer os.RemoveAll(dir)
	ops := dir + "/ops"
	_ = os.WriteFile(ops, []byte("# case 1\nrace\n"), 0o644)
	cmd := exec.Command(exe, "c05km", "run", "-ops", ops, "-out", dir+"/out")
	out, err := cmd.CombinedOutput()
	text := string(out)
	cls, detail := "kmrace-clean", ""
	switch {
	case strings.Contains(text, "concurrent map"):
		cls = "kindmapper-race"
		detail = "fatal error: " + text[strings.Index(text, "concurrent map"):][:min(60, len(text)-strings.Index(text, "concurrent map"))]
	case strings.Contains(text, "DATA RACE"):
		cls, detail = "kindmapper-race", "race detector: DATA RACE in InMemoryKindMapper"
	case err != nil:
		cls, detail = "kindmapper-race", "child died: "+err.Error()
	default:
		if b, e := os.ReadFile(dir + "/out"); e == nil && strings.Contains(string(b), "inconsistent") {
			cls, detail = "kindmapper-race", strings.TrimSpace(string(b))
		}
	}
	detail = strings.ReplaceAll(detail, "\n", " ")
	return fmt.Sprintf("cls=%s st=- site=InMemoryKindMapper.Put runs=1 ms=0 label=kmrace min=\"\" detail=%s", cls, jsonQuote(detail))
}

type c05kmSuite struct{}

func (c05kmSuite) Gen(*Rng, string, *bufio.Writer, *Stats) {}
func (c05kmSuite) NewRunner(*Stats) Runner                 { return c05kmRunner{} }

type c05kmRunner struct{}

// Step: 16 goroutines translate CREATE statements with kinds nobody has registered yet against ONE mapper.
func (c05kmRunner) Step(t []string, raw string) string {
	mapper := newHarnessKindMapper()
	var wg sync.WaitGroup
	start := make(chan struct{})
	for g := 0; g < 16; g++ {
		wg.Add(1)
		go func(g int) {
			defer wg.Done()
			<-start
			for i := 0; i < 400; i++ {
				m, err, _ := parseQuery(fmt.Sprintf("CREATE (n:RaceKind_%d_%d) RETURN n", g, i))
				if err != nil {
					continue
				}
				_ = c05Translate(m, mapper, nil)
			}
		}(g)
	}
	close(start)
	wg.Wait()
	// every kind must have exactly one id and every id one kind
	if len(mapper.KindToID) != len(mapper.IDToKind) {
		return fmt.Sprintf("inconsistent kinds=%d ids=%d", len(mapper.KindToID), len(mapper.IDToKind))
	}
	return "consistent"
}
