package main

import (
	"bufio"
	"expvar"
	"fmt"
	"sort"
	"strings"

	_ "github.com/specterops/dawgs/drivers/neo4j" // its verif-tagged init publishes the statement builders (hooks/C12.patch)
	"github.com/specterops/dawgs/graph"
)

// C12 batches: several nodes with DIFFERENT kind deltas in one flush of the neo4j batch paths
// (cypherBuildNodeUpdateQueryBatch for batch.UpdateNodes, cypherBuildNodeUpdateQueryByBatch for batch.UpdateNodeBy).
// The builders are unexported; they are reached through the verif-tagged hook drivers/neo4j/verif_c12.go
// (hooks/C12.patch), looked up by name so that this file builds with and without it. Without the hook the suite
// generates no cases and reports info.hook_missing.
//
//	key old|framed                      which batching keys the MODEL uses (the implementation is what it is)
//	node <id> <added> <removed>         a node whose AddedKinds / DeletedKinds are the given names (`-` = none)
//	flush                               -> s=<n> | add=<kinds> rem=<kinds> ids=<ids> | …   statements sorted by first id
//	bynode <oid> <kinds> <removed>      a graph.NodeUpdate with identity kind Base, identity property oid=<oid>
//	byflush                             -> same shape; ids are the oid values

// c12BatchKey: the keys the model is asked to use: "old" = /repo as it is (ae91177); "framed" once hooks/C12-fix3.patch is
// committed (lib/c12_flip3.py).
var c12BatchKey = "framed"

type c12BatchSuite struct{}

func init() { register("c12batch", c12BatchSuite{}) }

type c12NodeBatchFn = func([]*graph.Node) ([]string, []map[string]any)
type c12NodeByBatchFn = func([]graph.NodeUpdate) ([]string, []map[string]any)

func c12Hook(name string) any {
	v := expvar.Get(name)
	if v == nil {
		return nil
	}
	f, ok := v.(expvar.Func)
	if !ok {
		return nil
	}
	return f()
}

func c12BatchHooks() (c12NodeBatchFn, c12NodeByBatchFn) {
	a, _ := c12Hook("dawgs.verif.c12.neo4jNodeUpdateBatch").(c12NodeBatchFn)
	b, _ := c12Hook("dawgs.verif.c12.neo4jNodeUpdateByBatch").(c12NodeByBatchFn)
	return a, b
}

func (c12BatchSuite) Gen(rng *Rng, tier string, w *bufio.Writer, stats *Stats) {
	if a, b := c12BatchHooks(); a == nil || b == nil {
		stats.Inc("info.hook_missing.drivers_neo4j_verif_c12")
		fmt.Fprintln(w, "# verif hook drivers/neo4j/verif_c12.go (hooks/C12.patch) is not in the repository: nothing generated")
		return
	}
	caseNo := 0
	emit := func(tag string, lines []string) {
		caseNo++
		fmt.Fprintf(w, "# case %d %s\n", caseNo, tag)
		fmt.Fprintf(w, "key %s\n", c12BatchKey)
		for _, l := range lines {
			fmt.Fprintln(w, l)
		}
	}
	// kind deltas (added, removed) — chosen around the points where a key without framing collides
	deltas := [][2]string{{"-", "-"}, {"X", "-"}, {"-", "X"}, {"A", "B,C"}, {"A,B", "C"}, {"AB", "-"}, {"A,B", "-"}, {"B,A", "-"}, {"A", "X"}, {"A", "BC"}, {"AB", "C"}}
	for i, d1 := range deltas {
		for j, d2 := range deltas {
			emit("ex-batch-2", []string{fmt.Sprintf("node 1 %s %s", d1[0], d1[1]), fmt.Sprintf("node 2 %s %s", d2[0], d2[1]), "flush"})
			stats.Inc("exhaustive_cases")
			if tier == "thorough" || (i+j)%3 == 0 {
				for _, d3 := range deltas {
					emit("ex-batch-3", []string{fmt.Sprintf("node 1 %s %s", d1[0], d1[1]), fmt.Sprintf("node 2 %s %s", d2[0], d2[1]),
						fmt.Sprintf("node 3 %s %s", d3[0], d3[1]), "flush"})
					stats.Inc("exhaustive_cases")
				}
			}
		}
	}
	// UpdateNodeBy: (kinds, removed)
	byDeltas := [][2]string{{"A", "-"}, {"A", "B"}, {"A", "C"}, {"A,B", "-"}, {"AB", "-"}, {"B,A", "C"}, {"A", "B,C"}, {"A", "C,B"}}
	for _, d1 := range byDeltas {
		for _, d2 := range byDeltas {
			emit("ex-by-2", []string{fmt.Sprintf("bynode 1 %s %s", d1[0], d1[1]), fmt.Sprintf("bynode 2 %s %s", d2[0], d2[1]), "byflush"})
			stats.Inc("exhaustive_cases")
			for _, d3 := range byDeltas {
				emit("ex-by-3", []string{fmt.Sprintf("bynode 1 %s %s", d1[0], d1[1]), fmt.Sprintf("bynode 2 %s %s", d2[0], d2[1]),
					fmt.Sprintf("bynode 3 %s %s", d3[0], d3[1]), "byflush"})
				stats.Inc("exhaustive_cases")
			}
		}
	}
	names := []string{"A", "B", "C", "X", "AB", "BC", "ABC"}
	pick := func() string {
		var out []string
		for _, n := range names {
			if rng.Chance(1, 4) {
				out = append(out, n)
			}
		}
		if len(out) == 0 {
			return "-"
		}
		for i := len(out) - 1; i > 0; i-- {
			j := rng.Intn(i + 1)
			out[i], out[j] = out[j], out[i]
		}
		return strings.Join(out, ",")
	}
	n := 400
	if tier == "thorough" {
		n = 8000
	}
	for i := 0; i < n; i++ {
		size := 2 + rng.Intn(7)
		var lines []string
		by := rng.Chance(1, 3)
		for k := 1; k <= size; k++ {
			if by {
				kinds := pick()
				if kinds == "-" {
					kinds = "A"
				}
				lines = append(lines, fmt.Sprintf("bynode %d %s %s", k, kinds, pick()))
			} else {
				lines = append(lines, fmt.Sprintf("node %d %s %s", k, pick(), pick()))
			}
		}
		if by {
			lines = append(lines, "byflush")
		} else {
			lines = append(lines, "flush")
		}
		emit("rand-batch", lines)
		stats.Inc("random_cases")
	}
}

type c12BatchRunner struct {
	stats   *Stats
	nodes   []*graph.Node
	updates []graph.NodeUpdate
	oids    []string
}

func (c12BatchSuite) NewRunner(stats *Stats) Runner { return &c12BatchRunner{stats: stats} }

func c12Names(tok string) graph.Kinds {
	if tok == "-" {
		return nil
	}
	var ks graph.Kinds
	for _, n := range strings.Split(tok, ",") {
		ks = append(ks, graph.StringKind(n))
	}
	return ks
}

// c12ParseStatement reads the kinds a generated statement sets and removes.
func c12ParseStatement(q string) (string, string) {
	q = strings.TrimSuffix(strings.TrimSpace(q), ";")
	rem := "-"
	if i := strings.Index(q, " remove "); i >= 0 {
		var rs []string
		for _, r := range strings.Split(q[i+len(" remove "):], ",") {
			rs = append(rs, strings.TrimPrefix(strings.TrimSpace(r), "n:"))
		}
		rem = strings.Join(rs, ",")
		q = q[:i]
	}
	add := "-"
	var as []string
	for _, part := range strings.Split(q, ", n:")[1:] {
		as = append(as, strings.TrimSpace(part))
	}
	if len(as) > 0 {
		add = strings.Join(as, ",")
	}
	return add, rem
}

func c12RenderStatements(qs []string, ids [][]string) string {
	type stmt struct {
		text  string
		first string
	}
	var out []stmt
	for i, q := range qs {
		add, rem := c12ParseStatement(q)
		first := ""
		if len(ids[i]) > 0 {
			first = fmt.Sprintf("%09s", ids[i][0])
		}
		out = append(out, stmt{fmt.Sprintf("add=%s rem=%s ids=%s", add, rem, strings.Join(ids[i], ",")), first})
	}
	sort.Slice(out, func(i, j int) bool { return out[i].first < out[j].first })
	s := fmt.Sprintf("s=%d", len(qs))
	for _, o := range out {
		s += " | " + o.text
	}
	return s
}

func (r *c12BatchRunner) Step(t []string, raw string) string {
	nodeBatch, nodeByBatch := c12BatchHooks()
	switch {
	case len(t) == 2 && t[0] == "key":
		return "ok"
	case len(t) == 4 && t[0] == "node":
		var id int
		if _, err := fmt.Sscanf(t[1], "%d", &id); err != nil {
			return "bad-op"
		}
		n := graph.NewNode(graph.ID(id), graph.NewProperties())
		n.AddedKinds = c12Names(t[2])
		n.DeletedKinds = c12Names(t[3])
		r.nodes = append(r.nodes, n)
		return "ok"
	case len(t) == 4 && t[0] == "bynode":
		props := graph.NewProperties().Set("oid", t[1])
		n := graph.PrepareNode(props, c12Names(t[2])...)
		n.DeletedKinds = c12Names(t[3])
		r.updates = append(r.updates, graph.NodeUpdate{Node: n, IdentityKind: graph.StringKind("Base"), IdentityProperties: []string{"oid"}})
		return "ok"
	case len(t) == 1 && t[0] == "flush":
		if nodeBatch == nil {
			return "hook-missing"
		}
		qs, ps := nodeBatch(r.nodes)
		if len(r.nodes) > 1 && len(qs) < len(r.nodes) {
			r.stats.Inc("branch.batch.shared_statement")
		}
		r.stats.Inc("branch.batch.flush")
		r.nodes = nil
		ids := make([][]string, len(qs))
		for i := range qs {
			for _, p := range ps[i]["p"].([]map[string]any) {
				ids[i] = append(ids[i], fmt.Sprint(p["id"]))
			}
		}
		return c12RenderStatements(qs, ids)
	case len(t) == 1 && t[0] == "byflush":
		if nodeByBatch == nil {
			return "hook-missing"
		}
		qs, ps := nodeByBatch(r.updates)
		if len(r.updates) > 1 && len(qs) < len(r.updates) {
			r.stats.Inc("branch.batch.by_shared_statement")
		}
		r.stats.Inc("branch.batch.byflush")
		r.updates = nil
		ids := make([][]string, len(qs))
		for i := range qs {
			for _, p := range ps[i]["p"].([]map[string]any) {
				ids[i] = append(ids[i], fmt.Sprint(p["oid"]))
			}
		}
		return c12RenderStatements(qs, ids)
	}
	return "bad-op"
}
