package main

import (
	"bufio"
	"context"
	"expvar"
	"fmt"
	"sort"
	"strings"

	"github.com/specterops/dawgs/cypher/frontend"
	"github.com/specterops/dawgs/cypher/models/cypher"
	"github.com/specterops/dawgs/cypher/models/pgsql"
	"github.com/specterops/dawgs/cypher/models/pgsql/optimize"
	"github.com/specterops/dawgs/cypher/models/pgsql/translate"
)

// C02: query optimisation never changes what a translated query returns.
// Op line:  q <json cypher> <gseed> <nrandom> <exN> <exE>
// Answer:   ok km=(…) rules=(list "<applied rule>"…) lowerings=(list "<lowering that changed the SQL>"…)
//              cy=<sexp parsed query> cyopt=<sexp of optimize.Optimize(q).Query>
//              sqlO=<json> stmtO=<sexp optimised: the REAL Translate> sqlU=<json> stmtU=<sexp TranslateUnoptimized>
//              stmtR=<sexp rules only | nil> stmtL=<sexp lowerings only | nil>
//           hook-missing            the verification hook (hooks/C02.patch) is not in the tree under test
//           err <class>
// The unoptimised / partial variants come from the verif-tagged hook translate.TranslateVariant, looked up by name (expvar), so that
// the harness still compiles against a tree without the hook.
type c02Suite struct{}

func init() { register("c02", c02Suite{}) }

type c02Variant = func(ctx context.Context, q *cypher.RegularQuery, km pgsql.KindMapper, params map[string]any, graphID int32, rules, lowerings bool) (translate.Result, error)

func c02Hook() c02Variant {
	v := expvar.Get("dawgs.verif.c02.TranslateVariant")
	if v == nil {
		return nil
	}
	f, ok := v.(expvar.Func)
	if !ok {
		return nil
	}
	h, _ := f().(c02Variant)
	return h
}

// c02Fixed: one query per lowering / rule the optimiser knows, so that every one of them fires at least once per run.
var c02Fixed = []string{
	"match (n) return count(n)",
	"match (n:NodeKind1) return count(n)",
	"match (n:NodeKind1:NodeKind2) return count(n)",
	"match (n:NodeKind2:NodeKind1) return count(*)",
	"match ()-[r:EdgeKind1|EdgeKind2]->() return count(r)",
	"match ()-[r]->() return count(r)",
	"match ()-[r:EdgeKind1]->() return count(*)",
	"match (a)-[r]->(b) return a limit 1",
	"match (a)-[r]->(b) return b limit 2",
	"match (a)-[r]->(b) return count(r) limit 1",
	"match (a)-[r]->(b) where a.name = 'x' return b limit 1",
	"match (a)-[r]->(b) return distinct b limit 1",
	"match (a)-[r]->(b) return b order by id(b) limit 1",
	"match (a)-[r*1..2]->(b) return b limit 1",
	"match (a)-[r]->(b)-[q]->(c) return c limit 1",
	"match p = (a)-[r]->(b) return p",
	"match p = (a)-[*1..2]->(b) return p",
	"match p = (a)-[*1..2]->(b) return length(p)",
	"match p = (a)-[*1..2]->(b) return b",
	"match (a)-[r]->(b) return b",
	"match (a)-[r]->(b) return id(a)",
	"match (a)-[r]->(b)-[q]->(c) return c",
	"match (a)-[r]->(b)-[q]->(c) return r",
	"match (s:NodeKind1)-[:EdgeKind1*0..]->(:NodeKind2)-[:EdgeKind2]->(d:NodeKind2) where d.name = 'y' return s, d",
	"match p = (s:NodeKind1)-[:EdgeKind1*1..]->(:NodeKind2)-[:EdgeKind2]->(d:NodeKind2) where d.name = 'y' return p",
	"match (s)-[:EdgeKind1*1..]->(m)-[:EdgeKind2]->(d) where d.a = 1 return s, m, d",
	"match (a), (b:NodeKind1) where a.name = 'x' return a, b",
	"match (a), (b:NodeKind1 {name: 'x'}) return a, b",
	"match (a)-[r]->(b), (c {name: 'x'}) return a, c",
	"match (a), (b) where b.name = 'x' and a.a = 1 return a, b",
	"match (a)-[r]->(b) where a.name = 'x' and b.a = 1 return a, b",
	"match (a)-[r]->(b) where a.name = 'x' and b.a = 1 and a.a <> b.a return a, b",
	"match (a)-[r:EdgeKind1*2..2]->(b) return a, b",
	"match (a)-[r*2]->(b) return a, b",
	"match (a:NodeKind1)-[r*1..]->(b:NodeKind2) return a, b",
	"match (a)-[r*1..]->(b:NodeKind2 {name: 'y'}) return a, b",
	"match (a {name: 'x'})-[r*1..]->(b) return a, b",
	"match (a)<-[r*1..]-(b {name: 'x'}) return a, b",
	"match (a)-[r]->(b) where (a)-[]->() return b",
	"match (a) where not (a)-[]->() return a",
	"match (a)-[r]->(b) with a, count(b) as c return a, c",
	"match (a:NodeKind1) match (a)-[r:EdgeKind1*1..3]->(b) with a, count(b) as c return a, c",
	"match (a)-[r]->(b) where a.name = 'x' with b match (b)-[q]->(c) return c limit 1",
	"match p = (a)-[r*1..2]->(b) where all(x in relationships(p) where x.w = 1) return b",
	"match p = (a)-[r*1..2]->(b) where none(x in relationships(p) where type(x) = 'EdgeKind2') return b",
}

func (c02Suite) Gen(rng *Rng, tier string, w *bufio.Writer, stats *Stats) {
	n := 0
	nrandom, perLevel := 6, 50
	if tier == "thorough" {
		nrandom, perLevel = 24, 500
	}
	// focused cases take a constant graph seed, so that adding a family does not shift the random stream of the generated queries
	emitFixedSeed := func(tag, q string) {
		n++
		fmt.Fprintf(w, "# case %d %s\nq %s %d %d %d %d\n", n, tag, jsonQuote(q), 7, nrandom, 0, 0)
	}
	emit := func(tag, q string, exN, exE int) {
		n++
		fmt.Fprintf(w, "# case %d %s\nq %s %d %d %d %d\n", n, tag, jsonQuote(q), rng.Intn(1<<20), nrandom, exN, exE)
	}
	for _, q := range c02Fixed {
		emit("fixed", q, 2, 2)
		stats.Inc("fixed")
	}
	for _, fam := range []struct {
		name string
		qs   []string
	}{{"suffix", focusedSuffixShapes()}, {"aggregate", focusedAggregateShapes()}, {"agg-traversal", focusedAggTraversalShapes()},
		{"collect-membership", focusedCollectMembershipShapes()}, {"scope", focusedScopeShapes()}, {"path-predicate", focusedPathPredicateShapes()}, {"string-literal", focusedStringLiteralShapes()},
		{"sort-keyword", focusedSortKeywordShapes()}, {"exact-range", focusedExactRangeShapes()}, {"double-literal", focusedDoubleLiteralShapes()}, {"limit-boundary", focusedLimitBoundaryShapes()}, {"limit-tail-filter", focusedLimitTailFilterShapes()}} {
		for _, q := range fam.qs {
			emitFixedSeed("focused:"+fam.name, q)
			stats.Inc("focused." + fam.name)
		}
	}
	for _, c := range LoadCypherCorpus() {
		if c.Negative || len(c.Params) > 0 {
			continue
		}
		emit("corpus:"+c.Source, c.Query, 0, 0)
		stats.Inc("corpus")
	}
	for level := 1; level <= 5; level++ {
		g := newCyGen(rng, level)
		count := perLevel
		if tier == "thorough" && level >= 4 {
			count = perLevel / 2
		}
		for i := 0; i < count; i++ {
			emit(fmt.Sprintf("gen:L%d", level), g.Query(), 0, 0)
			stats.Inc("generated")
		}
	}
	// the proved fragment of opt_equiv (C01 stages S1 / S2a and the count fragment): drawn LAST, so the stream above is unchanged
	fg := s1Gen{rng: rng}
	nfrag := 40
	if tier == "thorough" {
		nfrag = 400
	}
	for i := 0; i < nfrag; i++ {
		emit("fragment:s1", fg.query(), 0, 0)
		stats.Inc("fragment.s1")
	}
	for i := 0; i < nfrag; i++ {
		emit("fragment:s2b", fg.s2Query(), 0, 0)
		stats.Inc("fragment.s2b")
	}
	for i := 0; i < nfrag/2; i++ {
		emit("fragment:s2c", fg.chainQuery(), 0, 0)
		stats.Inc("fragment.s2c")
	}
	for i := 0; i < nfrag/2; i++ {
		emit("fragment:s1c", fg.countQuery(), 0, 0)
		stats.Inc("fragment.s1c")
	}
	for i := 0; i < nfrag/2; i++ {
		emit("fragment:s2n", fg.countHopQuery(), 0, 0)
		stats.Inc("fragment.s2n")
	}
	for i := 0; i < nfrag/2; i++ {
		emit("fragment:s2l", fg.limitHopQuery(), 0, 0)
		stats.Inc("fragment.s2l")
	}
	for i := 0; i < nfrag/2; i++ {
		emit("fragment:s2cw", fg.chainWhereQuery(), 0, 0)
		stats.Inc("fragment.s2cw")
	}
	for i := 0; i < nfrag/2; i++ {
		emit("fragment:s1o", fg.orderPropQuery(), 0, 0)
		stats.Inc("fragment.s1o")
	}
	for i := 0; i < nfrag/2; i++ {
		emit("fragment:s1d", fg.distinctQuery(), 0, 0)
		stats.Inc("fragment.s1d")
	}
	for i := 0; i < nfrag/2; i++ {
		emit("fragment:s3a", fg.withQuery(), 0, 0)
		stats.Inc("fragment.s3a")
	}
	for i := 0; i < nfrag/2; i++ {
		emit("fragment:s2x", fg.crossHopQuery(), 0, 0)
		stats.Inc("fragment.s2x")
	}
	for i := 0; i < nfrag/2; i++ {
		emit("fragment:s3b", fg.withHopQuery(), 0, 0)
		stats.Inc("fragment.s3b")
	}
	for _, k := range []string{"", ":NodeKind1", ":NodeKind2", ":NodeKind1:NodeKind2", ":NodeKind2:NodeKind1"} {
		emit("fragment:count", "match (n"+k+") return count(n)", 0, 0)
		stats.Inc("fragment.count")
	}
}

type c02Runner struct {
	stats  *Stats
	mapper pgsql.KindMapper
	hook   c02Variant
}

func (c02Suite) NewRunner(stats *Stats) Runner {
	return &c02Runner{stats: stats, mapper: newHarnessKindMapper(), hook: c02Hook()}
}

func (r *c02Runner) variant(model *cypher.RegularQuery, rules, lowerings bool) (res translate.Result, err error, panicked string) {
	defer func() {
		if p := recover(); p != nil {
			panicked = strings.ReplaceAll(fmt.Sprint(p), "\n", " ")
		}
	}()
	res, err = r.hook(context.Background(), model, r.mapper, nil, translate.DefaultGraphID, rules, lowerings)
	return
}

func strListSexp(xs []string) string {
	var b strings.Builder
	b.WriteString("(list")
	for _, x := range xs {
		b.WriteString(" " + jsonQuote(x))
	}
	b.WriteString(")")
	return b.String()
}

func (r *c02Runner) Step(t []string, raw string) string {
	if len(t) < 2 || t[0] != "q" {
		return "bad-op"
	}
	if r.hook == nil {
		r.stats.Inc("hook_missing")
		return "hook-missing"
	}
	q, _, ok := parseC01Op(raw)
	if !ok {
		return "bad-op"
	}
	model, err := frontend.ParseCypher(frontend.NewContext(), q)
	if err != nil || model == nil {
		r.stats.Inc("parse_err")
		return "err parse"
	}
	if modelHasUpdating(model) {
		r.stats.Inc("updating")
		return "err updating-query"
	}
	cy := refSexp(q, model) // sort directions read from the text, not from the frontend's model (harness/sortdir.go)

	// the optimised translation is the REAL entry point
	resO, terr, panicked := translateSafe(model, r.mapper, nil)
	if panicked != "" {
		r.stats.Inc("translate_panic")
		return "err translate-panic"
	}
	if terr != nil {
		r.stats.Inc("translate_err")
		return "err translate:" + errClass(terr)
	}
	if resO.Statement == nil {
		return "err translate:nil-statement"
	}
	resU, uerr, upanic := r.variant(model, false, false)
	if upanic != "" {
		r.stats.Inc("unoptimized_panic")
		return "err unoptimized-translate-panic"
	}
	if uerr != nil || resU.Statement == nil {
		// the optimiser makes a query translatable that is not translatable as written: reported, not compared
		r.stats.Inc("unoptimized_err")
		return "err unoptimized-translate:" + errClass(uerr)
	}
	r.stats.Inc("translated")

	sqlO, ferr := translate.Translated(resO)
	if ferr != nil {
		return "err format"
	}
	sqlU, ferr := translate.Translated(resU)
	if ferr != nil {
		return "err format-unoptimized"
	}

	if d := literalTie(resO.Statement, sqlO); d != "" {
		r.stats.Inc("literal_tie_differs")
		return "lit-differs optimised " + d + " sql=" + jsonQuote(sqlO)
	}
	if d := literalTie(resU.Statement, sqlU); d != "" {
		r.stats.Inc("literal_tie_differs")
		return "lit-differs unoptimised " + d + " sql=" + jsonQuote(sqlU)
	}

	var rules, lowerings []string
	for _, rr := range resO.Optimization.Rules {
		if rr.Applied {
			rules = append(rules, rr.Name)
			r.stats.Inc("rule." + rr.Name)
		}
	}
	for _, l := range resO.Optimization.Lowerings {
		lowerings = append(lowerings, l.Name)
		r.stats.Inc("lowering." + l.Name)
	}
	sort.Strings(lowerings)
	if sqlO != sqlU {
		r.stats.Inc("optimised_sql_differs")
	}

	// the optimiser's rewritten query (what the translator walks)
	cyopt := "nil"
	if plan, perr := optimize.Optimize(model); perr == nil && plan.Query != nil {
		cyopt = refSexp(q, plan.Query)
	}

	part := func(rules, lowerings bool) string {
		res, e, p := r.variant(model, rules, lowerings)
		if p != "" || e != nil || res.Statement == nil {
			return "nil"
		}
		return ToSexp(res.Statement)
	}
	stmtR, stmtL := "nil", "nil"
	if sqlO != sqlU {
		stmtR, stmtL = part(true, false), part(false, true)
	}

	return fmt.Sprintf("ok km=%s rules=%s lowerings=%s cy=%s cyopt=%s sqlO=%s stmtO=%s sqlU=%s stmtU=%s stmtR=%s stmtL=%s",
		kindMapSexp(), strListSexp(rules), strListSexp(lowerings), cy, cyopt, jsonQuote(sqlO), ToSexp(resO.Statement),
		jsonQuote(sqlU), ToSexp(resU.Statement), stmtR, stmtL)
}
