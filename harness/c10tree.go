package main

import (
	"fmt"
	"math"
	"reflect"
	"strconv"
	"strings"
	"unicode/utf8"

	"github.com/specterops/dawgs/cypher/models/cypher"
	"github.com/specterops/dawgs/graph"
)

// ---------------------------------------------------------------------------------------------------
// S-expression trees (reader for the line protocol's own syntax: lists, "quoted strings", atoms)
// ---------------------------------------------------------------------------------------------------

type sx struct {
	atom  string // bare atom
	str   string // quoted string (isStr)
	isStr bool
	list  []*sx // list (isList)
	isLst bool
}

func sxAtom(a string) *sx     { return &sx{atom: a} }
func sxStr(s string) *sx      { return &sx{str: s, isStr: true} }
func sxList(items ...*sx) *sx { return &sx{list: items, isLst: true} }
func (s *sx) head() string {
	if s != nil && s.isLst && len(s.list) > 0 && !s.list[0].isStr && !s.list[0].isLst {
		return s.list[0].atom
	}
	return ""
}
func (s *sx) args() []*sx {
	if s == nil || !s.isLst || len(s.list) == 0 {
		return nil
	}
	return s.list[1:]
}

// c10Quote is the line protocol's string quoting, mirrored by `jq` in lean/Driver/C10.lean: only \\ \" \n \r \t and
// \u00XX for other control characters are escaped; everything else is written raw.
func c10Quote(s string) string {
	var b strings.Builder
	b.WriteByte('"')
	for _, r := range s {
		switch {
		case r == '"':
			b.WriteString(`\"`)
		case r == '\\':
			b.WriteString(`\\`)
		case r == '\n':
			b.WriteString(`\n`)
		case r == '\r':
			b.WriteString(`\r`)
		case r == '\t':
			b.WriteString(`\t`)
		case r < 32:
			fmt.Fprintf(&b, `\u%04x`, r)
		default:
			b.WriteRune(r)
		}
	}
	b.WriteByte('"')
	return b.String()
}

func (s *sx) String() string {
	var b strings.Builder
	s.write(&b)
	return b.String()
}

func (s *sx) write(b *strings.Builder) {
	switch {
	case s == nil:
		b.WriteString("nil")
	case s.isStr:
		b.WriteString(c10Quote(s.str))
	case s.isLst:
		b.WriteByte('(')
		for i, c := range s.list {
			if i > 0 {
				b.WriteByte(' ')
			}
			c.write(b)
		}
		b.WriteByte(')')
	default:
		b.WriteString(s.atom)
	}
}

type sxReader struct {
	s   string
	pos int
}

func parseSx(s string) (*sx, error) {
	r := &sxReader{s: s}
	v, err := r.read()
	if err != nil {
		return nil, err
	}
	r.skip()
	if r.pos != len(r.s) {
		return nil, fmt.Errorf("trailing input at %d", r.pos)
	}
	return v, nil
}

func (r *sxReader) skip() {
	for r.pos < len(r.s) && (r.s[r.pos] == ' ' || r.s[r.pos] == '\t' || r.s[r.pos] == '\n') {
		r.pos++
	}
}

func (r *sxReader) read() (*sx, error) {
	r.skip()
	if r.pos >= len(r.s) {
		return nil, fmt.Errorf("unexpected end")
	}
	switch c := r.s[r.pos]; c {
	case '(':
		r.pos++
		out := &sx{isLst: true}
		for {
			r.skip()
			if r.pos >= len(r.s) {
				return nil, fmt.Errorf("unclosed list")
			}
			if r.s[r.pos] == ')' {
				r.pos++
				return out, nil
			}
			item, err := r.read()
			if err != nil {
				return nil, err
			}
			out.list = append(out.list, item)
		}
	case ')':
		return nil, fmt.Errorf("unexpected )")
	case '"':
		r.pos++
		var b strings.Builder
		for r.pos < len(r.s) {
			ch := r.s[r.pos]
			if ch == '"' {
				r.pos++
				return sxStr(b.String()), nil
			}
			if ch == '\\' && r.pos+1 < len(r.s) {
				r.pos++
				switch e := r.s[r.pos]; e {
				case 'n':
					b.WriteByte('\n')
				case 't':
					b.WriteByte('\t')
				case 'r':
					b.WriteByte('\r')
				case 'b':
					b.WriteByte('\b')
				case 'f':
					b.WriteByte('\f')
				case 'u':
					if r.pos+4 < len(r.s) {
						v, err := strconv.ParseUint(r.s[r.pos+1:r.pos+5], 16, 32)
						if err != nil {
							return nil, err
						}
						b.WriteRune(rune(v))
						r.pos += 4
					}
				default:
					b.WriteByte(e)
				}
				r.pos++
				continue
			}
			b.WriteByte(ch)
			r.pos++
		}
		return nil, fmt.Errorf("unclosed string")
	default:
		start := r.pos
		for r.pos < len(r.s) && !strings.ContainsRune(" \t\n()\"", rune(r.s[r.pos])) {
			r.pos++
		}
		return sxAtom(r.s[start:r.pos]), nil
	}
}

// ---------------------------------------------------------------------------------------------------
// cypher model expression -> term of the Lean algebra (lean/Dawgs/Model/C10.lean `Expr`)
// ---------------------------------------------------------------------------------------------------

func unmodelled(tag string) *sx { return sxList(sxAtom("unmodelled"), sxStr(tag)) }

func hasUnmodelled(t *sx) string {
	if t == nil {
		return ""
	}
	if t.head() == "unmodelled" && len(t.list) == 2 {
		return t.list[1].str
	}
	if t.isLst {
		for _, c := range t.list {
			if u := hasUnmodelled(c); u != "" {
				return u
			}
		}
	}
	return ""
}

// c10DecodeString mirrors decodeCypherStringLiteral (cypher/models/pgsql/translate/translator.go, unexported) and
// `decodeBody` of the Lean model.
func c10DecodeString(raw string) (string, bool) {
	if len(raw) < 2 {
		return "", false
	}
	q := raw[0]
	if (q != '\'' && q != '"') || raw[len(raw)-1] != q {
		return "", false
	}
	body := raw[1 : len(raw)-1]
	var b strings.Builder
	for i := 0; i < len(body); i++ {
		if body[i] != '\\' {
			if body[i] == q { // an unescaped quote inside the body: not one token
				return "", false
			}
			b.WriteByte(body[i])
			continue
		}
		if i+1 >= len(body) {
			return "", false
		}
		switch c := body[i+1]; c {
		case '\\', '\'', '"':
			b.WriteByte(c)
		case 'b', 'B':
			b.WriteByte('\b')
		case 'f', 'F':
			b.WriteByte('\f')
		case 'n', 'N':
			b.WriteByte('\n')
		case 'r', 'R':
			b.WriteByte('\r')
		case 't', 'T':
			b.WriteByte('\t')
		default:
			return "", false
		}
		i++
	}
	return b.String(), true
}

// decimalOf splits strconv.FormatFloat(f,'f',-1,64) into sign, integer digits and fraction digits.
func decimalOf(f float64) (sign, ip, fr string, ok bool) {
	if math.IsNaN(f) || math.IsInf(f, 0) {
		return "", "", "", false
	}
	txt := strconv.FormatFloat(f, 'f', -1, 64)
	if strings.HasPrefix(txt, "-") {
		sign, txt = "-", txt[1:]
	}
	if i := strings.IndexByte(txt, '.'); i >= 0 {
		return sign, txt[:i], txt[i+1:], true
	}
	return sign, txt, "", true
}

func litTerm(l *cypher.Literal) *sx {
	mk := func(x *sx) *sx { return sxList(sxAtom("lit"), x) }
	if l.Null {
		return mk(sxAtom("null"))
	}
	v := reflect.ValueOf(l.Value)
	switch v.Kind() {
	case reflect.Bool:
		return mk(sxAtom(strconv.FormatBool(v.Bool())))
	case reflect.Int, reflect.Int8, reflect.Int16, reflect.Int32, reflect.Int64:
		if v.Type().PkgPath() != "" {
			return unmodelled("literal:" + v.Type().String())
		}
		return mk(sxList(sxAtom("int"), sxStr(strconv.FormatInt(v.Int(), 10))))
	case reflect.Uint, reflect.Uint8, reflect.Uint16, reflect.Uint32, reflect.Uint64:
		if v.Type().PkgPath() != "" {
			return unmodelled("literal:" + v.Type().String())
		}
		return mk(sxList(sxAtom("int"), sxStr(strconv.FormatUint(v.Uint(), 10))))
	case reflect.Float32, reflect.Float64:
		s, ip, fr, ok := decimalOf(v.Float())
		if !ok {
			return unmodelled("literal:non-finite-float")
		}
		return mk(sxList(sxAtom("float"), sxStr(s), sxStr(ip), sxStr(fr)))
	case reflect.String:
		if v.Type().PkgPath() != "" {
			return unmodelled("literal:" + v.Type().String())
		}
		if dec, ok := c10DecodeString(v.String()); ok && v.String()[0] == '\'' && utf8.ValidString(dec) {
			return mk(sxList(sxAtom("str"), sxStr(dec)))
		}
		return unmodelled("literal:string-not-in-single-quoted-source-form")
	}
	if l.Value == nil {
		return unmodelled("literal:nil-value-not-null")
	}
	return unmodelled("literal:" + v.Type().String())
}

func operandTerm(e cypher.Expression) *sx {
	switch t := e.(type) {
	case *cypher.Variable:
		if t == nil {
			return unmodelled("nil-variable")
		}
		return sxList(sxAtom("var"), sxStr(t.Symbol))
	case *cypher.PropertyLookup:
		if v, ok := t.Atom.(*cypher.Variable); ok && v != nil {
			return sxList(sxAtom("prop"), sxStr(v.Symbol), sxStr(t.Symbol))
		}
		return unmodelled("property-of-non-variable")
	case *cypher.FunctionInvocation:
		if len(t.Namespace) == 0 && !t.Distinct && len(t.Arguments) == 1 {
			return sxList(sxAtom("fn"), sxStr(t.Name), operandTerm(t.Arguments[0]))
		}
		return unmodelled("function-shape")
	case *cypher.Parameter:
		return sxList(sxAtom("param"), sxStr(t.Symbol))
	case *cypher.Literal:
		return litTerm(t)
	case *cypher.ListLiteral:
		out := sxList(sxAtom("list"))
		for _, x := range *t {
			out.list = append(out.list, operandTerm(x))
		}
		return out
	case *cypher.ArithmeticExpression:
		// an arithmetic expression without operators is its operand (the frontend wraps the operand of a unary minus so)
		if len(t.Partials) == 0 {
			return operandTerm(t.Left)
		}
		return unmodelled("arithmetic-expression")
	case *cypher.UnaryAddOrSubtractExpression:
		// the frontend reads `-5` as UnaryAddOrSubtract("-", 5); the Lean parser reads it as the literal -5
		right := t.Right
		if ar, ok := right.(*cypher.ArithmeticExpression); ok && len(ar.Partials) == 0 {
			right = ar.Left
		}
		if lit, ok := right.(*cypher.Literal); ok && t.Operator == cypher.OperatorSubtract && !lit.Null {
			switch v := lit.Value.(type) {
			case int64:
				if v == 0 {
					return litTerm(lit)
				}
				return sxList(sxAtom("lit"), sxList(sxAtom("int"), sxStr("-"+strconv.FormatInt(v, 10))))
			case float64:
				_, ip, fr, ok := decimalOf(v)
				if ok && !math.Signbit(v) {
					return sxList(sxAtom("lit"), sxList(sxAtom("float"), sxStr("-"), sxStr(ip), sxStr(fr)))
				}
			}
		}
		return unmodelled("unary-expression")
	}
	return unmodelled(fmt.Sprintf("operand:%T", e))
}

var c10CmpNames = map[cypher.Operator]string{
	cypher.OperatorEquals: "=", cypher.OperatorNotEquals: "<>", cypher.OperatorLessThan: "<", cypher.OperatorLessThanOrEqualTo: "<=",
	cypher.OperatorGreaterThan: ">", cypher.OperatorGreaterThanOrEqualTo: ">=", cypher.OperatorStartsWith: "starts_with",
	cypher.OperatorEndsWith: "ends_with", cypher.OperatorContains: "contains", cypher.OperatorIn: "in",
}

func exprTerm(e cypher.Expression) *sx {
	join := func(op string, xs []cypher.Expression) *sx {
		out := sxList(sxAtom("join"), sxStr(op))
		for _, x := range xs {
			out.list = append(out.list, exprTerm(x))
		}
		return out
	}
	switch t := e.(type) {
	case *cypher.Conjunction:
		return join("and", t.GetAll())
	case *cypher.Disjunction:
		return join("or", t.GetAll())
	case *cypher.ExclusiveDisjunction:
		return join("xor", t.GetAll())
	case *cypher.Negation:
		return sxList(sxAtom("neg"), exprTerm(t.Expression))
	case *cypher.Parenthetical:
		return sxList(sxAtom("paren"), exprTerm(t.Expression))
	case *cypher.KindMatcher:
		v, ok := t.Reference.(*cypher.Variable)
		if !ok || v == nil {
			return unmodelled("kind-matcher-reference")
		}
		ks := sxList(sxAtom("ks"))
		for _, k := range t.Kinds {
			ks.list = append(ks.list, sxStr(k.String()))
		}
		ex := "0"
		if t.IsExclusive {
			ex = "1"
		}
		return sxList(sxAtom("kinds"), sxStr(v.Symbol), ks, sxAtom(ex))
	case *cypher.Comparison:
		if len(t.Partials) != 1 {
			return unmodelled("comparison-chain")
		}
		p := t.Partials[0]
		if p.Operator == cypher.OperatorIs || p.Operator == cypher.OperatorIsNot {
			if lit, ok := p.Right.(*cypher.Literal); ok && lit.Null {
				flag := "0"
				if p.Operator == cypher.OperatorIsNot {
					flag = "1"
				}
				return sxList(sxAtom("isnull"), operandTerm(t.Left), sxAtom(flag))
			}
			return unmodelled("is-non-null-operand")
		}
		name, ok := c10CmpNames[p.Operator]
		if !ok {
			return unmodelled("operator:" + p.Operator.String())
		}
		return sxList(sxAtom("cmp"), operandTerm(t.Left), sxStr(name), operandTerm(p.Right))
	}
	return unmodelled(fmt.Sprintf("expr:%T", e))
}

// ---------------------------------------------------------------------------------------------------
// the harness's own normaliser on terms — mirrors `norm` of lean/Dawgs/Spec/C10.lean; the Lean driver's answer is
// compared with it on every case
// ---------------------------------------------------------------------------------------------------

func mkJoin(op string, items []*sx) *sx {
	if len(items) == 1 {
		return items[0]
	}
	out := sxList(sxAtom("join"), sxStr(op))
	out.list = append(out.list, items...)
	return out
}

func itemsOf(op string, e *sx) []*sx {
	if e.head() == "join" && e.list[1].str == op {
		return e.list[2:]
	}
	return []*sx{e}
}

func normTerm(e *sx) *sx {
	switch e.head() {
	case "paren":
		return normTerm(e.list[1])
	case "neg":
		return sxList(sxAtom("neg"), normTerm(e.list[1]))
	case "kinds":
		op := "or"
		if e.list[3].atom == "1" {
			op = "and"
		}
		var items []*sx
		for _, k := range e.list[2].args() {
			items = append(items, sxList(sxAtom("kinds"), e.list[1], sxList(sxAtom("ks"), k), sxAtom("1")))
		}
		return mkJoin(op, items)
	case "join":
		op := e.list[1].str
		var items []*sx
		for _, c := range e.list[2:] {
			items = append(items, itemsOf(op, normTerm(c))...)
		}
		return mkJoin(op, items)
	}
	return e
}

// ---------------------------------------------------------------------------------------------------
// lexer of the expression text the emitter writes -> the canonical token line of `toksStr` (Driver/C10.lean)
// ---------------------------------------------------------------------------------------------------

func isIdentStart(r rune) bool {
	return r == '_' || r >= 0x80 || (r >= 'a' && r <= 'z') || (r >= 'A' && r <= 'Z')
}
func isIdentPart(r rune) bool { return isIdentStart(r) || (r >= '0' && r <= '9') }

func c10Lex(text string) (string, error) {
	var out []string
	rs := []rune(text)
	i := 0
	afterDotOrColon := false
	peekWord := func(j int) (string, int) {
		for j < len(rs) && rs[j] == ' ' {
			j++
		}
		k := j
		for k < len(rs) && isIdentPart(rs[k]) {
			k++
		}
		return strings.ToLower(string(rs[j:k])), k
	}
	for i < len(rs) {
		c := rs[i]
		nameCtx := afterDotOrColon
		afterDotOrColon = false
		switch {
		case c == ' ':
			i++
			afterDotOrColon = nameCtx
		case c == '-' && i+1 < len(rs) && rs[i+1] == '[':
			out = append(out, "-[")
			i += 2
		case c == ']' && i+2 < len(rs) && rs[i+1] == '-' && rs[i+2] == '>':
			out = append(out, "]->")
			i += 3
		case c == '|':
			out = append(out, "|")
			i++
			afterDotOrColon = true // a relationship kind follows
		case c == '(' || c == ')' || c == '[' || c == ']' || c == ',' || c == '-':
			out = append(out, string(c))
			i++
		case c == '.' || c == ':':
			out = append(out, string(c))
			afterDotOrColon = true
			i++
		case c == '=':
			out = append(out, "=")
			i++
		case c == '<':
			if i+1 < len(rs) && (rs[i+1] == '>' || rs[i+1] == '=') {
				out = append(out, string(rs[i:i+2]))
				i += 2
			} else {
				out = append(out, "<")
				i++
			}
		case c == '>':
			if i+1 < len(rs) && rs[i+1] == '=' {
				out = append(out, ">=")
				i += 2
			} else {
				out = append(out, ">")
				i++
			}
		case c == '$':
			j := i + 1
			for j < len(rs) && isIdentPart(rs[j]) {
				j++
			}
			out = append(out, "$"+c10Quote(string(rs[i+1:j])))
			i = j
		case c >= '0' && c <= '9':
			j := i
			for j < len(rs) && rs[j] >= '0' && rs[j] <= '9' {
				j++
			}
			ip := strings.TrimLeft(string(rs[i:j]), "0")
			if ip == "" {
				ip = "0"
			}
			if j+1 < len(rs) && rs[j] == '.' && rs[j+1] >= '0' && rs[j+1] <= '9' {
				k := j + 1
				for k < len(rs) && rs[k] >= '0' && rs[k] <= '9' {
					k++
				}
				out = append(out, "#"+ip+"."+string(rs[j+1:k]))
				i = k
			} else {
				out = append(out, "#"+ip)
				i = j
			}
		case c == '\'':
			j := i + 1
			closed := false
			for j < len(rs) {
				if rs[j] == '\\' {
					j += 2
					continue
				}
				if rs[j] == '\'' {
					closed = true
					break
				}
				j++
			}
			if !closed {
				return "", fmt.Errorf("unterminated string literal at %d", i)
			}
			out = append(out, "s"+c10Quote(string(rs[i:j+1])))
			i = j + 1
		case c == '`':
			j := i + 1
			var name []rune
			closed := false
			for j < len(rs) {
				if rs[j] == '`' {
					if j+1 < len(rs) && rs[j+1] == '`' {
						name = append(name, '`')
						j += 2
						continue
					}
					closed = true
					break
				}
				name = append(name, rs[j])
				j++
			}
			if !closed {
				return "", fmt.Errorf("unterminated escaped name at %d", i)
			}
			out = append(out, "i"+c10Quote(string(name)))
			i = j + 1
		case isIdentStart(c):
			j := i
			for j < len(rs) && isIdentPart(rs[j]) {
				j++
			}
			word := string(rs[i:j])
			lower := strings.ToLower(word)
			if nameCtx {
				out = append(out, "i"+c10Quote(word))
				i = j
				break
			}
			switch lower {
			case "or", "xor", "and", "not", "contains", "in", "null", "true", "false",
				"match", "where", "return", "distinct", "asc", "desc", "skip", "limit", "set", "remove", "create", "delete":
				out = append(out, lower)
				i = j
			case "order":
				if w, k := peekWord(j); w == "by" {
					out = append(out, "order_by")
					i = k
				} else {
					out = append(out, "i"+c10Quote(word))
					i = j
				}
			case "detach":
				if w, k := peekWord(j); w == "delete" {
					out = append(out, "detach_delete")
					i = k
				} else {
					out = append(out, "i"+c10Quote(word))
					i = j
				}
			case "starts", "ends":
				if w, k := peekWord(j); w == "with" {
					out = append(out, lower+"_with")
					i = k
				} else {
					out = append(out, "i"+c10Quote(word))
					i = j
				}
			case "is":
				if w, k := peekWord(j); w == "null" {
					out = append(out, "is_null")
					i = k
				} else if w == "not" {
					if w2, k2 := peekWord(k); w2 == "null" {
						out = append(out, "is_not_null")
						i = k2
					} else {
						return "", fmt.Errorf("IS NOT without NULL at %d", i)
					}
				} else {
					return "", fmt.Errorf("IS without NULL at %d", i)
				}
			default:
				out = append(out, "i"+c10Quote(word))
				i = j
			}
		default:
			return "", fmt.Errorf("unexpected character %q at %d", c, i)
		}
	}
	return strings.Join(out, " "), nil
}

// ---------------------------------------------------------------------------------------------------
// generic structural normal form of a whole query model (everything outside the criteria algebra): parse the
// ToSexp rendering and rewrite it bottom-up with the same rules as `norm`
// ---------------------------------------------------------------------------------------------------

func field(n *sx, name string) *sx {
	for _, c := range n.args() {
		if c.head() == name && len(c.list) == 2 {
			return c.list[1]
		}
	}
	return nil
}

var c10JoinTypes = map[string]string{"cypher.Conjunction": "and", "cypher.Disjunction": "or", "cypher.ExclusiveDisjunction": "xor"}

func exprListItems(n *sx) []*sx {
	// (cypher.Conjunction (expressionList (cypher.expressionList (Expressions (list a b)))))
	el := field(n, "expressionList")
	if el == nil {
		return nil
	}
	ex := field(el, "Expressions")
	if ex == nil || ex.head() != "list" {
		return nil
	}
	return ex.args()
}

func gJoin(op string, items []*sx) *sx {
	if len(items) == 1 {
		return items[0]
	}
	out := sxList(sxAtom("J"), sxAtom(op))
	out.list = append(out.list, items...)
	return out
}

func normGeneric(n *sx) *sx {
	if n == nil || !n.isLst {
		return n
	}
	kids := make([]*sx, 0, len(n.list))
	for _, c := range n.list {
		kids = append(kids, normGeneric(c))
	}
	m := &sx{isLst: true, list: kids}
	h := m.head()
	if op, ok := c10JoinTypes[h]; ok {
		var items []*sx
		for _, c := range exprListItems(m) {
			if c.head() == "J" && c.list[1].atom == op {
				items = append(items, c.list[2:]...)
			} else {
				items = append(items, c)
			}
		}
		return gJoin(op, items)
	}
	switch h {
	case "cypher.Parenthetical":
		if x := field(m, "Expression"); x != nil {
			return x
		}
	case "cypher.Parameter":
		return sxList(sxAtom("P"), field(m, "Symbol"))
	case "cypher.KindMatcher":
		ref, kinds, excl := field(m, "Reference"), field(m, "Kinds"), field(m, "IsExclusive")
		op := "or"
		if excl != nil && excl.atom == "true" {
			op = "and"
		}
		var items []*sx
		if kinds != nil && kinds.head() == "graph.Kinds" && len(kinds.list) == 2 && kinds.list[1].head() == "list" {
			for _, k := range kinds.list[1].args() {
				items = append(items, sxList(sxAtom("K"), ref, k))
			}
		}
		return gJoin(op, items)
	case "cypher.Literal":
		if nl := field(m, "Null"); nl != nil && nl.atom == "true" {
			return sxList(sxAtom("L"), sxAtom("null"))
		}
		return sxList(sxAtom("L"), field(m, "Value"))
	case "cypher.UnaryAddOrSubtractExpression":
		op, right := field(m, "Operator"), field(m, "Right")
		if op != nil && len(op.list) == 2 && op.list[1].str == "-" && right != nil && right.head() == "L" && len(right.list) == 2 {
			v := right.list[1]
			if !v.isLst && !v.isStr && v.atom != "null" && v.atom != "0" && !strings.HasPrefix(v.atom, "-") {
				return sxList(sxAtom("L"), sxAtom("-"+v.atom))
			}
			if v.head() == "f64" && len(v.list) == 2 && !strings.HasPrefix(v.list[1].str, "-") {
				return sxList(sxAtom("L"), sxList(sxAtom("f64"), sxStr("-"+v.list[1].str)))
			}
		}
	case "cypher.ArithmeticExpression":
		if ps := field(m, "Partials"); ps != nil && (ps.atom == "nil" || (ps.head() == "list" && len(ps.list) == 1)) {
			if x := field(m, "Left"); x != nil {
				return x
			}
		}
	case "list":
		// one PatternPart holding (a), (b) back to back is what the builders create for `match (a), (b)`; the parser
		// makes two parts of it. Split at node/node adjacency.
		if len(m.list) > 1 && m.list[1].head() == "cypher.PatternPart" {
			out := sxList(sxAtom("list"))
			for _, part := range m.args() {
				out.list = append(out.list, splitPatternPart(part)...)
			}
			return out
		}
	case "cypher.Where":
		// a WHERE without expressions is no WHERE (the rewriter can empty it; the emitter then writes none)
		if len(exprListItems(m)) == 0 {
			if el := field(m, "expressionList"); el != nil {
				if ex := field(el, "Expressions"); ex != nil && (ex.atom == "nil" || ex.head() == "list") {
					return sxAtom("nil")
				}
			}
		}
	case "cypher.Properties":
		// the frontend wraps pattern properties in cypher.Properties{Map | Parameter}; the builders store the parameter itself
		if mp, pr := field(m, "Map"), field(m, "Parameter"); mp != nil && mp.atom == "nil" && pr != nil {
			return pr
		}
	case "graph.Kinds":
		// a kind list is a set: the frontend drops repeated kinds of a pattern (`[r:A|B|A]`)
		if len(m.list) == 2 && m.list[1].head() == "list" {
			seen := map[string]bool{}
			out := sxList(sxAtom("list"))
			for _, k := range m.list[1].args() {
				if !seen[k.String()] {
					seen[k.String()] = true
					out.list = append(out.list, k)
				}
			}
			return sxList(m.list[0], out)
		}
	case "errorContext":
		return sxAtom("_")
	}
	return m
}

func isNodeElement(e *sx) bool {
	el := field(e, "Element")
	return el != nil && el.head() == "cypher.NodePattern"
}

func splitPatternPart(part *sx) []*sx {
	if part.head() != "cypher.PatternPart" {
		return []*sx{part}
	}
	els := field(part, "PatternElements")
	if v := field(part, "Variable"); v == nil || v.atom != "nil" || els == nil || els.head() != "list" {
		return []*sx{part}
	}
	var groups [][]*sx
	for i, e := range els.args() {
		if i == 0 || (isNodeElement(e) && isNodeElement(els.list[i])) { // els.list[i] is the previous element (list[0] is the tag)
			groups = append(groups, nil)
		}
		groups[len(groups)-1] = append(groups[len(groups)-1], e)
	}
	if len(groups) <= 1 {
		return []*sx{part}
	}
	var out []*sx
	for _, g := range groups {
		cp := &sx{isLst: true}
		for _, c := range part.list {
			if c.head() == "PatternElements" {
				cp.list = append(cp.list, sxList(sxAtom("PatternElements"), sxList(append([]*sx{sxAtom("list")}, g...)...)))
			} else {
				cp.list = append(cp.list, c)
			}
		}
		out = append(out, cp)
	}
	return out
}

func normQueryModel(v any) *sx {
	t, err := parseSx(ToSexp(v))
	if err != nil {
		return sxList(sxAtom("unparsable"), sxStr(err.Error()))
	}
	return normGeneric(t)
}

// firstDiff returns a short description of the first structural difference of two trees, or "".
func firstDiff(a, b *sx, path string) string {
	as, bs := a.String(), b.String()
	if as == bs {
		return ""
	}
	if a != nil && b != nil && a.isLst && b.isLst && len(a.list) == len(b.list) && a.head() == b.head() {
		for i := range a.list {
			if d := firstDiff(a.list[i], b.list[i], path+"/"+a.head()); d != "" {
				return d
			}
		}
	}
	clip := func(s string) string {
		if rs := []rune(s); len(rs) > 160 {
			return string(rs[:160]) + "…"
		}
		return s
	}
	return fmt.Sprintf("%s: %s <> %s", path, clip(as), clip(bs))
}

// ---------------------------------------------------------------------------------------------------
// whole query -> term of the Lean clause-level algebra (lean/Dawgs/Model/C10Q.lean `Query`)
// ---------------------------------------------------------------------------------------------------

func optStrTerm(s string, present bool) *sx {
	if !present {
		return sxAtom("none")
	}
	return sxStr(s)
}

func ksTerm(kinds graph.Kinds) *sx {
	ks := sxList(sxAtom("ks"))
	for _, k := range kinds {
		ks.list = append(ks.list, sxStr(k.String()))
	}
	return ks
}

// propsTerm: pattern properties are a parameter (builders) or cypher.Properties{Parameter} (frontend)
func propsTerm(p cypher.Expression) (*sx, bool) {
	switch t := p.(type) {
	case nil:
		return sxAtom("none"), true
	case *cypher.Parameter:
		if t == nil {
			return sxAtom("none"), true
		}
		return sxStr(t.Symbol), true
	case *cypher.Properties:
		if t == nil {
			return sxAtom("none"), true
		}
		if t.Map == nil && t.Parameter != nil {
			return sxStr(t.Parameter.Symbol), true
		}
	}
	return nil, false
}

func patternTerm(parts []*cypher.PatternPart) []*sx {
	var out []*sx
	for _, part := range parts {
		if part.Variable != nil || part.ShortestPathPattern || part.AllShortestPathsPattern {
			return []*sx{unmodelled("pattern-part")}
		}
		for _, pe := range part.PatternElements {
			if np, ok := pe.AsNodePattern(); ok {
				props, okp := propsTerm(np.Properties)
				if !okp {
					return []*sx{unmodelled("node-properties")}
				}
				v := sxAtom("none")
				if np.Variable != nil {
					v = sxStr(np.Variable.Symbol)
				}
				out = append(out, sxList(sxAtom("node"), v, ksTerm(np.Kinds), props))
			} else if rp, ok := pe.AsRelationshipPattern(); ok {
				props, okp := propsTerm(rp.Properties)
				if !okp || rp.Range != nil || rp.Direction != graph.DirectionOutbound {
					return []*sx{unmodelled("relationship-pattern")}
				}
				v := sxAtom("none")
				if rp.Variable != nil {
					v = sxStr(rp.Variable.Symbol)
				}
				out = append(out, sxList(sxAtom("rel"), v, ksTerm(rp.Kinds), props))
			} else {
				return []*sx{unmodelled("pattern-element")}
			}
		}
	}
	return out
}

func optOperandTerm(e cypher.Expression) *sx {
	if e == nil {
		return sxAtom("none")
	}
	return operandTerm(e)
}

func projTerm(r *cypher.Return) *sx {
	if r == nil {
		return sxAtom("none")
	}
	p := r.Projection
	if p == nil {
		return unmodelled("return-without-projection")
	}
	d := "0"
	if p.Distinct {
		d = "1"
	}
	items := sxList(sxAtom("items"))
	for _, it := range p.Items {
		pi, ok := it.(*cypher.ProjectionItem)
		if !ok || pi.Alias != nil {
			return unmodelled("projection-item")
		}
		if fn, ok := pi.Expression.(*cypher.FunctionInvocation); ok && fn.Distinct && len(fn.Namespace) == 0 && len(fn.Arguments) == 1 {
			items.list = append(items.list, sxList(sxAtom("fnd"), sxStr(fn.Name), operandTerm(fn.Arguments[0])))
		} else {
			items.list = append(items.list, sxList(sxAtom("op"), operandTerm(pi.Expression)))
		}
	}
	order := sxList(sxAtom("order"))
	if p.Order != nil {
		for _, s := range p.Order.Items {
			a := "0"
			if s.Ascending {
				a = "1"
			}
			order.list = append(order.list, sxList(sxAtom("s"), operandTerm(s.Expression), sxAtom(a)))
		}
	}
	sk, lim := sxAtom("none"), sxAtom("none")
	if p.Skip != nil {
		sk = optOperandTerm(p.Skip.Value)
	}
	if p.Limit != nil {
		lim = optOperandTerm(p.Limit.Value)
	}
	return sxList(sxAtom("proj"), sxAtom(d), items, order, sk, lim)
}

func updTerm(u cypher.Expression) *sx {
	uc, ok := u.(*cypher.UpdatingClause)
	if !ok {
		return unmodelled("updating-clause")
	}
	varOf := func(e cypher.Expression) (string, bool) {
		v, ok := e.(*cypher.Variable)
		if !ok || v == nil {
			return "", false
		}
		return v.Symbol, true
	}
	switch c := uc.Clause.(type) {
	case *cypher.Set:
		out := sxList(sxAtom("set"))
		for _, it := range c.Items {
			switch {
			case it.Operator == cypher.OperatorLabelAssignment:
				v, ok := varOf(it.Left)
				ks, ok2 := it.Right.(graph.Kinds)
				if !ok || !ok2 {
					return unmodelled("set-kinds")
				}
				out.list = append(out.list, sxList(sxAtom("skinds"), sxStr(v), ksTerm(ks)))
			case it.Operator == cypher.OperatorAssignment:
				pl, ok := it.Left.(*cypher.PropertyLookup)
				if !ok {
					return unmodelled("set-target")
				}
				v, ok := varOf(pl.Atom)
				if !ok {
					return unmodelled("set-target")
				}
				out.list = append(out.list, sxList(sxAtom("sprop"), sxStr(v), sxStr(pl.Symbol), operandTerm(it.Right)))
			default:
				return unmodelled("set-operator")
			}
		}
		return out
	case *cypher.Remove:
		out := sxList(sxAtom("remove"))
		for _, it := range c.Items {
			if it.KindMatcher != nil {
				km := it.KindMatcher
				v, ok := varOf(km.Reference)
				if !ok {
					return unmodelled("remove-kinds")
				}
				out.list = append(out.list, sxList(sxAtom("rkinds"), sxStr(v), ksTerm(km.Kinds)))
			} else if pl, ok := it.Property.(*cypher.PropertyLookup); ok {
				v, ok := varOf(pl.Atom)
				if !ok {
					return unmodelled("remove-target")
				}
				out.list = append(out.list, sxList(sxAtom("rprop"), sxStr(v), sxStr(pl.Symbol)))
			} else {
				return unmodelled("remove-item")
			}
		}
		return out
	case *cypher.Delete:
		d := "0"
		if c.Detach {
			d = "1"
		}
		out := sxList(sxAtom("delete"), sxAtom(d))
		for _, e := range c.Expressions {
			v, ok := varOf(e)
			if !ok {
				return unmodelled("delete-expression")
			}
			out.list = append(out.list, sxStr(v))
		}
		return out
	case *cypher.Create:
		if c.Unique {
			return unmodelled("create-unique")
		}
		return sxList(append([]*sx{sxAtom("create")}, patternTerm(c.Pattern)...)...)
	}
	return unmodelled("update-clause")
}

// queryTerm renders a single-part query; whereOverride (if non-nil) replaces the WHERE expression term.
func queryTerm(q *cypher.RegularQuery, whereOverride *sx, stripRelKinds bool) *sx {
	if q == nil || q.SingleQuery == nil || q.SingleQuery.SinglePartQuery == nil || q.SingleQuery.MultiPartQuery != nil {
		return unmodelled("query-shape")
	}
	sp := q.SingleQuery.SinglePartQuery
	pat := sxList(sxAtom("pat"))
	where := sxAtom("none")
	switch len(sp.ReadingClauses) {
	case 0:
	case 1:
		m := sp.ReadingClauses[0].Match
		if m == nil || m.Optional {
			return unmodelled("reading-clause")
		}
		pat.list = append(pat.list, patternTerm(m.Pattern)...)
		if stripRelKinds {
			for _, el := range pat.list[1:] {
				if el.head() == "rel" {
					el.list[2] = sxList(sxAtom("ks"))
					break
				}
			}
		}
		if m.Where != nil {
			switch len(m.Where.Expressions) {
			case 0:
			case 1:
				where = exprTerm(m.Where.Expressions[0])
			default:
				return unmodelled("where-with-several-expressions")
			}
		}
	default:
		return unmodelled("several-reading-clauses")
	}
	if whereOverride != nil {
		where = whereOverride
	}
	upds := sxList(sxAtom("upds"))
	for _, u := range sp.UpdatingClauses {
		upds.list = append(upds.list, updTerm(u))
	}
	return sxList(sxAtom("Q"), pat, sxList(sxAtom("where"), where), upds, sxList(sxAtom("ret"), projTerm(sp.Return)))
}

// normQueryTerm mirrors `normQd` of the Lean driver: only the WHERE is normalised.
func normQueryTerm(q *sx) *sx {
	if q.head() != "Q" || len(q.list) != 5 {
		return q
	}
	out := sxList(q.list...)
	pat := sxList(sxAtom("pat"))
	for _, el := range q.list[1].args() {
		if el.head() == "rel" && len(el.list) == 4 { // the kinds of a relationship pattern are a set
			seen := map[string]bool{}
			ks := sxList(sxAtom("ks"))
			for _, k := range el.list[2].args() {
				if !seen[k.str] {
					seen[k.str] = true
					ks.list = append(ks.list, k)
				}
			}
			el = sxList(el.list[0], el.list[1], ks, el.list[3])
		}
		pat.list = append(pat.list, el)
	}
	out.list[1] = pat
	w := q.list[2]
	if w.head() == "where" && len(w.list) == 2 && w.list[1].isLst {
		out.list[2] = sxList(sxAtom("where"), normTerm(w.list[1]))
	}
	return out
}

// blankParams replaces every parameter symbol of a term by "" (parameters before ParameterRewriter ran).
func blankParams(t *sx) *sx {
	if t == nil || !t.isLst {
		return t
	}
	if t.head() == "param" && len(t.list) == 2 {
		return sxList(sxAtom("param"), sxStr(""))
	}
	if (t.head() == "node" || t.head() == "rel") && len(t.list) == 4 && t.list[3].isStr {
		return sxList(t.list[0], t.list[1], t.list[2], sxStr(""))
	}
	out := &sx{isLst: true}
	for _, c := range t.list {
		out.list = append(out.list, blankParams(c))
	}
	return out
}

var _ = graph.StringKind
