package main

import (
	"bufio"
	"fmt"
	"runtime"
	"sort"
	"strconv"
	"strings"
	"sync"
	"sync/atomic"
	"time"

	"github.com/specterops/dawgs/cardinality"
	"github.com/specterops/dawgs/graph"
)

// C13: ID-set providers (cardinality/roaring32.go, roaring64.go, lock.go) against the Lean model Dawgs.C13.
//
// Suites:
//   c13     model tie + monitor: all ordered receiver/operand pairs of {b32,b64,ts32,ts64} with matching width
//   x13     monitor only: what the model does not characterise exactly — chunks that have been completely full (run
//           containers) under iterate-while-remove, and the aftermath of roaring's container-sharing native Xor
//   heap13  model tie (Lean suite c13heap: roaring CONTAINER IDENTITY, Model/C13Roaring) + monitor: plain bitmaps, add/remove/
//           xor/slice only — receiver and operand keep being used after the native Xor, so the aliasing it creates is compared
//   conc13  monitor + model: N goroutines on one wrapper, commutative op mixes (thorough tier; -race variant)
//
// Line protocol: see lean/Driver/C13.lean. Every call runs in its own goroutine; a call whose goroutine is parked
// in sync.Mutex.Lock while nothing else runs can never return and is answered `deadlock` (the goroutine is leaked).

type c13Suite struct{ variant string }

func init() {
	register("c13", c13Suite{"c13"})
	register("x13", c13Suite{"x13"})
	register("conc13", c13Suite{"conc13"})
	register("heap13", c13Suite{"heap13"})
}

// ---------------------------------------------------------------------------------------------- runner

type number interface{ uint32 | uint64 }

type c13Prov[T number] struct {
	d       cardinality.Duplex[T]
	wrapped bool
	dead    bool // its mutex is held forever by a leaked goroutine
	spy     *c13Spy[T]
}

// c13Spy is the provider INSIDE a thread-safe wrapper (kinds spy32/spy64): it is the plain bitmap, and remembers the
// operand object the wrapper handed to the last binary operation — the wrapper promises a private snapshot of a
// wrapper operand, so that object must not follow later changes of the operand.
type c13Spy[T number] struct {
	cardinality.Duplex[T]
	last *cardinality.Provider[T]
	gate *func() // when set: called after the operand was handed over and before the real operation runs (the wrapper's lock is held)
}

func (s c13Spy[T]) got(o cardinality.Provider[T]) {
	*s.last = o
	if g := *s.gate; g != nil {
		g()
	}
}
func (s c13Spy[T]) Or(o cardinality.Provider[T])     { s.got(o); s.Duplex.Or(o) }
func (s c13Spy[T]) And(o cardinality.Provider[T])    { s.got(o); s.Duplex.And(o) }
func (s c13Spy[T]) AndNot(o cardinality.Provider[T]) { s.got(o); s.Duplex.AndNot(o) }
func (s c13Spy[T]) Xor(o cardinality.Provider[T])    { s.got(o); s.Duplex.Xor(o) }
func (s c13Spy[T]) Clone() cardinality.Duplex[T]     { return s.Duplex.Clone() } // a plain bitmap, as for any wrapper

type c13Runner struct {
	stats *Stats
	m32   map[string]*c13Prov[uint32]
	m64   map[string]*c13Prov[uint64]
}

func (c13Suite) NewRunner(stats *Stats) Runner {
	return &c13Runner{stats: stats, m32: map[string]*c13Prov[uint32]{}, m64: map[string]*c13Prov[uint64]{}}
}

// goroutine id of the caller
func c13Gid() string {
	buf := make([]byte, 64)
	n := runtime.Stack(buf, false)
	f := strings.Fields(string(buf[:n]))
	if len(f) >= 2 {
		return f[1]
	}
	return "?"
}

// wait state of goroutine gid ("" when it is gone)
func c13GoState(gid string) string {
	buf := make([]byte, 1<<20)
	for {
		n := runtime.Stack(buf, true)
		if n < len(buf) {
			buf = buf[:n]
			break
		}
		buf = make([]byte, 2*len(buf))
	}
	s := string(buf)
	key := "goroutine " + gid + " ["
	i := strings.Index(s, key)
	if i < 0 {
		return ""
	}
	rest := s[i+len(key):]
	j := strings.Index(rest, "]")
	if j < 0 {
		return ""
	}
	return rest[:j]
}

func c13MutexParked(state string) bool {
	return strings.HasPrefix(state, "sync.Mutex.Lock") || strings.HasPrefix(state, "semacquire") || strings.HasPrefix(state, "sync.RWMutex")
}

type c13Job struct {
	gid  atomic.Value
	done chan struct{}
	pan  any
}

func c13Start(f func()) *c13Job {
	j := &c13Job{done: make(chan struct{})}
	go func() {
		j.gid.Store(c13Gid())
		defer func() {
			j.pan = recover()
			close(j.done)
		}()
		f()
	}()
	return j
}

func (j *c13Job) finished() bool {
	select {
	case <-j.done:
		return true
	default:
		return false
	}
}

func (j *c13Job) parked() bool {
	g, _ := j.gid.Load().(string)
	if g == "" {
		return false
	}
	return c13MutexParked(c13GoState(g))
}

// run f in a goroutine; false = it is parked in a mutex forever (sequential runner: nobody else can release it)
func c13Call(f func()) bool {
	j := c13Start(f)
	wait := 50 * time.Microsecond
	began := time.Now()
	for {
		if time.Since(began) > 5*time.Minute {
			panic("call did not return within 5 minutes and is not parked in a mutex")
		}
		select {
		case <-j.done:
			if j.pan != nil {
				panic(j.pan)
			}
			return true
		case <-time.After(wait):
		}
		if j.parked() {
			// generous hang detector: the only goroutine that could release the mutex is gone for good when the call is
			// still parked in the same Lock() after three more looks spread over ~25 ms
			hung := true
			for _, d := range []time.Duration{200 * time.Microsecond, 5 * time.Millisecond, 20 * time.Millisecond} {
				time.Sleep(d)
				if j.finished() || !j.parked() {
					hung = false
					break
				}
			}
			if hung {
				return false
			}
		}
		if wait < 20*time.Millisecond {
			wait *= 2
		}
	}
}

func c13Rle[T number](xs []T) string {
	var b strings.Builder
	b.WriteByte('[')
	first := true
	for i := 0; i < len(xs); {
		j := i
		for j+1 < len(xs) && xs[j+1] == xs[j]+1 {
			j++
		}
		if !first {
			b.WriteByte(',')
		}
		first = false
		b.WriteString(strconv.FormatUint(uint64(xs[i]), 10))
		if j > i {
			b.WriteByte('-')
			b.WriteString(strconv.FormatUint(uint64(xs[j]), 10))
		}
		i = j + 1
	}
	b.WriteByte(']')
	return b.String()
}

// observation of a provider: sorted Slice, checked against Cardinality; "deadlock" when it cannot be read
func c13Obs[T number](p *c13Prov[T]) string {
	if p.dead {
		return "deadlock"
	}
	var xs []T
	var card uint64
	if !c13Call(func() { xs = p.d.Slice(); card = p.d.Cardinality() }) {
		p.dead = true
		return "deadlock"
	}
	sorted := sort.SliceIsSorted(xs, func(i, j int) bool { return xs[i] < xs[j] })
	if !sorted {
		return fmt.Sprintf("unsorted-slice %d %v", card, xs)
	}
	if uint64(len(xs)) != card {
		return fmt.Sprintf("cardinality-mismatch card=%d len(slice)=%d %s", card, len(xs), c13Rle(xs))
	}
	return fmt.Sprintf("%d %s", card, c13Rle(xs))
}

func c13ParseVals[T number](ts []string, bits int) ([]T, bool) {
	out := make([]T, 0, len(ts))
	for _, t := range ts {
		v, err := strconv.ParseUint(t, 10, bits)
		if err != nil {
			return nil, false
		}
		out = append(out, T(v))
	}
	return out, true
}

func c13New[T number](kind string) *c13Prov[T] {
	var d cardinality.Duplex[T]
	var z T
	switch any(z).(type) {
	case uint32:
		d = any(cardinality.NewBitmap32()).(cardinality.Duplex[T])
	default:
		d = any(cardinality.NewBitmap64()).(cardinality.Duplex[T])
	}
	if strings.HasPrefix(kind, "ts") {
		return &c13Prov[T]{d: cardinality.ThreadSafeDuplex(d), wrapped: true}
	}
	if strings.HasPrefix(kind, "spy") {
		spy := &c13Spy[T]{Duplex: d, last: new(cardinality.Provider[T]), gate: new(func())}
		return &c13Prov[T]{d: cardinality.ThreadSafeDuplex[T](*spy), wrapped: true, spy: spy}
	}
	return &c13Prov[T]{d: d}
}

func c13NonDuplex[T number]() cardinality.Provider[T] {
	var z T
	var p cardinality.Provider[T]
	switch any(z).(type) {
	case uint32:
		p = any(cardinality.NewHyperLogLog32Provider()).(cardinality.Provider[T])
	default:
		p = any(cardinality.NewHyperLogLog64Provider()).(cardinality.Provider[T])
	}
	p.Add(1, 2, 3, 65536, 70000)
	return p
}

func c13Binop[T number](d cardinality.Duplex[T], op string, other cardinality.Provider[T]) bool {
	switch op {
	case "or":
		d.Or(other)
	case "and":
		d.And(other)
	case "andnot":
		d.AndNot(other)
	case "xor":
		d.Xor(other)
	default:
		return false
	}
	return true
}

func c13IsOp(op string) bool { return op == "or" || op == "and" || op == "andnot" || op == "xor" }

func c13KindName[T number](p *c13Prov[T]) string {
	var z T
	w := "64"
	if _, ok := any(z).(uint32); ok {
		w = "32"
	}
	if p.wrapped {
		return "ts" + w
	}
	return "b" + w
}

// generic part of Step for one width
func c13Step[T number](r *c13Runner, m map[string]*c13Prov[T], bits int, t []string) (string, bool) {
	get := func(name string) *c13Prov[T] { return m[name] }
	mut := func(p *c13Prov[T], f func()) string {
		if p.dead {
			return "deadlock"
		}
		if !c13Call(f) {
			p.dead = true
			return "deadlock"
		}
		return "ok " + c13Obs(p)
	}
	switch {
	case len(t) >= 2 && t[0] == "add":
		p := get(t[1])
		if p == nil {
			return "", false
		}
		vs, ok := c13ParseVals[T](t[2:], bits)
		if !ok {
			return "bad-op", true
		}
		return mut(p, func() { p.d.Add(vs...) }), true
	case len(t) == 5 && t[0] == "addrange":
		p := get(t[1])
		if p == nil {
			return "", false
		}
		lo, e1 := strconv.ParseUint(t[2], 10, 64)
		n, e2 := strconv.ParseUint(t[3], 10, 32)
		step, e3 := strconv.ParseUint(t[4], 10, 32)
		if e1 != nil || e2 != nil || e3 != nil || step < 1 {
			return "bad-op", true
		}
		if bits == 32 && lo+n*step >= 1<<32 {
			return "bad-op", true
		}
		vs := make([]T, n)
		for i := range vs {
			vs[i] = T(lo + uint64(i)*step)
		}
		r.stats.Inc("op.addrange")
		return mut(p, func() { p.d.Add(vs...) }), true
	case len(t) == 3 && t[0] == "remove":
		p := get(t[1])
		if p == nil {
			return "", false
		}
		vs, ok := c13ParseVals[T](t[2:], bits)
		if !ok {
			return "bad-op", true
		}
		return mut(p, func() { p.d.Remove(vs[0]) }), true
	case len(t) == 2 && t[0] == "clear":
		p := get(t[1])
		if p == nil {
			return "", false
		}
		return mut(p, func() { p.d.Clear() }), true
	case len(t) == 3 && t[0] == "cadd":
		p := get(t[1])
		if p == nil {
			return "", false
		}
		vs, ok := c13ParseVals[T](t[2:], bits)
		if !ok {
			return "bad-op", true
		}
		if p.dead {
			return "deadlock", true
		}
		var res bool
		if !c13Call(func() { res = p.d.CheckedAdd(vs[0]) }) {
			p.dead = true
			return "deadlock", true
		}
		return fmt.Sprintf("%v %s", res, c13Obs(p)), true
	case len(t) == 3 && t[0] == "contains":
		p := get(t[1])
		if p == nil {
			return "", false
		}
		vs, ok := c13ParseVals[T](t[2:], bits)
		if !ok {
			return "bad-op", true
		}
		if p.dead {
			return "deadlock", true
		}
		var res bool
		if !c13Call(func() { res = p.d.Contains(vs[0]) }) {
			p.dead = true
			return "deadlock", true
		}
		return fmt.Sprintf("%v", res), true
	case len(t) == 2 && t[0] == "card":
		p := get(t[1])
		if p == nil {
			return "", false
		}
		if p.dead {
			return "deadlock", true
		}
		var res uint64
		if !c13Call(func() { res = p.d.Cardinality() }) {
			p.dead = true
			return "deadlock", true
		}
		return fmt.Sprintf("%d", res), true
	case len(t) == 2 && t[0] == "slice":
		p := get(t[1])
		if p == nil {
			return "", false
		}
		return c13Obs(p), true
	case len(t) == 3 && t[0] == "each":
		p := get(t[1])
		if p == nil {
			return "", false
		}
		k, err := strconv.Atoi(t[2])
		if err != nil || k < 0 {
			return "bad-op", true
		}
		if p.dead {
			return "deadlock", true
		}
		var seen []T
		if !c13Call(func() {
			p.d.Each(func(v T) bool {
				seen = append(seen, v)
				return len(seen) < k
			})
		}) {
			p.dead = true
			return "deadlock", true
		}
		parts := make([]string, len(seen))
		for i, v := range seen {
			parts[i] = strconv.FormatUint(uint64(v), 10)
		}
		return "[" + strings.Join(parts, ",") + "]", true
	case len(t) == 3 && t[0] == "clone":
		src := get(t[2])
		if src == nil {
			return "", false
		}
		if m[t[1]] != nil || r.m32[t[1]] != nil || r.m64[t[1]] != nil {
			return "bad-op", true
		}
		if src.dead {
			return "deadlock", true
		}
		var c cardinality.Duplex[T]
		if !c13Call(func() { c = src.d.Clone() }) {
			src.dead = true
			return "deadlock", true
		}
		np := &c13Prov[T]{d: c, wrapped: src.wrapped}
		m[t[1]] = np
		return "ok " + c13Obs(np), true
	case len(t) == 4 && t[0] == "opprivate":
		// opprivate <a> <b> <v>: a is a spy wrapper whose last binary operation had the wrapper b as operand. b.Add(v), then:
		// does the operand object a's inner provider was given contain v? `true` = it was a private snapshot
		a, b := get(t[1]), get(t[2])
		if a == nil {
			return "", false
		}
		vs, ok := c13ParseVals[T](t[3:], bits)
		if b == nil || !ok || a.spy == nil || *a.spy.last == nil || !b.wrapped || a.dead || b.dead {
			return "bad-op", true
		}
		given, isDuplex := (*a.spy.last).(cardinality.Duplex[T])
		if !isDuplex {
			return "bad-op", true
		}
		private := false
		if !c13Call(func() { b.d.Add(vs[0]); private = !given.Contains(vs[0]) }) {
			return "deadlock", true
		}
		r.stats.Inc("op.opprivate")
		return fmt.Sprintf("%v %s", private, c13Obs(b)), true
	case len(t) == 7 && t[0] == "fillrace" && c13IsOp(t[1]):
		a, b := get(t[2]), get(t[3])
		if a == nil {
			return "", false
		}
		base, e1 := strconv.ParseUint(t[4], 10, 64)
		m, e2 := strconv.Atoi(t[5])
		rounds, e3 := strconv.Atoi(t[6])
		if b == nil || a == b || e1 != nil || e2 != nil || e3 != nil || !a.wrapped || !b.wrapped || a.dead || b.dead || m < 1 || m > 100000 {
			return "bad-op", true
		}
		return c13FillRace(r, t[1], a, b, base, m, rounds, bits), true
	case len(t) == 5 && t[0] == "eachcall":
		// eachcall <x> <k> remove|cadd|add|contains <y>: x.Each(func(v){ y.M(v); return visited < k })  (k = 0: all); y is
		// ANOTHER provider: a clone of x, an operand, an unrelated wrapper — the delegate runs while x's lock is held
		x, y := get(t[1]), get(t[4])
		if x == nil {
			return "", false
		}
		k, err := strconv.Atoi(t[2])
		if y == nil || x == y || err != nil || k < 0 {
			return "bad-op", true
		}
		if x.dead || y.dead {
			return "deadlock", true
		}
		var call func(v T)
		switch t[3] {
		case "remove":
			call = func(v T) { y.d.Remove(v) }
		case "cadd":
			call = func(v T) { y.d.CheckedAdd(v) }
		case "add":
			call = func(v T) { y.d.Add(v) }
		case "contains":
			call = func(v T) { y.d.Contains(v) }
		default:
			return "bad-op", true
		}
		r.stats.Inc("op.eachcall." + c13KindName(x) + "/" + c13KindName(y))
		if !c13Call(func() {
			seen := 0
			x.d.Each(func(v T) bool {
				call(v)
				seen++
				return k == 0 || seen < k
			})
		}) {
			if x.wrapped {
				x.dead = true
			}
			r.stats.Inc("deadlock.eachcall")
			return "deadlock", true
		}
		return "ok " + c13Obs(x) + " | " + c13Obs(y), true
	case len(t) == 2 && t[0] == "toids":
		// graph.DuplexToGraphIDs on a quiescent provider
		x := get(t[1])
		if x == nil {
			return "", false
		}
		if x.dead {
			return "deadlock", true
		}
		var ids []graph.ID
		if !c13Call(func() { ids = graph.DuplexToGraphIDs(x.d) }) {
			return "deadlock", true
		}
		vals := make([]uint64, len(ids))
		for i, id := range ids {
			vals[i] = id.Uint64()
		}
		if !sort.SliceIsSorted(vals, func(i, j int) bool { return vals[i] < vals[j] }) {
			return fmt.Sprintf("unsorted-ids %v", vals), true
		}
		r.stats.Inc("op.toids")
		return fmt.Sprintf("%d %s", len(vals), c13Rle(vals)), true
	case len(t) == 4 && t[0] == "toidsrace":
		x := get(t[1])
		if x == nil {
			return "", false
		}
		lo, e1 := strconv.ParseUint(t[2], 10, 64)
		n, e2 := strconv.ParseUint(t[3], 10, 32)
		if e1 != nil || e2 != nil || x.dead || !x.wrapped || lo == 0 || (bits == 32 && lo+n >= 1<<32) {
			return "bad-op", true
		}
		return c13ToIDsRace(r, x, lo, n), true
	case len(t) == 5 && t[0] == "caddrace":
		x := get(t[1])
		if x == nil {
			return "", false
		}
		lo, e1 := strconv.ParseUint(t[2], 10, 64)
		n, e2 := strconv.ParseUint(t[3], 10, 32)
		g, e3 := strconv.Atoi(t[4])
		if e1 != nil || e2 != nil || e3 != nil || g < 1 || g > 64 || x.dead || !x.wrapped || (bits == 32 && lo+n >= 1<<32) {
			return "bad-op", true
		}
		// g goroutines walk the same value sequence: every value is probed by all of them at about the same time
		var total atomic.Int64
		var wg sync.WaitGroup
		start := make(chan struct{})
		for i := 0; i < g; i++ {
			wg.Add(1)
			go func() {
				defer wg.Done()
				<-start
				c := 0
				for k := uint64(0); k < n; k++ {
					if x.d.CheckedAdd(T(lo + k)) {
						c++
					}
				}
				total.Add(int64(c))
			}()
		}
		close(start)
		wg.Wait()
		r.stats.Inc("caddrace.runs")
		return fmt.Sprintf("ok trues=%d %s", total.Load(), c13Obs(x)), true
	case len(t) == 3 && t[0] == "kindor":
		// graph.KindBitmaps.AddDuplexToKind / graph.ThreadSafeKindBitmap.Or with caller-provided providers (64 bit only)
		x, y := get(t[1]), get(t[2])
		if x == nil {
			return "", false
		}
		if y == nil || bits != 64 || x.dead || y.dead {
			return "bad-op", true
		}
		dx, dy := any(x.d).(cardinality.Duplex[uint64]), any(y.d).(cardinality.Duplex[uint64])
		var a, b []uint64
		if !c13Call(func() {
			kind := graph.StringKind("K")
			kb := graph.KindBitmaps{}
			kb.AddDuplexToKind(dx, kind)
			kb.AddDuplexToKind(dy, kind)
			a = kb.Get(kind).Slice()
			tsk := graph.NewThreadSafeKindBitmap()
			tsk.Or(kind, dx)
			tsk.Or(kind, dy)
			b = tsk.Get(kind).Slice()
		}) {
			return "deadlock", true
		}
		if c13Rle(a) != c13Rle(b) {
			return fmt.Sprintf("kindbitmaps-disagree %s %s", c13Rle(a), c13Rle(b)), true
		}
		r.stats.Inc("op.kindor")
		return fmt.Sprintf("%d %s | %s | %s", len(a), c13Rle(a), c13Obs(x), c13Obs(y)), true
	case len(t) >= 3 && t[0] == "comm":
		// comm <v> or:a,b and:c …  (commutative.go)
		first := strings.SplitN(t[2], ":", 2)
		if len(first) != 2 || get(strings.Split(first[1], ",")[0]) == nil {
			return "", false
		}
		vs, ok := c13ParseVals[T](t[1:2], bits)
		if !ok {
			return "bad-op", true
		}
		var cd cardinality.CommutativeDuplexes[T]
		for _, tok := range t[2:] {
			kv := strings.SplitN(tok, ":", 2)
			if len(kv) != 2 {
				return "bad-op", true
			}
			var ds []cardinality.Duplex[T]
			for _, n := range strings.Split(kv[1], ",") {
				p := get(n)
				if p == nil || p.dead {
					return "bad-op", true
				}
				ds = append(ds, p.d)
			}
			switch kv[0] {
			case "or":
				cd.Or(cardinality.CommutativeOr(ds[0]).Or(ds[1:]...))
			case "and":
				cd.And(cardinality.CommutativeOr(ds...))
			default:
				return "bad-op", true
			}
		}
		var res bool
		if !c13Call(func() { res = cd.Contains(vs[0]) }) {
			return "deadlock", true
		}
		r.stats.Inc("op.comm")
		return fmt.Sprintf("%v", res), true
	case len(t) == 3 && t[0] == "nd":
		p := get(t[2])
		if p == nil {
			return "", false
		}
		if !c13IsOp(t[1]) {
			return "bad-op", true
		}
		r.stats.Inc("path.non-duplex-operand")
		return mut(p, func() { c13Binop(p.d, t[1], c13NonDuplex[T]()) }), true
	case len(t) == 3 && t[0] == "viewop":
		// the operand is a thread-safe VIEW of the receiver's own set (cardinality.ThreadSafeDuplex(receiver)): a different
		// implementation over the same storage, so the receiver changes while the operand is being read (seed C13-r6-1).
		// Plain receivers only: a wrapper receiver would wait for its own mutex.
		p := get(t[2])
		if p == nil {
			return "", false
		}
		if !c13IsOp(t[1]) || p.wrapped {
			return "bad-op", true
		}
		r.stats.Inc("operand.view-of-receiver." + t[1])
		view := cardinality.ThreadSafeDuplex(p.d)
		if !c13Call(func() { c13Binop(p.d, t[1], cardinality.Provider[T](view)) }) {
			r.stats.Inc("deadlock." + t[1])
			return "deadlock", true
		}
		return "ok " + c13Obs(p), true
	case len(t) == 3 && c13IsOp(t[0]):
		p, q := get(t[1]), get(t[2])
		if p == nil {
			return "", false
		}
		if q == nil {
			return "bad-op", true
		}
		path := "native"
		if q.wrapped {
			path = "fallback"
		}
		r.stats.Inc(fmt.Sprintf("pair.%s.%s/%s", t[0], c13KindName(p), c13KindName(q)))
		r.stats.Inc("path." + path)
		if p == q {
			r.stats.Inc("operand.self." + c13KindName(p))
		}
		if p.dead {
			return "deadlock", true
		}
		if !c13Call(func() { c13Binop(p.d, t[0], cardinality.Provider[T](q.d)) }) {
			// the receiver's goroutine is parked: inside its own Lock() (wrapper receiver: mutex held forever) or in
			// the operand's Lock() (plain receiver: the bitmap itself stays usable)
			if p.wrapped {
				p.dead = true
			}
			r.stats.Inc("deadlock." + t[0])
			return "deadlock", true
		}
		return "ok " + c13Obs(p) + " | " + c13Obs(q), true
	case len(t) == 5 && t[0] == "abba" && (t[1] == "and" || t[1] == "or"):
		a, b := get(t[2]), get(t[3])
		if a == nil {
			return "", false
		}
		iters, err := strconv.Atoi(t[4])
		if b == nil || a == b || err != nil || a.dead || b.dead || !a.wrapped || !b.wrapped {
			return "bad-op", true
		}
		for i := 0; i < iters; i++ {
			start := make(chan struct{})
			var ready sync.WaitGroup
			ready.Add(2)
			j1 := c13Start(func() { ready.Done(); <-start; c13Binop(a.d, t[1], cardinality.Provider[T](b.d)) })
			j2 := c13Start(func() { ready.Done(); <-start; c13Binop(b.d, t[1], cardinality.Provider[T](a.d)) })
			ready.Wait()
			close(start)
			for !(j1.finished() && j2.finished()) {
				time.Sleep(100 * time.Microsecond)
				bothParked := func() bool { return !j1.finished() && !j2.finished() && j1.parked() && j2.parked() }
				if bothParked() {
					// generous: both must stay parked in Mutex.Lock over three more looks (~25 ms); with two goroutines
					// and nobody else touching the wrappers that is a cycle, not a hand-over
					hung := true
					for _, d := range []time.Duration{500 * time.Microsecond, 5 * time.Millisecond, 20 * time.Millisecond} {
						time.Sleep(d)
						if !bothParked() {
							hung = false
							break
						}
					}
					if hung {
						a.dead, b.dead = true, true
						r.stats.Inc("deadlock.abba")
						return "deadlock", true
					}
				}
			}
			if j1.pan != nil {
				panic(j1.pan)
			}
			if j2.pan != nil {
				panic(j2.pan)
			}
		}
		r.stats.Inc("abba.returned")
		return "ok " + c13Obs(a) + " | " + c13Obs(b), true
	case len(t) == 5 && t[0] == "pairs":
		x, o := get(t[1]), get(t[2])
		if x == nil {
			return "", false
		}
		lo, e1 := strconv.ParseUint(t[3], 10, 64)
		n, e2 := strconv.ParseUint(t[4], 10, 32)
		if o == nil || x == o || e1 != nil || e2 != nil || x.dead || o.dead || !x.wrapped || !o.wrapped {
			return "bad-op", true
		}
		if bits == 32 && lo+2*n >= 1<<32 {
			return "bad-op", true
		}
		return c13Pairs(r, x, o, lo, n), true
	case len(t) >= 3 && t[0] == "conc":
		p := get(t[1])
		if p == nil {
			return "", false
		}
		return c13Conc(r, m, p, bits, t[2:]), true
	}
	return "", false
}

// value i of the writer's sequence in fillrace: alternately in a low and in a high chunk (9 chunks / 9 sub-bitmaps up), so that
// a reader walking the containers in key order while they grow sees something that is NOT a prefix of the sequence
func c13FillSeq(base uint64, bits, i int) uint64 {
	stride := uint64(9) << 16
	if bits == 64 {
		stride = uint64(9) << 32
	}
	return base + uint64(i%2)*stride + uint64(i/2)
}

// fillrace <op> <a> <b> <base> <m> <rounds>: the operand wrapper b is EMPTY when a.op(b) starts and a writer fills it with
// the sequence c13FillSeq while the operation runs. The wrapper snapshots b under b's lock, so whatever the interleaving
// the result is op(a0, P) for some PREFIX P of the sequence. Every round starts from the same a0; a0 and an empty b are
// restored at the end. When a is a spy wrapper the interleaving is pinned: the writer starts only after a's inner provider has
// been handed the operand (so the snapshot is the EMPTY set, exactly), and the real operation runs while the writer is
// half-way through — a result other than op(a0, ∅) means the operand object is not a snapshot.
func c13FillRace[T number](r *c13Runner, op string, a, b *c13Prov[T], base uint64, m, rounds, bits int) string {
	a0 := a.d.Slice()
	inA0 := make(map[T]bool, len(a0))
	for _, v := range a0 {
		inA0[v] = true
	}
	bad := 0
	detail := ""
	var pan any
	for round := 0; round < rounds && pan == nil; round++ {
		a.d.Clear()
		a.d.Add(a0...)
		b.d.Clear()
		start := make(chan struct{})
		var progress atomic.Int64
		gated := a.spy != nil
		handed := make(chan struct{})
		if gated {
			once := false
			*a.spy.gate = func() {
				if once {
					return
				}
				once = true
				close(handed)
				for progress.Load() < int64(m/2) {
					runtime.Gosched()
				}
			}
		}
		var wg sync.WaitGroup
		wg.Add(2)
		go func() {
			defer wg.Done()
			defer func() {
				if p := recover(); p != nil {
					pan = p
				}
			}()
			<-start
			if gated {
				<-handed
			}
			for i := 0; i < m; i++ {
				b.d.Add(T(c13FillSeq(base, bits, i)))
				progress.Add(1)
			}
		}()
		go func() {
			defer wg.Done()
			defer func() {
				if p := recover(); p != nil {
					pan = p
				}
			}()
			<-start
			for spin := round % 7; spin > 0; spin-- {
				runtime.Gosched()
			}
			c13Binop(a.d, op, cardinality.Provider[T](b.d))
		}()
		close(start)
		wg.Wait()
		if gated {
			*a.spy.gate = nil
		}
		if pan != nil {
			break
		}
		after := map[T]bool{}
		for _, v := range a.d.Slice() {
			after[v] = true
		}
		// R_k = op(a0, first k values); diff = |R_k △ after|, maintained incrementally
		cur := map[T]bool{}
		if op != "and" {
			for v := range inA0 {
				cur[v] = true
			}
		}
		diff := 0
		for v := range cur {
			if !after[v] {
				diff++
			}
		}
		for v := range after {
			if !cur[v] {
				diff++
			}
		}
		set := func(v T, present bool) {
			if cur[v] == present {
				return
			}
			if cur[v] == after[v] {
				diff++
			} else {
				diff--
			}
			if present {
				cur[v] = true
			} else {
				delete(cur, v)
			}
		}
		okRound := diff == 0
		for i := 0; i < m && !okRound && !gated; i++ {
			v := T(c13FillSeq(base, bits, i))
			switch op {
			case "or":
				set(v, true)
			case "and":
				if inA0[v] {
					set(v, true)
				}
			case "andnot":
				set(v, false)
			case "xor":
				set(v, !inA0[v])
			}
			okRound = diff == 0
		}
		if !okRound {
			if bad == 0 {
				detail = fmt.Sprintf("round=%d result-size=%d", round, len(after))
			}
			bad++
		}
	}
	if pan != nil {
		panic(pan)
	}
	a.d.Clear()
	a.d.Add(a0...)
	b.d.Clear()
	r.stats.Inc("fillrace.runs." + op)
	if bad > 0 {
		return fmt.Sprintf("ok bad=%d %s | %s first=%s", bad, c13Obs(a), c13Obs(b), detail)
	}
	return fmt.Sprintf("ok bad=0 %s | %s", c13Obs(a), c13Obs(b))
}

// toidsrace <x> <lo> <n>: a writer slides a window over wrapper x (Add(lo+k); Remove(lo+k-8)) while a reader keeps
// converting x with graph.DuplexToGraphIDs. Oracle for every conversion: no panic, strictly ascending (so no
// duplicates), every ID was a member at some point of the run (initial content or one of the window values; 0 never is).
func c13ToIDsRace[T number](r *c13Runner, x *c13Prov[T], lo, n uint64) string {
	initial := map[uint64]struct{}{}
	for _, v := range x.d.Slice() {
		initial[uint64(v)] = struct{}{}
	}
	var done atomic.Bool
	var wg sync.WaitGroup
	bad, conversions := 0, 0
	detail := ""
	var pan any
	wg.Add(2)
	go func() {
		defer wg.Done()
		defer done.Store(true)
		for k := uint64(0); k < n; k++ {
			x.d.Add(T(lo + k))
			if k >= 8 {
				x.d.Remove(T(lo + k - 8))
			}
		}
	}()
	go func() {
		defer wg.Done()
		defer func() {
			if p := recover(); p != nil {
				pan = p
			}
		}()
		check := func() {
			ids := graph.DuplexToGraphIDs(x.d)
			conversions++
			prev := uint64(0)
			for i, id := range ids {
				u := id.Uint64()
				_, wasInitial := initial[u]
				if (i > 0 && u <= prev) || !(wasInitial || (u >= lo && u < lo+n)) {
					if bad == 0 {
						detail = fmt.Sprintf("ids[%d]=%d", i, u)
					}
					bad++
					return
				}
				prev = u
			}
		}
		for !done.Load() {
			check()
		}
		check()
	}()
	wg.Wait()
	if pan != nil {
		panic(pan)
	}
	r.stats.Inc("toidsrace.runs")
	if bad > 0 {
		return fmt.Sprintf("ok bad=%d %s first=%s", bad, c13Obs(x), detail)
	}
	return fmt.Sprintf("ok bad=0 %s", c13Obs(x))
}

// pairs <x> <o> <lo> <n>: a writer inserts the pairs (lo+2k, lo+2k+1) into wrapper o, each pair by ONE o.Add call (so
// under o's lock a pair is in o completely or not at all), while a merger keeps calling x.Or(o) and inspects x after
// every merge. A merge that leaves exactly one element of a pair in x read o while an Add was in progress (a torn
// read: o was not read under its lock). No race detector needed.
func c13Pairs[T number](r *c13Runner, x, o *c13Prov[T], lo, n uint64) string {
	var done atomic.Bool
	var wg sync.WaitGroup
	torn := 0
	var pan any
	wg.Add(2)
	go func() {
		defer wg.Done()
		defer done.Store(true)
		defer func() {
			if p := recover(); p != nil {
				pan = p
			}
		}()
		for k := uint64(0); k < n; k++ {
			o.d.Add(T(lo+2*k), T(lo+2*k+1))
		}
	}()
	go func() {
		defer wg.Done()
		defer func() {
			if p := recover(); p != nil {
				pan = p
			}
		}()
		check := func() {
			x.d.Or(cardinality.Provider[T](o.d))
			vals := x.d.Slice() // ascending: the two elements of a pair are neighbours
			for i := 0; i < len(vals); i++ {
				u := uint64(vals[i])
				if u < lo || u >= lo+2*n {
					continue
				}
				if (u-lo)%2 == 0 && i+1 < len(vals) && uint64(vals[i+1]) == u+1 {
					i++ // complete pair
					continue
				}
				torn++
				return
			}
		}
		for !done.Load() {
			check()
		}
		check()
	}()
	wg.Wait()
	if pan != nil {
		panic(pan)
	}
	r.stats.Inc("pairs.runs")
	return fmt.Sprintf("ok torn=%d %s | %s", torn, c13Obs(x), c13Obs(o))
}

// conc <x> <thread ops…> / <thread ops…> / …   thread op: add:v,v | cadd:v | remove:v | or:name | xor:name | andnot:name | has:v | card | each
func c13Conc[T number](r *c13Runner, m map[string]*c13Prov[T], p *c13Prov[T], bits int, toks []string) string {
	if p.dead {
		return "deadlock"
	}
	var threads [][]func() int
	cur := []func() int{}
	for _, tk := range toks {
		if tk == "/" {
			threads = append(threads, cur)
			cur = []func() int{}
			continue
		}
		name, arg, _ := strings.Cut(tk, ":")
		switch name {
		case "add":
			vs, ok := c13ParseVals[T](strings.Split(arg, ","), bits)
			if !ok {
				return "bad-op"
			}
			cur = append(cur, func() int { p.d.Add(vs...); return 0 })
		case "cadd", "remove", "has":
			vs, ok := c13ParseVals[T]([]string{arg}, bits)
			if !ok {
				return "bad-op"
			}
			v := vs[0]
			switch name {
			case "cadd":
				cur = append(cur, func() int {
					if p.d.CheckedAdd(v) {
						return 1
					}
					return 0
				})
			case "remove":
				cur = append(cur, func() int { p.d.Remove(v); return 0 })
			default:
				cur = append(cur, func() int { p.d.Contains(v); return 0 })
			}
		case "or", "xor", "andnot":
			q := m[arg]
			if q == nil || q == p || q.dead {
				return "bad-op"
			}
			op := name
			cur = append(cur, func() int { c13Binop(p.d, op, cardinality.Provider[T](q.d)); return 0 })
		case "card":
			cur = append(cur, func() int { p.d.Cardinality(); return 0 })
		case "each":
			cur = append(cur, func() int { n := 0; p.d.Each(func(T) bool { n++; return n < 5 }); return 0 })
		case "slice":
			cur = append(cur, func() int { _ = p.d.Slice(); return 0 })
		default:
			return "bad-op"
		}
	}
	threads = append(threads, cur)
	start := make(chan struct{})
	var wg sync.WaitGroup
	var total atomic.Int64
	for _, th := range threads {
		wg.Add(1)
		th := th
		go func() {
			defer wg.Done()
			<-start
			n := 0
			for _, f := range th {
				n += f()
				runtime.Gosched()
			}
			total.Add(int64(n))
		}()
	}
	close(start)
	wg.Wait()
	r.stats.Inc("conc.runs")
	r.stats.Add("conc.goroutines", int64(len(threads)))
	return fmt.Sprintf("ok %s cadd=%d", c13Obs(p), total.Load())
}

func (r *c13Runner) Step(t []string, raw string) (ans string) {
	defer func() {
		if p := recover(); p != nil {
			msg := fmt.Sprint(p)
			r.stats.Inc("panics")
			if strings.Contains(msg, "index out of range") {
				ans = "panic index-out-of-range"
			} else {
				ans = "panic other " + strings.ReplaceAll(msg, "\n", " ")
			}
		}
	}()
	return r.step(t)
}

func (r *c13Runner) step(t []string) string {
	switch {
	case len(t) == 1 && t[0] == "reset":
		r.m32, r.m64 = map[string]*c13Prov[uint32]{}, map[string]*c13Prov[uint64]{}
		return "ok"
	case len(t) == 2 && t[0] == "mode" && (t[1] == "fixed" || t[1] == "current" || t[1] == "snapshot" || t[1] == "nosnapshot"):
		return "ok"
	case len(t) == 3 && t[0] == "new":
		if r.m32[t[1]] != nil || r.m64[t[1]] != nil {
			return "bad-op"
		}
		switch t[2] {
		case "b32", "ts32", "spy32":
			r.m32[t[1]] = c13New[uint32](t[2])
		case "b64", "ts64", "spy64":
			r.m64[t[1]] = c13New[uint64](t[2])
		default:
			return "bad-op"
		}
		r.stats.Inc("new." + t[2])
		return "ok"
	}
	if ans, ok := c13Step(r, r.m32, 32, t); ok {
		return ans
	}
	if ans, ok := c13Step(r, r.m64, 64, t); ok {
		return ans
	}
	return "bad-op"
}

// ---------------------------------------------------------------------------------------------- generator

type c13Gen struct {
	rng     *Rng
	w       *bufio.Writer
	stats   *Stats
	n       int
	rebinds int
}

func (g *c13Gen) begin(label string) {
	g.n++
	fmt.Fprintf(g.w, "# case %d %s\n", g.n, label)
	fmt.Fprintln(g.w, "reset")
}
func (g *c13Gen) line(format string, a ...any) { fmt.Fprintf(g.w, format+"\n", a...) }

func c13Join(vs []uint64) string {
	parts := make([]string, len(vs))
	for i, v := range vs {
		parts[i] = strconv.FormatUint(v, 10)
	}
	return strings.Join(parts, " ")
}

// value pool biased to container boundaries: a*2^16+b (and a*2^32+b for 64 bit)
// the boundary alphabet every suite draws from, for receiver and operand alike: 0, both sides of 2^16 and 2^32, 2^31 /
// 2^63 (sign bit of the narrower signed type), and the two largest values of the width (2^64-1 = graph.ID(-1))
func c13Boundary(bits int) []uint64 {
	if bits == 32 {
		return []uint64{0, 65535, 65536, 65537, 1<<31 - 1, 1 << 31, 1<<32 - 2, 1<<32 - 1}
	}
	return []uint64{0, 65535, 65536, 65537, 1<<32 - 1, 1 << 32, 1<<32 + 1, 1<<63 - 1, 1 << 63, 1<<64 - 2, 1<<64 - 1}
}

func (g *c13Gen) pool(bits int, chunks, perChunk int, low bool) []uint64 {
	r := g.rng
	his := []uint64{0, 1, 2, 3, 5, 65535}
	offs := []uint64{0, 1, 2, 3, 4095, 4096, 4097, 32767, 32768, 65533, 65534, 65535}
	var keys []uint64
	for len(keys) < chunks {
		k := Pick(r, his)
		if r.Chance(1, 4) {
			k = uint64(r.Intn(65536))
		}
		if bits == 64 && r.Chance(1, 2) {
			hi := []uint64{1, 2, 6, 1 << 31, 1<<32 - 2}
			if low {
				hi = []uint64{1, 2, 6, 1 << 20} // dense cases stay below 2^63 (Lean: unboxed naturals)
			}
			k += uint64(Pick(r, hi)) << 16 // crosses 2^32: high word != 0
			if r.Chance(1, 3) {
				k = uint64(r.Intn(4)) << 16 // several 32-bit sub-bitmaps with one chunk each
			}
		}
		keys = append(keys, k)
	}
	var out []uint64
	for _, k := range keys {
		for i := 0; i < perChunk; i++ {
			o := Pick(r, offs)
			if r.Chance(1, 2) {
				o = uint64(r.Intn(65536))
			}
			if r.Chance(1, 3) {
				o = uint64(r.Intn(8))
			}
			out = append(out, k<<16+o)
		}
	}
	// always some boundary values (sparse: the dense material of `low` pools stays below 2^63)
	b := c13Boundary(bits)
	for i := 2 + r.Intn(4); i > 0; i-- {
		out = append(out, Pick(r, b))
	}
	if r.Chance(1, 2) {
		out = append(out, b[len(b)-1]) // the largest value of the width, often
	}
	return out
}

func (g *c13Gen) sample(pool []uint64, n int) []uint64 {
	out := make([]uint64, 0, n)
	for i := 0; i < n; i++ {
		out = append(out, Pick(g.rng, pool))
	}
	return out
}

var c13Ops = []string{"or", "and", "andnot", "xor"}

// one random case for an ordered (receiver kind, operand kind) pair
func (g *c13Gen) randomCase(bits int, rk, ok string, big bool) {
	r := g.rng
	g.begin(fmt.Sprintf("random pair=%s/%s big=%v", rk, ok, big))
	plain := fmt.Sprintf("b%d", bits)
	ts := fmt.Sprintf("ts%d", bits)
	third := plain
	if r.Bool() {
		third = ts
	}
	// roles -> current provider names (a role is re-bound to a fresh clone after a native 64-bit Xor, see xorRebind)
	roles := []string{"r", "o", "p"}
	name := map[string]string{"r": "r", "o": "o", "p": "p"}
	kind := map[string]string{"r": rk, "o": ok, "p": third}
	for _, ro := range roles {
		g.line("new %s %s", name[ro], kind[ro])
	}
	chunks := 1 + r.Intn(4)
	per := 2 + r.Intn(6)
	pool := g.pool(bits, chunks, per, big)
	for _, ro := range roles {
		if r.Chance(1, 8) {
			continue // stays empty
		}
		g.line("add %s %s", name[ro], c13Join(g.sample(pool, 1+r.Intn(len(pool)))))
	}
	if big {
		// dense material: > 4096 per chunk (bitmap containers), around the 4096 threshold, stride 2, across a chunk boundary
		budget := 2
		for _, ro := range roles {
			if budget == 0 || r.Chance(1, 3) {
				continue
			}
			budget--
			base := pool[r.Intn(len(pool))] &^ 0xffff
			cnt := Pick(r, []int{4095, 4096, 4097, 4097, 4098, 4100, 4200, 5000})
			step := Pick(r, []int{1, 1, 2, 3})
			off := Pick(r, []int{0, 0, 1, 100, 65536 - 4097, 65536 - 2000})
			lo := base + uint64(off)
			if lo > ^uint64(0)-200000 || (bits == 32 && lo+uint64(cnt*step) >= 1<<32) {
				lo = 0
			}
			g.line("addrange %s %d %d %d", name[ro], lo, cnt, step)
			g.stats.Inc("dense_run")
			// thin it out again so that removal paths / bitmap->array conversions are in the history
			for k := r.Intn(4); k > 0; k-- {
				g.line("remove %s %d", name[ro], lo+uint64(r.Intn(cnt)*step))
			}
		}
	}
	nops := 6 + r.Intn(14)
	if big {
		nops = 3 + r.Intn(5)
	}
	clones := 0
	for i := 0; i < nops; i++ {
		x := Pick(r, roles)
		switch c := r.Intn(20); {
		case c < 9:
			// binary op; receiver/operand roles biased to the pair under test
			a, b := "r", "o"
			if r.Chance(1, 4) {
				a, b = Pick(r, roles), Pick(r, roles)
			}
			op := Pick(r, c13Ops)
			g.line("%s %s %s", op, name[a], name[b])
			g.xorRebind(bits, op, a, b, name, kind)
		case c < 11:
			g.line("add %s %s", name[x], c13Join(g.sample(pool, 1+r.Intn(4))))
		case c < 13:
			g.line("remove %s %d", name[x], Pick(r, pool))
		case c < 14:
			g.line("cadd %s %d", name[x], Pick(r, pool))
		case c < 15:
			g.line("contains %s %d", name[x], Pick(r, pool))
		case c < 16:
			g.line("each %s %d", name[x], r.Intn(5))
		case c < 17:
			g.line("card %s", name[x])
		case c < 18 && clones < 2:
			clones++
			cn := fmt.Sprintf("c%d", clones)
			g.line("clone %s %s", cn, name[x])
			// mutate the clone, then the original must be unchanged (and vice versa)
			g.line("add %s %s", cn, c13Join(g.sample(pool, 2)))
			g.line("remove %s %d", cn, Pick(r, pool))
			g.line("slice %s", name[x])
			g.line("remove %s %d", name[x], Pick(r, pool))
			g.line("slice %s", cn)
			roles = append(roles, cn)
			name[cn] = cn
			kind[cn] = kind[x]
		case c < 19 && r.Chance(1, 2):
			// delegate of Each calling another provider; consumers of a provider in graph/types.go
			y := Pick(r, roles)
			switch {
			case y != x && r.Chance(2, 3):
				g.line("eachcall %s %d %s %s", name[x], r.Intn(4), Pick(r, []string{"remove", "cadd", "add", "contains"}), name[y])
			case bits == 64 && r.Bool():
				g.line("kindor %s %s", name[x], name[y])
			default:
				g.line("toids %s", name[x])
			}
		case c < 19:
			if r.Bool() {
				// commutative.go: membership over or/and groups of the case's providers
				toks := []string{}
				for k := 1 + r.Intn(3); k > 0; k-- {
					grp := Pick(r, []string{"or", "or", "and"})
					if len(toks) == 0 {
						grp = "or"
					}
					n1, n2 := name[Pick(r, roles)], name[Pick(r, roles)]
					if r.Bool() {
						toks = append(toks, grp+":"+n1)
					} else {
						toks = append(toks, grp+":"+n1+","+n2)
					}
				}
				g.line("comm %d %s", Pick(r, pool), strings.Join(toks, " "))
				break
			}
			g.line("nd %s %s", Pick(r, c13Ops), name[x])
		default:
			if r.Chance(1, 6) {
				g.line("clear %s", name[x])
			} else {
				g.line("slice %s", name[x])
			}
		}
	}
	g.stats.Inc("random_cases")
}

// The native in-place Xor of the roaring library is not operand-pure (findings C13:bitmap64.Xor:native-shares-containers,
// C13:bitmap32.Xor:native-mutates-operand, C13:bitmap32.Xor:native-shares-containers): roaring64 inserts the operand's
// own 32-bit sub-bitmaps into the receiver without Clone, and the 32-bit arrayContainer.ixorBitmap updates the
// operand's bitmap container in place and then shares it. The immediate effect on the operand is part of the model;
// the later aliasing (a change of one bitmap showing up in the other) is not: in the model-tied suite both roles
// continue on fresh Clones (deep copies) and the entangled objects are never touched again. The aliasing itself is
// exercised by the monitor-only suite x13.
func (g *c13Gen) xorRebind(bits int, op, a, b string, name, kind map[string]string) {
	if op != "xor" || a == b || strings.HasPrefix(kind[b], "ts") {
		return
	}
	for _, role := range []string{a, b} {
		if role == b && bits == 64 {
			continue // roaring64: the operand keeps its own sub-bitmaps; abandoning the receiver object is enough
		}
		g.rebinds++
		nn := fmt.Sprintf("%s_%d", role, g.rebinds)
		g.line("clone %s %s", nn, name[role])
		name[role] = nn
	}
	g.stats.Inc("xor_native_rebind")
}

// exhaustive small scope: every receiver/operand subset pair of a boundary universe, every op, fallback operand
func (g *c13Gen) exhaustive(bits int, rk string, universe []uint64) {
	n := len(universe)
	sub := func(mask int) []uint64 {
		var out []uint64
		for i := 0; i < n; i++ {
			if mask&(1<<i) != 0 {
				out = append(out, universe[i])
			}
		}
		return out
	}
	ts := fmt.Sprintf("ts%d", bits)
	for rm := 1; rm < 1<<n; rm++ {
		for om := 0; om < 1<<n; om++ {
			for _, op := range []string{"and", "andnot"} {
				g.begin(fmt.Sprintf("exhaustive %s %s/%s r=%b o=%b", op, rk, ts, rm, om))
				g.line("new r %s", rk)
				g.line("new o %s", ts)
				g.line("add r %s", c13Join(sub(rm)))
				if om != 0 {
					g.line("add o %s", c13Join(sub(om)))
				}
				g.line("%s r o", op)
				g.stats.Inc("exhaustive_cases")
			}
		}
	}
}

func (c13Suite) genMain(g *c13Gen, tier string) {
	r := g.rng
	thorough := tier == "thorough"
	// 1. the eight ordered pairings, every op, fixed boundary sets (deterministic smoke of every branch of the switch)
	for _, bits := range []int{32, 64} {
		kinds := []string{fmt.Sprintf("b%d", bits), fmt.Sprintf("ts%d", bits)}
		for _, rk := range kinds {
			for _, ok := range kinds {
				for _, op := range c13Ops {
					g.begin(fmt.Sprintf("pairing %s %s/%s", op, rk, ok))
					g.line("new r %s", rk)
					g.line("new o %s", ok)
					g.line("add r 1 2 3 65535 65536 65537 131072")
					g.line("add o 2 3 4 65536 196608")
					if bits == 64 {
						g.line("add r 4294967296 4294967297 281474976710656 9223372036854775808 18446744073709551614")
						g.line("add o 4294967297 8589934592 9223372036854775807 18446744073709551614 18446744073709551615")
					} else {
						g.line("add r 2147483648 4294967294")
						g.line("add o 2147483647 4294967294 4294967295")
					}
					g.line("%s r o", op)
					rn := "r"
					on := "o"
					if op == "xor" && !strings.HasPrefix(ok, "ts") {
						g.line("clone r2 r") // see xorRebind
						g.line("clone o2 o")
						rn, on = "r2", "o2"
					}
					g.line("contains %s 3", rn)
					g.line("contains %s 65535", rn)
					g.line("card %s", rn)
					g.line("each %s 2", rn)
					g.line("cadd %s 3", rn)
					g.line("cadd %s 7", rn)
					g.line("%s %s %s", op, on, rn)
					if op == "xor" && !strings.HasPrefix(rk, "ts") {
						g.line("clone r3 %s", rn)
						rn = "r3"
					}
					g.line("clone c %s", rn)
					g.line("clear c")
					g.line("slice %s", rn)
				}
				// self operand: only for plain receivers (a wrapper deadlocks on itself — separate cases below)
				if !strings.HasPrefix(rk, "ts") {
					for _, op := range c13Ops {
						g.begin(fmt.Sprintf("self %s %s", op, rk))
						g.line("new r %s", rk)
						g.line("add r 1 2 3 65535 65536 65537 131072")
						g.line("addrange r 200000 5000 1")
						g.line("%s r r", op)
					}
				}
			}
			for _, op := range c13Ops {
				g.begin(fmt.Sprintf("non-duplex %s %s", op, rk))
				g.line("new r %s", rk)
				g.line("add r 1 2 3 65536")
				g.line("nd %s r", op)
			}
		}
	}
	// 2. exhaustive small scope for the iterate-while-remove fallbacks
	u32 := []uint64{0, 1, 65536, 65537, 4294967295}
	u64 := []uint64{0, 1, 65536, 4294967296, 18446744073709551615}
	if thorough {
		u32 = []uint64{0, 1, 65536, 65537, 4294967295, 131072, 4294967294}
		u64 = []uint64{0, 1, 65536, 4294967296, 18446744073709551615, 4294967297, 18446744073709551614}
	}
	g.exhaustive(32, "b32", u32)
	g.exhaustive(64, "b64", u64)
	if thorough {
		g.exhaustive(32, "ts32", u32[:5])
		g.exhaustive(64, "ts64", u64[:5])
	}
	// 3. random structured cases over all pairings
	small, big := 1200, 10
	if thorough {
		small, big = 25000, 150
	}
	for i := 0; i < small+big; i++ {
		bits := 32
		if r.Bool() {
			bits = 64
		}
		kinds := []string{fmt.Sprintf("b%d", bits), fmt.Sprintf("ts%d", bits)}
		rk := Pick(r, kinds)
		ok := Pick(r, kinds)
		if r.Chance(1, 2) {
			ok = kinds[1] // bias to the fallback path
		}
		g.randomCase(bits, rk, ok, i >= small)
	}
	// 4. wrapper self operand and ABBA (F12: deadlocks before hooks/C13-fix2.patch; regression cases since): a few tiny cases
	for _, bits := range []int{32, 64} {
		for _, op := range c13Ops {
			g.begin(fmt.Sprintf("self-wrapper %s ts%d", op, bits))
			g.line("new x ts%d", bits)
			g.line("add x 1 2 3")
			g.line("%s x x", op)
			g.line("card x")
		}
		// (before the snapshot protocol only an empty receiver returned: it never called back into the operand)
		g.begin(fmt.Sprintf("self-wrapper-empty ts%d", bits))
		g.line("new x ts%d", bits)
		g.line("and x x")
		g.line("andnot x x")
		g.line("add x 5")
		g.line("slice x")
		// (before the snapshot protocol: blocked on an operand whose mutex is held forever)
		g.begin(fmt.Sprintf("poisoned-operand ts%d", bits))
		g.line("new x ts%d", bits)
		g.line("new y b%d", bits)
		g.line("new z ts%d", bits)
		g.line("add x 1 2")
		g.line("add y 2 3")
		g.line("add z 9")
		g.line("or x x")
		g.line("or y x")
		g.line("slice y")
		g.line("or z x")
		g.line("card z")
		// the operand object a wrapper hands to its inner provider is a private snapshot of a wrapper operand — also when the
		// operand is EMPTY, was just cleared, or is the largest value only; and a later change of the operand never reaches the
		// receiver (no aliasing), for every binary operation
		for _, op := range c13Ops {
			for variant := 0; variant < 3; variant++ {
				g.begin(fmt.Sprintf("operand-snapshot %s ts%d v%d", op, bits, variant))
				bd := c13Boundary(bits)
				g.line("new a spy%d", bits)
				g.line("new b ts%d", bits)
				g.line("add a 1 2 3 65536 %d", bd[len(bd)-1])
				switch variant {
				case 1:
					g.line("add b 2 7 65536 %d", bd[len(bd)-2])
				case 2:
					g.line("add b 5 6")
					g.line("clear b")
				}
				g.line("%s a b", op)
				g.line("opprivate a b 9")
				g.line("slice a")
				g.line("add b 3 70000")
				g.line("slice a")
				g.line("%s a b", op)
				g.line("opprivate a b %d", bd[len(bd)-1]-1)
				g.line("slice a")
			}
		}
		// delegates of Each that call OTHER providers (clone of the receiver, an unrelated wrapper, an operand): the
		// receiver's lock is held, the other provider has its own — every call returns
		g.begin(fmt.Sprintf("nested-each ts%d", bits))
		g.line("new x ts%d", bits)
		g.line("add x 1 2 3 65536 65537")
		g.line("clone s x")
		g.line("eachcall s 0 remove x")
		g.line("add x 1 2 70000")
		g.line("eachcall x 0 cadd s")
		g.line("eachcall x 2 contains s")
		g.line("new u ts%d", bits)
		g.line("eachcall x 0 add u")
		g.line("eachcall u 1 remove x")
		g.line("new o b%d", bits)
		g.line("add o 2 70000 9")
		g.line("eachcall o 0 remove x")
		g.line("eachcall x 0 cadd o")
		g.line("clone s2 s")
		g.line("eachcall s2 0 add s")
		g.line("toids x")
		g.line("toids o")
		g.begin(fmt.Sprintf("abba ts%d", bits))
		g.line("new a ts%d", bits)
		g.line("new b ts%d", bits)
		g.line("addrange a 0 60000 1")
		g.line("addrange b 30000 60000 1")
		g.line("abba and a b 50")
	}
}

// chunks that have been completely full: run containers. Judged by the monitor only.
func (c13Suite) genRun(g *c13Gen, tier string) {
	r := g.rng
	n := 6
	if tier == "thorough" {
		n = 60
	}
	for i := 0; i < n; i++ {
		bits := 32
		if r.Bool() {
			bits = 64
		}
		rk := Pick(r, []string{fmt.Sprintf("b%d", bits), fmt.Sprintf("ts%d", bits)})
		g.begin(fmt.Sprintf("run-container %s", rk))
		g.line("new r %s", rk)
		g.line("new o ts%d", bits)
		g.line("new p b%d", bits)
		base := uint64(r.Intn(3)) << 16
		if bits == 64 && r.Bool() {
			base += 1 << 32
		}
		g.line("addrange r %d 65536 1", base)
		if r.Bool() {
			g.line("addrange r %d 100 1", base+65536)
		}
		for k := r.Intn(4); k > 0; k-- {
			g.line("remove r %d", base+uint64(r.Intn(65536)))
		}
		switch r.Intn(3) {
		case 0:
			g.line("addrange o %d %d 1", base+uint64(r.Intn(1000)), 1+r.Intn(65000))
		case 1:
			g.line("addrange o %d %d 2", base, 1+r.Intn(32000))
		default:
			g.line("add o %d %d %d", base, base+1, base+65535)
		}
		g.line("addrange p %d 40000 1", base+20000)
		bd := c13Boundary(bits)
		g.line("add r %d %d", Pick(r, bd), bd[len(bd)-1])
		g.line("add o %d %d", Pick(r, bd), Pick(r, bd[len(bd)-2:]))
		g.line("add p %d", Pick(r, bd))
		for k := 2 + r.Intn(4); k > 0; k-- {
			switch r.Intn(6) {
			case 0:
				g.line("%s r p", Pick(r, c13Ops))
			case 1:
				g.line("%s p r", Pick(r, c13Ops))
			case 2:
				g.line("%s o r", Pick(r, c13Ops))
			default:
				g.line("%s r o", Pick(r, c13Ops))
			}
		}
		g.line("each r 3")
		g.line("contains r %d", base+65535)
		g.stats.Inc("run_cases")
	}
}

// aftermath of the native in-place Xor of the roaring library (not operand-pure). Judged by the monitor only.
func (c13Suite) genAlias(g *c13Gen, tier string) {
	r := g.rng
	// operand = thread-safe view of the receiver itself, every operation, both widths, across container boundaries
	for _, rk := range []string{"b32", "b64"} {
		for _, op := range c13Ops {
			g.begin(fmt.Sprintf("view-of-receiver %s %s", op, rk))
			g.line("new r %s", rk)
			g.line("add r 1 2 3 65535 65536 65537 131072")
			if rk == "b64" {
				g.line("add r %d %d", uint64(1)<<32, uint64(1)<<40)
			}
			g.line("addrange r 200000 %d 1", 300+r.Intn(5000))
			g.line("viewop %s r", op)
			g.line("slice r")
			g.line("add r 7")
			g.line("viewop %s r", op)
			g.stats.Inc("view_of_receiver_cases")
		}
	}
	n := 20
	if tier == "thorough" {
		n = 400
	}
	for i := 0; i < n; i++ {
		if r.Bool() {
			// 64 bit: operand keys missing in the receiver and below its largest key are inserted without Clone
			rk := Pick(r, []string{"b64", "ts64"})
			g.begin("alias64 " + rk)
			g.line("new r %s", rk)
			g.line("new o b64")
			hi := uint64(3+r.Intn(5)) << 32
			g.line("add r %d %d %d", uint64(r.Intn(100)), hi+uint64(r.Intn(100)), hi+65536+uint64(r.Intn(100)))
			mid := uint64(1+r.Intn(2)) << 32
			g.line("add o %d %d %d", mid+uint64(r.Intn(50)), mid+50+uint64(r.Intn(50)), mid+65536)
			if r.Bool() {
				g.line("add o %d", hi+uint64(200+r.Intn(100)))
			}
			bd := c13Boundary(64)
			g.line("add r %d %d", Pick(r, bd), bd[len(bd)-1])
			g.line("add o %d", Pick(r, bd[4:]))
			g.line("xor r o")
			for k := 1 + r.Intn(3); k > 0; k-- {
				switch r.Intn(4) {
				case 0:
					g.line("add r %d", mid+uint64(100+r.Intn(100)))
				case 1:
					g.line("remove r %d", mid+65536)
				case 2:
					g.line("add o %d", mid+uint64(300+r.Intn(100)))
				default:
					g.line("cadd r %d", mid+uint64(500+r.Intn(100)))
				}
				g.line("slice o")
				g.line("slice r")
			}
			g.stats.Inc("alias64_cases")
		} else {
			// 32 bit: receiver chunk is an array container, operand chunk a bitmap container
			rk := Pick(r, []string{"b32", "ts32"})
			g.begin("alias32 " + rk)
			g.line("new r %s", rk)
			g.line("new o b32")
			base := uint64(r.Intn(4)) << 16
			g.line("add r %d %d %d", base+uint64(r.Intn(3000)), base+uint64(3000+r.Intn(3000)), base+131072+7)
			g.line("addrange o %d %d 1", base+uint64(r.Intn(100)), 4097+r.Intn(2000))
			bd := c13Boundary(32)
			g.line("add r %d %d", Pick(r, bd), bd[len(bd)-1])
			g.line("add o %d", Pick(r, bd))
			g.line("xor r o")
			g.line("add r %d", base+uint64(60000+r.Intn(100)))
			g.line("slice o")
			g.stats.Inc("alias32_cases")
		}
	}
}

func indexOf(xs []string, x string) int {
	for i, v := range xs {
		if v == x {
			return i
		}
	}
	return 0
}

// plain bitmaps that keep being used after native in-place Xors: tied to the container-identity model (Lean suite c13heap)
func (c13Suite) genHeap(g *c13Gen, tier string) {
	r := g.rng
	n, dense := 300, 12
	if tier == "thorough" {
		n, dense = 12000, 200
	}
	for i := 0; i < n+dense; i++ {
		bits := 32
		if r.Bool() {
			bits = 64
		}
		big := i >= n && bits == 32
		g.begin(fmt.Sprintf("heap b%d dense=%v", bits, big))
		names := []string{"a", "b", "c"}[:2+r.Intn(2)]
		for _, nm := range names {
			g.line("new %s b%d", nm, bits)
		}
		// small universe: few keys, few low parts, so that keys are shared / missing / emptied all the time
		var keys []uint64
		if bits == 64 {
			for _, k := range []uint64{0, 1, 2, 3, 5} {
				keys = append(keys, k<<32, k<<32+65536)
			}
			keys = append(keys, 1<<63, 1<<64-4, 1<<32-2) // +0..3 reaches 2^64-1 and crosses 2^32
		} else {
			for _, k := range []uint64{0, 1, 2, 3, 5} {
				keys = append(keys, k<<16)
			}
			keys = append(keys, 1<<31, 1<<32-4, 1<<16-2) // +0..3 reaches 2^32-1 and crosses 2^16
		}
		val := func() uint64 { return Pick(r, keys) + uint64(r.Intn(4)) }
		for _, nm := range names {
			vs := make([]uint64, 1+r.Intn(6))
			for j := range vs {
				vs[j] = val()
			}
			g.line("add %s %s", nm, c13Join(vs))
		}
		if big {
			// around the array/bitmap container threshold: array ⊕ bitmap is where the 32-bit ixor updates the operand
			for k := 1 + r.Intn(2); k > 0; k-- {
				g.line("addrange %s %d %d %d", Pick(r, names), Pick(r, keys)+uint64(r.Intn(50)), Pick(r, []int{4090, 4096, 4097, 4100, 4300}), Pick(r, []int{1, 1, 2}))
			}
		}
		nops := 6 + r.Intn(12)
		if big {
			nops = 4 + r.Intn(5)
		}
		for j := 0; j < nops; j++ {
			x := Pick(r, names)
			switch c := r.Intn(10); {
			case c < 4:
				y := Pick(r, names)
				if y == x && r.Chance(4, 5) {
					y = names[(r.Intn(len(names)-1)+1+indexOf(names, x))%len(names)] // mostly a distinct operand
				}
				g.line("xor %s %s", x, y)
			case c < 7:
				g.line("add %s %d", x, val())
			case c < 9:
				g.line("remove %s %d", x, val())
			default:
				g.line("card %s", x)
			}
			for _, nm := range names {
				g.line("slice %s", nm)
			}
		}
		g.stats.Inc("heap_cases")
	}
}

// N goroutines on one wrapper; op mixes whose result does not depend on the order
func (c13Suite) genConc(g *c13Gen, tier string) {
	r := g.rng
	n := 12
	if tier == "thorough" {
		n = 400
	}
	// operand of a merge is written concurrently: the merge must read it under the operand's lock (paired-Add invariant)
	np := 6
	if tier == "thorough" {
		np = 40
	}
	// the operand wrapper is EMPTY when the binary operation starts and is filled while it runs: all ops x both widths
	rounds := 120
	if tier == "thorough" {
		rounds = 1500
	}
	for _, bits := range []int{32, 64} {
		for _, op := range c13Ops {
			for _, ak := range []string{"ts", "spy"} {
				g.begin(fmt.Sprintf("fillrace %s %s%d", op, ak, bits))
				g.line("new a %s%d", ak, bits)
				g.line("new b ts%d", bits)
				base := uint64(1+r.Intn(3)) << 16
				if bits == 64 {
					base += uint64(1+r.Intn(3)) << 32
				}
				bd := c13Boundary(bits)
				m := 200 + r.Intn(200)
				// a0: some values of the fill sequence (both chunks), some strangers, the largest value of the width
				vals := []uint64{bd[len(bd)-1], base + 60000, c13FillSeq(base, bits, 0), c13FillSeq(base, bits, 1)}
				for k := 0; k < 12; k++ {
					vals = append(vals, c13FillSeq(base, bits, r.Intn(m)))
				}
				g.line("add a %s", c13Join(vals))
				rr := rounds
				if ak == "spy" {
					rr = 10 // pinned interleaving: every round shows it
				}
				g.line("fillrace %s a b %d %d %d", op, base, m, rr)
				g.line("slice a")
				g.stats.Inc("fillrace_cases")
			}
		}
	}
	// consumers and contention: conversions under a concurrent writer; the same values probed by several goroutines
	nr := 4
	if tier == "thorough" {
		nr = 40
	}
	for i := 0; i < nr; i++ {
		bits := 32
		if r.Bool() {
			bits = 64
		}
		base := uint64(1+r.Intn(3)) << 16
		if bits == 64 && r.Bool() {
			base += uint64(1+r.Intn(3)) << 32
		}
		g.begin(fmt.Sprintf("toidsrace ts%d", bits))
		g.line("new x ts%d", bits)
		bd := c13Boundary(bits)
		g.line("add x %d %d %d %d %d", base+uint64(40000+r.Intn(100)), base+uint64(50000+r.Intn(100)), base+uint64(60000), bd[len(bd)-1], Pick(r, bd[1:]))
		g.line("toids x")
		g.line("toidsrace x %d %d", base+uint64(1+r.Intn(50)), 15000+r.Intn(15000))
		g.line("toids x")
		g.stats.Inc("toidsrace_cases")
		g.begin(fmt.Sprintf("caddrace ts%d", bits))
		g.line("new x ts%d", bits)
		g.line("addrange x %d %d 3", base+uint64(r.Intn(10)), 200+r.Intn(200))
		g.line("add x %d %d", bd[len(bd)-1], Pick(r, bd))
		g.line("caddrace x %d %d %d", base, 8000+r.Intn(8000), 2+r.Intn(7))
		g.stats.Inc("caddrace_cases")
	}
	for i := 0; i < np; i++ {
		bits := 32
		if r.Bool() {
			bits = 64
		}
		g.begin(fmt.Sprintf("pairs ts%d", bits))
		g.line("new x ts%d", bits)
		g.line("new o ts%d", bits)
		base := uint64(r.Intn(3)) << 16
		if bits == 64 && r.Bool() {
			base += uint64(1+r.Intn(3)) << 32
		}
		bd := c13Boundary(bits)
		g.line("add x %d %d %d", base+uint64(70000+r.Intn(100)), base+uint64(80000+r.Intn(100)), bd[len(bd)-1])
		g.line("add o %d %d", base+uint64(90000+r.Intn(100)), Pick(r, bd[len(bd)-2:]))
		g.line("pairs x o %d %d", base+uint64(2*r.Intn(50)), 8000+r.Intn(8000))
		g.stats.Inc("pairs_cases")
	}
	for i := 0; i < n; i++ {
		bits := 32
		if r.Bool() {
			bits = 64
		}
		g.begin(fmt.Sprintf("conc ts%d", bits))
		g.line("new x ts%d", bits)
		g.line("new s1 b%d", bits)
		g.line("new s2 ts%d", bits)
		g.line("new s3 b%d", bits)
		pool := g.pool(bits, 3, 6, true)
		g.line("add x %s", c13Join(g.sample(pool, 8)))
		g.line("add s1 %s", c13Join(g.sample(pool, 6)))
		g.line("add s2 %s", c13Join(g.sample(pool, 6)))
		mix := Pick(r, []string{"union", "cadd", "diff", "xor"})
		dense := 3000 + r.Intn(3000)
		if mix == "xor" {
			// operands of the native in-place Xor stay array containers (<= 4096 per chunk): roaring's 32-bit Xor updates
			// an operand's bitmap container in place (finding C13:bitmap32.Xor:native-mutates-operand, suite x13)
			dense = 3000 + r.Intn(1000)
		}
		g.line("addrange s3 %d %d 1", pool[0]&^0xffff, dense)
		threads := 2 + r.Intn(7)
		var toks []string
		for t := 0; t < threads; t++ {
			if t > 0 {
				toks = append(toks, "/")
			}
			for k := 3 + r.Intn(12); k > 0; k-- {
				if r.Chance(1, 5) {
					toks = append(toks, Pick(r, []string{"has:" + strconv.FormatUint(Pick(r, pool), 10), "card", "each", "slice"}))
					continue
				}
				operand := Pick(r, []string{"s1", "s2", "s3"})
				switch mix {
				case "union":
					if r.Chance(1, 3) {
						toks = append(toks, "or:"+operand)
					} else {
						vs := g.sample(pool, 1+r.Intn(3))
						parts := make([]string, len(vs))
						for i, v := range vs {
							parts[i] = strconv.FormatUint(v, 10)
						}
						toks = append(toks, "add:"+strings.Join(parts, ","))
					}
				case "cadd":
					toks = append(toks, "cadd:"+strconv.FormatUint(Pick(r, pool), 10))
				case "diff":
					if r.Chance(1, 3) {
						toks = append(toks, "andnot:"+operand)
					} else {
						toks = append(toks, "remove:"+strconv.FormatUint(Pick(r, pool), 10))
					}
				default:
					toks = append(toks, "xor:"+operand)
				}
			}
		}
		g.line("conc x %s", strings.Join(toks, " "))
		g.line("slice s1")
		g.line("slice s2")
		g.stats.Inc("conc_cases")
		g.stats.Inc("conc_mix." + mix)
	}
}

func (s c13Suite) Gen(rng *Rng, tier string, w *bufio.Writer, stats *Stats) {
	g := &c13Gen{rng: rng, w: w, stats: stats}
	switch s.variant {
	case "c13":
		s.genMain(g, tier)
	case "x13":
		s.genRun(g, tier)
		s.genAlias(g, tier)
	case "conc13":
		s.genConc(g, tier)
	case "heap13":
		s.genHeap(g, tier)
	}
}
