package main

import (
	"bufio"
	"fmt"
	"sort"
	"strconv"
	"strings"
	"sync"
	"sync/atomic"
	"time"

	"github.com/specterops/dawgs/cache"
)

// c16conc: real caches under concurrent callers. One op line per case:
//   conc <sieve|nemap> <cap> <threads> <opsPerThread> <nkeys> <seed>
// Answer: the recorded history (invoke/return stamps from one atomic counter) and the final statistics:
//   t:op:k:v:out:inv:ret;… | size=<n> cap=<c>
// Judged by the Lean linearizability checker (suite c16lin); the schedule is whatever the Go runtime does.
type c16concSuite struct{}

func init() { register("c16conc", c16concSuite{}) }

func (c16concSuite) Gen(rng *Rng, tier string, w *bufio.Writer, stats *Stats) {
	n := 400
	if tier == "thorough" {
		n = 6000
	}
	for i := 1; i <= n; i++ {
		kind := "sieve"
		if rng.Chance(1, 4) {
			kind = "nemap"
		}
		capacity := Pick(rng, []int{0, 1, 2, 2, 3})
		threads := 2 + rng.Intn(3)
		per := 2 + rng.Intn(3)
		if threads*per > 12 {
			per = 12 / threads
		}
		fmt.Fprintf(w, "# case %d\n", i)
		fmt.Fprintf(w, "conc %s %d %d %d %d %d\n", kind, capacity, threads, per, 2+rng.Intn(2), rng.Next()%1000000)
	}
	// contention bursts: per round one sequential put, then every goroutine issues the SAME operation on the SAME key
	// behind a barrier (check-then-act windows inside one method need same-key collisions to show)
	nb := 120
	if tier == "thorough" {
		nb = 3000
	}
	for i := 1; i <= nb; i++ {
		kind := "nemap"
		if rng.Chance(1, 2) {
			kind = "sieve"
		}
		fmt.Fprintf(w, "# case %d\n", n+i)
		fmt.Fprintf(w, "burst %s %d %d %d %d\n", kind, 1+rng.Intn(3), 4+rng.Intn(5), 4+rng.Intn(5), rng.Next()%1000000)
	}
}

type c16concRunner struct{ stats *Stats }

func (c16concSuite) NewRunner(stats *Stats) Runner { return &c16concRunner{stats: stats} }

type c16Event struct {
	t        int
	op       string
	k, v     int
	out      string
	inv, ret int64
}

func (r *c16concRunner) Step(t []string, raw string) string {
	if len(t) == 6 && t[0] == "burst" {
		return r.burst(t)
	}
	if len(t) != 7 || t[0] != "conc" {
		return "bad-op"
	}
	var nums [5]int
	for i := 0; i < 5; i++ {
		n, err := strconv.Atoi(t[2+i])
		if err != nil {
			return "bad-op"
		}
		nums[i] = n
	}
	capacity, threads, per, nkeys, seed := nums[0], nums[1], nums[2], nums[3], nums[4]
	var c cache.Cache[int, int]
	switch t[1] {
	case "sieve":
		c = cache.NewSieve[int, int](capacity)
	case "nemap":
		c = cache.NewNonExpiringMapCache[int, int](capacity)
	default:
		return "bad-op"
	}
	var clock atomic.Int64
	events := make([][]c16Event, threads)
	var wg sync.WaitGroup
	start := make(chan struct{})
	panicked := atomic.Bool{}
	for th := 0; th < threads; th++ {
		wg.Add(1)
		go func(th int) {
			defer wg.Done()
			defer func() {
				if p := recover(); p != nil {
					panicked.Store(true)
				}
			}()
			rng := NewRng(uint64(seed*31 + th))
			<-start
			for i := 0; i < per; i++ {
				k := rng.Intn(nkeys)
				ev := c16Event{t: th, k: k}
				switch x := rng.Intn(10); {
				case x < 4:
					ev.op, ev.v = "put", rng.Intn(100)
					ev.inv = clock.Add(1)
					c.Put(k, ev.v)
					ev.ret = clock.Add(1)
					ev.out = "ok"
				case x < 8:
					ev.op = "get"
					ev.inv = clock.Add(1)
					v, ok := c.Get(k)
					ev.ret = clock.Add(1)
					if ok {
						ev.out = "hit=" + strconv.Itoa(v)
					} else {
						ev.out = "miss"
					}
				default:
					ev.op = "del"
					ev.inv = clock.Add(1)
					c.Delete(k)
					ev.ret = clock.Add(1)
					ev.out = "ok"
				}
				events[th] = append(events[th], ev)
			}
		}(th)
	}
	close(start)
	done := make(chan struct{})
	go func() { wg.Wait(); close(done) }()
	select {
	case <-done:
	case <-time.After(30 * time.Second):
		r.stats.Inc("hang")
		return "hang"
	}
	if panicked.Load() {
		return "panic"
	}
	var all []c16Event
	for _, es := range events {
		all = append(all, es...)
	}
	sort.Slice(all, func(i, j int) bool { return all[i].inv < all[j].inv })
	parts := make([]string, len(all))
	overlaps := 0
	for i, e := range all {
		parts[i] = fmt.Sprintf("%d:%s:%d:%d:%s:%d:%d", e.t, e.op, e.k, e.v, e.out, e.inv, e.ret)
		if i > 0 && all[i-1].ret > e.inv {
			overlaps++
		}
	}
	if overlaps > 0 {
		r.stats.Inc("histories_with_overlap")
	}
	r.stats.Add("overlapping_pairs", int64(overlaps))
	r.stats.Add("events", int64(len(all)))
	st := c.Stats()
	bound := st.Capacity
	if t[1] == "nemap" && bound < 0 {
		bound = 0
	}
	return fmt.Sprintf("%s | size=%d cap=%d resident=%s", strings.Join(parts, ";"), st.Size(), bound, c16Resident(c, nkeys))
}

// c16Resident reads every key of the case's key space once, after all goroutines are done: the entries a caller can
// still observe (k:v, ascending). Taken AFTER Stats() so that the lookups cannot influence the reported size.
func c16Resident(c cache.Cache[int, int], nkeys int) string {
	var parts []string
	for k := 0; k < nkeys; k++ {
		if v, ok := c.Get(k); ok {
			parts = append(parts, fmt.Sprintf("%d:%d", k, v))
		}
	}
	if len(parts) == 0 {
		return "-"
	}
	return strings.Join(parts, ",")
}

// burst <sieve|nemap> <cap> <threads> <rounds> <seed>
func (r *c16concRunner) burst(t []string) string {
	var nums [4]int
	for i := 0; i < 4; i++ {
		n, err := strconv.Atoi(t[2+i])
		if err != nil {
			return "bad-op"
		}
		nums[i] = n
	}
	capacity, threads, rounds, seed := nums[0], nums[1], nums[2], nums[3]
	const nkeys = 3
	var c cache.Cache[int, int]
	switch t[1] {
	case "sieve":
		c = cache.NewSieve[int, int](capacity)
	case "nemap":
		c = cache.NewNonExpiringMapCache[int, int](capacity)
	default:
		return "bad-op"
	}
	var (
		clock    atomic.Int64
		all      []c16Event
		mu       sync.Mutex
		panicked atomic.Bool
		rng      = NewRng(uint64(seed))
	)
	deadline := time.After(30 * time.Second)
	for round := 0; round < rounds; round++ {
		k := rng.Intn(nkeys)
		// sequential set-up: make the key resident (when the cache admits it)
		ev := c16Event{t: 0, op: "put", k: k, v: rng.Intn(100), out: "ok"}
		ev.inv = clock.Add(1)
		c.Put(k, ev.v)
		ev.ret = clock.Add(1)
		all = append(all, ev)
		op := Pick(rng, []string{"del", "del", "del", "put", "get"})
		v := rng.Intn(100)
		var wg sync.WaitGroup
		start := make(chan struct{})
		for th := 0; th < threads; th++ {
			wg.Add(1)
			go func(th int) {
				defer wg.Done()
				defer func() {
					if p := recover(); p != nil {
						panicked.Store(true)
					}
				}()
				e := c16Event{t: th + 1, op: op, k: k, v: 0, out: "ok"}
				<-start
				switch op {
				case "del":
					e.inv = clock.Add(1)
					c.Delete(k)
					e.ret = clock.Add(1)
				case "put":
					e.v = v + th
					e.inv = clock.Add(1)
					c.Put(k, e.v)
					e.ret = clock.Add(1)
				default:
					e.inv = clock.Add(1)
					got, ok := c.Get(k)
					e.ret = clock.Add(1)
					if ok {
						e.out = "hit=" + strconv.Itoa(got)
					} else {
						e.out = "miss"
					}
				}
				mu.Lock()
				all = append(all, e)
				mu.Unlock()
			}(th)
		}
		close(start)
		done := make(chan struct{})
		go func() { wg.Wait(); close(done) }()
		select {
		case <-done:
		case <-deadline:
			r.stats.Inc("hang")
			return "hang"
		}
		if panicked.Load() {
			return "panic"
		}
	}
	sort.Slice(all, func(i, j int) bool { return all[i].inv < all[j].inv })
	parts := make([]string, len(all))
	overlaps := 0
	for i, e := range all {
		parts[i] = fmt.Sprintf("%d:%s:%d:%d:%s:%d:%d", e.t, e.op, e.k, e.v, e.out, e.inv, e.ret)
		if i > 0 && all[i-1].ret > e.inv {
			overlaps++
		}
	}
	if overlaps > 0 {
		r.stats.Inc("histories_with_overlap")
		r.stats.Inc("burst_histories_with_overlap")
	}
	r.stats.Add("overlapping_pairs", int64(overlaps))
	r.stats.Add("events", int64(len(all)))
	st := c.Stats()
	return fmt.Sprintf("%s | size=%d cap=%d resident=%s", strings.Join(parts, ";"), st.Size(), st.Capacity, c16Resident(c, nkeys))
}
