package main

import (
	"errors"
	"reflect"
	"strconv"
	"strings"

	"github.com/antlr4-go/antlr/v4"
	"github.com/specterops/dawgs/cypher/models/cypher"
	"github.com/specterops/dawgs/cypher/parser"
)

// The REFERENCE reading of a query must not inherit what the DAWGS frontend listener makes of the text. The direction of an ORDER BY item is
// therefore read from the TEXT: the query is parsed with the generated parser alone (no DAWGS listener) and every oC_SortItem is descending
// iff one of its keyword children spells DESC or DESCENDING (any letter case). The S-expression handed to the Lean reference (`cy=`) carries
// these directions; the translator under test still gets the frontend's model unchanged.

// sortDirectionsFromText: for every ORDER BY item of the text, in document order, whether it sorts ascending. ok = false when the text does
// not parse with the generated parser.
func sortDirectionsFromText(text string) (asc []bool, ok bool) {
	lexer := parser.NewCypherLexer(antlr.NewInputStream(text))
	el := &countingErrorListener{DefaultErrorListener: antlr.NewDefaultErrorListener()}
	lexer.RemoveErrorListeners()
	lexer.AddErrorListener(el)
	ts := antlr.NewCommonTokenStream(lexer, antlr.TokenDefaultChannel)
	p := parser.NewCypherParser(ts)
	p.RemoveErrorListeners()
	p.AddErrorListener(el)
	tree := p.OC_Cypher()
	if el.n > 0 {
		return nil, false
	}
	var walk func(t antlr.Tree)
	walk = func(t antlr.Tree) {
		ctx, isRule := t.(antlr.ParserRuleContext)
		if !isRule {
			return
		}
		if ctx.GetRuleIndex() == parser.CypherParserRULE_oC_SortItem {
			ascending := true
			for _, c := range ctx.GetChildren() {
				if term, isTerm := c.(antlr.TerminalNode); isTerm {
					switch strings.ToUpper(term.GetText()) {
					case "DESC", "DESCENDING":
						ascending = false
					}
				}
			}
			asc = append(asc, ascending)
		}
		for _, c := range ctx.GetChildren() {
			walk(c)
		}
	}
	walk(tree)
	return asc, true
}

// collectSortItems: the sort items of a parsed model in document order (parts before the final part, struct fields in declaration order).
func collectSortItems(v any) []*cypher.SortItem {
	var out []*cypher.SortItem
	seen := map[uintptr]bool{}
	var walk func(rv reflect.Value)
	walk = func(rv reflect.Value) {
		switch rv.Kind() {
		case reflect.Ptr:
			if rv.IsNil() {
				return
			}
			if seen[rv.Pointer()] {
				return
			}
			seen[rv.Pointer()] = true
			if si, isSort := rv.Interface().(*cypher.SortItem); isSort {
				out = append(out, si)
			}
			walk(rv.Elem())
		case reflect.Interface:
			if !rv.IsNil() {
				walk(rv.Elem())
			}
		case reflect.Struct:
			for i := 0; i < rv.NumField(); i++ {
				if rv.Type().Field(i).IsExported() {
					walk(rv.Field(i))
				}
			}
		case reflect.Slice, reflect.Array:
			for i := 0; i < rv.Len(); i++ {
				walk(rv.Index(i))
			}
		}
	}
	walk(reflect.ValueOf(v))
	return out
}

// textRange: the bounds of one variable-length relationship pattern as the TEXT spells them: `*` (none, none), `*n` (n, n — exactly n hops),
// `*n..` (n, none), `*..m` (none, m), `*n..m` (n, m).
type textRange struct {
	lo, hi *int64
}

// rangesFromText: the range literal of every relationship pattern that has one, in document order, read from the generated parser's tree.
func rangesFromText(text string) (out []textRange, ok bool) {
	out, ok, _ = rangesFromTextR(text)
	return out, ok
}

// rangesFromTextR: … and whether some bound is an integer literal outside the int64 range (the reference refuses such a query: no
// variable-length bound of the language's integers is that large; a translator that accepts it has dropped the bound)
func rangesFromTextR(text string) (out []textRange, ok bool, rangeBoundOutOfRange bool) {
	lexer := parser.NewCypherLexer(antlr.NewInputStream(text))
	el := &countingErrorListener{DefaultErrorListener: antlr.NewDefaultErrorListener()}
	lexer.RemoveErrorListeners()
	lexer.AddErrorListener(el)
	ts := antlr.NewCommonTokenStream(lexer, antlr.TokenDefaultChannel)
	p := parser.NewCypherParser(ts)
	p.RemoveErrorListeners()
	p.AddErrorListener(el)
	tree := p.OC_Cypher()
	if el.n > 0 {
		return nil, false, false
	}
	good := true
	var walk func(t antlr.Tree)
	walk = func(t antlr.Tree) {
		ctx, isRule := t.(antlr.ParserRuleContext)
		if !isRule {
			return
		}
		if ctx.GetRuleIndex() == parser.CypherParserRULE_oC_RangeLiteral {
			var r textRange
			seenDots := false
			var ints []int64
			var intAfterDots []bool
			for _, c := range ctx.GetChildren() {
				switch n := c.(type) {
				case antlr.TerminalNode:
					if n.GetText() == ".." {
						seenDots = true
					}
				case antlr.ParserRuleContext:
					if n.GetRuleIndex() == parser.CypherParserRULE_oC_IntegerLiteral {
						v, err := strconv.ParseInt(n.GetText(), 0, 64)
						if err != nil {
							good = false
							if errors.Is(err, strconv.ErrRange) {
								rangeBoundOutOfRange = true
							}
						}
						ints = append(ints, v)
						intAfterDots = append(intAfterDots, seenDots)
					}
				}
			}
			for i := range ints {
				v := ints[i]
				if intAfterDots[i] {
					r.hi = &v
				} else {
					r.lo = &v
				}
			}
			if !seenDots && r.lo != nil {
				v := *r.lo
				r.hi = &v // `*n`: exactly n hops
			}
			out = append(out, r)
			return
		}
		for _, c := range ctx.GetChildren() {
			walk(c)
		}
	}
	walk(tree)
	return out, good, rangeBoundOutOfRange
}

// collectRanges: the ranges of the relationship patterns of a parsed model that have one, in document order.
func collectRanges(v any) []*cypher.PatternRange {
	var out []*cypher.PatternRange
	seen := map[uintptr]bool{}
	var walk func(rv reflect.Value)
	walk = func(rv reflect.Value) {
		switch rv.Kind() {
		case reflect.Ptr:
			if rv.IsNil() || seen[rv.Pointer()] {
				return
			}
			seen[rv.Pointer()] = true
			if pr, is := rv.Interface().(*cypher.PatternRange); is {
				out = append(out, pr)
				return
			}
			walk(rv.Elem())
		case reflect.Interface:
			if !rv.IsNil() {
				walk(rv.Elem())
			}
		case reflect.Struct:
			for i := 0; i < rv.NumField(); i++ {
				if rv.Type().Field(i).IsExported() {
					walk(rv.Field(i))
				}
			}
		case reflect.Slice, reflect.Array:
			for i := 0; i < rv.Len(); i++ {
				walk(rv.Index(i))
			}
		}
	}
	walk(reflect.ValueOf(v))
	return out
}

// refSexp renders a parsed (or rewritten) model for the Lean reference with the sort directions AND the relationship range bounds of the TEXT. When the model does not have as
// many sort items as the text (a rewrite dropped or duplicated one) the model's own directions are kept.
func refSexp(text string, model any) string {
	items := collectSortItems(model)
	asc, ok := sortDirectionsFromText(text)
	if !ok || len(asc) != len(items) {
		return refSexpRanges(text, model)
	}
	saved := make([]bool, len(items))
	for i, it := range items {
		saved[i] = it.Ascending
		it.Ascending = asc[i]
	}
	s := refSexpRanges(text, model)
	for i, it := range items {
		it.Ascending = saved[i]
	}
	return s
}

// refSexpRanges: the S-expression with the range bounds of the text. When the model does not have as many ranges as the text (a rewrite added
// or removed an expansion) the model's own bounds are kept.
func refSexpRanges(text string, model any) string {
	ranges := collectRanges(model)
	trs, ok := rangesFromText(text)
	if !ok || len(trs) != len(ranges) {
		return ToSexp(model)
	}
	type sv struct{ lo, hi *int64 }
	saved := make([]sv, len(ranges))
	for i, r := range ranges {
		saved[i] = sv{r.StartIndex, r.EndIndex}
		r.StartIndex, r.EndIndex = trs[i].lo, trs[i].hi
	}
	s := ToSexp(model)
	for i, r := range ranges {
		r.StartIndex, r.EndIndex = saved[i].lo, saved[i].hi
	}
	return s
}

// refSexpP: refSexp, and every pattern property map given as a parameter (`(a $props)`, `-[r $props]->`) is shown to the reference as the
// literal map the parameter stands for (`(a {name: 'x'})`): the reference semantics has no parameters, and the meaning of a parameter map is
// the map. Only maps of strings, integers and booleans are substituted; anything else stays a parameter (which the reference reader declines).
func refSexpP(text string, model any, params map[string]any) string {
	type saved struct {
		p     *cypher.Properties
		m     cypher.MapLiteral
		param *cypher.Parameter
	}
	var undo []saved
	for _, pr := range collectProperties(model) {
		if pr.Parameter == nil {
			continue
		}
		val, has := params[pr.Parameter.Symbol]
		mv, isMap := val.(map[string]any)
		if !has || !isMap {
			continue
		}
		lit := cypher.NewMapLiteral()
		okAll := true
		for k, v := range mv {
			switch t := v.(type) {
			case string:
				lit[k] = cypher.NewStringLiteral(t)
			case int64:
				lit[k] = cypher.NewLiteral(t, false)
			case bool:
				lit[k] = cypher.NewLiteral(t, false)
			default:
				okAll = false
			}
		}
		if !okAll {
			continue
		}
		undo = append(undo, saved{pr, pr.Map, pr.Parameter})
		pr.Map, pr.Parameter = lit, nil
	}
	s := refSexp(text, model)
	for _, u := range undo {
		u.p.Map, u.p.Parameter = u.m, u.param
	}
	return s
}

func collectProperties(v any) []*cypher.Properties {
	var out []*cypher.Properties
	seen := map[uintptr]bool{}
	var walk func(rv reflect.Value)
	walk = func(rv reflect.Value) {
		switch rv.Kind() {
		case reflect.Ptr:
			if rv.IsNil() || seen[rv.Pointer()] {
				return
			}
			seen[rv.Pointer()] = true
			if pr, is := rv.Interface().(*cypher.Properties); is {
				out = append(out, pr)
			}
			walk(rv.Elem())
		case reflect.Interface:
			if !rv.IsNil() {
				walk(rv.Elem())
			}
		case reflect.Struct:
			for i := 0; i < rv.NumField(); i++ {
				if rv.Type().Field(i).IsExported() {
					walk(rv.Field(i))
				}
			}
		case reflect.Slice, reflect.Array:
			for i := 0; i < rv.Len(); i++ {
				walk(rv.Index(i))
			}
		}
	}
	walk(reflect.ValueOf(v))
	return out
}
