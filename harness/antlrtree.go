package main

import (
	"strconv"
	"strings"

	"github.com/antlr4-go/antlr/v4"
	"github.com/specterops/dawgs/cypher/parser"
)

type countingErrorListener struct {
	*antlr.DefaultErrorListener
	n int
}

func (l *countingErrorListener) SyntaxError(_ antlr.Recognizer, _ any, _, _ int, _ string, _ antlr.RecognitionException) {
	l.n++
}

// antlrTreeSexp parses text with the generated parser alone (no DAWGS listener) and renders the parse
// tree as an S-expression: (N <ruleIndex> child...) | (L "text") | (E "text"). Returns the number of
// syntax errors ANTLR reported.
func antlrTreeSexp(text string, withLeaves bool) (string, int) {
	lexer := parser.NewCypherLexer(antlr.NewInputStream(text))
	el := &countingErrorListener{DefaultErrorListener: antlr.NewDefaultErrorListener()}
	lexer.RemoveErrorListeners()
	lexer.AddErrorListener(el)
	ts := antlr.NewCommonTokenStream(lexer, antlr.TokenDefaultChannel)
	p := parser.NewCypherParser(ts)
	p.RemoveErrorListeners()
	p.AddErrorListener(el)
	tree := p.OC_Cypher()
	var b strings.Builder
	writeTree(&b, tree, withLeaves)
	return b.String(), el.n
}

func writeTree(b *strings.Builder, t antlr.Tree, withLeaves bool) {
	switch n := t.(type) {
	case antlr.ErrorNode:
		if withLeaves {
			b.WriteString("(E ")
			b.WriteString(jsonQuote(n.GetText()))
			b.WriteString(")")
		}
	case antlr.TerminalNode:
		if withLeaves {
			b.WriteString("(L ")
			b.WriteString(jsonQuote(n.GetText()))
			b.WriteString(")")
		}
	case antlr.ParserRuleContext:
		b.WriteString("(N ")
		b.WriteString(strconv.Itoa(n.GetRuleIndex()))
		for _, c := range n.GetChildren() {
			if !withLeaves {
				if _, isTerm := c.(antlr.TerminalNode); isTerm {
					continue
				}
			}
			b.WriteString(" ")
			writeTree(b, c, withLeaves)
		}
		b.WriteString(")")
	}
}
