// Command c17order is the T-tie fact extractor of property C17. It reads traversal/traversal.go,
// util/channels/pipe.go and util/channels/channels.go with go/ast (syntax only) and writes the
// synchronisation skeleton of BreadthFirst, BufferedPipe, Submit and Receive — control structure,
// channel operations, counter operations, defers, in source order — as Lean string lists.
// lean/Dawgs/Tie/C17Order.lean compares them with the skeleton the LTS model was cut from and
// re-checks the ORDER facts the proofs rely on by `decide`.
package main

import (
	"flag"
	"fmt"
	"go/ast"
	"go/parser"
	"go/token"
	"go/types"
	"os"
	"path/filepath"
	"sort"
	"strings"
)

var interesting = []string{
	"descentCount.Add", "descentCount.Load", "channels.Submit", "channels.Receive", "plan.Driver", "doneFunc",
	"errorCollector.Add", "errorCollector.Combined", "workerWG.Add", "workerWG.Done", "workerWG.Wait", "close",
	"s.db.ReadTransaction", "errors.Is", "tx.GraphQueryMemoryLimit", "pathTree.SizeOf", "buffer.PushBack",
	"buffer.PopFront", "buffer.Front", "buffer.Len", "context.WithCancel", "channels.BufferedPipe", "getNext",
	"getReaderC", "ctx.Done", "make", "traversalCtx.Err",
}

type walker struct{ out []string }

func (w *walker) emit(s string) { w.out = append(w.out, s) }

func text(e ast.Expr) string { return strings.Join(strings.Fields(types.ExprString(e)), " ") }

func isInteresting(name string) bool {
	// every operation on the shared counter, the pipe buffer, the worker wait group and the error collector
	for _, pre := range []string{"descentCount.", "buffer.", "workerWG.", "errorCollector."} {
		if strings.HasPrefix(name, pre) {
			return true
		}
	}
	for _, i := range interesting {
		if name == i {
			return true
		}
	}
	return false
}

func short(e ast.Expr) string {
	switch x := e.(type) {
	case *ast.Ident, *ast.SelectorExpr, *ast.BasicLit:
		return text(x)
	case *ast.CallExpr:
		return text(x.Fun) + "(...)"
	case *ast.CompositeLit:
		return text(x.Type) + "{}"
	case *ast.UnaryExpr:
		return x.Op.String() + short(x.X)
	}
	return "expr"
}

func (w *walker) call(c *ast.CallExpr) {
	fun := c.Fun
	if ix, ok := fun.(*ast.IndexExpr); ok { // generic instantiation f[T](...)
		fun = ix.X
	}
	name := text(fun)
	// arguments first (Go evaluates them before the call), function literals after the call token
	var lits []*ast.FuncLit
	for _, a := range c.Args {
		if fl, ok := a.(*ast.FuncLit); ok {
			lits = append(lits, fl)
		} else {
			w.expr(a)
		}
	}
	if fl, ok := c.Fun.(*ast.FuncLit); ok {
		lits = append(lits, fl)
		name = "func"
	}
	if isInteresting(name) {
		args := []string{}
		switch name {
		case "channels.Submit", "channels.Receive":
			for _, a := range c.Args[:2] {
				args = append(args, short(a))
			}
		case "make":
			for _, a := range c.Args {
				args = append(args, text(a))
			}
		case "s.db.ReadTransaction":
			args = append(args, short(c.Args[0]))
		default:
			for _, a := range c.Args {
				if _, ok := a.(*ast.FuncLit); !ok {
					args = append(args, short(a))
				}
			}
		}
		w.emit(name + "(" + strings.Join(args, ",") + ")")
	}
	for _, fl := range lits {
		w.emit("func{")
		w.block(fl.Body)
		w.emit("}")
	}
}

func (w *walker) expr(e ast.Expr) {
	switch x := e.(type) {
	case nil:
	case *ast.CallExpr:
		w.call(x)
	case *ast.FuncLit:
		w.emit("func{")
		w.block(x.Body)
		w.emit("}")
	case *ast.BinaryExpr:
		w.expr(x.X)
		w.expr(x.Y)
	case *ast.UnaryExpr:
		if x.Op == token.ARROW {
			w.emit("recv(" + short(x.X) + ")")
			return
		}
		w.expr(x.X)
	case *ast.ParenExpr:
		w.expr(x.X)
	case *ast.SelectorExpr:
		w.expr(x.X)
	case *ast.CompositeLit:
		for _, el := range x.Elts {
			w.expr(el)
		}
	case *ast.KeyValueExpr:
		w.expr(x.Value)
	case *ast.StarExpr:
		w.expr(x.X)
	case *ast.IndexExpr:
		w.expr(x.X)
	}
}

func (w *walker) block(b *ast.BlockStmt) {
	if b == nil {
		return
	}
	for _, s := range b.List {
		w.stmt(s)
	}
}

func (w *walker) stmt(s ast.Stmt) {
	switch x := s.(type) {
	case nil:
	case *ast.BlockStmt:
		w.block(x)
	case *ast.ExprStmt:
		w.expr(x.X)
	case *ast.AssignStmt:
		before := len(w.out)
		for _, r := range x.Rhs {
			w.expr(r)
		}
		for i, l := range x.Lhs {
			if id, ok := l.(*ast.Ident); ok && id.Name == "doneReading" && i < len(x.Rhs) {
				w.emit("set(doneReading=" + short(x.Rhs[i]) + ")")
			}
		}
		// a boolean decision computed from calls we track (e.g. `fatal := traversalCtx.Err() == nil || …`):
		// keep its exact text, the order facts depend on it
		if len(x.Lhs) == 1 && len(x.Rhs) == 1 {
			if _, isBin := x.Rhs[0].(*ast.BinaryExpr); isBin && len(w.out) > before {
				w.emit("assign(" + short(x.Lhs[0]) + "=" + text(x.Rhs[0]) + ")")
			}
		}
	case *ast.DeclStmt:
		if gd, ok := x.Decl.(*ast.GenDecl); ok {
			for _, sp := range gd.Specs {
				vs, ok := sp.(*ast.ValueSpec)
				if !ok {
					continue
				}
				for i, v := range vs.Values {
					name := "_"
					if len(vs.Names) == len(vs.Values) {
						name = vs.Names[i].Name
					} else if len(vs.Names) > 0 {
						names := []string{}
						for _, n := range vs.Names {
							names = append(names, n.Name)
						}
						name = strings.Join(names, ",")
					}
					if fl, ok := v.(*ast.FuncLit); ok {
						w.emit("func:" + name + "{")
						w.block(fl.Body)
						w.emit("}")
						continue
					}
					before := len(w.out)
					w.expr(v)
					if len(w.out) > before {
						w.out[len(w.out)-1] = name + "=" + w.out[len(w.out)-1]
					}
				}
			}
		}
	case *ast.IfStmt:
		w.emit("if{")
		w.stmt(x.Init)
		w.expr(x.Cond)
		w.emit("cond(" + text(x.Cond) + ")")
		w.emit("then{")
		w.block(x.Body)
		w.emit("}")
		if x.Else != nil {
			w.emit("else{")
			w.stmt(x.Else)
			w.emit("}")
		}
		w.emit("}")
	case *ast.ForStmt:
		w.emit("for{")
		w.stmt(x.Init)
		if x.Cond != nil {
			w.expr(x.Cond)
			w.emit("cond(" + text(x.Cond) + ")")
		}
		w.block(x.Body)
		w.stmt(x.Post)
		w.emit("}")
	case *ast.RangeStmt:
		w.emit("range(" + short(x.X) + "){")
		w.block(x.Body)
		w.emit("}")
	case *ast.ReturnStmt:
		parts := []string{}
		for _, r := range x.Results {
			w.expr(r)
			parts = append(parts, short(r))
		}
		w.emit("return(" + strings.Join(parts, ",") + ")")
	case *ast.BranchStmt:
		w.emit(x.Tok.String())
	case *ast.DeferStmt:
		w.emit("defer{")
		w.call(x.Call)
		w.emit("}")
	case *ast.GoStmt:
		w.emit("go{")
		w.call(x.Call)
		w.emit("}")
	case *ast.SelectStmt:
		w.emit("select{")
		for _, c := range x.Body.List {
			cc := c.(*ast.CommClause)
			switch comm := cc.Comm.(type) {
			case nil:
				w.emit("default{")
			case *ast.SendStmt:
				w.emit("case:send(" + short(comm.Chan) + "," + short(comm.Value) + "){")
			case *ast.ExprStmt:
				if u, ok := comm.X.(*ast.UnaryExpr); ok && u.Op == token.ARROW {
					w.emit("case:recv(" + short(u.X) + "){")
				} else {
					w.emit("case:?{")
				}
			case *ast.AssignStmt:
				if u, ok := comm.Rhs[0].(*ast.UnaryExpr); ok && u.Op == token.ARROW {
					lhs := []string{}
					for _, l := range comm.Lhs {
						lhs = append(lhs, short(l))
					}
					w.emit("case:recv(" + short(u.X) + ")->" + strings.Join(lhs, ",") + "{")
				} else {
					w.emit("case:?{")
				}
			}
			for _, s := range cc.Body {
				w.stmt(s)
			}
			w.emit("}")
		}
		w.emit("}")
	case *ast.SendStmt:
		w.emit("send(" + short(x.Chan) + "," + short(x.Value) + ")")
	case *ast.LabeledStmt:
		w.stmt(x.Stmt)
	case *ast.SwitchStmt:
		w.emit("switch{")
		w.block(x.Body)
		w.emit("}")
	case *ast.CaseClause:
		w.emit("case{")
		for _, s := range x.Body {
			w.stmt(s)
		}
		w.emit("}")
	}
}

func funcBody(path, name string) (*ast.BlockStmt, error) {
	fset := token.NewFileSet()
	f, err := parser.ParseFile(fset, path, nil, 0)
	if err != nil {
		return nil, err
	}
	for _, d := range f.Decls {
		if fd, ok := d.(*ast.FuncDecl); ok && fd.Name.Name == name && fd.Body != nil {
			return fd.Body, nil
		}
	}
	return nil, fmt.Errorf("%s: function %s not found", path, name)
}

// packageFacts scans the non-test files of a package directory and returns
//   ctors:    every call of a cardinality constructor / wrapper (the visited / seen sets), as "file:func:ctor"
//   narrow:   every call of `.Uint32()` (an id narrowed to 32 bits), as "file:func"
//   exported: every exported top-level function and every exported method of an exported type, as "Name" / "Type.Name"
func packageFacts(dir string) (ctors, narrow, exported []string, err error) {
	fset := token.NewFileSet()
	pkgs, err := parser.ParseDir(fset, dir, func(fi os.FileInfo) bool { return !strings.HasSuffix(fi.Name(), "_test.go") }, 0)
	if err != nil {
		return nil, nil, nil, err
	}
	var files []string
	byName := map[string]*ast.File{}
	for _, pkg := range pkgs {
		for name, f := range pkg.Files {
			files = append(files, name)
			byName[name] = f
		}
	}
	sort.Strings(files)
	for _, name := range files {
		base := filepath.Base(name)
		for _, d := range byName[name].Decls {
			fd, ok := d.(*ast.FuncDecl)
			if !ok {
				continue
			}
			fname := fd.Name.Name
			if fd.Recv != nil && len(fd.Recv.List) == 1 {
				rt := strings.TrimPrefix(text(fd.Recv.List[0].Type), "*")
				if i := strings.Index(rt, "["); i >= 0 {
					rt = rt[:i]
				}
				if ast.IsExported(rt) && fd.Name.IsExported() {
					exported = append(exported, rt+"."+fname)
				}
				fname = rt + "." + fname
			} else if fd.Name.IsExported() {
				exported = append(exported, fname)
			}
			if fd.Body == nil {
				continue
			}
			ast.Inspect(fd.Body, func(n ast.Node) bool {
				c, ok := n.(*ast.CallExpr)
				if !ok {
					return true
				}
				if sel, ok := c.Fun.(*ast.SelectorExpr); ok {
					if id, ok := sel.X.(*ast.Ident); ok && id.Name == "cardinality" {
						ctors = append(ctors, base+":"+fname+":"+sel.Sel.Name)
					}
					if sel.Sel.Name == "Uint32" && len(c.Args) == 0 {
						narrow = append(narrow, base+":"+fname)
					}
				}
				return true
			})
		}
	}
	sort.Strings(exported)
	return ctors, narrow, exported, nil
}

func leanList(name string, toks []string) string {
	var sb strings.Builder
	fmt.Fprintf(&sb, "def %s : List String := [\n", name)
	for i, t := range toks {
		sep := ","
		if i == len(toks)-1 {
			sep = ""
		}
		fmt.Fprintf(&sb, "  %q%s\n", t, sep)
	}
	sb.WriteString("]\n\n")
	return sb.String()
}

func main() {
	repo := flag.String("repo", "/repo", "repository root")
	out := flag.String("out", "", "output Lean file")
	flag.Parse()
	type item struct{ lean, file, fn string }
	items := []item{
		{"breadthFirst", "traversal/traversal.go", "BreadthFirst"},
		{"bufferedPipe", "util/channels/pipe.go", "BufferedPipe"},
		{"submitFn", "util/channels/channels.go", "Submit"},
		{"receiveFn", "util/channels/channels.go", "Receive"},
	}
	var sb strings.Builder
	sb.WriteString("/- GENERATED on every run by tools/extract/c17order (go/ast, syntax only) from\n   traversal/traversal.go, util/channels/pipe.go, util/channels/channels.go — do not edit. -/\nnamespace Dawgs.Generated.C17\n\n")
	for _, it := range items {
		body, err := funcBody(filepath.Join(*repo, it.file), it.fn)
		if err != nil {
			fmt.Fprintln(os.Stderr, "c17order:", err)
			os.Exit(1)
		}
		w := &walker{}
		w.block(body)
		sb.WriteString(leanList(it.lean, w.out))
	}
	for _, pkg := range []string{"ops", "traversal"} {
		ctors, narrow, exported, err := packageFacts(filepath.Join(*repo, pkg))
		if err != nil {
			fmt.Fprintln(os.Stderr, "c17order:", err)
			os.Exit(1)
		}
		sb.WriteString(leanList(pkg+"SetCtors", ctors))
		names := make([]string, len(ctors))
		for i, c := range ctors {
			names[i] = c[strings.LastIndex(c, ":")+1:]
		}
		sb.WriteString(leanList(pkg+"SetCtorNames", names))
		sb.WriteString(leanList(pkg+"IdNarrowings", narrow))
		if pkg == "traversal" {
			sb.WriteString(leanList(pkg+"Exported", exported))
		}
	}
	sb.WriteString("end Dawgs.Generated.C17\n")
	if *out == "" {
		fmt.Print(sb.String())
		return
	}
	if err := os.WriteFile(*out, []byte(sb.String()), 0o644); err != nil {
		fmt.Fprintln(os.Stderr, "c17order:", err)
		os.Exit(1)
	}
}
