module c17order

go 1.26.4
